import MgpuModel.C01_Kernels3
import MgpuProofs.C01BarEx
import MgpuProofs.C01Tile
import MgpuProofs.C01TTCode
/-! # C01 — an LDS + barrier kernel class: the barrier rounds of `runWG`, and one tile of `matrixTranspose`

Third deepening.  The shipped kernel is `matrixTranspose` of amd/benchmarks/amdappsdk/matrixtranspose/kernels.hsaco
(literal `transposeKernelCode`, tied to the loader by the case `c01 ttcode`; the Lean emulator runs it against the
real emulator in the `c01 emu` cases of harness/c01_tt.go).

* `runWG_one_barrier` — the loop of `emu.ComputeUnit.runWG` on a work-group with ONE `S_BARRIER`: phase-1
  descriptions (to the barrier: LDS writes) and phase-2 descriptions (from the barrier: global writes that may read
  the LDS content ALL wavefronts produced) compose to the effect of the work-group.  For every program, every number
  of wavefronts, every memory.
* `transpose_lds_after_phase1`, `transpose_tile_algebra`, `transposeTile_correct` — the per-work-group statement of
  the kernel's algorithm (native/MatrixTranspose_Kernels.cl) at the level of these descriptions: a 16x16 work-group
  whose four wavefronts move the bytes the kernel source says leaves float (C, R) of the 64x64 input tile at float
  (R, C) of the output tile, byte for byte, and no other byte of memory changed; every tile position, matrix size,
  address and memory content.
* `transposeKernel_lds_insts` — the LDS / barrier / memory instructions of the SHIPPED code bytes: the C04 decoder
  (evaluated by the kernel) finds four `flat_load_dwordx4`, four `ds_write2_b64 … offset1:1`, the `s_barrier` at byte
  516, four `ds_read2_b64 … offset1:1`, four `flat_store_dwordx4`, `s_endpgm` at byte 752, and the C03V specification
  gives the eight DS instructions the meaning "16 bytes per active lane at `VGPR[addr]`" (two adjacent 8-byte halves).

What is NOT proved (see notes/C01.md): that the 173 instructions of the shipped code realise the phase descriptions
(`Phase1 … lwWave`, `Phase2 … wrWave`) — the per-wavefront symbolic execution, which includes the per-lane unsigned
division sequence for `(gix + giy) % num_of_blocks_x` — and the lifting over the grid. -/
set_option linter.unusedVariables false
set_option maxRecDepth 100000
namespace C01
namespace Emu
open C03V

/-- **runWG_one_barrier.** A work-group (any non-empty list of wavefronts) in which every wavefront `w` has a
    phase-1 description (`Phase1`: from any admissible memory and ANY LDS content it runs to `S_BARRIER`; memory
    content unchanged; LDS content changed by the byte writes `lw w`; the parked wavefront satisfies `Q w`) and every
    parked wavefront, once released, a phase-2 description (`Phase2`: with the LDS content
    `applyWrites (ws.flatMap lw) L0` — the writes of ALL wavefronts, in wavefront order, on the initial content — it
    runs to `S_ENDPGM`, LDS unchanged, memory changed by `wr w`): `runWG` returns without fault after two passes, the
    memory content is the initial one with the phase-2 writes of all wavefronts applied, and stays admissible. -/
theorem runWG_one_barrier (P : Program) (base fuel rounds : Nat) (Ok : Mem → Prop) (L0 : Nat → Nat)
    (lw wr : Wave → List (Nat × Nat)) (Q : Wave → Wave → Prop) (ws : List Wave) (hne : ws ≠ [])
    (h1 : ∀ w ∈ ws, Phase1 P base fuel Ok w (lw w) (Q w))
    (h2 : ∀ w ∈ ws, ∀ w1, Q w w1 → w1.completed = false →
      Phase2 P base fuel Ok (applyWrites (ws.flatMap lw) L0) { w1 with atBarrier := false } (wr w))
    (m l : Mem) (hok : Ok m) (hl : get l = L0) :
    ∃ m', runWG P base fuel (rounds + 2) ws m l = .ok m' ∧
      get m' = applyWrites (ws.flatMap wr) (get m) ∧ Ok m' :=
  runWG_barrier_round P base fuel rounds Ok L0 lw wr Q ws hne h1 h2 m l hok hl

/-- **transpose_lds_after_phase1.** After the phase-1 writes of the four wavefronts of a 16x16 work-group
    (`block[liy*64 + lix + 16 r] = input[index_in + r*wiWidth]`), whatever the LDS held before: byte `j` of LDS float4
    `16 ρ + q` is byte `j` of float4 column `q` in row `ρ` of the 64x64-float input tile. -/
theorem transpose_lds_after_phase1 (T : TT.Tile) (f0 L0 : Nat → Nat) (ρ q j : Nat) (hρ : ρ < 64) (hq : q < 16) (hj : j < 16) :
    applyWrites (TT.lwAll T f0) L0 (16 * (16 * ρ + q) + j) = f0 (T.inF4 ρ q + j) :=
  TT.lds_content T f0 L0 ρ q j hρ hq hj

/-- **transpose_tile_algebra.** The phase-2 writes (`v_r = block[lix*64 + liy + 16 r]`,
    `output[index_out + c*wiHeight] = (v_0[c], v_1[c], v_2[c], v_3[c])`) reading that LDS content, applied to any
    memory content `g`: byte `b` of float (R, C) of the output tile = byte `b` of float (C, R) of the input tile, and
    every address outside the output tile keeps its content. -/
theorem transpose_tile_algebra (T : TT.Tile) (hT : T.Fits) (f0 L0 g : Nat → Nat) :
    let g' := applyWrites (TT.wrAll T (applyWrites (TT.lwAll T f0) L0)) g
    (∀ R C b, R < 64 → C < 64 → b < 4 → g' (T.outAddr R C + b) = f0 (T.inAddr C R + b)) ∧
    (∀ a, (∀ R C b, R < 64 → C < 64 → b < 4 → a ≠ T.outAddr R C + b) → g' a = g a) :=
  TT.tile_algebra T hT f0 L0 g

/-- **transposeTile_correct** (per-work-group lemma: one tile transposed through LDS with the barrier).  A work-group
    whose wavefronts have phase descriptions that concatenate to the kernel's data movement (`lwAll`: the input tile
    into LDS; `wrAll`: LDS columns gathered into output rows) runs through `runWG` — two passes, `resolveBarrier` in
    between — without fault, leaves the TRANSPOSED tile in the output matrix, byte for byte (`f0` = the input
    content the phase-1 descriptions were taken on), and every other byte of memory unchanged. -/
theorem transposeTile_correct (T : TT.Tile) (hT : T.Fits) (f0 L0 : Nat → Nat)
    (P : Program) (base fuel rounds : Nat) (Ok : Mem → Prop)
    (lw wr : Wave → List (Nat × Nat)) (Q : Wave → Wave → Prop) (ws : List Wave) (hne : ws ≠ [])
    (hlw : ws.flatMap lw = TT.lwAll T f0)
    (hwr : ws.flatMap wr = TT.wrAll T (applyWrites (TT.lwAll T f0) L0))
    (h1 : ∀ w ∈ ws, Phase1 P base fuel Ok w (lw w) (Q w))
    (h2 : ∀ w ∈ ws, ∀ w1, Q w w1 → w1.completed = false →
      Phase2 P base fuel Ok (applyWrites (TT.lwAll T f0) L0) { w1 with atBarrier := false } (wr w))
    (m l : Mem) (hok : Ok m) (hl : get l = L0) :
    ∃ m', runWG P base fuel (rounds + 2) ws m l = .ok m' ∧ Ok m' ∧
      (∀ R C b, R < 64 → C < 64 → b < 4 → get m' (T.outAddr R C + b) = f0 (T.inAddr C R + b)) ∧
      (∀ a, (∀ R C b, R < 64 → C < 64 → b < 4 → a ≠ T.outAddr R C + b) → get m' a = get m a) :=
  TT.tile_transposed T hT f0 L0 P base fuel rounds Ok lw wr Q ws hne hlw hwr h1 h2 m l hok hl

/-! ## the shipped code bytes -/

/-- **transposeKernel_lds_insts.** The memory / LDS / barrier skeleton of the shipped code bytes, by evaluating the
    C04 decoder and the C03V specification: loads at 320/444/464/484, LDS writes at 436/456/476/504 (addresses
    v12, v13, v15, v16), `s_barrier` at 516, LDS reads at 540/552/560/568 (addresses v10, v17, v18, v15), stores at
    608/672/704/744, `s_endpgm` at 752. -/
theorem transposeKernel_lds_insts :
    (∀ k ∈ [320, 444, 464, 484], DecV (ttWin k) 17 23 8) ∧
    (∀ k ∈ [436, 456, 476, 504], DecV (ttWin k) 12 78 8) ∧
    DecV (ttWin transposeBarrierAt) 4 10 4 ∧
    (∀ k ∈ [540, 552, 560, 568], DecV (ttWin k) 12 119 8) ∧
    (∀ k ∈ [608, 672, 704, 744], DecV (ttWin k) 17 31 8) ∧
    DecV (ttWin 752) 4 1 4 ∧
    (∀ st, exec false st (ttWin 436) = some ("ds_write2_b64", dsWrite16 st 12 2 4)) ∧
    (∀ st, exec false st (ttWin 456) = some ("ds_write2_b64", dsWrite16 st 13 1 3)) ∧
    (∀ st, exec false st (ttWin 476) = some ("ds_write2_b64", dsWrite16 st 15 1 3)) ∧
    (∀ st, exec false st (ttWin 504) = some ("ds_write2_b64", dsWrite16 st 16 1 3)) ∧
    (∀ st, exec false st (ttWin 540) = some ("ds_read2_b64", dsRead16 st 10 11)) ∧
    (∀ st, exec false st (ttWin 552) = some ("ds_read2_b64", dsRead16 st 17 0)) ∧
    (∀ st, exec false st (ttWin 560) = some ("ds_read2_b64", dsRead16 st 18 4)) ∧
    (∀ st, exec false st (ttWin 568) = some ("ds_read2_b64", dsRead16 st 15 15)) := by
  refine ⟨?_, ?_, DecV_of_ok (by decide +kernel), ?_, ?_, DecV_of_ok (by decide +kernel),
    fun st => by rw [ttw436]; exact ttx436 st, fun st => by rw [ttw456]; exact ttx456 st,
    fun st => by rw [ttw476]; exact ttx476 st, fun st => by rw [ttw504]; exact ttx504 st,
    fun st => by rw [ttw540]; exact ttx540 st, fun st => by rw [ttw552]; exact ttx552 st,
    fun st => by rw [ttw560]; exact ttx560 st, fun st => by rw [ttw568]; exact ttx568 st⟩
  all_goals
    intro k hk
    simp only [List.mem_cons, List.mem_nil_iff, or_false] at hk
    rcases hk with rfl | rfl | rfl | rfl <;> exact DecV_of_ok (by decide +kernel)

/-! ## the hypotheses are met -/

/-- `runWG_one_barrier` on a real program: ANY two wavefronts standing at the entry of `s_barrier; s_endpgm` have
    phase-1 and phase-2 descriptions, the work-group runs through the barrier round and memory is unchanged -/
example (base fuel rounds : Nat) (wa wb : Wave) (ha : wa.completed = false) (hb : wb.completed = false)
    (hpa : wa.st.pc = base) (hpb : wb.st.pc = base) (m l : Mem) :
    ∃ m', runWG BarEx.barProg base (fuel + 1) (rounds + 2) [wa, wb] m l = .ok m' ∧ get m' = get m := by
  obtain ⟨m', hr, hg, _⟩ := runWG_one_barrier BarEx.barProg base (fuel + 1) rounds (fun _ => True) (get l)
    (fun _ => []) (fun _ => []) (BarEx.Mid base) [wa, wb] (by simp)
    (by
      intro w hw
      simp only [List.mem_cons, List.mem_nil_iff, or_false] at hw
      rcases hw with rfl | rfl
      · exact BarEx.phase1 base fuel _ ha hpa
      · exact BarEx.phase1 base fuel _ hb hpb)
    (fun w _ w1 hq hc => BarEx.phase2 base fuel _ w w1 hq hc) m l trivial rfl
  exact ⟨m', hr, by rw [hg]; rfl⟩

/-- the tile of the benchmark's smallest admissible size (width 64: `wiWidth = wiHeight = 16`, one work-group) and
    an inner tile of width 256 fit -/
example : (TT.Tile.mk 0x1000 0x5000 16 16 0 0).Fits := ⟨by decide, by decide⟩
example : (TT.Tile.mk 0x1000 0x41000 64 64 3 2).Fits := ⟨by decide, by decide⟩

/-- the descriptions are not empty: a 16x16 work-group writes 16 KiB of LDS and 16 KiB of output -/
example : (TT.lwAll (TT.Tile.mk 0x1000 0x5000 16 16 0 0) (fun a => a % 251)).length = 16384 ∧
    (TT.wrAll (TT.Tile.mk 0x1000 0x5000 16 16 0 0) (fun a => a % 251)).length = 16384 := by decide +kernel

/-- transposition seen on one element: float (R, C) = (5, 9) of the output tile of width 64 receives the bytes of
    input float (9, 5) = address inp + 4 * (9 * 64 + 5) -/
example : (TT.Tile.mk 0x1000 0x5000 16 16 0 0).outAddr 5 9 = 0x5000 + 4 * (5 * 64 + 9) ∧
    (TT.Tile.mk 0x1000 0x5000 16 16 0 0).inAddr 9 5 = 0x1000 + 4 * (9 * 64 + 5) := by decide

end Emu
end C01
