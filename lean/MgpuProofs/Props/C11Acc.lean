import MgpuModel.C11
import MgpuProofs.C11Copy
import MgpuProofs.Props.C11
import MgpuProofs.C11AccStep
/-! # C11 — the emulator's storage accessor across page-table CHANGES (property theorems)

`accRun s ops` (`MgpuModel/C11.lean`) runs a list of steps: the page table changes (`setPt`: what
`Driver.Remap`, `Distribute`, `FreeMemory` or a new allocation do to it), or an access is made with the
page-splitting loop of `storageAccessorImpl.Read/Write` (`h2d` / `d2h`) under the table CURRENT at that
step. The correspondence check (`c11 accrun` case lines) drives one real accessor object through such
histories, so a translation remembered from an earlier access would show up as a difference. The
theorems below say what the page-wise model means byte by byte. -/
namespace C11

/-- **Every access goes to the frame the page table names NOW (run level).** For every history of
    table changes and accesses in which all tables are injective (C10's allocator invariant), the
    page-wise model — the loop of `storageAccessorImpl.Read/Write` run under the table current at
    each step — equals the per-byte specification `accSpecRun`: a write puts byte `k` at
    `translate pt_now (a+k)` and changes nothing else, a read returns for byte `i` the content of
    `translate pt_now (a+i)`, an access with an unmapped byte panics. Nothing of an earlier table
    survives into a later access: a remembered translation is excluded by the model, and the
    correspondence check excludes it for the real accessor. -/
theorem acc_run_uses_current_table (s : AccSt) (ops : List AccOp) (hinj : PtInj s.pt)
    (hops : ∀ pt, AccOp.setPt pt ∈ ops → PtInj pt) : accRun s ops = accSpecRun s ops := by
  unfold accRun accSpecRun
  induction ops generalizing s with
  | nil => rfl
  | cons op rest ih =>
    simp only [List.foldl]
    rw [accStep_eq_spec s hinj op]
    apply ih
    · cases op with
      | setPt pt => exact hops pt (List.mem_cons_self ..)
      | write a d => simp only [accSpecStep]; split <;> exact hinj
      | read a l => simp only [accSpecStep]; split <;> exact hinj
    · intro pt hp; exact hops pt (List.mem_cons_of_mem _ hp)

/-- the table of `demoPt` after the page at virtual 20 was moved from frame 100 to frame 112 -/
def demoPtMoved : List Page := [⟨16, 108, 4⟩, ⟨20, 112, 4⟩, ⟨24, 104, 4⟩]

example : PtInj demoPtMoved := by decide

/-- non-vacuity: write 8 bytes at 18 (frames 108, 100, 104), the middle page moves to frame 112, the
    same range is read: the middle four bytes are the old content of frame 112, not the data; after
    moving back the data is there again; an access to a page removed from the table panics -/
example : (accRun ⟨demoPt, fun a => a % 7, []⟩
    [.write 18 [1, 2, 3, 4, 5, 6, 7, 8], .setPt demoPtMoved, .read 18 8, .setPt demoPt, .read 18 8,
     .setPt [⟨16, 108, 4⟩, ⟨24, 104, 4⟩], .read 18 8, .read 24 2]).outs =
    [some [], some [1, 2, 0, 1, 2, 3, 7, 8], some [1, 2, 3, 4, 5, 6, 7, 8], none, some [7, 8]] := by decide

/-- **Write, table change, read.** After a write of `d` at `a` under `pt1` and a change of the table
    to `pt2`, a read of `[a', a'+l)` returns for byte `i` the content of the frame `pt2` names for
    `a'+i`: the written byte `d[k]` exactly when that physical address is where `pt1` put byte `k`
    (the page did not move, or another page now sits on that frame), otherwise the memory content
    from before the write. -/
theorem acc_read_after_table_change (pt1 pt2 : List Page) (h1 : PtInj pt1) (h2 : PtInj pt2) (m : Mem)
    (a : Nat) (d : List Nat) (a' l : Nat)
    (hm1 : mappedRange pt1 a d.length = true) (hm2 : mappedRange pt2 a' l = true) :
    (accRun ⟨pt1, m, []⟩ [.write a d, .setPt pt2, .read a' l]).outs =
      [some [], some ((List.range l).map fun i => physWrite pt1 a d m (tr pt2 (a' + i)))] := by
  rw [acc_run_uses_current_table _ _ h1 (by
    intro pt hp
    simp only [List.mem_cons, AccOp.setPt.injEq, reduceCtorEq, List.not_mem_nil, or_false, false_or] at hp
    rw [hp]; exact h2)]
  simp [accSpecRun, accSpecStep, hm1, hm2]

/-- a byte whose page did not move is read back; a byte whose page moved to a frame the write did not
    touch shows that frame's old content -/
theorem acc_read_after_table_change_cases (pt1 pt2 : List Page) (h1 : PtInj pt1) (m : Mem)
    (a : Nat) (d : List Nat) (v : Nat) :
    (∀ k, k < d.length → translate pt1 (a + k) = translate pt2 (a + k) → translate pt1 (a + k) ≠ none →
      physWrite pt1 a d m (tr pt2 (a + k)) = d.getD k 0) ∧
    ((∀ k, k < d.length → translate pt1 (a + k) ≠ some (tr pt2 v)) →
      physWrite pt1 a d m (tr pt2 v) = m (tr pt2 v)) := by
  constructor
  · intro k hk he hne
    unfold physWrite
    have hq : translate pt1 (a + k) = some (tr pt2 (a + k)) := by
      rw [he]; exact translate_eq_tr (by rw [← he]; exact hne)
    cases hf : (List.range d.length).find? (fun j => translate pt1 (a + j) == some (tr pt2 (a + k))) with
    | some j =>
      have hj := List.find?_some hf
      simp only [beq_iff_eq] at hj
      have : a + j = a + k := translate_inj h1 hj hq
      have : j = k := by omega
      rw [this]
    | none =>
      rw [List.find?_eq_none] at hf
      have := hf k (List.mem_range.2 hk)
      simp [hq] at this
  · intro hno
    unfold physWrite
    cases hf : (List.range d.length).find? (fun j => translate pt1 (a + j) == some (tr pt2 v)) with
    | some j =>
      have hj := List.find?_some hf
      simp only [beq_iff_eq] at hj
      exact absurd hj (hno j (List.mem_range.1 (List.mem_of_find?_eq_some hf)))
    | none => rfl

example : physWrite demoPt 18 [1, 2, 3, 4, 5, 6, 7, 8] (fun a => a % 7) (tr demoPtMoved 21) = 1 ∧
    physWrite demoPt 18 [1, 2, 3, 4, 5, 6, 7, 8] (fun a => a % 7) (tr demoPtMoved 25) = 8 := by decide

end C11
