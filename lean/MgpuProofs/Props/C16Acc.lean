import MgpuProofs.C16AccTx
import MgpuProofs.Props.C16Deep
/-! # C16 — third deepening: per-access liveness while accesses keep arriving for ever

Closed world as before (`Reach c e w`: translator + honest translation service + honest memory +
bounded ports + Akita's wake rule); the schedule is now an arbitrary infinite sequence of moves in
which **new accesses may arrive for ever** (`wrun`). The global measure `wmu` of `at_fair_liveness`
is useless here (every arrival increases it); instead every single access gets its own rank
(stage × position in its queue × blocked-flag of the port the stage sends to). -/
namespace C16

/-- **The fairness assumption, per lookup / per request / per port.** Along the run of `sched` from `w0`:
* no flush / restart while waiting (accesses arrive freely, at any rate, for ever);
* the engine runs a scheduled tick event again and again;
* each of the three outgoing ports is polled again and again by its neighbour (a full port eventually
  drains; polling an empty port is a no-op);
* **per-lookup fairness**: every lookup the translation service holds is eventually answered — a reply
  to it appears at the translation port (which lookup is answered when, and how many younger ones
  overtake it, is free);
* per-request fairness of the memory, likewise. -/
structure AFair (c : Cfg) (e : Env) (w0 : CW) (sched : Nat → HOp) : Prop where
  noctl : ∀ i, (sched i).noCtl = true
  tick : ∀ n, ∃ m, n ≤ m ∧ sched m = .tick
  top : ∀ n, ∃ m, n ≤ m ∧ sched m = .drainTop
  bot : ∀ n, ∃ m, n ≤ m ∧ sched m = .drainBot
  tr : ∀ n, ∃ m, n ≤ m ∧ sched m = .drainTr
  lookup : ∀ n q, q ∈ (wrun c e w0 sched n).envT →
    ∃ m, n ≤ m ∧ ∃ r ∈ (wrun c e w0 sched m).s.trIn, r.rspTo = q.tid
  memory : ∀ n b, b ∈ (wrun c e w0 sched n).envM →
    ∃ m, n ≤ m ∧ ∃ r ∈ (wrun c e w0 sched m).s.botIn, r.rspTo = b.bid

/-- where one access is, and how far from the next stage: `(stage, rank)`; stage 1 = at the top port
(rank: accesses ahead × translation port full), 2 = waiting in a transaction whose reply is at the
port or recorded (rank, lexicographic: replies ahead / head reply unrecorded, then requests waiting in
completed transactions / bottom port full), 3 = in flight with the memory's response at the bottom
port (rank: responses ahead × top port full); in between it sits in a FIFO of a neighbour. -/
noncomputable def apos (c : Cfg) (a : Acc) (tid bid : Nat) (s : St) : Nat × (Nat × Nat) :=
  if a ∈ s.topIn then (1, (rho1 c a s, 0))
  else if (∃ t ∈ s.txs, a ∈ t.reqs) then (2, rho2 c tid s)
  else (3, (rho3 c bid s, 0))

section
variable {c : Cfg} {e : Env} {w0 : CW} {sched : Nat → HOp}

theorem width_pos_of_topIn {w : CW} (hr : Reach c e w) {a : Acc} (h : a ∈ w.s.topIn) : 0 < c.width := by
  by_cases hw : 0 < c.width
  · exact hw
  · have := (reach_w0 (by omega) hr).topIn
    rw [this] at h; simp at h

theorem fair_kinds (hf : AFair c e w0 sched) (k : Nat) (hk : k = 0 ∨ k = 3 ∨ k = 4 ∨ k = 5) :
    ∀ n, ∃ m, n ≤ m ∧ (sched m).kind = k := by
  intro n
  rcases hk with rfl | rfl | rfl | rfl
  · obtain ⟨m, h1, h2⟩ := hf.tick n; exact ⟨m, h1, by rw [h2]; rfl⟩
  · obtain ⟨m, h1, h2⟩ := hf.top n; exact ⟨m, h1, by rw [h2]; rfl⟩
  · obtain ⟨m, h1, h2⟩ := hf.bot n; exact ⟨m, h1, by rw [h2]; rfl⟩
  · obtain ⟨m, h1, h2⟩ := hf.tr n; exact ⟨m, h1, by rw [h2]; rfl⟩

/-- **Stage 1.** An access at the top port is accepted (or beyond), however many accesses arrive behind it. -/
theorem at_access_eventually_accepted (h0 : Reach c e w0) (nc0 : NC w0.s) (hf : AFair c e w0 sched)
    (a : Acc) (n : Nat) (ha : a ∈ (wrun c e w0 sched n).s.topIn) :
    ∃ m, n ≤ m ∧ B1 (wrun c e w0 sched m).s a := by
  have hw := width_pos_of_topIn (wrun_reach sched h0 n) ha
  refine (stage1 c a).leads Nat.lt_wfRel.wf hk1 (fun w hr nc o ho hk => strict1 hw a w hr nc o ho hk)
    h0 nc0 hf.noctl ?_ n ha
  intro n b
  unfold hk1
  split
  · exact fair_kinds hf 5 (by simp) n
  · exact fair_kinds hf 0 (by simp) n

/-- **Stage 3 (core).** In flight with the memory's response at the bottom port → answered. -/
theorem at_response_eventually_returned (hw : 0 < c.width) (h0 : Reach c e w0) (nc0 : NC w0.s)
    (hf : AFair c e w0 sched) (a : Acc) (bid : Nat) (n : Nat) (hp : P3 a bid (wrun c e w0 sched n).s) :
    ∃ m, n ≤ m ∧ Ans (wrun c e w0 sched m).s a := by
  refine (stage3 c a bid).leads Nat.lt_wfRel.wf hk3 (fun w hr nc o ho hk => strict3 hw a bid w hr nc o ho hk)
    h0 nc0 hf.noctl ?_ n hp
  intro n b
  unfold hk3
  split
  · exact fair_kinds hf 3 (by simp) n
  · exact fair_kinds hf 0 (by simp) n

/-- **Stage 2 (core).** Waiting in a transaction whose reply is at the translation port or recorded →
forwarded. This is where recording a reply while the bottom port is full, draining completed
transactions first and coalescing of later arrivals are handled (lexicographic rank). -/
theorem at_reply_eventually_forwards (hw : 0 < c.width) (h0 : Reach c e w0) (nc0 : NC w0.s)
    (hf : AFair c e w0 sched) (a : Acc) (tid : Nat) (n : Nat) (hp : P2 a tid (wrun c e w0 sched n).s) :
    ∃ m, n ≤ m ∧ B2 (wrun c e w0 sched m).s a := by
  refine (stage2 c a tid).leads lt2_wf hk2 (fun w hr nc o ho hk => strict2 hw a tid w hr nc o ho hk)
    h0 nc0 hf.noctl ?_ n hp
  intro n b
  unfold hk2
  split
  · exact fair_kinds hf 4 (by simp) n
  · exact fair_kinds hf 0 (by simp) n

/-- in flight → answered (through the bottom port's outgoing buffer, the memory — per-request fairness —
and the bottom port's incoming buffer) -/
theorem at_inflight_eventually_answered (hw : 0 < c.width) (h0 : Reach c e w0) (nc0 : NC w0.s)
    (hf : AFair c e w0 sched) (a : Acc) (n : Nat) (hp : B2 (wrun c e w0 sched n).s a) :
    ∃ m, n ≤ m ∧ Ans (wrun c e w0 sched m).s a := by
  rcases hp with ⟨f, hfm, hfa⟩ | h
  case inr => exact ⟨n, Nat.le_refl _, h⟩
  have keep := (keep3 c a f.breq.bid).keep_run h0 nc0 hf.noctl (e := e)
  -- from the moment the response is at the port
  have fromPort : ∀ k, n ≤ k → (∃ r ∈ (wrun c e w0 sched k).s.botIn, r.rspTo = f.breq.bid) →
      ∃ m, n ≤ m ∧ Ans (wrun c e w0 sched m).s a := by
    intro k hk hr
    have hkk : n + (k - n) = k := by omega
    have hkeep := keep n ⟨f, hfm, hfa, rfl⟩ (k - n)
    rw [hkk] at hkeep
    rcases hkeep with h | h
    · exact ⟨k, hk, h⟩
    · obtain ⟨m, h1, h2⟩ := at_response_eventually_returned hw h0 nc0 hf a f.breq.bid k ⟨h, hr⟩
      exact ⟨m, by omega, h2⟩
  have fromMem : ∀ k, n ≤ k → f.breq ∈ (wrun c e w0 sched k).envM →
      ∃ m, n ≤ m ∧ Ans (wrun c e w0 sched m).s a := by
    intro k hk hm
    obtain ⟨m, h1, h2⟩ := hf.memory k _ hm
    exact fromPort m (by omega) h2
  rcases (reach_winv (wrun_reach sched h0 n)).t.pm f hfm with h | h | h
  · obtain ⟨pre, post, hsplit⟩ := List.append_of_mem h
    obtain ⟨m, h1, h2⟩ := botOut_reaches h0 nc0 hf.noctl hf.bot f.breq pre n post hsplit
    exact fromMem m h1 h2
  · exact fromMem n (Nat.le_refl _) h
  · exact fromPort n (Nat.le_refl _) h

/-- accepted → forwarded (through the translation port's outgoing buffer, the translation service —
**per-lookup fairness** — and the translation port's incoming buffer) -/
theorem at_accepted_eventually_forwarded (hw : 0 < c.width) (h0 : Reach c e w0) (nc0 : NC w0.s)
    (hf : AFair c e w0 sched) (a : Acc) (n : Nat) (hp : B1 (wrun c e w0 sched n).s a) :
    ∃ m, n ≤ m ∧ B2 (wrun c e w0 sched m).s a := by
  rcases hp with ⟨t, htm, hat⟩ | h
  case inr => exact ⟨n, Nat.le_refl _, h⟩
  have keep := (keep2 c a t.treq.tid).keep_run h0 nc0 hf.noctl (e := e)
  have fromPort : ∀ k, n ≤ k → (∃ r ∈ (wrun c e w0 sched k).s.trIn, r.rspTo = t.treq.tid) →
      ∃ m, n ≤ m ∧ B2 (wrun c e w0 sched m).s a := by
    intro k hk hr
    have hkk : n + (k - n) = k := by omega
    have hkeep := keep n ⟨t, htm, rfl, hat⟩ (k - n)
    rw [hkk] at hkeep
    rcases hkeep with h | ⟨t', h1, h2, h3⟩
    · exact ⟨k, hk, h⟩
    · obtain ⟨m, g1, g2⟩ := at_reply_eventually_forwards hw h0 nc0 hf a t.treq.tid k ⟨t', h1, h2, h3, Or.inr hr⟩
      exact ⟨m, by omega, g2⟩
  have fromSvc : ∀ k, n ≤ k → t.treq ∈ (wrun c e w0 sched k).envT →
      ∃ m, n ≤ m ∧ B2 (wrun c e w0 sched m).s a := by
    intro k hk hm
    obtain ⟨m, h1, h2⟩ := hf.lookup k _ hm
    exact fromPort m (by omega) h2
  cases hd : t.done with
  | true =>
    exact at_reply_eventually_forwards hw h0 nc0 hf a t.treq.tid n ⟨t, htm, rfl, hat, Or.inl hd⟩
  | false =>
    rcases (reach_winv (wrun_reach sched h0 n)).t.pt_ t htm hd with h | h | h
    · obtain ⟨pre, post, hsplit⟩ := List.append_of_mem h
      obtain ⟨m, h1, h2⟩ := trOut_reaches h0 nc0 hf.noctl hf.tr t.treq pre n post hsplit
      exact fromSvc m h1 h2
    · exact fromSvc n (Nat.le_refl _) h
    · exact fromPort n (Nat.le_refl _) h

/-- **Per-access liveness under an arbitrary infinite arrival stream.** Every reachable world without
control traffic pending, every infinite schedule of moves — new accesses arriving for ever, at any rate,
to any pages, coalescing into pending transactions or not — that satisfies `AFair`: an access that is
at the top port at any time `n` is answered (a response with its id is sent through the top port) at
some later time. No bound on the time exists (none can: the number of younger accesses that are forwarded
before this one is unbounded). -/
theorem at_access_eventually_answered (h0 : Reach c e w0) (nc0 : NC w0.s) (hf : AFair c e w0 sched)
    (a : Acc) (n : Nat) (ha : a ∈ (wrun c e w0 sched n).s.topIn) :
    ∃ m, n ≤ m ∧ Ans (wrun c e w0 sched m).s a := by
  have hw := width_pos_of_topIn (wrun_reach sched h0 n) ha
  obtain ⟨m1, h1, g1⟩ := at_access_eventually_accepted h0 nc0 hf a n ha
  obtain ⟨m2, h2, g2⟩ := at_accepted_eventually_forwarded hw h0 nc0 hf a m1 g1
  obtain ⟨m3, h3, g3⟩ := at_inflight_eventually_answered hw h0 nc0 hf a m2 g2
  exact ⟨m3, by omega, g3⟩

/-- once answered, answered for ever (the log only grows) -/
theorem at_answered_stays (h0 : Reach c e w0) (nc0 : NC w0.s) (hs : ∀ i, (sched i).noCtl = true) (a : Acc)
    (n : Nat) (h : Ans (wrun c e w0 sched n).s a) : ∀ d, Ans (wrun c e w0 sched (n + d)).s a := by
  intro d
  induction d with
  | zero => exact h
  | succ d ih =>
    exact ((keep3 c a 0).hmove (wrun_reach sched h0 (n + d)) (wrun_nc h0 nc0 hs (n + d)) _ (hs (n + d))).1 ih

end

/-! ## without per-lookup fairness an access can starve -/

/-- `AFair` with the per-lookup fairness weakened to per-kind fairness: the translation service makes an
answering move again and again (everything else as in `AFair`, per-request fairness of the memory included) -/
structure KFair (c : Cfg) (e : Env) (w0 : CW) (sched : Nat → HOp) : Prop where
  noctl : ∀ i, (sched i).noCtl = true
  tick : ∀ n, ∃ m, n ≤ m ∧ sched m = .tick
  top : ∀ n, ∃ m, n ≤ m ∧ sched m = .drainTop
  bot : ∀ n, ∃ m, n ≤ m ∧ sched m = .drainBot
  tr : ∀ n, ∃ m, n ≤ m ∧ sched m = .drainTr
  svc : ∀ n, ∃ m, n ≤ m ∧ ∃ j, sched m = .ansT j
  memory : ∀ n b, b ∈ (wrun c e w0 sched n).envM →
    ∃ m, n ≤ m ∧ ∃ r ∈ (wrun c e w0 sched m).s.botIn, r.rspTo = b.bid

/-- per-access liveness with per-kind fairness of the translation service only -/
def at_access_eventually_answered_full : Prop :=
  ∀ (c : Cfg) (e : Env) (w0 : CW) (sched : Nat → HOp), Reach c e w0 → NC w0.s → KFair c e w0 sched →
    ∀ (a : Acc) (n : Nat), a ∈ (wrun c e w0 sched n).s.topIn → ∃ m, n ≤ m ∧ Ans (wrun c e w0 sched m).s a

def sPl : Payload := ⟨false, 4, [], [], false⟩
def sA0 : Acc := ⟨0, 0, 0, sPl⟩
def sQ0 : TReq := ⟨0, 0, 0⟩
def sT0 : Tx := ⟨[sA0], sQ0, none, false⟩
/-- width 1, page size 1 -/
def sCfg : Cfg := ⟨1, 0⟩

/-- one round of the starving schedule: a new access to a fresh page arrives, is accepted, its lookup is
taken by the service and answered at once — the service always answers the *youngest* lookup it holds —,
it is forwarded, answered by the memory and returned to the requester; every port is polled -/
def sCyc (k : Nat) : List HOp :=
  [.access 0 (k + 1) sPl, .tick, .drainTr, .ansT 1, .tick, .drainBot, .ansM 0, .tick, .drainTop, .drainCtl]

/-- the starving schedule: the victim's lookup is taken by the service, then round after round -/
def sSched (i : Nat) : HOp :=
  if i = 0 then .tick else if i = 1 then .drainTr else
  match (i - 2) % 10 with
  | 0 => .access 0 ((i - 2) / 10 + 1) sPl
  | 1 => .tick
  | 2 => .drainTr
  | 3 => .ansT 1
  | 4 => .tick
  | 5 => .drainBot
  | 6 => .ansM 0
  | 7 => .tick
  | 8 => .drainTop
  | _ => .drainCtl

/-- the victim `sA0` (pid 0, page 0) is at the top port -/
def sW0 (e : Env) : CW := hstep sCfg e {} (.access 0 0 sPl)

/-- between two rounds: the victim waits in its transaction, its lookup `sQ0` is the oldest one the
service holds, everything else is empty, nobody has answered the victim -/
structure SInv (k : Nat) (w : CW) : Prop where
  txs : w.s.txs = [sT0]
  infl : w.s.infl = []
  fl : w.s.flushing = false
  topIn : w.s.topIn = []
  topOut : w.s.topOut = []
  botIn : w.s.botIn = []
  botOut : w.s.botOut = []
  trIn : w.s.trIn = []
  trOut : w.s.trOut = []
  ctlIn : w.s.ctlIn = []
  ctlOut : w.s.ctlOut = 0
  nextT : w.s.nextT = k + 1
  nextB : w.s.nextB = k
  nextA : w.s.nextA = k + 1
  envT : w.envT = [sQ0]
  envM : w.envM = []
  ans : ∀ l ∈ w.s.answered, l.top.id ≠ 0

theorem sInv_cycle (e : Env) (k : Nat) (w : CW) (h : SInv k w) : SInv (k + 1) (hrun sCfg e w (sCyc k)) := by
  obtain ⟨h1, h2, h3, h4, h5, h6, h7, h8, h9, h10, h11, h12, h13, h14, h15, h16, h17⟩ := h
  constructor <;>
  simp [hrun, sCyc, hstep, step, tick, runPipeline, iter, respond, parseTranslation, translate, handleCtrl,
    coalesce, popFirst, markFirst, isDrainable, hasTid, emit, extract, removeNth, mkBReq, pageId, sCfg, sT0, sQ0, sA0,
    h1, h2, h3, h4, h5, h6, h7, h8, h9, h10, h11, h12, h13, h14, h15, h16]
  exact h17

theorem sInv_start (e : Env) : SInv 0 (hrun sCfg e (sW0 e) [.tick, .drainTr]) := by
  constructor <;>
  simp [hrun, sW0, hstep, step, tick, runPipeline, iter, respond, parseTranslation, translate, handleCtrl,
    coalesce, popFirst, pageId, sCfg, sT0, sQ0, sA0, sPl]

theorem sSched_block (k : Nat) :
    [sSched (2 + 10 * k), sSched (2 + 10 * k + 1), sSched (2 + 10 * k + 2), sSched (2 + 10 * k + 3),
     sSched (2 + 10 * k + 4), sSched (2 + 10 * k + 5), sSched (2 + 10 * k + 6), sSched (2 + 10 * k + 7),
     sSched (2 + 10 * k + 8), sSched (2 + 10 * k + 9)] = sCyc k := by
  have e0 : (2 + 10 * k - 2) % 10 = 0 := by omega
  have e1 : (2 + 10 * k + 1 - 2) % 10 = 1 := by omega
  have e2 : (2 + 10 * k + 2 - 2) % 10 = 2 := by omega
  have e3 : (2 + 10 * k + 3 - 2) % 10 = 3 := by omega
  have e4 : (2 + 10 * k + 4 - 2) % 10 = 4 := by omega
  have e5 : (2 + 10 * k + 5 - 2) % 10 = 5 := by omega
  have e6 : (2 + 10 * k + 6 - 2) % 10 = 6 := by omega
  have e7 : (2 + 10 * k + 7 - 2) % 10 = 7 := by omega
  have e8 : (2 + 10 * k + 8 - 2) % 10 = 8 := by omega
  have e9 : (2 + 10 * k + 9 - 2) % 10 = 9 := by omega
  have d0 : (2 + 10 * k - 2) / 10 = k := by omega
  have n0 : ∀ j, ¬ (2 + 10 * k + j = 0) := by intro j; omega
  have n1 : ∀ j, ¬ (2 + 10 * k + j = 1) := by intro j; omega
  have n0' : ¬ (2 + 10 * k = 0) := by omega
  have n1' : ¬ (2 + 10 * k = 1) := by omega
  simp only [sSched, sCyc, n0, n1, n0', n1', if_false, e0, e1, e2, e3, e4, e5, e6, e7, e8, e9, d0]

theorem wrun_block (e : Env) (k : Nat) :
    wrun sCfg e (sW0 e) sSched (2 + 10 * (k + 1)) = hrun sCfg e (wrun sCfg e (sW0 e) sSched (2 + 10 * k)) (sCyc k) := by
  rw [← sSched_block k]
  rw [show 2 + 10 * (k + 1) = 2 + 10 * k + 9 + 1 by omega]
  rfl

theorem sInv_all (e : Env) : ∀ k, SInv k (wrun sCfg e (sW0 e) sSched (2 + 10 * k))
  | 0 => sInv_start e
  | k + 1 => by rw [wrun_block]; exact sInv_cycle e k _ (sInv_all e k)

theorem sSched_noctl (i : Nat) : (sSched i).noCtl = true := by
  unfold sSched
  split
  · rfl
  · split
    · rfl
    · split <;> rfl

/-- whoever leaves the memory's hands has been answered: the response is at the bottom port -/
theorem left_envM (c : Cfg) (e : Env) (w : CW) (o : HOp) (b : BReq) (h1 : b ∈ w.envM)
    (h2 : b ∉ (hstep c e w o).envM) : ∃ r ∈ (hstep c e w o).s.botIn, r.rspTo = b.bid := by
  cases o with
  | ansM j =>
    cases hq : w.envM with
    | nil => rw [hq] at h1; simp at h1
    | cons b0 l =>
      by_cases hlt : w.s.botIn.length < c.width
      · have hi : j % (b0 :: l).length < (b0 :: l).length := Nat.mod_lt _ (by simp)
        have hm := mem_removeNth (b0 :: l) _ b0 hi b (hq ▸ h1)
        simp only [hstep, hq, hlt, if_true] at h2 ⊢
        rcases hm with h | h
        · refine ⟨⟨((b0 :: l).getD (j % (b0 :: l).length) b0).bid,
            e.md ((b0 :: l).getD (j % (b0 :: l).length) b0)⟩, ?_, by rw [h]⟩
          simp [step, hlt]
        · exact absurd h h2
      · simp only [hstep, hq, hlt, if_false] at h2
        exact absurd (hq ▸ h1) h2
  | drainBot =>
    exfalso; apply h2
    simp only [hstep]
    split
    · exact h1
    · exact List.mem_append_left _ h1
  | tick => exfalso; apply h2; simp only [hstep]; split <;> exact h1
  | access pid va pl => exact absurd h1 h2
  | ansT j =>
    exfalso; apply h2; simp only [hstep]
    split
    · exact h1
    · split <;> exact h1
  | drainTop => exfalso; apply h2; simp only [hstep]; split <;> exact h1
  | drainTr => exfalso; apply h2; simp only [hstep]; split <;> exact h1
  | drainCtl => exfalso; apply h2; simp only [hstep]; split <;> exact h1
  | flush => exact absurd h1 h2
  | restart => exfalso; apply h2; simp only [hstep]; split <;> exact h1

theorem left_envM_run (c : Cfg) (e : Env) (w0 : CW) (sched : Nat → HOp) (b : BReq) :
    ∀ d n, b ∈ (wrun c e w0 sched n).envM → b ∉ (wrun c e w0 sched (n + d)).envM →
      ∃ m, n ≤ m ∧ ∃ r ∈ (wrun c e w0 sched m).s.botIn, r.rspTo = b.bid := by
  intro d
  induction d with
  | zero => intro n h1 h2; exact absurd h1 h2
  | succ d ih =>
    intro n h1 h2
    by_cases h : b ∈ (wrun c e w0 sched (n + 1)).envM
    · obtain ⟨m, g1, g2⟩ := ih (n + 1) h (by rw [show n + 1 + d = n + (d + 1) by omega]; exact h2)
      exact ⟨m, by omega, g2⟩
    · exact ⟨n + 1, Nat.le_succ _, left_envM c e _ (sched n) b h1 h⟩

/-- the starving schedule is fair in every respect except per-lookup fairness of the translation service -/
theorem sSched_kfair (e : Env) : KFair sCfg e (sW0 e) sSched := by
  have at_ : ∀ (n j : Nat) (o : HOp), sSched (2 + 10 * n + j) = o → ∃ m, n ≤ m ∧ sSched m = o :=
    fun n j o h => ⟨2 + 10 * n + j, by omega, h⟩
  have blk := sSched_block
  refine ⟨sSched_noctl, ?_, ?_, ?_, ?_, ?_, ?_⟩
  · intro n; have := blk n; simp only [sCyc, List.cons.injEq] at this; exact at_ n 1 _ this.2.1
  · intro n; have := blk n; simp only [sCyc, List.cons.injEq] at this; exact at_ n 8 _ this.2.2.2.2.2.2.2.2.1
  · intro n; have := blk n; simp only [sCyc, List.cons.injEq] at this; exact at_ n 5 _ this.2.2.2.2.2.1
  · intro n; have := blk n; simp only [sCyc, List.cons.injEq] at this; exact at_ n 2 _ this.2.2.1
  · intro n; have := blk n; simp only [sCyc, List.cons.injEq] at this
    exact ⟨2 + 10 * n + 3, by omega, 1, this.2.2.2.1⟩
  · intro n b hb
    refine left_envM_run sCfg e (sW0 e) sSched b (2 + 10 * n - n) n hb ?_
    rw [show n + (2 + 10 * n - n) = 2 + 10 * n by omega, (sInv_all e n).envM]
    simp

/-- **The victim starves.** Along the starving schedule — accesses arrive for ever, every port is polled
for ever, the engine ticks for ever, the memory answers every request, the translation service answers a
lookup in every round (the youngest) — the victim's lookup is still with the service after every round
and the victim has not been answered. -/
theorem at_access_starves (e : Env) (k : Nat) :
    sQ0 ∈ (wrun sCfg e (sW0 e) sSched (2 + 10 * k)).envT ∧ ¬ Ans (wrun sCfg e (sW0 e) sSched (2 + 10 * k)).s sA0 := by
  have h := sInv_all e k
  refine ⟨by rw [h.envT]; simp, ?_⟩
  rintro ⟨l, hl, hla⟩
  exact h.ans l hl (by rw [hla]; rfl)

/-- **Per-lookup fairness cannot be weakened to per-kind fairness.** -/
theorem at_access_eventually_answered_refuted : ¬ at_access_eventually_answered_full := by
  intro h
  have hr : Reach sCfg demoEnv (sW0 demoEnv) := Reach.step _ _ Reach.init
  have nc : NC (sW0 demoEnv).s := by simp [NC, sW0, hstep, step, sCfg]
  obtain ⟨m, _, hm⟩ := h sCfg demoEnv (sW0 demoEnv) sSched hr nc (sSched_kfair demoEnv) sA0 0
    (by simp [wrun, sW0, hstep, step, sCfg, sA0])
  have := at_answered_stays hr nc sSched_noctl sA0 m hm (2 + 10 * m - m)
  rw [show m + (2 + 10 * m - m) = 2 + 10 * m by omega] at this
  exact (at_access_starves demoEnv m).2 this

/-! ## non-vacuity -/

/-- the idle schedule from the initial world satisfies `AFair` … -/
def idleSched (i : Nat) : HOp :=
  match i % 4 with
  | 0 => .tick
  | 1 => .drainTop
  | 2 => .drainBot
  | _ => .drainTr

theorem idle_run (c : Cfg) (e : Env) : ∀ n, wrun c e {} idleSched n = {}
  | 0 => rfl
  | n + 1 => by
    show hstep c e (wrun c e {} idleSched n) (idleSched n) = {}
    rw [idle_run c e n]
    unfold idleSched
    split <;> rfl

example (c : Cfg) (e : Env) : AFair c e {} idleSched := by
  have hk : ∀ n j, j < 4 → (4 * n + j) % 4 = j := by intro n j h; omega
  refine ⟨?_, ?_, ?_, ?_, ?_, ?_, ?_⟩
  · intro i; unfold idleSched; split <;> rfl
  · intro n; exact ⟨4 * n, by omega, by simp [idleSched, hk n 0]⟩
  · intro n; exact ⟨4 * n + 1, by omega, by simp [idleSched, hk n 1]⟩
  · intro n; exact ⟨4 * n + 2, by omega, by simp [idleSched, hk n 2]⟩
  · intro n; exact ⟨4 * n + 3, by omega, by simp [idleSched, hk n 3]⟩
  · intro n q h; rw [idle_run] at h; simp at h
  · intro n b h; rw [idle_run] at h; simp at h

/-- … and the hypotheses of `at_access_eventually_answered` about the access are met by the victim at
time 0 of the starving run (whose schedule satisfies everything in `AFair` but `lookup`) -/
example : Reach sCfg demoEnv (sW0 demoEnv) ∧ NC (sW0 demoEnv).s ∧ sA0 ∈ (wrun sCfg demoEnv (sW0 demoEnv) sSched 0).s.topIn ∧
    KFair sCfg demoEnv (sW0 demoEnv) sSched :=
  ⟨Reach.step _ _ Reach.init, by simp [NC, sW0, hstep, step, sCfg],
    by simp [wrun, sW0, hstep, step, sCfg, sA0], sSched_kfair demoEnv⟩

/-- the stages are inhabited: after the first two moves of the starving run the victim waits in its
transaction (stage 2 of `apos` applies), and the younger accesses do get answered -/
example : InTx (wrun sCfg demoEnv (sW0 demoEnv) sSched 2).s sA0 :=
  ⟨sT0, by rw [(sInv_all demoEnv 0).txs]; simp, by simp [sT0]⟩

/-- stage 2 is inhabited: in round 0 of the starving run, after the service answered the younger access's
lookup, that access waits in its transaction with the reply at the translation port -/
example : P2 ⟨1, 0, 1, sPl⟩ 1 (wrun sCfg demoEnv (sW0 demoEnv) sSched 6).s := by
  refine ⟨⟨[⟨1, 0, 1, sPl⟩], ⟨1, 0, 1⟩, none, false⟩, ?_, rfl, by simp, Or.inr ⟨⟨1, demoEnv.pt 0 1⟩, ?_, rfl⟩⟩ <;>
  simp [wrun, sSched, sW0, hstep, step, tick, runPipeline, iter, respond, parseTranslation, translate, handleCtrl,
    coalesce, popFirst, isDrainable, removeNth, pageId, sCfg, sPl]

/-- stage 3 is inhabited: … after the memory answered, it is in flight with the response at the bottom port -/
example : P3 ⟨1, 0, 1, sPl⟩ 0 (wrun sCfg demoEnv (sW0 demoEnv) sSched 9).s := by
  refine ⟨⟨⟨⟨1, 0, 1, sPl⟩, mkBReq 0 0 ⟨1, 0, 1, sPl⟩ (demoEnv.pt 0 1)⟩, ?_, rfl, rfl⟩,
    ⟨0, demoEnv.md (mkBReq 0 0 ⟨1, 0, 1, sPl⟩ (demoEnv.pt 0 1))⟩, ?_, rfl⟩ <;>
  simp [wrun, sSched, sW0, hstep, step, tick, runPipeline, iter, respond, parseTranslation, translate, handleCtrl,
    coalesce, popFirst, markFirst, isDrainable, hasTid, emit, removeNth, mkBReq, pageId, sCfg, sPl]

example : ¬ at_access_eventually_answered_full := at_access_eventually_answered_refuted
example (k : Nat) : sQ0 ∈ (wrun sCfg demoEnv (sW0 demoEnv) sSched (2 + 10 * k)).envT := (at_access_starves demoEnv k).1

end C16
