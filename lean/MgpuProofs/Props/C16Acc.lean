import MgpuProofs.C16AccTx
import MgpuProofs.Props.C16Deep
/-! # C16 — third deepening: per-access liveness while accesses keep arriving for ever

Closed world as before (`Reach c e w`: translator + honest translation service + honest memory +
bounded ports + Akita's wake rule); the schedule is now an arbitrary infinite sequence of moves in
which **new accesses may arrive for ever** (`wrun`). The global measure `wmu` of `at_fair_liveness`
is useless here (every arrival increases it); instead every single access gets its own rank
(stage × position in its queue × blocked-flag of the port the stage sends to). -/
namespace C16

/-- **The fairness assumption, per lookup / per request / per port.** Along the run of `sched` from `w0`:
* no flush / restart while waiting (accesses arrive freely, at any rate, for ever);
* the engine runs a scheduled tick event again and again;
* each of the three outgoing ports is polled again and again by its neighbour (a full port eventually
  drains; polling an empty port is a no-op);
* **per-lookup fairness**: every lookup the translation service holds is eventually answered — a reply
  to it appears at the translation port (which lookup is answered when, and how many younger ones
  overtake it, is free);
* per-request fairness of the memory, likewise. -/
structure AFair (c : Cfg) (e : Env) (w0 : CW) (sched : Nat → HOp) : Prop where
  noctl : ∀ i, (sched i).noCtl = true
  tick : ∀ n, ∃ m, n ≤ m ∧ sched m = .tick
  top : ∀ n, ∃ m, n ≤ m ∧ sched m = .drainTop
  bot : ∀ n, ∃ m, n ≤ m ∧ sched m = .drainBot
  tr : ∀ n, ∃ m, n ≤ m ∧ sched m = .drainTr
  lookup : ∀ n q, q ∈ (wrun c e w0 sched n).envT →
    ∃ m, n ≤ m ∧ ∃ r ∈ (wrun c e w0 sched m).s.trIn, r.rspTo = q.tid
  memory : ∀ n b, b ∈ (wrun c e w0 sched n).envM →
    ∃ m, n ≤ m ∧ ∃ r ∈ (wrun c e w0 sched m).s.botIn, r.rspTo = b.bid

/-- where one access is, and how far from the next stage: `(stage, rank)`; stage 1 = at the top port
(rank: accesses ahead × translation port full), 2 = waiting in a transaction whose reply is at the
port or recorded (rank, lexicographic: replies ahead / head reply unrecorded, then requests waiting in
completed transactions / bottom port full), 3 = in flight with the memory's response at the bottom
port (rank: responses ahead × top port full); in between it sits in a FIFO of a neighbour. -/
noncomputable def apos (c : Cfg) (a : Acc) (tid bid : Nat) (s : St) : Nat × (Nat × Nat) :=
  if a ∈ s.topIn then (1, (rho1 c a s, 0))
  else if (∃ t ∈ s.txs, a ∈ t.reqs) then (2, rho2 c tid s)
  else (3, (rho3 c bid s, 0))

section
variable {c : Cfg} {e : Env} {w0 : CW} {sched : Nat → HOp}

theorem width_pos_of_topIn {w : CW} (hr : Reach c e w) {a : Acc} (h : a ∈ w.s.topIn) : 0 < c.width := by
  by_cases hw : 0 < c.width
  · exact hw
  · have := (reach_w0 (by omega) hr).topIn
    rw [this] at h; simp at h

theorem fair_kinds (hf : AFair c e w0 sched) (k : Nat) (hk : k = 0 ∨ k = 3 ∨ k = 4 ∨ k = 5) :
    ∀ n, ∃ m, n ≤ m ∧ (sched m).kind = k := by
  intro n
  rcases hk with rfl | rfl | rfl | rfl
  · obtain ⟨m, h1, h2⟩ := hf.tick n; exact ⟨m, h1, by rw [h2]; rfl⟩
  · obtain ⟨m, h1, h2⟩ := hf.top n; exact ⟨m, h1, by rw [h2]; rfl⟩
  · obtain ⟨m, h1, h2⟩ := hf.bot n; exact ⟨m, h1, by rw [h2]; rfl⟩
  · obtain ⟨m, h1, h2⟩ := hf.tr n; exact ⟨m, h1, by rw [h2]; rfl⟩

/-- **Stage 1.** An access at the top port is accepted (or beyond), however many accesses arrive behind it. -/
theorem at_access_eventually_accepted (h0 : Reach c e w0) (nc0 : NC w0.s) (hf : AFair c e w0 sched)
    (a : Acc) (n : Nat) (ha : a ∈ (wrun c e w0 sched n).s.topIn) :
    ∃ m, n ≤ m ∧ B1 (wrun c e w0 sched m).s a := by
  have hw := width_pos_of_topIn (wrun_reach sched h0 n) ha
  refine (stage1 c a).leads Nat.lt_wfRel.wf hk1 (fun w hr nc o ho hk => strict1 hw a w hr nc o ho hk)
    h0 nc0 hf.noctl ?_ n ha
  intro n b
  unfold hk1
  split
  · exact fair_kinds hf 5 (by simp) n
  · exact fair_kinds hf 0 (by simp) n

/-- **Stage 3 (core).** In flight with the memory's response at the bottom port → answered. -/
theorem at_response_eventually_returned (hw : 0 < c.width) (h0 : Reach c e w0) (nc0 : NC w0.s)
    (hf : AFair c e w0 sched) (a : Acc) (bid : Nat) (n : Nat) (hp : P3 a bid (wrun c e w0 sched n).s) :
    ∃ m, n ≤ m ∧ Ans (wrun c e w0 sched m).s a := by
  refine (stage3 c a bid).leads Nat.lt_wfRel.wf hk3 (fun w hr nc o ho hk => strict3 hw a bid w hr nc o ho hk)
    h0 nc0 hf.noctl ?_ n hp
  intro n b
  unfold hk3
  split
  · exact fair_kinds hf 3 (by simp) n
  · exact fair_kinds hf 0 (by simp) n

/-- **Stage 2 (core).** Waiting in a transaction whose reply is at the translation port or recorded →
forwarded. This is where recording a reply while the bottom port is full, draining completed
transactions first and coalescing of later arrivals are handled (lexicographic rank). -/
theorem at_reply_eventually_forwards (hw : 0 < c.width) (h0 : Reach c e w0) (nc0 : NC w0.s)
    (hf : AFair c e w0 sched) (a : Acc) (tid : Nat) (n : Nat) (hp : P2 a tid (wrun c e w0 sched n).s) :
    ∃ m, n ≤ m ∧ B2 (wrun c e w0 sched m).s a := by
  refine (stage2 c a tid).leads lt2_wf hk2 (fun w hr nc o ho hk => strict2 hw a tid w hr nc o ho hk)
    h0 nc0 hf.noctl ?_ n hp
  intro n b
  unfold hk2
  split
  · exact fair_kinds hf 4 (by simp) n
  · exact fair_kinds hf 0 (by simp) n

/-- in flight → answered (through the bottom port's outgoing buffer, the memory — per-request fairness —
and the bottom port's incoming buffer) -/
theorem at_inflight_eventually_answered (hw : 0 < c.width) (h0 : Reach c e w0) (nc0 : NC w0.s)
    (hf : AFair c e w0 sched) (a : Acc) (n : Nat) (hp : B2 (wrun c e w0 sched n).s a) :
    ∃ m, n ≤ m ∧ Ans (wrun c e w0 sched m).s a := by
  rcases hp with ⟨f, hfm, hfa⟩ | h
  case inr => exact ⟨n, Nat.le_refl _, h⟩
  have keep := (keep3 c a f.breq.bid).keep_run h0 nc0 hf.noctl (e := e)
  -- from the moment the response is at the port
  have fromPort : ∀ k, n ≤ k → (∃ r ∈ (wrun c e w0 sched k).s.botIn, r.rspTo = f.breq.bid) →
      ∃ m, n ≤ m ∧ Ans (wrun c e w0 sched m).s a := by
    intro k hk hr
    have hkk : n + (k - n) = k := by omega
    have hkeep := keep n ⟨f, hfm, hfa, rfl⟩ (k - n)
    rw [hkk] at hkeep
    rcases hkeep with h | h
    · exact ⟨k, hk, h⟩
    · obtain ⟨m, h1, h2⟩ := at_response_eventually_returned hw h0 nc0 hf a f.breq.bid k ⟨h, hr⟩
      exact ⟨m, by omega, h2⟩
  have fromMem : ∀ k, n ≤ k → f.breq ∈ (wrun c e w0 sched k).envM →
      ∃ m, n ≤ m ∧ Ans (wrun c e w0 sched m).s a := by
    intro k hk hm
    obtain ⟨m, h1, h2⟩ := hf.memory k _ hm
    exact fromPort m (by omega) h2
  rcases (reach_winv (wrun_reach sched h0 n)).t.pm f hfm with h | h | h
  · obtain ⟨pre, post, hsplit⟩ := List.append_of_mem h
    obtain ⟨m, h1, h2⟩ := botOut_reaches h0 nc0 hf.noctl hf.bot f.breq pre n post hsplit
    exact fromMem m h1 h2
  · exact fromMem n (Nat.le_refl _) h
  · exact fromPort n (Nat.le_refl _) h

/-- accepted → forwarded (through the translation port's outgoing buffer, the translation service —
**per-lookup fairness** — and the translation port's incoming buffer) -/
theorem at_accepted_eventually_forwarded (hw : 0 < c.width) (h0 : Reach c e w0) (nc0 : NC w0.s)
    (hf : AFair c e w0 sched) (a : Acc) (n : Nat) (hp : B1 (wrun c e w0 sched n).s a) :
    ∃ m, n ≤ m ∧ B2 (wrun c e w0 sched m).s a := by
  rcases hp with ⟨t, htm, hat⟩ | h
  case inr => exact ⟨n, Nat.le_refl _, h⟩
  have keep := (keep2 c a t.treq.tid).keep_run h0 nc0 hf.noctl (e := e)
  have fromPort : ∀ k, n ≤ k → (∃ r ∈ (wrun c e w0 sched k).s.trIn, r.rspTo = t.treq.tid) →
      ∃ m, n ≤ m ∧ B2 (wrun c e w0 sched m).s a := by
    intro k hk hr
    have hkk : n + (k - n) = k := by omega
    have hkeep := keep n ⟨t, htm, rfl, hat⟩ (k - n)
    rw [hkk] at hkeep
    rcases hkeep with h | ⟨t', h1, h2, h3⟩
    · exact ⟨k, hk, h⟩
    · obtain ⟨m, g1, g2⟩ := at_reply_eventually_forwards hw h0 nc0 hf a t.treq.tid k ⟨t', h1, h2, h3, Or.inr hr⟩
      exact ⟨m, by omega, g2⟩
  have fromSvc : ∀ k, n ≤ k → t.treq ∈ (wrun c e w0 sched k).envT →
      ∃ m, n ≤ m ∧ B2 (wrun c e w0 sched m).s a := by
    intro k hk hm
    obtain ⟨m, h1, h2⟩ := hf.lookup k _ hm
    exact fromPort m (by omega) h2
  cases hd : t.done with
  | true =>
    exact at_reply_eventually_forwards hw h0 nc0 hf a t.treq.tid n ⟨t, htm, rfl, hat, Or.inl hd⟩
  | false =>
    rcases (reach_winv (wrun_reach sched h0 n)).t.pt_ t htm hd with h | h | h
    · obtain ⟨pre, post, hsplit⟩ := List.append_of_mem h
      obtain ⟨m, h1, h2⟩ := trOut_reaches h0 nc0 hf.noctl hf.tr t.treq pre n post hsplit
      exact fromSvc m h1 h2
    · exact fromSvc n (Nat.le_refl _) h
    · exact fromPort n (Nat.le_refl _) h

/-- **Per-access liveness under an arbitrary infinite arrival stream.** Every reachable world without
control traffic pending, every infinite schedule of moves — new accesses arriving for ever, at any rate,
to any pages, coalescing into pending transactions or not — that satisfies `AFair`: an access that is
at the top port at any time `n` is answered (a response with its id is sent through the top port) at
some later time. No bound on the time exists (none can: the number of younger accesses that are forwarded
before this one is unbounded). -/
theorem at_access_eventually_answered (h0 : Reach c e w0) (nc0 : NC w0.s) (hf : AFair c e w0 sched)
    (a : Acc) (n : Nat) (ha : a ∈ (wrun c e w0 sched n).s.topIn) :
    ∃ m, n ≤ m ∧ Ans (wrun c e w0 sched m).s a := by
  have hw := width_pos_of_topIn (wrun_reach sched h0 n) ha
  obtain ⟨m1, h1, g1⟩ := at_access_eventually_accepted h0 nc0 hf a n ha
  obtain ⟨m2, h2, g2⟩ := at_accepted_eventually_forwarded hw h0 nc0 hf a m1 g1
  obtain ⟨m3, h3, g3⟩ := at_inflight_eventually_answered hw h0 nc0 hf a m2 g2
  exact ⟨m3, by omega, g3⟩

/-- once answered, answered for ever (the log only grows) -/
theorem at_answered_stays (h0 : Reach c e w0) (nc0 : NC w0.s) (hs : ∀ i, (sched i).noCtl = true) (a : Acc)
    (n : Nat) (h : Ans (wrun c e w0 sched n).s a) : ∀ d, Ans (wrun c e w0 sched (n + d)).s a := by
  intro d
  induction d with
  | zero => exact h
  | succ d ih =>
    exact ((keep3 c a 0).hmove (wrun_reach sched h0 (n + d)) (wrun_nc h0 nc0 hs (n + d)) _ (hs (n + d))).1 ih

end

end C16
