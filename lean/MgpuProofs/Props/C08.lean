import MgpuModel.C08
import MgpuProofs.C08Lanes
import MgpuProofs.C08Enum
import MgpuProofs.C08Cover
/-! # C08 — property theorems (the dispatch grid is partitioned exactly into work-groups,
wavefronts and lanes). Only property statements live here; helper lemmas are in
`MgpuProofs/C08*.lean`. All sizes are unbounded `Nat`; `g.Valid` = every dimension ≥ 1. -/
namespace C08

/-- **wgs_enumerate.** For every geometry and every filter `p` (e.g. the driver's per-GPU closure):
    after `Skip k`, `k'` calls of `NextWG` return exactly elements `k … k+k'-1` of the list of all
    work-groups in x-fastest order filtered by `p` (fewer = nil was returned, and stays returned).
    With `k = 0` and `k' > NumWG` this is: every accepted work-group once, in order, then nil. -/
theorem wgs_enumerate (g : Geo) (hv : g.Valid) (p : Coord → Bool) (k k' : Nat) :
    (enumFrom g p k' (skip g p k ⟨0, 0, 0⟩)).1 = (((allWGs g).filter fun w => p w.id).drop k).take k' := by
  obtain ⟨n, hn, hc, _, hidx⟩ := enumFrom_spec g hv p k 0 (Nat.zero_le _)
  obtain ⟨_, _, _, hl, _⟩ := enumFrom_spec g hv p k' n hn
  unfold skip
  rw [← curOf_zero g, hc, hl, hidx, ← idxFrom_zero_map, List.map_take, List.map_drop]

/-- **wgs_enumerate (bijection).** The `n`-th work-group (`n < nx·ny·nz`) has coordinates
    `(n % nx, n / nx % ny, n / nx / ny)` inside the box, and every coordinate of the box is the
    image of exactly one index: each work-group appears exactly once. -/
theorem wgs_each_once (g : Geo) (c : Coord) :
    (c.1 < g.nx ∧ c.2.1 < g.ny ∧ c.2.2 < g.nz) ↔ ∃ n, n < g.total ∧ coordOf g n = c ∧ ∀ m, coordOf g m = c → m = n := by
  constructor
  · rintro ⟨hx, hy, hz⟩
    refine ⟨lin g c, lin_lt g c hx hy hz, coordOf_lin g c hx hy, ?_⟩
    intro m hm
    rw [← hm, lin_coordOf]
  · rintro ⟨n, hn, rfl, _⟩
    exact coordOf_bounds g n hn

/-- every produced work-group has the clipped size `min(grid − id·wg, wg)`, which is ≥ 1 -/
theorem wg_sizes (g : Geo) (hv : g.Valid) (w : WG) (hw : w ∈ allWGs g) :
    w.sz = sizesOf g w.id ∧ 0 < w.sz.1 ∧ 0 < w.sz.2.1 ∧ 0 < w.sz.2.2 := by
  simp only [allWGs, List.mem_map, List.mem_range] at hw
  obtain ⟨n, hn, rfl⟩ := hw
  have hb := coordOf_bounds g n hn
  have hx := (lt_nwg g.gx g.wx _ hv.gx hv.wx).mp hb.1
  have hy := (lt_nwg g.gy g.wy _ hv.gy hv.wy).mp hb.2.1
  have hz := (lt_nwg g.gz g.wz _ hv.gz hv.wz).mp hb.2.2
  have := hv.wx; have := hv.wy; have := hv.wz
  refine ⟨rfl, ?_, ?_, ?_⟩ <;> simp only [wgAt, sizesOf] <;> omega

/-- **NumWG.** The announced number of work-groups (`countWG`, with or without filter) equals the
    number of work-groups `NextWG` produces. -/
theorem numWG_eq_produced (g : Geo) (hv : g.Valid) (p : Option (Coord → Bool)) :
    countWG g p = (enumFrom g (p.getD fun _ => true) (g.total + 1) ⟨0, 0, 0⟩).1.length := by
  have he := wgs_enumerate g hv (p.getD fun _ => true) 0 (g.total + 1)
  have hs : skip g (p.getD fun _ => true) 0 ⟨0, 0, 0⟩ = ⟨0, 0, 0⟩ := rfl
  rw [hs] at he
  have hlen : ∀ q : Coord → Bool, ((allWGs g).filter fun w => q w.id).length ≤ g.total := by
    intro q
    have := List.length_filter_le (fun w : WG => q w.id) (allWGs g)
    simpa [allWGs] using this
  rw [he, List.drop_zero, List.take_of_length_le (by have := hlen (p.getD fun _ => true); omega)]
  cases p with
  | none =>
    simp only [countWG, Option.getD_none]
    have : (allWGs g).filter (fun _ => true) = allWGs g := List.filter_eq_self.mpr (fun _ _ => rfl)
    rw [this]
    simp [allWGs, Geo.total]
  | some q =>
    simp only [countWG, Option.getD_some]
    rw [(countLoop_perm g).countP_eq q, ← List.countP_eq_length_filter, allWGs, List.countP_map, List.countP_map]
    rfl

/-- **items_cover.** The work-items of all produced work-groups, mapped to global ids
    (`id·wg + local`), are a permutation of the grid `[0,gx)×[0,gy)×[0,gz)`: every grid point is
    produced exactly once and no produced work-item lies outside the grid. -/
theorem items_cover (g : Geo) (hv : g.Valid) : (allItems g).Perm (spawn (g.gx, g.gy, g.gz)) := by
  rw [List.perm_ext_iff_of_nodup (allItems_nodup g hv) (spawn_nodup _)]
  intro P
  rw [mem_allItems g hv, mem_spawn]

/-- **wgdist_partitions.** For every CU-count vector with positive sum, the driver's cumulative
    ranges `[d i, d (i+1))` are consecutive (`d 0 = 0`, `d (i+1) = d i + cu_i·per`), reach the total
    (so the "not all wg allocated" panic is dead code), and every work-group index below the
    total lies in exactly one range: every work-group runs on exactly one GPU. -/
theorem wgdist_partitions (cus : List Nat) (total : Nat) (hs : 0 < cus.sum) (ht : 0 < total) :
    let d := wgDist (wgPerCU total cus.sum) cus 0
    d.length = cus.length + 1 ∧ d.getD 0 0 = 0 ∧
    (∀ i, (h : i < cus.length) → d.getD (i + 1) 0 = d.getD i 0 + cus[i] * wgPerCU total cus.sum) ∧
    (∀ f, f < total → ∃ i, i < cus.length ∧ d.getD i 0 ≤ f ∧ f < d.getD (i + 1) 0 ∧
      ∀ j, j < cus.length → d.getD j 0 ≤ f → f < d.getD (j + 1) 0 → j = i) := by
  intro d
  refine ⟨wgDist_length _ _ _, wgDist_head _ _ _, fun i h => wgDist_step _ cus 0 i h, ?_⟩
  intro f hf
  have hall := wg_all_allocated total cus.sum hs ht
  obtain ⟨i, hi, a, b⟩ := wgDist_cover (wgPerCU total cus.sum) cus 0 f (Nat.zero_le _) (by
    rw [Nat.zero_add]; omega)
  exact ⟨i, hi, a, b, fun j hj c e => wgDist_unique _ cus 0 j i f hj hi c e a b⟩

/-- **filters partition the work-groups.** With the driver's ranges, every produced work-group is
    accepted by the filter closure of exactly one GPU. -/
theorem filters_partition (g : Geo) (cus : List Nat) (hs : 0 < cus.sum) (w : WG) (hw : w ∈ allWGs g) :
    let d := wgDist (wgPerCU g.total cus.sum) cus 0
    ∃ i, i < cus.length ∧ gpuFilter g d i w.id = true ∧
      ∀ j, j < cus.length → gpuFilter g d j w.id = true → j = i := by
  intro d
  simp only [allWGs, List.mem_map, List.mem_range] at hw
  obtain ⟨n, hn, rfl⟩ := hw
  have ht : 0 < g.total := by omega
  obtain ⟨i, hi, a, b, u⟩ := (wgdist_partitions cus g.total hs ht).2.2.2 n hn
  have hf : ∀ j, gpuFilter g d j (wgAt g n).id = (decide (d.getD j 0 ≤ n) && decide (n < d.getD (j + 1) 0)) := by
    intro j
    unfold gpuFilter
    simp only [filter_flat]
    have : lin g (wgAt g n).id = n := lin_coordOf g n
    rw [this]
  refine ⟨i, hi, ?_, ?_⟩
  · rw [hf]
    simp only [Bool.and_eq_true, decide_eq_true_eq]
    exact ⟨a, b⟩
  · intro j hj h
    rw [hf] at h
    simp only [Bool.and_eq_true, decide_eq_true_eq] at h
    exact u j hj h.1 h.2

/-- **Σ NumWG_gpu = NumWG.** The numbers of work-groups announced by the per-GPU grid builders
    (each with its filter closure) add up to the number of work-groups of the whole grid. -/
theorem numWG_split (g : Geo) (cus : List Nat) (hs : 0 < cus.sum) :
    ((List.range cus.length).map fun i =>
      countWG g (some (gpuFilter g (wgDist (wgPerCU g.total cus.sum) cus 0) i))).sum = countWG g none := by
  have hc : ∀ q : Coord → Bool, (countLoop g).countP q = (allWGs g).countP (fun w => q w.id) := by
    intro q
    rw [(countLoop_perm g).countP_eq q, allWGs, List.countP_map, List.countP_map]
    rfl
  simp only [countWG, hc]
  rw [sum_countP_partition (allWGs g) cus.length
    (fun i w => gpuFilter g (wgDist (wgPerCU g.total cus.sum) cus 0) i w.id)
    (fun w hw => filters_partition g cus hs w hw)]
  simp [allWGs, Geo.total]

/-- **partition_alg_covers.** The partition algorithm gives compute unit `i` the builder
    `Skip(i·per)` and at most `per = ⌈n/numCU⌉` groups from it; these ranges, concatenated over
    the compute units, are exactly the (filtered) work-group list: each group is owned by exactly
    one partition. -/
theorem partition_alg_covers {α : Type} (l : List α) (ncu : Nat) (hn : 0 < ncu) :
    (List.range ncu).flatMap (fun i => (l.drop (i * ((l.length - 1) / ncu + 1))).take ((l.length - 1) / ncu + 1)) = l := by
  rw [chunks_take]
  apply List.take_of_length_le
  cases hl : l.length with
  | zero => omega
  | succ m =>
    have := wg_all_allocated (m + 1) ncu hn (by omega)
    unfold wgPerCU at this
    simpa using this

/-- the partitions handed out by the model's `StartNewKernel` are the `Skip(i·per)` suffixes -/
theorem partition_start (l : List WG) (numWG ncu i : Nat) (hi : i < ncu) :
    (pStart l numWG ncu).rem.getD i [] = l.drop (i * ((numWG - 1) / ncu + 1)) := by
  simp [pStart, Array.getD, hi]

/-- **lanes_correct (full statement).** For every work-group (full or partial; any row size,
    power of two or not): the coordinates that the enabled lanes of its wavefronts are initialised
    with — `decodeId (FirstWiFlatID + lane)`, the formula of both `initWfRegs` and
    `initRegisters` — are a permutation of the work-items of the group. Hence every work-item is
    executed by exactly one enabled lane carrying its own ids, and no lane is enabled for a
    coordinate outside the group. -/
theorem lanes_correct (wx wy : Nat) (sz : Coord) (hx : sz.1 ≤ wx) (hy : sz.2.1 ≤ wy) :
    (laneCoords wx wy (formWfs wx wy (spawn sz))).Perm (spawn sz) := by
  have hids : laneCoords wx wy (formWfs wx wy (spawn sz)) =
      (laneIds (formWfs wx wy (spawn sz))).map (decodeId wx wy) := by
    simp only [laneCoords, laneIds, List.map_flatMap, List.map_map]
    rfl
  rw [hids]
  have h1 : (laneIds (formWfs wx wy (spawn sz))).Perm ((spawn sz).map (flatId wx wy)) := by
    unfold formWfs formWfsRev
    refine (laneIds_reverse _).trans ?_
    rw [formWfsRev_eq]
    have := fold_perm ((spawn sz).map (flatId wx wy)) [] [] (by simp [laneIds]) (by simp)
      (flat_nodup wx wy sz hx hy) (by simp)
    simpa using this
  refine (h1.map _).trans ?_
  rw [List.map_map]
  have : (spawn sz).map (decodeId wx wy ∘ flatId wx wy) = (spawn sz).map id := by
    apply List.map_congr_left
    intro it hit
    obtain ⟨x, y, z⟩ := it
    have hm := mem_spawn.mp hit
    simp only at hm
    exact decode_flat wx wy x y z (by omega) (by omega)
  rw [this, List.map_id]

/-- V5 code objects: the packed register `v0 = x | y<<10 | z<<20` written by both modes unpacks to
    the lane's coordinates (work-group sizes are ≤ 1024 per axis). -/
theorem lane_regs_v5 (en : Nat) (c : Coord) (hx : c.1 < 1024) (hy : c.2.1 < 1024) (hz : c.2.2 < 1024) :
    unpackV5 (laneRegs true en c).1 = c := by
  obtain ⟨x, y, z⟩ := c
  simp only at hx hy hz
  have e1 : y <<< 10 ||| x = y <<< 10 + x := (Nat.shiftLeft_add_eq_or_of_lt (i := 10) (by omega) y).symm
  have hs : y <<< 10 + x < 2 ^ 20 := by rw [Nat.shiftLeft_eq]; omega
  have e2 : z <<< 20 ||| (y <<< 10 + x) = z <<< 20 + (y <<< 10 + x) :=
    (Nat.shiftLeft_add_eq_or_of_lt (i := 20) hs z).symm
  have hy' : y <<< 10 < 2 ^ 32 := by rw [Nat.shiftLeft_eq]; omega
  have hz' : z <<< 20 < 2 ^ 32 := by rw [Nat.shiftLeft_eq]; omega
  simp only [laneRegs, if_true, Nat.mod_eq_of_lt hy', Nat.mod_eq_of_lt hz', Nat.mod_eq_of_lt (show x < 2 ^ 32 by omega)]
  rw [Nat.or_comm x, e1, Nat.or_comm, e2]
  simp only [unpackV5, Nat.shiftLeft_eq]
  refine Prod.ext ?_ (Prod.ext ?_ ?_) <;> simp only <;> omega

/-- V2/V3 code objects: v0 = x, v1 = y when work-item-id Y is enabled, v2 = z when Z is enabled. -/
theorem lane_regs_v2 (en : Nat) (c : Coord) (hx : c.1 < 2 ^ 32) (hy : c.2.1 < 2 ^ 32) (hz : c.2.2 < 2 ^ 32) :
    laneRegs false en c = (c.1, if en > 0 then c.2.1 else 0, if en > 1 then c.2.2 else 0) := by
  simp [laneRegs, Nat.mod_eq_of_lt hx, Nat.mod_eq_of_lt hy, Nat.mod_eq_of_lt hz]

/-- the wavefront formation as pinned before the repair violated the full statement: grid 58×4 with
    work-group 48×4 — the partial group (10×4 items) formed ONE wavefront with mask
    `03ff03ff03ff03ff` whose lanes decode to y=0, x=32..41 for rows 2,3 (kept as a regression
    witness; the harness replays this geometry on the real code every run). -/
theorem old_formation_wrong :
    formWfsOld 48 4 (spawn (10, 4, 1)) = [⟨0, 0x03ff03ff03ff03ff, 40⟩] ∧
    (32, 0, 0) ∈ laneCoords 48 4 (formWfsOld 48 4 (spawn (10, 4, 1))) ∧
    ¬ (laneCoords 48 4 (formWfsOld 48 4 (spawn (10, 4, 1)))).Perm (spawn (10, 4, 1)) := by
  refine ⟨by decide +kernel, by decide +kernel, ?_⟩
  intro h
  have : (32, 0, 0) ∈ spawn (10, 4, 1) := h.mem_iff.mp (by decide +kernel)
  exact absurd this (by decide +kernel)

/-! ## the hypotheses are met by concrete non-trivial instances -/

/-- grid 58×4×1, work-group 48×4×1 (the defect's geometry) is valid; the repaired formation yields
    three wavefronts for the partial group and the lane coordinates are exactly its 40 items -/
example : Geo.Valid ⟨58, 4, 1, 48, 4, 1⟩ := ⟨by decide, by decide, by decide, by decide, by decide, by decide⟩
example : (allWGs ⟨58, 4, 1, 48, 4, 1⟩) = [⟨(0, 0, 0), (48, 4, 1)⟩, ⟨(1, 0, 0), (10, 4, 1)⟩] := by decide +kernel
example : formWfs 48 4 (spawn (10, 4, 1)) =
    [⟨0, 0x03ff0000000003ff, 20⟩, ⟨64, 0x000003ff00000000, 10⟩, ⟨128, 0x0000000003ff0000, 10⟩] := by decide +kernel
example : (laneCoords 48 4 (formWfs 48 4 (spawn (10, 4, 1)))).length = 40 := by decide +kernel
/-- a two-GPU split (36 and 64 CUs) of 7 work-groups: ranges [0,36), [36,100) -/
example : wgDist (wgPerCU 7 100) [36, 64] 0 = [0, 36, 100] := by decide
example : (0 : Nat) < [36, 64].sum := by decide
/-- a filter that drops every other group; Skip 1 then two calls -/
example : (enumFrom ⟨10, 3, 1, 4, 2, 1⟩ (fun c => c.1 % 2 == 0) 2 (skip ⟨10, 3, 1, 4, 2, 1⟩ (fun c => c.1 % 2 == 0) 1 ⟨0, 0, 0⟩)).1
    = [⟨(2, 0, 0), (2, 2, 1)⟩, ⟨(0, 1, 0), (4, 1, 1)⟩] := by decide +kernel
example : unpackV5 (laneRegs true 0 (41, 3, 2)).1 = (41, 3, 2) := by decide

end C08
