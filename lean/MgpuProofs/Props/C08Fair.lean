import MgpuModel.C08
import MgpuProofs.C08ResFair
import MgpuProofs.Props.C08Res
/-! # C08 — fairness between compute units in the partition algorithm

With reservations decided by the CUs' free slots (`MgpuModel/C08_Res.lean`): a CU that has room and
groups of its own partition left is never passed over — every call of `Next` dispatches, and each
dispatch to another CU moves the rotation pointer strictly closer, so the CU is served within
`#CUs` calls, whatever completions (`FreeResources`) happen in between, unless a CU whose own
partition is used up steals its last group first. What is NOT guaranteed is shown by
`short_partition_idles_cu` (`Props/C08Res.lean`): a CU with room whose partition is exhausted below
its quota idles while work-groups are outstanding. -/
namespace C08

/-- **partR_work_conserving.** In any state (no invariant needed), while work-groups are
    outstanding, if some CU `j` has a free slot and its partition still has a group of its own
    (parked in `currWGs[j]` or unread), the call of `Next` dispatches a work-group. -/
theorem partR_work_conserving (s : RState) (hnd : s.p.nd < s.p.numWG) (j : Nat) (he : Eligible s j) :
    (rStep s .next).2.isSome = true := by
  obtain ⟨i, wg, e, _⟩ := fair_step s hnd j he
  rw [e]; rfl

/-- **partR_fair_step.** Same situation: the call serves CU `j`, or it serves a CU the rotation
    visits before `j`, after which the pointer is strictly closer to `j` (`rdist` decreases) and `j`
    is still eligible — unless the group dispatched was `j`'s last own group, taken by a CU whose
    own partition is used up (`steal_takes_last_own_group`). -/
theorem partR_fair_step (s : RState) (hnd : s.p.nd < s.p.numWG) (j : Nat) (he : Eligible s j) :
    ∃ i wg, (rStep s .next).2 = some (i, wg) ∧
      (i = j ∨ (rdist (rStep s .next).1 j < rdist s j ∧
        (Eligible (rStep s .next).1 j ∨ ¬ hasOwn (rStep s .next).1 j))) :=
  fair_step s hnd j he

/-- the invariant of reachable states gives what the fairness argument needs -/
theorem live_of_inv (l : List WG) (caps : List Nat) (s : RState) (done : Nat → List WG)
    (h : RInv l caps s done) : Live s := by
  intro i ho
  by_cases hi : i < caps.length
  · exact own_work_outstanding l caps.length _ s.p done h.pinv i hi ho.1 ho.2
  · exfalso
    obtain ⟨_, hw⟩ := ho
    have h1 : s.p.cur.getD i none = none := by
      simp only [Array.getD_eq_getD_getElem?]
      rw [Array.getElem?_eq_none (by rw [h.pinv.hcur]; omega)]; rfl
    have h2 : s.p.rem.getD i [] = [] := by
      simp only [Array.getD_eq_getD_getElem?]
      rw [Array.getElem?_eq_none (by rw [h.pinv.hrem]; omega)]; rfl
    rw [h1, h2] at hw
    simp at hw

theorem rRun_append_fst : ∀ (a b : List ROp) (s : RState), (rRun (a ++ b) s).1 = (rRun b (rRun a s).1).1 := by
  intro a
  induction a with
  | nil => intro b s; rfl
  | cons op a ih => intro b s; rw [List.cons_append, rRun_cons_fst, rRun_cons_fst, ih]

/-- **partR_no_starvation.** Bounded waiting, run level. Start a kernel on CUs with any capacities,
    let any history `hist` of `Next` calls and completions happen, and suppose CU `j` then has a free
    slot and own work. In every continuation `ops` — any interleaving of calls and completions —
    containing more than `rdist ≤ #CUs − 1` calls of `Next`, CU `j` receives a work-group, or at
    some point of the continuation its partition has no own work left. -/
theorem partR_no_starvation (l : List WG) (caps : List Nat) (hn : 0 < caps.length) (hist ops : List ROp) (j : Nat) :
    let s := (rRun hist (rStart l l.length caps)).1
    Eligible s j → rdist s j < nexts ops →
    rdist s j < caps.length ∧
    ((∃ d ∈ (rRun ops s).2, d.1 = j) ∨ (∃ pre, pre <+: ops ∧ ¬ hasOwn (rRun pre s).1 j)) := by
  intro s he hk
  obtain ⟨done', hinv, _, _, _⟩ :=
    rRun_inv l caps hn hist (rStart l l.length caps) (fun _ => []) (rStart_inv l caps hn)
  refine ⟨by have := rdist_lt s j he.1; rw [hinv.pinv.hcur] at this; exact this, ?_⟩
  apply no_starvation_aux ops s j he _ hk
  intro pre _
  obtain ⟨done'', hinv', _, _, _⟩ :=
    rRun_inv l caps hn (hist ++ pre) (rStart l l.length caps) (fun _ => []) (rStart_inv l caps hn)
  rw [rRun_append_fst] at hinv'
  exact live_of_inv l caps _ done'' hinv'

/-- the nine work-groups of a 9×1×1 grid with 1×1×1 groups -/
def nine : List WG := (enumFrom ⟨9, 1, 1, 1, 1, 1⟩ (fun _ => true) 10 ⟨0, 0, 0⟩).1

/-- **steal_takes_last_own_group.** The second alternative of `partR_fair_step` /
    `partR_no_starvation` is needed: 9 work-groups on CUs with 2, 2, 1 slots; after the history
    below CU 1 has a free slot and one own group left (parked), the rotation starts at a CU whose
    partition is used up, which steals that group: CU 1 is not served and has no own work any more. -/
theorem steal_takes_last_own_group :
    let s := (rRun [.next, .free 0 0, .next, .next, .next, .next, .next, .next, .next, .next, .free 2 0, .next,
      .free 0 0, .free 1 0, .free 0 0] (rStart nine 9 [2, 2, 1])).1
    Eligible s 1 ∧ (∃ i wg, (rStep s .next).2 = some (i, wg) ∧ i ≠ 1) ∧ ¬ hasOwn (rStep s .next).1 1 := by
  refine ⟨by decide +kernel, ?_, by decide +kernel⟩
  have : ((rStep (rRun [.next, .free 0 0, .next, .next, .next, .next, .next, .next, .next, .next, .free 2 0, .next,
      .free 0 0, .free 1 0, .free 0 0] (rStart nine 9 [2, 2, 1])).1 .next).2.map (·.1)) = some 0 := by decide +kernel
  generalize (rStep (rRun [.next, .free 0 0, .next, .next, .next, .next, .next, .next, .next, .next, .free 2 0, .next,
      .free 0 0, .free 1 0, .free 0 0] (rStart nine 9 [2, 2, 1])).1 .next).2 = o at this
  cases o with
  | none => simp at this
  | some d => exact ⟨d.1, d.2, rfl, by simp at this; omega⟩

/-- non-vacuity: at the start of a 9-group kernel every CU with a slot is eligible, CU 2 is two
    calls away, and it is served by the third call -/
example : Eligible (rStart nine 9 [2, 2, 1]) 2 ∧ rdist (rStart nine 9 [2, 2, 1]) 2 = 2 ∧
    ((rRun [.next, .next, .next] (rStart nine 9 [2, 2, 1])).2.map (·.1)) = [0, 1, 2] := by decide +kernel

end C08
