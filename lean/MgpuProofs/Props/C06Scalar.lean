import Lean
import MgpuProofs.C06Scalar
import MgpuModel.C06
/-! # C06 — scalar instructions and EXEC: from a table check to the translated handlers

`scalar_ignores_exec` (Props/C06.lean) is a check over extracted facts: which scalar methods contain a
call of `state.EXEC()` / `state.SetEXEC`. Here the same clause is proved about the TRANSLATED scalar
handlers (`Gen.<arch>.run_*`, written by `translate/alu.go` from the Go bodies, shared with C03):

* `scalar_exec_independent_gcn3/_cdna3` — every SOP2/SOPK/SOP1/SOPC/SOPP opcode of the switch except the
  documented ones computes the same result whatever EXEC holds, and does not write EXEC;
* `saveexec_exec_use_*`, `cbranch_exec_use_*` — the documented exceptions use EXEC exactly as documented:
  `s_<op>_saveexec_b64`: SDST := EXEC, EXEC := op(SSRC0, EXEC), SCC := (EXEC ≠ 0); `s_cbranch_execz/nz`:
  read-only, and only through the test EXEC = 0;
* `documented_exec_users_exact` — the list is exact: each documented opcode is in both switches and its
  result really depends on EXEC.

Still table-checked only (`scalar_ignores_exec`): `s_brev_b32` (bit-reversal loop, hand-modelled in C03),
the SMEM handlers (not translated), and the operand path (an instruction whose operand FIELD names EXEC
reads it through `ReadOperand`, which is explicit in the instruction word). -/
namespace C06
open C03S

/-- scalar format numbers of `Gen.<arch>.dispatch`: 0 SOP2, 1 SOPK, 2 SOP1, 3 SOPC, 4 SOPP.
    SOP1 32..39 = `s_{and,or,xor,andn2,orn2,nand,nor,xnor}_saveexec_b64`, SOPP 8/9 = `s_cbranch_execz/nz` -/
def documentedExec (fmt op : Nat) : Bool :=
  (fmt == 2 && 32 ≤ op && op ≤ 39) || (fmt == 4 && (op == 8 || op == 9))

open Lean Elab Tactic Meta in
/-- unfold every generated scalar handler constant (`Gen.<arch>.run_*`) occurring in the goal -/
elab "unfold_run" : tactic => do
  let g ← getMainGoal
  let t ← instantiateMVars (← g.getType)
  let cs := t.getUsedConstants.filter fun n => n.isStr && n.getString!.startsWith "run_"
  for c in cs do
    evalTactic (← `(tactic| unfold $(mkIdent c):ident))

/-- every case of a dispatch `match`: an undocumented handler does not depend on / write EXEC; a
    documented one contradicts the hypothesis; the default case is `none` -/
macro "scalar_exec_cases" hf:ident hnd:ident : tactic =>
  `(tactic| (split at $hf:ident <;> first
    | (cases $hf:ident; intro i e; refine ⟨rfl, ?_⟩; unfold_run; simp only [exec_ite, ite_self, ScalarOut.nothing])
    | (exfalso; revert $hnd:ident; decide)
    | cases $hf:ident))

/-- **Scalar instructions are unaffected by EXEC (GCN3 `ALUImpl`, translated bodies)**: for every opcode of
    the SOP2/SOPK/SOP1/SOPC/SOPP switches other than the documented ones, the translated handler returns
    the same writes whatever EXEC holds and never writes EXEC. -/
theorem scalar_exec_independent_gcn3 : ∀ fmt op f, Gen.gcn3.dispatch fmt op = some f → documentedExec fmt op = false →
    ∀ (i : ScalarIn) (e : BitVec 64), f { i with exec := e } = f i ∧ (f i).exec = none := by
  intro fmt op f hf hnd
  unfold Gen.gcn3.dispatch at hf
  scalar_exec_cases hf hnd

/-- the same for the CDNA3 `ALU` -/
theorem scalar_exec_independent_cdna3 : ∀ fmt op f, Gen.cdna3.dispatch fmt op = some f → documentedExec fmt op = false →
    ∀ (i : ScalarIn) (e : BitVec 64), f { i with exec := e } = f i ∧ (f i).exec = none := by
  intro fmt op f hf hnd
  unfold Gen.cdna3.dispatch at hf
  scalar_exec_cases hf hnd

example : (Gen.gcn3.dispatch 0 0).isSome = true ∧ documentedExec 0 0 = false ∧
    (Gen.gcn3.table.filter (fun r => !documentedExec r.1 r.2.1)).length ≥ 50 ∧
    (Gen.cdna3.table.filter (fun r => !documentedExec r.1 r.2.1)).length ≥ 60 := by decide +kernel

/-- what the ISA documents for `s_<op>_saveexec_b64` -/
def saveexecSpec (g : BitVec 64 → BitVec 64 → BitVec 64) (i : ScalarIn) : ScalarOut :=
  { dst := some i.exec, scc := some (if g i.src0 i.exec != 0#64 then 1#8 else 0#8), vcc := none
    exec := some (g i.src0 i.exec), pc := none }

/-- the bit operation of SOP1 opcode 32..39 -/
def saveexecOp (op : Nat) (s e : BitVec 64) : BitVec 64 :=
  match op with
  | 32 => s &&& e
  | 33 => s ||| e
  | 34 => s ^^^ e
  | 35 => s &&& ~~~e
  | 36 => s ||| ~~~e
  | 37 => ~~~(s &&& e)
  | 38 => ~~~(s ||| e)
  | _ => ~~~(s ^^^ e)

macro "saveexec_cases" hf:ident : tactic =>
  `(tactic| (split at $hf:ident <;> first
    | (cases $hf:ident; funext i; unfold_run; simp only [saveexecSpec, saveexecOp]; split <;> simp_all)
    | (exfalso; omega)
    | cases $hf:ident))

/-- **Documented exception 1 (GCN3)**: `s_<op>_saveexec_b64` copies EXEC to SDST, sets EXEC to
    op(SSRC0, EXEC) and SCC to (new EXEC ≠ 0) — the translated Go body equals the documented semantics. -/
theorem saveexec_exec_use_gcn3 : ∀ op f, 32 ≤ op → op ≤ 39 → Gen.gcn3.dispatch 2 op = some f →
    f = saveexecSpec (saveexecOp op) := by
  intro op f h1 h2 hf
  unfold Gen.gcn3.dispatch at hf
  saveexec_cases hf

theorem saveexec_exec_use_cdna3 : ∀ op f, 32 ≤ op → op ≤ 39 → Gen.cdna3.dispatch 2 op = some f →
    f = saveexecSpec (saveexecOp op) := by
  intro op f h1 h2 hf
  unfold Gen.cdna3.dispatch at hf
  saveexec_cases hf

example : (saveexecSpec (saveexecOp 35) { src0 := 0xff#64, src1 := 0, dstOld := 0, scc := 0, vcc := 0, exec := 0x0f#64, pc := 0, simm16 := 0 }).exec
    = some 0xf0#64 := by decide

/-- **Documented exception 2**: `s_cbranch_execz` / `s_cbranch_execnz` (SOPP 8 / 9) never write EXEC and
    look at it only through the test `EXEC = 0`: two EXEC values that are both zero or both non-zero give
    the same result. Both ALUs. -/
theorem cbranch_exec_use : ∀ op, (op = 8 ∨ op = 9) → ∀ f, (Gen.gcn3.dispatch 4 op = some f ∨ Gen.cdna3.dispatch 4 op = some f) →
    ∀ (i : ScalarIn) (e : BitVec 64), (f i).exec = none ∧ ((e == 0#64) = (i.exec == 0#64) → f { i with exec := e } = f i) := by
  intro op hop f hf i e
  rcases hop with rfl | rfl <;> rcases hf with hf | hf <;>
    (first | simp only [Gen.gcn3.dispatch] at hf | simp only [Gen.cdna3.dispatch] at hf) <;>
    cases hf <;> unfold_run <;>
    exact ⟨by simp only [exec_ite, ite_self], fun h => by simp only [bne, h]⟩

example : (Gen.gcn3.dispatch 4 8).isSome = true ∧ (Gen.cdna3.dispatch 4 9).isSome = true := by decide

private def exIn : ScalarIn :=
  { src0 := 0xffffffffffffffff#64, src1 := 0, dstOld := 0, scc := 0, vcc := 0, exec := 0, pc := 0x100#64, simm16 := 4#64 }

/-- **The list of exceptions is exact**: every documented opcode is implemented by both opcode switches,
    and its result really depends on EXEC (EXEC = 0 versus EXEC = 1 on one concrete input) — so, with
    `scalar_exec_independent_*`, the scalar opcodes whose effect depends on EXEC are exactly SOP1 32..39 and
    SOPP 8, 9. -/
theorem documented_exec_users_exact :
    ([32, 33, 34, 35, 36, 37, 38, 39].map (fun op => (2, op)) ++ [(4, 8), (4, 9)]).all (fun (p : Nat × Nat) =>
      documentedExec p.1 p.2 &&
      (match Gen.gcn3.dispatch p.1 p.2, Gen.cdna3.dispatch p.1 p.2 with
       | some f, some g => f { exIn with exec := 1#64 } != f exIn && g { exIn with exec := 1#64 } != g exIn
       | _, _ => false)) = true ∧
    (Gen.gcn3.table.filter (fun r => documentedExec r.1 r.2.1)).length = 10 ∧
    (Gen.cdna3.table.filter (fun r => documentedExec r.1 r.2.1)).length = 10 := by
  refine ⟨by decide, by decide +kernel, by decide +kernel⟩

/-- the two independent readings of the scalar opcode switches agree: every SOP2/SOPK/SOP1/SOPC/SOPP entry of
    `Gen.dispatch` (`translate/lanes.go`, go/parser) is a row of `Gen.<arch>.table` (`translate/alu.go`,
    go/types) with the same handler, and the documented list of `scalar_ignores_exec` is `documentedExec` -/
theorem scalar_tables_agree :
    (Gen.dispatch.all fun d =>
      match (["sop2", "sopk", "sop1", "sopc", "sopp"].idxOf? d.format) with
      | none => true
      | some fmt =>
        (documentedExecUsers.contains (d.format, d.op) == documentedExec fmt d.op) &&
        (if d.arch == "gcn3" then Gen.gcn3.table else Gen.cdna3.table).any fun r =>
          r.1 == fmt && r.2.1 == d.op && r.2.2 == d.handler) = true := by
  decide +kernel

example : (Gen.dispatch.filter (fun d => (["sop2", "sopk", "sop1", "sopc", "sopp"].idxOf? d.format).isSome)).length ≥ 120 := by
  decide +kernel

end C06
