import MgpuProofs.Props.C02
import MgpuProofs.C02TxnLemmas
import MgpuProofs.C14VmuProofs
/-! # C02 — the transaction path of the vector memory unit (coalescer → pipeline → port)

`VectorMemoryUnit` (`amd/timing/cu/vectormemoryunit.go`) pushes the coalescer's transactions through
an Akita `pipelining` pipeline (`WithVecMemTransPipelineWidth` lanes × `…Stages` stages), a
post-pipeline buffer (`WithMemPipelineBufferSize`) and `sendRequest` onto `ToVectorMem`. The model
(`MgpuModel/C02Txn.lean`, tied tick by tick to a real `cu.ComputeUnit` by `harness/c02_txn.go`, case
lines `c02 txn …`) takes ANY arrival pattern and ANY back-pressure of the port.

Results computed by a wavefront depend on the ORDER in which its transactions leave the unit: the
reorder buffer (C15) answers in the order the requests reached it, `OutstandingVectorMemAccess` is
decremented by the answer to the LAST transaction of an instruction (`C02.outstanding_counter_sound`
needs in-order answers), and the memory applies stores in arrival order.

* the REPAIRED unit (fix b81645f1: `transactionsInOrder`, `sendRequest` sends the oldest only, a younger head
  of the post-pipeline buffer is set aside, nothing is accepted while something is set aside) is a FIFO for
  EVERY number of lanes: `vmem_order_preserved`, hence `counter_sound_with_fifo_path`,
  `store_order_preserved` without any hypothesis on width or buffer. The model `C02.Txn.tick` is the cycle
  function of the C14 model of the same unit (`C14.Vmu.cycle`) under the C02 scenario encoding, and the
  theorems are consequences of the C14 invariant `vmu_GInv`;
* the unit BEFORE the repair (`C02.Txn.Old`, the model this file was about when the defect was found): a FIFO
  with one lane (`Old.vmem_order_preserved_width1`) or while no push into the post-pipeline buffer is refused
  (`Old.vmem_order_preserved_unless_buffer_full`); with more lanes a full buffer stalls the lanes, which are
  then served by lane number — `Old.vmem_order_before_fix_refuted`, `Old.counter_sound_before_fix_refuted`,
  `Old.store_order_before_fix_refuted`, all with ONE scenario (`witnessTicks`) that was replayed on the real
  compute unit before the repair (former findings C02-vmem-*: wrong final memory / a stale register read).
  The same scenario on the repaired unit: `witness_scenario_repaired`.
-/
namespace C02.Txn
open C02

/-! ## the outstanding-access counter behind the path (independent of the unit) -/



/-- the transaction ids of the responses, in order -/
def txRetIds : List COp → List Nat
  | [] => []
  | .issue _ :: ops => txRetIds ops
  | .ret id :: ops => id :: txRetIds ops

/-- no response before its transaction was issued (`r` answered, `m` issued so far) -/
def txCausal : Nat → Nat → List COp → Bool
  | _, _, [] => true
  | r, m, .issue n :: ops => txCausal r (m + n) ops
  | r, m, .ret _ :: ops => decide (r < m) && txCausal (r + 1) m ops

/-- the transactions of one instruction carry consecutive ids -/
theorem mkTxns_ids (base n : Nat) : (mkTxns base n).map (·.id) = List.range' base n := by
  unfold mkTxns
  rw [List.map_map, List.range_eq_range']
  have : ((fun t : Txn => t.id) ∘ fun i => (⟨base + i, i + 1 == n⟩ : Txn)) = fun i => base + i := rfl
  rw [this, List.map_add_range']
  simp

example : (mkTxns 5 3).map (·.id) = [5, 6, 7] := by decide

/-- responses in issue order satisfy the hypothesis of `C02.outstanding_counter_sound` -/
theorem inOrder_of_fifo_responses : ∀ (ops : List COp) (s : CSt) (r : Nat),
    s.inflight.map (·.id) = List.range' r (s.next - r) → r ≤ s.next → txCausal r s.next ops = true →
    txRetIds ops = List.range' r (txRetIds ops).length → inOrder ops s
  | [], _, _, _, _, _, _ => trivial
  | .issue n :: ops, s, r, hin, hle, hc, hr => by
    show inOrder ops (cstep s (.issue n))
    by_cases hn : n = 0
    · subst hn
      have : cstep s (.issue 0) = s := by simp [cstep]
      rw [this]
      exact inOrder_of_fifo_responses ops s r hin hle (by simpa [txCausal] using hc) (by simpa [txRetIds] using hr)
    · have hs : cstep s (.issue n) = { inflight := s.inflight ++ mkTxns s.next n, counter := s.counter + 1, next := s.next + n } := by
        simp [cstep, hn]
      rw [hs]
      refine inOrder_of_fifo_responses ops _ r ?_ (by show r ≤ s.next + n; omega) (by simpa [txCausal] using hc)
        (by simpa [txRetIds] using hr)
      show (s.inflight ++ mkTxns s.next n).map (·.id) = List.range' r (s.next + n - r)
      rw [List.map_append, hin, mkTxns_ids]
      have e : s.next + n - r = (s.next - r) + n := by omega
      have e2 : s.next = r + 1 * (s.next - r) := by omega
      rw [e]
      conv => lhs; rhs; rw [e2]
      exact List.range'_append (s := r) (m := s.next - r) (n := n) (step := 1)
  | .ret id :: ops, s, r, hin, hle, hc, hr => by
    simp only [txCausal, Bool.and_eq_true, decide_eq_true_eq] at hc
    obtain ⟨hlt, hc⟩ := hc
    simp only [txRetIds, List.length_cons, List.range'_succ, List.cons.injEq] at hr
    obtain ⟨hid, hr⟩ := hr
    subst hid
    have e : s.next - id = (s.next - (id + 1)) + 1 := by omega
    rw [e, List.range'_succ] at hin
    cases hfl : s.inflight with
    | nil => rw [hfl] at hin; simp at hin
    | cons t rest =>
      rw [hfl, List.map_cons, List.cons.injEq] at hin
      obtain ⟨ht, hrest⟩ := hin
      have hstep : cstep s (.ret id) = { s with inflight := rest, counter := if t.last then s.counter - 1 else s.counter } := by
        simp [cstep, hfl, removeFirst, ht]
      refine ⟨⟨t, rest, hfl, ht⟩, ?_⟩
      rw [hstep]
      exact inOrder_of_fifo_responses ops _ (id + 1) hrest (by show id + 1 ≤ s.next; omega) hc hr

example : inOrder [.issue 2, .ret 0, .issue 1, .ret 1, .ret 2] {} :=
  inOrder_of_fifo_responses _ {} 0 (by rfl) (Nat.le_refl _) (by decide) (by decide)


/-! ## stores to one address -/


/-- the memory after the stores `order` (issue indices) were applied in that order; `st i` = (address,
    value) of store `i`; `none` = never written -/
def memOf (st : Nat → Nat × Nat) (order : List Nat) : Nat → Option Nat :=
  order.foldl (fun m i a => if a = (st i).1 then some (st i).2 else m a) (fun _ => none)


/-! ## the repaired unit: FIFO for every width -/

/-- the C14 invariant of the repaired unit holds in every state the C02 scenario encoding reaches -/
theorem run_inv (c : Cfg) (ts : List Tk) : C14.Vmu.vmu_GInv (vcfg c) (run c ts) := by
  unfold run
  suffices h : ∀ (ts : List Tk) (s : St), C14.Vmu.vmu_GInv (vcfg c) s → C14.Vmu.vmu_GInv (vcfg c) (ts.foldl (tick c) s) from
    h ts _ (C14.Vmu.vmu_init_inv (vcfg c))
  intro ts
  induction ts with
  | nil => intro s h; exact h
  | cons t ts ih =>
    intro s h
    simp only [List.foldl_cons]
    apply ih
    unfold tick
    have h1 : C14.Vmu.vmu_GInv (vcfg c) (freeSlots t.p s) := by
      obtain ⟨a, b, d, e⟩ := h
      refine ⟨a, b, d, ?_⟩
      show (s.out.drop (s.out.length - (portCap - t.p))).length ≤ (vcfg c).cap
      simp only [List.length_drop]
      omega
    have h2 := C14.Vmu.vmu_cycle_inv (vcfg c) _ h1
    generalize C14.Vmu.cycle (vcfg c) (freeSlots t.p s) = s2 at h2
    unfold arrive
    generalize t.arr = arr
    induction arr generalizing s2 with
    | nil => exact h2
    | cons p ps ih2 =>
      simp only [List.foldl_cons]
      exact ih2 _ (C14.Vmu.vmu_step_inv (vcfg c) s2 (.issue 1 p) h2)

/-- **vmem_order_preserved.** The repaired vector memory unit, EVERY pipeline width, stage count and
    post-pipeline buffer capacity, every arrival pattern of transactions (with any coalescing penalties)
    and every back-pressure pattern of the port: the transactions leave the unit in the order in which the
    coalescer issued them — the departure order reads 0, 1, 2, …. (Before the repair: one lane only,
    `Old.vmem_order_preserved_width1`; refuted for two lanes, `Old.vmem_order_before_fix_refuted`.) -/
theorem vmem_order_preserved (c : Cfg) (ts : List Tk) :
    departed c ts = List.range (departed c ts).length := by
  have h := (run_inv c ts).1
  unfold C14.Vmu.ledger at h
  rw [List.append_assoc] at h
  exact C14.Vmu.vmu_prefix_range _ _ _ h

/-- `w=2 s=1 b=8` -/
def witnessCfg : Cfg := mkCfg 2 1 8

def quiet (ps : List Nat) : List Tk := ps.map (⟨·, []⟩)

/-- The scenario the REAL compute unit ran BEFORE the repair (`harness child c02txn witness`, first scenario; case line
    `c02 txn w=2 s=1 b=8 n=192 ev=64*10,64:64x0,64*3,62,60,58,56,54:64x0,52,50,48,46,44,42,40,38:64x0,36,34,…,2,0*35,1*128`):
    three FLAT instructions of 64 transactions each; nobody takes requests from `ToVectorMem` until its
    64-entry outgoing buffer and the 8-entry post-pipeline buffer are full, then one request per tick. -/
def witnessTicks : List Tk :=
  quiet (List.replicate 10 64) ++ [⟨64, List.replicate 64 0⟩] ++ quiet [64, 64, 64, 62, 60, 58, 56] ++
  [⟨54, List.replicate 64 0⟩] ++ quiet [52, 50, 48, 46, 44, 42, 40] ++ [⟨38, List.replicate 64 0⟩] ++
  quiet [36, 34, 32, 30, 28, 26, 24, 22, 20, 18, 16, 14, 12, 10, 8, 6, 4, 2] ++
  quiet (List.replicate 35 0) ++ quiet (List.replicate 128 1)


/-- the largest number of transactions set aside at the end of a tick of the run -/
def maxAside (c : Cfg) (ts : List Tk) : Nat :=
  (ts.foldl (fun (acc : St × Nat) t => let s := tick c acc.1 t; (s, max acc.2 s.aside.length)) (init c, 0)).2

/-- **witness_scenario_repaired.** The back-pressure scenario that made the unit before the repair send
    `0 … 72, 74 … 191, 73` (`Old.witness_departure`; two lanes, three FLAT instructions of 64 transactions,
    the port closed until its 64 slots and the 8-entry post-pipeline buffer are full, then one request per
    tick), on the repaired unit: the transactions leave in order (187 within the scenario's ticks — while
    something is set aside the pipeline accepts nothing —, all 192 after eight more ticks), and the
    set-aside path is really taken (up to 8 transactions wait outside the post-pipeline buffer). -/
theorem witness_scenario_repaired :
    departed witnessCfg witnessTicks = List.range 187 ∧
    departed witnessCfg (witnessTicks ++ quiet (List.replicate 8 1)) = List.range 192 ∧
    maxAside witnessCfg witnessTicks = 8 := by decide +kernel

/-- non-vacuity for the MI300A shape (8 lanes, 4 stages, buffer 64): 64 stores + 64 partly coalesced loads -/
example : departed (mkCfg 8 4 64) ([⟨64, List.replicate 64 0⟩, ⟨64, []⟩, ⟨64, List.replicate 64 2⟩] ++ List.replicate 40 ⟨64, []⟩) =
    List.range 74 := by decide +kernel

/-- **counter_sound_with_fifo_path.** Composition with `C02.outstanding_counter_sound`, for EVERY pipeline
    width and buffer size (repaired unit). Let the memory side answer in arrival order (the reorder buffer,
    property C15: the responses so far are the first `k` departures of the unit, for any run of it), and let
    no response precede the issue of its transaction. Then the in-order hypothesis of
    `outstanding_counter_sound` holds, so whenever `OutstandingVectorMemAccess` reads 0 no transaction of any
    issued instruction is in flight: `s_waitcnt vmcnt(0)` cannot release early. -/
theorem counter_sound_with_fifo_path (c : Cfg) (ts : List Tk) (ops : List COp) (k : Nat)
    (hret : txRetIds ops = (departed c ts).take k) (hc : txCausal 0 0 ops = true) :
    (crun ops {}).counter = 0 → (crun ops {}).inflight = [] := by
  apply outstanding_counter_sound
  apply inOrder_of_fifo_responses ops {} 0 (by rfl) (Nat.le_refl _) hc
  rw [hret, vmem_order_preserved c ts, List.take_range, ← List.range_eq_range']
  simp

/-- non-vacuity: the two-lane witness scenario; three instructions of 64 transactions, 150 responses so far -/
example : ∃ (ops : List COp),
    txRetIds ops = (departed witnessCfg witnessTicks).take 150 ∧
    txCausal 0 0 ops = true ∧ (crun ops {}).counter = 1 :=
  ⟨[.issue 64, .issue 64, .issue 64] ++ (List.range 150).map .ret, by decide +kernel, by decide +kernel, by decide +kernel⟩

/-- **store_order_preserved.** Every width (repaired unit): whatever the stores write and wherever, the
    memory (which applies requests in arrival order) ends up as if the departed stores had been applied in
    program order — two stores of a wavefront to one address reach the memory in program order, as the
    emulator applies them. -/
theorem store_order_preserved (c : Cfg) (ts : List Tk) (st : Nat → Nat × Nat) :
    memOf st (departed c ts) = memOf st (List.range (departed c ts).length) := by
  rw [← vmem_order_preserved c ts]

/-- line 9 of the witness scenario now ends with the data of the THIRD store (transaction 137) -/
example : memOf (fun i => (i % 64, i)) (departed witnessCfg witnessTicks) 9 = some 137 := by decide +kernel

/-! ## the unit before the repair -/
namespace Old

/-! ## one lane: FIFO -/

/-- **vmem_order_preserved_width1.** Pipeline width 1 (`WithVecMemTransPipelineWidth(1)`, the builder
    default and the R9 Nano configuration): for every number of stages, every post-pipeline buffer
    capacity, every arrival pattern of transactions (with any coalescing penalties) and every
    back-pressure pattern of the port, the transactions leave the vector memory unit in the order in
    which the coalescer issued them: the departure order reads 0, 1, 2, …. -/
theorem vmem_order_preserved_width1 (c : Cfg) (hw : c.w = 1) (ts : List Tk) :
    departed c ts = List.range (departed c ts).length := by
  unfold departed
  simpa using run_fifo_width1 c hw ts

/-- non-vacuity: one lane, two stages, the port closed for 14 ticks and then opened one slot per tick:
    12 transactions, the post-pipeline buffer fills up (8), all leave in order -/
example : departed (mkCfg 1 2 8) ([⟨2, List.replicate 12 0⟩] ++ List.replicate 14 ⟨0, []⟩ ++ List.replicate 14 ⟨1, []⟩) =
    List.range 12 := by decide +kernel

/-! ## more than one lane: the real witness -/


/-- what the model (and the real unit: `ord=0,…,72,74,…,191,73`) answers: transaction 73 waits in lane 1
    while 118 younger transactions pass through lane 0 -/
theorem witness_departure :
    departed witnessCfg witnessTicks = List.range 73 ++ List.range' 74 118 ++ [73] := by decide +kernel

/-- the FIFO statement for every width -/
def vmem_order_before_fix_full : Prop :=
  ∀ (c : Cfg) (ts : List Tk), departed c ts = List.range (departed c ts).length

/-- **vmem_order_before_fix_refuted.** With two lanes the vector memory unit does not keep the issue order
    (`witnessTicks`, replayed on the real compute unit: oracle `C02.vmem-transaction-order`). -/
theorem vmem_order_before_fix_refuted : ¬ vmem_order_before_fix_full := by
  intro h
  have := h witnessCfg witnessTicks
  rw [witness_departure] at this
  revert this
  decide +kernel

/-! ## when exactly more than one lane reorders -/

/-- **vmem_order_preserved_unless_buffer_full.** For EVERY pipeline width, stage count and buffer
    capacity: if in no tick of the run a push into the post-pipeline buffer is refused (`noStall`: when
    the pipeline ticks, the buffer has room for every transaction standing in a last stage), the
    transactions leave the unit in issue order. So a younger transaction can overtake an older one only
    in a run in which the post-pipeline buffer was full while a lane wanted to push — which needs
    back-pressure from `ToVectorMem` (the harness checks the same on the real unit:
    `txn:reorder-needs-full-buffer`). -/
theorem vmem_order_preserved_unless_buffer_full (c : Cfg) (ts : List Tk) (h : noStall c (init c) ts = true) :
    departed c ts = List.range (departed c ts).length := by
  unfold departed
  simpa using run_fifo_noStall c ts h

/-- non-vacuity: the MI300A configuration (8 lanes, 4 stages, buffer 64), 64 stores + 64 partly coalesced loads (penalty 2), 74 have left so far, the port
    takes everything: no push is refused; the witness run does have a refused push -/
example : noStall (mkCfg 8 4 64) (init (mkCfg 8 4 64))
    ([⟨64, List.replicate 64 0⟩, ⟨64, []⟩, ⟨64, List.replicate 64 2⟩] ++ List.replicate 40 ⟨64, []⟩) = true ∧
    departed (mkCfg 8 4 64) ([⟨64, List.replicate 64 0⟩, ⟨64, []⟩, ⟨64, List.replicate 64 2⟩] ++ List.replicate 40 ⟨64, []⟩) =
      List.range 74 := by decide +kernel

example : noStall witnessCfg (init witnessCfg) witnessTicks = false := by decide +kernel

/-- **counter_sound_with_fifo_path_width1.** Composition with `C02.outstanding_counter_sound`. Let the
    transaction pipeline have ONE lane, let the memory side answer in arrival order (the reorder buffer,
    property C15: the responses so far are the first `k` departures of the unit, for any run of it), and
    let no response precede the issue of its transaction. Then the in-order hypothesis of
    `outstanding_counter_sound` holds, so whenever `OutstandingVectorMemAccess` reads 0 no transaction
    of any issued instruction is in flight: `s_waitcnt vmcnt(0)` cannot release early. -/
theorem counter_sound_with_fifo_path_width1 (c : Cfg) (hw : c.w = 1) (ts : List Tk) (ops : List COp) (k : Nat)
    (hret : txRetIds ops = (departed c ts).take k) (hc : txCausal 0 0 ops = true) :
    (crun ops {}).counter = 0 → (crun ops {}).inflight = [] := by
  apply outstanding_counter_sound
  apply inOrder_of_fifo_responses ops {} 0 (by rfl) (Nat.le_refl _) hc
  rw [hret, vmem_order_preserved_width1 c hw ts, List.take_range, ← List.range_eq_range']
  simp

/-- non-vacuity: the one-lane run above; two instructions (8 and 4 transactions), ten responses so far -/
example : ∃ (ops : List COp),
    txRetIds ops = (departed (mkCfg 1 2 8) ([⟨2, List.replicate 12 0⟩] ++ List.replicate 14 ⟨0, []⟩ ++ List.replicate 14 ⟨1, []⟩)).take 10 ∧
    txCausal 0 0 ops = true ∧ (crun ops {}).counter = 1 :=
  ⟨[.issue 8, .issue 4] ++ (List.range 10).map .ret, by decide +kernel, by decide +kernel, by decide +kernel⟩

/-- the same statement for every pipeline width -/
def counter_sound_before_fix_full : Prop :=
  ∀ (c : Cfg) (ts : List Tk) (ops : List COp) (k : Nat),
    txRetIds ops = (departed c ts).take k → txCausal 0 0 ops = true →
    (crun ops {}).counter = 0 → (crun ops {}).inflight = []

/-- the three instructions of the witness and the first 191 responses (all but transaction 73's) -/
def witnessOps : List COp :=
  [.issue 64, .issue 64, .issue 64] ++ ((departed witnessCfg witnessTicks).take 191).map .ret

/-- **counter_sound_before_fix_refuted.** Two lanes, the real witness: the answers to the last
    transactions of all three instructions (63, 127, 191) have arrived, the counter reads 0, and
    transaction 73 of the second instruction has not even left the compute unit. (On the real unit:
    oracle `C02.vmem-counter-early`; with `s_waitcnt vmcnt(1)` behind store / load / store the dependent
    `v_xor` read the stale lane 9 of the load's destination.) -/
theorem counter_sound_before_fix_refuted : ¬ counter_sound_before_fix_full := by
  intro h
  have h1 : txRetIds witnessOps = (departed witnessCfg witnessTicks).take 191 := by decide +kernel
  have h2 : txCausal 0 0 witnessOps = true := by decide +kernel
  have h3 : (crun witnessOps {}).counter = 0 := by decide +kernel
  have h4 : (crun witnessOps {}).inflight = [⟨73, false⟩] := by decide +kernel
  have := h witnessCfg witnessTicks witnessOps 191 h1 h2 h3
  rw [h4] at this
  cases this

/-- **store_order_preserved_width1.** One lane: whatever the stores write and wherever, the memory
    (which applies requests in arrival order) ends up as if the departed stores had been applied in
    program order — in particular two stores of a wavefront to one address reach the memory in program
    order, as the emulator applies them. -/
theorem store_order_preserved_width1 (c : Cfg) (hw : c.w = 1) (ts : List Tk) (st : Nat → Nat × Nat) :
    memOf st (departed c ts) = memOf st (List.range (departed c ts).length) := by
  rw [← vmem_order_preserved_width1 c hw ts]

example : memOf (fun i => (i % 4, i)) (departed (mkCfg 1 2 8) ([⟨2, List.replicate 12 0⟩] ++ List.replicate 14 ⟨0, []⟩ ++ List.replicate 14 ⟨1, []⟩)) 1 = some 9 := by
  decide +kernel

/-- the same statement for every pipeline width (pointwise) -/
def store_order_before_fix_full : Prop :=
  ∀ (c : Cfg) (ts : List Tk) (st : Nat → Nat × Nat) (a : Nat),
    memOf st (departed c ts) a = memOf st (List.range (departed c ts).length) a

/-- **store_order_before_fix_refuted.** Two lanes, the real witness with three `flat_store_dword` to the same
    64 lines (transaction `i` writes line `i % 64`; the value stands for the data register): line 9 ends
    with the data of the SECOND store (transaction 73) instead of the third (137). On the real unit:
    oracle `C02.vmem-store-order`, line 9 at 0x200240 differs from the emulator's memory. -/
theorem store_order_before_fix_refuted : ¬ store_order_before_fix_full := by
  intro h
  have := h witnessCfg witnessTicks (fun i => (i % 64, i)) 9
  rw [witness_departure] at this
  revert this
  decide +kernel

/-- what the two sides leave in line 9 -/
example : memOf (fun i => (i % 64, i)) (departed witnessCfg witnessTicks) 9 = some 73 ∧
    memOf (fun i => (i % 64, i)) (List.range 192) 9 = some 137 := by
  rw [witness_departure]
  decide +kernel

end Old

end C02.Txn
