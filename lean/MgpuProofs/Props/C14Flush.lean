import MgpuProofs.C14FlushLive
import MgpuProofs.C14FlushCount
/-! # C14 — wait counts and wavefront termination across PIPELINE FLUSH / RESTART (page migration)

Statements are about `C14.Flush.run c St.init ops` (`MgpuModel/C14_Flush.lean`): the compute unit's
memory-side bookkeeping — the three in-flight lists, their shadow copies, the requests queued in the
scalar / vector-memory unit, the five port buffers, the flags `isFlushing / isPaused /
isSendingOutShadowBufferReqs / toSendToCP`, the two outstanding-access counters of every wavefront —
after an **arbitrary** sequence of events: memory instructions issued (any number of transactions),
instruction fetches, the units sending, responses delivered in any order with any request ID the
memory has ever received (also IDs made stale by a flush), requests taken from the ports or left
there (back-pressure, also from other traffic), flush and restart requests, cycles. `LegalRun` is
the environment's side of the contract: the units run only while the unit is not paused (the code's
own `runPipeline` guard), the memory answers only requests it received, and the command processor
follows its protocol (a flush request only after the previous restart was answered, a restart
request only after the flush was acknowledged — `ctrlMiddleware` + the driver's `numRestartACK`).
A flush request may therefore arrive **while the shadow lists are still being re-sent**. All port
capacities are arbitrary (`0 < capCP`). The counter bookkeeping (b) holds for EVERY event sequence
(`bookkeeping_any_run`, no hypothesis at all) since `flushPipeline` no longer empties the shadow
lists (repaired finding C14-flush-while-paused; the code before that repair is `runOld`, refuted in
`bookkeeping_before_fix_refuted`); the acknowledgement statement (c) without the protocol hypothesis
stays refuted (`ack_once_full_refuted`).
-/
namespace C14.Flush

/-! ## legality as a computable check (for the examples) -/

def legalB (s : St) : Op → Bool
  | .issS _ _ => !s.isPaused
  | .issV _ _ => !s.isPaused
  | .fetch _ => !s.isPaused
  | .usendS => !s.isPaused
  | .usendV _ => !s.isPaused
  | .deliver .f i g => decide ((i, g) ∈ s.f.sent)
  | .deliver .s i g => decide ((i, g) ∈ s.s.sent)
  | .deliver .v i g => decide ((i, g) ∈ s.v.sent)
  | .deliver .c _ _ => true
  | .cpFlush => decide (s.cp = .idle)
  | .cpRestart => decide (s.cp = .acked)
  | .take _ _ => true
  | .foreign _ _ => true
  | .tick => true

def legalRunB (c : Cfg) : St → List Op → Bool
  | _, [] => true
  | s, o :: os => legalB s o && legalRunB c (step c s o) os

theorem legalB_sound {s : St} {o : Op} (h : legalB s o = true) : Legal s o := by
  cases o with
  | deliver k i g => cases k <;> simp_all [legalB, Legal]
  | take k n => trivial
  | foreign k n => trivial
  | tick => trivial
  | _ => simp_all [legalB, Legal]

theorem legalRunB_sound (c : Cfg) : ∀ (ops : List Op) (s : St), legalRunB c s ops = true → LegalRun c s ops
  | [], _, _ => trivial
  | o :: os, s, h => by
    simp only [legalRunB, Bool.and_eq_true] at h
    exact ⟨legalB_sound h.1, legalRunB_sound c os _ h.2⟩

/-- the compute unit of the shipped platforms: ports of 4 / 32 / 64 / 4 messages -/
def cfg : Cfg := {}

/-- A FLAT load with three transactions (wavefront 0), a scalar load (wavefront 1) and an
    instruction fetch (wavefront 2) are in flight; flush; a stale answer arrives; restart; a
    **second flush while two vector records are still waiting to be re-sent**; restart; all records
    re-sent and answered. -/
def demo : List Op :=
  [.issV 0 3, .issS 1 1, .fetch 2, .usendS, .usendV 1, .tick, .take .s 1, .take .v 1, .take .f 1,
   .cpFlush, .tick, .tick, .take .c 1, .deliver .v 0 0, .tick,
   .cpRestart, .tick, .take .c 1,
   .cpFlush, .tick, .tick, .take .c 1, .deliver .v 0 1, .cpRestart, .tick, .take .c 1, .tick, .tick, .tick,
   .take .v 9, .take .s 9, .take .f 9,
   .deliver .v 0 2, .deliver .v 1 1, .deliver .v 2 1, .deliver .s 3 2, .deliver .f 4 2, .tick, .tick]

theorem demo_legal : LegalRun cfg St.init demo := legalRunB_sound cfg demo St.init (by decide)

/-- the state when the second flush request is executed: record 0 has been re-sent, 1 and 2 not yet -/
example : ((run cfg St.init (demo.take 18)).v.inf.map (fun e => (e.id, e.gen)),
           (run cfg St.init (demo.take 18)).v.sh.map (fun e => (e.id, e.gen)),
           (run cfg St.init (demo.take 18)).isSending) = ([(0, 1)], [(1, 0), (2, 0)], true) := by decide

/-- **The invariant** (`Inv`, `MgpuProofs/C14FlushInv.lean`) holds after every legal run: the three
    memory paths are consistent (`ChanOK`: in-flight list followed by shadow list in issue order,
    every record created is answered or in exactly one list, no request ID on a port twice, no
    in-flight record without a request on its way or queued, shadow lists empty while running, unit
    queues empty while paused, nothing in flight while paused and not re-sending), the counters
    count, the flags agree with the command processor's protocol state, acknowledgements are
    counted, `isFlushing` is false between two events. -/
theorem flush_inv (c : Cfg) (hcap : 0 < c.capCP) (ops : List Op) (hl : LegalRun c St.init ops) :
    Inv (run c St.init ops) :=
  run_Inv c hcap ops Inv_init hl

/-- `log.Panicf("Unable to send restart rsp to CP")` is unreachable. -/
theorem never_faults (c : Cfg) (hcap : 0 < c.capCP) (ops : List Op) (hl : LegalRun c St.init ops) :
    (run c St.init ops).fault = false :=
  (flush_inv c hcap ops hl).1.2.1.2.1

example : (run cfg St.init demo).fault = false := by decide +kernel

/-- the three memory paths of a state -/
def chans (s : St) : List Chan := [s.f, s.s, s.v]

/-- **(a) Every request in flight at a flush is re-sent exactly once — never twice, never lost.**
    After every legal run, for each of the three memory paths: the records saved by the last executed
    flush (`flushed`, without repetition) are exactly those already re-sent followed by those still
    in the shadow list, in issue order (`resent ++ ids sh = flushed`: nothing re-sent twice, nothing
    dropped — also when a second flush arrives in the middle of the re-sending: the records already
    re-sent and not yet answered are saved again together with the rest); no request ID is ever put
    on a port twice; every record of the in-flight list has its *current* request queued in the unit
    or on its way (so its answer can come); and every record ever created is either answered or in
    exactly one of the two lists. -/
theorem resent_exactly_once (c : Cfg) (hcap : 0 < c.capCP) (ops : List Op) (hl : LegalRun c St.init ops) :
    ∀ ch ∈ chans (run c St.init ops),
      ch.resent ++ ids ch.sh = ch.flushed ∧ ch.flushed.Nodup ∧ ch.sent.Nodup ∧
      (∀ e ∈ ch.inf, e.id ∈ ch.unit ∨ (e.id, e.gen) ∈ ch.sent) ∧
      (ch.applied ++ ids (ch.inf ++ ch.sh)).Perm ch.issued ∧ ch.issued.Nodup := by
  have h := (flush_inv c hcap ops hl).1.1
  intro ch hch
  simp only [chans, List.mem_cons, List.mem_nil_iff, or_false] at hch
  rcases hch with rfl | rfl | rfl
  · exact ⟨h.cf.resentEq, h.cf.flushedNodup, h.cf.sentNodup, h.cf.noOrphan, h.cf.cons, h.cf.issuedNodup⟩
  · exact ⟨h.cs.resentEq, h.cs.flushedNodup, h.cs.sentNodup, h.cs.noOrphan, h.cs.cons, h.cs.issuedNodup⟩
  · exact ⟨h.cv.resentEq, h.cv.flushedNodup, h.cv.sentNodup, h.cv.noOrphan, h.cv.cons, h.cv.issuedNodup⟩

example : (run cfg St.init demo).v.flushed = [0, 1, 2] ∧ (run cfg St.init demo).v.resent = [0, 1, 2] ∧
    (run cfg St.init demo).v.sent = [(0, 0), (0, 1), (0, 2), (1, 1), (2, 1)] := by decide +kernel

/-- (a, completion) Once the unit runs again every record saved by the last flush has been re-sent
    (exactly once: `flushed` has no repetition). -/
theorem resend_complete (c : Cfg) (hcap : 0 < c.capCP) (ops : List Op) (hl : LegalRun c St.init ops)
    (hrun : (run c St.init ops).isPaused = false) :
    ∀ ch ∈ chans (run c St.init ops), ch.sh = [] ∧ ch.resent = ch.flushed := by
  have h := (flush_inv c hcap ops hl).1.1
  intro ch hch
  simp only [chans, List.mem_cons, List.mem_nil_iff, or_false] at hch
  have key : ∀ {ch : Chan} {n q}, ChanOK ch n false q → ch.sh = [] ∧ ch.resent = ch.flushed := by
    intro ch n q hk
    have hsh := hk.runningSh rfl
    have := hk.resentEq
    rw [hsh] at this
    exact ⟨hsh, by simpa [ids] using this⟩
  rcases hch with rfl | rfl | rfl
  · have := h.cf; rw [hrun] at this; exact key this
  · have := h.cs; rw [hrun] at this; exact key this
  · have := h.cv; rw [hrun] at this; exact key this

/-- (a, liveness) **Re-sending ends.** In every reachable state in which the unit is re-sending,
    with no request of the command processor waiting and room on the ports for what is still to go,
    at most (saved records + 1) further cycles re-send everything and resume the unit (the scheduler
    runs again, `isPaused = false`). With `resend_complete`: nothing is lost. -/
theorem resend_terminates (c : Cfg) (hcap : 0 < c.capCP) (ops : List Op) (hl : LegalRun c St.init ops)
    (hs : (run c St.init ops).isSending = true) (hin : (run c St.init ops).cpIn = [])
    (hroom : Room c (run c St.init ops)) :
    ∃ k, k ≤ shTotal (run c St.init ops) + 1 ∧
      (ticks c k (run c St.init ops)).isPaused = false ∧ (ticks c k (run c St.init ops)).isSending = false ∧
      shTotal (ticks c k (run c St.init ops)) = 0 := by
  have hinv := flush_inv c hcap ops hl
  obtain ⟨_, _, _, _, p5⟩ := hinv.1.2.1
  have hack : (run c St.init ops).ackPending = false := by
    rcases p5 with h5 | h5 | h5 | h5 | h5 | h5 | h5 | h5 <;> simp_all
  exact drain_completes c _ _ hs hinv.2 hack hin hroom (Nat.le_refl _)

example : (run cfg St.init (demo.take 25)).isSending = true ∧ shTotal (run cfg St.init (demo.take 25)) = 2 ∧
    (ticks cfg 3 (run cfg St.init (demo.take 25))).isPaused = false := by decide

/-- **(b) The counters are exact at every point.** After every legal run, for every wavefront:
    `OutstandingVectorMemAccess` is the number of its vector-memory records flagged "last
    transaction" that are in the in-flight list or saved in the shadow list, and
    `OutstandingScalarMemAccess` that number plus the same for the scalar path; a record is in those
    lists iff it was created and its answer has not been accepted (each at most once). So a counter
    is the number of the wavefront's memory instructions without their final answer — `s_waitcnt` and
    `s_endpgm` (theorems `waitcnt_sound`, `endpgm_waits` of `Props/C14.lean`, which read exactly these
    counters) cannot pass early; no counter is ever negative. -/
theorem counters_exact (c : Cfg) (hcap : 0 < c.capCP) (ops : List Op) (hl : LegalRun c St.init ops) (w : Nat) :
    let s := run c St.init ops
    s.vm w = (cnt (s.v.inf ++ s.v.sh) w : Int) ∧
    s.lgkm w = (cnt (s.v.inf ++ s.v.sh) w : Int) + (cnt (s.s.inf ++ s.s.sh) w : Int) ∧
    0 ≤ s.vm w ∧ 0 ≤ s.lgkm w ∧
    (∀ ch ∈ chans s, ∀ i, i ∈ ids (ch.inf ++ ch.sh) ↔ i ∈ ch.issued ∧ i ∉ ch.applied) := by
  have h := (flush_inv c hcap ops hl).1.1
  refine ⟨h.vmEq w, h.lgkmEq w, ?_, ?_, ?_⟩
  · rw [h.vmEq w]; exact Int.natCast_nonneg _
  · rw [h.lgkmEq w]; exact Int.add_nonneg (Int.natCast_nonneg _) (Int.natCast_nonneg _)
  · have key : ∀ {ch : Chan} {n p q}, ChanOK ch n p q →
        ∀ i, i ∈ ids (ch.inf ++ ch.sh) ↔ i ∈ ch.issued ∧ i ∉ ch.applied := by
      intro ch n p q hk i
      have hnd : (ch.applied ++ ids (ch.inf ++ ch.sh)).Nodup := hk.cons.nodup_iff.mpr hk.issuedNodup
      have hdis := (List.nodup_append.mp hnd).2.2
      constructor
      · intro hi
        exact ⟨hk.cons.mem_iff.mp (List.mem_append_right _ hi), fun ha => hdis i ha i hi rfl⟩
      · rintro ⟨hi, hna⟩
        rcases List.mem_append.mp (hk.cons.mem_iff.mpr hi) with h1 | h1
        · exact absurd h1 hna
        · exact h1
    intro ch hch
    simp only [chans, List.mem_cons, List.mem_nil_iff, or_false] at hch
    rcases hch with rfl | rfl | rfl
    · exact key h.cf
    · exact key h.cs
    · exact key h.cv

example : (run cfg St.init (demo.take 25)).vm 0 = 1 ∧ (run cfg St.init (demo.take 25)).lgkm 1 = 1 ∧
    (run cfg St.init demo).vm 0 = 0 ∧ (run cfg St.init demo).lgkm 1 = 0 := by decide

/-- (b, no hang) In every reachable state an answer that names the *current* request of a record of
    an in-flight list is accepted by exactly that record (which then leaves the list and, if it is
    the instruction's last transaction, decrements the counters): together with
    `resent_exactly_once` (the current request of every in-flight record is queued or on its way) and
    `resend_terminates` (saved records come back) a counter cannot stay above zero for ever. -/
theorem current_answer_accepted (c : Cfg) (hcap : 0 < c.capCP) (ops : List Op) (hl : LegalRun c St.init ops) :
    ∀ ch ∈ chans (run c St.init ops), ∀ e ∈ ch.inf, (ch.respond (e.id, e.gen)).2 = some e := by
  have h := (flush_inv c hcap ops hl).1.1
  intro ch hch e he
  simp only [chans, List.mem_cons, List.mem_nil_iff, or_false] at hch
  rcases hch with rfl | rfl | rfl
  · exact respond_current h.cf he
  · exact respond_current h.cs he
  · exact respond_current h.cv he

/-- (stale answers) An answer for a request ID that a flush has made stale — the record is saved in
    the shadow list, or was re-sent with a fresh ID — matches no in-flight record: it is dropped and
    changes neither list nor counter. -/
theorem stale_answer_dropped (ch : Chan) (r : Req) (h : ∀ e ∈ ch.inf, ¬ ((e.id, e.gen) = r)) :
    ch.respond r = (ch, none) := by
  unfold Chan.respond
  have : ch.inf.find? (Entry.is r) = none := by
    apply List.find?_eq_none.mpr
    intro e he hp
    simp only [Entry.is, Bool.and_eq_true, beq_iff_eq] at hp
    exact h e he (by cases r; simp_all)
  rw [this]

example : ((run cfg St.init (demo.take 18)).v.respond (0, 0)).2 = none ∧
    ((run cfg St.init (demo.take 18)).v.respond (1, 0)).2 = none ∧
    ((run cfg St.init (demo.take 18)).v.respond (0, 1)).2.map (·.id) = some 0 := by decide

/-- **(c) The flush is acknowledged exactly once.** After every legal run no acknowledgement was
    overwritten in `toSendToCP`, the acknowledgements put on `ToCP` plus the one still pending equal
    the number of flush requests executed, and every restart request was answered once. -/
theorem ack_exactly_once (c : Cfg) (hcap : 0 < c.capCP) (ops : List Op) (hl : LegalRun c St.init ops) :
    let s := run c St.init ops
    s.acksLost = 0 ∧ s.ackLog.count .ack + (if s.ackPending then 1 else 0) = s.flushes ∧
    s.ackLog.count .rrsp = s.restarts :=
  (flush_inv c hcap ops hl).1.2.2

example : (run cfg St.init demo).flushes = 2 ∧ (run cfg St.init demo).ackLog = [.ack, .rrsp, .ack, .rrsp] := by
  decide +kernel

/-- the pipeline is quiescent, as the code defines it: paused, not re-sending, nothing in the
    in-flight lists, nothing queued in the units -/
def Quiescent (s : St) : Prop :=
  s.isPaused = true ∧ s.isSending = false ∧ ∀ ch ∈ chans s, ch.inf = [] ∧ ch.unit = []

/-- **(c) …and only when the pipeline is quiescent.** In every reachable state in which the
    acknowledgement is pending, on the port, or received by the command processor and the restart
    request not yet handled, the pipeline is quiescent. -/
theorem ack_only_when_quiescent (c : Cfg) (hcap : 0 < c.capCP) (ops : List Op) (hl : LegalRun c St.init ops)
    (hack : (run c St.init ops).ackPending = true ∨ .ack ∈ (run c St.init ops).cpOut ∨
      (run c St.init ops).cp = .acked ∨ (run c St.init ops).cpIn = [.restart]) :
    Quiescent (run c St.init ops) := by
  have hinv := flush_inv c hcap ops hl
  generalize run c St.init ops = s at hinv hack
  obtain ⟨_, _, _, _, p5⟩ := hinv.1.2.1
  have hpq : s.isPaused = true ∧ s.isSending = false := by
    rcases p5 with h5 | h5 | h5 | h5 | h5 | h5 | h5 | h5 <;> simp_all
  have h := hinv.1.1
  refine ⟨hpq.1, hpq.2, ?_⟩
  intro ch hch
  simp only [chans, List.mem_cons, List.mem_nil_iff, or_false] at hch
  rcases hch with rfl | rfl | rfl
  · exact ⟨h.cf.pausedIdle hpq.1 hpq.2, h.cf.pausedUnit hpq.1⟩
  · exact ⟨h.cs.pausedIdle hpq.1 hpq.2, h.cs.pausedUnit hpq.1⟩
  · exact ⟨h.cv.pausedIdle hpq.1 hpq.2, h.cv.pausedUnit hpq.1⟩

example : (run cfg St.init (demo.take 12)).cpOut = [.ack] ∧ (run cfg St.init (demo.take 12)).v.inf = [] ∧
    (run cfg St.init (demo.take 12)).v.sh.length = 3 := by decide

/-- (c) While quiescent the unit puts no request on a memory port, whatever the environment does,
    until it handles a restart request. -/
theorem quiescent_sends_nothing (c : Cfg) (s : St) (o : Op) (hl : Legal s o)
    (hp : s.isPaused = true) (hq : s.isSending = false) (hfl : s.isFlushing = false)
    (hnr : o = .tick → s.cpIn.head? ≠ some .restart) :
    (step c s o).f.sent = s.f.sent ∧ (step c s o).s.sent = s.s.sent ∧ (step c s o).v.sent = s.v.sent :=
  quiesced_no_send c s o hl hp hq hfl hnr

/-- everything issued has been answered -/
def AllAnswered (s : St) : Prop := ∀ ch ∈ chans s, ch.inf = [] ∧ ch.sh = []

/-- **(d) After restart and all answers the unit is in the state of a run that was never flushed.**
    Two legal runs that issued the same memory instructions and fetches — one with any number of
    flush / restart rounds, the other without a flush request — and in which every record has been
    answered: every counter of every wavefront is zero in both, on each path the answers accepted
    (register writes / instruction bytes taken) are the same records, each exactly once, and, when
    the command processor is idle and the re-sending has ended, the flushed unit is running again. -/
theorem final_state_as_unflushed (c : Cfg) (hcap : 0 < c.capCP) (ops ops' : List Op)
    (hl : LegalRun c St.init ops) (hl' : LegalRun c St.init ops') (_hno : Op.cpFlush ∉ ops')
    (hsame : (chans (run c St.init ops)).map (·.issued) = (chans (run c St.init ops')).map (·.issued))
    (hdone : AllAnswered (run c St.init ops)) (hdone' : AllAnswered (run c St.init ops')) :
    let s := run c St.init ops
    let s' := run c St.init ops'
    (∀ w, s.vm w = 0 ∧ s.lgkm w = 0 ∧ s'.vm w = 0 ∧ s'.lgkm w = 0) ∧
    s.f.applied.Perm s'.f.applied ∧ s.s.applied.Perm s'.s.applied ∧ s.v.applied.Perm s'.v.applied ∧
    s.v.applied.Nodup ∧ s.s.applied.Nodup ∧ s.f.applied.Nodup ∧
    (s.cp = .idle → s.isSending = false → s.isPaused = false) := by
  have hi := flush_inv c hcap ops hl
  have hi' := flush_inv c hcap ops' hl'
  generalize run c St.init ops = s at hi hsame hdone
  generalize run c St.init ops' = s' at hi' hsame hdone'
  have h := hi.1.1
  have h' := hi'.1.1
  simp only [chans, List.map_cons, List.map_nil, List.cons.injEq, and_true] at hsame
  obtain ⟨e1, e2, e3⟩ := hsame
  have d := fun ch hch => hdone ch hch
  have d' := fun ch hch => hdone' ch hch
  simp only [chans, List.mem_cons, List.mem_nil_iff, or_false] at d d'
  obtain ⟨fi, fs⟩ := d s.f (Or.inl rfl)
  obtain ⟨si, ss⟩ := d s.s (Or.inr (Or.inl rfl))
  obtain ⟨vi, vs⟩ := d s.v (Or.inr (Or.inr rfl))
  obtain ⟨fi', fs'⟩ := d' s'.f (Or.inl rfl)
  obtain ⟨si', ss'⟩ := d' s'.s (Or.inr (Or.inl rfl))
  obtain ⟨vi', vs'⟩ := d' s'.v (Or.inr (Or.inr rfl))
  have perm : ∀ {a b : Chan} {n p q n' p' q'}, ChanOK a n p q → ChanOK b n' p' q' → a.inf = [] → a.sh = [] →
      b.inf = [] → b.sh = [] → a.issued = b.issued → a.applied.Perm b.applied ∧ a.applied.Nodup := by
    intro a b n p q n' p' q' ha hb a1 a2 b1 b2 hab
    have pa := ha.cons
    have pb := hb.cons
    rw [a1, a2] at pa
    rw [b1, b2] at pb
    simp only [ids, List.append_nil, List.map_nil] at pa pb
    exact ⟨pa.trans (hab ▸ pb.symm), pa.nodup_iff.mpr ha.issuedNodup⟩
  refine ⟨?_, (perm h.cf h'.cf fi fs fi' fs' e1).1, (perm h.cs h'.cs si ss si' ss' e2).1,
    (perm h.cv h'.cv vi vs vi' vs' e3).1, (perm h.cv h'.cv vi vs vi' vs' e3).2,
    (perm h.cs h'.cs si ss si' ss' e2).2, (perm h.cf h'.cf fi fs fi' fs' e1).2, ?_⟩
  · intro w
    refine ⟨?_, ?_, ?_, ?_⟩
    · rw [h.vmEq w, vi, vs]; rfl
    · rw [h.lgkmEq w, vi, vs, si, ss]; rfl
    · rw [h'.vmEq w, vi', vs']; rfl
    · rw [h'.lgkmEq w, vi', vs', si', ss']; rfl
  · intro hidle hns
    obtain ⟨_, _, _, _, p5⟩ := hi.1.2.1
    cases hp : s.isPaused with
    | false => rfl
    | true => rcases p5 with h5 | h5 | h5 | h5 | h5 | h5 | h5 | h5 <;> simp_all

/-- the same instructions without any flush, answered in issue order -/
def demoPlain : List Op :=
  [.issV 0 3, .issS 1 1, .fetch 2, .usendS, .usendV 3, .tick, .take .s 1, .take .v 3, .take .f 1,
   .deliver .v 0 0, .deliver .v 1 0, .deliver .v 2 0, .deliver .s 3 0, .deliver .f 4 0, .tick]

example : LegalRun cfg St.init demoPlain ∧ Op.cpFlush ∉ demoPlain ∧
    (chans (run cfg St.init demo)).map (·.issued) = (chans (run cfg St.init demoPlain)).map (·.issued) ∧
    (chans (run cfg St.init demo)).all (fun ch => ch.inf.isEmpty && ch.sh.isEmpty) = true ∧
    (chans (run cfg St.init demoPlain)).all (fun ch => ch.inf.isEmpty && ch.sh.isEmpty) = true ∧
    (run cfg St.init demo).v.applied = [0, 1, 2] ∧ (run cfg St.init demo).isPaused = false :=
  ⟨legalRunB_sound cfg demoPlain St.init (by decide +kernel), by decide +kernel, by decide +kernel,
   by decide +kernel, by decide +kernel, by decide +kernel, by decide +kernel⟩

/-! ## without the command processor's protocol -/

/-- the full statement of (b) for **every** event sequence: no protocol hypothesis, no legality
    hypothesis (the units may run while the unit is paused, the memory may answer with any request
    ID), no capacity hypothesis — both counters of every wavefront -/
def bookkeeping_full : Prop :=
  ∀ (c : Cfg) (ops : List Op) (w : Nat),
    (run c St.init ops).vm w =
      (cnt ((run c St.init ops).v.inf ++ (run c St.init ops).v.sh) w : Int) ∧
    (run c St.init ops).lgkm w =
      (cnt ((run c St.init ops).v.inf ++ (run c St.init ops).v.sh) w : Int) +
      (cnt ((run c St.init ops).s.inf ++ (run c St.init ops).s.sh) w : Int)

/-- **(b) at full strength: the counters are exact after EVERY event sequence.** Since the repair —
    `flushPipeline` appends what is in flight to the shadow lists and keeps what they hold,
    `reInsertShadowBufferReqsToOriginalBuffers` moves the records back instead of copying them — a
    record only ever moves between the in-flight list and the shadow list of its path, and leaves
    them only when its answer is accepted, which is when the counters are decremented. So
    `OutstandingVectorMemAccess` / `OutstandingScalarMemAccess` equal the number of "last
    transaction" records of the wavefront in the lists whatever the command processor (or any other
    control component) sends: flush while paused, flush twice, restart without flush, … In
    particular no flush can leave a counter above zero with no record left to answer. The hypothesis
    dropped with respect to `counters_exact` is the WHOLE of `LegalRun` (and `0 < capCP`). -/
theorem bookkeeping_any_run : bookkeeping_full := by
  intro c ops w
  have h := run_Counts c ops Counts_init
  exact ⟨h.1 w, h.2 w⟩

/-- one FLAT load; flush; a second flush request while the unit is still paused by the first -/
def lostOps : List Op := [.issV 0 1, .cpFlush, .tick, .cpFlush, .tick, .cpRestart, .tick, .tick]

/-- the second flush keeps the saved record: after the restart it is re-sent (request `(0, 1)`),
    the answer is accepted and the counter returns to 0 -/
example : (run cfg St.init (lostOps.take 5)).v.sh.map (·.id) = [0] ∧
    (run cfg St.init lostOps).vm 0 = 1 ∧ (run cfg St.init lostOps).v.inf.map (fun e => (e.id, e.gen)) = [(0, 1)] ∧
    (run cfg St.init lostOps).v.out = [(0, 1)] ∧ (run cfg St.init lostOps).isPaused = false ∧
    (run cfg St.init (lostOps ++ [.take .v 9, .deliver .v 0 1, .tick])).vm 0 = 0 ∧
    (run cfg St.init (lostOps ++ [.take .v 9, .deliver .v 0 1, .tick])).v.applied = [0] := by decide

/-- the old statement (vector counter, `0 < capCP`) for the code BEFORE the repair (`runOld`) -/
def bookkeeping_before_fix : Prop :=
  ∀ (c : Cfg) (ops : List Op) (w : Nat), 0 < c.capCP →
    (runOld c St.init ops).vm w =
      (cnt ((runOld c St.init ops).v.inf ++ (runOld c St.init ops).v.sh) w : Int)

/-- **Refuted before the repair.** `flushPipeline` emptied the shadow lists before
    `populateShadowBuffers`: a flush request executed while the unit was paused by an earlier flush
    (no restart in between — not the shipped command processor's behaviour) threw the saved records
    away. The wavefront's counter stayed at 1 for ever although no record was left: `s_waitcnt
    vmcnt(0)` never completed and the load's destination register was never written. Reproduced on
    the real compute unit before the repair (oracle `C14.flush.request-lost.flush-while-paused`). -/
theorem bookkeeping_before_fix_refuted : ¬ bookkeeping_before_fix := by
  intro h
  have := h cfg lostOps 0 (by decide)
  revert this
  decide

example : (runOld cfg St.init lostOps).vm 0 = 1 ∧ (runOld cfg St.init lostOps).v.inf = [] ∧
    (runOld cfg St.init lostOps).v.sh = [] ∧ (runOld cfg St.init lostOps).v.applied = [] ∧
    (runOld cfg St.init lostOps).isPaused = false := by decide

/-- the full statement of (c) for every event sequence -/
def ack_once_full : Prop :=
  ∀ (c : Cfg) (ops : List Op), 0 < c.capCP → (run c St.init ops).acksLost = 0

/-- With a `ToCP` buffer that stays occupied (here: capacity 1, a restart answer nobody takes) a
    second flush overwrites the acknowledgement of the first in `toSendToCP`: two flush requests
    executed, one acknowledgement can ever be sent. -/
theorem ack_once_full_refuted : ¬ ack_once_full := by
  intro h
  have := h { capCP := 1 } [.cpRestart, .tick, .cpFlush, .tick, .cpFlush, .tick] (by decide)
  revert this
  decide

/-- the restart answer is sent with `Send` + `log.Panicf`: a full `ToCP` buffer is a crash -/
example : (run { capCP := 1 } St.init [.cpRestart, .tick, .cpRestart, .tick]).fault = true := by decide

end C14.Flush
