import MgpuProofs.C05Sched
import MgpuProofs.Props.C12
/-! # C05 — goroutine hand-off: what IS and what IS NOT the same for every interleaving

The three goroutines of a simulation (application thread, `Driver.runAsync`, `Driver.runEngine`)
share exactly the objects of the C12 protocol model (`Props/C05.lean`, `go_sites_shared_objects`).
C12 proves that every interleaving terminates; here the question is whether every interleaving
produces the SAME run.

* ORDER — proved for every script of ONE application thread and every interleaving: the commands
  complete in submission order 1, 2, …, n; every intermediate state has completed a prefix of that
  list; every tick event dequeues at most the head (`completion_order_schedule_independent`,
  `completed_is_prefix`, `tick_serves_head_only`). The hypothesis is exactly "one application
  thread": with two threads the order in which the engine serves the queues depends on the
  interleaving (`two_app_threads_break_order`, kernel-checked witness; the property allows this).
* SIMULATED TIME — NOT schedule independent, even with one application thread
  (`completion_times_refuted`): `DrainCommandQueue` returns as soon as the queue is empty, while
  the engine goroutine is still running the events that follow (at least the driver's next tick);
  the next `Enqueue`/`Drain` of the application races with them. If it wins, the next command is
  picked up by the tick already scheduled; if it loses, `runAsync` schedules a new tick one cycle
  after the engine's final time. The witness (script `Enqueue; Drain; Enqueue; Drain`) is replayed
  on the real driver and serial engine by `harness/c05_deep.go` (oracle `C05.sched-time`, listed as
  an open finding). What does hold: the timed model has exactly the interleavings of the protocol
  model, its completion log is the protocol's, and under the discipline "start an API call only
  when the simulator is at rest" the times ARE a function of the script, for every script and every
  interleaving the discipline allows (`quiescent_calls_times_deterministic`, Props/C05Quiet.lean) —
  a discipline the driver API gives the application no means to follow.
-/
namespace C05
open C12 (APc RPc EPc Th)

/-- the ids a script submits: 1 … n, n = number of `Enqueue` calls -/
def idsOf (rounds : List Nat) : List Nat := List.range' 1 rounds.sum

/-- **Completion order is a function of the application's call sequence** (one application
    thread). For every script and EVERY interleaving of the application thread, `runAsync` and
    `runEngine` that runs the script to its end, the commands completed are exactly the submitted
    ones, in submission order, each once. Two runs of the same script therefore complete (and
    start — a command starts in the tick that completes it, `C12.Q` covers kernels) the same
    commands in the same order, whatever the host schedule. -/
theorem completion_order_is_script_order (rounds : List Nat) (ts : List Th) (s : C12.St)
    (hr : C12.runSched (C12.init rounds) ts = some s) (hf : C12.finished s) :
    s.completed = idsOf rounds := by
  have hi := oinv_run rounds.sum ts (oinv_init rounds) hr
  have hfifo := C12.fifo (runSched_reach12 ts (C12.Reach.init rounds) hr)
  have hc : s.cmds = [] := hi.idle_done hf.1 hf.2
  have hl := hi.left
  rw [hf.2] at hl
  simp only [List.sum_nil, Nat.add_zero] at hl
  rw [hc, List.append_nil] at hfifo
  rw [← hfifo, hi.sub, hl]
  rfl

/-- … hence the same for any two interleavings. -/
theorem completion_order_schedule_independent (rounds : List Nat) (ts₁ ts₂ : List Th) (s₁ s₂ : C12.St)
    (h₁ : C12.runSched (C12.init rounds) ts₁ = some s₁) (h₂ : C12.runSched (C12.init rounds) ts₂ = some s₂)
    (f₁ : C12.finished s₁) (f₂ : C12.finished s₂) : s₁.completed = s₂.completed := by
  rw [completion_order_is_script_order rounds ts₁ s₁ h₁ f₁, completion_order_is_script_order rounds ts₂ s₂ h₂ f₂]

/-- **Every intermediate state of every interleaving has completed a prefix of the script's
    command list** — two runs can never disagree on the order of two commands, not even while
    they are still running. -/
theorem completed_is_prefix (rounds : List Nat) (ts : List Th) (s : C12.St)
    (hr : C12.runSched (C12.init rounds) ts = some s) : s.completed <+: idsOf rounds := by
  have hi := oinv_run rounds.sum ts (oinv_init rounds) hr
  have hfifo := C12.fifo (runSched_reach12 ts (C12.Reach.init rounds) hr)
  have h1 : s.completed <+: s.submitted := by rw [hfifo]; exact List.prefix_append _ _
  have h2 : s.submitted <+: idsOf rounds := by
    rw [hi.sub]
    unfold idsOf
    rw [← hi.left, ← List.range'_append_1]
    exact List.prefix_append _ _
  exact h1.trans h2

/-- **A tick event serves the head of the queue only**: one step of any thread either leaves
    the completion log alone or appends exactly the head of the queue (= `C12.fifo_one_at_a_time`). -/
theorem tick_serves_head_only (s s' : C12.St) (t : Th) (hs : C12.step s t = some s') :
    s'.completed = s.completed ∨ ∃ c cs, s.cmds = c :: cs ∧ s'.completed = s.completed ++ [c] := by
  rcases C12.fifo_one_at_a_time s s' t hs with h | ⟨c, cs, h1, _, h3⟩
  · exact Or.inl h.1
  · exact Or.inr ⟨c, cs, h1, h3⟩

/-! ## the timed model -/

/-- **The timed model has exactly the interleavings of the protocol model**: a timed step
    projects to a protocol step, and every protocol step is the projection of a timed step. All
    C12 theorems (FIFO, termination for every interleaving) therefore hold of the timed model. -/
theorem timed_model_same_interleavings (s : T.St) (t : Th) :
    (∀ s', T.step s t = some s' → C12.step s.p t = some s'.p) ∧
    (∀ p', C12.step s.p t = some p' → ∃ s', T.step s t = some s' ∧ s'.p = p') :=
  ⟨fun _ h => T.step_proj h, fun p' h => T.step_lift s t p' h⟩

/-- every interleaving of the timed model ends within `C12.measure` steps with all drains returned -/
theorem timed_runs_terminate {s : T.St} (h : T.Reach s) : ∀ n, C12.measure s.p ≤ n → C12.AllRunsFinish n s.p :=
  C12.drain_terminates (T.reach_proj h)

/-- the timed completion log, without the times, is the protocol's completion log -/
theorem timed_completions_are_protocol_completions {s : T.St} (h : T.Reach s) :
    s.ctimes.map (·.1) = s.p.completed := T.ctimes_reach h

/-- full statement: the completion TIMES are the same for every interleaving -/
def completion_times_full : Prop :=
  ∀ (rounds : List Nat) (ts₁ ts₂ : List Th) (s₁ s₂ : T.St),
    T.runSched (T.init rounds) ts₁ = some s₁ → T.runSched (T.init rounds) ts₂ = some s₂ →
    C12.finished s₁.p → C12.finished s₂.p → T.quiescent s₁ → T.quiescent s₂ →
    s₁.ctimes = s₂.ctimes ∧ s₁.now = s₂.now

/-- the application's second `Enqueue` overtakes the tick that follows the first completion:
    command 2 is dequeued by that tick (cycle 2), the run ends at cycle 3 -/
def schedFast : List Th :=
  [.app, .app, .app, .async, .async, .eng, .eng, .eng, .eng,   -- round 1: command 1 dequeued at cycle 1
   .app,                                                       -- Drain returns (queue empty) …
   .app,                                                       -- … and the next Enqueue happens
   .eng, .eng, .eng,                                           -- BEFORE the tick at cycle 2: it dequeues command 2
   .app, .app, .async, .async, .app,                           -- second Drain: TickLater is a no-op, returns at once
   .eng, .eng, .eng, .eng, .eng, .eng, .eng, .eng]             -- tick at 3 finds nothing; engine exits

/-- the engine finishes (tick at cycle 2 finds nothing, `Run` returns) before the second `Enqueue`:
    `runAsync` schedules a new tick at cycle 3, the run ends at cycle 4 -/
def schedSlow : List Th :=
  [.app, .app, .app, .async, .async, .eng, .eng, .eng, .eng,   -- round 1: command 1 dequeued at cycle 1
   .eng, .eng, .eng, .eng, .eng,                               -- tick at 2 finds nothing; engine exits
   .app, .app, .app, .app, .async, .async,                     -- Drain returns, Enqueue, Drain: tick at 3
   .eng, .eng, .eng, .eng, .eng, .app, .eng, .eng, .eng, .eng]

/-- non-vacuity of the order theorems: the script run to its end by a non-trivial interleaving -/
example : ∃ s, C12.runSched (C12.init [1, 1]) schedFast = some s ∧ C12.finished s ∧ s.completed = [1, 2] := by
  refine ⟨_, rfl, ?_, rfl⟩; decide

/-- **Simulated time depends on the host schedule even with one application thread** (genuine
    defect of the hand-off, replayed on the real code): the same script, two interleavings, both
    run to the end with the system at rest — command 2 completes at cycle 2 in one and at cycle 3
    in the other, and the final simulated time is 3 vs 4 cycles. -/
theorem completion_times_witness :
    ∃ s₁ s₂, T.runSched (T.init [1, 1]) schedFast = some s₁ ∧ T.runSched (T.init [1, 1]) schedSlow = some s₂ ∧
      C12.finished s₁.p ∧ C12.finished s₂.p ∧ T.quiescent s₁ ∧ T.quiescent s₂ ∧
      s₁.ctimes = [(1, 1), (2, 2)] ∧ s₂.ctimes = [(1, 1), (2, 3)] ∧ s₁.now = 3 ∧ s₂.now = 4 := by
  refine ⟨_, _, rfl, rfl, ?_, ?_, ?_, ?_, rfl, rfl, rfl, rfl⟩ <;> decide

theorem completion_times_refuted : ¬ completion_times_full := by
  intro h
  obtain ⟨s₁, s₂, h₁, h₂, f₁, f₂, q₁, q₂, c₁, c₂, _, _⟩ := completion_times_witness
  have := (h [1, 1] schedFast schedSlow s₁ s₂ h₁ h₂ f₁ f₂ q₁ q₂).1
  rw [c₁, c₂] at this
  exact absurd this (by decide)

/-- **What the two runs do agree on** (`…_partial`): for every script and any two interleavings
    run to the end, the completion logs name the same commands in the same order — only the time
    stamps can differ. -/
theorem completion_times_partial (rounds : List Nat) (ts₁ ts₂ : List Th) (s₁ s₂ : T.St)
    (h₁ : T.runSched (T.init rounds) ts₁ = some s₁) (h₂ : T.runSched (T.init rounds) ts₂ = some s₂)
    (f₁ : C12.finished s₁.p) (f₂ : C12.finished s₂.p) :
    s₁.ctimes.map (·.1) = s₂.ctimes.map (·.1) ∧ s₁.ctimes.map (·.1) = idsOf rounds := by
  have r₁ := T.runSched_reach ts₁ (T.Reach.init rounds) h₁
  have r₂ := T.runSched_reach ts₂ (T.Reach.init rounds) h₂
  rw [T.ctimes_reach r₁, T.ctimes_reach r₂]
  have e₁ := completion_order_is_script_order rounds ts₁ s₁.p (T.runSched_proj ts₁ h₁) f₁
  have e₂ := completion_order_is_script_order rounds ts₂ s₂.p (T.runSched_proj ts₂ h₂) f₂
  exact ⟨e₁.trans e₂.symm, e₁⟩

/-- the slow schedule respects the quiescent-call discipline, the fast one does not -/
example : (T.runQ (T.init [1, 1]) schedSlow).isSome = true ∧ (T.runQ (T.init [1, 1]) schedFast).isSome = false := by
  constructor <;> decide

/-- under the discipline the times are those of the sequential specification -/
example : ∃ s, T.runQ (T.init [1, 1]) schedSlow = some s ∧ s.ctimes = T.specTimes 0 1 [1, 1] ∧ s.now = 4 := by
  refine ⟨_, rfl, ?_, rfl⟩; decide

/-! ## two application threads -/

open C12.K (Op) in
/-- two application threads, each with its own queue: `Enqueue(q); DrainCommandQueue(q)` -/
def twoThreads : List (List C12.K.Op) := [[.enq 0, .drain 0], [.enq 1, .drain 1]]

/-- both threads enqueue before the first tick: the tick serves queue 0, then queue 1 -/
def schedBoth : List C12.K.Th :=
  [.app 0, .app 0, .app 1, .app 1, .app 0, .app 0, .async, .async, .app 1, .app 1, .async, .async,
   .eng, .eng, .eng, .eng, .eng, .eng, .eng, .eng, .eng, .eng, .eng, .eng, .eng, .eng, .eng, .eng, .eng,
   .app 0, .app 1]

/-- thread 1 runs its whole script first, then thread 0: queue 1 is served first -/
def schedOneFirst : List C12.K.Th :=
  [.app 1, .app 1, .app 1, .app 1, .async, .async,
   .eng, .eng, .eng, .eng, .eng, .eng, .eng, .eng, .eng, .eng, .eng, .eng, .eng, .app 1,
   .app 0, .app 0, .app 0, .app 0, .async, .async,
   .eng, .eng, .eng, .eng, .eng, .eng, .eng, .eng, .eng, .eng, .eng, .eng, .eng, .app 0]

/-- **Two application threads break reproducibility** (allowed by the property, which assumes one
    thread): the same two scripts, two interleavings, both run to the end — the engine serves the
    queues in the order 0, 1 in one run and 1, 0 in the other. The hypothesis "one application
    thread" of `completion_order_schedule_independent` cannot be dropped. -/
theorem two_app_threads_break_order :
    ∃ s₁ s₂, KL.runSched (KL.init twoThreads 2) schedBoth = some s₁ ∧
      KL.runSched (KL.init twoThreads 2) schedOneFirst = some s₂ ∧
      C12.K.finished s₁.k ∧ C12.K.finished s₂.k ∧ s₁.log = [0, 1] ∧ s₂.log = [1, 0] := by
  refine ⟨_, _, rfl, rfl, ?_, ?_, rfl, rfl⟩ <;> decide

end C05
