import MgpuProofs.C07Dec
set_option linter.unusedVariables false
/-! # C07 — property theorems: the operands the decoder can build, and the open finding
`C07-malformed-operand-width`

Decision on the finding ("operands that denote no registers get different lengths in the two stores"):
such operands ARE decodable — `malformed_operand_is_decodable` exhibits `s_load_dwordx4` with
SDATA = 106 (`vcc_lo` × 4), replayed through the real decoder and both real stores by
harness/c07_disp.go. `decoder_operand_counts` shows that SMEM is the only source: every other format
gives special registers `RegCount` 0 or 2, and for those `alu_special_operands_agree` proves that both
stores answer `ReadOperand` / `WriteOperand` identically (one listed exception). The differing answers
of the finding are those of `ReadOperandBytes`, which no ALU calls on an SMEM data operand (the
emulator writes it with `WriteOperandBytes`, on which the stores agree; timing does not use the stores
at all on that path — finding `C07-smem-load-into-special`). Helper lemmas: MgpuProofs/C07Dec.lean. -/
namespace C07
open Gen

/-- **The `RegCount`s the decoder can produce** (model of property C04: `insts.Disassembler.Decode`, any
bytes, GCN3 or CDNA3). Every register operand of every decodable instruction: outside SMEM at most 4
registers, and an operand that is not a VGPR — an SGPR or one of the special registers `getOperand`
knows (VCC_LO/HI, EXEC_LO/HI, M0, SCC, FLAT_SCRATCH, XNACK_MASK, TBA, TMA, TTMP, VCCZ, EXECZ) — has
`RegCount` 0 or 2; SMEM: 0, 1, 2, 4, 8 or 16 registers, whatever SDATA names. -/
theorem decoder_operand_counts (c : Bool) (buf : List Nat) (i : C04.Inst) (h : C04.decode c buf = .ok i) :
    ∀ p ∈ regOpnds i,
      (i.ft ≠ FT_SMEM → p.2 ≤ 4 ∧ (isVReg p.1 = false → p.2 = 0 ∨ p.2 = 2)) ∧
      (i.ft = FT_SMEM → p.2 = 0 ∨ p.2 = 1 ∨ p.2 = 2 ∨ p.2 = 4 ∨ p.2 = 8 ∨ p.2 = 16) :=
  decoded_operand_counts c buf i h

/-- `s_mov_b64 exec, vcc` (bytes `6a 01 fe be`): both operands special registers with count 2 -/
example : (match C04.decode false [0x6a, 0x01, 0xfe, 0xbe] with | .ok i => regOpnds i | _ => []) =
    [(R_VCCLO, 2), (R_EXECLO, 2)] := by decide +kernel

/-- **A decodable instruction with an operand outside the supported subset**: the bytes
`82 1a 0a c0 00 00 00 00` (`s_load_dwordx4` with SDATA = 106, SBASE = `s[4:5]`) decode to the data
operand `vcc_lo` with `RegCount` 4, which `Acc.Supported` excludes (`vcc_lo` allows 1 or 2). So the
open finding `C07-malformed-operand-width` is reachable by the decoder. -/
theorem malformed_operand_is_decodable :
    ∃ i, C04.decode false [0x82, 0x1a, 0x0a, 0xc0, 0, 0, 0, 0] = .ok i ∧ i.data = some (.reg 106 R_VCCLO 4) ∧
      ¬ (⟨.vcclo, 4, 0⟩ : Acc).Supported 102 256 :=
  malformed_operand_decodable

/-- **Every special-register operand an ALU instruction can carry is answered identically by both
stores**, inside the supported subset or not: for ANY register that is neither SGPR nor VGPR and
`RegCount` 0 or 2 (all that `decoder_operand_counts` leaves outside SMEM), `ReadOperand` gives the same
value or the same fault in both stores whenever the special registers agree; `WriteOperand` faults
alike, leaves them agreeing and touches no register file — except `exec_hi` with count 2 (emulator
"not supported", timing writes EXEC: `operand_fault_disagreements`). -/
theorem alu_special_operands_agree (e : EmuRF) (t : TimingRF) (wi r k lane : Nat)
    (hS : isSReg r = false) (hV : isVReg r = false) (hk : k = 0 ∨ k = 2)
    (hag : e.vcc = (t.wf wi).vcc ∧ e.exec = (t.wf wi).exec ∧ e.scc = (t.wf wi).scc ∧ e.m0 = (t.wf wi).m0)
    (hwi : wi < t.wfs.size) :
    e.readOperand r k lane = t.readOperand wi r k lane ∧
    (¬ (r = R_EXECHI ∧ k = 2) → ∀ v,
      (e.writeOperand r k lane v).2 = (t.writeOperand wi r k lane v).2 ∧
      (e.writeOperand r k lane v).1.vcc = ((t.writeOperand wi r k lane v).1.wf wi).vcc ∧
      (e.writeOperand r k lane v).1.exec = ((t.writeOperand wi r k lane v).1.wf wi).exec ∧
      (e.writeOperand r k lane v).1.scc = ((t.writeOperand wi r k lane v).1.wf wi).scc ∧
      (e.writeOperand r k lane v).1.m0 = ((t.writeOperand wi r k lane v).1.wf wi).m0 ∧
      (e.writeOperand r k lane v).1.sfile = e.sfile ∧ (e.writeOperand r k lane v).1.vfile = e.vfile ∧
      (t.writeOperand wi r k lane v).1.sfile = t.sfile ∧ (t.writeOperand wi r k lane v).1.vfiles = t.vfiles) :=
  alu_special_operand_agree e t wi r k lane hS hV hk hag hwi

example : isSReg R_M0 = false ∧ isVReg R_M0 = false ∧ e1.vcc = (t1.wf 0).vcc ∧ e1.m0 = (t1.wf 0).m0 := by decide

end C07
