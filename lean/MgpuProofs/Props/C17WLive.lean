import MgpuProofs.C17WLive10
/-! # C17 — bounded-latency liveness of the repaired `simplebankedmemory` for EVERY pipeline width

With several lanes the position of an item (lane, stage) says nothing about its age: the oldest request of a bank can sit
exit-ready in lane 1 while lane 0 fills the post-pipeline buffer with younger requests, so the one-lane measure (`C17Live`)
does not decrease. The measure here uses the bookkeeping of the repair — `bank.inOrder` (`order`), the set-aside list
(`early`) and the `canAccept` gate:

* `headPot c b` (measure of `inOrder[0]`): **1** once the request is in the post-pipeline buffer or set aside (the next
  `finalizeSingle` loop that is not stopped by a full port reaches it, whatever its position in the buffer); otherwise
  `2 + laneWork` (remaining stages × `cyclesPerStage` + cycle counters of *all* items in the lanes) `+`, while the gate is
  still open (nothing set aside, post buffer empty), `(free stages + width·depth)·wEntry + 1`.
* bank-level step (`head_potential_decreases_all_widths`), lifted through `finalizeBanks`, `tickPipelines`,
  `tickDelayQueues`, `dispatchPending` (`tick_oldest_all_widths`), run level (`liveness_oldest_all_widths`).

* every request of `inOrder`: `ordPot = position · potBound + headPot` with the explicit
  `potBound c = 2 · width · depth · (depth · cyclesPerStage + 1) + 3` (`liveness_measure_all_widths`,
  `liveness_inorder_all_widths`); the cycle counters never exceed `cyclePerStage − 1` (`CycOk`, an invariant of every run).

* every request in flight for a bank, wherever it waits: the bank's chain is `inOrder`, then the delay queue, then the
  pending list and the port buffer; `chainPot` = measure of the head of the chain (`headPot`; delay-queue counter +
  `potBound`; `max miss 1 + potBound + 1 / + 2` for the pending list / port buffer), measure of a request =
  `position in the chain · chainBound + chainPot` (`liveness_chain_measure_all_widths`,
  `liveness_bounded_all_widths`); delay-queue counters never exceed `miss` (`DqOk`).

Proof files `C17WLive`, `C17WLive2` … `C17WLive10`. -/
namespace C17
open WLive WBnd

/-- **The oldest request of a bank is never refused while it is in the pipeline** (every width, depth, port state):
if `inOrder[0]` is neither in the post-pipeline buffer nor set aside, the `finalizeSingle` loop of the bank moves the whole
post buffer to the set-aside list, leaves the buffer **empty**, commits nothing, sends nothing, cannot panic — however full
the port is. (This is why the pipeline always moves for the oldest request: `tickPipelines` finds an empty buffer.) -/
theorem oldest_in_pipeline_never_refused (c : Cfg) (b : WBank) (log : List Req) (out resp : List Rsp) (pg : Bool)
    (o : Req) (os : List Req) (ho : b.order = o :: os) (hin : ¬ outOfPipe b o) :
    (finalizeBankW c (b.order.length + b.post.length + 1) b log out resp pg).bank
      = { b with post := [], early := b.early ++ b.post } ∧
    (finalizeBankW c (b.order.length + b.post.length + 1) b log out resp pg).fault = none ∧
    (finalizeBankW c (b.order.length + b.post.length + 1) b log out resp pg).resp = resp := by
  obtain ⟨a1, a2, _, _, a5⟩ := fin_in_pipe c (b.order.length + b.post.length + 1) b log out resp pg o os ho (fun h => hin (Or.inr h))
    (fun h => hin (Or.inl h)) (by omega)
  exact ⟨a1, a2, a5⟩

/-- **The measure decreases, bank level, every width and depth.** While the oldest request `o` of a bank is in the
pipeline, one tick of the bank — `finalizeSingle` loop (any port state), `tickPipelines`, then any number of new
requests entering through `canAccept`/`accept` (delay queue, `dispatchPending`) — strictly reduces `headPot`. -/
theorem head_potential_decreases_all_widths (c : Cfg) (hd0 : 0 < c.depth) (hp0 : 0 < c.post) (b b3 : WBank)
    (log : List Req) (out resp : List Rsp) (pg : Bool) (o : Req) (os : List Req) (hg : Good c b)
    (ho : b.order = o :: os) (hin : ¬ outOfPipe b o) (hwork : 0 < laneWork c b.lanes)
    (hacc : AccStar c (tickBankPipeW c
      (finalizeBankW c (b.order.length + b.post.length + 1) b log out resp pg).bank) b3) :
    headPot c b3 < headPot c b :=
  headPot_step c hd0 hp0 b b3 log out resp pg _ o os hg ho hin hwork (by omega) hacc

/-- **One tick of the component, seen from the oldest request `o` of bank `k`** (reachable state, tick without panic):
`o` is answered, or it is still `inOrder[0]` and the measure dropped by one if the port took bank `k`'s responses. -/
theorem tick_oldest_all_widths (c : Cfg) (hd0 : 0 < c.depth) (hp0 : 0 < c.post) (ops : List Op) (k : Nat) (o : Req)
    (ho : oldestW (runW c ops) k = some o) (hnf : (tickFlagsW c (runW c ops)).2 = none) :
    o ∈ (tickW c (runW c ops)).resp.map (·.req) ∨
    (oldestW (tickW c (runW c ops)) k = some o ∧
      headPotW c (tickW c (runW c ops)) k + (if acceptsW c (runW c ops) k = true then 1 else 0)
        ≤ headPotW c (runW c ops) k) :=
  tick_oldest c hd0 hp0 _ (run_invW c ops) (run_good c ops) k o ho hnf

/-- **Bounded-latency liveness for the oldest request of a bank, every width and depth.** From any reachable state,
along any continuation (deliveries, ticks in which the port accepts or refuses, drains, in any order) that does not
panic, the oldest request of bank `k` is answered once the continuation contains `headPotW` ticks in which the port took
bank `k`'s responses. No hypothesis on width, banks, latencies, row-buffer timing, buffer sizes. -/
theorem liveness_oldest_all_widths (c : Cfg) (hd0 : 0 < c.depth) (hp0 : 0 < c.post) (ops1 ops2 : List Op) (k : Nat)
    (o : Req) (ho : oldestW (runW c ops1) k = some o) (hnp : noPanicW c (runW c ops1) ops2 = true)
    (hn : headPotW c (runW c ops1) k ≤ acceptingTicksW c k (runW c ops1) ops2) :
    o ∈ (runW c (ops1 ++ ops2)).resp.map (·.req) := by
  have : runW c (ops1 ++ ops2) = ops2.foldl (stepW c) (runW c ops1) := by unfold runW; rw [List.foldl_append]
  rw [this]
  exact oldest_fold c hd0 hp0 k o ops2 _ (run_invW c ops1) (run_good c ops1) hnp (Or.inr ⟨ho, hn⟩)

/-! ### non-vacuity: two lanes, the lane-order witness configuration -/

/-- 1 bank, 2 lanes × 2 stages, post buffer 1, port buffers 2 -/
def lv2 : Cfg := ⟨1, 6, 2, 2, 1, 0, 0, 1, 2, none, none⟩
def lv2pre : List Op := [.deliver .wr 0 1 [0xaa] none, .deliver .wr 0 1 [0xbb] none, .tick, .tick]
def lvA : Req := ⟨0, .wr, 0, 1, [0xaa], none⟩

/-- after two ticks both writes are in the lanes (one per lane), `aa` is the oldest, the gate is open -/
example : oldestW (runW lv2 lv2pre) 0 = some lvA ∧ headPotW lv2 (runW lv2 lv2pre) 0 = 27 ∧
    ((runW lv2 lv2pre).banks.map fun b => (laneCount b.lanes, b.post.length, b.early.length)) = [(2, 0, 0)] := by
  decide +kernel

example : lvA ∈ (runW lv2 (lv2pre ++ List.replicate 27 .tick)).resp.map (·.req) :=
  liveness_oldest_all_widths lv2 (by decide) (by decide) lv2pre _ 0 lvA (by decide +kernel) (by decide +kernel)
    (by decide +kernel)

/-- the bank-level facts on the same state: oldest in the pipeline, work left, one tick reduces the measure -/
example : ∃ b, (runW lv2 lv2pre).banks[0]? = some b ∧ ¬ outOfPipe b lvA ∧ 0 < laneWork lv2 b.lanes ∧
    headPotW lv2 (tickW lv2 (runW lv2 lv2pre)) 0 < headPotW lv2 (runW lv2 lv2pre) 0 := by
  refine ⟨_, rfl, ?_, ?_, ?_⟩ <;> decide +kernel

/-- **The measure of an oldest request is bounded**, in every reachable state of every configuration:
`headPotW ≤ potBound c = 2 · width · depth · (depth · cyclesPerStage + 1) + 3`. -/
theorem head_potential_bounded (c : Cfg) (ops : List Op) (k : Nat) : headPotW c (runW c ops) k ≤ potBound c := by
  unfold headPotW
  cases hb : (runW c ops).banks[k]? with
  | none => exact Nat.zero_le _
  | some b =>
    exact headPot_le c b (run_good c ops b (List.mem_of_getElem? hb)) (run_cyc c ops b (List.mem_of_getElem? hb))

/-- **The measure decreases for every request of `inOrder`, every width and depth.** `x` is at position `|pre|` of bank
`k`'s `inOrder` in a reachable state. Along any continuation without panic, `x` is answered once the continuation
contains `ordPot = |pre| · potBound + headPot` ticks in which the port took bank `k`'s responses (deliveries, refused
ticks and drains may be interleaved arbitrarily). -/
theorem liveness_measure_all_widths (c : Cfg) (hd0 : 0 < c.depth) (hp0 : 0 < c.post) (ops1 ops2 : List Op) (k : Nat)
    (x : Req) (b : WBank) (pre suf : List Req) (hx : InOrderAt (runW c ops1) k x b pre suf)
    (hnp : noPanicW c (runW c ops1) ops2 = true)
    (hn : ordPot c b pre ≤ acceptingTicksW c k (runW c ops1) ops2) :
    x ∈ (runW c (ops1 ++ ops2)).resp.map (·.req) := by
  have : runW c (ops1 ++ ops2) = ops2.foldl (stepW c) (runW c ops1) := by unfold runW; rw [List.foldl_append]
  rw [this]
  exact inorder_fold c hd0 hp0 k x ops2 _ (run_invW c ops1) (run_good c ops1) (run_cyc c ops1) hnp
    (Or.inr ⟨b, pre, suf, hx, hn⟩)

/-- **Bounded-latency liveness for every width and depth.** A request at position `p` of its bank's `inOrder` (it has
entered the bank pipeline: lanes, post-pipeline buffer or set-aside list) is answered within
`(p + 1) · (2 · width · depth · (depth · cyclesPerStage + 1) + 3)` ticks in which the port takes its bank's responses —
for every width, depth, number of banks, latency, row-buffer timing and buffer size. -/
theorem liveness_inorder_all_widths (c : Cfg) (hd0 : 0 < c.depth) (hp0 : 0 < c.post) (ops1 ops2 : List Op) (k : Nat)
    (x : Req) (b : WBank) (pre suf : List Req) (hx : InOrderAt (runW c ops1) k x b pre suf)
    (hnp : noPanicW c (runW c ops1) ops2 = true)
    (hn : (pre.length + 1) * potBound c ≤ acceptingTicksW c k (runW c ops1) ops2) :
    x ∈ (runW c (ops1 ++ ops2)).resp.map (·.req) := by
  apply liveness_measure_all_widths c hd0 hp0 ops1 ops2 k x b pre suf hx hnp
  have hb := headPot_le c b (run_good c ops1 b (List.mem_of_getElem? hx.1)) (run_cyc c ops1 b (List.mem_of_getElem? hx.1))
  unfold ordPot
  rw [Nat.succ_mul] at hn
  omega

/-- **The one-lane bound as a corollary**: with `width = 1` a request at position `p` of `inOrder` is answered within
`(p + 1) · (2 · depth · (depth · cyclesPerStage + 1) + 3)` accepting ticks (the sharper one-lane bound
`(ahead + 1) · latencyBound`, which also covers requests still in the delay queue / pending list / port buffer, is
`liveness_explicit_repaired`). -/
theorem liveness_inorder_one_lane_corollary (c : Cfg) (hw : c.width = 1) (hd0 : 0 < c.depth) (hp0 : 0 < c.post)
    (ops1 ops2 : List Op) (k : Nat) (x : Req) (b : WBank) (pre suf : List Req)
    (hx : InOrderAt (runW c ops1) k x b pre suf) (hnp : noPanicW c (runW c ops1) ops2 = true)
    (hn : (pre.length + 1) * (2 * (c.depth * (c.depth * stageCost c + 1)) + 3)
      ≤ acceptingTicksW c k (runW c ops1) ops2) :
    x ∈ (runW c (ops1 ++ ops2)).resp.map (·.req) := by
  apply liveness_inorder_all_widths c hd0 hp0 ops1 ops2 k x b pre suf hx hnp
  have : potBound c = 2 * (c.depth * (c.depth * stageCost c + 1)) + 3 := by
    unfold potBound wEntry; rw [hw, Nat.one_mul]
  rw [this]
  exact hn

/-! ### non-vacuity for the position measure: `bb` is second in `inOrder`, in lane 1 -/

def lvB : Req := ⟨1, .wr, 0, 1, [0xbb], none⟩

example : ∃ b, InOrderAt (runW lv2 lv2pre) 0 lvB b [lvA] [] ∧ ordPot lv2 b [lvA] = 54 ∧ potBound lv2 = 27 := by
  refine ⟨_, ⟨rfl, ?_⟩, ?_, ?_⟩ <;> decide +kernel

example : lvB ∈ (runW lv2 (lv2pre ++ List.replicate 54 .tick)).resp.map (·.req) :=
  liveness_inorder_all_widths lv2 (by decide) (by decide) lv2pre _ 0 lvB _ [lvA] [] ⟨rfl, by decide +kernel⟩
    (by decide +kernel) (by decide +kernel)

example : headPotW lv2 (runW lv2 lv2pre) 0 ≤ potBound lv2 := head_potential_bounded lv2 lv2pre 0

/-- one lane (MI300A bank pipeline 1 × 5): the corollary's bound for the oldest request is 63 accepting ticks -/
def lv1 : Cfg := ⟨1, 6, 1, 5, 1, 0, 0, 1, 2, none, none⟩
example : lvA ∈ (runW lv1 ([.deliver .wr 0 1 [0xaa] none, .tick, .tick] ++ List.replicate 63 .tick)).resp.map (·.req) :=
  liveness_inorder_one_lane_corollary lv1 rfl (by decide) (by decide) _ _ 0 lvA _ [] [] ⟨rfl, by decide +kernel⟩
    (by decide +kernel) (by decide +kernel)

/-! ### the `noPanicW` hypothesis follows from well-formed traffic -/

/-- **No panic on well-formed traffic, every width** (so far only known for one lane, through the refinement): if every
delivered request has a mask at least as long as its data, an address the bank address converter accepts and a footprint
the storage accepts (`opOk`), no tick of any reachable state of the repaired component panics. -/
theorem no_panic_all_widths (c : Cfg) (ops : List Op) (hok : ∀ op ∈ ops, opOk c op) :
    (tickFlagsW c (runW c ops)).2 = none :=
  tick_nofaultW c _ (run_invW c ops) (run_arrOk c ops _ hok (fun _ h => by cases h))

/-- **Bounded-latency liveness for every width and depth, on well-formed traffic**: `liveness_inorder_all_widths` with
the hypothesis of the one-lane theorem (`opOk` on all operations) instead of "the run does not panic". -/
theorem liveness_inorder_ok_traffic_all_widths (c : Cfg) (hd0 : 0 < c.depth) (hp0 : 0 < c.post) (ops1 ops2 : List Op)
    (hok : ∀ op ∈ ops1 ++ ops2, opOk c op) (k : Nat) (x : Req) (b : WBank) (pre suf : List Req)
    (hx : InOrderAt (runW c ops1) k x b pre suf)
    (hn : (pre.length + 1) * potBound c ≤ acceptingTicksW c k (runW c ops1) ops2) :
    x ∈ (runW c (ops1 ++ ops2)).resp.map (·.req) :=
  liveness_inorder_all_widths c hd0 hp0 ops1 ops2 k x b pre suf hx
    (noPanicW_of_ok c ops2 _ (fun op h => hok op (by simp [h])) (run_invW c ops1)
      (run_arrOk c ops1 _ (fun op h => hok op (by simp [h])) (fun _ h => by cases h))) hn

example : (tickFlagsW lv2 (runW lv2 (lv2pre ++ [.tick, .tick]))).2 = none :=
  no_panic_all_widths lv2 _ (by decide +kernel)

example : lvB ∈ (runW lv2 (lv2pre ++ List.replicate 54 .tick)).resp.map (·.req) :=
  liveness_inorder_ok_traffic_all_widths lv2 (by decide) (by decide) lv2pre _ (by decide +kernel) 0 lvB _ [lvA] []
    ⟨rfl, by decide +kernel⟩ (by decide +kernel)

/-! ### every request in flight, wherever it waits -/

/-- **The measure of the head of a bank's chain is bounded** in every reachable state:
`chainPot ≤ chainBound c = max miss 1 + 2 · width · depth · (depth · cyclesPerStage + 1) + 5`. -/
theorem chain_potential_bounded (c : Cfg) (ops : List Op) (k : Nat) : chainPot c (runW c ops) k ≤ chainBound c :=
  chainPot_le c _ k (run_good c ops) (run_cyc c ops) (run_dqOk c ops)

/-- **The measure decreases for every request in flight, every width and depth.** `x` is at position `|pre|` of bank
`k`'s chain (`inOrder`, delay queue, pending list, port buffer — oldest first) in a reachable state. Along any
continuation without panic, `x` is answered once the continuation contains `|pre| · chainBound + chainPot` ticks in which
the port took bank `k`'s responses; deliveries, refused ticks and drains may be interleaved arbitrarily. -/
theorem liveness_chain_measure_all_widths (c : Cfg) (hw : 0 < c.width) (hd0 : 0 < c.depth) (hp0 : 0 < c.post)
    (ops1 ops2 : List Op) (k : Nat) (hk : k < c.banks) (x : Req) (pre suf : List Req)
    (hx : chainW c (runW c ops1) k = pre ++ x :: suf) (hnp : noPanicW c (runW c ops1) ops2 = true)
    (hn : pre.length * chainBound c + chainPot c (runW c ops1) k ≤ acceptingTicksW c k (runW c ops1) ops2) :
    x ∈ (runW c (ops1 ++ ops2)).resp.map (·.req) := by
  have : runW c (ops1 ++ ops2) = ops2.foldl (stepW c) (runW c ops1) := by unfold runW; rw [List.foldl_append]
  rw [this]
  exact chain_fold c hw hd0 hp0 k x ops2 _ (run_liveInv c ops1) (by rw [WQuiet.run_len]; exact hk) hnp
    (Or.inr ⟨pre, suf, hx, hn⟩)

/-- **Bounded-latency liveness of the repaired component for every width and depth, every accepted request.** On
well-formed traffic (`opOk`, as in the one-lane theorem) a request `r` accepted by the Top port is answered once the
continuation contains `(requests in flight for its bank) · chainBound` ticks in which the port takes its bank's
responses, `chainBound c = max miss 1 + 2 · width · depth · (depth · cyclesPerStage + 1) + 5` — for every number of
lanes, stages, banks, every latency, row-buffer timing on or off, every buffer size ≥ 1. -/
theorem liveness_bounded_all_widths (c : Cfg) (hw : 0 < c.width) (hd0 : 0 < c.depth) (hp0 : 0 < c.post)
    (hb0 : 0 < c.banks) (ops1 ops2 : List Op) (hok : ∀ op ∈ ops1 ++ ops2, opOk c op) (r : Req)
    (hr : r ∈ (runW c ops1).arrived)
    (hn : (chainW c (runW c ops1) (bankOf c r.addr)).length * chainBound c
      ≤ acceptingTicksW c (bankOf c r.addr) (runW c ops1) ops2) :
    r ∈ (runW c (ops1 ++ ops2)).resp.map (·.req) := by
  have hinv := run_invW c ops1
  have hnp := noPanicW_of_ok c ops2 _ (fun op h => hok op (by simp [h])) hinv
    (run_arrOk c ops1 _ (fun op h => hok op (by simp [h])) (fun _ h => by cases h))
  have hk : bankOf c r.addr < c.banks := Nat.mod_lt _ hb0
  have hrw := hinv.r (bankOf c r.addr)
  unfold RW at hrw
  have hmem : r ∈ (runW c ops1).arrived.filter (inB c (bankOf c r.addr)) :=
    List.mem_filter.2 ⟨hr, by simp [inB]⟩
  rw [← hrw] at hmem
  have hfold : runW c (ops1 ++ ops2) = ops2.foldl (stepW c) (runW c ops1) := by unfold runW; rw [List.foldl_append]
  rcases List.mem_append.1 hmem with h1 | h1
  · rw [hfold]
    exact chain_fold c hw hd0 hp0 _ r ops2 _ (run_liveInv c ops1) (by rw [WQuiet.run_len]; exact hk) hnp
      (Or.inl (List.mem_filter.1 h1).1)
  · obtain ⟨pre, suf, hsplit⟩ := List.append_of_mem h1
    apply liveness_chain_measure_all_widths c hw hd0 hp0 ops1 ops2 _ hk r pre suf hsplit hnp
    have hB := chain_potential_bounded c ops1 (bankOf c r.addr)
    rw [hsplit] at hn
    simp only [List.length_append, List.length_cons, Nat.add_mul, Nat.succ_mul] at hn
    omega

/-! non-vacuity: row-buffer timing on (row 8, miss 5), two lanes; the second write is still in the port buffer -/

def lv3 : Cfg := ⟨2, 6, 2, 2, 1, 8, 5, 1, 2, none, none⟩
def lv3pre : List Op := [.deliver .wr 0 1 [0xaa] none, .tick, .deliver .wr 0x100 1 [0xbb] none]
def lvC : Req := ⟨1, .wr, 0x100, 1, [0xbb], none⟩

example : chainW lv3 (runW lv3 lv3pre) 0 = [lvA, lvC] ∧ chainBound lv3 = 34 ∧
    ((runW lv3 lv3pre).banks.map fun b => (b.order.length, b.dq.length)) = [(0, 0), (0, 0)] ∧
    (runW lv3 lv3pre).topIn = [lvC] := by decide +kernel

example : lvC ∈ (runW lv3 (lv3pre ++ List.replicate 68 .tick)).resp.map (·.req) :=
  liveness_bounded_all_widths lv3 (by decide) (by decide) (by decide) (by decide) lv3pre _ (by decide +kernel)
    lvC (by decide +kernel) (by decide +kernel)

example : chainPot lv3 (runW lv3 lv3pre) 0 ≤ chainBound lv3 := chain_potential_bounded lv3 lv3pre 0

/-- **The one-lane bound as a corollary** of `liveness_bounded_all_widths`: with `width = 1` every accepted request is
answered within `(requests in flight for its bank) · (max miss 1 + 2 · depth · (depth · cyclesPerStage + 1) + 5)`
accepting ticks (the sharper one-lane bound `(ahead + 1) · latencyBound` is `liveness_explicit_repaired`). -/
theorem liveness_bounded_one_lane (c : Cfg) (hw : c.width = 1) (hd0 : 0 < c.depth) (hp0 : 0 < c.post)
    (hb0 : 0 < c.banks) (ops1 ops2 : List Op) (hok : ∀ op ∈ ops1 ++ ops2, opOk c op) (r : Req)
    (hr : r ∈ (runW c ops1).arrived)
    (hn : (chainW c (runW c ops1) (bankOf c r.addr)).length *
        (max c.miss 1 + 2 * (c.depth * (c.depth * stageCost c + 1)) + 5)
      ≤ acceptingTicksW c (bankOf c r.addr) (runW c ops1) ops2) :
    r ∈ (runW c (ops1 ++ ops2)).resp.map (·.req) := by
  apply liveness_bounded_all_widths c (by omega) hd0 hp0 hb0 ops1 ops2 hok r hr
  have : chainBound c = max c.miss 1 + 2 * (c.depth * (c.depth * stageCost c + 1)) + 5 := by
    unfold chainBound potBound wEntry; rw [hw, Nat.one_mul]; omega
  rw [this]
  exact hn

/-- MI300A bank pipeline (1 lane × 5 stages, row-miss delay 52): `chainBound = 52 + 2·5·6 + 5 = 117` -/
def mi300aW : Cfg := ⟨16, 6, 1, 5, 1, 11, 52, 128, 1024, some ⟨128, 16, 0, 0⟩, some 4294967296⟩
def wrW : Req := ⟨0, .wr, 0x40, 4, [1, 2, 3, 4], none⟩
example : wrW ∈ (runW mi300aW ([.deliver .wr 0x40 4 [1, 2, 3, 4] none] ++ List.replicate 117 .tick)).resp.map (·.req) :=
  liveness_bounded_one_lane mi300aW rfl (by decide) (by decide) (by decide) _ _ (by decide +kernel) wrW
    (by decide +kernel) (by decide +kernel)

end C17
