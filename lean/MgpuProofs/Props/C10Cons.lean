import MgpuProofs.Props.C10Run
import MgpuProofs.C10Cons
import MgpuProofs.C10DistBytes
/-!
# Property C10 — conservation of physical pages over whole driver histories

`allPages ps cpu gpus` are the physical pages `Builder.Build` + `RegisterGPU` queue on the free lists.
A physical page is *in circulation* when it is on a device free list (`s.pool.frees`) or mapped by a
page-table entry (`livePages s`); `lostPages all s` are the pages of `all` that are neither.

What the code does: Allocate moves pages free → mapped; Free/RemovePage move the page of the entry they
unmap mapped → free (for any number of processes); CreateUnifiedGPU registers a device without pages.
But Remap / Distribute / AllocatePageWithGivenVAddr / preparePageForMigration take a **fresh** page for
a virtual page and overwrite its page-table entry in place (`pageTable.Update`): the page it was mapped
to before is neither returned to a free list nor remembered anywhere. `runR` counts these virtual pages
(`rehomed`). So

* `|free| + |mapped| + (pages re-homed so far) = |all|` after **every** history (`conservation_run`),
* free ∪ mapped is a partition of all pages exactly for the histories without re-homing operations
  (`conservation_exact`), and the unrestricted partition statement is false (`conservation_full_refuted`),
* a lost page never comes back (`lost_monotone`, `lost_monotone_run`): the capacity of the device shrinks
  for good (`remap_leak_oom_witness`: out of memory with one page mapped on a two-page GPU).
-/
namespace C10

/-! ## the ghost counter does not change the run -/

/-- `runR` is `run` with a ghost counter: it succeeds exactly when `run` does, with the same final state. -/
theorem runR_agrees_run (s : State) (k : Nat) (ops : List Op) (s' : State) :
    (∃ k', runR s k ops = .ok (s', k')) ↔ run s ops = .ok s' :=
  ⟨fun ⟨_, h⟩ => runR_run ops s k s' _ h, run_runR ops s k s'⟩

example : ∃ s' k', runR (initState 4096 16384 [32768, 32768]) 0 exampleOps = .ok (s', k') ∧
    run (initState 4096 16384 [32768, 32768]) exampleOps = .ok s' :=
  ⟨_, _, rfl, rfl⟩

/-! ## one step -/

/-- One successful driver operation, from a state that satisfies the run invariant `WInv` (any number of
processes): (a) every page that is free or mapped afterwards was free or mapped before — no operation
conjures a physical page; (b) the number of free pages plus the number of mapped pages drops by exactly
the number of virtual pages the operation re-homed (`rehomed`: 0 for Init / SelectGPU / CreateUnifiedGPU /
Allocate / AllocateUnified / Free / RemovePage / removeFreedBuffers). -/
theorem conservation_step {s s' : State} {op : Op} {r : Res} (hW : WInv s) (h : step s op = .ok (r, s')) :
    (∀ p, p ∈ s'.pool.frees.flatten ∨ p ∈ livePages s' → p ∈ s.pool.frees.flatten ∨ p ∈ livePages s) ∧
    s'.pool.frees.flatten.length + s'.pt.length + rehomed s op = s.pool.frees.flatten.length + s.pt.length :=
  ⟨step_sub hW h, step_count hW h⟩

example : ∀ r s', step (initState 4096 16384 [32768, 32768]) .init = .ok (r, s') →
    s'.pool.frees.flatten.length + s'.pt.length + 0 = 20 + 0 :=
  fun _ _ h => (conservation_step (init_all example_cfg).1 h).2

/-! ## every history -/

/-- After **every** history (any number of processes, every operation of the driver API, `MigsOK` as in
`pinv_run`) with ghost counter `k`: the free lists together with the mapped pages are duplicate-free, all
of them are pages the devices were registered with, `|free| + |mapped| + k = |all pages|`, and exactly `k`
pages are lost (neither free nor mapped): every virtual page re-homed by Remap / Distribute /
AllocatePageWithGivenVAddr / preparePageForMigration costs the allocator one physical page for good. -/
theorem conservation_run {ps cpu : Nat} {gpus : List Nat} {ops : List Op} {s' : State} {k : Nat}
    (h : Cfg ps cpu gpus) (hm : MigsOK gpus.length ops)
    (hr : runR (initState ps cpu gpus) 0 ops = .ok (s', k)) :
    (s'.pool.frees.flatten ++ livePages s').Nodup ∧
    (∀ p ∈ s'.pool.frees.flatten ++ livePages s', p ∈ allPages ps cpu gpus) ∧
    s'.pool.frees.flatten.length + s'.pt.length + k = (allPages ps cpu gpus).length ∧
    (lostPages (allPages ps cpu gpus) s').length = k := by
  obtain ⟨hW, hG, _⟩ := init_all h
  obtain ⟨j, e, c, hW', _⟩ := runR_cons ops _ 0 s' k hW hG hm hr
  have : k = j := by omega
  subst this
  exact cons_from_init h c hW'.phys

example : ∀ s' k, runR (initState 4096 16384 [32768, 32768]) 0 exampleOps = .ok (s', k) →
    s'.pool.frees.flatten.length + s'.pt.length + k = (allPages 4096 16384 [32768, 32768]).length ∧
    (lostPages (allPages 4096 16384 [32768, 32768]) s').length = k :=
  fun _ _ hr => (conservation_run example_cfg example_valid.1 hr).2.2

/-- the example history runs, and re-homes six virtual pages (Remap 2, Distribute 2, migration 1,
AllocatePageWithGivenVAddr 1): six of the 20 physical pages are lost at its end -/
example : (match runR (initState 4096 16384 [32768, 32768]) 0 exampleOps with
     | .ok (s, k) => k == 6 && (lostPages (allPages 4096 16384 [32768, 32768]) s).length == 6 &&
                     s.pool.frees.flatten.length + s.pt.length == 14
     | .error _ => false) = true := by decide

/-- After every history **without re-homing operations** — any number of processes, Init / SelectGPU /
CreateUnifiedGPU / Allocate / AllocateUnified / Free / RemovePage / removeFreedBuffers in any order,
cross-process `Free` included; no further hypothesis on the history — the free lists and the mapped pages **partition** the physical pages of
the devices: nothing is lost, nothing is duplicated. -/
theorem conservation_exact {ps cpu : Nat} {gpus : List Nat} {ops : List Op} {s' : State}
    (h : Cfg ps cpu gpus) (hn : ops.all Op.noRehome = true)
    (hr : run (initState ps cpu gpus) ops = .ok s') :
    (s'.pool.frees.flatten ++ livePages s').Perm (allPages ps cpu gpus) ∧
    lostPages (allPages ps cpu gpus) s' = [] := by
  have hm : MigsOK gpus.length ops := fun op ho => migOK_of_noRehome (List.all_eq_true.mp hn op ho)
  obtain ⟨k, hk⟩ := run_runR ops _ 0 s' hr
  have hk0 : k = 0 := runR_noRehome ops _ 0 s' k hn hk
  subst hk0
  obtain ⟨hnd, hsub, hcount, _⟩ := conservation_run h hm hk
  have hall : (allPages ps cpu gpus).Nodup := (init_all h).1.phys.freeNodup
  have hlen : (s'.pool.frees.flatten ++ livePages s').length = (allPages ps cpu gpus).length := by
    rw [List.length_append]
    simp only [livePages, List.length_map]
    omega
  obtain ⟨a, b⟩ := perm_of_nodup_subset_length hall hnd hsub hlen
  exact ⟨a, by rw [lostPages_eq]; exact b⟩

/-- a history without re-homing operations: two processes, a unified device, allocations by both (one through
the unified device), the first process frees (which, the mirror being keyed by the virtual address only,
unmaps a page of the *other* process too — and still returns exactly the pages it unmaps),
removeFreedBuffers, a unified allocation, RemovePage -/
def noRehomeOps : List Op :=
  [.init, .init, .unify 0 [1], .alloc 0 100, .alloc 1 5000, .sel 0 2, .alloc 0 100, .free 0 4096, .rfb 0,
   .allocu 1 100, .rmpage 12288]

example : noRehomeOps.all Op.noRehome = true := by decide

example : (match run (initState 4096 4096 [16384]) noRehomeOps with
     | .ok s => s.pt.length == 2 && s.pool.frees.flatten.length == 3
     | .error _ => false) = true := by decide

example : ∀ s', run (initState 4096 4096 [16384]) noRehomeOps = .ok s' →
    (s'.pool.frees.flatten ++ livePages s').Perm (allPages 4096 4096 [16384]) ∧
    lostPages (allPages 4096 4096 [16384]) s' = [] := by
  intro s' hr
  refine conservation_exact (gpus := [16384]) ⟨by decide, ⟨1, rfl⟩, ?_⟩ (by decide) hr
  intro g hg; simp at hg; subst hg; exact ⟨4, rfl⟩

/-! ## a lost page never comes back -/

/-- No driver operation puts a lost page back into circulation: a page of `all` that is neither free nor
mapped before a successful step is neither free nor mapped after it. -/
theorem lost_monotone {s s' : State} {op : Op} {r : Res} (all : List Nat) (hW : WInv s)
    (h : step s op = .ok (r, s')) : ∀ p ∈ lostPages all s, p ∈ lostPages all s' := by
  intro p hp
  obtain ⟨h1, h2, h3⟩ := mem_lostPages.mp hp
  refine mem_lostPages.mpr ⟨h1, fun hf => ?_, fun hl => ?_⟩
  · rcases step_sub hW h p (Or.inl hf) with x | x
    · exact h2 x
    · exact h3 x
  · rcases step_sub hW h p (Or.inr hl) with x | x
    · exact h2 x
    · exact h3 x

/-- Run level: a page lost after a prefix `ops₁` of a history is still lost after any continuation `ops₂`
— no sequence of Free / RemovePage / Allocate / … recovers it. -/
theorem lost_monotone_run {ps cpu : Nat} {gpus : List Nat} {ops₁ ops₂ : List Op} {s₁ s₂ : State}
    (all : List Nat) (h : Cfg ps cpu gpus) (hm₁ : MigsOK gpus.length ops₁) (hm₂ : MigsOK gpus.length ops₂)
    (h₁ : run (initState ps cpu gpus) ops₁ = .ok s₁) (h₂ : run s₁ ops₂ = .ok s₂) :
    ∀ p ∈ lostPages all s₁, p ∈ lostPages all s₂ := by
  obtain ⟨hW, hG, _⟩ := init_all h
  obtain ⟨hW₁, hG₁⟩ := run_w ops₁ _ s₁ hW hG hm₁ h₁
  obtain ⟨k, hk⟩ := run_runR ops₂ s₁ 0 s₂ h₂
  obtain ⟨j, _, c, _, _⟩ := runR_cons ops₂ s₁ 0 s₂ k hW₁ hG₁ hm₂ hk
  intro p hp
  obtain ⟨a1, a2, a3⟩ := mem_lostPages.mp hp
  refine mem_lostPages.mpr ⟨a1, fun hf => ?_, fun hl => ?_⟩
  · rcases c.sub p (Or.inl hf) with x | x
    · exact a2 x
    · exact a3 x
  · rcases c.sub p (Or.inr hl) with x | x
    · exact a2 x
    · exact a3 x

/-- the page lost by the Remap of `exampleOps`' prefix is still lost at the end of `exampleOps` -/
example : ∀ s₁ s₂, run (initState 4096 16384 [32768, 32768]) (exampleOps.take 6) = .ok s₁ →
    run s₁ (exampleOps.drop 6) = .ok s₂ →
    ∀ p ∈ lostPages (allPages 4096 16384 [32768, 32768]) s₁, p ∈ lostPages (allPages 4096 16384 [32768, 32768]) s₂ := by
  intro s₁ s₂ h₁ h₂
  have hm := example_valid.1
  exact lost_monotone_run _ example_cfg (fun op ho => hm op (List.mem_of_mem_take ho))
    (fun op ho => hm op (List.mem_of_mem_drop ho)) h₁ h₂

example : (match run (initState 4096 16384 [32768, 32768]) (exampleOps.take 6) with
     | .ok s => (lostPages (allPages 4096 16384 [32768, 32768]) s).length == 2
     | .error _ => false) = true := by decide

/-! ## the unrestricted partition statement is false -/

/-- "After every history the free lists and the mapped pages partition the physical pages" — false of the
code: Remap (and Distribute, AllocatePageWithGivenVAddr, preparePageForMigration) overwrites the
page-table entry of a mapped virtual page without returning the page it was mapped to. -/
def conservation_full : Prop :=
  ∀ (ops : List Op) (s' : State), run (initState 4096 4096 [8192]) ops = .ok s' →
    (s'.pool.frees.flatten ++ livePages s').Perm (allPages 4096 4096 [8192])

/-- witness: Init, Allocate 100 bytes (virtual 0x1000 ↦ physical 0x2000 on GPU 1), Remap 0x1000 onto GPU 1
(now ↦ 0x3000): physical page 0x2000 is neither free nor mapped. -/
theorem conservation_full_refuted : ¬ conservation_full := by
  intro h
  have := (h [.init, .alloc 0 100, .remap 0 4096 4096 1] _ rfl).length_eq
  revert this
  decide

example : (match run (initState 4096 4096 [8192]) [.init, .alloc 0 100, .remap 0 4096 4096 1] with
     | .ok s => lostPages (allPages 4096 4096 [8192]) s == [0x2000]
     | .error _ => false) = true := by decide

/-! ## the leak exhausts a device -/

/-- A capacity leak of the allocator, on a GPU with two pages: Init, Allocate one page, Remap it onto the
same GPU — one page is mapped, the GPU's free list is empty and page 0x2000 is lost; the next Remap of
the same single page (and likewise a fresh one-page Allocate) fails with out-of-memory although only one
of the GPU's two pages is in use. -/
theorem remap_leak_oom_witness :
    (∃ s, run (initState 4096 4096 [8192]) [.init, .alloc 0 4096] = .ok s ∧ s.pt.length = 1 ∧
        s.pool.frees = [[0x1000], [0x3000]]) ∧
    (∃ s, run (initState 4096 4096 [8192]) [.init, .alloc 0 4096, .remap 0 4096 4096 1] = .ok s ∧
        s.pt.length = 1 ∧ s.pool.frees = [[0x1000], []] ∧
        lostPages (allPages 4096 4096 [8192]) s = [0x2000] ∧
        (match step s (.remap 0 4096 4096 1) with | .error .oom => true | _ => false) = true ∧
        (match step s (.alloc 0 4096) with | .error .oom => true | _ => false) = true) ∧
    (match run (initState 4096 4096 [8192]) [.init, .alloc 0 4096, .remap 0 4096 4096 1, .remap 0 4096 4096 1] with
     | .error .oom => true
     | _ => false) = true :=
  ⟨⟨_, rfl, by decide, by decide⟩, ⟨_, rfl, by decide, by decide, by decide, by decide, by decide⟩, by decide⟩

/-! ## what `Distribute` reports -/

/-- **`byteAllocatedOnEachGPU` accounts for the whole range.** For every page size, byte size and `n ≥ 1` GPUs the
list `Distribute` returns has one entry per GPU and its entries sum to the number of bytes of the pages of the
range (`numPages * pageSize`): no page of the range is left out of, or counted twice in, the per-GPU byte counts. -/
theorem distribute_bytes_sum (ps bytes n : Nat) (hn : 0 < n) :
    (distBytes ps bytes n).length = n ∧ (distBytes ps bytes n).sum = numPagesOf ps bytes * ps := by
  obtain ⟨hc, hr⟩ := distribute_covers ps 0 bytes n hn
  refine ⟨by simp [distBytes], ?_⟩
  have h1 := contig_sum _ _ _ hc
  have h2 := perGPU_sum n (distPlan ps 0 bytes n) (fun r hr' => (hr r hr').1)
  unfold distBytes
  dsimp only
  rw [h2]
  omega

example : distBytes 4096 (5 * 4096) 2 = [8192, 12288] := by decide

end C10
