import MgpuProofs.Props.C10Run
import MgpuProofs.C10Cons
import MgpuProofs.C10DistBytes
/-!
# Property C10 — conservation of physical pages over whole driver histories

`allPages ps cpu gpus` are the physical pages `Builder.Build` + `RegisterGPU` queue on the free lists.
A physical page is *in circulation* when it is on a device free list (`s.pool.frees`) or mapped by a
page-table entry (`livePages s`); `lostPages all s` are the pages of `all` that are neither.

What the code does (after the repair of the Remap leak): Allocate moves pages free → mapped; Free/RemovePage
move the page of the entry they unmap mapped → free (for any number of processes); CreateUnifiedGPU registers a
device without pages. Remap / Distribute take a **fresh** page for a virtual page, overwrite its page-table
entry in place (`pageTable.Update`) and give the page it was mapped to **back** to the free list of its device
(`releaseReplaced`) — when the allocator's record of the virtual address (keyed by the virtual address only)
belongs to the calling process. AllocatePageWithGivenVAddr / preparePageForMigration deliberately keep the page
they replace (the page migration controller still reads it; the driver releases it when the migration is complete:
Props/C10Mig.lean). The ghost field `State.leaked` (no effect on `step`)
counts the pages that were replaced and not given back. So

* `|free| + |mapped| + leaked = |all|` after **every** history, and exactly `leaked` pages are lost
  (`conservation_run`),
* free ∪ mapped is a partition of all pages after every history **of a single process** that does not use
  migration / AllocatePageWithGivenVAddr — Remap and Distribute included (`conservation_full_holds`), and after
  every history of any number of processes without operations that overwrite an entry (`conservation_exact`);
  both hypotheses are necessary (`conservation_needs_single_process`,
  `conservation_migration_keeps_replaced_page`),
* the code before the repair lost one page per remapped page (`conservation_full_before_fix_refuted`,
  `remap_leak_oom_before_fix_witness`); the repaired code remaps the same page any number of times
  (`remap_twice_ok`),
* a lost page never comes back (`lost_monotone`, `lost_monotone_run`).
-/
namespace C10

/-! ## one step -/

/-- One successful driver operation, from a state that satisfies the run invariant `WInv` (any number of
processes): (a) every page that is free or mapped afterwards was free or mapped before — no operation
conjures a physical page; (b) the number of free pages plus the number of mapped pages drops by exactly
the growth of the ghost field `leaked`; (c) `leaked` never decreases; (d) it does not move at all for
Init / SelectGPU / CreateUnifiedGPU / Allocate / AllocateUnified / Free / RemovePage / removeFreedBuffers, and
grows by exactly one for preparePageForMigration / AllocatePageWithGivenVAddr. -/
theorem conservation_step {s s' : State} {op : Op} {r : Res} (hW : WInv s) (h : step s op = .ok (r, s')) :
    (∀ p, p ∈ s'.pool.frees.flatten ∨ p ∈ livePages s' → p ∈ s.pool.frees.flatten ∨ p ∈ livePages s) ∧
    s'.pool.frees.flatten.length + s'.pt.length + (s'.leaked - s.leaked) =
      s.pool.frees.flatten.length + s.pt.length ∧
    s.leaked ≤ s'.leaked ∧
    (op.noRehome = true → s'.leaked = s.leaked) ∧
    (op.keepsPages = false → s'.leaked = s.leaked + 1) :=
  ⟨step_sub hW h, step_count hW h, step_leaked_le hW h, fun hn => step_leaked_noRehome hn h,
   fun hk => step_leaked_mig_apg hk h⟩

example : ∀ r s', step (initState 4096 16384 [32768, 32768]) .init = .ok (r, s') →
    s'.pool.frees.flatten.length + s'.pt.length + (s'.leaked - 0) = 20 + 0 :=
  fun _ _ h => (conservation_step (init_all example_cfg).1 h).2.1

/-- **Remap / Distribute give back what they replace.** From a state in which the allocator's records agree with
the page table (`MirrorOK`: what every history of a single process keeps, `inv_run`), every successful operation
other than preparePageForMigration / AllocatePageWithGivenVAddr leaves the ghost field alone: together with
`conservation_step` (b), free pages + mapped pages is unchanged — each page Remap / Distribute replace in a
page-table entry is back on the free list of its device. -/
theorem remap_gives_back_step {s s' : State} {op : Op} {r : Res} (hW : WInv s) (hM : MirrorOK s)
    (hk : op.keepsPages = true) (h : step s op = .ok (r, s')) :
    s'.leaked = s.leaked ∧
    s'.pool.frees.flatten.length + s'.pt.length = s.pool.frees.flatten.length + s.pt.length := by
  have e := step_noleak hM hk h
  have c := step_count hW h
  exact ⟨e, by omega⟩

/-! ## every history -/

/-- After **every** history (any number of processes, every operation of the driver API, `MigsOK` as in
`pinv_run`): the free lists together with the mapped pages are duplicate-free, all of them are pages the
devices were registered with, `|free| + |mapped| + leaked = |all pages|`, and exactly `leaked` pages are lost
(neither free nor mapped): every page replaced by AllocatePageWithGivenVAddr / preparePageForMigration — or by a
Remap / Distribute whose virtual address the allocator records for another process — and nothing else. -/
theorem conservation_run {ps cpu : Nat} {gpus : List Nat} {ops : List Op} {s' : State}
    (h : Cfg ps cpu gpus) (hm : MigsOK gpus.length ops)
    (hr : run (initState ps cpu gpus) ops = .ok s') :
    (s'.pool.frees.flatten ++ livePages s').Nodup ∧
    (∀ p ∈ s'.pool.frees.flatten ++ livePages s', p ∈ allPages ps cpu gpus) ∧
    s'.pool.frees.flatten.length + s'.pt.length + s'.leaked = (allPages ps cpu gpus).length ∧
    (lostPages (allPages ps cpu gpus) s').length = s'.leaked := by
  obtain ⟨c, hW'⟩ := run_from_init h hm hr
  exact cons_from_init h c hW'.phys

example : ∀ s', run (initState 4096 16384 [32768, 32768]) exampleOps = .ok s' →
    s'.pool.frees.flatten.length + s'.pt.length + s'.leaked = (allPages 4096 16384 [32768, 32768]).length ∧
    (lostPages (allPages 4096 16384 [32768, 32768]) s').length = s'.leaked :=
  fun _ hr => (conservation_run example_cfg example_valid.1 hr).2.2

/-- the example history runs; its Remap (2 pages) and Distribute (2 pages) give back what they replace, its
migration and its AllocatePageWithGivenVAddr keep one page each: two of the 20 physical pages are neither free nor
mapped at its end -/
example : (match run (initState 4096 16384 [32768, 32768]) exampleOps with
     | .ok s => s.leaked == 2 && lostPages (allPages 4096 16384 [32768, 32768]) s == [0x7000, 0x8000] &&
                s.pool.frees.flatten.length + s.pt.length == 18
     | .error _ => false) = true := by decide

/-- After every history **without operations that overwrite a page-table entry** — any number of processes,
Init / SelectGPU / CreateUnifiedGPU / Allocate / AllocateUnified / Free / RemovePage / removeFreedBuffers in any
order, cross-process `Free` included; no further hypothesis on the history — the free lists and the mapped pages
**partition** the physical pages of the devices: nothing is lost, nothing is duplicated. -/
theorem conservation_exact {ps cpu : Nat} {gpus : List Nat} {ops : List Op} {s' : State}
    (h : Cfg ps cpu gpus) (hn : ops.all Op.noRehome = true)
    (hr : run (initState ps cpu gpus) ops = .ok s') :
    (s'.pool.frees.flatten ++ livePages s').Perm (allPages ps cpu gpus) ∧
    lostPages (allPages ps cpu gpus) s' = [] := by
  have hm : MigsOK gpus.length ops := fun op ho => migOK_of_noRehome (List.all_eq_true.mp hn op ho)
  have hk0 : s'.leaked = 0 := (run_leaked_noRehome ops _ s' hn hr).trans (initState_leaked ps cpu gpus)
  obtain ⟨hnd, hsub, hcount, _⟩ := conservation_run h hm hr
  have hall : (allPages ps cpu gpus).Nodup := (init_all h).1.phys.freeNodup
  have hlen : (s'.pool.frees.flatten ++ livePages s').length = (allPages ps cpu gpus).length := by
    rw [List.length_append]
    simp only [livePages, List.length_map]
    omega
  obtain ⟨a, b⟩ := perm_of_nodup_subset_length hall hnd hsub hlen
  exact ⟨a, by rw [lostPages_eq]; exact b⟩

/-- a history without re-homing operations: two processes, a unified device, allocations by both (one through
the unified device), the first process frees (which, the mirror being keyed by the virtual address only,
unmaps a page of the *other* process too — and still returns exactly the pages it unmaps),
removeFreedBuffers, a unified allocation, RemovePage -/
def noRehomeOps : List Op :=
  [.init, .init, .unify 0 [1], .alloc 0 100, .alloc 1 5000, .sel 0 2, .alloc 0 100, .free 0 4096, .rfb 0,
   .allocu 1 100, .rmpage 12288]

example : noRehomeOps.all Op.noRehome = true := by decide

example : (match run (initState 4096 4096 [16384]) noRehomeOps with
     | .ok s => s.pt.length == 2 && s.pool.frees.flatten.length == 3
     | .error _ => false) = true := by decide

example : ∀ s', run (initState 4096 4096 [16384]) noRehomeOps = .ok s' →
    (s'.pool.frees.flatten ++ livePages s').Perm (allPages 4096 4096 [16384]) ∧
    lostPages (allPages 4096 4096 [16384]) s' = [] := by
  intro s' hr
  refine conservation_exact (gpus := [16384]) ⟨by decide, ⟨1, rfl⟩, ?_⟩ (by decide) hr
  intro g hg; simp at hg; subst hg; exact ⟨4, rfl⟩

/-! ## the partition statement for the repaired Remap / Distribute -/

/-- "After every history of a single process that uses every driver operation except migration and
AllocatePageWithGivenVAddr — Remap and Distribute included, any device configuration — the free lists and the
mapped pages partition the physical pages of the devices, and no page is lost." -/
def conservation_full : Prop :=
  ∀ (ps cpu : Nat) (gpus : List Nat) (ops : List Op) (s' : State),
    Cfg ps cpu gpus → SingleProc ops → ops.all Op.keepsPages = true →
    run (initState ps cpu gpus) ops = .ok s' →
    (s'.pool.frees.flatten ++ livePages s').Perm (allPages ps cpu gpus) ∧
    lostPages (allPages ps cpu gpus) s' = []

/-- The statement holds of the repaired code: in a history of a single process the allocator's record of a
virtual address always belongs to the caller, so every iteration of Remap's loop returns the page it replaces;
`leaked` stays 0 and `conservation_run` leaves no room for a lost page. -/
theorem conservation_full_holds : conservation_full := by
  intro ps cpu gpus ops s' h hs hk hr
  have hm : MigsOK gpus.length ops := fun op ho => migOK_of_keepsPages (List.all_eq_true.mp hk op ho)
  obtain ⟨hW, hG, hO, hM, _, _, hn, _⟩ := init_all h
  have hb : (initState ps cpu gpus).npid + inits ops ≤ 1 := by
    unfold SingleProc at hs; rw [hn]; omega
  have hk0 : s'.leaked = 0 :=
    (run_noleak ops _ s' hW hG hO hM hb hk hr).trans (initState_leaked ps cpu gpus)
  obtain ⟨hnd, hsub, hcount, _⟩ := conservation_run h hm hr
  have hall : (allPages ps cpu gpus).Nodup := hW.phys.freeNodup
  have hlen : (s'.pool.frees.flatten ++ livePages s').length = (allPages ps cpu gpus).length := by
    rw [List.length_append]
    simp only [livePages, List.length_map]
    omega
  obtain ⟨a, b⟩ := perm_of_nodup_subset_length hall hnd hsub hlen
  exact ⟨a, by rw [lostPages_eq]; exact b⟩

/-- a single-process history with Remap and Distribute (the prefix of `exampleOps` before its migration) -/
example : ∀ s', run (initState 4096 16384 [32768, 32768]) (exampleOps.take 7) = .ok s' →
    (s'.pool.frees.flatten ++ livePages s').Perm (allPages 4096 16384 [32768, 32768]) ∧
    lostPages (allPages 4096 16384 [32768, 32768]) s' = [] :=
  fun s' hr => conservation_full_holds 4096 16384 [32768, 32768] _ s' example_cfg (by unfold SingleProc; decide)
    (by decide) hr

example : (match run (initState 4096 16384 [32768, 32768]) (exampleOps.take 7) with
     | .ok s => s.pt.length == 3 && s.pool.frees.flatten.length == 17 && s.leaked == 0
     | .error _ => false) = true := by decide

/-- the same statement about the code **before** the repair (`runOld`: the loop of
allocateMultiplePagesWithGivenVAddrs overwrote the entry and never gave the replaced page back) -/
def conservation_full_before_fix : Prop :=
  ∀ (ps cpu : Nat) (gpus : List Nat) (ops : List Op) (s' : State),
    Cfg ps cpu gpus → SingleProc ops → ops.all Op.keepsPages = true →
    runOld (initState ps cpu gpus) ops = .ok s' →
    (s'.pool.frees.flatten ++ livePages s').Perm (allPages ps cpu gpus) ∧
    lostPages (allPages ps cpu gpus) s' = []

/-- witness: Init, Allocate 100 bytes (virtual 0x1000 ↦ physical 0x2000 on GPU 1), Remap 0x1000 onto GPU 1
(now ↦ 0x3000): before the repair physical page 0x2000 was neither free nor mapped. -/
theorem conservation_full_before_fix_refuted : ¬ conservation_full_before_fix := by
  intro h
  have := (h 4096 4096 [8192] [.init, .alloc 0 100, .remap 0 4096 4096 1] _ cfg_small
    (by unfold SingleProc; decide) (by decide) rfl).2
  revert this
  decide

example : (match runOld (initState 4096 4096 [8192]) [.init, .alloc 0 100, .remap 0 4096 4096 1] with
     | .ok s => lostPages (allPages 4096 4096 [8192]) s == [0x2000] && s.leaked == 1
     | .error _ => false) = true := by decide

/-- the same history on the repaired code: 0x2000 is back on the free list of GPU 1 -/
example : (match run (initState 4096 4096 [8192]) [.init, .alloc 0 100, .remap 0 4096 4096 1] with
     | .ok s => lostPages (allPages 4096 4096 [8192]) s == [] && s.pool.frees == [[0x1000], [0x2000]] &&
                livePages s == [0x3000] && s.leaked == 0
     | .error _ => false) = true := by decide

/-! ## the two hypotheses of `conservation_full` are necessary -/

/-- **Single process.** Two processes allocate (both get virtual 0x1000: process 1 ↦ 0x2000, process 2 ↦ 0x3000;
the allocator's record of 0x1000 — keyed by the virtual address only — now belongs to process 2), then process 1
remaps its page (↦ 0x4000): the record of 0x1000 is not the caller's, so nothing is released and physical page
0x2000 is lost, although no operation of the history is a migration / AllocatePageWithGivenVAddr. (The open
finding "mirror keyed by the virtual address only", not the repaired leak.) -/
theorem conservation_needs_single_process :
    ∃ s, run (initState 4096 4096 [16384]) [.init, .init, .alloc 0 100, .alloc 1 100, .remap 0 4096 4096 1] = .ok s ∧
      ([Op.init, .init, .alloc 0 100, .alloc 1 100, .remap 0 4096 4096 1].all Op.keepsPages = true) ∧
      ¬ SingleProc [.init, .init, .alloc 0 100, .alloc 1 100, .remap 0 4096 4096 1] ∧
      livePages s = [0x4000, 0x3000] ∧ s.pool.frees = [[0x1000], [0x5000]] ∧
      lostPages (allPages 4096 4096 [16384]) s = [0x2000] ∧ s.leaked = 1 :=
  ⟨_, rfl, by decide, by unfold SingleProc; decide, by decide, by decide, by decide, by decide⟩

/-- **No migration / AllocatePageWithGivenVAddr.** These two operations keep the page they replace on purpose (the
page migration controller still copies from it; since the repair of finding `C10-migration-keeps-replaced-page` the
driver gives it back — `ReleasePhysicalPage` — when the migration is complete: `migration_complete_conserves`,
`conservation_full_with_migration` in Props/C10Mig.lean; a history that stops after the preparation, or a raw
AllocatePageWithGivenVAddr, still has the page out of circulation): a single process
allocates one page (0x1000 ↦ 0x2000) and calls AllocatePageWithGivenVAddr, resp. preparePageForMigration, for it
(↦ 0x3000): physical page 0x2000 is neither free nor mapped. -/
theorem conservation_migration_keeps_replaced_page :
    (∃ s, run (initState 4096 4096 [8192]) [.init, .alloc 0 100, .apg 0 1 4096 false] = .ok s ∧
      SingleProc [.init, .alloc 0 100, .apg 0 1 4096 false] ∧
      livePages s = [0x3000] ∧ lostPages (allPages 4096 4096 [8192]) s = [0x2000] ∧ s.leaked = 1) ∧
    (∃ s, run (initState 4096 4096 [8192]) [.init, .alloc 0 100, .mig 0 4096 0] = .ok s ∧
      SingleProc [.init, .alloc 0 100, .mig 0 4096 0] ∧
      livePages s = [0x3000] ∧ lostPages (allPages 4096 4096 [8192]) s = [0x2000] ∧ s.leaked = 1) :=
  ⟨⟨_, rfl, by unfold SingleProc; decide, by decide, by decide, by decide⟩,
   ⟨_, rfl, by unfold SingleProc; decide, by decide, by decide, by decide⟩⟩

/-! ## a lost page never comes back -/

/-- No driver operation puts a lost page back into circulation: a page of `all` that is neither free nor
mapped before a successful step is neither free nor mapped after it. -/
theorem lost_monotone {s s' : State} {op : Op} {r : Res} (all : List Nat) (hW : WInv s)
    (h : step s op = .ok (r, s')) : ∀ p ∈ lostPages all s, p ∈ lostPages all s' := by
  intro p hp
  obtain ⟨h1, h2, h3⟩ := mem_lostPages.mp hp
  refine mem_lostPages.mpr ⟨h1, fun hf => ?_, fun hl => ?_⟩
  · rcases step_sub hW h p (Or.inl hf) with x | x
    · exact h2 x
    · exact h3 x
  · rcases step_sub hW h p (Or.inr hl) with x | x
    · exact h2 x
    · exact h3 x

/-- Run level: a page lost after a prefix `ops₁` of a history is still lost after any continuation `ops₂`
— no sequence of Free / RemovePage / Allocate / Remap / … recovers it. -/
theorem lost_monotone_run {ps cpu : Nat} {gpus : List Nat} {ops₁ ops₂ : List Op} {s₁ s₂ : State}
    (all : List Nat) (h : Cfg ps cpu gpus) (hm₁ : MigsOK gpus.length ops₁) (hm₂ : MigsOK gpus.length ops₂)
    (h₁ : run (initState ps cpu gpus) ops₁ = .ok s₁) (h₂ : run s₁ ops₂ = .ok s₂) :
    ∀ p ∈ lostPages all s₁, p ∈ lostPages all s₂ := by
  obtain ⟨hW, hG, _⟩ := init_all h
  obtain ⟨hW₁, hG₁⟩ := run_w ops₁ _ s₁ hW hG hm₁ h₁
  obtain ⟨c, _, _⟩ := run_cons ops₂ s₁ s₂ hW₁ hG₁ hm₂ h₂
  intro p hp
  obtain ⟨a1, a2, a3⟩ := mem_lostPages.mp hp
  refine mem_lostPages.mpr ⟨a1, fun hf => ?_, fun hl => ?_⟩
  · rcases c.cons.sub p (Or.inl hf) with x | x
    · exact a2 x
    · exact a3 x
  · rcases c.cons.sub p (Or.inr hl) with x | x
    · exact a2 x
    · exact a3 x

/-- the page kept by the migration of `exampleOps`' prefix is still lost at the end of `exampleOps` -/
example : ∀ s₁ s₂, run (initState 4096 16384 [32768, 32768]) (exampleOps.take 8) = .ok s₁ →
    run s₁ (exampleOps.drop 8) = .ok s₂ →
    ∀ p ∈ lostPages (allPages 4096 16384 [32768, 32768]) s₁, p ∈ lostPages (allPages 4096 16384 [32768, 32768]) s₂ := by
  intro s₁ s₂ h₁ h₂
  have hm := example_valid.1
  exact lost_monotone_run _ example_cfg (fun op ho => hm op (List.mem_of_mem_take ho))
    (fun op ho => hm op (List.mem_of_mem_drop ho)) h₁ h₂

example : (match run (initState 4096 16384 [32768, 32768]) (exampleOps.take 8) with
     | .ok s => lostPages (allPages 4096 16384 [32768, 32768]) s == [0x8000]
     | .error _ => false) = true := by decide

/-! ## the leak exhausted a device; the repaired Remap does not -/

/-- The capacity leak of the allocator **before the repair** (`runOld` / `stepOld`), on a GPU with two pages: Init,
Allocate one page, Remap it onto the same GPU — one page is mapped, the GPU's free list is empty and page 0x2000 is
lost; the next Remap of the same single page (and likewise a fresh one-page Allocate) fails with out-of-memory
although only one of the GPU's two pages is in use. -/
theorem remap_leak_oom_before_fix_witness :
    (∃ s, runOld (initState 4096 4096 [8192]) [.init, .alloc 0 4096] = .ok s ∧ s.pt.length = 1 ∧
        s.pool.frees = [[0x1000], [0x3000]]) ∧
    (∃ s, runOld (initState 4096 4096 [8192]) [.init, .alloc 0 4096, .remap 0 4096 4096 1] = .ok s ∧
        s.pt.length = 1 ∧ s.pool.frees = [[0x1000], []] ∧
        lostPages (allPages 4096 4096 [8192]) s = [0x2000] ∧
        (match stepOld s (.remap 0 4096 4096 1) with | .error .oom => true | _ => false) = true ∧
        (match stepOld s (.alloc 0 4096) with | .error .oom => true | _ => false) = true) ∧
    (match runOld (initState 4096 4096 [8192]) [.init, .alloc 0 4096, .remap 0 4096 4096 1, .remap 0 4096 4096 1] with
     | .error .oom => true
     | _ => false) = true :=
  ⟨⟨_, rfl, by decide, by decide⟩, ⟨_, rfl, by decide, by decide, by decide, by decide, by decide⟩, by decide⟩

/-- The same history on the repaired code: the one-page buffer is remapped twice onto its own two-page GPU; each
Remap takes the GPU's free page and gives the replaced one back: one page mapped, one page free on the GPU,
nothing lost — and a further one-page Allocate succeeds. -/
theorem remap_twice_ok :
    ∃ s, run (initState 4096 4096 [8192]) [.init, .alloc 0 4096, .remap 0 4096 4096 1, .remap 0 4096 4096 1] = .ok s ∧
      s.pt.length = 1 ∧ livePages s = [0x2000] ∧ s.pool.frees = [[0x1000], [0x3000]] ∧
      lostPages (allPages 4096 4096 [8192]) s = [] ∧ s.leaked = 0 ∧
      (match step s (.alloc 0 4096) with | .ok _ => true | .error _ => false) = true :=
  ⟨_, rfl, by decide, by decide, by decide, by decide, by decide, by decide⟩

/-! ## what `Distribute` reports -/

/-- **`byteAllocatedOnEachGPU` accounts for the whole range.** For every page size, byte size and `n ≥ 1` GPUs the
list `Distribute` returns has one entry per GPU and its entries sum to the number of bytes of the pages of the
range (`numPages * pageSize`): no page of the range is left out of, or counted twice in, the per-GPU byte counts. -/
theorem distribute_bytes_sum (ps bytes n : Nat) (hn : 0 < n) :
    (distBytes ps bytes n).length = n ∧ (distBytes ps bytes n).sum = numPagesOf ps bytes * ps := by
  obtain ⟨hc, hr⟩ := distribute_covers ps 0 bytes n hn
  refine ⟨by simp [distBytes], ?_⟩
  have h1 := contig_sum _ _ _ hc
  have h2 := perGPU_sum n (distPlan ps 0 bytes n) (fun r hr' => (hr r hr').1)
  unfold distBytes
  dsimp only
  rw [h2]
  omega

example : distBytes 4096 (5 * 4096) 2 = [8192, 12288] := by decide

end C10
