import MgpuProofs.C02BarRun
import MgpuProofs.C02BarDemo
import MgpuProofs.C02BarOrder
/-! # C02 — work-groups with `s_barrier`: the timing compute unit against the emulator's `runWG`

`MgpuModel/C02Bar.lean` puts the wavefronts of one work-group (each one the event machine `tstep` of
`C02Wf.lean`, unchanged) under the scheduler's barrier logic (`evalSBarrier`, `areAllWfInWGAtBarrier`,
`passBarrier`, `evalSEndPgm`; a waiting wavefront still fetches and still receives memory responses),
next to the emulator's `runWG` (rounds of "every unfinished wavefront until its next barrier, one after
the other on the same memory", then `resolveBarrier`).

* the barrier decisions are those of the C14 model (`barrier_decision_is_C14`,
  `endpgm_release_decision_is_C14`, `barrier_release_is_C14`);
* a wavefront released from a barrier restarts in the simulation relation of `C02Wf`
  (`wavefront_restarts_after_barrier`);
* **`wg_barrier_timing_equals_emulator`**: for every interleaving `wgstep` accepts, a finished
  work-group ends with the emulator's registers, instruction sequences and memory — for programs that are
  race-free PER PHASE and drain their memory accesses before every barrier;
  and at every intermediate point the timing side is in the simulation relation with the emulator's
  current round (`wg_phase_points_match`);
* the "drained" hypothesis cannot be dropped: the real `evalSBarrier` does not look at the outstanding
  counters (`barrier_without_waitcnt_differs`);
* the hypotheses hold and the theorem applies to an exchange-through-memory kernel (`wg_example_exchange`);
* phase order as a safety property of the scheduler alone, for any program (`barrier_phase_order`).
Helper lemmas: `C02BarLemmas` (C14 agreement, `WOK`, restart), `C02BarEmu` (emulator rounds = wavefronts
alone, `drainedRun`), `C02BarInv` (per-wavefront relation `WRel`), `C02BarRun` (work-group invariant
`GRel`, `PhaseOK`), `C02BarOrder` (arrival ghost), `C02BarDemo` (concrete kernels and schedules).
-/
namespace C02.Bar
open C02.Wf

/-! ## 1. the barrier rule is the one of property C14 -/

/-- **barrier_decision_is_C14.** When wavefront `w` completes an `s_barrier` (`evalSBarrier`), what
    `wgstep` does is: mark it `WfAtBarrier` (`parkAt` — in the C14 view of the work-group exactly
    `updWf … park`), then ask C14's `allAtBarrier` (`areAllWfInWGAtBarrier`, repaired code `Cfg.cur`) on
    that view: if it says yes, release (`passBarrier`), otherwise keep waiting. In particular the
    model's own test `allStopped` is C14's test. -/
theorem barrier_decision_is_C14 (g : WG) (gate : TState → Inst → Bool) (W : WState) (hW : WOK W)
    (w : Nat) (s : TState) (P : Prog) (hs : W.c[w]? = some s) (hP : g.Ps[w]? = some P)
    (hnp : W.parked.getD w false = false) (hph : s.ph = .issued) (hb : isBar g s = true) :
    toC14 (parkAt W w s) = C14.updWf (toC14 W) w C14.park ∧
    allStopped (parkAt W w s).c = C14.allAtBarrier C14.Cfg.cur 0 (toC14 (parkAt W w s)) ∧
    wgstep g gate W (w, .complete) =
      if C14.allAtBarrier C14.Cfg.cur 0 (C14.updWf (toC14 W) w C14.park) = true then
        (releaseAll (parkAt W w s).c (parkAt W w s).parked).map
          fun c2 => { c := c2, parked := unparkAll (parkAt W w s).parked }
      else some (parkAt W w s) :=
  ⟨toC14_parkAt W hW w s hs, allStopped_eq_C14 _ (hW.park w s), wgstep_barrier_eq g gate W hW w s P hs hP hnp hph hb⟩

/-- non-vacuity: one wavefront that has issued a barrier instruction -/
example : ∃ (g : WG) (W : WState) (w : Nat) (s : TState) (P : Prog), WOK W ∧ W.c[w]? = some s ∧ g.Ps[w]? = some P ∧
    W.parked.getD w false = false ∧ s.ph = .issued ∧ isBar g s = true := by
  let s : TState := { pc := 0, regs := fun _ => 0, mem := fun _ => 0, ph := .issued,
                      cur := some { kind := .endpgm, size := 4 } }
  refine ⟨{ Ps := [PX], bars := fun _ => true }, { c := [s], parked := [false] }, 0, s, PX, ⟨rfl, ?_⟩,
    rfl, rfl, rfl, rfl, rfl⟩
  intro j t _ hp
  cases j with
  | zero => cases hp
  | succ j => cases hp

/-- **barrier_release_is_C14.** At a pass (every wavefront stopped) the wavefronts `releaseAll` sets
    ready are exactly those C14's `release` (`setAllWfStateToReady`: every not-completed wavefront of
    the group) sets ready: after the pass the scheduler states of all wavefronts agree in the two models —
    at that moment the not-completed wavefronts are precisely the waiting ones. -/
theorem barrier_release_is_C14 (W : WState) (hall : allStopped W.c = true) (c2 : List TState)
    (hr : releaseAll W.c W.parked = some c2) :
    (toC14 { c := c2, parked := unparkAll W.parked }).map (·.state) =
      ((C14.passBarrier 0 { wfs := toC14 W, exec := [], buf := [], out := [], sent := [], fault := false }).wfs).map
        (·.state) :=
  release_is_C14 W hall c2 hr

/-- non-vacuity: a wavefront at the barrier and one that has ended -/
example : ∃ (W : WState) (c2 : List TState), allStopped W.c = true ∧ releaseAll W.c W.parked = some c2 := by
  let s : TState := { pc := 0, regs := fun _ => 0, mem := fun _ => 0, ph := .done,
                      cur := some { kind := .endpgm, size := 4 } }
  exact ⟨{ c := [s, { s with cur := none }], parked := [true, false] }, _, rfl, rfl⟩

/-- **endpgm_release_decision_is_C14.** When wavefront `w` ends (`evalSEndPgm`, counters zero), `wgstep`
    releases the waiting wavefronts exactly when C14's `evalSEndPgm` does: not all others completed
    (`areAllOtherWfsInWGCompleted` false) and all others at the barrier or completed
    (`areAllOtherWfsInWGAtBarrier`). -/
theorem endpgm_release_decision_is_C14 (W : WState) (hW : WOK W) (w : Nat) (s s' : TState) (m : Mem)
    (hs : W.c[w]? = some s) (hnp : W.parked.getD w false = false) (hd : s'.ph = .done) :
    (allStopped (setMemAll m (W.c.set w s')) && W.parked.any id) =
      (!C14.othersCompleted 0 w (toC14 W) && C14.othersAtBarrier 0 w (toC14 W)) :=
  endpgm_decision_eq_C14 W hW w s s' m hs hnp hd

/-- non-vacuity: wavefront 0 waits at the barrier, wavefront 1 is about to end -/
example : ∃ (W : WState) (w : Nat) (s s' : TState), WOK W ∧ W.c[w]? = some s ∧ W.parked.getD w false = false ∧
    s'.ph = .done := by
  let s : TState := { pc := 0, regs := fun _ => 0, mem := fun _ => 0, ph := .done }
  refine ⟨{ c := [s, { s with ph := .issued }], parked := [true, false] }, 1, _, s, ⟨rfl, ?_⟩, rfl, rfl, rfl⟩
  intro j t hj hp
  match j with
  | 0 => cases hj; rfl
  | 1 => cases hp
  | _ + 2 => cases hp

/-- **wok_holds_in_every_run.** The bookkeeping hypothesis `WOK` of the three theorems above (one
    `WfAtBarrier` flag per wavefront; a wavefront at the barrier has stopped) holds in every state an
    accepted run reaches. -/
theorem wok_holds_in_every_run (g : WG) (gate : TState → Inst → Bool) (inits : List (Nat × RF)) (m0 : Mem)
    (evs : List (Nat × Ev)) (W : WState) (h : wgrun g gate (winit inits m0) evs = some W) : WOK W :=
  wok_run g gate evs _ W (wok_init inits m0) h

example : ∃ W, wgrun gX (fun _ _ => true) (winit initsX m0X) [(0, .fetch), (1, .fetch)] = some W := ⟨_, rfl⟩

/-! ## 2. restart after a barrier -/

/-- **wavefront_restarts_after_barrier.** A wavefront that is in the simulation relation of `C02Wf`
    (`Inv`) and has stopped behind a barrier instruction `i` (the emulator has executed it: its PC is
    behind it) is, once released (`UpdatePCAndSetReady`), in the simulation relation AGAIN: with the
    emulator going on (`done := false`), nothing in flight, and ANY new ownership `o` / `wo` (same code)
    on which timing memory and emulator memory agree at that moment — ownership may change from one
    barrier phase to the next. -/
theorem wavefront_restarts_after_barrier {P : Prog} {T : TState} {E : EState} {H : HState} (hinv : Inv P T E H)
    (hph : T.ph = .done) (i : Inst) (hpc : E.pc = pcAdd T.pc i.size) (o wo : Nat → Bool) (T' : TState)
    (ha : advance T i = some T') (hmem : ∀ a, o a = true → T.mem a = E.mem a) :
    Inv (withOwn P o wo) T' { E with done := false } {} :=
  sim_restart hinv hph i hpc o wo T' ha hmem

/-- non-vacuity: a wavefront stopped behind a 4-byte barrier instruction at 0x1000 -/
example : ∃ (P : Prog) (T : TState) (E : EState) (H : HState) (i : Inst) (T' : TState),
    Inv P T E H ∧ T.ph = .done ∧ E.pc = pcAdd T.pc i.size ∧ advance T i = some T' ∧ ∀ a, T.mem a = E.mem a := by
  let i : Inst := { kind := .endpgm, size := 4 }
  let T : TState := { pc := 0x1000, regs := fun _ => 0, mem := fun _ => 0, ph := .done, cur := some i, trace := [0x1000] }
  let E : EState := { pc := pcAdd 0x1000 4, regs := fun _ => 0, mem := fun _ => 0, trace := [0x1000], done := true }
  refine ⟨PX, T, E, {}, i, _, ⟨⟨rfl, rfl, List.suffix_refl _, fun p hp => (by cases hp), fun p hp => (by cases hp)⟩,
    ⟨fun _ _ => rfl, fun p hp => (by cases hp)⟩, ⟨fun _ _ _ => rfl, fun p hp => (by cases hp)⟩,
    ⟨fun k hk => (by cases hk), fun j hj => (by cases hj)⟩, ⟨rfl, rfl, rfl, rfl⟩, fun p hp => (by cases hp)⟩,
    rfl, rfl, rfl, fun _ => rfl⟩

/-! ## 3. the work-group theorem -/

/-- **wg_barrier_timing_equals_emulator.** `n` wavefronts run the same well-formed code `P`
    (`PhaseOK.wf`, `.same`); ownership is indexed by the barrier phase: in phase `k` wavefront `j` owns
    (reads and writes, nobody else writes) `own k j` and may write `wown k j ⊆ own k j`, and what one
    wavefront may write in a phase no other wavefront owns in that phase (`.sep`, `.sub` — data written
    in one phase may be read by others in the next). For every phase the emulator's `runWG` goes through,
    every running wavefront's segment of that phase — run alone from the emulator's state at the start of
    the phase — ends within `hfuel` instructions, passes the hazard check `hazardFreeRun` under the
    phase's ownership (correct `s_waitcnt` placement, accesses inside the owned memory) and is DRAINED
    when it reaches a barrier (`drainedRun`: nothing in flight, i.e. `s_waitcnt vmcnt(0) lgkmcnt(0)`
    before `s_barrier`) — `.phases`, a decidable check.

    Then for EVERY sequence of events `wgstep` accepts (any interleaving of the wavefronts, any issue
    gate, any fetch timing, any order of performing the accesses in flight, barriers passed by
    `evalSBarrier` or by an ending wavefront) after which every wavefront has ended: if the emulator's
    `runWG` ends (within `rounds` rounds), every wavefront has the emulator's registers and
    executed-instruction sequence, and the shared memory equals the emulator's final memory at EVERY
    address. -/
theorem wg_barrier_timing_equals_emulator (g : WG) (P : Prog) (n : Nat) (own wown : Nat → Nat → Nat → Bool)
    (gate : TState → Inst → Bool) (inits : List (Nat × RF)) (m0 : Mem) (fuel hfuel rounds : Nat)
    (hok : PhaseOK g P n own wown fuel hfuel rounds inits m0)
    (evs : List (Nat × Ev)) (W : WState) (hrun : wgrun g gate (winit inits m0) evs = some W)
    (hfin : W.finished = true)
    (ws : List EWf) (m' : Mem) (hemu : ewgRun g fuel rounds (einitW inits m0) m0 = some (ws, m'))
    (j : Nat) (T : TState) (hT : W.c[j]? = some T) :
    ∃ we, ws[j]? = some we ∧ T.regs = we.E.regs ∧ T.trace = we.E.trace ∧ ∀ a, T.mem a = m' a := by
  have hown : OwnOK own wown := ⟨hok.sep, hok.sub⟩
  have h0 : Top g P own wown n fuel hfuel (ws, m') (winit inits m0) :=
    ⟨0, rounds, einitW inits m0, m0, grel_init inits m0 hok.len, hok.phases, hemu⟩
  exact top_final hok.wf hown hok.same (top_run hok.wf hown hok.same gate evs _ W h0 hrun) hfin j T hT

/-- non-vacuity: the exchange kernel of `wg_example_exchange` meets the hypotheses (`exch_phaseOK`:
    separation by `omega`, the per-phase check by kernel evaluation), and a schedule completes it -/
example : PhaseOK gX PX 2 ownX wownX 400 40 4 initsX m0X := exch_phaseOK
example : ∃ W, wgrun gX (fun _ _ => true) (winit initsX m0X) evsX = some W ∧ W.finished = true := by
  have h1 := exch_timing_run
  cases hW : wgrun gX (fun _ _ => true) (winit initsX m0X) evsX with
  | none => rw [hW] at h1; cases h1
  | some W =>
    rw [hW] at h1
    simp only [Option.map_some, Option.some.injEq, Prod.mk.injEq] at h1
    exact ⟨W, rfl, h1.1⟩
example : (ewgRun gX 400 4 (einitW initsX m0X) m0X).isSome = true := by decide +kernel

/-- **wg_phase_points_match.** The same at every intermediate point of an accepted run: the timing side
    is in some phase `k` in which every wavefront is in the relation `WRel` with the emulator's state
    at the start of its `k`-th round (`GRel`: a wavefront that ended earlier has the emulator's final
    registers; a running or waiting one simulates the emulator's segment of this phase; the shared
    memory has changed only inside what the running wavefronts may write in this phase), and from that
    state the emulator reaches its final result. -/
theorem wg_phase_points_match (g : WG) (P : Prog) (n : Nat) (own wown : Nat → Nat → Nat → Bool)
    (gate : TState → Inst → Bool) (inits : List (Nat × RF)) (m0 : Mem) (fuel hfuel rounds : Nat)
    (hok : PhaseOK g P n own wown fuel hfuel rounds inits m0)
    (evs : List (Nat × Ev)) (W : WState) (hrun : wgrun g gate (winit inits m0) evs = some W)
    (res : List EWf × Mem) (hemu : ewgRun g fuel rounds (einitW inits m0) m0 = some res) :
    ∃ (k r : Nat) (wsk : List EWf) (mk : Mem), GRel g P own wown n k wsk mk W ∧
      ewgRun g fuel r wsk mk = some res := by
  have hown : OwnOK own wown := ⟨hok.sep, hok.sub⟩
  have h0 : Top g P own wown n fuel hfuel res (winit inits m0) :=
    ⟨0, rounds, einitW inits m0, m0, grel_init inits m0 hok.len, hok.phases, hemu⟩
  obtain ⟨k, r, wsk, mk, hG, _, hr⟩ := top_run hok.wf hown hok.same gate evs _ W h0 hrun
  exact ⟨k, r, wsk, mk, hG, hr⟩

/-- non-vacuity: a prefix of the schedule (wavefront 0 waits at the barrier, wavefront 1 still runs) -/
example : (wgrun gX (fun _ _ => true) (winit initsX m0X) (evsX.take 73)).map (·.parked) = some [true, false] := by
  decide +kernel

/-! ## 5. the theorem applies: an exchange through memory across a barrier -/

/-- **wg_example_exchange.** The 16-instruction exchange kernel (each of two wavefronts stores 256·j into
    its own 256-byte slot of the window at 0x200000, `s_waitcnt 0`, `s_barrier`, loads its neighbour's
    slot) meets the hypotheses of `wg_barrier_timing_equals_emulator` (phase 0: wavefront `j` owns and may
    write slot `j`; afterwards it owns its neighbour's slot read-only), an interleaved schedule the
    compute unit's rules accept completes it, the emulator completes it, and so — by the theorem — the
    two agree on all registers, instruction sequences and the whole memory (the kernel-evaluated values
    are in `exch_timing_run` / `exch_emu_run`: wavefront 0 reads the 256 wavefront 1 stored). -/
theorem wg_example_exchange :
    ∃ (W : WState) (ws : List EWf) (m' : Mem),
      wgrun gX (fun _ _ => true) (winit initsX m0X) evsX = some W ∧ W.finished = true ∧
      ewgRun gX 400 4 (einitW initsX m0X) m0X = some (ws, m') ∧
      ∀ (j : Nat) (T : TState), W.c[j]? = some T →
        ∃ we, ws[j]? = some we ∧ T.regs = we.E.regs ∧ T.trace = we.E.trace ∧ ∀ a, T.mem a = m' a := by
  have h1 := exch_timing_run
  have h2 := exch_emu_run
  cases hW : wgrun gX (fun _ _ => true) (winit initsX m0X) evsX with
  | none => rw [hW] at h1; cases h1
  | some W =>
    cases hE : ewgRun gX 400 4 (einitW initsX m0X) m0X with
    | none => rw [hE] at h2; cases h2
    | some r =>
      obtain ⟨ws, m'⟩ := r
      rw [hW] at h1
      simp only [Option.map_some, Option.some.injEq, Prod.mk.injEq] at h1
      exact ⟨W, ws, m', rfl, h1.1, rfl, fun j T hT =>
        wg_barrier_timing_equals_emulator gX PX 2 ownX wownX _ initsX m0X 400 40 4 exch_phaseOK evsX W hW h1.1
          ws m' hE j T hT⟩

/-! ## 4. the "drained at the barrier" hypothesis is necessary -/

/-- **barrier_without_waitcnt_differs.** The exchange kernel WITHOUT the `s_waitcnt` before `s_barrier`:
    `evalSBarrier` lets wavefront 0 wait at the barrier with its store still in flight (it does not look
    at the outstanding-access counters), the barrier passes when wavefront 1 arrives, and wavefront 1's
    load of wavefront 0's slot is performed before that store: an accepted, completed run in which
    wavefront 1 reads the OLD memory (0xfa18aa3d) where the emulator reads the stored 0. The hypothesis
    check `phasesOK` rejects this kernel (its segment is not drained at the barrier). -/
theorem barrier_without_waitcnt_differs :
    (wgrun gN (fun _ _ => true) (winit initsX m0X) evsBadBar).map
      (fun W => (W.finished, W.c.map fun T => T.regs (vreg 8 0))) = some (true, [256, 4195897085]) ∧
    (ewgRun gN 400 4 (einitW initsX m0X) m0X).map (fun r => r.1.map fun w => w.E.regs (vreg 8 0)) =
      some [256, 0] ∧
    phasesOK gN (cprog 0x1000 (noWait.map BI.toC) (fun _ => false)) ownX wownX 400 40 4 0 (einitW initsX m0X) m0X =
      false := by
  refine ⟨by decide +kernel, by decide +kernel, by decide +kernel⟩

/-! ## 4b. phase order: a safety property of the scheduler alone (no hypothesis on the program) -/

/-- **arrival_count_is_ghost.** `wgrunA` is `wgrun` with a ghost next to it that counts, per wavefront,
    the barriers it has arrived at (`evalSBarrier` events); the ghost does not influence the run. -/
theorem arrival_count_is_ghost (g : WG) (gate : TState → Inst → Bool) (evs : List (Nat × Ev))
    (X : WState × (Nat → Nat)) : (wgrunA g gate X evs).map (·.1) = wgrun g gate X.1 evs :=
  wgrunA_fst g gate evs X

/-- **barrier_phase_order.** In EVERY accepted run of a work-group (any program, any interleaving), at
    every moment, for a wavefront `j` and an unfinished wavefront `j'`: `j` has arrived at no more than
    one barrier more than `j'`, and if it is one barrier ahead then `j` is still WAITING at that barrier
    (and `j'` is not waiting): no wavefront issues an instruction behind its `k`-th barrier before every
    unfinished wavefront of the group has arrived at its `k`-th barrier. -/
theorem barrier_phase_order (g : WG) (gate : TState → Inst → Bool) (inits : List (Nat × RF)) (m0 : Mem)
    (evs : List (Nat × Ev)) (W : WState) (arr : Nat → Nat)
    (h : wgrunA g gate (winit inits m0, fun _ => 0) evs = some (W, arr))
    (j j' : Nat) (T T' : TState) (hj : W.c[j]? = some T) (hj' : W.c[j']? = some T')
    (hu : ¬ (T'.ph = .done ∧ W.parked.getD j' false = false)) :
    arr j ≤ arr j' + 1 ∧
      (arr j = arr j' + 1 → W.parked.getD j false = true ∧ W.parked.getD j' false = false) := by
  obtain ⟨K, hK⟩ := ord_run g gate evs _ _ (wok_init inits m0) ⟨0, ord_init inits m0⟩ h
  have h1 := hK.le j T hj
  have h2 := hK.eq j' T' hj' hu
  have p1 := hK.pos j
  have p2 := hK.pos j'
  unfold passed at h1 h2
  simp only at h1 h2 p1 p2
  cases hp : W.parked.getD j false <;> cases hp' : W.parked.getD j' false <;>
    rw [hp] at h1 p1 <;> rw [hp'] at h2 p2 <;>
    simp only [Bool.false_eq_true, if_false, if_true, Nat.sub_zero] at h1 h2
  · exact ⟨by omega, fun he => by omega⟩
  · have := p2 rfl
    exact ⟨by omega, fun he => by omega⟩
  · exact ⟨by omega, fun _ => ⟨rfl, rfl⟩⟩
  · have := p1 rfl
    have := p2 rfl
    exact ⟨by omega, fun he => by omega⟩

/-- non-vacuity: in the lockstep run of the exchange kernel both wavefronts arrive at one barrier -/
example : (wgrunA gX (fun _ _ => true) (winit initsX m0X, fun _ => 0) evsX).map
    (fun X => (X.1.finished, X.2 0, X.2 1)) = some (true, 1, 1) := by decide +kernel

/-- … and in the middle of it wavefront 0 waits at the barrier, one arrival ahead of wavefront 1 -/
example : (wgrunA gX (fun _ _ => true) (winit initsX m0X, fun _ => 0) (evsX.take 73)).map
    (fun X => (X.1.parked, X.2 0, X.2 1)) = some ([true, false], 1, 0) := by decide +kernel

end C02.Bar
