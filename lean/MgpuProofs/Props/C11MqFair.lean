import MgpuModel.C11Mq
import MgpuProofs.C11MqFair
/-! # C11 — several command queues copying at once: liveness under EVERY fair schedule

`Props/C11Mq.lean` proves that all copies complete for ONE schedule ("the GPU side serves everything,
then the driver ticks", `MqEnv.rounds`). Here the schedule is arbitrary: an infinite sequence
`σ : Nat → MqOp` of ticks, takes (`.take k`: the GPU side takes `k` requests from the port, any `k`)
and answers (`.rsp j`: the GPU side answers the `j`-th request it holds, any order), in any
interleaving. `mqRunSched e σ N` is the state after the first `N` moves. `MqFair σ`: no command is
enqueued any more, and a tick, a take of at least one request, and an answer each occur again after
every point of time. The model (`MqEnv.step`) is the one the correspondence check runs against the
real `Driver` (`c11 mq` case lines).

The proof is a ranking argument with `MqEnv.fairMeasure = 2·potential + |GPU port|`; nothing is
assumed about the port (its outgoing buffer of 40960000 messages may be full). -/
namespace C11

/-- the demo state: 1 GPU, H2D latency 2, D2H latency 3, 2 queues, fresh driver; an H2D of two pieces
    with flush on queue 0 and a D2H of two pieces on queue 1, nothing ticked yet -/
def mqFairDemo : MqEnv := reachMq 1 2 3 2 false [.enq 0 ⟨.h2d, 2, true⟩, .enq 1 ⟨.d2h, 2, false⟩]

/-- tick, take one request, answer the oldest request, again and again -/
def mqFairS3 (i : Nat) : MqOp :=
  match i % 3 with
  | 0 => .tick
  | 1 => .take 1
  | _ => .rsp 0

/-- another rhythm: four ticks in seven moves, the GPU side takes two requests at a time and answers
    the second request it holds, later the sixth (index modulo the number it holds): out of order -/
def mqFairS7 (i : Nat) : MqOp :=
  match i % 7 with
  | 3 => .take 2
  | 4 => .rsp 1
  | 6 => .rsp 5
  | _ => .tick

theorem mqFairS3_fair : MqFair mqFairS3 := by
  refine ⟨fun i q c => ?_, fun i => ⟨⟨3 * i, by omega, ?_⟩, ⟨3 * i + 1, by omega, 1, Nat.le_refl _, ?_⟩,
    ⟨3 * i + 2, by omega, 0, ?_⟩⟩⟩
  · unfold mqFairS3; split <;> simp
  · have : (3 * i) % 3 = 0 := by omega
    simp [mqFairS3, this]
  · have : (3 * i + 1) % 3 = 1 := by omega
    simp [mqFairS3, this]
  · have : (3 * i + 2) % 3 = 2 := by omega
    simp [mqFairS3, this]

theorem mqFairS7_fair : MqFair mqFairS7 := by
  refine ⟨fun i q c => ?_, fun i => ⟨⟨7 * i, by omega, ?_⟩, ⟨7 * i + 3, by omega, 2, by omega, ?_⟩,
    ⟨7 * i + 4, by omega, 1, ?_⟩⟩⟩
  · unfold mqFairS7; split <;> simp
  · have : (7 * i) % 7 = 0 := by omega
    simp [mqFairS7, this]
  · have : (7 * i + 3) % 7 = 3 := by omega
    simp [mqFairS7, this]
  · have : (7 * i + 4) % 7 = 4 := by omega
    simp [mqFairS7, this]

/-- what the definitions say, spelled out: the measure, and when a move is a no-op -/
theorem mq_fair_defs (e : MqEnv) :
    e.fairMeasure = 2 * e.potential + e.s.portOut.length ∧
    (e.noop .tick ↔ ((e.s.toSend = [] ∨ ¬ e.s.portOut.length < 40960000) ∧ e.s.cyclesLeft < 0 ∧ e.s.portIn = [] ∧
      ∀ q ∈ e.s.queues, q.cmds = [] ∨ q.running = true)) ∧
    (∀ k, e.noop (.take k) ↔ (k = 0 ∨ e.s.portOut = [])) ∧
    (∀ j, e.noop (.rsp j) ↔ e.outstanding = []) ∧
    (∀ q c, ¬ e.noop (.enq q c)) ∧
    (∀ σ, mqRunSched e σ 0 = e) ∧ (∀ σ N, mqRunSched e σ (N + 1) = ((mqRunSched e σ N).step (σ N)).1) ∧
    (∀ σ N, mqRunSched e σ N = e.run ((List.range N).map σ)) :=
  ⟨rfl, Iff.rfl, fun _ => Iff.rfl, fun _ => Iff.rfl, fun _ _ h => h, fun _ => rfl, fun _ _ => rfl,
    fun σ N => mqRunSched_eq_run e σ N⟩

/-- **Every move counts.** From every reachable state (any queues, anything in flight anywhere, the
    GPU port holding any number of requests), a move `op` that is not an enqueue — a tick, a take of
    any `k`, an answer to any index — never makes the measure `2·potential + |GPU port|` grow; the
    measure falls strictly unless the move is a no-op (`.take k` with `k = 0` or an empty port, `.rsp`
    with nothing held by the GPU side, a quiet tick: nothing to send or the port full, delay line
    idle, no answer waiting, no queue able to start); and a no-op leaves the WHOLE state unchanged. So
    the state changes exactly when the measure falls. -/
theorem mq_fair_measure_decreases (g a b n : Nat) (warm : Bool) (ops : List MqOp) (op : MqOp)
    (hop : ∀ q c, op ≠ .enq q c) :
    let e := reachMq g a b n warm ops
    (e.step op).1.fairMeasure ≤ e.fairMeasure ∧
    ((e.step op).1.fairMeasure < e.fairMeasure ↔ ¬ e.noop op) ∧
    (e.noop op → (e.step op).1 = e) ∧
    ((e.step op).1 ≠ e ↔ ¬ e.noop op) := by
  intro e
  have h := reachMq_inv g a b n warm ops
  exact ⟨h.step_fair_le op hop, h.step_fair_lt_iff op hop, fun hn => h.step_noop hn, h.step_ne_iff op hop⟩

/-- in the demo state the measure is 62 (= 2·31); the first tick starts both queues and the measure
    falls to 46; a take and an answer with nothing in the port / at the GPU side are no-ops and leave
    the state as it is; in the state after 4 moves of `mqFairS3` (one request in the port) a take of one
    request makes the measure fall from 43 to 42 although the potential stays 21, `take 0` is a no-op -/
example :
    mqFairDemo.fairMeasure = 62 ∧ (mqFairDemo.step .tick).1.fairMeasure = 46 ∧ ¬ mqFairDemo.noop .tick ∧
    mqFairDemo.noop (.take 1) ∧ (mqFairDemo.step (.take 1)).1 = mqFairDemo ∧
    mqFairDemo.noop (.rsp 0) ∧ (mqFairDemo.step (.rsp 0)).1 = mqFairDemo ∧
    (mqRunSched mqFairDemo mqFairS3 4).fairMeasure = 43 ∧ (mqRunSched mqFairDemo mqFairS3 4).potential = 21 ∧
    ¬ (mqRunSched mqFairDemo mqFairS3 4).noop (.take 1) ∧
    ((mqRunSched mqFairDemo mqFairS3 4).step (.take 1)).1.fairMeasure = 42 ∧
    ((mqRunSched mqFairDemo mqFairS3 4).step (.take 1)).1.potential = 21 ∧
    (mqRunSched mqFairDemo mqFairS3 4).noop (.take 0) ∧
    ((mqRunSched mqFairDemo mqFairS3 4).step (.take 0)).1 = mqRunSched mqFairDemo mqFairS3 4 := by
  decide +kernel

/-- **No deadlock.** In a reachable state in which no kind of move can do anything — the tick is
    quiet, a take of `k ≥ 1` requests is a no-op (the port is empty), an answer is a no-op (the GPU side
    holds nothing) — every queue is empty: the driver cannot wait for something that is nowhere. -/
theorem mq_no_deadlock (g a b n : Nat) (warm : Bool) (ops : List MqOp) (k j : Nat) (hk : 1 ≤ k) :
    let e := reachMq g a b n warm ops
    e.noop .tick → e.noop (.take k) → e.noop (.rsp j) → e.allDone := by
  intro e ht hk' hr
  have hpo : e.s.portOut = [] := by
    rcases hk' with h0 | h0
    · omega
    · exact h0
  exact (reachMq_inv g a b n warm ops).noop_allDone ht hpo hr

/-- the end of the `mqFairS3` run: all three kinds of move are no-ops and every queue is empty. None of
    the three hypotheses can be dropped: in the demo state take and answer are no-ops, the tick is
    not, and the queues are not empty; after 25 moves of `mqNoTake` (below) tick and answer are no-ops,
    a take of one request is not; after 18 moves of `mqNoRsp` tick and take are no-ops, the answer is
    not — the queues are not empty in either -/
example :
    (mqRunSched mqFairDemo mqFairS3 28).noop .tick ∧ (mqRunSched mqFairDemo mqFairS3 28).noop (.take 1) ∧
    (mqRunSched mqFairDemo mqFairS3 28).noop (.rsp 0) ∧ (mqRunSched mqFairDemo mqFairS3 28).allDone ∧
    mqFairDemo.noop (.take 1) ∧ mqFairDemo.noop (.rsp 0) ∧ ¬ mqFairDemo.noop .tick ∧ ¬ mqFairDemo.allDone := by
  decide +kernel

/-- **Only `fairMeasure` many moves can change the state.** In any finite run of moves that are not
    enqueues from a reachable state, the number of moves that change the state
    (`MqEnv.productive`), plus the measure of the final state, is at most the measure of the start
    state — however the run interleaves ticks, takes and answers. -/
theorem mq_productive_moves_bounded (g a b n : Nat) (warm : Bool) (ops run : List MqOp)
    (hrun : ∀ op ∈ run, ∀ q c, op ≠ .enq q c) :
    let e := reachMq g a b n warm ops
    e.productive run + (e.run run).fairMeasure ≤ e.fairMeasure ∧ e.productive run ≤ e.fairMeasure := by
  intro e
  have h := (reachMq_inv g a b n warm ops).productive_le run hrun
  exact ⟨h, Nat.le_trans (Nat.le_add_right _ _) h⟩

/-- of the first 100 moves of `mqFairS3` from the demo state 20 change the state, of `mqFairS7` 19
    (the measure of the start state is 62); `productive` counts a move iff it changes the state -/
example :
    mqFairDemo.productive ((List.range 100).map mqFairS3) = 20 ∧
    mqFairDemo.productive ((List.range 100).map mqFairS7) = 19 ∧ mqFairDemo.fairMeasure = 62 ∧
    mqFairDemo.productive [.take 1, .rsp 0, .tick, .take 0, .tick] = 2 := by
  decide +kernel

/-- **All copies complete under EVERY fair schedule.** From every reachable state — commands enqueued
    on any queues, H2D and D2H mixed, zero-length copies, anything in flight anywhere — and for every
    infinite schedule `σ` of ticks, takes (any `k` each time) and answers (any index, any order) in
    which no command is enqueued any more and ticks, takes of at least one request and answers each
    recur for ever: from some time `N` on every queue is empty, for ever. -/
theorem mq_fair_all_complete (g a b n : Nat) (warm : Bool) (ops : List MqOp) (σ : Nat → MqOp) (hσ : MqFair σ) :
    ∃ N, ∀ M ≥ N, (mqRunSched (reachMq g a b n warm ops) σ M).allDone :=
  (reachMq_inv g a b n warm ops).fair_allDone _ (Nat.le_refl _) σ hσ

/-- the two demo schedules are fair (`mqFairS3_fair`, `mqFairS7_fair`): the hypothesis of the theorem
    can be met, and the theorem applies to them from the demo state -/
example :
    (∃ N, ∀ M ≥ N, (mqRunSched mqFairDemo mqFairS3 M).allDone) ∧
    (∃ N, ∀ M ≥ N, (mqRunSched mqFairDemo mqFairS7 M).allDone) :=
  ⟨mq_fair_all_complete 1 2 3 2 false _ mqFairS3 mqFairS3_fair,
   mq_fair_all_complete 1 2 3 2 false _ mqFairS7 mqFairS7_fair⟩

/-- under `mqFairS3` the queues of the demo state are empty after 28 moves and not after 27, under
    `mqFairS7` after 22 and not after 21; they stay empty (here: after 100 moves); both commands have
    completed; `mqFairS3` answers in order, `mqFairS7` out of order; the measure falls 62, 46, … -/
example :
    ¬ (mqRunSched mqFairDemo mqFairS3 27).allDone ∧ (mqRunSched mqFairDemo mqFairS3 28).allDone ∧
    (mqRunSched mqFairDemo mqFairS3 100).allDone ∧
    ¬ (mqRunSched mqFairDemo mqFairS7 21).allDone ∧ (mqRunSched mqFairDemo mqFairS7 22).allDone ∧
    (mqRunSched mqFairDemo mqFairS7 100).allDone ∧
    (mqRunSched mqFairDemo mqFairS3 28).s.completed = [(0, 0), (1, 0)] ∧
    (mqRunSched mqFairDemo mqFairS7 22).s.completed = [(0, 0), (1, 0)] ∧
    (mqRunSched mqFairDemo mqFairS3 28).s.answered = [0, 1, 2, 3, 4] ∧
    (mqRunSched mqFairDemo mqFairS7 22).s.answered = [0, 2, 1, 4, 3] ∧
    (List.range 9).map (fun N => (mqRunSched mqFairDemo mqFairS3 N).fairMeasure) =
      [62, 46, 46, 46, 43, 42, 40, 36, 36] := by
  decide +kernel

/-- **… and every enqueued command has completed exactly once.** Under every fair schedule, from
    some time on: every queue is empty, no command was enqueued since, and the completions of each
    queue `qi` are its commands `0, 1, …` — as many as were ever enqueued on it. -/
theorem mq_fair_all_completed (g a b n : Nat) (warm : Bool) (ops : List MqOp) (σ : Nat → MqOp) (hσ : MqFair σ) :
    ∃ N, ∀ M ≥ N,
      let e := reachMq g a b n warm ops
      let e' := mqRunSched e σ M
      e'.allDone ∧ e'.enq = e.enq ∧
      ∀ qi, qi < n → (e'.s.completed.filter (·.1 = qi)).map (·.2) = List.range (e.enqOf qi).length := by
  obtain ⟨N, hN⟩ := mq_fair_all_complete g a b n warm ops σ hσ
  refine ⟨N, fun M hM => ?_⟩
  intro e e'
  have h' : e'.Inv g a b n := (reachMq_inv g a b n warm ops).sched σ M
  have henq : e'.enq = e.enq := e.sched_enq hσ.1 M
  refine ⟨hN M hM, henq, fun qi hqi => ?_⟩
  have hlt : qi < e'.s.queues.length := by rw [h'.qlen]; exact hqi
  have := (h'.allDone_completed (hN M hM) (List.getElem?_eq_getElem hlt)).2
  have he : e'.enqOf qi = e.enqOf qi := by unfold MqEnv.enqOf; rw [henq]
  rw [← he]
  exact this

/-! ## fairness cannot be dropped -/

/-- no tick: takes and answers recur for ever -/
def mqNoTick (i : Nat) : MqOp :=
  match i % 2 with
  | 0 => .take 1
  | _ => .rsp 0

/-- no take of at least one request: ticks, answers and takes of ZERO requests recur for ever -/
def mqNoTake (i : Nat) : MqOp :=
  match i % 3 with
  | 0 => .tick
  | 1 => .take 0
  | _ => .rsp 0

/-- no answer: ticks and takes (of three requests) recur for ever -/
def mqNoRsp (i : Nat) : MqOp :=
  match i % 2 with
  | 0 => .tick
  | _ => .take 3

/-- **Without ticks nothing completes**: the schedule `mqNoTick` enqueues nothing, takes of one
    request and answers recur for ever — and the demo state never changes, its queues stay full. -/
theorem mq_fair_needs_tick :
    (∀ i q c, mqNoTick i ≠ .enq q c) ∧ (∀ i, ∃ j ≥ i, ∃ k ≥ 1, mqNoTick j = .take k) ∧
    (∀ i, ∃ j ≥ i, ∃ x, mqNoTick j = .rsp x) ∧
    (∀ M, mqRunSched mqFairDemo mqNoTick M = mqFairDemo) ∧ ¬ mqFairDemo.allDone ∧
    ¬ ∃ N, ∀ M ≥ N, (mqRunSched mqFairDemo mqNoTick M).allDone := by
  have hfix : ∀ i, (mqFairDemo.step (mqNoTick i)).1 = mqFairDemo := by
    intro i
    unfold mqNoTick
    split <;> decide +kernel
  have hnd : ¬ mqFairDemo.allDone := by decide +kernel
  refine ⟨fun i q c => ?_, fun i => ⟨2 * i, by omega, 1, Nat.le_refl _, ?_⟩, fun i => ⟨2 * i + 1, by omega, 0, ?_⟩,
    mqRunSched_fix hfix, hnd,
    mqRunSched_stuck_not_live 0 (fun i => by rw [Nat.zero_add]; exact hfix i) hnd⟩
  · unfold mqNoTick; split <;> simp
  · have : (2 * i) % 2 = 0 := by omega
    simp [mqNoTick, this]
  · have : (2 * i + 1) % 2 = 1 := by omega
    simp [mqNoTick, this]

/-- **Without takes of at least one request nothing completes** (`k ≥ 1` in `MqFair` matters): under
    `mqNoTake` ticks and answers recur for ever, and so do takes — of zero requests. The driver sends
    all five requests to the GPU port; from move 25 on the state never changes (measure 25 = five
    requests in the port), both queues still hold their command. -/
theorem mq_fair_needs_take :
    (∀ i q c, mqNoTake i ≠ .enq q c) ∧ (∀ i, ∃ j ≥ i, mqNoTake j = .tick) ∧
    (∀ i, ∃ j ≥ i, ∃ x, mqNoTake j = .rsp x) ∧ (∀ i, ∃ j ≥ i, ∃ k, mqNoTake j = .take k) ∧
    (∀ M, mqRunSched mqFairDemo mqNoTake (25 + M) = mqRunSched mqFairDemo mqNoTake 25) ∧
    ¬ (mqRunSched mqFairDemo mqNoTake 25).allDone ∧
    ¬ ∃ N, ∀ M ≥ N, (mqRunSched mqFairDemo mqNoTake M).allDone := by
  have hops : ∀ op ∈ [MqOp.tick, .take 0, .rsp 0],
      ((mqRunSched mqFairDemo mqNoTake 25).step op).1 = mqRunSched mqFairDemo mqNoTake 25 := by decide +kernel
  have hfix : ∀ i, ((mqRunSched mqFairDemo mqNoTake 25).step (mqNoTake (25 + i))).1 =
      mqRunSched mqFairDemo mqNoTake 25 := by
    intro i
    apply hops
    unfold mqNoTake
    split <;> simp
  have hnd : ¬ (mqRunSched mqFairDemo mqNoTake 25).allDone := by decide +kernel
  refine ⟨fun i q c => ?_, fun i => ⟨3 * i, by omega, ?_⟩, fun i => ⟨3 * i + 2, by omega, 0, ?_⟩,
    fun i => ⟨3 * i + 1, by omega, 0, ?_⟩, mqRunSched_stuck 25 hfix, hnd, mqRunSched_stuck_not_live 25 hfix hnd⟩
  · unfold mqNoTake; split <;> simp
  · have : (3 * i) % 3 = 0 := by omega
    simp [mqNoTake, this]
  · have : (3 * i + 2) % 3 = 2 := by omega
    simp [mqNoTake, this]
  · have : (3 * i + 1) % 3 = 1 := by omega
    simp [mqNoTake, this]

/-- **Without answers nothing completes**: under `mqNoRsp` ticks and takes recur for ever; the GPU
    side ends up holding all five requests, from move 18 on the state never changes (measure 20 = five
    requests at the GPU side), both queues still hold their command. -/
theorem mq_fair_needs_rsp :
    (∀ i q c, mqNoRsp i ≠ .enq q c) ∧ (∀ i, ∃ j ≥ i, mqNoRsp j = .tick) ∧
    (∀ i, ∃ j ≥ i, ∃ k ≥ 1, mqNoRsp j = .take k) ∧
    (∀ M, mqRunSched mqFairDemo mqNoRsp (18 + M) = mqRunSched mqFairDemo mqNoRsp 18) ∧
    ¬ (mqRunSched mqFairDemo mqNoRsp 18).allDone ∧
    ¬ ∃ N, ∀ M ≥ N, (mqRunSched mqFairDemo mqNoRsp M).allDone := by
  have hops : ∀ op ∈ [MqOp.tick, .take 3],
      ((mqRunSched mqFairDemo mqNoRsp 18).step op).1 = mqRunSched mqFairDemo mqNoRsp 18 := by decide +kernel
  have hfix : ∀ i, ((mqRunSched mqFairDemo mqNoRsp 18).step (mqNoRsp (18 + i))).1 =
      mqRunSched mqFairDemo mqNoRsp 18 := by
    intro i
    apply hops
    unfold mqNoRsp
    split <;> simp
  have hnd : ¬ (mqRunSched mqFairDemo mqNoRsp 18).allDone := by decide +kernel
  refine ⟨fun i q c => ?_, fun i => ⟨2 * i, by omega, ?_⟩, fun i => ⟨2 * i + 1, by omega, 3, by omega, ?_⟩,
    mqRunSched_stuck 18 hfix, hnd, mqRunSched_stuck_not_live 18 hfix hnd⟩
  · unfold mqNoRsp; split <;> simp
  · have : (2 * i) % 2 = 0 := by omega
    simp [mqNoRsp, this]
  · have : (2 * i + 1) % 2 = 1 := by omega
    simp [mqNoRsp, this]

/-- the stuck states: under `mqNoTake` the five requests sit in the GPU port, under `mqNoRsp` at the
    GPU side; in both the tick is quiet, and exactly the missing kind of move would change the state -/
example :
    (mqRunSched mqFairDemo mqNoTake 25).s.portOut.map (·.id) = [0, 1, 2, 3, 4] ∧
    (mqRunSched mqFairDemo mqNoTake 25).fairMeasure = 25 ∧
    (mqRunSched mqFairDemo mqNoTake 25).noop .tick ∧ (mqRunSched mqFairDemo mqNoTake 25).noop (.rsp 0) ∧
    ¬ (mqRunSched mqFairDemo mqNoTake 25).noop (.take 1) ∧
    (mqRunSched mqFairDemo mqNoRsp 18).outstanding.map (·.id) = [0, 1, 2, 3, 4] ∧
    (mqRunSched mqFairDemo mqNoRsp 18).fairMeasure = 20 ∧
    (mqRunSched mqFairDemo mqNoRsp 18).noop .tick ∧ (mqRunSched mqFairDemo mqNoRsp 18).noop (.take 3) ∧
    ¬ (mqRunSched mqFairDemo mqNoRsp 18).noop (.rsp 0) ∧
    (mqRunSched mqFairDemo mqNoRsp 60) = (mqRunSched mqFairDemo mqNoRsp 18) ∧
    (mqRunSched mqFairDemo mqNoTake 60) = (mqRunSched mqFairDemo mqNoTake 25) := by
  decide +kernel

/-- **"No more enqueues" cannot be dropped.** From every reachable state of a driver with at least one
    queue: if the schedule enqueues on queue 0 again and again (whatever else it does — it may tick,
    take and answer as often as a fair schedule), some queue is busy at arbitrarily late times. -/
theorem mq_fair_needs_no_enq (g a b n : Nat) (warm : Bool) (ops : List MqOp) (hn : 1 ≤ n) (σ : Nat → MqOp)
    (hσ : ∀ i, ∃ j ≥ i, ∃ c, σ j = .enq 0 c) :
    ∀ N, ∃ M ≥ N, ¬ (mqRunSched (reachMq g a b n warm ops) σ M).allDone :=
  (reachMq_inv g a b n warm ops).enq_recurs_busy hn hσ

/-- enqueue a zero-length copy on queue 0, tick, take, answer, again and again: ticks, takes and
    answers recur as in a fair schedule, but so do enqueues -/
def mqEnqForEver (i : Nat) : MqOp :=
  match i % 4 with
  | 0 => .enq 0 ⟨.h2d, 0, false⟩
  | 1 => .tick
  | 2 => .take 1
  | _ => .rsp 0

example : ∀ N, ∃ M ≥ N, ¬ (mqRunSched mqFairDemo mqEnqForEver M).allDone := by
  refine mq_fair_needs_no_enq 1 2 3 2 false _ (by omega) mqEnqForEver fun i => ⟨4 * i, by omega, ⟨.h2d, 0, false⟩, ?_⟩
  have : (4 * i) % 4 = 0 := by omega
  simp [mqEnqForEver, this]

/-- … here queue 0 is never empty at all: the backlog of zero-length copies that builds up while its
    first copy is open is never worked off (one enqueue and one tick — which completes one of them —
    per four moves): 8 commands wait after 41, 81 and 201 moves, 4, 14 and 44 have completed -/
example :
    ¬ (mqRunSched mqFairDemo mqEnqForEver 41).allDone ∧ ¬ (mqRunSched mqFairDemo mqEnqForEver 81).allDone ∧
    (mqRunSched mqFairDemo mqEnqForEver 41).s.queues.map (fun q => (q.cmds.length, q.done)) = [(8, 4), (0, 1)] ∧
    (mqRunSched mqFairDemo mqEnqForEver 81).s.queues.map (fun q => (q.cmds.length, q.done)) = [(8, 14), (0, 1)] ∧
    (mqRunSched mqFairDemo mqEnqForEver 201).s.queues.map (fun q => (q.cmds.length, q.done)) = [(8, 44), (0, 1)] := by
  decide +kernel

end C11
