import MgpuModel.C11Sys
import MgpuProofs.Props.C11
import MgpuProofs.C11DmaTx
import MgpuProofs.C11SysInv
import MgpuProofs.C11SysCmd
import MgpuProofs.C11MqLink
import MgpuProofs.C11CpLink
/-! # C11 — run-level account of the DMA engine's memory transactions, and the closed copy system

Part 1 closes the gap left by `dma_subrequests_tile` (a step-level statement): for every run of the
DMA engine under every environment, the transactions issued for a copy request are, in order, exactly
the `2^log2`-unit pieces of its range, and when the copy completes every one of them has been handed
to the memory and answered. -/
namespace C11

/-- **Run level: the transactions of a copy request tile its range.** After every sequence of
    environment moves (bogus responses included), for every copy request `r` the engine has taken
    from its CP port: the transactions created for it (ghost owner `r.id`) — already handed to the
    memory, in ToMem's buffer or waiting in `toSendToMem`, in creation order — are exactly the
    `2^log2`-unit pieces of `[r.addr, r.addr + r.len)`, writes for H2D and reads for D2H: no byte
    is transferred twice, none is left out, no transaction crosses a unit. -/
theorem dma_transactions_tile (log2 maxReq memCap : Nat) (ops : List EnvOp) :
    let e := reach log2 maxReq memCap ops
    ∀ r ∈ e.cps, r.id ∉ e.s.cpIn.map (·.id) →
      (e.issued.filter (fun q => q.owner == r.id)).map (fun q => (q.addr, q.len, q.write)) =
        (splitBy (2 ^ e.s.log2) (Nat.pow_pos (by decide)) r.addr r.len).map
          (fun p => (p.1, p.2, r.kind == Kind.h2d)) := by
  intro e r hr hnot
  have hinv := dma_inv log2 maxReq memCap ops
  obtain ⟨⟨parsed, hcps, htile⟩, _, _⟩ := Env.run_tx (Env.init_tx log2 maxReq memCap) ops
  have hrp : r ∈ parsed := by
    have : r ∈ parsed ++ e.s.cpIn := hcps ▸ hr
    rcases List.mem_append.1 this with h | h
    · exact h
    · exact absurd (List.mem_map_of_mem h) hnot
  have hnd : (parsed.map (·.id)).Nodup := by
    have h1 : (e.cps.map (·.id)).Nodup := by rw [hinv.cps_ids]; exact List.nodup_range
    have h1' : ((parsed ++ e.s.cpIn).map (·.id)).Nodup := hcps ▸ h1
    rw [List.map_append] at h1'
    exact (List.nodup_append.1 h1').1
  have hf := filter_flatMap_expect e.s.log2 parsed hnd r hrp
  have htile' : (e.issued.map MemReq.key) = parsed.flatMap (expectTx e.s.log2) := htile
  rw [← htile', List.filter_map] at hf
  have := congrArg (List.map fun x : Nat × Nat × Nat × Bool => (x.2.1, x.2.2.1, x.2.2.2)) hf
  simp only [List.map_map, expectTx] at this
  exact this

example : (reach 2 2 4 demoOps).issued.map (fun q => (q.owner, q.addr, q.len, q.write)) =
    [(0, 6, 2, true), (0, 8, 4, true), (0, 12, 1, true), (1, 17, 3, false)] ∧
    (reach 2 2 4 demoOps).cps.map (fun r => (r.id, r.addr, r.len)) = [(0, 6, 7), (1, 17, 3)] := by decide +kernel

/-- **Run level: a copy completes only after ALL its transactions were handed to the memory and
    answered.** Under a memory side that answers only what it has taken, each once (no `inject`):
    for every completed copy, every transaction ever issued for it has been handed to the memory
    (`seen`), is no longer outstanding there, its answer is not waiting in the port and it is not
    pending in the engine — so with `dma_transactions_tile` the memory performed, before the
    completion, exactly the pieces of the copy's range, each once. -/
theorem dma_completed_copy_transactions (log2 maxReq memCap : Nat) (ops : List EnvOp)
    (hops : ∀ op ∈ ops, op.isInject = false) :
    let e := reach log2 maxReq memCap ops
    ∀ c ∈ e.s.completed, ∀ q ∈ e.issued, q.owner = c →
      q ∈ e.seen ∧ q ∉ e.outstanding ∧ q.id ∉ e.s.memIn ∧ q.id ∉ pendIds e.s ∧
      q ∉ e.s.memOut ∧ q ∉ e.s.toMem := by
  intro e c hc q hq hown
  have hinv := dma_inv log2 maxReq memCap ops
  obtain ⟨_, hids, hpend⟩ := Env.run_tx (Env.init_tx log2 maxReq memCap) ops
  have hflow := Env.run_flow (Env.init_flow log2 maxReq memCap) (Env.init_inv log2 maxReq memCap) ops hops
  have hex := (dma_exactly_once log2 maxReq memCap ops).2.2.2
  have hnp : q.id ∉ pendIds e.s := by
    intro hp
    obtain ⟨q', hq', hid⟩ := List.mem_map.1 hp
    have hndi : (e.issued.map (·.id)).Nodup := by
      have : e.issued.map (·.id) = List.range e.s.nextId := hids
      rw [this]; exact List.nodup_range
    have : q' = q := nodup_map_inj hndi (hpend q' hq') hq hid
    subst this
    exact hex q' hq' (hown ▸ hc)
  have hfl : ∀ x ∈ fl e.s e.outstanding, x ∈ pendIds e.s := hflow.f.sub
  have h1 : q ∉ e.s.toMem := fun h => hnp (hfl _ (by simp only [fl, List.mem_append, List.mem_map]; exact .inl (.inl (.inl ⟨q, h, rfl⟩))))
  have h2 : q ∉ e.s.memOut := fun h => hnp (hfl _ (by simp only [fl, List.mem_append, List.mem_map]; exact .inl (.inl (.inr ⟨q, h, rfl⟩))))
  have h3 : q ∉ e.outstanding := fun h => hnp (hfl _ (by simp only [fl, List.mem_append, List.mem_map]; exact .inl (.inr ⟨q, h, rfl⟩)))
  have h4 : q.id ∉ e.s.memIn := fun h => hnp (hfl _ (by simp only [fl, List.mem_append]; exact .inr h))
  refine ⟨?_, h3, h4, hnp, h2, h1⟩
  have : q ∈ e.seen ++ e.s.memOut ++ e.s.toMem := hq
  simp only [List.mem_append] at this
  rcases this with (h | h) | h
  · exact h
  · exact absurd h h2
  · exact absurd h h1

example : (reach 2 2 4 demoOps).s.completed = [1, 0] ∧ (reach 2 2 4 demoOps).seen.length = 4 ∧
    (reach 2 2 4 demoOps).outstanding = [] ∧ (reach 2 2 4 demoOps).s.memIn = [] := by decide +kernel

/-! ## Part 2 — the closed copy system

`reachSys c ops` is the state of the closed system `Sys` (`MgpuModel/C11Sys.lean`: the driver's copy
middleware, the command processor and the DMA engine — the three tick-exact component models —
wired together with a byte memory, the caches' dirty data and the page table) after an ARBITRARY
schedule `ops` of moves: the application enqueues copies, a component ticks, a message is handed
from one component to the next, the memory takes / performs-and-answers a transaction (any order),
a cache is flushed and acknowledges, a kernel writes into a cache. The same `Sys.step` is run
against the real `driver.Driver`, `cp.CommandProcessor` and `cp.DMAEngine` wired together by hand
(`c11 sys` case lines). -/


/-- **Inside the closed system every component is in a reachable state of its own model**: the
    driver part is `reachMq …`, the command-processor part `reachCp …`, the DMA part `reach …` for
    suitable move lists, and the memory never injects a bogus answer. Hence every component theorem
    (`mq_*`, `mq_fair_*`, `cp_*`, `dma_*`, `dma_transactions_tile`, …) holds inside the closed
    system — the environments they quantify over are instantiated by the neighbouring components. -/
theorem sys_components_reachable (c : SysCfg) (ops : List SysOp) :
    ∃ mo co dops,
      (reachSys c ops).mq = reachMq 1 c.cycH2D c.cycD2H c.nQueues c.warm mo ∧
      (reachSys c ops).cp = reachCp c.nCaches c.cin c.cdrv c.cdma c.ccache co ∧
      (reachSys c ops).dma = reach c.log2 c.maxReq c.memCap dops ∧ ∀ o ∈ dops, o.isInject = false :=
  Sys.Comp.run ops (Sys.Comp.init c)

/-- a page table with two 64-byte pages on non-adjacent frames, one dirty buffer over both -/
def demoSysCfg : SysCfg :=
  { pt := [⟨4096, 65536, 64⟩, ⟨4160, 131072, 64⟩], bufs := [{ start := 4096, size := 128, dirty := true }],
    nCaches := 1, nQueues := 1, warm := true, log2 := 4, cycH2D := 0, cycD2H := 0 }

/-- an H2D copy of 40 bytes at 4140 (20 bytes in each page; needs a flush), driven to completion -/
def demoSysOps : List SysOp :=
  [.enq 0 true 4140 40 3, .drvTick, .drvTick, .toCp, .cpTick, .cacheTake 1, .cacheAck 0, .cpTick, .toDrv,
   .drvTick, .drvTick, .toCp, .toCp, .cpTick, .cpTick, .toDma, .toDma, .dmaTick, .dmaTick, .dmaTick, .dmaTick, .dmaTick,
   .memTake 9, .memDo 3, .memDo 0, .memDo 1, .memDo 0, .dmaTick, .dmaTick, .dmaTick, .dmaTick, .dmaTick, .dmaTick,
   .dmaOut, .toCpRsp, .toCpRsp, .cpTick, .cpTick, .toDrv, .toDrv, .drvTick, .drvTick]

/-- **End to end, per copy request: the bytes arrive exactly once, and before the completion is
    reported.** In every reachable state of the closed system, whenever the command processor has
    received the DMA engine's completion for copy request `d` (only then can it answer the driver,
    `cp_copies_answered_once`, and only after all answers of a command does the driver complete it,
    `mq_complete_exactly_once`): `d` is the `d`-th clone the command processor forwarded, made from
    driver request `rq`, which carries page piece `p` of its command (`pieces pt`, hence
    `pieces_tile`: physical address, host-buffer offset and length of one page's part of the range);
    the transactions the memory was handed for `d` are, in order, EXACTLY the `2^log2`-unit pieces of
    the physical range `[p.pa, p.pa + p.len)` — writes for H2D, reads for D2H; every one of them has
    been performed by the memory (same id, address, direction); and no transaction is ever
    performed twice. -/
theorem sys_copy_transactions_end_to_end (c : SysCfg) (ops : List SysOp) :
    let s := reachSys c ops
    ∀ d ∈ s.cp.answered,
      ∃ (cl : CpClone) (rq : MqReq) (p : Piece),
        s.cp.dmaSeen[d]? = some cl ∧ s.mq.seen[cl.orig]? = some rq ∧ s.pieceOf rq = some p ∧
        (s.dma.seen.filter (fun q => q.owner == d)).map (fun q => (q.addr, q.len, q.write)) =
          (splitBy (2 ^ s.dma.s.log2) (Nat.pow_pos (by decide)) p.pa p.len).map
            (fun x => (x.1, x.2, mqKindToDma p.cmd.kind == Kind.h2d)) ∧
        (∀ q ∈ s.dma.seen, q.owner = d →
          ∃ t ∈ s.mlog, t.id = q.id ∧ t.addr = q.addr ∧ t.write = q.write ∧ t.owner = d ∧ t.len = q.len) ∧
        (s.mlog.map (·.id)).Nodup := by
  intro s d hd
  obtain ⟨mo, co, dops, hmq, hcp, hdma, hnoinj⟩ := sys_components_reachable c ops
  have hl : s.LinkInv := Sys.LinkInv.run ops (Sys.LinkInv.init c)
  have hm : s.MemInv := Sys.MemInv.run ops (Sys.MemInv.init c)
  have hdma' : s.dma = reach c.log2 c.maxReq c.memCap dops := hdma
  obtain ⟨_, E2, E3, _⟩ := dma_exactly_once c.log2 c.maxReq c.memCap dops
  have hinv := dma_inv c.log2 c.maxReq c.memCap dops
  have htile := dma_transactions_tile c.log2 c.maxReq c.memCap dops
  have hcomp := dma_completed_copy_transactions c.log2 c.maxReq c.memCap dops hnoinj
  have htx : (reach c.log2 c.maxReq c.memCap dops).TxInv := Env.run_tx (Env.init_tx c.log2 c.maxReq c.memCap) dops
  rw [← show s.dma = reach c.log2 c.maxReq c.memCap dops from hdma'] at E2 E3 hinv htile hcomp htx
  have hids := htx.ids
  -- the completion reached the command processor, so the DMA engine had completed `d`
  have hdr : d ∈ s.dma.drained := by rw [← hl.wire]; exact List.mem_append_left _ hd
  have hdc : d ∈ s.dma.s.completed := by
    rw [E2]; exact List.mem_append_left _ (List.mem_append_left _ hdr)
  obtain ⟨⟨r, hr, hrid⟩, _, hnotin⟩ := E3 d hdc
  -- `r` is the `d`-th copy request
  have hrd : s.dma.cps[d]? = some r := by
    obtain ⟨i, hi⟩ := List.mem_iff_getElem?.1 hr
    have h1 : (s.dma.cps.map (·.id))[i]? = some d := by rw [List.getElem?_map, hi]; simp [hrid]
    rw [hinv.cps_ids] at h1
    have hlt : i < s.dma.nextCp := by
      apply Decidable.byContradiction; intro hn
      rw [List.getElem?_eq_none (by simp; omega)] at h1; cases h1
    rw [List.getElem?_range hlt] at h1
    cases h1; exact hi
  obtain ⟨cl, rq, p, h1, h2, h3, h4⟩ := hl.pay d r hrd
  have hseen_nd : (s.dma.seen.map (·.id)).Nodup := by
    have : (s.dma.issued.map (·.id)).Nodup := by rw [hids]; exact List.nodup_range
    unfold Env.issued at this
    rw [List.map_append, List.map_append, List.append_assoc] at this
    exact (List.nodup_append.1 this).1
  refine ⟨cl, rq, p, h1, h2, h3, ?_, ?_, ?_⟩
  · have ht := htile r hr (hrid ▸ hnotin)
    rw [h4] at ht
    simp only at ht
    rw [← ht]
    congr 1
    unfold Env.issued
    rw [List.filter_append, List.filter_append]
    have e1 : s.dma.s.memOut.filter (fun q => q.owner == d) = [] := by
      rw [List.filter_eq_nil_iff]
      intro q hq ho
      have hiss : q ∈ s.dma.issued := by unfold Env.issued; simp [hq]
      exact (hcomp d hdc q hiss (by simpa using ho)).2.2.2.2.1 hq
    have e2 : s.dma.s.toMem.filter (fun q => q.owner == d) = [] := by
      rw [List.filter_eq_nil_iff]
      intro q hq ho
      have hiss : q ∈ s.dma.issued := by unfold Env.issued; simp [hq]
      exact (hcomp d hdc q hiss (by simpa using ho)).2.2.2.2.2 hq
    rw [e1, e2]; simp
  · intro q hq hown
    have hiss : q ∈ s.dma.issued := by unfold Env.issued; simp [hq]
    have hno := (hcomp d hdc q hiss hown).2.1
    have hidno : q.id ∉ s.dma.outstanding.map (·.id) := by
      intro hin
      obtain ⟨q', hq', he⟩ := List.mem_map.1 hin
      have : q' = q := nodup_map_inj hseen_nd (hm.outs q' hq') hq he
      exact hno (this ▸ hq')
    have hin : q.id ∈ s.mlog.map (·.id) ++ s.dma.outstanding.map (·.id) :=
      hm.perm.mem_iff.2 (List.mem_map_of_mem hq)
    rcases List.mem_append.1 hin with hin | hin
    · obtain ⟨t, ht, hte⟩ := List.mem_map.1 hin
      obtain ⟨q', hq', g1, g2, g3, g4, _, g6⟩ := hm.cont t ht
      have : q' = q := nodup_map_inj hseen_nd hq' hq (g1.trans hte)
      subst this
      exact ⟨t, ht, hte, g2.symm, g3.symm, by rw [← g4, hown], g6.symm⟩
    · exact absurd hin hidno
  · have := hm.perm.nodup_iff.2 hseen_nd
    exact (List.nodup_append.1 this).1

example : (reachSys demoSysCfg demoSysOps).cp.answered = [1, 0] ∧
    (reachSys demoSysCfg demoSysOps).mq.s.completed = [(0, 0)] ∧
    (reachSys demoSysCfg demoSysOps).mlog.map (fun t => (t.owner, t.addr, t.bytes.length, t.write)) =
      [(1, 131088, 4, true), (0, 65580, 4, true), (1, 131072, 16, true), (0, 65584, 16, true)] := by
  decide +kernel

/-- **End to end: the RIGHT bytes arrive at the RIGHT place.** Every transaction the memory has
    performed in the closed system belongs to a copy request `rq` of the driver (found through the
    clone the command processor made and the request it was made from) carrying page piece `p` of a
    copy command; a WRITE stored, at its address `t.addr`, exactly the bytes of the command's host
    buffer at offset `p.off + (t.addr − p.pa)` — the position of that physical byte inside the
    command's range (`pieces_tile`: `p.pa` is the image of virtual address `addr + p.off`); the bytes
    a READ observed have been delivered into the host buffer of ITS command at that same offset. With
    `sys_copy_transactions_end_to_end` (the transactions of a completed request tile its piece, each
    performed once) and `pieces_tile` (the pieces tile the range): a completed H2D copy has stored
    byte `i` of its data at the physical image of `addr + i`, and a completed D2H copy has
    filled every byte of its host buffer from there — through the real hand-over chain
    driver → command processor → DMA engine → memory, for every schedule. -/
theorem sys_bytes_arrive (c : SysCfg) (ops : List SysOp) :
    let s := reachSys c ops
    ∀ t ∈ s.mlog, ∃ (rq : MqReq) (p : Piece), s.reqOfDma t.owner = some rq ∧ s.pieceOf rq = some p ∧
      (t.write = true → t.bytes = (p.cmd.data.drop (p.off + (t.addr - p.pa))).take t.len) ∧
      (t.write = false → ∀ i x, t.bytes[i]? = some x →
        (p.cmd.q, p.seq, p.off + (t.addr - p.pa) + i, x) ∈ s.host) :=
  (Sys.DataInv.run ops (Sys.DataInv.init c)).data

/-- the demo's H2D copy of 40 bytes at 4140: byte `i` of the payload is `h2dByte 4143 i`; after the run
    the 20 bytes at the end of frame 65536 and the 20 bytes at the start of frame 131072 hold the
    payload in order, the bytes around them are untouched -/
example : (List.range 22).map (fun i => (reachSys demoSysCfg demoSysOps).mem.get (65579 + i)) =
      memByte 65579 :: (List.range 20).map (h2dByte 4143) ++ [memByte 65600] ∧
    (List.range 21).map (fun i => (reachSys demoSysCfg demoSysOps).mem.get (131072 + i)) =
      (List.range 20).map (fun i => h2dByte 4143 (20 + i)) ++ [memByte 131092] := by
  decide +kernel

/-- **End to end, per command: a copy command completes only after the command processor has
    received the DMA engine's completion for EVERY one of its page pieces.** In every reachable state
    of the closed system, for every completed command `(q, seq)` and every copy request `r` the driver
    created for it (one per page piece; `mq_requests_of_command` / `mq_reqsOf_spec` list them): there is
    a DMA copy request `d` — the `d`-th clone the command processor forwarded — that was made from `r`
    itself (`reqOfDma d = some r`: the request travelled driver port → command processor → clone →
    DMA engine unchanged) and whose completion the command processor has received. With
    `sys_copy_transactions_end_to_end` (the memory performed exactly the `2^log2`-unit pieces of that
    page piece, each once, before that completion) and `sys_bytes_arrive` (with the right bytes at the
    right offsets): **each copy completes exactly once (`mq_complete_exactly_once`) and only after all
    of its memory transactions completed** — proved on the composed system, for every schedule. -/
theorem sys_completed_command_end_to_end (c : SysCfg) (ops : List SysOp) :
    let s := reachSys c ops
    ∀ q seq, (q, seq) ∈ s.mq.s.completed → ∀ r ∈ s.mq.reqsOf q seq, r.kind ≠ .flush →
      ∃ d ∈ s.cp.answered, s.reqOfDma d = some r := by
  intro s q seq hcomp r hr hk
  obtain ⟨mo, co, dops, hmq, hcp, _, _⟩ := sys_components_reachable c ops
  have hmq' : s.mq = reachMq 1 c.cycH2D c.cycD2H c.nQueues c.warm mo := hmq
  have hcp' : s.cp = reachCp c.nCaches c.cin c.cdrv c.cdma c.ccache co := hcp
  have hk1 : s.CmdInv := Sys.CmdInv.run ops (Sys.CmdInv.init c)
  -- the driver processed an answer for `r`
  have hans : r.id ∈ s.mq.s.answered := by
    have := mq_completed_reqs_answered 1 c.cycH2D c.cycD2H c.nQueues c.warm mo q seq
    rw [← hmq'] at this
    exact this hcomp r hr
  -- it was delivered by the command processor for the request at the position it names
  obtain ⟨m, hm, rq, hseen, hid⟩ := hk1.fed r.id (List.mem_append_left _ hans)
  -- that request is `r` itself: ids are never reused
  have hrq : rq = r := by
    have h1 := mq_seen_created 1 c.cycH2D c.cycD2H c.nQueues c.warm mo
    have h2 := mq_created_ids_nodup 1 c.cycH2D c.cycD2H c.nQueues c.warm mo
    rw [← hmq'] at h1 h2
    have hrc : r ∈ s.mq.s.created := (List.mem_filter.1 hr).1
    exact nodup_map_inj h2 (h1 rq (List.mem_of_getElem? hseen)) hrc hid
  subst hrq
  -- the answer carries the accepted request: same kind, not a flush
  have hreq := cp_answers_are_requests c.nCaches c.cin c.cdrv c.cdma c.ccache co
  have hclone := cp_answer_has_clone c.nCaches c.cin c.cdrv c.cdma c.ccache co
  rw [← hcp'] at hreq hclone
  have hm' : m ∈ s.cp.drained ++ s.cp.s.drvOut := List.mem_append_left _ hm
  have hsent := hk1.sent m.id rq hseen
  rw [hreq m hm'] at hsent
  have hkind : m.kind = mqKindToCp rq.kind := by
    have := Option.some.inj hsent
    rw [this]
  have hnf : m.kind ≠ .flush := by
    rw [hkind]; intro h
    cases hkk : rq.kind <;> simp [hkk, mqKindToCp] at h
    exact hk hkk
  obtain ⟨d, hd, hds⟩ := hclone m hm' hnf
  refine ⟨d, hd, ?_⟩
  unfold Sys.reqOfDma Sys.reqOfCp
  rw [hds]
  exact hseen

example : (reachSys demoSysCfg demoSysOps).mq.s.completed = [(0, 0)] ∧
    ((reachSys demoSysCfg demoSysOps).mq.reqsOf 0 0).map (fun r => (r.id, r.kind, r.idx)) =
      [(0, .flush, 0), (1, .h2d, 0), (2, .h2d, 1)] ∧
    ((reachSys demoSysCfg demoSysOps).reqOfDma 0).map (·.id) = some 1 ∧
    ((reachSys demoSysCfg demoSysOps).reqOfDma 1).map (·.id) = some 2 := by decide +kernel

end C11
