import MgpuProofs.C02LiveLemmas
import MgpuProofs.Props.C02Wf
/-! # C02 — liveness of the wavefront machine: timing mode does complete

The theorems of `Props/C02Wf.lean` are conditional: *if* the wavefront reaches `WfCompleted`, its
registers / owned memory / instruction trace are the emulator's. The property speaks of "identical
retired instruction counts", i.e. it presupposes that timing mode completes. Here: for a hazard-free
program on which the emulator terminates, the compute unit's rules (`tstep`) never wedge the
wavefront — from every reachable unfinished state some compute-unit event is enabled (once the issue
gate lets the decoded instruction through), a complete run exists from every reachable state, and
the concrete greedy schedule the model driver uses reaches `WfCompleted` within `64·fuel + 24`
events.

Two extra ingredients:

* a timing-only invariant of the instruction buffer (`LInv`, `MgpuProofs/C02LiveLemmas.lean`): the
  buffer is a whole number of 64-byte lines; between two instructions the PC lies in the buffer's
  first line (or the buffer is empty and nothing was ever fetched); a decoded / running instruction
  lies inside the buffer. It is what makes `removeStaleInstBuffer` (`buf = buf[64:]`) never slice a
  buffer shorter than 64 bytes, and the missing-bytes case always have room to fetch (`< 256`).
* the hypothesis `Prog.NoWrap`: `PC + size` never wraps around 2^64. The model keeps
  `InstBufferStartPC + len(InstBuffer)` and `PC - InstBufferStartPC` in unbounded naturals while the
  compute unit computes them in uint64; they agree unless the PC wraps. Without it the MODEL wedges
  (`wavefront_wedge_witness`) — an artefact of the model's arithmetic at the last instruction of the
  address space, not a behaviour of the compute unit. -/
namespace C02.Wf

/-- **wavefront_never_stuck** (no deadlock). Take a program whose instructions behave as `emu.ALU`
    instructions (`Prog.WF`), whose PC never wraps (`NoWrap`), and on which the emulator terminates
    within `fuel` instructions passing the hazard check. Let the wavefront have run under ANY issue
    gate, fetch timing, memory order and foreign writes (`trun … evs = some T`) and not be
    `WfCompleted` yet. Then the compute unit's rules allow a next compute-unit event (one of the
    eleven of `greedyOrder`, not a foreign write) as soon as the issue gate is open — `gate ≡ true`
    stands for "the scoreboard entry / the execution unit eventually becomes free", which is outside
    this one-wavefront machine. So no rule of `tstep` can wedge a wavefront: `s_waitcnt` / `s_endpgm` /
    an empty FLAT access that wait for the counters always have an access in flight that can be
    performed or returned, the write stage (`UpdatePCAndSetReady`, `removeStaleInstBuffer`) never
    panics, and a wavefront whose next instruction is not in the buffer can always fetch. -/
theorem wavefront_never_stuck (P : Prog) (hP : P.WF) (hNW : P.NoWrap) (gate : TState → Inst → Bool)
    (pc : Nat) (regs : RF) (mem : Mem) (fuel : Nat)
    (hhaz : hazardFreeRun P fuel (einit pc regs mem, {}) = true)
    (evs : List Ev) (T : TState) (hrun : trun P gate (tinit pc regs mem) evs = some T)
    (hnd : T.ph ≠ .done) :
    ∃ e T', e ∈ greedyOrder ∧ isEnv e = false ∧ tstep P (fun _ _ => true) T e = some T' := by
  obtain ⟨hs, hF, hL⟩ := live_run hP hNW hhaz evs _ T (sim_init pc regs mem) (finv_init pc regs mem)
    (linv_init pc regs mem) hrun
  obtain ⟨e, T', _, hm, ht, _⟩ := greedy_step hP hhaz rfl hs hF hL hnd
  exact ⟨e, T', hm, greedyOrder_not_env e hm, ht⟩

/-- **fetch_buffer_invariant.** The timing-only facts behind the no-deadlock theorem, for every
    schedule the rules accept (any gate): the instruction buffer is a whole number of 64-byte lines;
    while the wavefront is `WfReady` and the buffer is non-empty, the PC lies in the buffer's first
    line (`removeStaleInstBuffer` did its job); a decoded `InstToIssue` lies completely inside the
    buffer. Hence at most two more lines are ever needed to decode (the buffer never has to grow
    beyond 128 bytes for this wavefront; the 256-byte cap of the fetch arbiter is never the obstacle). -/
theorem fetch_buffer_invariant (P : Prog) (hP : P.WF) (hNW : P.NoWrap) (gate : TState → Inst → Bool)
    (pc : Nat) (regs : RF) (mem : Mem) (fuel : Nat)
    (hhaz : hazardFreeRun P fuel (einit pc regs mem, {}) = true)
    (evs : List Ev) (T : TState) (hrun : trun P gate (tinit pc regs mem) evs = some T) :
    T.ib.length % 64 = 0 ∧
    (T.ph = .ready → T.ib ≠ [] → T.ibStart ≤ T.pc ∧ T.pc < T.ibStart + 64) ∧
    (∀ i, T.toIssue = some i → T.ibStart ≤ T.pc ∧ T.pc + i.size ≤ T.ibStart + T.ib.length) := by
  obtain ⟨_, _, hL⟩ := live_run hP hNW hhaz evs _ T (sim_init pc regs mem) (finv_init pc regs mem)
    (linv_init pc regs mem) hrun
  refine ⟨hL.mul, ?_, ?_⟩
  · intro hph hne
    rcases hL.rdy hph with h | h
    · exact h
    · exact absurd h.1 hne
  · intro i hi
    obtain ⟨_, h2, h3, _⟩ := hL.tok i hi
    exact ⟨h2, h3⟩

/-- **greedy_schedule_completes.** From any reachable state `T` (any gate, any schedule so far) the
    concrete scheduler "try complete, exec, issue, decode, retV, retS 0, serveV 0, serveS 0, fetchRet,
    fetch, resync in this order and take the first event the rules accept" (`greedy`, issue gate open)
    is a run of the machine, ends in `WfCompleted`, and takes at most `wfMeasure fuel T` events —
    `64 ·` (instructions the emulator still has to execute) `+ 16 ·` (phase within the instruction)
    `+` (2 per unperformed, 1 per performed access in flight) `+` (fetch events, ≤ 9). This is the
    schedule the model driver uses to produce complete witnesses. -/
theorem greedy_schedule_completes (P : Prog) (hP : P.WF) (hNW : P.NoWrap) (gate : TState → Inst → Bool)
    (pc : Nat) (regs : RF) (mem : Mem) (fuel : Nat)
    (hhaz : hazardFreeRun P fuel (einit pc regs mem, {}) = true)
    (evs : List Ev) (T : TState) (hrun : trun P gate (tinit pc regs mem) evs = some T)
    (k : Nat) (hk : wfMeasure fuel T < k) :
    trun P (fun _ _ => true) T (greedy P k T).1 = some (greedy P k T).2 ∧
    (greedy P k T).2.ph = .done ∧ (greedy P k T).1.length ≤ wfMeasure fuel T := by
  obtain ⟨hs, hF, hL⟩ := live_run hP hNW hhaz evs _ T (sim_init pc regs mem) (finv_init pc regs mem)
    (linv_init pc regs mem) hrun
  obtain ⟨h1, h2⟩ := greedy_done hP hNW hhaz rfl k T hs hF hL hk
  exact ⟨greedy_trun k T, h1, h2⟩

/-- **wavefront_can_complete** (possibility liveness). From every reachable state of a hazard-free
    program on which the emulator terminates, some continuation the rules accept (issue gate open)
    reaches `WfCompleted`, within `wfMeasure fuel T` events: the conditional theorems of
    `Props/C02Wf.lean` ("if the wavefront completes …") are never vacuous because of a deadlock. -/
theorem wavefront_can_complete (P : Prog) (hP : P.WF) (hNW : P.NoWrap) (gate : TState → Inst → Bool)
    (pc : Nat) (regs : RF) (mem : Mem) (fuel : Nat)
    (hhaz : hazardFreeRun P fuel (einit pc regs mem, {}) = true)
    (evs : List Ev) (T : TState) (hrun : trun P gate (tinit pc regs mem) evs = some T) :
    ∃ evs' T', trun P (fun _ _ => true) T evs' = some T' ∧ T'.ph = .done ∧
      evs'.length ≤ wfMeasure fuel T := by
  obtain ⟨h1, h2, h3⟩ := greedy_schedule_completes P hP hNW gate pc regs mem fuel hhaz evs T hrun
    (wfMeasure fuel T + 1) (Nat.lt_succ_self _)
  exact ⟨_, _, h1, h2, h3⟩

/-- **greedy_schedule_completes_from_start.** From the initial state the greedy schedule completes
    within `64·fuel + 24` events, `fuel` the bound on the emulator's instruction count. -/
theorem greedy_schedule_completes_from_start (P : Prog) (hP : P.WF) (hNW : P.NoWrap)
    (pc : Nat) (regs : RF) (mem : Mem) (fuel : Nat)
    (hhaz : hazardFreeRun P fuel (einit pc regs mem, {}) = true) :
    trun P (fun _ _ => true) (tinit pc regs mem) (greedy P (fuel * 64 + 25) (tinit pc regs mem)).1
      = some (greedy P (fuel * 64 + 25) (tinit pc regs mem)).2 ∧
    (greedy P (fuel * 64 + 25) (tinit pc regs mem)).2.ph = .done ∧
    (greedy P (fuel * 64 + 25) (tinit pc regs mem)).1.length ≤ fuel * 64 + 24 := by
  have h := greedy_schedule_completes P hP hNW (fun _ _ => true) pc regs mem fuel hhaz [] _ rfl
    (fuel * 64 + 25) (by rw [wfMeasure_init]; omega)
  rw [wfMeasure_init] at h
  exact h

/-- **timing_terminates_with_emulator_result.** Hazard-free program, emulator terminates within `fuel`
    instructions, PC does not wrap. Then (1) timing mode CAN complete: there is a complete run of the
    wavefront machine of at most `64·fuel + 24` events; and (2) EVERY complete timing run — any issue
    gate, fetch timing, memory order, foreign writes — ends with the emulator's registers, owned
    memory and sequence of executed instructions (so in particular the same retired-instruction
    count: `T.trace.length = E.trace.length`). -/
theorem timing_terminates_with_emulator_result (P : Prog) (hP : P.WF) (hNW : P.NoWrap)
    (pc : Nat) (regs : RF) (mem : Mem) (fuel : Nat)
    (hhaz : hazardFreeRun P fuel (einit pc regs mem, {}) = true) :
    (∃ evs T, trun P (fun _ _ => true) (tinit pc regs mem) evs = some T ∧ T.ph = .done ∧
      evs.length ≤ fuel * 64 + 24) ∧
    (∀ (gate : TState → Inst → Bool) (evs : List Ev) (T : TState),
      trun P gate (tinit pc regs mem) evs = some T → T.ph = .done →
      ∃ n E, erun P n (einit pc regs mem) = some E ∧ E.done = true ∧ T.regs = E.regs ∧
        (∀ a, P.own a = true → T.mem a = E.mem a) ∧ T.trace = E.trace ∧
        T.trace.length = E.trace.length) := by
  refine ⟨?_, ?_⟩
  · obtain ⟨h1, h2, h3⟩ := greedy_schedule_completes_from_start P hP hNW pc regs mem fuel hhaz
    exact ⟨_, _, h1, h2, h3⟩
  · intro gate evs T hrun hdone
    obtain ⟨n, E, h1, h2, h3, h4, h5⟩ :=
      wavefront_timing_equals_emulator P hP gate pc regs mem fuel hhaz evs T hrun hdone
    exact ⟨n, E, h1, h2, h3, h4, h5, by rw [h5]⟩

/-! ## the `NoWrap` hypothesis is needed — in the model -/

/-- `s_nop` in the last four bytes of the 64-bit address space, `s_endpgm` at address 0 -/
def PWrap : Prog :=
  { cprog 0 [.endp, .nop] noForeign with
    imem := fun a => if a = PCM - 4 then 1 else if a = PCM - 2 then 238 else if a = 2 then 238 else 0 }

/-- the wrap-around program meets the instruction hypotheses (same decoder as `cprog`) -/
theorem PWrap_wf : PWrap.WF :=
  let h := cprog_wf 0 [.endp, .nop] noForeign
  ⟨rfl, h.inst, h.pfx⟩

def evsWrap : List Ev :=
  [.fetch, .fetchRet, .decode, .issue, .complete, .fetch, .fetchRet, .fetch, .fetchRet, .fetch, .fetchRet]

/-- **wavefront_wedge_witness.** A wedge of the MODEL, outside `NoWrap`: `s_nop` at 2^64 − 4 followed
    (after the PC wraps) by `s_endpgm` at 0. The emulator terminates after two instructions and the
    run is hazard-free, but after the `s_nop` the wavefront's PC is 0 while the buffer starts at
    2^64 − 64: the model's `PC ≥ InstBufferStartPC` (unbounded naturals) fails, three more fetches
    fill the buffer to 256 bytes, and then NO compute-unit event is enabled under any gate. The real
    compute unit computes `PC - InstBufferStartPC` and `InstBufferStartPC + len` in uint64, where the
    difference wraps to 64 and the next fetch address to 0, and goes on: this is a limit of the model's
    arithmetic (the reason for the `NoWrap` hypothesis), not a finding about `removeStaleInstBuffer`. -/
theorem wavefront_wedge_witness :
    PWrap.WF ∧ hazardFreeRun PWrap 2 (einit (PCM - 4) demoRegs demoMem, {}) = true ∧
    ∃ T, trun PWrap (fun _ _ => true) (tinit (PCM - 4) demoRegs demoMem) evsWrap = some T ∧
      T.ph = .ready ∧ T.pc = 0 ∧ T.ib.length = 256 ∧
      ∀ (gate : TState → Inst → Bool) (e : Ev), isEnv e = false → tstep PWrap gate T e = none := by
  refine ⟨PWrap_wf, by decide +kernel, ?_⟩
  have h : (trun PWrap (fun _ _ => true) (tinit (PCM - 4) demoRegs demoMem) evsWrap).map
      (fun T => (T.ph, T.pc, T.ib.length, wedged T)) = some (.ready, 0, 256, true) := by decide +kernel
  cases hT : trun PWrap (fun _ _ => true) (tinit (PCM - 4) demoRegs demoMem) evsWrap with
  | none => rw [hT] at h; cases h
  | some T =>
    rw [hT] at h
    simp only [Option.map_some, Option.some.injEq, Prod.mk.injEq] at h
    exact ⟨T, rfl, h.1, h.2.1, h.2.2.1, fun gate e he => wedged_spec h.2.2.2 gate e he⟩

/-- the no-deadlock statement without the `NoWrap` hypothesis -/
def wavefront_never_stuck_without_nowrap : Prop :=
  ∀ (P : Prog), P.WF → ∀ (gate : TState → Inst → Bool) (pc : Nat) (regs : RF) (mem : Mem) (fuel : Nat),
    hazardFreeRun P fuel (einit pc regs mem, {}) = true →
    ∀ (evs : List Ev) (T : TState), trun P gate (tinit pc regs mem) evs = some T → T.ph ≠ .done →
    ∃ e T', isEnv e = false ∧ tstep P (fun _ _ => true) T e = some T'

/-- refuted by `wavefront_wedge_witness` -/
theorem wavefront_never_stuck_without_nowrap_refuted : ¬ wavefront_never_stuck_without_nowrap := by
  intro h
  obtain ⟨hwf, hhaz, T, hrun, hph, _, _, hw⟩ := wavefront_wedge_witness
  obtain ⟨e, T', he, ht⟩ := h PWrap hwf _ _ _ _ 2 hhaz evsWrap T hrun (by rw [hph]; decide)
  rw [hw _ e he] at ht
  cases ht

/-! ## non-vacuity: the straight-line program of `C02WfDemo`, and a loop -/

/-- the demo program is far from the end of the address space: the liveness theorems apply to it -/
theorem PGood_noWrap : PGood.NoWrap := cprog_noWrap _ _ _ (by decide)

/-- s4 := 0; s5 := 1; s6 := 3; loop: s4 += s5; scc := s4 < s6; branch back while scc; end -/
def csLoop : List CInst :=
  [.smov 4 0, .smov 5 1, .smov 6 3, .sadd 4 4 5, .scmp 4 6, .cbr 1 0xfffd, .endp]
def PLoop : Prog := cprog 0x1000 csLoop noForeign

/-- the loop program meets the instruction hypotheses -/
theorem PLoop_wf : PLoop.WF := cprog_wf _ _ _
/-- the loop program never wraps the PC -/
theorem PLoop_noWrap : PLoop.NoWrap := cprog_noWrap _ _ _ (by decide)

/-- the hypotheses hold: the emulator runs the loop three times (13 instructions), hazard-free -/
example : hazardFreeRun PLoop 13 (einit 0x1000 demoRegs demoMem, {}) = true := by decide +kernel
example : hazardFreeRun PLoop 12 (einit 0x1000 demoRegs demoMem, {}) = false := by decide +kernel
example : hazardFreeRun PGood 9 (einit 0x1000 demoRegs demoMem, {}) = true := by decide +kernel

/-- `wavefront_never_stuck` in the middle of a run: the load is in flight, `s_waitcnt` is issued and
    blocked (22 events of `evsGood`); the theorem's event here is `serveV 0` -/
example : (trun PGood (fun _ _ => true) (tinit 0x1000 demoRegs demoMem) (evsGood.take 23)).map
    (fun T => (T.ph, T.vm, (tstep PGood (fun _ _ => true) T .complete).isNone,
      (tstep PGood (fun _ _ => true) T (.serveV 0)).isSome)) = some (.issued, 1, true, true) := by
  decide +kernel
example (T : TState)
    (h : trun PGood (fun _ _ => true) (tinit 0x1000 demoRegs demoMem) (evsGood.take 23) = some T)
    (hnd : T.ph ≠ .done) :
    ∃ e T', e ∈ greedyOrder ∧ isEnv e = false ∧ tstep PGood (fun _ _ => true) T e = some T' :=
  wavefront_never_stuck PGood PGood_wf PGood_noWrap _ _ _ _ 9 (by decide +kernel) _ T h hnd

/-- `fetch_buffer_invariant`, `wavefront_can_complete` on the loop, from the state after the first
    taken branch (buffer dropped and re-based) -/
example (T : TState)
    (h : trun PLoop (fun _ _ => true) (tinit 0x1000 demoRegs demoMem)
      (greedy PLoop 26 (tinit 0x1000 demoRegs demoMem)).1 = some T) :
    ∃ evs' T', trun PLoop (fun _ _ => true) T evs' = some T' ∧ T'.ph = .done ∧
      evs'.length ≤ wfMeasure 13 T :=
  wavefront_can_complete PLoop PLoop_wf PLoop_noWrap _ _ _ _ 13 (by decide +kernel) _ T h
example : (trun PLoop (fun _ _ => true) (tinit 0x1000 demoRegs demoMem)
      (greedy PLoop 26 (tinit 0x1000 demoRegs demoMem)).1).map
    (fun T => (T.ph, T.pc, T.ib.length, T.ibStart, T.trace.length)) = some (.ready, 0x100c, 0, 0x1000, 6) := by
  decide +kernel

/-- `greedy_schedule_completes_from_start` on both programs, and the greedy schedules evaluated: 38
    events for the straight-line program (bound 600), 59 for the loop (bound 856); the loop ends with
    s4 = 3 -/
example : (greedy PGood (9 * 64 + 25) (tinit 0x1000 demoRegs demoMem)).2.ph = .done :=
  (greedy_schedule_completes_from_start PGood PGood_wf PGood_noWrap _ _ _ 9 (by decide +kernel)).2.1
example : (greedy PLoop (13 * 64 + 25) (tinit 0x1000 demoRegs demoMem)).2.ph = .done :=
  (greedy_schedule_completes_from_start PLoop PLoop_wf PLoop_noWrap _ _ _ 13 (by decide +kernel)).2.1
example : ((greedy PGood 600 (tinit 0x1000 demoRegs demoMem)).1.length,
    (greedy PGood 600 (tinit 0x1000 demoRegs demoMem)).2.ph) = (38, .done) := by decide +kernel
example : ((greedy PLoop 856 (tinit 0x1000 demoRegs demoMem)).1.length,
    (greedy PLoop 856 (tinit 0x1000 demoRegs demoMem)).2.ph,
    (greedy PLoop 856 (tinit 0x1000 demoRegs demoMem)).2.regs (sreg 4)) = (59, .done, 3) := by decide +kernel

/-- `greedy_schedule_completes` from the blocked `s_waitcnt` state above: measure 247, the greedy
    continuation takes 15 events -/
example (T : TState)
    (h : trun PGood (fun _ _ => true) (tinit 0x1000 demoRegs demoMem) (evsGood.take 23) = some T) :
    (greedy PGood (wfMeasure 9 T + 1) T).2.ph = .done ∧
      (greedy PGood (wfMeasure 9 T + 1) T).1.length ≤ wfMeasure 9 T :=
  (greedy_schedule_completes PGood PGood_wf PGood_noWrap _ _ _ _ 9 (by decide +kernel) _ T h _
    (Nat.lt_succ_self _)).2
example : (trun PGood (fun _ _ => true) (tinit 0x1000 demoRegs demoMem) (evsGood.take 23)).map
    (fun T => (wfMeasure 9 T, (greedy PGood 248 T).1.length, (greedy PGood 248 T).2.ph))
    = some (247, 15, .done) := by decide +kernel

/-- `fetch_buffer_invariant` on the loop, two events after the taken branch re-based the buffer:
    one line in the buffer, `WfReady`, PC 0x100c in the line at 0x1000 -/
example (T : TState)
    (h : trun PLoop (fun _ _ => true) (tinit 0x1000 demoRegs demoMem)
      (greedy PLoop 28 (tinit 0x1000 demoRegs demoMem)).1 = some T) :
    T.ib.length % 64 = 0 ∧
    (T.ph = .ready → T.ib ≠ [] → T.ibStart ≤ T.pc ∧ T.pc < T.ibStart + 64) ∧
    (∀ i, T.toIssue = some i → T.ibStart ≤ T.pc ∧ T.pc + i.size ≤ T.ibStart + T.ib.length) :=
  fetch_buffer_invariant PLoop PLoop_wf PLoop_noWrap _ _ _ _ 13 (by decide +kernel) _ T h
example : (trun PLoop (fun _ _ => true) (tinit 0x1000 demoRegs demoMem)
      (greedy PLoop 28 (tinit 0x1000 demoRegs demoMem)).1).map
    (fun T => (T.ph, T.pc, T.ib.length, T.ibStart)) = some (.ready, 0x100c, 64, 0x1000) := by
  decide +kernel

/-- an 8-byte instruction across a line boundary (bytes 60‥67): with one line in the buffer the
    decoder sees 4 bytes and refuses, the greedy schedule fetches the second line and goes on -/
def csCross : List CInst :=
  [.nop, .nop, .nop, .nop, .nop, .nop, .nop, .nop, .nop, .nop, .nop, .nop, .nop, .nop, .nop,
   .smov 4 0x200000, .endp]
def PCross : Prog := cprog 0x1000 csCross noForeign
/-- the line-crossing program meets the instruction hypotheses -/
theorem PCross_wf : PCross.WF := cprog_wf _ _ _
/-- the line-crossing program never wraps the PC -/
theorem PCross_noWrap : PCross.NoWrap := cprog_noWrap _ _ _ (by decide)

example : (greedy PCross (17 * 64 + 25) (tinit 0x1000 demoRegs demoMem)).2.ph = .done :=
  (greedy_schedule_completes_from_start PCross PCross_wf PCross_noWrap _ _ _ 17 (by decide +kernel)).2.1
example : ((greedy PCross 47 (tinit 0x1000 demoRegs demoMem)).1.drop 45,
    (greedy PCross 47 (tinit 0x1000 demoRegs demoMem)).2.pc,
    (greedy PCross 47 (tinit 0x1000 demoRegs demoMem)).2.ib.length,
    (tstep PCross (fun _ _ => true) (greedy PCross 47 (tinit 0x1000 demoRegs demoMem)).2 .decode).isNone,
    (greedy PCross 49 (tinit 0x1000 demoRegs demoMem)).1.drop 47,
    (tstep PCross (fun _ _ => true) (greedy PCross 49 (tinit 0x1000 demoRegs demoMem)).2 .decode).isSome)
    = ([.issue, .complete], 0x103c, 64, true, [.fetch, .fetchRet], true) := by decide +kernel

/-- `timing_terminates_with_emulator_result` on the loop: a complete timing run exists, and every
    complete timing run retires the emulator's 13 instructions -/
example : (∃ evs T, trun PLoop (fun _ _ => true) (tinit 0x1000 demoRegs demoMem) evs = some T ∧
      T.ph = .done ∧ evs.length ≤ 13 * 64 + 24) ∧
    (∀ (gate : TState → Inst → Bool) (evs : List Ev) (T : TState),
      trun PLoop gate (tinit 0x1000 demoRegs demoMem) evs = some T → T.ph = .done →
      ∃ n E, erun PLoop n (einit 0x1000 demoRegs demoMem) = some E ∧ E.done = true ∧ T.regs = E.regs ∧
        (∀ a, PLoop.own a = true → T.mem a = E.mem a) ∧ T.trace = E.trace ∧
        T.trace.length = E.trace.length) :=
  timing_terminates_with_emulator_result PLoop PLoop_wf PLoop_noWrap _ _ _ 13 (by decide +kernel)
example : (erun PLoop 13 (einit 0x1000 demoRegs demoMem)).map
    (fun E => (E.done, E.trace.length, E.regs (sreg 4))) = some (true, 13, 3) := by decide +kernel

end C02.Wf
