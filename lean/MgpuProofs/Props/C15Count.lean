import MgpuProofs.Props.C15
/-! # C15 — counting corollaries of the order / exactly-once theorems

For every configuration and every operation sequence: the reorder buffer never sends more
responses up than it accepted requests, and answered + still-buffered = not-discarded requests. -/
namespace C15

/-- **never more responses than requests**, at every point of every run -/
theorem responses_never_exceed_requests (c : Cfg) (ops : List Op) :
    (run c ops).delivered.length ≤ (run c ops).accepted.length := by
  have h := (responses_in_acceptance_order c ops).2.2
  simpa using h.length_le

/-- **conservation**: every request that was accepted and not discarded by a flush is either
    answered or still buffered — the two counts add up, nothing is dropped or invented -/
theorem answered_plus_buffered (c : Cfg) (ops : List Op) :
    (run c ops).delivered.length + (run c ops).txs.length = (run c ops).live.length := by
  have h := (responses_in_acceptance_order c ops).1
  have := congrArg List.length h
  simpa using this

example : (run demoCfg demoOps).delivered.length + (run demoCfg demoOps).txs.length = 3 := by decide

end C15
