import MgpuProofs.C01KernImg
/-! # C01 — two more SHIPPED kernels proved on the Lean emulator, for every size

* `reluKernel_correct` / `reluKernel_run` — `ReLUForward` of amd/benchmarks/dnn/layer_benchmarks/relu/kernels.hsaco
  (the `relu` workload; 27 instructions), launched as the benchmark launches it, including the hidden global
  offset of its multi-GPU split: for every grid size, count, offset, addresses and memory the emulator
  terminates without fault, `out[e] = reluBits (in[e])` for the elements `lo ≤ e < lo + min G (count − lo)`,
  every other byte of memory unchanged.
* `relu_split_covers` — the benchmark's split of `length` elements over `g` queues (`grid = length / g` each,
  offset `i · grid`, the LAST queue takes `length − (g−1)·grid`) covers `[0, length)` without overlap, for every
  `length` and `g`; `relu_split_covers_old` is the split before the repair of finding
  `C01-relu-split-drops-remainder` (every queue `length / g`: the `length % g` trailing elements were missed).
* `mulKernel_correct` / `mulKernel_run` — `mul` of amd/benchmarks/dnn/gputensor/operator.hsaco
  (`GPUOperator.ElementWiseMul`; 32 instructions): `out[e] = mulBits (in1[e], in2[e])` for `lo ≤ e < lo + min G (n + 1 − lo)`.
* `mul_respects_count_full` / `_refuted` / `mulKernel_exact` — the kernel's bounds test is `tid > n`: with a grid
  larger than `n` it writes `out[n]`, one element behind the tensor (refuted with a concrete launch); with
  `lo + G ≤ n` — what `ElementWiseMul` launches — exactly the first `G` elements are written.

The code bytes are the literals `reluKernelCode` / `mulKernelCode`, compared on every run with what the real
loader extracts from the .hsaco files (`c01 kcode relu|mul`); the emulator is tied to the real one by the
`c01 emu` cases of these kernels (harness/c01_kern.go).  `reluBits` / `mulBits` are the C03V float
specification of `v_max_f32 (0, v_mul_f32 (1.0, x))` and `v_mul_f32 (a, b)`. -/
set_option linter.unusedVariables false
namespace C01
namespace Emu
open C03V

theorem relu_stable (c : Map.Cfg) (src : Nat) (hv : Relu.Valid c src) (f m : Nat → Nat) (h : Map.Agree c f m) (e : Nat)
    (h1 : c.lo ≤ e) (h2 : e < c.lo + c.K) : Relu.reluVal src m e = Relu.reluVal src f e := by
  unfold Relu.reluVal
  rw [Map.rd32_agree c f m h (src + 4 * e) (fun j hj hin => hv.dSrc _ hin ⟨by omega, by omega⟩)]

theorem mul_stable (c : Map.Cfg) (in1 in2 : Nat) (hv : Mul.Valid c in1 in2) (f m : Nat → Nat) (h : Map.Agree c f m) (e : Nat)
    (h1 : c.lo ≤ e) (h2 : e < c.lo + c.K) : Mul.mulVal in1 in2 m e = Mul.mulVal in1 in2 f e := by
  unfold Mul.mulVal
  rw [Map.rd32_agree c f m h (in1 + 4 * e) (fun j hj hin => hv.dIn1 _ hin ⟨by omega, by omega⟩),
    Map.rd32_agree c f m h (in2 + 4 * e) (fun j hj hin => hv.dIn2 _ hin ⟨by omega, by omega⟩)]

/-- **reluKernel_correct.** For every grid size `G ≥ 1`, count (`c.lim < 2^31`), hidden global offset `lo`
    (`lo + G + 63 ≤ 2^31`), code / kernel-argument / packet / input / output addresses (`Relu.Valid`: no 64-bit
    wrap-around, packet and kernel arguments dword-aligned, written range disjoint from what the kernel
    reads), every memory, every tail of the kernel-argument segment and every dispatch packet announcing
    work-group size 64: the emulator runs the dispatch `(G,1,1)/(64,1,1)` of the `ReLUForward` bytes with the
    argument image `relu.KernelArgs{count, 0, in, out, lo, 0, 0}` without fault; afterwards every byte `j` of
    `out[e]` is byte `j` of `reluBits (in[e])` for the elements `lo ≤ e < lo + min G (count − lo)`, and every
    other byte of memory is what it was at launch. -/
theorem reluKernel_correct (c : Map.Cfg) (src : Nat) (hv : Relu.Valid c src) (hG : 0 < c.G) (hG31 : c.lo + c.G + 63 ≤ 2 ^ 31)
    (hsrc : src < 2 ^ 64) (hdst : c.dst < 2 ^ 64) (tail pk : List Nat) (m : Mem) (fuel : Nat)
    (hpk : 8 ≤ pk.length) (h4 : pk.getD 4 0 = 64) (h5 : pk.getD 5 0 = 0)
    (hsep : c.ka + 48 ≤ c.pa ∨ c.pa + pk.length ≤ c.ka) :
    ∃ m', runE Relu.P (Map.disp c (reluArgs c.lim src c.dst c.lo ++ tail) pk) (fuel + 27) m = .ok m' ∧
      (∀ e, c.lo ≤ e → e < c.lo + c.K → ∀ j, j < 4 → get m' (c.dst + 4 * e + j) =
        Map.byteOf (Relu.reluBits (rd32 (get (install c.pa pk (install c.ka (reluArgs c.lim src c.dst c.lo ++ tail) m)))
          (src + 4 * e) % 2 ^ 32)) j) ∧
      (∀ a, ¬ c.inDst a → get m' a = get (install c.pa pk (install c.ka (reluArgs c.lim src c.dst c.lo ++ tail) m)) a) :=
  Map.map_final Relu.P 27 (Relu.reluVal src) c (Relu.Img c src) (Relu.wave_run c src hv) (relu_stable c src hv) hG hG31
    (by have := hv.paEnd; omega) (by have := hv.kaEnd; omega) _ pk m fuel
    (Relu.relu_img c src (by have := hv.lim31; omega) (by omega) hsrc hdst tail pk m hpk h4 h5 hsep)

/-- the same for `Emu.run` (the function the correspondence cases execute) -/
theorem reluKernel_run (c : Map.Cfg) (src : Nat) (hv : Relu.Valid c src) (hG : 0 < c.G) (hG31 : c.lo + c.G + 63 ≤ 2 ^ 31)
    (hsrc : src < 2 ^ 64) (hdst : c.dst < 2 ^ 64) (tail pk : List Nat) (m : Mem)
    (hpk : 8 ≤ pk.length) (h4 : pk.getD 4 0 = 64) (h5 : pk.getD 5 0 = 0)
    (hsep : c.ka + 48 ≤ c.pa ∨ c.pa + pk.length ≤ c.ka) :
    (∀ e, c.lo ≤ e → e < c.lo + c.K → ∀ j, j < 4 →
      get (run Relu.P (Map.disp c (reluArgs c.lim src c.dst c.lo ++ tail) pk) m) (c.dst + 4 * e + j) =
        Map.byteOf (Relu.reluBits (rd32 (get (install c.pa pk (install c.ka (reluArgs c.lim src c.dst c.lo ++ tail) m)))
          (src + 4 * e) % 2 ^ 32)) j) ∧
    (∀ a, ¬ c.inDst a → get (run Relu.P (Map.disp c (reluArgs c.lim src c.dst c.lo ++ tail) pk) m) a =
      get (install c.pa pk (install c.ka (reluArgs c.lim src c.dst c.lo ++ tail) m)) a) :=
  Map.map_run Relu.P 27 (Relu.reluVal src) c (Relu.Img c src) (Relu.wave_run c src hv) (relu_stable c src hv) hG hG31
    (by have := hv.paEnd; omega) (by have := hv.kaEnd; omega) (by decide) _ pk m
    (Relu.relu_img c src (by have := hv.lim31; omega) (by omega) hsrc hdst tail pk m hpk h4 h5 hsep)

/-- grid size of queue `i` of `g` in `relu.Benchmark.exec`: `length / g`, the last queue takes what is left -/
def reluSplitGrid (length g i : Nat) : Nat := if i + 1 = g then length - i * (length / g) else length / g

/-- first element behind the block of queue `i` -/
def reluSplitEnd (length g i : Nat) : Nat := if i + 1 = g then length else (i + 1) * (length / g)

/-- **relu_split_covers (full statement, a theorem since the repair of finding
    `C01-relu-split-drops-remainder`).** `relu.Benchmark.exec` gives queue `i` of `g` the hidden offset `i·w`
    (`w = length / g`), the count `length` and the grid `w` — the last queue the grid `length − (g−1)·w`: the
    written element ranges `[i·w, i·w + min grid (length − i·w))` are the consecutive blocks
    `[i·w, (i+1)·w)` for `i < g−1` and `[(g−1)·w, length)` for the last queue: every block starts where the
    previous one ends, the first at 0, the last ends at `length` — together exactly `[0, length)`, no overlap,
    for EVERY `length` and every number of queues (`length % g ≠ 0` and `length < g` included). -/
theorem relu_split_covers (length g i : Nat) (hg : 0 < g) (hi : i < g) :
    let w := length / g
    let c : Map.Cfg := ⟨0, 0, 0, 0, i * w, length, reluSplitGrid length g i⟩
    c.lo + c.K = reluSplitEnd length g i ∧
    (i = 0 → c.lo = 0) ∧ (0 < i → c.lo = reluSplitEnd length g (i - 1)) ∧
    (i + 1 = g → reluSplitEnd length g i = length) ∧ reluSplitEnd length g i ≤ length := by
  have hw : g * (length / g) ≤ length := Nat.mul_div_le length g
  have h1 : (i + 1) * (length / g) ≤ g * (length / g) := Nat.mul_le_mul_right _ hi
  have h2 : (i + 1) * (length / g) = i * (length / g) + length / g := by rw [Nat.add_mul, Nat.one_mul]
  have h3 : i + 1 = g → (i + 1) * (length / g) = g * (length / g) := by intro h; rw [h]
  refine ⟨?_, ?_, ?_, ?_, ?_⟩
  · show i * (length / g) + min (reluSplitGrid length g i) (length - i * (length / g)) = reluSplitEnd length g i
    unfold reluSplitGrid reluSplitEnd
    generalize length / g = w at *
    split
    · rename_i hl; have := h3 hl; omega
    · omega
  · intro h0; show i * (length / g) = 0; rw [h0, Nat.zero_mul]
  · intro hpos
    show i * (length / g) = reluSplitEnd length g (i - 1)
    unfold reluSplitEnd
    have : i - 1 + 1 = i := by omega
    rw [this, if_neg (by omega)]
  · intro hl; unfold reluSplitEnd; rw [if_pos hl]
  · unfold reluSplitEnd
    generalize length / g = w at *
    split <;> omega

/-- `relu -length=101 -gpus=1,2` (the input of the former finding): queue 0 writes `[0, 50)`, queue 1 `[50, 101)` -/
example : reluSplitGrid 101 2 0 = 50 ∧ reluSplitEnd 101 2 0 = 50 ∧ reluSplitGrid 101 2 1 = 51 ∧ reluSplitEnd 101 2 1 = 101 ∧
    reluSplitGrid 102 4 3 = 27 ∧ reluSplitEnd 102 4 3 = 102 ∧ reluSplitGrid 3 4 3 = 3 ∧ reluSplitGrid 3 4 0 = 0 := by decide

/-- **The split before the repair** (`numWI := b.Length / len(b.gpus)` for every queue): the written element
    ranges are the consecutive blocks `[i·w, (i+1)·w)` — together `[0, g·w)`, no overlap — so the last
    `length % g` elements were NOT computed when `g` does not divide `length` (finding
    `C01-relu-split-drops-remainder`: `relu -length=101 -gpus=1,2`, `mismatch at 100`). -/
theorem relu_split_covers_old (length g i : Nat) (hg : 0 < g) (hi : i < g) :
    let w := length / g
    let c : Map.Cfg := ⟨0, 0, 0, 0, i * w, length, w⟩
    c.lo + c.K = (i + 1) * w ∧ g * w ≤ length ∧ (g * w = length ↔ length % g = 0) := by
  have aux : ∀ w : Nat, g * w ≤ length → i * w + min w (length - i * w) = (i + 1) * w := by
    intro w hw
    have h1 : (i + 1) * w ≤ g * w := Nat.mul_le_mul_right w hi
    have h2 : (i + 1) * w = i * w + w := by rw [Nat.add_mul, Nat.one_mul]
    omega
  have hw : g * (length / g) ≤ length := Nat.mul_div_le length g
  refine ⟨aux _ hw, hw, ?_⟩
  have := Nat.div_add_mod length g
  constructor
  · intro h; omega
  · intro h; omega

/-- the old split of the finding's input ends at element 100 of 101 -/
example : (2 : Nat) * (101 / 2) = 100 ∧ 101 % 2 ≠ 0 := by decide

/-- **mulKernel_correct.** The same for `mul` (operator.hsaco) with the argument image
    `elemWiseMulKernArg{out, in1, in2, n, 0, lo, 0, 0}`: `out[e] = mulBits (in1[e], in2[e])` for the elements
    `lo ≤ e < lo + min G (n + 1 − lo)` (`c.lim = n + 1`: the kernel's test is `tid > n`), every other byte of
    memory unchanged, no fault. -/
theorem mulKernel_correct (c : Map.Cfg) (in1 in2 n : Nat) (hn : n + 1 = c.lim) (hv : Mul.Valid c in1 in2) (hG : 0 < c.G)
    (hG31 : c.lo + c.G + 63 ≤ 2 ^ 31) (hin1 : in1 < 2 ^ 64) (hin2 : in2 < 2 ^ 64) (hdst : c.dst < 2 ^ 64)
    (tail pk : List Nat) (m : Mem) (fuel : Nat)
    (hpk : 8 ≤ pk.length) (h4 : pk.getD 4 0 = 64) (h5 : pk.getD 5 0 = 0)
    (hsep : c.ka + 56 ≤ c.pa ∨ c.pa + pk.length ≤ c.ka) :
    ∃ m', runE Mul.P (Map.disp c (mulArgs c.dst in1 in2 n c.lo ++ tail) pk) (fuel + 32) m = .ok m' ∧
      (∀ e, c.lo ≤ e → e < c.lo + c.K → ∀ j, j < 4 → get m' (c.dst + 4 * e + j) =
        Map.byteOf (Mul.mulVal in1 in2 (get (install c.pa pk (install c.ka (mulArgs c.dst in1 in2 n c.lo ++ tail) m))) e) j) ∧
      (∀ a, ¬ c.inDst a → get m' a = get (install c.pa pk (install c.ka (mulArgs c.dst in1 in2 n c.lo ++ tail) m)) a) :=
  Map.map_final Mul.P 32 (Mul.mulVal in1 in2) c (Mul.Img c in1 in2) (Mul.wave_run c in1 in2 hv) (mul_stable c in1 in2 hv) hG hG31
    (by have := hv.paEnd; omega) (by have := hv.kaEnd; omega) _ pk m fuel
    (Mul.mul_img c in1 in2 n hn (by have := hv.lim31; omega) (by omega) hin1 hin2 hdst tail pk m hpk h4 h5 hsep)

theorem mulKernel_run (c : Map.Cfg) (in1 in2 n : Nat) (hn : n + 1 = c.lim) (hv : Mul.Valid c in1 in2) (hG : 0 < c.G)
    (hG31 : c.lo + c.G + 63 ≤ 2 ^ 31) (hin1 : in1 < 2 ^ 64) (hin2 : in2 < 2 ^ 64) (hdst : c.dst < 2 ^ 64)
    (tail pk : List Nat) (m : Mem)
    (hpk : 8 ≤ pk.length) (h4 : pk.getD 4 0 = 64) (h5 : pk.getD 5 0 = 0)
    (hsep : c.ka + 56 ≤ c.pa ∨ c.pa + pk.length ≤ c.ka) :
    (∀ e, c.lo ≤ e → e < c.lo + c.K → ∀ j, j < 4 →
      get (run Mul.P (Map.disp c (mulArgs c.dst in1 in2 n c.lo ++ tail) pk) m) (c.dst + 4 * e + j) =
        Map.byteOf (Mul.mulVal in1 in2 (get (install c.pa pk (install c.ka (mulArgs c.dst in1 in2 n c.lo ++ tail) m))) e) j) ∧
    (∀ a, ¬ c.inDst a → get (run Mul.P (Map.disp c (mulArgs c.dst in1 in2 n c.lo ++ tail) pk) m) a =
      get (install c.pa pk (install c.ka (mulArgs c.dst in1 in2 n c.lo ++ tail) m)) a) :=
  Map.map_run Mul.P 32 (Mul.mulVal in1 in2) c (Mul.Img c in1 in2) (Mul.wave_run c in1 in2 hv) (mul_stable c in1 in2 hv) hG hG31
    (by have := hv.paEnd; omega) (by have := hv.kaEnd; omega) (by decide) _ pk m
    (Mul.mul_img c in1 in2 n hn (by have := hv.lim31; omega) (by omega) hin1 hin2 hdst tail pk m hpk h4 h5 hsep)

/-- **mulKernel_exact (the partial statement).** When the grid does not exceed the element count
    (`lo + G ≤ n`; `ElementWiseMul` launches `G = n`, `lo = 0`), exactly the elements `lo … lo + G − 1` are
    written: the written range is `[out + 4·lo, out + 4·(lo + G))`. -/
theorem mulKernel_exact (c : Map.Cfg) (n : Nat) (hn : n + 1 = c.lim) (hle : c.lo + c.G ≤ n) : c.K = c.G := by
  unfold Map.Cfg.K
  omega

/-! ### the kernel's bounds test is one element too generous -/

/-- a launch of `mul` for a tensor of `n = 0` elements with a (rounded-up) grid of one work-item -/
def mulWitness : Map.Cfg := ⟨0x3000, 0x4000, 0x5000, 0x2000, 0, 1, 1⟩
def mulWitnessPk : List Nat := [0, 0, 0, 0, 64, 0, 1, 0]
/-- in1[0] = in2[0] = 1.0, out[0] = 0 -/
def mulWitnessMem : Mem := install 0x1000 [0, 0, 0x80, 0x3f] (install 0x1800 [0, 0, 0x80, 0x3f] (install 0x2000 [0, 0, 0, 0] []))

theorem mulWitness_valid : Mul.Valid mulWitness 0x1000 0x1800 :=
  ⟨by decide, by decide, by decide, by decide, by decide, by decide, by decide, by decide, by decide, by decide,
   fun a h => by simp only [Map.Cfg.inDst, Map.Cfg.K, mulWitness] at h ⊢; omega,
   fun a h => by simp only [Map.Cfg.inDst, Map.Cfg.K, mulWitness] at h ⊢; omega,
   fun a h => by simp only [Map.Cfg.inDst, Map.Cfg.K, mulWitness] at h ⊢; omega,
   fun a h => by simp only [Map.Cfg.inDst, Map.Cfg.K, mulWitness] at h ⊢; omega⟩

/-- the full statement one would like: a launch for a tensor of `n` elements changes nothing outside
    `out[0 … n)` -/
def mul_respects_count_full : Prop :=
  ∀ (c : Map.Cfg) (in1 in2 n : Nat), n + 1 = c.lim → c.lo = 0 → Mul.Valid c in1 in2 → 0 < c.G → c.G + 63 ≤ 2 ^ 31 →
    in1 < 2 ^ 64 → in2 < 2 ^ 64 → c.dst < 2 ^ 64 → ∀ (pk : List Nat) (m : Mem), 8 ≤ pk.length → pk.getD 4 0 = 64 →
    pk.getD 5 0 = 0 → (c.ka + 56 ≤ c.pa ∨ c.pa + pk.length ≤ c.ka) →
    ∀ a, ¬ (c.dst ≤ a ∧ a < c.dst + 4 * n) →
      get (run Mul.P (Map.disp c (mulArgs c.dst in1 in2 n c.lo) pk) m) a =
        get (install c.pa pk (install c.ka (mulArgs c.dst in1 in2 n c.lo) m)) a

/-- **refuted**: with `n = 0` and one work-item the kernel stores `1.0 · 1.0` into `out[0]`, which is behind the
    (empty) tensor: byte 3 of `out[0]` becomes `0x3f` -/
theorem mul_respects_count_refuted : ¬ mul_respects_count_full := by
  intro h
  have hv := mulWitness_valid
  have hfull := h mulWitness 0x1000 0x1800 0 rfl rfl hv (by decide) (by decide) (by decide) (by decide) (by decide)
    mulWitnessPk mulWitnessMem (by decide) (by decide) (by decide) (Or.inl (by decide)) (0x2000 + 3)
    (by simp only [mulWitness]; omega)
  have hrun := (mulKernel_run mulWitness 0x1000 0x1800 0 rfl hv (by decide) (by decide) (by decide) (by decide) (by decide)
    [] mulWitnessPk mulWitnessMem (by decide) (by decide) (by decide) (Or.inl (by decide))).1 0 (Nat.le_refl _)
    (by decide) 3 (by decide)
  rw [List.append_nil] at hrun
  have e1 : mulWitness.dst + 4 * 0 + 3 = 0x2000 + 3 := rfl
  rw [e1] at hrun
  have e2 : mulWitness.lo = 0 := rfl
  rw [e2] at hrun hfull
  rw [hrun] at hfull
  revert hfull
  decide

/-! ## the hypotheses are met -/

/-- a concrete `relu` launch: the second of two GPUs (offset 64, grid 64, count 128) -/
example : Relu.Valid ⟨0x3000, 0x4000, 0x5000, 0x2000, 64, 128, 64⟩ 0x1000 :=
  ⟨by decide, by decide, by decide, by decide, by decide, by decide, by decide, by decide,
   fun a h => by simp only [Map.Cfg.inDst, Map.Cfg.K] at h ⊢; omega,
   fun a h => by simp only [Map.Cfg.inDst, Map.Cfg.K] at h ⊢; omega,
   fun a h => by simp only [Map.Cfg.inDst, Map.Cfg.K] at h ⊢; omega⟩

example : (⟨0x3000, 0x4000, 0x5000, 0x2000, 64, 128, 64⟩ : Map.Cfg).K = 64 := by decide

/-- what `reluBits` is on the classes of inputs: a positive number, a negative number, −0, a NaN, a denormal, +∞ -/
example : Relu.reluBits 0x40490fdb = 0x40490fdb ∧ Relu.reluBits 0xbf800000 = 0 ∧ Relu.reluBits 0x80000000 = 0 ∧
    Relu.reluBits 0x7fc00000 = 0 ∧ Relu.reluBits 1 = 1 ∧ Relu.reluBits 0x7f800000 = 0x7f800000 := by decide

example : Mul.mulBits 0x40000000 0x40400000 = 0x40c00000 := by decide

/-- 100 elements on 3 queues: 33 each, element 99 is not computed -/
example : 3 * (100 / 3) = 99 ∧ 100 % 3 ≠ 0 := by decide

end Emu
end C01
