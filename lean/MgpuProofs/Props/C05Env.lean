import MgpuModel.C05_Env
import MgpuProofs.Props.C05Sched
/-! # C05 — no choice of the kick's tick time repairs the hand-off

`completion_times_refuted`: simulated time depends on the host schedule. One conceivable "small"
repair keeps the protocol and only changes the TIME of the tick `runAsync` schedules for a kick
(`TickLater` → `TickNow`, or any other function of the engine's time). `no_tick_time_policy_repairs`
excludes the whole family: in an environment where a completed command leaves two trailing events
of other components (`MgpuModel/C05_Env.lean`), for EVERY policy `pol` that does not schedule into
the past there are two interleavings of the script `Enqueue; Drain; Enqueue; Drain`, both run to
the end with the whole simulation at rest, whose completion times differ:

* application first: the second command is taken by the driver's tick that was ALREADY queued when
  the command was enqueued (cycle `a + 1`, `a = pol 0`) — the kick comes later and keeps that tick;
* engine first: the engine has run the trailing events (time `a + 2`) before the kick, which can
  only schedule at `pol (a + 2) ≥ a + 2`.

So the time the application's next call takes effect is decided by how far the engine has run, and
no tick-time policy can undo that: a repair has to change WHO WAITS FOR WHOM (`C05.R`,
`rest_wait_times_schedule_independent`), i.e. the protocol that `C12.step` transcribes.
-/
namespace C05
open C12 (APc RPc EPc Th)
open C12.Th

/-- the application's second `Enqueue` overtakes the driver's next tick -/
def envFast : List Th :=
  [app, app, app, async, async, eng, eng, eng, eng,
   app, app,
   eng, eng, eng,
   app, app, async, async, app,
   eng, eng, eng, eng, eng, eng, eng, eng, eng, eng, eng, eng]

/-- the engine runs the trailing events to the end before the application moves -/
def envSlow : List Th :=
  [app, app, app, async, async, eng, eng, eng, eng,
   eng, eng, eng, eng, eng, eng, eng,
   app, app, app, app, async, async,
   eng, eng, eng, eng, eng, app, eng, eng, eng, eng, eng, eng]

/-- what the statement is about: completion log, pending events of other components, the three
    program counters and the script left -/
def Env.obs (s : Env.St) : List (Nat × Nat) × List Nat × APc × RPc × EPc × List Nat :=
  (s.t.ctimes, s.bg, s.t.p.a, s.t.p.r, s.t.p.e, s.t.p.rounds)

theorem Env.fast_run (pol : Nat → Nat) : (Env.runSched pol 2 (Env.init [1, 1]) envFast).map Env.obs =
    some ([(1, pol 0), (2, pol 0 + 1)], [], .idle, .idle, .none, []) := by
  simp +arith [envFast, Env.obs, Env.runSched, Env.step, Env.base, Env.init, T.init, C12.init, C12.step, T.advance,
    Env.kick, T.tickLater, Env.trail, Env.trailTimes, Env.insertT]

theorem Env.slow_run (pol : Nat → Nat) : (Env.runSched pol 2 (Env.init [1, 1]) envSlow).map Env.obs =
    some ([(1, pol 0), (2, pol (pol 0 + 2))], [], .idle, .idle, .none, []) := by
  simp +arith [envSlow, Env.obs, Env.runSched, Env.step, Env.base, Env.init, T.init, C12.init, C12.step, T.advance,
    Env.kick, T.tickLater, Env.trail, Env.trailTimes, Env.insertT]

/-- **No tick-time policy repairs the hand-off.** Whatever time `runAsync` gives the tick of a kick
    (any `pol` with `now ≤ pol now` — the engine refuses events in the past), the script
    `Enqueue; Drain; Enqueue; Drain` has two interleavings, both complete and with the whole
    simulation at rest at the end, in which command 2 completes at different cycles
    (`pol 0 + 1` vs `pol (pol 0 + 2)`). -/
theorem no_tick_time_policy_repairs (pol : Nat → Nat) (hpol : ∀ n, n ≤ pol n) :
    ∃ s₁ s₂, Env.runSched pol 2 (Env.init [1, 1]) envFast = some s₁ ∧
      Env.runSched pol 2 (Env.init [1, 1]) envSlow = some s₂ ∧
      C12.finished s₁.t.p ∧ C12.finished s₂.t.p ∧ Env.atRest s₁ ∧ Env.atRest s₂ ∧
      s₁.t.ctimes = [(1, pol 0), (2, pol 0 + 1)] ∧ s₂.t.ctimes = [(1, pol 0), (2, pol (pol 0 + 2))] ∧
      s₁.t.ctimes ≠ s₂.t.ctimes := by
  obtain ⟨s₁, h₁, o₁⟩ := Option.map_eq_some_iff.mp (Env.fast_run pol)
  obtain ⟨s₂, h₂, o₂⟩ := Option.map_eq_some_iff.mp (Env.slow_run pol)
  simp only [Env.obs, Prod.mk.injEq] at o₁ o₂
  obtain ⟨c₁, b₁, a₁, r₁, e₁, k₁⟩ := o₁
  obtain ⟨c₂, b₂, a₂, r₂, e₂, k₂⟩ := o₂
  refine ⟨s₁, s₂, h₁, h₂, ⟨a₁, k₁⟩, ⟨a₂, k₂⟩, ⟨⟨r₁, e₁⟩, b₁⟩, ⟨⟨r₂, e₂⟩, b₂⟩, c₁, c₂, ?_⟩
  rw [c₁, c₂]
  intro h
  have h2 : pol 0 + 1 = pol (pol 0 + 2) := by
    have := (List.cons.inj (List.cons.inj h).2).1
    exact (Prod.mk.inj this).2
  have := hpol (pol 0 + 2)
  omega

/-- in particular `TickNow` (`pol now = now`) and `TickLater` (`pol now = now + 1`) -/
example : ∃ s₁ s₂, Env.runSched id 2 (Env.init [1, 1]) envFast = some s₁ ∧
    Env.runSched id 2 (Env.init [1, 1]) envSlow = some s₂ ∧ s₁.t.ctimes ≠ s₂.t.ctimes := by
  obtain ⟨s₁, s₂, h₁, h₂, _, _, _, _, _, _, hne⟩ := no_tick_time_policy_repairs id (fun n => Nat.le_refl n)
  exact ⟨s₁, s₂, h₁, h₂, hne⟩

example : ∃ s₁ s₂, Env.runSched (· + 1) 2 (Env.init [1, 1]) envFast = some s₁ ∧
    Env.runSched (· + 1) 2 (Env.init [1, 1]) envSlow = some s₂ ∧
    s₁.t.ctimes = [(1, 1), (2, 2)] ∧ s₂.t.ctimes = [(1, 1), (2, 4)] := by
  obtain ⟨s₁, s₂, h₁, h₂, _, _, _, _, c₁, c₂, _⟩ := no_tick_time_policy_repairs (· + 1) (fun n => Nat.le_succ n)
  exact ⟨s₁, s₂, h₁, h₂, c₁, c₂⟩

/-- **`Env` specialises to the timed hand-off model**: without trailing events and with
    `TickLater` as the policy a step of `Env` is a step of `T`. -/
theorem Env.step_eq_T (s : T.St) (th : Th) :
    Env.step (· + 1) 0 { t := s, bg := [] } th = (T.step s th).map fun t' => { t := t', bg := [] } := by
  have hk : ∀ now next, Env.kick (· + 1) now next = T.tickLater now next := fun _ _ => rfl
  cases th with
  | app =>
    simp only [Env.step, Env.base, T.step]
    cases hp : C12.step s.p .app <;> simp
  | async =>
    simp only [Env.step, Env.base, T.step]
    cases hp : C12.step s.p .async with
    | none => simp
    | some p' =>
      simp only [Option.map_some]
      split
      · rename_i hr
        simp [T.advance, hr, hk]
      · rfl
  | eng =>
    simp only [Env.step, Env.base, T.step]
    cases hp : C12.step s.p .eng with
    | none => simp
    | some p' =>
      simp only [Option.map_some]
      split
      · simp [Env.trail, Env.trailTimes]
      · rfl

end C05
