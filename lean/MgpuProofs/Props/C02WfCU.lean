import MgpuProofs.Props.C02Wf
import MgpuProofs.C02WfCU
import MgpuProofs.C02WfDemo
/-! # C02 — several wavefronts on one compute unit, one shared memory

`custep` lets, in any order, any wavefront of the compute unit take any event its own rules allow
(`tstep`); a store performed for one wavefront changes the memory every wavefront sees. The
inter-wavefront hypothesis is the property's "race-free program": what one wavefront may write
(`Prog.wown`; every store is checked to stay inside it) no other wavefront reads or writes (`SepL`);
memory that is only read may be shared freely. -/
namespace C02.Wf

/-- **cu_wavefronts_equal_emulator.** For EVERY interleaving of the events of the wavefronts on the
    compute unit (each wavefront's own order of events constrained only by the rules of `tstep`;
    accesses of different wavefronts performed by the memory in any order): a wavefront that has
    completed ends with the registers, the owned memory and the executed-instruction sequence of the
    emulator running that wavefront ALONE on the initial memory — provided the programs are
    well-formed, each passes the hazard check (correct `s_waitcnt` placement) and no wavefront stores
    into memory another one uses. -/
theorem cu_wavefronts_equal_emulator (Ps : List Prog) (hP : ∀ P ∈ Ps, P.WF) (gate : TState → Inst → Bool)
    (inits : List (Nat × RF)) (m0 : Mem) (fuel : Nat) (hlen : inits.length = Ps.length)
    (hsep : SepL Ps)
    (hhaz : ∀ (j : Nat) (P : Prog) (pr : Nat × RF), Ps[j]? = some P → inits[j]? = some pr →
      hazardFreeRun P fuel (einit pr.1 pr.2 m0, {}) = true)
    (evs : List (Nat × Ev)) (c : List TState)
    (hrun : curun Ps gate (inits.map fun pr => tinit pr.1 pr.2 m0) evs = some c)
    (j : Nat) (P : Prog) (pr : Nat × RF) (T : TState)
    (hj : Ps[j]? = some P) (hi : inits[j]? = some pr) (hT : c[j]? = some T) (hdone : T.ph = .done) :
    ∃ n E, erun P n (einit pr.1 pr.2 m0) = some E ∧ E.done = true ∧ T.regs = E.regs ∧
      (∀ a, P.own a = true → T.mem a = E.mem a) ∧ T.trace = E.trace := by
  have hinv := cuinv_run Ps hP (inits.map fun pr => (einit pr.1 pr.2 m0, ({} : HState))) fuel
    (by
      intro j P x0 hj hx0
      simp only [List.getElem?_map] at hx0
      cases hi : inits[j]? with
      | none => simp [hi] at hx0
      | some pr =>
        simp only [hi, Option.map_some, Option.some.injEq] at hx0
        subst hx0
        exact hhaz j P pr hj hi)
    hsep evs _ c (cuinv_init Ps inits m0 hlen) hrun
  have hx0 : (inits.map fun pr => (einit pr.1 pr.2 m0, ({} : HState)))[j]? = some (einit pr.1 pr.2 m0, {}) := by
    simp [hi]
  obtain ⟨n, E, H, hr, hI⟩ := hinv.sim j P _ T hj hx0 hT
  have hp := hI.p
  rw [hdone] at hp
  simp only [InvP] at hp
  obtain ⟨hd, htr, hv, hs⟩ := hp
  refine ⟨n, E, ehrun_erun P n _ _ hr, hd, ?_, ?_, htr⟩
  · funext x
    symm
    apply hI.r.r1
    intro p hp
    rw [hv, hs] at hp
    simp at hp
  · intro a ha
    symm
    apply hI.m.m1 a ha
    intro p hp
    rw [hv] at hp
    simp at hp

/-! non-vacuity: two wavefronts with separate output windows and a shared read-only input -/
example : ∀ P ∈ PsTwo, P.WF := by
  intro P hP
  simp only [PsTwo, List.mem_cons, List.not_mem_nil, or_false] at hP
  rcases hP with rfl | rfl <;> exact PTwo_wf _ _
example : SepL PsTwo := by
  intro w j Pw Pj hw hj hne a ha
  match w, j with
  | 0, 0 => exact absurd rfl hne
  | 0, 1 =>
    simp only [PsTwo, List.getElem?_cons_zero, List.getElem?_cons_succ, Option.some.injEq] at hw hj
    subst hw hj
    simp only [PTwo, inWin, decide_eq_true_eq, Bool.or_eq_false_iff, decide_eq_false_iff_not] at ha ⊢
    omega
  | 1, 0 =>
    simp only [PsTwo, List.getElem?_cons_zero, List.getElem?_cons_succ, Option.some.injEq] at hw hj
    subst hw hj
    simp only [PTwo, inWin, decide_eq_true_eq, Bool.or_eq_false_iff, decide_eq_false_iff_not] at ha ⊢
    omega
  | 1, 1 => exact absurd rfl hne
  | _ + 2, _ => simp [PsTwo] at hw
  | 0, _ + 2 => simp [PsTwo] at hj
  | 1, _ + 2 => simp [PsTwo] at hj
example : hazardFreeRun (PTwo 0x1000 0x200000) 12 (einit 0x1000 demoRegs demoMem, {}) = true := by decide +kernel
example : hazardFreeRun (PTwo 0x2000 0x300000) 12 (einit 0x2000 demoRegs demoMem, {}) = true := by decide +kernel
/-- an interleaved run of the two wavefronts that completes both -/
example : (curun PsTwo (fun _ _ => true) (initsTwo.map fun pr => tinit pr.1 pr.2 demoMem) cuEvsTwo).map
    (fun c => c.map fun T => (T.ph, T.regs (vreg 7 0))) = some [(.done, 3233857728), (.done, 3233857728)] := by
  decide +kernel

/-- **cu_timing_equals_sequential_emulator.** The same against the emulator as it really runs a
    work-group without barriers (`runWG`: wavefront 0 to completion, then wavefront 1 on the memory
    wavefront 0 left, …; `EmuSeq`): when every wavefront of the compute unit has completed, every
    wavefront's registers and executed-instruction sequence equal the emulator's, and the shared
    memory equals the emulator's final memory on everything any wavefront owns. -/
theorem cu_timing_equals_sequential_emulator (Ps : List Prog) (hP : ∀ P ∈ Ps, P.WF)
    (gate : TState → Inst → Bool) (inits : List (Nat × RF)) (m0 : Mem) (fuel : Nat)
    (hlen : inits.length = Ps.length) (hsep : SepL Ps)
    (hhaz : ∀ (j : Nat) (P : Prog) (pr : Nat × RF), Ps[j]? = some P → inits[j]? = some pr →
      hazardFreeRun P fuel (einit pr.1 pr.2 m0, {}) = true)
    (evs : List (Nat × Ev)) (c : List TState)
    (hrun : curun Ps gate (inits.map fun pr => tinit pr.1 pr.2 m0) evs = some c)
    (Es : List EState) (m' : Mem) (hemu : EmuSeq Ps inits m0 Es m')
    (j : Nat) (P : Prog) (pr : Nat × RF) (T : TState)
    (hj : Ps[j]? = some P) (hi : inits[j]? = some pr) (hT : c[j]? = some T) (hdone : T.ph = .done) :
    ∃ E, Es[j]? = some E ∧ T.regs = E.regs ∧ T.trace = E.trace ∧ ∀ a, P.own a = true → T.mem a = m' a := by
  obtain ⟨n, Ea, hra, hda, hregs, hmem, htr⟩ :=
    cu_wavefronts_equal_emulator Ps hP gate inits m0 fuel hlen hsep hhaz evs c hrun j P pr T hj hi hT hdone
  obtain ⟨Eseq, n', Ea', hes, hra', heq, hm'⟩ :=
    (emuSeq_alone fuel Ps inits m0 Es m' hemu hP hsep m0 (fun _ _ _ _ => rfl) hhaz).2 j P pr.1 pr.2 hj hi
  have hda' : Ea'.done = true := by
    rw [← heq.done]
    exact emuSeq_done Ps inits m0 Es m' hemu j Eseq hes
  have : Ea = Ea' := erun_done_unique P n n' _ Ea Ea' hra hda hra' hda'
  subst this
  exact ⟨Eseq, hes, by rw [hregs, heq.regs], by rw [htr, heq.trace], fun a ha => by rw [hmem a ha, hm' a ha]⟩

end C02.Wf
