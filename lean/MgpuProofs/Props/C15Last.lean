import MgpuProofs.C15Last
import MgpuProofs.Props.C15Deep
/-! # C15 — a lower level that answers a forwarded request more than once: the last answer wins

The property is "one response per request, carrying the lower level's payload". The open-world
theorems of `Props/C15.lean` allow the lower level to answer any ticket any number of times, and
`response_carries_id_and_payload` only says the payload is *one of* the answers logged for the
forwarded copy. `parseBottom` stores every answer whose ticket is still in the lookup table into
the transaction, overwriting an earlier one, and drops answers whose ticket has left the table.
This file says exactly which answer the single response carries:

* `last_answer_wins` — for every op sequence: the **last** answer consumed for the ticket;
* `retired_answer_is_final` — answers arriving after the retirement never change that;
* `answer_twice_overwrites`, `answer_late_dropped`, `answer_twice_width_one`,
  `answer_twice_behind_head` — concrete runs;
* `multi_answer_memory_spec` — the closed system around a memory that answers twice;
* `at_most_once_memory_answer_unique` — with the shipped at-most-once lower units "last answer"
  and "the answer" coincide.
-/
namespace C15

/-- `demoCfg` with two pipeline slots per tick (`numReqPerCycle = 2`): two lower-level responses
    are consumed by one tick, before `bottomUp` of the next tick can retire the head -/
def wideCfg : Cfg := { demoCfg with width := 2 }

/-- a lower level that answers ticket 0 twice with different payloads before the head is retired:
    one read request arrives, is accepted (ticket 0) and taken by the lower level; both answers
    are put into the Bottom port; with width ≥ 2 the next tick consumes both; the tick after that
    retires the head -/
def twiceOps : List Op :=
  [.top (demoReq 0 false), .tick, .drainBot, .bot 0 (.data [1]), .bot 0 (.data [2]), .tick, .tick]

/-- the second answer arrives after the retirement -/
def twiceLateOps : List Op :=
  [.top (demoReq 0 false), .tick, .drainBot, .bot 0 (.data [1]), .tick, .tick,
   .bot 0 (.data [2]), .tick]

/-- width 1 (`demoCfg`): ticket 1 waits behind the unanswered head (ticket 0) and is answered
    twice meanwhile; then the head is answered and both retire -/
def twiceBehindOps : List Op :=
  [.top (demoReq 0 false), .top (demoReq 64 false), .tick, .tick, .drainBot, .drainBot,
   .bot 1 (.data [1]), .bot 1 (.data [2]), .tick, .tick, .bot 0 (.data [7]), .tick, .tick, .tick]

/-- **The last answer wins.** For EVERY op sequence — a lower level answering any id any number
    of times, at any time, with any payloads — a pending transaction holds the last answer
    consumed for its ticket (`none` = none consumed yet), and every response sent up carries the
    last answer consumed for the forwarded copy of its request. So the "lower level's payload" of
    the one response per request is determined: it is not just *some* logged answer
    (`response_carries_id_and_payload`) but the most recent one the ROB consumed. -/
theorem last_answer_wins (c : Cfg) (ops : List Op) :
    let s := run c ops
    (∀ t ∈ s.txs, t.rsp = lastAns t.botId s.answered) ∧
    (∀ d ∈ s.delivered, ∀ rb ∈ s.fwd, rb.1.id = d.rspTo →
      lastAns rb.2.id s.answered = some d.payload) := by
  intro s
  exact ⟨(run_linv c ops).txLast, (run_linv c ops).delLast⟩

example : (run wideCfg (twiceOps.take 6)).txs.map (fun t => (t.botId, t.rsp)) = [(0, some (.data [2]))] ∧
    (run wideCfg (twiceOps.take 6)).answered = [(0, .data [1]), (0, .data [2])] ∧
    lastAns 0 (run wideCfg (twiceOps.take 6)).answered = some (.data [2]) ∧
    (run wideCfg twiceOps).delivered = [⟨0, 2, .data [2]⟩] ∧
    (run wideCfg twiceOps).fwd.map (fun rb => (rb.1.id, rb.2.id)) = [(0, 0)] ∧
    lastAns 0 (run wideCfg twiceOps).answered = some (.data [2]) := by decide

/-- the tickets the ROB hands out are pairwise distinct (they ascend strictly) and only tickets
    handed out are ever logged as answered — so `lastAns rb.2.id` above speaks about one request -/
theorem tickets_distinct (c : Cfg) (ops : List Op) :
    let s := run c ops
    (s.fwd.map (·.2.id)).Pairwise (· < ·) ∧ (∀ k ∈ s.fwd.map (·.2.id), k < s.nextBot) ∧
    (∀ e ∈ s.answered, e.1 < s.nextBot) := by
  intro s
  exact ⟨(run_linv c ops).tickets, (run_linv c ops).ticketsFresh, (run_linv c ops).ansFresh⟩

example : (run demoCfg demoOps).fwd.map (·.2.id) = [0, 1, 2, 3, 4] ∧ (run demoCfg demoOps).nextBot = 5 ∧
    (run demoCfg demoOps).answered.map (·.1) = [1, 0, 3, 4] := by decide

/-- **The retired answer is final.** Once a response was sent up, answers for its ticket that
    arrive later are consumed and dropped (the ticket left the lookup table at retirement): in
    every continuation `more` the delivered payload is still the last answer logged for the
    forwarded copy. Together with `each_response_once` (no id is answered twice) the one response
    of a request and its payload are never revised. -/
theorem retired_answer_is_final (c : Cfg) (ops more : List Op) :
    ∀ d ∈ (run c ops).delivered, ∀ rb ∈ (run c ops).fwd, rb.1.id = d.rspTo →
      lastAns rb.2.id (run c (ops ++ more)).answered = some d.payload := by
  rw [run_append]
  exact final_core c (run c ops) more (run_both c ops)

example : (run wideCfg (twiceLateOps.take 6)).delivered = [⟨0, 2, .data [1]⟩] ∧
    (run wideCfg (twiceLateOps.take 7)).botIn = [(0, .data [2])] ∧
    (run wideCfg (twiceLateOps.take 6 ++ twiceLateOps.drop 6)).botIn = [] ∧
    (run wideCfg (twiceLateOps.take 6 ++ twiceLateOps.drop 6)).answered = [(0, .data [1])] ∧
    lastAns 0 (run wideCfg (twiceLateOps.take 6 ++ twiceLateOps.drop 6)).answered = some (.data [1]) := by
  decide

/-- **Answering twice overwrites.** With two pipeline slots per tick, both answers for ticket 0
    are consumed before the head is retired: the single response carries the SECOND payload and
    the log holds both answers. (One response for the one request; its payload is the lower
    level's later answer.) -/
theorem answer_twice_overwrites :
    (run wideCfg twiceOps).delivered = [⟨0, 2, .data [2]⟩] ∧
    (run wideCfg twiceOps).answered = [(0, .data [1]), (0, .data [2])] ∧
    (run wideCfg twiceOps).txs = [] ∧ (run wideCfg twiceOps).botIn = [] := by decide

example : (run wideCfg (twiceOps.take 5)).botIn = [(0, .data [1]), (0, .data [2])] ∧
    (run wideCfg (twiceOps.take 5)).table = [0] := by decide

/-- **A late second answer is dropped.** When the second answer arrives after the retirement the
    single response carries the FIRST payload; the second answer is consumed from the Bottom port
    but neither stored nor logged. -/
theorem answer_late_dropped :
    (run wideCfg twiceLateOps).delivered = [⟨0, 2, .data [1]⟩] ∧
    (run wideCfg twiceLateOps).answered = [(0, .data [1])] ∧
    (run wideCfg twiceLateOps).botIn = [] ∧ (run wideCfg twiceLateOps).table = [] := by decide

example : (run demoCfg twiceLateOps).delivered = [⟨0, 2, .data [1]⟩] ∧
    (run demoCfg twiceLateOps).answered = [(0, .data [1])] := by decide

/-- The same op list `twiceOps` on `demoCfg` (width 1): a tick consumes one answer only, and the
    next tick's `bottomUp` retires the head BEFORE its `parseBottom` sees the second answer — so
    here the first payload is delivered and the second answer is dropped. Which answer is "the
    last one consumed before retirement" depends on width and timing; `last_answer_wins` holds in
    both cases. -/
theorem answer_twice_width_one :
    (run demoCfg twiceOps).delivered = [⟨0, 2, .data [1]⟩] ∧
    (run demoCfg twiceOps).answered = [(0, .data [1])] ∧ (run demoCfg twiceOps).botIn = [] := by decide

/-- Overwriting also happens with width 1, for a transaction that waits behind an unanswered
    head: ticket 1 is answered `[1]` then `[2]`, the head (ticket 0) `[7]`; two responses, in
    request order, the second with payload `[2]`. -/
theorem answer_twice_behind_head :
    (run demoCfg twiceBehindOps).delivered = [⟨0, 2, .data [7]⟩, ⟨1, 2, .data [2]⟩] ∧
    (run demoCfg twiceBehindOps).answered = [(1, .data [1]), (1, .data [2]), (0, .data [7])] := by
  decide

example : (run demoCfg (twiceBehindOps.take 10)).txs.map (fun t => (t.req.id, t.botId, t.rsp)) =
    [(0, 0, none), (1, 1, some (.data [2]))] := by decide

/-- a memory that answers request 0 twice (it stays outstanding after the first answer) -/
def twiceEvs : List Ev :=
  [.arrive (demoReq 0 false), .tick, .memTake, .memAnswer 0 (.data [1]), .memAnswer 0 (.data [2]),
   .tick, .tick, .takeRsp]

/-- **Specification with a lower level that answers more than once** (`sysRunMulti`: the memory
    keeps an answered request outstanding and may answer it again with another payload). The ROB
    component is still a `run`, so every open-world theorem (order, at most one response per
    request, capacity, flush) applies unchanged; and every response the requester took or that
    waits in the Top port names an accepted request (id, sender) and carries the LAST answer the
    ROB consumed for that request's forwarded copy before retiring it. -/
theorem multi_answer_memory_spec (c : Cfg) (evs : List Ev) :
    let σ := sysRunMulti c evs
    (∃ ops, σ.rob = run c ops) ∧
    (∀ d ∈ σ.out ++ σ.rob.topOut, ∃ r b, (r, b) ∈ σ.rob.fwd ∧ d.rspTo = r.id ∧ d.dst = r.src ∧
        lastAns b.id σ.rob.answered = some d.payload) := by
  intro σ
  have ok := sysRunMulti_ok c evs
  refine ⟨ok.isRun, ?_⟩
  obtain ⟨ops, ho⟩ := ok.isRun
  have hb : Both c σ.rob := ho ▸ run_both c ops
  intro d hd
  have hdel : d ∈ σ.rob.delivered := by
    rcases List.mem_append.1 hd with hd | hd
    · exact ok.outDel d hd
    · exact hb.1.topOut_delivered d hd
  obtain ⟨r, b, h1, h2, h3, _⟩ := hb.1.delOk d hdel
  exact ⟨r, b, h1, h2, h3, hb.2.delLast d hdel (r, b) h1 h2.symm⟩

example : (sysRunMulti wideCfg twiceEvs).out = [⟨0, 2, .data [2]⟩] ∧
    (sysRunMulti wideCfg twiceEvs).rob.answered = [(0, .data [1]), (0, .data [2])] ∧
    (sysRunMulti wideCfg twiceEvs).mem.map (·.id) = [0] ∧
    (sysRunMulti wideCfg twiceEvs).rob.fwd.map (fun rb => (rb.1.id, rb.2.id)) = [(0, 0)] ∧
    lastAns 0 (sysRunMulti wideCfg twiceEvs).rob.answered = some (.data [2]) := by decide

/-- with this memory the uniqueness clause of `sys_response_is_the_answer` is lost: another payload
    was matched to the same ticket -/
example : (0, .data [1]) ∈ (sysRunMulti wideCfg twiceEvs).rob.answered ∧
    (sysRunMulti wideCfg twiceEvs).out.map (·.payload) = [.data [2]] := by decide

/-- the requester still gets at most one response per request from the multi-answer system, in
    request order (corollary of `multi_answer_memory_spec`.1 and the open-world theorems) -/
theorem multi_answer_once_in_order (c : Cfg) (evs : List Ev) :
    let s := (sysRunMulti c evs).rob
    s.delivered.map (·.rspTo) ++ s.txs.map (·.req.id) = s.live ∧
    (s.delivered.map (·.rspTo)).Nodup ∧ s.txs.length ≤ c.cap := by
  intro s
  obtain ⟨ops, ho⟩ := (multi_answer_memory_spec c evs).1
  have e : s = run c ops := ho
  rw [e]
  exact ⟨(responses_in_acceptance_order c ops).1, (each_response_once c ops).2.2.1,
    (capacity_and_table c ops).1⟩

example : (sysRunMulti wideCfg twiceEvs).rob.delivered.map (·.rspTo) = [0] ∧
    (sysRunMulti wideCfg twiceEvs).rob.accepted = [0] := by decide

/-- **With an at-most-once lower level the two specifications coincide.** In `sysRun` (the memory
    answers every forwarded request at most once — the shipped lower units) a response names an
    accepted request, carries the last answer logged for its forwarded copy, and that answer is
    the ONLY one ever logged for the ticket (one log entry): "last answer" = "the answer". -/
theorem at_most_once_memory_answer_unique (c : Cfg) (evs : List Ev) :
    let σ := sysRun c evs
    ∀ d ∈ σ.out ++ σ.rob.topOut, ∃ r b, (r, b) ∈ σ.rob.fwd ∧ d.rspTo = r.id ∧ d.dst = r.src ∧
      lastAns b.id σ.rob.answered = some d.payload ∧
      (∀ p', (b.id, p') ∈ σ.rob.answered → p' = d.payload) ∧
      σ.rob.answered.filter (fun e => decide (e.1 = b.id)) = [(b.id, d.payload)] := by
  intro σ d hd
  obtain ⟨r, b, h1, _, h2, h3, h4, h5⟩ := sys_response_is_the_answer c evs d hd
  have hnd : (σ.rob.answered.map (·.1)).Nodup :=
    (spec_good c.cap σ.rob.abs (rob_refines_fifo c evs []).1).ansNodup
  exact ⟨r, b, h1, h2, h3, lastAns_unique h4 h5, h5, filter_key_of_nodup hnd h4⟩

example : (sysRun wideCfg twiceEvs).out = [⟨0, 2, .data [1]⟩] ∧
    (sysRun wideCfg twiceEvs).rob.answered = [(0, .data [1])] ∧ (sysRun wideCfg twiceEvs).mem = [] ∧
    lastAns 0 (sysRun wideCfg twiceEvs).rob.answered = some (.data [1]) := by decide

example : lastAns 4 (sysRun demoCfg demoEvs).rob.answered = some (.data [6]) ∧
    (sysRun demoCfg demoEvs).rob.answered.filter (fun e => decide (e.1 = 4)) = [(4, .data [6])] := by
  decide

end C15
