import MgpuModel.C13
/-!
# C13 — the loaded instruction bytes handed to the decoder (tie with C04)

For all shipped kernels the statement "the bytes the loader returns decode sequentially, without error,
exactly to their end" is checked on every run by the oracle `C13.decode.shipped` (real loader + real
decoder) and by the `c13 dec` case lines (loader model + decoder model of C04 against the real pair,
instruction by instruction through a running hash).  A kernel-checked theorem over all 131 kernels is out
of reach (measured: about 0.1 s per instruction for `C04.decode` in the kernel, 40 820 instructions); the
smallest shipped kernel is proved here as the instance.
-/
namespace C13

/-- **embedded_kernel_decodes.** `ReLUForward` (gfx942): the 120 bytes the loader returns are 21
instructions of the CDNA3 decoder model, the last byte of the last instruction is the last byte of the
kernel, no error, no unimplemented form. -/
theorem embedded_kernel_decodes :
    decWalk true 121 reluForwardBytes 0 0 0 = "insts=21 end=120 stop=end h=215194257483241124" := by
  decide +kernel

/-- the walk stops with an error on bytes that are not instructions (an all-ones word matches no format) -/
example : decWalk true 9 [255, 255, 255, 255, 255, 255, 255, 255] 0 0 0 = "insts=0 end=0 stop=err h=0" := by
  decide +kernel

end C13
