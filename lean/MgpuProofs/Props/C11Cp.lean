import MgpuModel.C11Cp
import MgpuProofs.C11CpSpec
import MgpuProofs.C11CpInv
import MgpuProofs.C11CpMain
/-! # C11 — the command processor's copy / flush path (property theorems)

`reachCp n cin cdrv cdma ccache ops` is the state of the tick-exact model of `cp.CommandProcessor`
(`MgpuModel/C11Cp.lean`: `cpMiddleware.processFlushReq / processMemCopyReq / processMemCopyRsp`,
`ctrlMiddleware.processCacheFlushRsp`, two passes per `Tick`; the repaired code, which consumes a
message only when the `Send` it causes succeeds) and of its environment after an
ARBITRARY list of environment moves — a flush / H2D / D2H request arriving at the driver port (refused
when the port is full), a tick, the DMA side / the caches / the driver taking `k` messages from the
outgoing buffers (or not: back-pressure), an acknowledgement of the `j`-th outstanding cache flush (any
order), an answer to the `j`-th outstanding clone (any order) — for an ARBITRARY number of caches and
arbitrary buffer capacities. `CpEnv.step` is the function the correspondence check runs against the
real component (`c11 cpmw` case lines). The ghost log `s.log : List CpEv` records, in program order,
what the CP did. -/
namespace C11

/-- flush request, two copies behind it, acknowledgements out of order, answers out of order -/
def demoCpOps : List CpOp :=
  [.req .flush, .req .h2d, .req .d2h, .tick, .takeCache 9, .tick, .ack 2, .ack 0, .tick, .ack 0, .tick, .tick,
   .takeDma 9, .rsp 1, .rsp 0, .tick, .tick, .takeDrv 9]

/-- **The flush protocol is respected** (clauses (a) and (c) as one acceptor): for every
    configuration and every event order, the CP's event log is accepted by `specStep`: a flush starts
    only when no flush is open; it asks every cache once, in order; the flush is answered only when
    all `n` caches were asked and every request was acknowledged; a copy is handed to the DMA engine
    only when no flush is open and no cache acknowledgement is outstanding. -/
theorem cp_flush_protocol (n cin cdrv cdma ccache : Nat) (ops : List CpOp) :
    ∃ q, specRun n {} (reachCp n cin cdrv cdma ccache ops).s.log = some q := by
  obtain ⟨h, hn, _, _⟩ := reach_all n cin cdrv cdma ccache ops
  obtain ⟨q, hq, _⟩ := h.flush.spec
  rw [hn] at hq
  exact ⟨q, hq⟩

example : (reachCp 3 8 8 8 8 demoCpOps).s.log =
    [.flushStart 0, .cacheReq 0, .cacheReq 1, .cacheReq 2, .ack, .ack, .ack, .flushDone 0 true,
     .fwd 1 0 .h2d true, .fwd 2 1 .d2h true, .done 2 1 .d2h true, .done 1 0 .h2d true] := by decide +kernel

/-- **(a) No copy request reaches the DMA engine while a flush is in progress** — both directions.
    Whenever the log contains a forward event, then before it every flush that was started had been
    answered and every cache flush request that was sent had been acknowledged. -/
theorem cp_no_copy_during_flush (n cin cdrv cdma ccache : Nat) (ops : List CpOp)
    (pre post : List CpEv) (ev : CpEv) (hf : ev.isFwd = true)
    (hlog : (reachCp n cin cdrv cdma ccache ops).s.log = pre ++ ev :: post) :
    pre.filterMap CpEv.flushStart? = pre.filterMap CpEv.flushDone? ∧
    (pre.filterMap CpEv.cacheIdx?).length = pre.countP CpEv.isAck := by
  obtain ⟨q, hq⟩ := cp_flush_protocol n cin cdrv cdma ccache ops
  rw [hlog] at hq
  exact accepted_fwd_idle hf hq

/-- back-pressure everywhere (all capacities 1 or 2): the copy waits for both acknowledgements -/
example : (reachCp 2 1 1 1 2 [.req .flush, .req .h2d, .tick, .req .h2d, .tick, .takeCache 1, .takeCache 1,
      .ack 1, .tick, .ack 0, .ack 0, .tick, .tick, .tick]).s.log =
    [.flushStart 0, .cacheReq 0, .cacheReq 1, .ack, .ack, .flushDone 0 true, .fwd 1 0 .h2d true] := by
  decide +kernel

/-- **(c) A flush is acknowledged exactly once and only after every cache acknowledged.** Whenever
    the answer to flush request `f` is produced: the request was accepted earlier, between acceptance
    and answer exactly the caches `0 … n-1` were asked (each once) and exactly `n` acknowledgements
    were processed, no copy was forwarded in between, and the answer to `f` is produced nowhere else
    in the log. -/
theorem cp_flush_acked_once_after_all_caches (n cin cdrv cdma ccache : Nat) (ops : List CpOp)
    (pre post : List CpEv) (f : Nat) (b : Bool)
    (hlog : (reachCp n cin cdrv cdma ccache ops).s.log = pre ++ .flushDone f b :: post) :
    (∃ p1 p2, pre = p1 ++ .flushStart f :: p2 ∧ p2.filterMap CpEv.cacheIdx? = List.range n ∧
      p2.countP CpEv.isAck = n ∧ ∀ ev ∈ p2, ev.isFwd = false) ∧
    f ∉ pre.filterMap CpEv.flushDone? ∧ f ∉ post.filterMap CpEv.flushDone? := by
  obtain ⟨q, hq⟩ := cp_flush_protocol n cin cdrv cdma ccache ops
  have hnd := (reach_all n cin cdrv cdma ccache ops).1.flushDone_nodup
  rw [hlog] at hq hnd
  exact accepted_flushDone hq hnd

/-- without caches a flush is answered in the same `Handle` call -/
example : (reachCp 0 4 4 4 4 [.req .flush, .req .flush, .tick]).s.log =
    [.flushStart 0, .flushDone 0 true, .flushStart 1, .flushDone 1 true] := by decide +kernel

/-- **(b) Every copy request is forwarded exactly once, in arrival order.** While no fault occurred:
    the requests the driver port accepted (ids `0,1,2,…`, all distinct) are exactly the requests the
    CP has taken from the port (one `flushStart` / `fwd` event each, in arrival order, same kind)
    followed by those still waiting in the port; the clones the DMA side has seen plus those waiting
    in ToDMA are exactly the successfully sent `fwd` events in order, each carrying the payload of its
    original; clone ids are pairwise distinct. -/
theorem cp_copies_forwarded_once_in_order (n cin cdrv cdma ccache : Nat) (ops : List CpOp) :
    let e := reachCp n cin cdrv cdma ccache ops
    e.sent.map (·.id) = List.range e.sent.length ∧
    (e.s.fault = none → e.sent = e.s.log.filterMap CpEv.popped? ++ e.s.drvIn) ∧
    e.dmaSeen ++ e.s.dmaOut = e.s.log.filterMap CpEv.clone? ∧
    (e.s.log.filterMap CpEv.fwdCid?).Nodup := by
  obtain ⟨h, _⟩ := reach_all n cin cdrv cdma ccache ops
  refine ⟨h.pop.ids, fun hf => ?_, h.copy.clones, ?_⟩
  · obtain ⟨r, hr, hg⟩ := h.pop.popped
    rw [← hg hf]; exact hr
  · rw [h.copy.cids]; exact List.nodup_range

example : (reachCp 3 8 8 8 8 demoCpOps).dmaSeen = [⟨0, 1, .h2d⟩, ⟨1, 2, .d2h⟩] ∧
    (reachCp 3 8 8 8 8 demoCpOps).sent = [⟨0, .flush⟩, ⟨1, .h2d⟩, ⟨2, .d2h⟩] := by decide +kernel

/-- **(b) Every copy is answered exactly once, for the original request.** The answers the driver
    has taken plus those waiting in ToDriver are exactly the successfully sent answer events in order;
    no original request is answered by two `done` events; every `done o c k` event is preceded by the
    successful forward of request `o` as clone `c` with the same kind (the answer carries the ORIGINAL
    request, found through the clone's id), the DMA side did answer clone `c`, and clone `c` produces
    no second `done`. -/
theorem cp_copies_answered_once (n cin cdrv cdma ccache : Nat) (ops : List CpOp) :
    let e := reachCp n cin cdrv cdma ccache ops
    e.drained ++ e.s.drvOut = e.s.log.filterMap CpEv.rsp? ∧
    (e.s.log.filterMap CpEv.doneOrig?).Nodup ∧
    e.answered.Nodup ∧
    ∀ pre post o c k b, e.s.log = pre ++ .done o c k b :: post →
      .fwd o c k true ∈ pre ∧ c ∈ e.answered ∧ (∀ o' k' b', .done o' c k' b' ∉ pre) := by
  obtain ⟨h, _⟩ := reach_all n cin cdrv cdma ccache ops
  refine ⟨h.rsp.rsps, h.copy.done_orig, (List.nodup_append.1 h.copy.ans_nodup).2.1, ?_⟩
  intro pre post o c k b hlog
  obtain ⟨h1, h2⟩ := h.copy.done_pre pre post o c k b hlog
  exact ⟨h1, h.copy.done_ans o c k b (by rw [hlog]; simp), h2⟩

example : (reachCp 3 8 8 8 8 demoCpOps).drained = [⟨0, .flush⟩, ⟨2, .d2h⟩, ⟨1, .h2d⟩] := by decide +kernel

/-- **(d) at full strength: no `Send` of the command processor ever fails silently** — for every
    configuration (any buffer capacities, also 0 or 1), every event order and every amount of
    back-pressure. The repaired `processMemCopyReq` / `processMemCopyRsp` / `processFlushReq` /
    `processCacheFlushRsp` take a message from a port (driver request, DMA answer, last cache
    acknowledgement) only when the `Send` it causes succeeds; otherwise the stage changes nothing,
    reports no progress and is retried by a later tick. With `cp_quiet_all_answered`: whenever the
    system is quiet, every request the driver port accepted has been answered exactly once. -/
def cp_nothing_dropped_full : Prop :=
  ∀ (n cin cdrv cdma ccache : Nat) (ops : List CpOp), ∀ ev ∈ (reachCp n cin cdrv cdma ccache ops).s.log, ev.dropped = false

theorem cp_nothing_dropped : cp_nothing_dropped_full := by
  intro n cin cdrv cdma ccache ops
  exact run_nodrop ops _ (by intro ev hev; cases hev)

/-- one-entry ToDMA buffer that the DMA side does not empty: the second copy request now WAITS in the
    driver port (ticks report no progress) and is forwarded as soon as the DMA side takes the first -/
example :
    (reachCp 0 4 4 1 4 [.req .h2d, .req .h2d, .tick, .tick]).s.log = [.fwd 0 0 .h2d true] ∧
    (reachCp 0 4 4 1 4 [.req .h2d, .req .h2d, .tick, .tick]).s.drvIn = [⟨1, .h2d⟩] ∧
    ((reachCp 0 4 4 1 4 [.req .h2d, .req .h2d, .tick]).step .tick).2 = "t0" ∧
    (reachCp 0 4 4 1 4 [.req .h2d, .req .h2d, .tick, .tick, .takeDma 1, .tick]).s.log =
      [.fwd 0 0 .h2d true, .fwd 1 1 .h2d true] := by decide +kernel

/-- a full ToDriver buffer: the DMA answer, the last cache acknowledgement and a flush without caches
    all wait (nothing consumed, no event), and are served once the driver takes an answer -/
example :
    (reachCp 1 4 1 4 4 [.req .h2d, .tick, .takeDma 1, .rsp 0, .tick, .req .flush, .tick, .takeCache 1, .ack 0,
      .tick, .tick]).s.log = [.fwd 0 0 .h2d true, .done 0 0 .h2d true, .flushStart 1, .cacheReq 0] ∧
    (reachCp 1 4 1 4 4 [.req .h2d, .tick, .takeDma 1, .rsp 0, .tick, .req .flush, .tick, .takeCache 1, .ack 0,
      .tick, .tick]).s.cacheIn = [0] ∧
    (reachCp 1 4 1 4 4 [.req .h2d, .tick, .takeDma 1, .rsp 0, .tick, .req .flush, .tick, .takeCache 1, .ack 0,
      .tick, .tick, .takeDrv 1, .tick]).s.log =
      [.fwd 0 0 .h2d true, .done 0 0 .h2d true, .flushStart 1, .cacheReq 0, .ack, .flushDone 1 true] ∧
    (reachCp 0 4 1 4 4 [.req .flush, .req .flush, .tick, .tick]).s.log = [.flushStart 0, .flushDone 0 true] ∧
    (reachCp 0 4 1 4 4 [.req .flush, .req .flush, .tick, .tick]).s.drvIn = [⟨1, .flush⟩] := by decide +kernel

/-- **(d) Nothing is lost.** In a quiet state (all buffers empty, nothing at the DMA side or the
    caches) without fault, the answers the driver has taken are a permutation of the requests the
    driver port accepted: every request — flush, H2D, D2H — was answered exactly once, whatever
    back-pressure occurred on the way (no hypothesis about dropped messages any more: see
    `cp_nothing_dropped`). (A request refused by a full driver port stays with the driver:
    `CpEnv.step e (.req k)` leaves the state unchanged and answers `full`.) -/
theorem cp_quiet_all_answered (n cin cdrv cdma ccache : Nat) (ops : List CpOp) :
    let e := reachCp n cin cdrv cdma ccache ops
    e.quiet → e.s.fault = none → e.drained.Perm e.sent := by
  intro e hq hf
  exact (reach_all n cin cdrv cdma ccache ops).1.quiet_perm hq hf (cp_nothing_dropped n cin cdrv cdma ccache ops)

example : (reachCp 3 8 8 8 8 demoCpOps).quiet ∧ (reachCp 3 8 8 8 8 demoCpOps).s.fault = none := by
  unfold CpEnv.quiet; decide +kernel

/-- the full statement for the code BEFORE the repair (`reachCpOld`: `Send` errors ignored) -/
def cp_nothing_dropped_before_fix : Prop :=
  ∀ (n cin cdrv cdma ccache : Nat) (ops : List CpOp), ∀ ev ∈ (reachCpOld n cin cdrv cdma ccache ops).s.log, ev.dropped = false

/-- **Refuted before the repair:** `processMemCopyReq` ignored the error of `ToDMA.Send`: with a
    one-entry ToDMA buffer that the DMA side does not empty, the second copy request was taken from the
    driver port and its clone dropped (the same happened at 4096 entries with 4097 requests —
    reproduced on the real component before the repair, oracle `C11.cp.dropped-under-backpressure`). -/
theorem cp_nothing_dropped_before_fix_refuted : ¬ cp_nothing_dropped_before_fix := by
  intro h
  have := h 0 4 4 1 4 [.req .h2d, .req .h2d, .tick] (.fwd 1 1 .h2d false) (by decide +kernel)
  simp [CpEv.dropped] at this

/-- **No panic.** When ToCaches can hold one flush request per cache (`n ≤ ccache`), the CP never
    faults, for every event order: `flushCache`'s `panic(err)`, the `panic("never")` of
    `findAndRemoveOriginalMemCopyRequest` and the nil dereference of `currFlushRequest` are unreachable
    (and `numCacheACK` never wraps). -/
theorem cp_no_fault (n cin cdrv cdma ccache : Nat) (ops : List CpOp) (hcap : n ≤ ccache) :
    (reachCp n cin cdrv cdma ccache ops).s.fault = none := by
  exact (reach_all n cin cdrv cdma ccache ops).2.2.2 hcap

example : (reachCp 3 8 8 8 2 [.req .flush, .tick]).s.fault = some "cache_send" := by decide +kernel

end C11
