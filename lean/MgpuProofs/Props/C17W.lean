import MgpuProofs.C17WInv
import MgpuProofs.C17WPay
import MgpuProofs.C17Ref
import MgpuProofs.C17WBnd
import MgpuProofs.C17WQuiet
import MgpuProofs.Props.C17Pay
/-! # C17 — the repaired `simplebankedmemory` for EVERY pipeline width

Second `fix:` commit: `finalizeSingle` answers the requests of a bank in the order they entered its pipeline
(`bank.inOrder`); a younger request that reaches the post-pipeline buffer first is set aside. The model of this code is
`WBank / WState / tickW / runW` in `MgpuModel/C17.lean`; the driver answers every case line from it.
Here: the safety half of the property (order, one response each, flat-memory semantics, payloads) **without the width
hypothesis**, the refinement theorem that carries the width-1 liveness theorems (stated on `run`) over to `runW`, and the
bound on what a bank sets aside. Proof files: `C17WDefs` (invariant: the bag of items in lanes / post buffer / set aside
is `order`; only the oldest can be committed-but-unanswered), `C17WInv`, `C17WPay`, `C17Ref`, `C17WBnd`. -/
namespace C17

/-- **Same bank ⇒ arrival order, every width.** For every configuration (any number of lanes, stages, banks, buffer
sizes, row-buffer timing on or off, converter, capacity — no hypothesis at all) and every sequence of deliveries, ticks
and drains, the requests committed so far by bank `k` are, in commit order, a prefix of the requests that arrived for bank
`k` in arrival order. -/
theorem same_bank_same_address_all_widths (c : Cfg) (ops : List Op) (k : Nat) :
    ((runW c ops).log.filter (inB c k)).reverse <+: (runW c ops).arrived.filter (inB c k) :=
  ⟨_, (run_invW c ops).i k⟩

/-- **One response each, every width**: no request is answered twice, only delivered requests are answered, and once
nothing is in flight every delivered request has been answered. -/
theorem one_response_each_all_widths (c : Cfg) (ops : List Op) :
    ((runW c ops).resp.map (·.req)).Nodup ∧
    (∀ rsp ∈ (runW c ops).resp, rsp.req ∈ (runW c ops).arrived) ∧
    ((∀ k, chainW c (runW c ops) k = []) → ∀ r ∈ (runW c ops).arrived, r ∈ (runW c ops).resp.map (·.req)) :=
  one_response_each_W c _ (run_invW c ops)

/-- **Memory semantics at every commit point**, repaired code: in every reachable state, for every bank, the request `r`
that commits next (the head of the bank's uncommitted requests `uncW` — entry order into the pipeline, then delay queue,
pending list, port buffer) finds on every byte of its footprint exactly the contents of a flat byte array to which the
requests that **arrived before `r`** were applied in arrival order. -/
def MemSemanticsW (c : Cfg) : Prop :=
  ∀ ops : List Op, (∀ op ∈ ops, opFits c op) →
    ∀ (k : Nat) (r : Req) (rest : List Req), uncW c (runW c ops) k = r :: rest →
      ∀ x, touches x r = true →
        readByte (runW c ops).log x = readByte ((runW c ops).arrived.take r.id).reverse x

/-- **The full statement holds of the repaired code**: every width, depth, latency, bank count, interleave, row size,
row-miss delay, buffer size; requests inside one interleave block; a bank address converter, if installed, keeps
interleave blocks together (`ConvOk`, `True` without converter). (`mem_semantics_full` of `Props/C17.lean` is the same
statement about the code before this repair and stays refuted there: width 2.) -/
theorem mem_semantics_all_widths (c : Cfg) (hc : ConvOk c) : MemSemanticsW c := by
  intro ops hops k r rest hh x ht
  exact headW_sees_flat c hc (runW c ops) (run_invW c ops) (runW_fits c ops hops) k r rest hh x ht

/-- non-vacuity: a 4-lane, 3-stage configuration with row-buffer timing; and MI300A with its converter -/
example : MemSemanticsW ⟨4, 6, 4, 3, 2, 9, 5, 2, 2, none, none⟩ := mem_semantics_all_widths _ trivial
example : MemSemanticsW mi300aConv := mem_semantics_all_widths _ (by decide)

/-- **The witness of the lane-order defect on the repaired code** (`w2`, `w2ops` of `Props/C17.lean`: 1 bank, width 2,
depth 1, post buffer 1, port buffer 1): the read of 0x80 is now answered `bb`, after the write that arrived before it;
request 3 was set aside for a while. Runs on the real component in every check (`harness/c17_w.go`). -/
theorem width2_witness_repaired :
    ((runW w2 (w2ops ++ [.out 8, .tick, .out 8, .tick, .out 8, .tick, .out 8])).resp.map fun r => (r.req.id, r.data))
      = [(0, []), (1, []), (2, []), (3, []), (4, [0xbb])] ∧
    ((run w2 (w2ops ++ [.out 8, .tick, .out 8, .tick, .out 8, .tick, .out 8])).resp.map fun r => (r.req.id, r.data))
      = [(0, []), (1, []), (2, []), (4, [0xaa]), (3, [])] := by
  decide +kernel

/-- `ConvOk` cannot be dropped: the statement for arbitrary converters -/
def mem_semantics_any_converter : Prop := ∀ c : Cfg, 0 < c.banks → MemSemanticsW c

/-- **Refuted without `ConvOk`** (any width; here 1): `InterleavingConverter` with offset 32 and 64-byte chunks splits
the interleave block 0x40…0x7f — 0x5e is converted to 0x1e (bank 0), 0x60 to 0x60 (bank 1). A write of `aa bb cc dd` at
0x5e and a later read of 0x60 both fit the block, yet go to different banks: the read is next to commit in bank 1 while
the write has not been committed — flat arrival-order memory holds `cc` at 0x60, the storage 0. The same requests on the
real component: the read is answered `00` (`harness/c17_w.go`, part 5). -/
theorem mem_semantics_any_converter_refuted : ¬ mem_semantics_any_converter := by
  intro h
  have := h ⟨2, 6, 1, 1, 1, 0, 0, 1, 4, some ⟨64, 1, 0, 32⟩, none⟩ (by decide)
    [.deliver .wr 0x40 1 [0x11] none, .deliver .wr 0x5e 4 [0xaa, 0xbb, 0xcc, 0xdd] none, .deliver .rd 0x60 1 [] none]
    (by decide) 1 ⟨2, .rd, 0x60, 1, [], none⟩ [] (by decide +kernel) 0x60 (by decide)
  revert this
  decide +kernel

/-! ### what the responses carry, every width -/

/-- **Every response belongs to exactly one commit and carries what lay below it** — every width. -/
theorem response_payload_committed_all_widths (c : Cfg) (ops : List Op) :
    (runW c ops).log.Nodup ∧
    ∀ x ∈ (runW c ops).resp, ∃ newer older, (runW c ops).log = newer ++ x.req :: older ∧
      (x.req.kind = .rd → x.data = readRange older x.req.addr x.req.len) ∧ (x.req.kind = .wr → x.data = []) :=
  ⟨logW_nodup c _ (run_invW c ops), (run_payW c ops).rsp⟩

/-- **Read responses carry flat arrival-order memory** — every width: the data of every read response ever sent equals,
byte for byte, a flat byte array to which exactly the requests that arrived before the read were applied in arrival
order. This is the property's statement on the messages of the Top port, for all configurations. -/
theorem read_response_payload_all_widths (c : Cfg) (hc : ConvOk c) (ops : List Op) (hops : ∀ op ∈ ops, opFits c op) :
    ∀ x ∈ (runW c ops).resp, x.req.kind = .rd →
      x.data = readRange ((runW c ops).arrived.take x.req.id).reverse x.req.addr x.req.len := by
  intro x hx hk
  have hinv := run_invW c ops
  have hfit := runW_fits c ops hops
  obtain ⟨newer, older, hlog, hrd, _⟩ := (run_payW c ops).rsp x hx
  rw [hrd hk]
  unfold readRange
  apply List.map_congr_left
  intro i hi
  have hi' : i < x.req.len := List.mem_range.1 hi
  have hxa : x.req ∈ (runW c ops).arrived := logW_sub_arrived c _ hinv _ (by rw [hlog]; simp)
  have ht : touches (x.req.addr + i) x.req = true := by
    simp only [touches, Req.size, hk, decide_eq_true_eq]; omega
  apply carriedW_byte_flat c _ hinv x.req newer older hlog
  intro r' hr' ht'
  rw [bank_of_touch c hc r' _ (hfit r' hr') ht', bank_of_touch c hc x.req _ (hfit _ hxa) ht]

/-- the weaker guarantee without any block assumption, every width: flat on every byte whose accessors were all routed
to the committing request's bank -/
theorem mem_semantics_routed_all_widths (c : Cfg) (ops : List Op) (k : Nat) (r : Req) (rest : List Req)
    (hh : uncW c (runW c ops) k = r :: rest) (x : Nat)
    (hroute : ∀ r' ∈ (runW c ops).arrived, touches x r' = true → bankOf c r'.addr = k) :
    readByte (runW c ops).log x = readByte ((runW c ops).arrived.take r.id).reverse x :=
  headW_sees_flat_routed c _ (run_invW c ops) k r rest hh x hroute

/-- … and on the responses -/
theorem read_response_payload_routed_all_widths (c : Cfg) (ops : List Op) :
    ∀ x ∈ (runW c ops).resp, x.req.kind = .rd → ∀ i, i < x.req.len →
      (∀ r' ∈ (runW c ops).arrived, touches (x.req.addr + i) r' = true → bankOf c r'.addr = bankOf c x.req.addr) →
      x.data.getD i 0 = readByte ((runW c ops).arrived.take x.req.id).reverse (x.req.addr + i) := by
  intro x hx hk i hi hroute
  obtain ⟨newer, older, hlog, hrd, _⟩ := (run_payW c ops).rsp x hx
  rw [hrd hk, ← carriedW_byte_flat c _ (run_invW c ops) x.req newer older hlog _ hroute]
  simp [readRange, List.getD_eq_getElem?_getD, hi]

/-- **At most one response per request, carrying the request's identity** — every width. -/
theorem at_most_one_response_all_widths (c : Cfg) (ops : List Op) (r : Req) (hr : r ∈ (runW c ops).arrived) :
    ((runW c ops).resp.map (·.req)).count r ≤ 1 ∧ ∀ x ∈ (runW c ops).resp, x.req.id = r.id → x.req = r := by
  obtain ⟨hnd, hsub, _⟩ := one_response_each_all_widths c ops
  refine ⟨List.nodup_iff_count.1 hnd r, ?_⟩
  intro x hx hid
  have hinv := run_invW c ops
  have hxa := hsub x hx
  obtain ⟨i, hi, hxi⟩ := List.getElem_of_mem hxa
  obtain ⟨j, hj, hrj⟩ := List.getElem_of_mem hr
  have e1 : ((runW c ops).arrived.map (·.id))[i]'(by simpa using hi) = i := by simp only [hinv.ids]; simp
  have e2 : ((runW c ops).arrived.map (·.id))[j]'(by simpa using hj) = j := by simp only [hinv.ids]; simp
  simp only [List.getElem_map, hxi, hrj] at e1 e2
  have : i = j := by omega
  subst this
  rw [← hxi, ← hrj]

/-- non-vacuity: width 2 witness — the read response carries `bb` = flat memory of the four writes before it -/
example : ∀ x ∈ (runW w2 (w2ops ++ [.out 8, .tick, .out 8, .tick, .out 8, .tick, .out 8])).resp, x.req.kind = .rd →
    x.data = readRange ((runW w2 (w2ops ++ [.out 8, .tick, .out 8, .tick, .out 8, .tick, .out 8])).arrived.take
      x.req.id).reverse x.req.addr x.req.len :=
  read_response_payload_all_widths w2 trivial _ (by decide +kernel)

/-! ### one lane: the repaired code is the code the liveness theorems were proved for -/

/-- **Refinement.** With one lane the repaired component never sets a request aside, and forgetting the new bookkeeping
(`WState.base`) gives, for every op sequence, exactly the state of the first model — on which `Props/C17Live.lean`,
`Props/C17Fair.lean` state liveness. (The driver also checks this on every width-1 case line.) -/
theorem one_lane_refines (c : Cfg) (hw : c.width = 1) (ops : List Op) :
    (runW c ops).base = run c ops ∧ (∀ b ∈ (runW c ops).banks, b.early = []) ∧
    (tickFlagsW c (runW c ops)).1 = (tickFlags c (run c ops)).1 ∧
    (tickFlagsW c (runW c ops)).2.isSome = (tickFlags c (run c ops)).2 :=
  ⟨w1_refines c hw ops, w1_never_sets_aside c hw ops, w1_flags c hw ops⟩

theorem resp_base (s : WState) : s.base.resp = s.resp := rfl
theorem arrived_base (s : WState) : s.base.arrived = s.arrived := rfl

/-- **Liveness of the repaired code (one lane)**: `liveness_bounded` transported along the refinement — an accepted
request is answered once the continuation contains `remaining` ticks in which the port took its bank's responses. -/
theorem liveness_bounded_repaired (c : Cfg) (hw : c.width = 1) (hd : 0 < c.depth) (hp : 0 < c.post) (hb : 0 < c.banks)
    (ops1 ops2 : List Op) (hok : ∀ op ∈ ops1 ++ ops2, opOk c op) (r : Req) (hr : r ∈ (runW c ops1).arrived)
    (hn : remaining c (run c ops1) r ≤ acceptingTicks c (bankOf c r.addr) (run c ops1) ops2) :
    r ∈ (runW c (ops1 ++ ops2)).resp.map (·.req) := by
  rw [← resp_base, w1_refines c hw]
  rw [← arrived_base, w1_refines c hw] at hr
  exact liveness_bounded c hw hd hp hb ops1 ops2 hok r hr hn

/-- … with the explicit bound `(ahead + 1) · latencyBound` -/
theorem liveness_explicit_repaired (c : Cfg) (hw : c.width = 1) (hd : 0 < c.depth) (hp : 0 < c.post) (hb : 0 < c.banks)
    (ops1 ops2 : List Op) (hok : ∀ op ∈ ops1 ++ ops2, opOk c op) (r : Req) (hr : r ∈ (runW c ops1).arrived)
    (hn : (ahead c (run c ops1) r + 1) * latencyBound c ≤ acceptingTicks c (bankOf c r.addr) (run c ops1) ops2) :
    r ∈ (runW c (ops1 ++ ops2)).resp.map (·.req) := by
  rw [← resp_base, w1_refines c hw]
  rw [← arrived_base, w1_refines c hw] at hr
  exact liveness_explicit c hw hd hp hb ops1 ops2 hok r hr hn

/-- **No panic on well-formed traffic, repaired code (one lane).** -/
theorem no_panic_repaired (c : Cfg) (hw : c.width = 1) (ops : List Op) (hok : ∀ op ∈ ops, opOk c op) :
    (tickFlagsW c (runW c ops)).2 = none := by
  have h := (w1_flags c hw ops).2
  rw [no_panic_on_ok_traffic c hw ops hok] at h
  cases hf : (tickFlagsW c (runW c ops)).2 with
  | none => rfl
  | some k => rw [hf] at h; cases h

/-- non-vacuity: MI300A parameters, the write/read scenario of `Props/C17Live.lean` on the repaired model -/
example : wr0 ∈ (runW mi300aL ([.deliver .wr 0x40 4 [1, 2, 3, 4] none] ++
    (.tick :: .deliver .rd 0x40 4 [] none :: List.replicate 59 .tick))).resp.map (·.req) :=
  liveness_bounded_repaired mi300aL rfl (by decide) (by decide) (by decide) _ _ (by decide +kernel) wr0 (by decide +kernel)
    (by decide +kernel)

/-! ### the repair buffers a bounded number of requests -/

/-- **Bounded set-aside.** In every reachable state of every configuration a bank has set aside at most
`width · depth + post` requests (what its pipeline and post-pipeline buffer can hold): while something is set aside the
bank accepts nothing, so the older request it waits for leaves the pipeline. Also: the lanes keep their shape, the
post-pipeline buffer never exceeds its capacity, and `inOrder` has exactly one entry per item in lanes / buffer / set aside. -/
theorem set_aside_is_bounded (c : Cfg) (ops : List Op) : ∀ b ∈ (runW c ops).banks,
    b.early.length ≤ c.width * c.depth + c.post ∧ b.post.length ≤ c.post ∧ b.lanes.length = c.width ∧
    b.order.length = b.early.length + b.post.length + laneCount b.lanes := by
  intro b hb
  have h1 := run_bndW c ops b hb
  exact ⟨set_aside_bounded c ops b hb, h1.post, h1.nl, order_length_of_bankOk c b ((run_invW c ops).ok b hb)⟩

/-- non-vacuity: in the width-2 witness the read (request 4, lane 0) reaches the post-pipeline buffer before the write
`bb` (request 3, lane 1) and is set aside until the write is answered -/
example : ((runW w2 (w2ops ++ [.out 8, .tick])).banks.map fun b => (b.early.map (·.req.id), b.order.map (·.id)))
    = [([4], [3, 4])] := by decide +kernel

/-! ### the component never falls asleep on pending work -/

/-- **Quiescence is correct, every width.** An Akita `TickingComponent` stops ticking when `Tick()` returns false and is
woken only by port events. If a tick of a reachable state reports no progress (and does not panic) although the outgoing
port buffer has room, then nothing is in flight — port buffer, pending list, delay queues, lanes, post-pipeline buffers and
set-aside lists are empty — and every accepted request has been answered. (With a full outgoing buffer the component may
rightly wait: the port wakes it when the buffer is read.) Hypotheses = the builder's positivity checks. This is why the
set-aside step of `finalizeSingle` reports progress. -/
theorem quiet_means_done (c : Cfg) (hw : 0 < c.width) (hd : 0 < c.depth) (hp : 0 < c.post) (hb : 0 < c.banks)
    (ops : List Op) (hq : tickFlagsW c (runW c ops) = (false, none)) (hroom : (runW c ops).outBuf.length < c.top) :
    (∀ k, chainW c (runW c ops) k = []) ∧ ∀ r ∈ (runW c ops).arrived, r ∈ (runW c ops).resp.map (·.req) :=
  ⟨quiet_means_idle c hw hd hp hb ops hq hroom, quiet_means_all_answered c hw hd hp hb ops hq hroom⟩

/-- non-vacuity: the width-2 witness, drained — the next tick is quiet with room in the port; five requests, five answers -/
example : tickFlagsW w2 (runW w2 (w2ops ++ [.out 8, .tick, .out 8, .tick, .out 8, .tick, .out 8])) = (false, none) ∧
    (runW w2 (w2ops ++ [.out 8, .tick, .out 8, .tick, .out 8, .tick, .out 8])).outBuf.length < w2.top ∧
    (runW w2 (w2ops ++ [.out 8, .tick, .out 8, .tick, .out 8, .tick, .out 8])).arrived.length = 5 := by decide +kernel

end C17
