import MgpuProofs.C12_E2E
import MgpuProofs.Props.C12_K
import MgpuProofs.Props.C12_Wake
/-!
# C12 (end to end) — one run, both models: `owed` (W) is `willSignal ∨ r = tick` (K)

`C12.W` proves "work ⇒ a tick is scheduled, OR a signal is owed" with `owed` a free flag set by the
event `enq` and cleared by the event `kick`; `C12.K` proves that a thread that has changed a queue
always delivers its `enqueueSignal`. Until now the notes only SAID that the first flag is the second
condition. `C12.E` runs both in one state (application threads + `runAsync` + engine goroutine on the
protocol state of `K`; the tick event = `Driver.Tick` on the component read off that state; `owed`
a ghost flag that moves exactly as in `W.step`) and the link is a theorem:

* `refines_K` / `run_refines_K` — every step / run is a (non-empty) run of `K.step` on the protocol part;
* `refines_W` / `run_refines_W` — every step / run is a run of `W.step` over the stages of
  `Driver.Tick` (`enq` at the append of `Enqueue`, `kick` at `runAsync`'s `TickLater`, `tick` when the
  engine handles the event; everything else is invisible to `W`);
* `owed_implies_signal_pending` — the hypothesis "signal owed" of `W.no_lost_wakeup` is implied by the
  protocol state: some thread `willSignal`, or `r = tick`;
* `driver_never_asleep_with_work`, `work_is_served`, `drain_terminates`, `end_to_end_one_thread`.
All for ANY number of threads and queues unless said otherwise; commands are the ones `K`'s tick
completes (Noop-like: started and dequeued by `processNewCommand`).
-/
namespace C12
namespace E

/-- **Refinement to `K`, one step.** A step of the composed model (an application thread, `runAsync`,
    or the engine goroutine — which handles the driver's tick event as one action) is a NON-EMPTY run
    of `K.step` on the protocol part: the step of that thread, then the engine steps inside the tick. -/
theorem refines_K {s s' : St} {t : K.Th} (h : step s t = some s') :
    ∃ ts, K.runSched s.k (t :: ts) = some s'.k := by
  obtain ⟨k1, h1, ts, h2⟩ := step_k h
  exact ⟨ts, by simp [K.runSched, h1, h2]⟩

/-- **Refinement to `K`, runs.** Every run of the composed model projects to a run of `K`, and every
    reachable state projects to a `K`-reachable state — all `K` theorems (`K.fifo`,
    `K.drain_returns_only_when_empty`, `K.no_lost_wakeup`, …) hold of `s.k`. -/
theorem run_refines_K (ts : List K.Th) : ∀ (s s' : St), runSched s ts = some s' → K.IsRun s.k s'.k := by
  induction ts with
  | nil => intro s s' h; simp [runSched] at h; subst h; exact K.IsRun.refl _
  | cons t ts ih =>
    intro s s' h
    simp only [runSched] at h
    cases hs : step s t with
    | none => simp [hs] at h
    | some s1 =>
      simp only [hs] at h
      obtain ⟨k1, h1, h2⟩ := step_k hs
      exact ((K.IsRun.of_step t h1).trans h2).trans (ih s1 s' h)

theorem reach_is_K_reach {s : St} (h : Reach s) : K.Reach s.k := reach_k h

/-- **Refinement to `W`, one step.** In a reachable state, a step of the composed model is a
    (possibly empty) run of Akita's sleep/wake rule `W.step` over the stages of `Driver.Tick`
    (`sendToGPUs`, the memory-copy middleware, `processReturnReq`, `processNewCommand`) on the component
    read off the protocol state, with `awake` = `K`'s `evt` and `owed` = the ghost flag. -/
theorem refines_W (inCap outCap : Nat) {s s' : St} {t : K.Th} (hr : Reach s) (h : step s t = some s') :
    ∃ evs, sysOf s' = W.run inCap outCap (W.Drv.stages outCap) (sysOf s) evs :=
  (step_w inCap outCap (noMid_reach hr) h).2

/-- **Refinement to `W`, runs.** -/
theorem run_refines_W (inCap outCap : Nat) (ts : List K.Th) : ∀ (s s' : St), Reach s → runSched s ts = some s' →
    ∃ evs, sysOf s' = W.run inCap outCap (W.Drv.stages outCap) (sysOf s) evs := by
  induction ts with
  | nil => intro s s' _ h; simp [runSched] at h; subst h; exact ⟨[], rfl⟩
  | cons t ts ih =>
    intro s s' hr h
    simp only [runSched] at h
    cases hs : step s t with
    | none => simp [hs] at h
    | some s1 =>
      simp only [hs] at h
      obtain ⟨e1, h1⟩ := refines_W inCap outCap hr hs
      obtain ⟨e2, h2⟩ := ih s1 s' (Reach.step t hr hs) h
      exact ⟨e1 ++ e2, by rw [h2, h1]; simp [W.run, List.foldl_append]⟩

/-- **The link.** `W`'s flag "an application thread has changed the queues and its signal has not yet
    led to `runAsync`'s `TickLater`" is implied by the protocol state of `K`: some application thread
    still owes its `d.enqueueSignal <- true` (`willSignal`: between API calls with calls left, inside
    `Enqueue`, or at / blocked in the send), or `runAsync` has received it and is about to call
    `TickLater` (`r = tick`). For every number of threads and queues, all scripts that end with a
    drain, every interleaving. -/
theorem owed_implies_signal_pending {s : St} (h : Reach s) (ho : s.owed = true) :
    (∃ a ∈ s.k.apps, K.willSignal a) ∨ s.k.r = .tick :=
  link_reach h ho

/-- **The driver is never asleep with work — no hypothesis on `owed`.** In every reachable state of
    the composed model: if `Driver.Tick` has something to do (a message in the GPU port, a startable
    command, a sendable request — `W.Drv.work`), then its tick event is scheduled, or a thread still
    owes the signal, or `runAsync` is about to schedule it. `W.no_lost_wakeup_generic` along the
    `W`-run of `run_refines_W`, its `owed` alternative discharged by `owed_implies_signal_pending`. -/
theorem driver_never_asleep_with_work (outCap : Nat) {s : St} (h : Reach s)
    (hw : W.Drv.work outCap (coreOf s.k)) :
    s.k.evt = true ∨ (∃ a ∈ s.k.apps, K.willSignal a) ∨ s.k.r = .tick := by
  rcases winv_reach outCap h hw with ha | ho
  · exact Or.inl ha
  · exact Or.inr (owed_implies_signal_pending h ho)

/-- … and the scheduled tick event is one the engine goroutine will handle (`K.willLook`: the engine
    is running and will come back to the event queue, or `runAsync` is about to start it / set
    `enginePending`) — the part `W` cannot see, supplied by `K`'s invariant on the same state. -/
theorem work_is_served (outCap : Nat) {s : St} (h : Reach s) (hw : W.Drv.work outCap (coreOf s.k)) :
    (s.k.evt = true ∧ K.willLook s.k) ∨ (∃ a ∈ s.k.apps, K.willSignal a) ∨ s.k.r = .tick := by
  have hq : ∃ q, K.cmdsOf s.k q ≠ [] := by
    rcases hw with hw | ⟨q, hq, hs⟩ | ⟨hw, _⟩
    · simp [coreOf] at hw
    · simp only [coreOf, List.mem_map] at hq
      obtain ⟨x, hx, rfl⟩ := hq
      obtain ⟨j, hj⟩ := List.mem_iff_getElem?.mp hx
      refine ⟨j, ?_⟩
      have hne : x.cmds ≠ [] := by
        intro hn; apply hs.1; simp [qOf, hn]
      simpa [K.cmdsOf, K.cmdsAt, hj] using hne
    · simp [coreOf] at hw
  obtain ⟨q, hq⟩ := hq
  rcases K.no_lost_wakeup (reach_k h) q hq with hs | hs
  · rcases hs with hs | hs | hs
    · exact Or.inr (Or.inr hs)
    · exact Or.inl hs
    · exfalso
      have hn := noMid_reach h
      unfold NoMid at hn
      cases he : s.k.e <;> simp [he, K.isTickPc, K.midTick] at hn hs
  · exact Or.inr (Or.inl hs)

/-- the composed model can move exactly when `K` can (the decoration blocks nothing) -/
theorem no_stuck_state {s : St} (h : Reach s) (hst : stuck s) : K.finished s.k :=
  K.no_stuck_state (reach_k h) fun t => (step_none_iff s t).mp (hst t)

/-- **Termination in the composed model.** From every reachable state, however the threads are
    interleaved, within `K.measure s.k` steps every application thread has returned from all its
    `DrainCommandQueue` calls. -/
theorem drain_terminates {s : St} (h : Reach s) : ∀ n, K.measure s.k ≤ n → AllRunsFinish n s := by
  intro n
  induction n generalizing s with
  | zero =>
    intro hm
    refine no_stuck_state h fun t => ?_
    cases hstep : step s t with
    | none => rfl
    | some s' => have := step_measure hstep; omega
  | succ n ih =>
    intro hm
    by_cases hfin : K.finished s.k
    · exact Or.inl hfin
    · refine Or.inr ⟨?_, ?_⟩
      · refine Classical.byContradiction fun hn => hfin (no_stuck_state h fun t => ?_)
        cases hstep : step s t with
        | none => rfl
        | some s' => exact absurd ⟨t, s', hstep⟩ hn
      · intro t s' hstep
        have := step_measure hstep
        exact ih (Reach.step t h hstep) (by omega)

/-- **End to end, one application thread.** For ANY script of `Enqueue(q)` / `DrainCommandQueue(q)`
    calls that ends with a drain, any number of queues and ANY interleaving `ts` of the application
    thread, `runAsync` and the engine goroutine, the state `s` reached satisfies in the SAME run:
    (K) every maximal continuation ends with all `DrainCommandQueue` calls returned, within
    `K.measure s.k` steps; (W) whenever `Driver.Tick` has work, its tick event is scheduled and will
    be handled, or the thread still owes its signal, or `runAsync` is about to call `TickLater`;
    and when the thread has finished and `runAsync` is back in its `select`, work ⇒ scheduled and handled.
    No hypothesis links the two models: `owed` is `owed_implies_signal_pending`. -/
theorem end_to_end_one_thread (script : List K.Op) (nq : Nat) (hok : K.okScript script = true)
    (ts : List K.Th) (s : St) (hrun : runSched (init [script] nq) ts = some s) (outCap : Nat) :
    AllRunsFinish (K.measure s.k) s ∧
    (s.owed = true → (∃ a ∈ s.k.apps, K.willSignal a) ∨ s.k.r = .tick) ∧
    (W.Drv.work outCap (coreOf s.k) →
      (s.k.evt = true ∧ K.willLook s.k) ∨ (∃ a ∈ s.k.apps, K.willSignal a) ∨ s.k.r = .tick) ∧
    (K.finished s.k → s.k.r = .idle → W.Drv.work outCap (coreOf s.k) → s.k.evt = true ∧ K.willLook s.k) := by
  have hr : Reach s := reach_of_runSched ts _ s (Reach.init [script] nq (by simpa using hok)) hrun
  refine ⟨drain_terminates hr _ (Nat.le_refl _), owed_implies_signal_pending hr, work_is_served outCap hr, ?_⟩
  intro hfin hidle hw
  rcases work_is_served outCap hr hw with h1 | ⟨a, ha, hws⟩ | h1
  · exact h1
  · exfalso
    obtain ⟨hp, hsc⟩ := hfin a ha
    simp [K.willSignal, hp, hsc] at hws
  · rw [hidle] at h1; cases h1

/-! ### the hypothesis on the scripts is needed (as in `K.no_stuck_state_any_script_refuted`) -/

/-- the link for ARBITRARY scripts (also scripts that end with an `Enqueue`) -/
def owed_link_any_script : Prop :=
  ∀ (scripts : List (List K.Op)) (nq : Nat) (ts : List K.Th) (s : St),
    runSched (init scripts nq) ts = some s → s.owed = true → (∃ a ∈ s.k.apps, K.willSignal a) ∨ s.k.r = .tick

/-- **`Driver.Enqueue` alone does not wake the driver.** A thread whose last call is an `Enqueue`
    leaves `owed` set with nobody who will ever signal: the driver sleeps with a startable command
    (`W.Full.signal_owed_hypothesis_needed` is this state seen from `W`). -/
theorem owed_link_any_script_refuted : ¬ owed_link_any_script := by
  intro h
  have := h [[.enq 0]] 1 [.app 0, .app 0] _ rfl (by decide)
  revert this
  decide

/-! ### non-vacuity: one thread, `Enqueue; DrainCommandQueue` on one queue -/

def demoInit : St := init [[.enq 0, .drain 0]] 1
/-- append · NotifyAll · Subscribe · signal · TickLater · flag test (engine started) · `Run` · tick event -/
def demoSched : List K.Th := [.app 0, .app 0, .app 0, .app 0, .async, .async, .eng, .eng]

-- after the append: work, no tick scheduled, `owed` set, the thread `willSignal`
example : (runSched demoInit [.app 0]).map (fun (s : St) => (s.owed, s.k.evt, decide (∃ a ∈ s.k.apps, K.willSignal a),
    decide (∃ q ∈ (coreOf s.k).d.qs, W.Drv.startable q))) = some (true, false, true, true) := by decide
-- after the signal: `r = tick`, still owed, nobody `willSignal`
example : (runSched demoInit [.app 0, .app 0, .app 0, .app 0]).map (fun s => (s.owed, s.k.evt, s.k.r,
    decide (∃ a ∈ s.k.apps, K.willSignal a))) = some (true, false, .tick, false) := by decide
-- after `TickLater`: not owed, tick scheduled (W's `kick`)
example : (runSched demoInit (demoSched.take 5)).map (fun s => (s.owed, s.k.evt)) = some (false, true) := by decide
-- the tick event as one action: command dequeued, progress ⇒ re-scheduled; the projection to `W` is `W.step … .tick`
example : (runSched demoInit demoSched).map (fun s => (K.cmdsOf s.k 0, s.k.evt, s.k.e)) = some ([], true, .loop) := by decide
example : (runSched demoInit demoSched).map (fun s => obsW (sysOf s)) =
    (runSched demoInit (demoSched.take 7)).map (fun s => obsW (W.step 4 4 (W.Drv.stages 4) (sysOf s) .tick)) := by decide
-- the whole run: the drain returns, the driver is asleep with nothing to do
example : (runSched demoInit (demoSched ++ [.eng, .eng, .eng, .eng, .app 0])).map
    (fun s => (decide (K.finished s.k), s.k.evt, s.k.e, s.owed)) = some (true, false, .none, false) := by decide
example : Reach demoInit := Reach.init _ _ (by decide)
example : K.okScript [.enq 0, .drain 0] = true ∧ ¬ stuck demoInit := by
  refine ⟨by decide, fun h => ?_⟩
  have := h (.app 0)
  revert this; decide
-- the refuted link: the state after `Enqueue` alone
example : (runSched (init [[.enq 0]] 1) [.app 0, .app 0]).map (fun s => (s.owed, s.k.evt, s.k.r,
    decide (∃ a ∈ s.k.apps, K.willSignal a))) = some (true, false, .idle, false) := by decide

/-! ## the tick event split as in `K` (`C12.E.N`) -/
namespace N

/-- every reachable state of `N` projects to a `K`-reachable state (one `K.step` per step) -/
theorem reach_is_K_reach {s : St} (h : Reach s) : K.Reach s.k := reach_k h

/-- **The link, for EVERY interleaving of `K`.** With the engine moving by `K.step` itself (the
    removal of `Dequeue` and `NotifyAllSubscribers` as separate actions between which application
    threads run), the ghost flag of the wake model still implies the protocol condition. -/
theorem owed_implies_signal_pending {s : St} (h : Reach s) (ho : s.owed = true) :
    (∃ a ∈ s.k.apps, K.willSignal a) ∨ s.k.r = .tick :=
  link_reach h ho

/-- every step of `E` (tick event atomic) is a run of `N`: the atomic composition has no behaviour
    the split one lacks -/
theorem E_step_is_N_run {s s' : St} {t : K.Th} (h : E.step s t = some s') : ∃ ts, runSched s ts = some s' :=
  step_isRun h

/-- **Work is served in every state of every interleaving** — also in the middle of a tick event:
    if a command is startable, then `runAsync` is about to call `TickLater`, or the tick event is
    scheduled and will be handled, or the running tick has not passed that queue yet / has made
    progress and re-schedules itself, or a thread still owes its signal. -/
theorem work_is_served (outCap : Nat) {s : St} (h : Reach s) (hw : W.Drv.work outCap (coreOf s.k)) :
    ∃ q, K.cmdsOf s.k q ≠ [] ∧ (K.served s.k q ∨ ∃ a ∈ s.k.apps, K.willSignal a) := by
  have hq : ∃ q, K.cmdsOf s.k q ≠ [] := by
    rcases hw with hw | ⟨q, hq, hs⟩ | ⟨hw, _⟩
    · simp [coreOf] at hw
    · simp only [coreOf, List.mem_map] at hq
      obtain ⟨x, hx, rfl⟩ := hq
      obtain ⟨j, hj⟩ := List.mem_iff_getElem?.mp hx
      refine ⟨j, ?_⟩
      have hne : x.cmds ≠ [] := by
        intro hn; apply hs.1; simp [qOf, hn]
      simpa [K.cmdsOf, K.cmdsAt, hj] using hne
    · simp [coreOf] at hw
  obtain ⟨q, hq⟩ := hq
  exact ⟨q, hq, K.no_lost_wakeup (reach_k h) q hq⟩

-- non-vacuity: the application thread enqueues a second command BETWEEN the removal and the notification of the first
example : (runSched (E.init [[.enq 0, .drain 0, .enq 0, .drain 0]] 1)
    [.app 0, .app 0, .app 0, .app 0, .async, .async, .eng, .eng, .eng, .app 0, .app 0]).map
    (fun s => (s.k.e, s.owed, K.cmdsOf s.k 0, s.k.apps.map (·.pc))) = some (.notify 0, true, [2], [.enqN]) := by decide

end N

/-! ## any commands, GPU port (`C12.E.G`)
With kernel commands the component cannot be read off the protocol state and a queue can be
non-empty while the driver RIGHTLY sleeps (it waits for the GPU), so `K`'s invariant is not the right
statement; `W`'s is, and its hypothesis `owed` is still a theorem about the protocol state. -/
namespace G

/-- **Refinement to `W`, any commands.** A step of the composed model with the component in the
    state — an application thread (any command kind at `Enqueue`), `runAsync`, the engine goroutine
    (tick event = ALL transcribed stages of `Driver.Tick` on the real component state), the connection
    delivering a `LaunchKernelRsp` or retrieving a request — is invisible to `W` or exactly ONE event
    of `W.step`. -/
theorem refines_W (kind : Nat → W.Drv.Cmd) (inCap outCap : Nat) {s s' : St} {t : Th}
    (h : step kind inCap outCap s t = some s') :
    sysOf s' = sysOf s ∨ ∃ ev, sysOf s' = W.step inCap outCap (W.Drv.stages outCap) (sysOf s) ev :=
  step_w kind inCap outCap h

theorem run_refines_W (kind : Nat → W.Drv.Cmd) (inCap outCap : Nat) (ts : List Th) : ∀ (s s' : St),
    runSched kind inCap outCap s ts = some s' →
    ∃ evs, sysOf s' = W.run inCap outCap (W.Drv.stages outCap) (sysOf s) evs := by
  induction ts with
  | nil => intro s s' h; simp [runSched] at h; subst h; exact ⟨[], rfl⟩
  | cons t ts ih =>
    intro s s' h
    simp only [runSched] at h
    cases hs : step kind inCap outCap s t with
    | none => simp [hs] at h
    | some s1 =>
      simp only [hs] at h
      obtain ⟨e2, h2⟩ := ih s1 s' h
      rcases refines_W kind inCap outCap hs with h1 | ⟨ev, h1⟩
      · exact ⟨e2, by rw [h2, h1]⟩
      · exact ⟨ev :: e2, by rw [h2, h1]; simp [W.run]⟩

/-- **The link, any commands.** Whatever the commands are and whatever the GPU side does: `owed`
    implies that some application thread still owes its `enqueueSignal` or `runAsync` is about to
    call `TickLater` (all scripts ending with a drain, any number of threads and queues). -/
theorem owed_implies_signal_pending {kind : Nat → W.Drv.Cmd} {inCap outCap : Nat} {s : St}
    (h : Reach kind inCap outCap s) (ho : s.owed = true) :
    (∃ a ∈ s.k.apps, K.willSignal a) ∨ s.k.r = .tick :=
  (ginv_reach h).link ho

/-- **Never asleep with work, any commands, no hypothesis on `owed`.** Noop and kernel commands with
    any number of requests, responses delivered in any order and grouping, requests retrieved at any
    time, any interleaving with the application threads and `runAsync`: if a response waits in the GPU
    port, or a command is startable, or a request is sendable, then the tick event is scheduled, or a
    thread still owes its signal, or `runAsync` is about to schedule the tick. -/
theorem driver_never_asleep_with_work {kind : Nat → W.Drv.Cmd} {inCap outCap : Nat} {s : St}
    (h : Reach kind inCap outCap s) (hw : W.Drv.work outCap s.core) :
    s.k.evt = true ∨ (∃ a ∈ s.k.apps, K.willSignal a) ∨ s.k.r = .tick := by
  rcases winv_reach h hw with ha | ho
  · exact Or.inl ha
  · exact Or.inr (owed_implies_signal_pending h ho)

/-- **A scheduled tick event is handled (no engine-exit race), any commands.** Whenever the driver's
    tick event is in the event queue, the engine goroutine will look at the queue again: it is
    running and not past its last look (`start`, `loop`, or `afterRun`/`clear` with `enginePending`
    set), or `runAsync` is at its flag test and will start it / set `enginePending`. This is the part
    of `K.Inv` that does not depend on what a tick does; connections act only while the engine is in `Run`. -/
theorem scheduled_tick_is_handled {kind : Nat → W.Drv.Cmd} {inCap outCap : Nat} {s : St}
    (h : Reach kind inCap outCap s) (hev : s.k.evt = true) : K.willLook s.k :=
  (pinv_reach h).look hev

/-- **Work is served, any commands**: work ⇒ the tick event is scheduled AND will be handled, or a
    thread still owes its signal, or `runAsync` is about to call `TickLater`. -/
theorem work_is_served {kind : Nat → W.Drv.Cmd} {inCap outCap : Nat} {s : St}
    (h : Reach kind inCap outCap s) (hw : W.Drv.work outCap s.core) :
    (s.k.evt = true ∧ K.willLook s.k) ∨ (∃ a ∈ s.k.apps, K.willSignal a) ∨ s.k.r = .tick := by
  rcases driver_never_asleep_with_work h hw with h1 | h1
  · exact Or.inl ⟨h1, scheduled_tick_is_handled h h1⟩
  · exact Or.inr h1

/-- **`DrainCommandQueue` tests the component's real queue.** The id queues the protocol part reads
    (`NumCommand() == 0`) have, queue by queue, exactly as many entries as the component's command
    queues — a kernel command stays queued until the tick that handles its last response. -/
theorem queues_mirrored {kind : Nat → W.Drv.Cmd} {inCap outCap : Nat} {s : St}
    (h : Reach kind inCap outCap s) : Sync s := sync_reach h

/-- **Drain safety, any commands.** When a `DrainCommandQueue(q)` call returns (the step that
    increments the thread's `returned`), the COMPONENT's queue `q` is empty: every command enqueued
    on it — kernels included — has been completed by `Driver.Tick` (a kernel is dequeued only by the
    tick that handles its last `LaunchKernelRsp`). -/
theorem drain_returns_only_when_empty {kind : Nat → W.Drv.Cmd} {inCap outCap : Nat} {s s' : St}
    (h : Reach kind inCap outCap s) (j : Nat) (a a' : K.App)
    (hs : step kind inCap outCap s (.app j) = some s') (ha : s.k.apps[j]? = some a)
    (ha' : s'.k.apps[j]? = some a') (hret : a'.returned = a.returned + 1) :
    ∀ w, s.core.d.qs[a.q]? = some w → w.cmds = [] := by
  intro w hw
  simp only [step, ha] at hs
  cases hk : K.step s.k (.app j) with
  | none => simp [hk] at hs
  | some k1 =>
    simp [hk] at hs
    have hk' : K.stepApp s.k j a = some k1 := by simpa [K.step, ha] using hk
    have hk1 : s'.k = k1 := by
      by_cases hen : isEnq a = true
      · simp only [hen, if_true] at hs; subst hs; rfl
      · simp only [hen] at hs; subst hs; rfl
    rw [hk1] at ha'
    exact sync_empty s (sync_reach h) a.q (stepApp_returned s.k k1 j a a' ha hk' ha' hret) w hw

/-- **`E` is the Noop instance of `G`.** With every command a Noop and the connections silent, a step
    of `E` (component read off the protocol state, `K`'s pass as the tick) IS the same step of `G`
    (component in the state, `Driver.Tick`'s stages as the tick, id queues synchronised, subscribers of
    the shrunk queues notified) on the embedded state — so the runs of `G` include, for Noop
    commands, runs that are runs of `K` and on which every drain returns (`E.drain_terminates`). -/
theorem E_is_noop_instance (inCap outCap : Nat) {s s' : E.St} {t : K.Th} (hr : E.Reach s)
    (h : E.step s t = some s') :
    step (fun _ => .noop) inCap outCap (emb s) (ofTh t) = some (emb s') := by
  have hp : s.k.prog = false := by
    clear h
    induction hr with
    | init scripts nq h => rfl
    | step t hr hs ih => exact (noop_step 0 0 (noMid_reach hr) ih hs).2
  exact (noop_step inCap outCap (noMid_reach hr) hp h).1

theorem E_reach_is_G_reach (inCap outCap : Nat) {s : E.St} (hr : E.Reach s) :
    Reach (fun _ => .noop) inCap outCap (emb s) := by
  induction hr with
  | init scripts nq h =>
    have : emb (E.init scripts nq) = init scripts nq := by
      simp [emb, E.init, init, coreOf, K.init, qOf]
    rw [this]; exact Reach.init scripts nq h
  | step t hr hs ih => exact Reach.step _ ih (E_is_noop_instance inCap outCap hr hs)

/-! non-vacuity: one thread, `Enqueue(kernel with one request); DrainCommandQueue` -/
def kern1 : Nat → W.Drv.Cmd := fun _ => .kern 1
def demoG : St := init [[.enq 0, .drain 0]] 1
/-- append · NotifyAll · Subscribe · signal · TickLater · engine started · `Run` · tick (start) · tick (send) · tick (nothing) -/
def schedG : List Th := [.app 0, .app 0, .app 0, .app 0, .async, .async, .eng, .eng, .eng, .eng]

example : Reach kern1 4 4 demoG := Reach.init _ _ (by decide)
-- after the append: owed, work, asleep, the thread `willSignal`
example : (runSched kern1 4 4 demoG [.app 0]).map (fun (s : St) => (s.owed, s.k.evt, s.core.d.qs,
    decide (∃ a ∈ s.k.apps, K.willSignal a), decide (∃ q ∈ s.core.d.qs, W.Drv.startable q))) =
    some (true, false, [{ cmds := [.kern 1] }], true, true) := by decide
-- the kernel is running, its request is in the port, the driver RIGHTLY sleeps with a non-empty queue
example : (runSched kern1 4 4 demoG schedG).map (fun (s : St) => (s.owed, s.k.evt, s.core.d.qs, s.core.outb.length)) =
    some (false, false, [{ cmds := [.kern 1], running := true, left := 1 }], 1) := by decide
example : (runSched kern1 4 4 demoG schedG).map (fun (s : St) => (K.cmdsOf s.k 0, decide (Sync s))) =
    some ([1], true) := by decide
-- the thread blocks in `Wait`; the request is retrieved, the response delivered into the empty port: awake
example : (runSched kern1 4 4 demoG (schedG ++ [.app 0, .app 0, .retrieve, .deliver ⟨0⟩])).map
    (fun (s : St) => (s.k.evt, s.core.inb, (s.k.apps.map (·.pc)))) = some (true, [⟨0⟩], [.waiting]) := by decide
-- the tick handles the response: command dequeued in both queues, the waiter is notified, the drain returns
example : (runSched kern1 4 4 demoG (schedG ++ [.app 0, .app 0, .retrieve, .deliver ⟨0⟩, .eng, .eng, .app 0])).map
    (fun (s : St) => (s.k.evt, s.core.d.qs, K.cmdsOf s.k 0, decide (K.finished s.k), decide (Sync s))) =
    some (false, [{}], [], true, true) := by decide
-- the response scheduled the tick while the engine goroutine is in `Run` (`e = loop`): it will be handled
example : (runSched kern1 4 4 demoG (schedG ++ [.app 0, .app 0, .retrieve, .deliver ⟨0⟩])).map
    (fun (s : St) => (s.k.evt, s.k.e, s.k.running)) = some (true, .loop, true) := by decide
-- … and that last step is the one `drain_returns_only_when_empty` speaks about: `returned` 0 ↦ 1
example : (runSched kern1 4 4 demoG (schedG ++ [.app 0, .app 0, .retrieve, .deliver ⟨0⟩, .eng, .eng])).map
    (fun (s : St) => s.k.apps.map (·.returned)) = some [0] ∧
    (runSched kern1 4 4 demoG (schedG ++ [.app 0, .app 0, .retrieve, .deliver ⟨0⟩, .eng, .eng, .app 0])).map
    (fun (s : St) => s.k.apps.map (·.returned)) = some [1] := by decide
-- `E`'s demo run, embedded, is a run of `G` with Noop commands (same schedule)
example : (runSched (fun _ => .noop) 4 4 (emb E.demoInit) (E.demoSched.map ofTh)).map (fun (s : St) => (s.k, s.owed, s.core.d)) =
    (E.runSched E.demoInit E.demoSched).map (fun s => ((emb s).k, (emb s).owed, (emb s).core.d)) := by decide

end G

end E
end C12
