import MgpuProofs.C03SBits
import MgpuProofs.C03SRows
/-! # C03 (scalar part) — every scalar instruction executes as the ISA prescribes

`Gen.gcn3.*` / `Gen.cdna3.*` are REGENERATED from the Go handlers (`emu.ALUImpl`, `cdna3.ALU`) on
every run; `C03S.Spec.*` is the independent ISA transcription.  A handler's output record lists
everything it writes (`none` = not written), so equality of the records is equality of the whole
architectural effect including the frame.  `ScalarOut.norm w` keeps the low `w` bits of the value
handed to `WriteOperand`, as the register file does for a destination of `w` bits. -/
namespace C03S
open C03S
set_option maxRecDepth 4000

/-! ## Meaning of the specification (so that it is not a second copy of the code) -/

/-- `s_add_u32`: the destination is the sum modulo 2³², SCC is the carry out of bit 31. -/
theorem s_add_u32_meaning (i : ScalarIn) :
    ∃ d, (Spec.s_add_u32 i).dst = some d ∧
      d.toNat = ((Spec.lo i.src0).toNat + (Spec.lo i.src1).toNat) % 4294967296 ∧
      (Spec.s_add_u32 i).scc = some (if (Spec.lo i.src0).toNat + (Spec.lo i.src1).toNat ≥ 4294967296 then 1#8 else 0#8) := by
  refine ⟨_, rfl, ?_, ?_⟩
  · simp [Spec.w32, BitVec.toNat_add]; omega
  · simp [Spec.s_add_u32, Spec.ret32, Spec.bit]

/-- `s_sub_u32`: SCC is the unsigned borrow, the destination the difference modulo 2³². -/
theorem s_sub_u32_meaning (i : ScalarIn) :
    (Spec.s_sub_u32 i).scc = some (if (Spec.lo i.src0).toNat < (Spec.lo i.src1).toNat then 1#8 else 0#8) ∧
    (Spec.s_sub_u32 i).dst = some (Spec.w32 (Spec.lo i.src0 - Spec.lo i.src1)) := by
  simp [Spec.s_sub_u32, Spec.ret32, Spec.bit]

/-- `s_add_i32` / `s_sub_i32`: SCC = 1 exactly when the exact signed result does not fit in 32 bits. -/
theorem s_add_i32_scc_is_signed_overflow (a b : BitVec 32) :
    Spec.addOvf a b = true ↔ (a.toInt + b.toInt > 2147483647 ∨ a.toInt + b.toInt < -2147483648) := by
  simp only [Spec.addOvf, decide_eq_true_eq]; omega
theorem s_sub_i32_scc_is_signed_overflow (a b : BitVec 32) :
    Spec.subOvf a b = true ↔ (a.toInt - b.toInt > 2147483647 ∨ a.toInt - b.toInt < -2147483648) := by
  simp only [Spec.subOvf, decide_eq_true_eq]; omega

/-- `s_lshr_b32`: a logical shift by the low five bits of S1, i.e. division by 2^(S1 mod 32). -/
theorem s_lshr_b32_meaning (i : ScalarIn) :
    ∃ d : BitVec 32, (Spec.s_lshr_b32 i).dst = some (Spec.w32 d) ∧
      d.toNat = (Spec.lo i.src0).toNat / 2 ^ ((Spec.lo i.src1).toNat % 32) := by
  refine ⟨_, rfl, ?_⟩
  simp [BitVec.toNat_ushiftRight, Nat.shiftRight_eq_div_pow]

/-- `s_mul_i32` never writes SCC; logic operations set SCC to "result is non-zero". -/
theorem s_mul_i32_leaves_scc (i : ScalarIn) : (Spec.s_mul_i32 i).scc = none := rfl
theorem s_and_b32_scc (i : ScalarIn) :
    (Spec.s_and_b32 i).scc = some (if (Spec.lo i.src0 &&& Spec.lo i.src1) = 0#32 then 0#8 else 1#8) := by
  simp only [Spec.s_and_b32, Spec.logic32, Spec.ret32, Spec.bit]
  by_cases h : (Spec.lo i.src0 &&& Spec.lo i.src1) = 0#32 <;> simp [h]

/-- `s_min_i32` selects the smaller signed value and sets SCC iff S0 was selected. -/
theorem s_min_i32_meaning (i : ScalarIn) :
    ((Spec.lo i.src0).toInt < (Spec.lo i.src1).toInt →
        Spec.s_min_i32 i = Spec.ret32 (Spec.lo i.src0) true) ∧
    (¬ (Spec.lo i.src0).toInt < (Spec.lo i.src1).toInt →
        Spec.s_min_i32 i = Spec.ret32 (Spec.lo i.src1) false) := by
  constructor <;> intro h <;> simp [Spec.s_min_i32, slt_iff', h]

/-- a taken branch goes to PC + 4 + signext(SIMM16)·4, where PC is the address of the branch:
    `i.pc` already is PC + 4 (both compute units advance it before the ALU runs). -/
theorem s_branch_target (i : ScalarIn) (pcInst : BitVec 64) (h : i.pc = pcInst + 4#64) :
    (Spec.s_branch i).pc = some (pcInst + 4#64 + (i.simm16.setWidth 16).signExtend 64 * 4#64) := by
  simp [Spec.s_branch, Spec.retPc, Spec.target, Spec.imm64, h]

/-- `s_cbranch_scc1` is taken exactly when SCC is set and otherwise writes nothing at all. -/
theorem s_cbranch_scc1_meaning (i : ScalarIn) :
    (i.scc = 0#8 → Spec.s_cbranch_scc1 i = ScalarOut.nothing) ∧
    (i.scc ≠ 0#8 → Spec.s_cbranch_scc1 i = Spec.retPc (Spec.target i)) := by
  constructor <;> intro h <;> simp [Spec.s_cbranch_scc1, Spec.cbranch, Spec.nothing, h]

/-- saveexec: the destination receives the OLD exec mask, EXEC the combination, SCC = (EXEC ≠ 0). -/
theorem s_and_saveexec_b64_meaning (i : ScalarIn) :
    (Spec.s_and_saveexec_b64 i).dst = some i.exec ∧
    (Spec.s_and_saveexec_b64 i).exec = some (i.src0 &&& i.exec) ∧
    (Spec.s_and_saveexec_b64 i).pc = none ∧ (Spec.s_and_saveexec_b64 i).vcc = none := by
  simp [Spec.s_and_saveexec_b64, Spec.saveexec]

example : (Spec.s_add_i32 { src0 := 0x7fffffff#64, src1 := 1#64, dstOld := 0, scc := 0, vcc := 0, exec := 0, pc := 0, simm16 := 0 }).scc = some 1#8 := by decide
example : (Spec.s_bfe_i32 { src0 := 0xf0#64, src1 := 0x40004#64, dstOld := 0, scc := 0, vcc := 0, exec := 0, pc := 0, simm16 := 0 }).dst = some 0xffffffff#64 := by decide

/-! ## Conformance of every handler (tie R), per architecture and opcode

`ConformsTo`: for EVERY input record.  `ConformsArch` (the opcodes that read SCC): for every
architectural input — SCC is one bit by type (`ArchIn`); `scc_is_bit` below shows every state
reached by executing scalar instructions has such an input, so nothing is assumed. -/

/-- GCN3 `s_add_u32` (format 0, opcode 0): the handler the opcode switch selects has, for every input, exactly the effect the ISA prescribes. -/
theorem gcn3_s_add_u32_conforms : ConformsTo Gen.gcn3.dispatch 0 0 32 Spec.s_add_u32 :=
  ⟨_, rfl, by conform Gen.gcn3.run_SADDU32 Spec.s_add_u32⟩

/-- GCN3 `s_sub_u32` (format 0, opcode 1): the handler the opcode switch selects has, for every input, exactly the effect the ISA prescribes. -/
theorem gcn3_s_sub_u32_conforms : ConformsTo Gen.gcn3.dispatch 0 1 32 Spec.s_sub_u32 :=
  ⟨_, rfl, by conform Gen.gcn3.run_SSUBU32 Spec.s_sub_u32⟩

/-- GCN3 `s_add_i32` (format 0, opcode 2): the handler the opcode switch selects has, for every input, exactly the effect the ISA prescribes. -/
theorem gcn3_s_add_i32_conforms : ConformsTo Gen.gcn3.dispatch 0 2 32 Spec.s_add_i32 :=
  ⟨_, rfl, by
    intro i
    simp only [Gen.gcn3.run_SADDI32, Spec.s_add_i32, Spec.lo, ← ovf_add]
    (repeat' split) <;> simp_all [ScalarOut.norm, keep, Spec.ret32, Spec.w32, Spec.bit]⟩

/-- GCN3 `s_sub_i32` (format 0, opcode 3): the handler the opcode switch selects has, for every input, exactly the effect the ISA prescribes. -/
theorem gcn3_s_sub_i32_conforms : ConformsTo Gen.gcn3.dispatch 0 3 32 Spec.s_sub_i32 :=
  ⟨_, rfl, by
    intro i
    simp only [Gen.gcn3.run_SSUBI32, Spec.s_sub_i32, Spec.lo, ← ovf_sub]
    (repeat' split) <;> simp_all [ScalarOut.norm, keep, Spec.ret32, Spec.w32, Spec.bit]⟩

/-- GCN3 `s_addc_u32` (format 0, opcode 4): the handler the opcode switch selects has, for every architectural input (SCC one bit), exactly the effect the ISA prescribes. -/
theorem gcn3_s_addc_u32_conforms : ConformsArch Gen.gcn3.dispatch 0 4 32 Spec.s_addc_u32 :=
  conformsArch_iff_conformsScc.mpr
    ⟨_, rfl, by conformS Gen.gcn3.run_SADDCU32 Spec.s_addc_u32⟩

/-- GCN3 `s_subb_u32` (format 0, opcode 5): the handler the opcode switch selects has, for every architectural input (SCC one bit), exactly the effect the ISA prescribes. -/
theorem gcn3_s_subb_u32_conforms : ConformsArch Gen.gcn3.dispatch 0 5 32 Spec.s_subb_u32 :=
  conformsArch_iff_conformsScc.mpr
    ⟨_, rfl, by conformS Gen.gcn3.run_SSUBBU32 Spec.s_subb_u32⟩

/-- GCN3 `s_min_i32` (format 0, opcode 6): the handler the opcode switch selects has, for every input, exactly the effect the ISA prescribes. -/
theorem gcn3_s_min_i32_conforms : ConformsTo Gen.gcn3.dispatch 0 6 32 Spec.s_min_i32 :=
  ⟨_, rfl, by conform Gen.gcn3.run_SMINI32 Spec.s_min_i32⟩

/-- GCN3 `s_min_u32` (format 0, opcode 7): the handler the opcode switch selects has, for every input, exactly the effect the ISA prescribes. -/
theorem gcn3_s_min_u32_conforms : ConformsTo Gen.gcn3.dispatch 0 7 32 Spec.s_min_u32 :=
  ⟨_, rfl, by conform Gen.gcn3.run_SMINU32 Spec.s_min_u32⟩

/-- GCN3 `s_max_i32` (format 0, opcode 8): the handler the opcode switch selects has, for every input, exactly the effect the ISA prescribes. -/
theorem gcn3_s_max_i32_conforms : ConformsTo Gen.gcn3.dispatch 0 8 32 Spec.s_max_i32 :=
  ⟨_, rfl, by conform Gen.gcn3.run_SMAXI32 Spec.s_max_i32⟩

/-- GCN3 `s_max_u32` (format 0, opcode 9): the handler the opcode switch selects has, for every input, exactly the effect the ISA prescribes. -/
theorem gcn3_s_max_u32_conforms : ConformsTo Gen.gcn3.dispatch 0 9 32 Spec.s_max_u32 :=
  ⟨_, rfl, by conform Gen.gcn3.run_SMAXU32 Spec.s_max_u32⟩

/-- GCN3 `s_cselect_b32` (format 0, opcode 10): the handler the opcode switch selects has, for every architectural input (SCC one bit), exactly the effect the ISA prescribes. -/
theorem gcn3_s_cselect_b32_conforms : ConformsArch Gen.gcn3.dispatch 0 10 32 Spec.s_cselect_b32 :=
  conformsArch_iff_conformsScc.mpr
    ⟨_, rfl, by conformS Gen.gcn3.run_SCSELECTB32 Spec.s_cselect_b32⟩

/-- GCN3 `s_and_b32` (format 0, opcode 12): the handler the opcode switch selects has, for every input, exactly the effect the ISA prescribes. -/
theorem gcn3_s_and_b32_conforms : ConformsTo Gen.gcn3.dispatch 0 12 32 Spec.s_and_b32 :=
  ⟨_, rfl, by conform Gen.gcn3.run_SANDB32 Spec.s_and_b32⟩

/-- GCN3 `s_and_b64` (format 0, opcode 13): the handler the opcode switch selects has, for every input, exactly the effect the ISA prescribes. -/
theorem gcn3_s_and_b64_conforms : ConformsTo Gen.gcn3.dispatch 0 13 64 Spec.s_and_b64 :=
  ⟨_, rfl, by conform Gen.gcn3.run_SANDB64 Spec.s_and_b64⟩

/-- GCN3 `s_or_b64` (format 0, opcode 15): the handler the opcode switch selects has, for every input, exactly the effect the ISA prescribes. -/
theorem gcn3_s_or_b64_conforms : ConformsTo Gen.gcn3.dispatch 0 15 64 Spec.s_or_b64 :=
  ⟨_, rfl, by conform Gen.gcn3.run_SORB64 Spec.s_or_b64⟩

/-- GCN3 `s_xor_b32` (format 0, opcode 16): the handler the opcode switch selects has, for every input, exactly the effect the ISA prescribes. -/
theorem gcn3_s_xor_b32_conforms : ConformsTo Gen.gcn3.dispatch 0 16 32 Spec.s_xor_b32 :=
  ⟨_, rfl, by conform Gen.gcn3.run_SXORB32 Spec.s_xor_b32⟩

/-- GCN3 `s_xor_b64` (format 0, opcode 17): the handler the opcode switch selects has, for every input, exactly the effect the ISA prescribes. -/
theorem gcn3_s_xor_b64_conforms : ConformsTo Gen.gcn3.dispatch 0 17 64 Spec.s_xor_b64 :=
  ⟨_, rfl, by conform Gen.gcn3.run_SXORB64 Spec.s_xor_b64⟩

/-- GCN3 `s_andn2_b64` (format 0, opcode 19): the handler the opcode switch selects has, for every input, exactly the effect the ISA prescribes. -/
theorem gcn3_s_andn2_b64_conforms : ConformsTo Gen.gcn3.dispatch 0 19 64 Spec.s_andn2_b64 :=
  ⟨_, rfl, by conform Gen.gcn3.run_SANDN2B64 Spec.s_andn2_b64⟩

/-- GCN3 `s_lshl_b32` (format 0, opcode 28): the handler the opcode switch selects has, for every input, exactly the effect the ISA prescribes. -/
theorem gcn3_s_lshl_b32_conforms : ConformsTo Gen.gcn3.dispatch 0 28 32 Spec.s_lshl_b32 :=
  ⟨_, rfl, by conform Gen.gcn3.run_SLSHLB32 Spec.s_lshl_b32⟩

/-- GCN3 `s_lshl_b64` (format 0, opcode 29): the handler the opcode switch selects has, for every input, exactly the effect the ISA prescribes. -/
theorem gcn3_s_lshl_b64_conforms : ConformsTo Gen.gcn3.dispatch 0 29 64 Spec.s_lshl_b64 :=
  ⟨_, rfl, by conform Gen.gcn3.run_SLSHLB64 Spec.s_lshl_b64⟩

/-- GCN3 `s_lshr_b32` (format 0, opcode 30): the handler the opcode switch selects has, for every input, exactly the effect the ISA prescribes. -/
theorem gcn3_s_lshr_b32_conforms : ConformsTo Gen.gcn3.dispatch 0 30 32 Spec.s_lshr_b32 :=
  ⟨_, rfl, by
    intro i
    simp only [Gen.gcn3.run_SLSHRB32, Spec.s_lshr_b32, Spec.logic32, Spec.lo, and31_toNat,
      ← BitVec.setWidth_ushiftRight (show 32 ≤ 64 by decide), w64_bne_zero, ret32_ite, norm_ret32]⟩

/-- GCN3 `s_lshr_b64` (format 0, opcode 31): the handler the opcode switch selects has, for every input, exactly the effect the ISA prescribes. -/
theorem gcn3_s_lshr_b64_conforms : ConformsTo Gen.gcn3.dispatch 0 31 64 Spec.s_lshr_b64 :=
  ⟨_, rfl, by conform Gen.gcn3.run_SLSHRB64 Spec.s_lshr_b64⟩

/-- GCN3 `s_ashr_i32` (format 0, opcode 32): the handler the opcode switch selects has, for every input, exactly the effect the ISA prescribes. -/
theorem gcn3_s_ashr_i32_conforms : ConformsTo Gen.gcn3.dispatch 0 32 32 Spec.s_ashr_i32 :=
  ⟨_, rfl, by conform Gen.gcn3.run_SASHRI32 Spec.s_ashr_i32⟩

/-- GCN3 `s_bfm_b32` (format 0, opcode 34): the handler the opcode switch selects has, for every input, exactly the effect the ISA prescribes. -/
theorem gcn3_s_bfm_b32_conforms : ConformsTo Gen.gcn3.dispatch 0 34 32 Spec.s_bfm_b32 :=
  ⟨_, rfl, by
    intro i
    simp only [Gen.gcn3.run_SBFMB32, Spec.s_bfm_b32, Spec.lo, and31_toNat, ScalarOut.norm, Option.map, keep32,
      BitVec.setWidth_shiftLeft_of_le (show 32 ≤ 64 by decide), trunc_sub, one64_trunc, Spec.ret32n, Spec.w32]⟩

/-- GCN3 `s_mul_i32` (format 0, opcode 36): the handler the opcode switch selects has, for every input, exactly the effect the ISA prescribes. -/
theorem gcn3_s_mul_i32_conforms : ConformsTo Gen.gcn3.dispatch 0 36 32 Spec.s_mul_i32 :=
  ⟨_, rfl, by conform Gen.gcn3.run_SMULI32 Spec.s_mul_i32⟩

/-- GCN3 `s_bfe_i32` (format 0, opcode 38): the handler the opcode switch selects has, for every input, exactly the effect the ISA prescribes. -/
theorem gcn3_s_bfe_i32_conforms : ConformsTo Gen.gcn3.dispatch 0 38 32 Spec.s_bfe_i32 :=
  ⟨_, rfl, by
    intro i
    have ho : (Go.extractBitsU32 (BitVec.setWidth 32 i.src1) 0#64 4#64).toNat < 32 := by
      rw [extract_0_4]; exact Nat.mod_lt _ (by decide)
    simp only [Gen.gcn3.run_SBFEI32, ret32_ite]
    rw [← apply_ite (fun d => Spec.ret32 d (d != 0#32)), bfeI_gcn3 _ _ _ ho, spec_bfe_i32_eq, norm_ret32]
    simp only [extract_0_4, extract_16_22, Spec.lo, Spec.bfeOffset, Spec.bfeWidth]⟩

/-- GCN3 `s_movk_i32` (format 1, opcode 0): the handler the opcode switch selects has, for every input, exactly the effect the ISA prescribes. -/
theorem gcn3_s_movk_i32_conforms : ConformsTo Gen.gcn3.dispatch 1 0 32 Spec.s_movk_i32 :=
  ⟨_, rfl, by
    intro i
    simp only [Gen.gcn3.run_SMOVKI32, Spec.s_movk_i32, Spec.imm32, and_mask16, ScalarOut.norm, Option.map, keep32, Spec.ret32n, Spec.w32, trunc_sext16, trunc_zext16]⟩

/-- GCN3 `s_cmovk_i32` (format 1, opcode 1): the handler the opcode switch selects has, for every architectural input (SCC one bit), exactly the effect the ISA prescribes. -/
theorem gcn3_s_cmovk_i32_conforms : ConformsArch Gen.gcn3.dispatch 1 1 32 Spec.s_cmovk_i32 :=
  conformsArch_iff_conformsScc.mpr
  ⟨_, rfl, by
    intro i hs
    rcases hs with hs | hs <;>
    simp [hs, Gen.gcn3.run_SCMOVKI32, Spec.s_cmovk_i32, Spec.imm32, and_mask16, ScalarOut.norm, keep32, Spec.ret32n, Spec.w32, trunc_sext16, Spec.nothing, ScalarOut.nothing]⟩

/-- GCN3 `s_cmpk_eq_i32` (format 1, opcode 2): the handler the opcode switch selects has, for every input, exactly the effect the ISA prescribes. -/
theorem gcn3_s_cmpk_eq_i32_conforms : ConformsTo Gen.gcn3.dispatch 1 2 32 Spec.s_cmpk_eq_i32 :=
  ⟨_, rfl, by conform Gen.gcn3.run_SCMPKEQI32 Spec.s_cmpk_eq_i32⟩

/-- GCN3 `s_cmpk_lg_i32` (format 1, opcode 3): the handler the opcode switch selects has, for every input, exactly the effect the ISA prescribes. -/
theorem gcn3_s_cmpk_lg_i32_conforms : ConformsTo Gen.gcn3.dispatch 1 3 32 Spec.s_cmpk_lg_i32 :=
  ⟨_, rfl, by conform Gen.gcn3.run_SCMPKLGI32 Spec.s_cmpk_lg_i32⟩

/-- GCN3 `s_mulk_i32` (format 1, opcode 15): the handler the opcode switch selects has, for every input, exactly the effect the ISA prescribes. -/
theorem gcn3_s_mulk_i32_conforms : ConformsTo Gen.gcn3.dispatch 1 15 32 Spec.s_mulk_i32 :=
  ⟨_, rfl, by
    intro i
    simp only [Gen.gcn3.run_SMULKI32, Spec.s_mulk_i32, Spec.imm32, Spec.lo, and_mask16, ScalarOut.norm, Option.map, keep32, Spec.ret32n, Spec.w32, trunc_sext32, trunc_zext16, BitVec.mul_comm]⟩

/-- GCN3 `s_mov_b32` (format 2, opcode 0): the handler the opcode switch selects has, for every input, exactly the effect the ISA prescribes. -/
theorem gcn3_s_mov_b32_conforms : ConformsTo Gen.gcn3.dispatch 2 0 32 Spec.s_mov_b32 :=
  ⟨_, rfl, by conform Gen.gcn3.run_SMOVB32 Spec.s_mov_b32⟩

/-- GCN3 `s_mov_b64` (format 2, opcode 1): the handler the opcode switch selects has, for every input, exactly the effect the ISA prescribes. -/
theorem gcn3_s_mov_b64_conforms : ConformsTo Gen.gcn3.dispatch 2 1 64 Spec.s_mov_b64 :=
  ⟨_, rfl, by conform Gen.gcn3.run_SMOVB64 Spec.s_mov_b64⟩

/-- GCN3 `s_not_b32` (format 2, opcode 4): the handler the opcode switch selects has, for every input, exactly the effect the ISA prescribes. -/
theorem gcn3_s_not_b32_conforms : ConformsTo Gen.gcn3.dispatch 2 4 32 Spec.s_not_b32 :=
  ⟨_, rfl, by conform Gen.gcn3.run_SNOTU32 Spec.s_not_b32⟩

/-- GCN3 `s_brev_b32` (format 2, opcode 8; hand-modelled `for` loop, `C03S_Hand.lean`): after its 32 iterations the loop has built exactly the bit reversal the ISA prescribes, for every input. -/
theorem gcn3_s_brev_b32_conforms : ConformsTo Hand.gcn3.dispatch 2 8 32 Spec.s_brev_b32 :=
  ⟨_, rfl, by
    intro i
    show (Spec.ret32n (Hand.gcn3.brevLoop (Spec.lo i.src0) 32)).norm 32 = _
    rw [norm_ret32n, gcn3_brevLoop_eq]
    rfl⟩

/-- GCN3 `s_getpc_b64` (format 2, opcode 28): the handler the opcode switch selects has, for every input, exactly the effect the ISA prescribes. -/
theorem gcn3_s_getpc_b64_conforms : ConformsTo Gen.gcn3.dispatch 2 28 64 Spec.s_getpc_b64 :=
  ⟨_, rfl, by conform Gen.gcn3.run_SGETPCB64 Spec.s_getpc_b64⟩

/-- GCN3 `s_and_saveexec_b64` (format 2, opcode 32): the handler the opcode switch selects has, for every input, exactly the effect the ISA prescribes. -/
theorem gcn3_s_and_saveexec_b64_conforms : ConformsTo Gen.gcn3.dispatch 2 32 64 Spec.s_and_saveexec_b64 :=
  ⟨_, rfl, by conform Gen.gcn3.run_SANDSAVEEXECB64 Spec.s_and_saveexec_b64⟩

/-- GCN3 `s_or_saveexec_b64` (format 2, opcode 33): the handler the opcode switch selects has, for every input, exactly the effect the ISA prescribes. -/
theorem gcn3_s_or_saveexec_b64_conforms : ConformsTo Gen.gcn3.dispatch 2 33 64 Spec.s_or_saveexec_b64 :=
  ⟨_, rfl, by conform Gen.gcn3.run_SORSAVEEXECB64 Spec.s_or_saveexec_b64⟩

/-- GCN3 `s_xor_saveexec_b64` (format 2, opcode 34): the handler the opcode switch selects has, for every input, exactly the effect the ISA prescribes. -/
theorem gcn3_s_xor_saveexec_b64_conforms : ConformsTo Gen.gcn3.dispatch 2 34 64 Spec.s_xor_saveexec_b64 :=
  ⟨_, rfl, by conform Gen.gcn3.run_SXORSAVEEXECB64 Spec.s_xor_saveexec_b64⟩

/-- GCN3 `s_andn2_saveexec_b64` (format 2, opcode 35): the handler the opcode switch selects has, for every input, exactly the effect the ISA prescribes. -/
theorem gcn3_s_andn2_saveexec_b64_conforms : ConformsTo Gen.gcn3.dispatch 2 35 64 Spec.s_andn2_saveexec_b64 :=
  ⟨_, rfl, by conform Gen.gcn3.run_SANDN2SAVEEXECB64 Spec.s_andn2_saveexec_b64⟩

/-- GCN3 `s_orn2_saveexec_b64` (format 2, opcode 36): the handler the opcode switch selects has, for every input, exactly the effect the ISA prescribes. -/
theorem gcn3_s_orn2_saveexec_b64_conforms : ConformsTo Gen.gcn3.dispatch 2 36 64 Spec.s_orn2_saveexec_b64 :=
  ⟨_, rfl, by conform Gen.gcn3.run_SORN2SAVEEXECB64 Spec.s_orn2_saveexec_b64⟩

/-- GCN3 `s_nand_saveexec_b64` (format 2, opcode 37): the handler the opcode switch selects has, for every input, exactly the effect the ISA prescribes. -/
theorem gcn3_s_nand_saveexec_b64_conforms : ConformsTo Gen.gcn3.dispatch 2 37 64 Spec.s_nand_saveexec_b64 :=
  ⟨_, rfl, by conform Gen.gcn3.run_SNANDSAVEEXECB64 Spec.s_nand_saveexec_b64⟩

/-- GCN3 `s_nor_saveexec_b64` (format 2, opcode 38): the handler the opcode switch selects has, for every input, exactly the effect the ISA prescribes. -/
theorem gcn3_s_nor_saveexec_b64_conforms : ConformsTo Gen.gcn3.dispatch 2 38 64 Spec.s_nor_saveexec_b64 :=
  ⟨_, rfl, by conform Gen.gcn3.run_SNORSAVEEXECB64 Spec.s_nor_saveexec_b64⟩

/-- GCN3 `s_xnor_saveexec_b64` (format 2, opcode 39): the handler the opcode switch selects has, for every input, exactly the effect the ISA prescribes. -/
theorem gcn3_s_xnor_saveexec_b64_conforms : ConformsTo Gen.gcn3.dispatch 2 39 64 Spec.s_xnor_saveexec_b64 :=
  ⟨_, rfl, by conform Gen.gcn3.run_SNXORSAVEEXECB64 Spec.s_xnor_saveexec_b64⟩

/-- GCN3 `s_abs_i32` (format 2, opcode 48): the handler the opcode switch selects has, for every input, exactly the effect the ISA prescribes. -/
theorem gcn3_s_abs_i32_conforms : ConformsTo Gen.gcn3.dispatch 2 48 32 Spec.s_abs_i32 :=
  ⟨_, rfl, by
    intro i
    simp only [Gen.gcn3.run_SABSI32, Spec.s_abs_i32, Spec.lo, ret32_ite]
    split <;> rename_i h <;> simp only [h, norm_ret32, if_true, if_false, Bool.false_eq_true]⟩

/-- GCN3 `s_cmp_eq_i32` (format 3, opcode 0): the handler the opcode switch selects has, for every input, exactly the effect the ISA prescribes. -/
theorem gcn3_s_cmp_eq_i32_conforms : ConformsTo Gen.gcn3.dispatch 3 0 0 Spec.s_cmp_eq_i32 :=
  ⟨_, rfl, by conform Gen.gcn3.run_SCMPEQU32 Spec.s_cmp_eq_i32⟩

/-- GCN3 `s_cmp_lg_i32` (format 3, opcode 1): the handler the opcode switch selects has, for every input, exactly the effect the ISA prescribes. -/
theorem gcn3_s_cmp_lg_i32_conforms : ConformsTo Gen.gcn3.dispatch 3 1 0 Spec.s_cmp_lg_i32 :=
  ⟨_, rfl, by conform Gen.gcn3.run_SCMPLGU32 Spec.s_cmp_lg_i32⟩

/-- GCN3 `s_cmp_gt_i32` (format 3, opcode 2): the handler the opcode switch selects has, for every input, exactly the effect the ISA prescribes. -/
theorem gcn3_s_cmp_gt_i32_conforms : ConformsTo Gen.gcn3.dispatch 3 2 0 Spec.s_cmp_gt_i32 :=
  ⟨_, rfl, by conform Gen.gcn3.run_SCMPGTI32 Spec.s_cmp_gt_i32⟩

/-- GCN3 `s_cmp_ge_i32` (format 3, opcode 3): the handler the opcode switch selects has, for every input, exactly the effect the ISA prescribes. -/
theorem gcn3_s_cmp_ge_i32_conforms : ConformsTo Gen.gcn3.dispatch 3 3 0 Spec.s_cmp_ge_i32 :=
  ⟨_, rfl, by conform Gen.gcn3.run_SCMPGEI32 Spec.s_cmp_ge_i32⟩

/-- GCN3 `s_cmp_lt_i32` (format 3, opcode 4): the handler the opcode switch selects has, for every input, exactly the effect the ISA prescribes. -/
theorem gcn3_s_cmp_lt_i32_conforms : ConformsTo Gen.gcn3.dispatch 3 4 0 Spec.s_cmp_lt_i32 :=
  ⟨_, rfl, by conform Gen.gcn3.run_SCMPLTI32 Spec.s_cmp_lt_i32⟩

/-- GCN3 `s_cmp_le_i32` (format 3, opcode 5): the handler the opcode switch selects has, for every input, exactly the effect the ISA prescribes. -/
theorem gcn3_s_cmp_le_i32_conforms : ConformsTo Gen.gcn3.dispatch 3 5 0 Spec.s_cmp_le_i32 :=
  ⟨_, rfl, by conform Gen.gcn3.run_SCMPLEI32 Spec.s_cmp_le_i32⟩

/-- GCN3 `s_cmp_eq_u32` (format 3, opcode 6): the handler the opcode switch selects has, for every input, exactly the effect the ISA prescribes. -/
theorem gcn3_s_cmp_eq_u32_conforms : ConformsTo Gen.gcn3.dispatch 3 6 0 Spec.s_cmp_eq_u32 :=
  ⟨_, rfl, by conform Gen.gcn3.run_SCMPEQU32 Spec.s_cmp_eq_u32⟩

/-- GCN3 `s_cmp_lg_u32` (format 3, opcode 7): the handler the opcode switch selects has, for every input, exactly the effect the ISA prescribes. -/
theorem gcn3_s_cmp_lg_u32_conforms : ConformsTo Gen.gcn3.dispatch 3 7 0 Spec.s_cmp_lg_u32 :=
  ⟨_, rfl, by conform Gen.gcn3.run_SCMPLGU32 Spec.s_cmp_lg_u32⟩

/-- GCN3 `s_cmp_gt_u32` (format 3, opcode 8): the handler the opcode switch selects has, for every input, exactly the effect the ISA prescribes. -/
theorem gcn3_s_cmp_gt_u32_conforms : ConformsTo Gen.gcn3.dispatch 3 8 0 Spec.s_cmp_gt_u32 :=
  ⟨_, rfl, by conform Gen.gcn3.run_SCMPGTU32 Spec.s_cmp_gt_u32⟩

/-- GCN3 `s_cmp_lt_u32` (format 3, opcode 10): the handler the opcode switch selects has, for every input, exactly the effect the ISA prescribes. -/
theorem gcn3_s_cmp_lt_u32_conforms : ConformsTo Gen.gcn3.dispatch 3 10 0 Spec.s_cmp_lt_u32 :=
  ⟨_, rfl, by conform Gen.gcn3.run_SCMPLTU32 Spec.s_cmp_lt_u32⟩

/-- GCN3 `s_nop` (format 4, opcode 0): the handler the opcode switch selects has, for every input, exactly the effect the ISA prescribes. -/
theorem gcn3_s_nop_conforms : ConformsTo Gen.gcn3.dispatch 4 0 0 Spec.s_nop :=
  ⟨_, rfl, by intro i; first | rfl | (intro _; rfl)⟩

/-- GCN3 `s_branch` (format 4, opcode 2): the handler the opcode switch selects has, for every input, exactly the effect the ISA prescribes. -/
theorem gcn3_s_branch_conforms : ConformsTo Gen.gcn3.dispatch 4 2 0 Spec.s_branch :=
  ⟨_, rfl, by conform Gen.gcn3.run_SCBRANCH Spec.s_branch⟩

/-- GCN3 `s_cbranch_scc0` (format 4, opcode 4): the handler the opcode switch selects has, for every architectural input (SCC one bit), exactly the effect the ISA prescribes. -/
theorem gcn3_s_cbranch_scc0_conforms : ConformsArch Gen.gcn3.dispatch 4 4 0 Spec.s_cbranch_scc0 :=
  conformsArch_iff_conformsScc.mpr
    ⟨_, rfl, by conformS Gen.gcn3.run_SCBRANCHSCC0 Spec.s_cbranch_scc0⟩

/-- GCN3 `s_cbranch_scc1` (format 4, opcode 5): the handler the opcode switch selects has, for every architectural input (SCC one bit), exactly the effect the ISA prescribes. -/
theorem gcn3_s_cbranch_scc1_conforms : ConformsArch Gen.gcn3.dispatch 4 5 0 Spec.s_cbranch_scc1 :=
  conformsArch_iff_conformsScc.mpr
    ⟨_, rfl, by conformS Gen.gcn3.run_SCBRANCHSCC1 Spec.s_cbranch_scc1⟩

/-- GCN3 `s_cbranch_vccz` (format 4, opcode 6): the handler the opcode switch selects has, for every input, exactly the effect the ISA prescribes. -/
theorem gcn3_s_cbranch_vccz_conforms : ConformsTo Gen.gcn3.dispatch 4 6 0 Spec.s_cbranch_vccz :=
  ⟨_, rfl, by conform Gen.gcn3.run_SCBRANCHVCCZ Spec.s_cbranch_vccz⟩

/-- GCN3 `s_cbranch_vccnz` (format 4, opcode 7): the handler the opcode switch selects has, for every input, exactly the effect the ISA prescribes. -/
theorem gcn3_s_cbranch_vccnz_conforms : ConformsTo Gen.gcn3.dispatch 4 7 0 Spec.s_cbranch_vccnz :=
  ⟨_, rfl, by conform Gen.gcn3.run_SCBRANCHVCCNZ Spec.s_cbranch_vccnz⟩

/-- GCN3 `s_cbranch_execz` (format 4, opcode 8): the handler the opcode switch selects has, for every input, exactly the effect the ISA prescribes. -/
theorem gcn3_s_cbranch_execz_conforms : ConformsTo Gen.gcn3.dispatch 4 8 0 Spec.s_cbranch_execz :=
  ⟨_, rfl, by conform Gen.gcn3.run_SCBRANCHEXECZ Spec.s_cbranch_execz⟩

/-- GCN3 `s_cbranch_execnz` (format 4, opcode 9): the handler the opcode switch selects has, for every input, exactly the effect the ISA prescribes. -/
theorem gcn3_s_cbranch_execnz_conforms : ConformsTo Gen.gcn3.dispatch 4 9 0 Spec.s_cbranch_execnz :=
  ⟨_, rfl, by conform Gen.gcn3.run_SCBRANCHEXECNZ Spec.s_cbranch_execnz⟩

/-- GCN3 `s_waitcnt` (format 4, opcode 12): the handler the opcode switch selects has, for every input, exactly the effect the ISA prescribes. -/
theorem gcn3_s_waitcnt_conforms : ConformsTo Gen.gcn3.dispatch 4 12 0 Spec.s_waitcnt :=
  ⟨_, rfl, by intro i; first | rfl | (intro _; rfl)⟩

/-- CDNA3 `s_add_u32` (format 0, opcode 0): the handler the opcode switch selects has, for every input, exactly the effect the ISA prescribes. -/
theorem cdna3_s_add_u32_conforms : ConformsTo Gen.cdna3.dispatch 0 0 32 Spec.s_add_u32 :=
  ⟨_, rfl, by conform Gen.cdna3.run_SADDU32 Spec.s_add_u32⟩

/-- CDNA3 `s_sub_u32` (format 0, opcode 1): the handler the opcode switch selects has, for every input, exactly the effect the ISA prescribes. -/
theorem cdna3_s_sub_u32_conforms : ConformsTo Gen.cdna3.dispatch 0 1 32 Spec.s_sub_u32 :=
  ⟨_, rfl, by conform Gen.cdna3.run_SSUBU32 Spec.s_sub_u32⟩

/-- CDNA3 `s_add_i32` (format 0, opcode 2): the handler the opcode switch selects has, for every input, exactly the effect the ISA prescribes. -/
theorem cdna3_s_add_i32_conforms : ConformsTo Gen.cdna3.dispatch 0 2 32 Spec.s_add_i32 :=
  ⟨_, rfl, by
    intro i
    simp only [Gen.cdna3.run_SADDI32, Spec.s_add_i32, Spec.lo, ovf_add_c, sext_add_trunc, ret32_ite_b, norm_ret32]⟩

/-- CDNA3 `s_sub_i32` (format 0, opcode 3): the handler the opcode switch selects has, for every input, exactly the effect the ISA prescribes. -/
theorem cdna3_s_sub_i32_conforms : ConformsTo Gen.cdna3.dispatch 0 3 32 Spec.s_sub_i32 :=
  ⟨_, rfl, by
    intro i
    simp only [Gen.cdna3.run_SSUBI32, Spec.s_sub_i32, Spec.lo, ovf_sub_c, sext_sub_trunc, ret32_ite_b, norm_ret32]⟩

/-- CDNA3 `s_addc_u32` (format 0, opcode 4): the handler the opcode switch selects has, for every architectural input (SCC one bit), exactly the effect the ISA prescribes. -/
theorem cdna3_s_addc_u32_conforms : ConformsArch Gen.cdna3.dispatch 0 4 32 Spec.s_addc_u32 :=
  conformsArch_iff_conformsScc.mpr
    ⟨_, rfl, by conformS Gen.cdna3.run_SADDCU32 Spec.s_addc_u32⟩

/-- CDNA3 `s_subb_u32` (format 0, opcode 5): the handler the opcode switch selects has, for every architectural input (SCC one bit), exactly the effect the ISA prescribes. -/
theorem cdna3_s_subb_u32_conforms : ConformsArch Gen.cdna3.dispatch 0 5 32 Spec.s_subb_u32 :=
  conformsArch_iff_conformsScc.mpr
    ⟨_, rfl, by conformS Gen.cdna3.run_SSUBBU32 Spec.s_subb_u32⟩

/-- CDNA3 `s_min_i32` (format 0, opcode 6): the handler the opcode switch selects has, for every input, exactly the effect the ISA prescribes. -/
theorem cdna3_s_min_i32_conforms : ConformsTo Gen.cdna3.dispatch 0 6 32 Spec.s_min_i32 :=
  ⟨_, rfl, by conform Gen.cdna3.run_SMINI32 Spec.s_min_i32⟩

/-- CDNA3 `s_min_u32` (format 0, opcode 7): the handler the opcode switch selects has, for every input, exactly the effect the ISA prescribes. -/
theorem cdna3_s_min_u32_conforms : ConformsTo Gen.cdna3.dispatch 0 7 32 Spec.s_min_u32 :=
  ⟨_, rfl, by conform Gen.cdna3.run_SMINU32 Spec.s_min_u32⟩

/-- CDNA3 `s_max_i32` (format 0, opcode 8): the handler the opcode switch selects has, for every input, exactly the effect the ISA prescribes. -/
theorem cdna3_s_max_i32_conforms : ConformsTo Gen.cdna3.dispatch 0 8 32 Spec.s_max_i32 :=
  ⟨_, rfl, by conform Gen.cdna3.run_SMAXI32 Spec.s_max_i32⟩

/-- CDNA3 `s_max_u32` (format 0, opcode 9): the handler the opcode switch selects has, for every input, exactly the effect the ISA prescribes. -/
theorem cdna3_s_max_u32_conforms : ConformsTo Gen.cdna3.dispatch 0 9 32 Spec.s_max_u32 :=
  ⟨_, rfl, by conform Gen.cdna3.run_SMAXU32 Spec.s_max_u32⟩

/-- CDNA3 `s_cselect_b32` (format 0, opcode 10): the handler the opcode switch selects has, for every architectural input (SCC one bit), exactly the effect the ISA prescribes. -/
theorem cdna3_s_cselect_b32_conforms : ConformsArch Gen.cdna3.dispatch 0 10 32 Spec.s_cselect_b32 :=
  conformsArch_iff_conformsScc.mpr
    ⟨_, rfl, by conformS Gen.cdna3.run_SCSELECTB32 Spec.s_cselect_b32⟩

/-- CDNA3 `s_cselect_b64` (format 0, opcode 11): the handler the opcode switch selects has, for every architectural input (SCC one bit), exactly the effect the ISA prescribes. -/
theorem cdna3_s_cselect_b64_conforms : ConformsArch Gen.cdna3.dispatch 0 11 64 Spec.s_cselect_b64 :=
  conformsArch_iff_conformsScc.mpr
    ⟨_, rfl, by conformS Gen.cdna3.run_SCSELECTB64 Spec.s_cselect_b64⟩

/-- CDNA3 `s_and_b32` (format 0, opcode 12): the handler the opcode switch selects has, for every input, exactly the effect the ISA prescribes. -/
theorem cdna3_s_and_b32_conforms : ConformsTo Gen.cdna3.dispatch 0 12 32 Spec.s_and_b32 :=
  ⟨_, rfl, by conform Gen.cdna3.run_SANDB32 Spec.s_and_b32⟩

/-- CDNA3 `s_and_b64` (format 0, opcode 13): the handler the opcode switch selects has, for every input, exactly the effect the ISA prescribes. -/
theorem cdna3_s_and_b64_conforms : ConformsTo Gen.cdna3.dispatch 0 13 64 Spec.s_and_b64 :=
  ⟨_, rfl, by conform Gen.cdna3.run_SANDB64 Spec.s_and_b64⟩

/-- CDNA3 `s_or_b32` (format 0, opcode 14): the handler the opcode switch selects has, for every input, exactly the effect the ISA prescribes. -/
theorem cdna3_s_or_b32_conforms : ConformsTo Gen.cdna3.dispatch 0 14 32 Spec.s_or_b32 :=
  ⟨_, rfl, by conform Gen.cdna3.run_SORB32 Spec.s_or_b32⟩

/-- CDNA3 `s_or_b64` (format 0, opcode 15): the handler the opcode switch selects has, for every input, exactly the effect the ISA prescribes. -/
theorem cdna3_s_or_b64_conforms : ConformsTo Gen.cdna3.dispatch 0 15 64 Spec.s_or_b64 :=
  ⟨_, rfl, by conform Gen.cdna3.run_SORB64 Spec.s_or_b64⟩

/-- CDNA3 `s_xor_b32` (format 0, opcode 16): the handler the opcode switch selects has, for every input, exactly the effect the ISA prescribes. -/
theorem cdna3_s_xor_b32_conforms : ConformsTo Gen.cdna3.dispatch 0 16 32 Spec.s_xor_b32 :=
  ⟨_, rfl, by conform Gen.cdna3.run_SXORB32 Spec.s_xor_b32⟩

/-- CDNA3 `s_xor_b64` (format 0, opcode 17): the handler the opcode switch selects has, for every input, exactly the effect the ISA prescribes. -/
theorem cdna3_s_xor_b64_conforms : ConformsTo Gen.cdna3.dispatch 0 17 64 Spec.s_xor_b64 :=
  ⟨_, rfl, by conform Gen.cdna3.run_SXORB64 Spec.s_xor_b64⟩

/-- CDNA3 `s_andn2_b32` (format 0, opcode 18): the handler the opcode switch selects has, for every input, exactly the effect the ISA prescribes. -/
theorem cdna3_s_andn2_b32_conforms : ConformsTo Gen.cdna3.dispatch 0 18 32 Spec.s_andn2_b32 :=
  ⟨_, rfl, by conform Gen.cdna3.run_SANDN2B32 Spec.s_andn2_b32⟩

/-- CDNA3 `s_andn2_b64` (format 0, opcode 19): the handler the opcode switch selects has, for every input, exactly the effect the ISA prescribes. -/
theorem cdna3_s_andn2_b64_conforms : ConformsTo Gen.cdna3.dispatch 0 19 64 Spec.s_andn2_b64 :=
  ⟨_, rfl, by conform Gen.cdna3.run_SANDN2B64 Spec.s_andn2_b64⟩

/-- CDNA3 `s_orn2_b32` (format 0, opcode 20): the handler the opcode switch selects has, for every input, exactly the effect the ISA prescribes. -/
theorem cdna3_s_orn2_b32_conforms : ConformsTo Gen.cdna3.dispatch 0 20 32 Spec.s_orn2_b32 :=
  ⟨_, rfl, by conform Gen.cdna3.run_SORN2B32 Spec.s_orn2_b32⟩

/-- CDNA3 `s_orn2_b64` (format 0, opcode 21): the handler the opcode switch selects has, for every input, exactly the effect the ISA prescribes. -/
theorem cdna3_s_orn2_b64_conforms : ConformsTo Gen.cdna3.dispatch 0 21 64 Spec.s_orn2_b64 :=
  ⟨_, rfl, by conform Gen.cdna3.run_SORN2B64 Spec.s_orn2_b64⟩

/-- CDNA3 `s_lshl_b32` (format 0, opcode 28): the handler the opcode switch selects has, for every input, exactly the effect the ISA prescribes. -/
theorem cdna3_s_lshl_b32_conforms : ConformsTo Gen.cdna3.dispatch 0 28 32 Spec.s_lshl_b32 :=
  ⟨_, rfl, by conform Gen.cdna3.run_SLSHLB32 Spec.s_lshl_b32⟩

/-- CDNA3 `s_lshl_b64` (format 0, opcode 29): the handler the opcode switch selects has, for every input, exactly the effect the ISA prescribes. -/
theorem cdna3_s_lshl_b64_conforms : ConformsTo Gen.cdna3.dispatch 0 29 64 Spec.s_lshl_b64 :=
  ⟨_, rfl, by conform Gen.cdna3.run_SLSHLB64 Spec.s_lshl_b64⟩

/-- CDNA3 `s_lshr_b32` (format 0, opcode 30): the handler the opcode switch selects has, for every input, exactly the effect the ISA prescribes. -/
theorem cdna3_s_lshr_b32_conforms : ConformsTo Gen.cdna3.dispatch 0 30 32 Spec.s_lshr_b32 :=
  ⟨_, rfl, by
    intro i
    simp only [Gen.cdna3.run_SLSHRB32, Spec.s_lshr_b32, Spec.logic32, Spec.lo, and31_toNat, w64_bne_zero, ret32_ite, norm_ret32]⟩

/-- CDNA3 `s_lshr_b64` (format 0, opcode 31): the handler the opcode switch selects has, for every input, exactly the effect the ISA prescribes. -/
theorem cdna3_s_lshr_b64_conforms : ConformsTo Gen.cdna3.dispatch 0 31 64 Spec.s_lshr_b64 :=
  ⟨_, rfl, by conform Gen.cdna3.run_SLSHRB64 Spec.s_lshr_b64⟩

/-- CDNA3 `s_ashr_i32` (format 0, opcode 32): the handler the opcode switch selects has, for every input, exactly the effect the ISA prescribes. -/
theorem cdna3_s_ashr_i32_conforms : ConformsTo Gen.cdna3.dispatch 0 32 32 Spec.s_ashr_i32 :=
  ⟨_, rfl, by conform Gen.cdna3.run_SASHRI32 Spec.s_ashr_i32⟩

/-- CDNA3 `s_ashr_i64` (format 0, opcode 33): the handler the opcode switch selects has, for every input, exactly the effect the ISA prescribes. -/
theorem cdna3_s_ashr_i64_conforms : ConformsTo Gen.cdna3.dispatch 0 33 64 Spec.s_ashr_i64 :=
  ⟨_, rfl, by conform Gen.cdna3.run_SASHRI64 Spec.s_ashr_i64⟩

/-- CDNA3 `s_bfm_b32` (format 0, opcode 34): the handler the opcode switch selects has, for every input, exactly the effect the ISA prescribes. -/
theorem cdna3_s_bfm_b32_conforms : ConformsTo Gen.cdna3.dispatch 0 34 32 Spec.s_bfm_b32 :=
  ⟨_, rfl, by
    intro i
    simp only [Gen.cdna3.run_SBFMB32, Spec.s_bfm_b32, Spec.lo, and31_toNat, and_mask32, ScalarOut.norm, Option.map, keep32, trunc_zext32,
      BitVec.setWidth_shiftLeft_of_le (show 32 ≤ 64 by decide), trunc_sub, one64_trunc, Spec.ret32n, Spec.w32]⟩

/-- CDNA3 `s_mul_i32` (format 0, opcode 36): the handler the opcode switch selects has, for every input, exactly the effect the ISA prescribes. -/
theorem cdna3_s_mul_i32_conforms : ConformsTo Gen.cdna3.dispatch 0 36 32 Spec.s_mul_i32 :=
  ⟨_, rfl, by conform Gen.cdna3.run_SMULI32 Spec.s_mul_i32⟩

/-- CDNA3 `s_bfe_u32` (format 0, opcode 37): the handler the opcode switch selects has, for every input, exactly the effect the ISA prescribes. -/
theorem cdna3_s_bfe_u32_conforms : ConformsTo Gen.cdna3.dispatch 0 37 32 Spec.s_bfe_u32 :=
  ⟨_, rfl, by
    intro i
    simp only [Gen.cdna3.run_SBFEU32, toNat_16_64, and_mask32, bfeU_cdna3, and31_toNat, beq_zero64, width7_toNat,
      w64_bne_zero, ret32_ite, Spec.s_bfe_u32, Spec.lo, Spec.bfeOffset, Spec.bfeWidth]
    split
    · rename_i h
      have h' := of_decide_eq_true h
      simp only [h', Nat.pow_zero, Nat.mod_one]
      rfl
    · exact norm_ret32 _ _⟩

/-- CDNA3 `s_bfe_i32` (format 0, opcode 38): the handler the opcode switch selects has, for every input, exactly the effect the ISA prescribes. -/
theorem cdna3_s_bfe_i32_conforms : ConformsTo Gen.cdna3.dispatch 0 38 32 Spec.s_bfe_i32 :=
  ⟨_, rfl, by
    intro i
    have hWn := width7_toNat i.src1
    have ho : (BitVec.setWidth 32 i.src1).toNat % 32 < 32 := Nat.mod_lt _ (by decide)
    simp only [Gen.cdna3.run_SBFEI32, toNat_16_64, beq_zero64, and31_toNat, shr_and_one, sccOf64_ite]
    rw [spec_bfe_i32_eq]
    simp only [Spec.lo, Spec.bfeOffset, Spec.bfeWidth, ← hWn]
    generalize ((i.src1 >>> 16) &&& 127#64) = W at *
    by_cases hz : W.toNat = 0
    · simp only [hz, decide_true, if_true, bfeI_zero]
      rfl
    · simp only [hz, decide_false, Bool.false_eq_true, if_false, sub_one_toNat64 W (by omega)]
      rw [← apply_ite sccOf64, norm_sccOf64]
      have h := bfeI_cdna3 (BitVec.setWidth 32 i.src0) _ W.toNat ho (by omega)
      rw [h.2, h.1]⟩

/-- CDNA3 `s_mul_hi_u32` (format 0, opcode 44): the handler the opcode switch selects has, for every input, exactly the effect the ISA prescribes. -/
theorem cdna3_s_mul_hi_u32_conforms : ConformsTo Gen.cdna3.dispatch 0 44 32 Spec.s_mul_hi_u32 :=
  ⟨_, rfl, by
    intro i
    simp only [Gen.cdna3.run_SMULHIU32, Spec.s_mul_hi_u32, Spec.lo, and_mask32, ScalarOut.norm, Option.map, keep32, toNat_32_64, mulhi, Spec.ret32n, Spec.w32]⟩

/-- CDNA3 `s_movk_i32` (format 1, opcode 0): the handler the opcode switch selects has, for every input, exactly the effect the ISA prescribes. -/
theorem cdna3_s_movk_i32_conforms : ConformsTo Gen.cdna3.dispatch 1 0 32 Spec.s_movk_i32 :=
  ⟨_, rfl, by conform Gen.cdna3.run_SMOVKI32 Spec.s_movk_i32⟩

/-- CDNA3 `s_cmovk_i32` (format 1, opcode 1): the handler the opcode switch selects has, for every architectural input (SCC one bit), exactly the effect the ISA prescribes. -/
theorem cdna3_s_cmovk_i32_conforms : ConformsArch Gen.cdna3.dispatch 1 1 32 Spec.s_cmovk_i32 :=
  conformsArch_iff_conformsScc.mpr
    ⟨_, rfl, by conformS Gen.cdna3.run_SCMOVKI32 Spec.s_cmovk_i32⟩

/-- CDNA3 `s_cmpk_eq_i32` (format 1, opcode 2): the handler the opcode switch selects has, for every input, exactly the effect the ISA prescribes. -/
theorem cdna3_s_cmpk_eq_i32_conforms : ConformsTo Gen.cdna3.dispatch 1 2 32 Spec.s_cmpk_eq_i32 :=
  ⟨_, rfl, by conform Gen.cdna3.run_SCMPKEQI32 Spec.s_cmpk_eq_i32⟩

/-- CDNA3 `s_cmpk_lg_i32` (format 1, opcode 3): the handler the opcode switch selects has, for every input, exactly the effect the ISA prescribes. -/
theorem cdna3_s_cmpk_lg_i32_conforms : ConformsTo Gen.cdna3.dispatch 1 3 32 Spec.s_cmpk_lg_i32 :=
  ⟨_, rfl, by conform Gen.cdna3.run_SCMPKLGI32 Spec.s_cmpk_lg_i32⟩

/-- CDNA3 `s_mulk_i32` (format 1, opcode 15): the handler the opcode switch selects has, for every input, exactly the effect the ISA prescribes. -/
theorem cdna3_s_mulk_i32_conforms : ConformsTo Gen.cdna3.dispatch 1 15 32 Spec.s_mulk_i32 :=
  ⟨_, rfl, by conform Gen.cdna3.run_SMULKI32 Spec.s_mulk_i32⟩

/-- CDNA3 `s_mov_b32` (format 2, opcode 0): the handler the opcode switch selects has, for every input, exactly the effect the ISA prescribes. -/
theorem cdna3_s_mov_b32_conforms : ConformsTo Gen.cdna3.dispatch 2 0 32 Spec.s_mov_b32 :=
  ⟨_, rfl, by conform Gen.cdna3.run_SMOVB32 Spec.s_mov_b32⟩

/-- CDNA3 `s_mov_b64` (format 2, opcode 1): the handler the opcode switch selects has, for every input, exactly the effect the ISA prescribes. -/
theorem cdna3_s_mov_b64_conforms : ConformsTo Gen.cdna3.dispatch 2 1 64 Spec.s_mov_b64 :=
  ⟨_, rfl, by conform Gen.cdna3.run_SMOVB64 Spec.s_mov_b64⟩

/-- CDNA3 `s_not_b32` (format 2, opcode 4): the handler the opcode switch selects has, for every input, exactly the effect the ISA prescribes. -/
theorem cdna3_s_not_b32_conforms : ConformsTo Gen.cdna3.dispatch 2 4 32 Spec.s_not_b32 :=
  ⟨_, rfl, by conform Gen.cdna3.run_SNOTU32 Spec.s_not_b32⟩

/-- CDNA3 `s_brev_b32` (format 2, opcode 8; hand-modelled `for` loop, `C03S_Hand.lean`): after its 32 iterations the loop has built exactly the bit reversal the ISA prescribes, for every input. -/
theorem cdna3_s_brev_b32_conforms : ConformsTo Hand.cdna3.dispatch 2 8 32 Spec.s_brev_b32 :=
  ⟨_, rfl, by
    intro i
    show (Spec.ret32n (Hand.cdna3.brevLoop (Spec.lo i.src0) 32)).norm 32 = _
    rw [norm_ret32n, cdna3_brevLoop_eq]
    rfl⟩

/-- CDNA3 `s_getpc_b64` (format 2, opcode 28): the handler the opcode switch selects has, for every input, exactly the effect the ISA prescribes. -/
theorem cdna3_s_getpc_b64_conforms : ConformsTo Gen.cdna3.dispatch 2 28 64 Spec.s_getpc_b64 :=
  ⟨_, rfl, by conform Gen.cdna3.run_SGETPCB64 Spec.s_getpc_b64⟩

/-- CDNA3 `s_and_saveexec_b64` (format 2, opcode 32): the handler the opcode switch selects has, for every input, exactly the effect the ISA prescribes. -/
theorem cdna3_s_and_saveexec_b64_conforms : ConformsTo Gen.cdna3.dispatch 2 32 64 Spec.s_and_saveexec_b64 :=
  ⟨_, rfl, by conform Gen.cdna3.run_SANDSAVEEXECB64 Spec.s_and_saveexec_b64⟩

/-- CDNA3 `s_or_saveexec_b64` (format 2, opcode 33): the handler the opcode switch selects has, for every input, exactly the effect the ISA prescribes. -/
theorem cdna3_s_or_saveexec_b64_conforms : ConformsTo Gen.cdna3.dispatch 2 33 64 Spec.s_or_saveexec_b64 :=
  ⟨_, rfl, by conform Gen.cdna3.run_SORSAVEEXECB64 Spec.s_or_saveexec_b64⟩

/-- CDNA3 `s_xor_saveexec_b64` (format 2, opcode 34): the handler the opcode switch selects has, for every input, exactly the effect the ISA prescribes. -/
theorem cdna3_s_xor_saveexec_b64_conforms : ConformsTo Gen.cdna3.dispatch 2 34 64 Spec.s_xor_saveexec_b64 :=
  ⟨_, rfl, by conform Gen.cdna3.run_SXORSAVEEXECB64 Spec.s_xor_saveexec_b64⟩

/-- CDNA3 `s_andn2_saveexec_b64` (format 2, opcode 35): the handler the opcode switch selects has, for every input, exactly the effect the ISA prescribes. -/
theorem cdna3_s_andn2_saveexec_b64_conforms : ConformsTo Gen.cdna3.dispatch 2 35 64 Spec.s_andn2_saveexec_b64 :=
  ⟨_, rfl, by conform Gen.cdna3.run_SANDN2SAVEEXECB64 Spec.s_andn2_saveexec_b64⟩

/-- CDNA3 `s_orn2_saveexec_b64` (format 2, opcode 36): the handler the opcode switch selects has, for every input, exactly the effect the ISA prescribes. -/
theorem cdna3_s_orn2_saveexec_b64_conforms : ConformsTo Gen.cdna3.dispatch 2 36 64 Spec.s_orn2_saveexec_b64 :=
  ⟨_, rfl, by conform Gen.cdna3.run_SORN2SAVEEXECB64 Spec.s_orn2_saveexec_b64⟩

/-- CDNA3 `s_nand_saveexec_b64` (format 2, opcode 37): the handler the opcode switch selects has, for every input, exactly the effect the ISA prescribes. -/
theorem cdna3_s_nand_saveexec_b64_conforms : ConformsTo Gen.cdna3.dispatch 2 37 64 Spec.s_nand_saveexec_b64 :=
  ⟨_, rfl, by conform Gen.cdna3.run_SNANDSAVEEXECB64 Spec.s_nand_saveexec_b64⟩

/-- CDNA3 `s_nor_saveexec_b64` (format 2, opcode 38): the handler the opcode switch selects has, for every input, exactly the effect the ISA prescribes. -/
theorem cdna3_s_nor_saveexec_b64_conforms : ConformsTo Gen.cdna3.dispatch 2 38 64 Spec.s_nor_saveexec_b64 :=
  ⟨_, rfl, by conform Gen.cdna3.run_SNORSAVEEXECB64 Spec.s_nor_saveexec_b64⟩

/-- CDNA3 `s_xnor_saveexec_b64` (format 2, opcode 39): the handler the opcode switch selects has, for every input, exactly the effect the ISA prescribes. -/
theorem cdna3_s_xnor_saveexec_b64_conforms : ConformsTo Gen.cdna3.dispatch 2 39 64 Spec.s_xnor_saveexec_b64 :=
  ⟨_, rfl, by conform Gen.cdna3.run_SNXORSAVEEXECB64 Spec.s_xnor_saveexec_b64⟩

/-- CDNA3 `s_abs_i32` (format 2, opcode 48): the handler the opcode switch selects has, for every input, exactly the effect the ISA prescribes. -/
theorem cdna3_s_abs_i32_conforms : ConformsTo Gen.cdna3.dispatch 2 48 32 Spec.s_abs_i32 :=
  ⟨_, rfl, by
    intro i
    simp only [Gen.cdna3.run_SABSI32, Spec.s_abs_i32, Spec.lo, ret32_ite]
    split <;> rename_i h <;> simp only [h, norm_ret32, if_true, if_false, Bool.false_eq_true]⟩

/-- CDNA3 `s_cmp_eq_i32` (format 3, opcode 0): the handler the opcode switch selects has, for every input, exactly the effect the ISA prescribes. -/
theorem cdna3_s_cmp_eq_i32_conforms : ConformsTo Gen.cdna3.dispatch 3 0 0 Spec.s_cmp_eq_i32 :=
  ⟨_, rfl, by conform Gen.cdna3.run_SCMPEQI32 Spec.s_cmp_eq_i32⟩

/-- CDNA3 `s_cmp_lg_i32` (format 3, opcode 1): the handler the opcode switch selects has, for every input, exactly the effect the ISA prescribes. -/
theorem cdna3_s_cmp_lg_i32_conforms : ConformsTo Gen.cdna3.dispatch 3 1 0 Spec.s_cmp_lg_i32 :=
  ⟨_, rfl, by conform Gen.cdna3.run_SCMPLGI32 Spec.s_cmp_lg_i32⟩

/-- CDNA3 `s_cmp_gt_i32` (format 3, opcode 2): the handler the opcode switch selects has, for every input, exactly the effect the ISA prescribes. -/
theorem cdna3_s_cmp_gt_i32_conforms : ConformsTo Gen.cdna3.dispatch 3 2 0 Spec.s_cmp_gt_i32 :=
  ⟨_, rfl, by conform Gen.cdna3.run_SCMPGTI32 Spec.s_cmp_gt_i32⟩

/-- CDNA3 `s_cmp_ge_i32` (format 3, opcode 3): the handler the opcode switch selects has, for every input, exactly the effect the ISA prescribes. -/
theorem cdna3_s_cmp_ge_i32_conforms : ConformsTo Gen.cdna3.dispatch 3 3 0 Spec.s_cmp_ge_i32 :=
  ⟨_, rfl, by conform Gen.cdna3.run_SCMPGEI32 Spec.s_cmp_ge_i32⟩

/-- CDNA3 `s_cmp_lt_i32` (format 3, opcode 4): the handler the opcode switch selects has, for every input, exactly the effect the ISA prescribes. -/
theorem cdna3_s_cmp_lt_i32_conforms : ConformsTo Gen.cdna3.dispatch 3 4 0 Spec.s_cmp_lt_i32 :=
  ⟨_, rfl, by conform Gen.cdna3.run_SCMPLTI32 Spec.s_cmp_lt_i32⟩

/-- CDNA3 `s_cmp_le_i32` (format 3, opcode 5): the handler the opcode switch selects has, for every input, exactly the effect the ISA prescribes. -/
theorem cdna3_s_cmp_le_i32_conforms : ConformsTo Gen.cdna3.dispatch 3 5 0 Spec.s_cmp_le_i32 :=
  ⟨_, rfl, by conform Gen.cdna3.run_SCMPLEI32 Spec.s_cmp_le_i32⟩

/-- CDNA3 `s_cmp_eq_u32` (format 3, opcode 6): the handler the opcode switch selects has, for every input, exactly the effect the ISA prescribes. -/
theorem cdna3_s_cmp_eq_u32_conforms : ConformsTo Gen.cdna3.dispatch 3 6 0 Spec.s_cmp_eq_u32 :=
  ⟨_, rfl, by conform Gen.cdna3.run_SCMPEQU32 Spec.s_cmp_eq_u32⟩

/-- CDNA3 `s_cmp_lg_u32` (format 3, opcode 7): the handler the opcode switch selects has, for every input, exactly the effect the ISA prescribes. -/
theorem cdna3_s_cmp_lg_u32_conforms : ConformsTo Gen.cdna3.dispatch 3 7 0 Spec.s_cmp_lg_u32 :=
  ⟨_, rfl, by conform Gen.cdna3.run_SCMPLGU32 Spec.s_cmp_lg_u32⟩

/-- CDNA3 `s_cmp_gt_u32` (format 3, opcode 8): the handler the opcode switch selects has, for every input, exactly the effect the ISA prescribes. -/
theorem cdna3_s_cmp_gt_u32_conforms : ConformsTo Gen.cdna3.dispatch 3 8 0 Spec.s_cmp_gt_u32 :=
  ⟨_, rfl, by conform Gen.cdna3.run_SCMPGTU32 Spec.s_cmp_gt_u32⟩

/-- CDNA3 `s_cmp_ge_u32` (format 3, opcode 9): the handler the opcode switch selects has, for every input, exactly the effect the ISA prescribes. -/
theorem cdna3_s_cmp_ge_u32_conforms : ConformsTo Gen.cdna3.dispatch 3 9 0 Spec.s_cmp_ge_u32 :=
  ⟨_, rfl, by conform Gen.cdna3.run_SCMPGEU32 Spec.s_cmp_ge_u32⟩

/-- CDNA3 `s_cmp_lt_u32` (format 3, opcode 10): the handler the opcode switch selects has, for every input, exactly the effect the ISA prescribes. -/
theorem cdna3_s_cmp_lt_u32_conforms : ConformsTo Gen.cdna3.dispatch 3 10 0 Spec.s_cmp_lt_u32 :=
  ⟨_, rfl, by conform Gen.cdna3.run_SCMPLTU32 Spec.s_cmp_lt_u32⟩

/-- CDNA3 `s_cmp_le_u32` (format 3, opcode 11): the handler the opcode switch selects has, for every input, exactly the effect the ISA prescribes. -/
theorem cdna3_s_cmp_le_u32_conforms : ConformsTo Gen.cdna3.dispatch 3 11 0 Spec.s_cmp_le_u32 :=
  ⟨_, rfl, by conform Gen.cdna3.run_SCMPLEU32 Spec.s_cmp_le_u32⟩

/-- CDNA3 `s_nop` (format 4, opcode 0): the handler the opcode switch selects has, for every input, exactly the effect the ISA prescribes. -/
theorem cdna3_s_nop_conforms : ConformsTo Gen.cdna3.dispatch 4 0 0 Spec.s_nop :=
  ⟨_, rfl, by intro i; first | rfl | (intro _; rfl)⟩

/-- CDNA3 `s_branch` (format 4, opcode 2): the handler the opcode switch selects has, for every input, exactly the effect the ISA prescribes. -/
theorem cdna3_s_branch_conforms : ConformsTo Gen.cdna3.dispatch 4 2 0 Spec.s_branch :=
  ⟨_, rfl, by conform Gen.cdna3.run_SCBRANCH Spec.s_branch⟩

/-- CDNA3 `s_cbranch_scc0` (format 4, opcode 4): the handler the opcode switch selects has, for every architectural input (SCC one bit), exactly the effect the ISA prescribes. -/
theorem cdna3_s_cbranch_scc0_conforms : ConformsArch Gen.cdna3.dispatch 4 4 0 Spec.s_cbranch_scc0 :=
  conformsArch_iff_conformsScc.mpr
    ⟨_, rfl, by conformS Gen.cdna3.run_SCBRANCHSCC0 Spec.s_cbranch_scc0⟩

/-- CDNA3 `s_cbranch_scc1` (format 4, opcode 5): the handler the opcode switch selects has, for every architectural input (SCC one bit), exactly the effect the ISA prescribes. -/
theorem cdna3_s_cbranch_scc1_conforms : ConformsArch Gen.cdna3.dispatch 4 5 0 Spec.s_cbranch_scc1 :=
  conformsArch_iff_conformsScc.mpr
    ⟨_, rfl, by conformS Gen.cdna3.run_SCBRANCHSCC1 Spec.s_cbranch_scc1⟩

/-- CDNA3 `s_cbranch_vccz` (format 4, opcode 6): the handler the opcode switch selects has, for every input, exactly the effect the ISA prescribes. -/
theorem cdna3_s_cbranch_vccz_conforms : ConformsTo Gen.cdna3.dispatch 4 6 0 Spec.s_cbranch_vccz :=
  ⟨_, rfl, by conform Gen.cdna3.run_SCBRANCHVCCZ Spec.s_cbranch_vccz⟩

/-- CDNA3 `s_cbranch_vccnz` (format 4, opcode 7): the handler the opcode switch selects has, for every input, exactly the effect the ISA prescribes. -/
theorem cdna3_s_cbranch_vccnz_conforms : ConformsTo Gen.cdna3.dispatch 4 7 0 Spec.s_cbranch_vccnz :=
  ⟨_, rfl, by conform Gen.cdna3.run_SCBRANCHVCCNZ Spec.s_cbranch_vccnz⟩

/-- CDNA3 `s_cbranch_execz` (format 4, opcode 8): the handler the opcode switch selects has, for every input, exactly the effect the ISA prescribes. -/
theorem cdna3_s_cbranch_execz_conforms : ConformsTo Gen.cdna3.dispatch 4 8 0 Spec.s_cbranch_execz :=
  ⟨_, rfl, by conform Gen.cdna3.run_SCBRANCHEXECZ Spec.s_cbranch_execz⟩

/-- CDNA3 `s_cbranch_execnz` (format 4, opcode 9): the handler the opcode switch selects has, for every input, exactly the effect the ISA prescribes. -/
theorem cdna3_s_cbranch_execnz_conforms : ConformsTo Gen.cdna3.dispatch 4 9 0 Spec.s_cbranch_execnz :=
  ⟨_, rfl, by conform Gen.cdna3.run_SCBRANCHEXECNZ Spec.s_cbranch_execnz⟩

/-- CDNA3 `s_waitcnt` (format 4, opcode 12): the handler the opcode switch selects has, for every input, exactly the effect the ISA prescribes. -/
theorem cdna3_s_waitcnt_conforms : ConformsTo Gen.cdna3.dispatch 4 12 0 Spec.s_waitcnt :=
  ⟨_, rfl, by intro i; first | rfl | (intro _; rfl)⟩

/-! ## The two ALUs agree wherever both implement an opcode (both manuals define these opcodes identically)

`Agree`: on every input record; `AgreeArch` (SCC readers): on every architectural input. -/

/-- `s_add_u32`: `emu.ALUImpl` and `cdna3.ALU` have the same architectural effect on every input. -/
theorem alu_agree_s_add_u32 : Agree 0 0 32 := agree_of_conforms gcn3_s_add_u32_conforms cdna3_s_add_u32_conforms

/-- `s_sub_u32`: `emu.ALUImpl` and `cdna3.ALU` have the same architectural effect on every input. -/
theorem alu_agree_s_sub_u32 : Agree 0 1 32 := agree_of_conforms gcn3_s_sub_u32_conforms cdna3_s_sub_u32_conforms

/-- `s_add_i32`: `emu.ALUImpl` and `cdna3.ALU` have the same architectural effect on every input. -/
theorem alu_agree_s_add_i32 : Agree 0 2 32 := agree_of_conforms gcn3_s_add_i32_conforms cdna3_s_add_i32_conforms

/-- `s_sub_i32`: `emu.ALUImpl` and `cdna3.ALU` have the same architectural effect on every input. -/
theorem alu_agree_s_sub_i32 : Agree 0 3 32 := agree_of_conforms gcn3_s_sub_i32_conforms cdna3_s_sub_i32_conforms

/-- `s_addc_u32`: `emu.ALUImpl` and `cdna3.ALU` have the same architectural effect on every architectural input (SCC one bit). -/
theorem alu_agree_s_addc_u32 : AgreeArch 0 4 32 := agree_of_conformsArch gcn3_s_addc_u32_conforms cdna3_s_addc_u32_conforms

/-- `s_subb_u32`: `emu.ALUImpl` and `cdna3.ALU` have the same architectural effect on every architectural input (SCC one bit). -/
theorem alu_agree_s_subb_u32 : AgreeArch 0 5 32 := agree_of_conformsArch gcn3_s_subb_u32_conforms cdna3_s_subb_u32_conforms

/-- `s_min_i32`: `emu.ALUImpl` and `cdna3.ALU` have the same architectural effect on every input. -/
theorem alu_agree_s_min_i32 : Agree 0 6 32 := agree_of_conforms gcn3_s_min_i32_conforms cdna3_s_min_i32_conforms

/-- `s_min_u32`: `emu.ALUImpl` and `cdna3.ALU` have the same architectural effect on every input. -/
theorem alu_agree_s_min_u32 : Agree 0 7 32 := agree_of_conforms gcn3_s_min_u32_conforms cdna3_s_min_u32_conforms

/-- `s_max_i32`: `emu.ALUImpl` and `cdna3.ALU` have the same architectural effect on every input. -/
theorem alu_agree_s_max_i32 : Agree 0 8 32 := agree_of_conforms gcn3_s_max_i32_conforms cdna3_s_max_i32_conforms

/-- `s_max_u32`: `emu.ALUImpl` and `cdna3.ALU` have the same architectural effect on every input. -/
theorem alu_agree_s_max_u32 : Agree 0 9 32 := agree_of_conforms gcn3_s_max_u32_conforms cdna3_s_max_u32_conforms

/-- `s_cselect_b32`: `emu.ALUImpl` and `cdna3.ALU` have the same architectural effect on every architectural input (SCC one bit). -/
theorem alu_agree_s_cselect_b32 : AgreeArch 0 10 32 := agree_of_conformsArch gcn3_s_cselect_b32_conforms cdna3_s_cselect_b32_conforms

/-- `s_and_b32`: `emu.ALUImpl` and `cdna3.ALU` have the same architectural effect on every input. -/
theorem alu_agree_s_and_b32 : Agree 0 12 32 := agree_of_conforms gcn3_s_and_b32_conforms cdna3_s_and_b32_conforms

/-- `s_and_b64`: `emu.ALUImpl` and `cdna3.ALU` have the same architectural effect on every input. -/
theorem alu_agree_s_and_b64 : Agree 0 13 64 := agree_of_conforms gcn3_s_and_b64_conforms cdna3_s_and_b64_conforms

/-- `s_or_b64`: `emu.ALUImpl` and `cdna3.ALU` have the same architectural effect on every input. -/
theorem alu_agree_s_or_b64 : Agree 0 15 64 := agree_of_conforms gcn3_s_or_b64_conforms cdna3_s_or_b64_conforms

/-- `s_xor_b32`: `emu.ALUImpl` and `cdna3.ALU` have the same architectural effect on every input. -/
theorem alu_agree_s_xor_b32 : Agree 0 16 32 := agree_of_conforms gcn3_s_xor_b32_conforms cdna3_s_xor_b32_conforms

/-- `s_xor_b64`: `emu.ALUImpl` and `cdna3.ALU` have the same architectural effect on every input. -/
theorem alu_agree_s_xor_b64 : Agree 0 17 64 := agree_of_conforms gcn3_s_xor_b64_conforms cdna3_s_xor_b64_conforms

/-- `s_andn2_b64`: `emu.ALUImpl` and `cdna3.ALU` have the same architectural effect on every input. -/
theorem alu_agree_s_andn2_b64 : Agree 0 19 64 := agree_of_conforms gcn3_s_andn2_b64_conforms cdna3_s_andn2_b64_conforms

/-- `s_lshl_b32`: `emu.ALUImpl` and `cdna3.ALU` have the same architectural effect on every input. -/
theorem alu_agree_s_lshl_b32 : Agree 0 28 32 := agree_of_conforms gcn3_s_lshl_b32_conforms cdna3_s_lshl_b32_conforms

/-- `s_lshl_b64`: `emu.ALUImpl` and `cdna3.ALU` have the same architectural effect on every input. -/
theorem alu_agree_s_lshl_b64 : Agree 0 29 64 := agree_of_conforms gcn3_s_lshl_b64_conforms cdna3_s_lshl_b64_conforms

/-- `s_lshr_b32`: `emu.ALUImpl` and `cdna3.ALU` have the same architectural effect on every input. -/
theorem alu_agree_s_lshr_b32 : Agree 0 30 32 := agree_of_conforms gcn3_s_lshr_b32_conforms cdna3_s_lshr_b32_conforms

/-- `s_lshr_b64`: `emu.ALUImpl` and `cdna3.ALU` have the same architectural effect on every input. -/
theorem alu_agree_s_lshr_b64 : Agree 0 31 64 := agree_of_conforms gcn3_s_lshr_b64_conforms cdna3_s_lshr_b64_conforms

/-- `s_ashr_i32`: `emu.ALUImpl` and `cdna3.ALU` have the same architectural effect on every input. -/
theorem alu_agree_s_ashr_i32 : Agree 0 32 32 := agree_of_conforms gcn3_s_ashr_i32_conforms cdna3_s_ashr_i32_conforms

/-- `s_bfm_b32`: `emu.ALUImpl` and `cdna3.ALU` have the same architectural effect on every input. -/
theorem alu_agree_s_bfm_b32 : Agree 0 34 32 := agree_of_conforms gcn3_s_bfm_b32_conforms cdna3_s_bfm_b32_conforms

/-- `s_mul_i32`: `emu.ALUImpl` and `cdna3.ALU` have the same architectural effect on every input. -/
theorem alu_agree_s_mul_i32 : Agree 0 36 32 := agree_of_conforms gcn3_s_mul_i32_conforms cdna3_s_mul_i32_conforms

/-- `s_bfe_i32`: `emu.ALUImpl` and `cdna3.ALU` have the same architectural effect on every input. -/
theorem alu_agree_s_bfe_i32 : Agree 0 38 32 := agree_of_conforms gcn3_s_bfe_i32_conforms cdna3_s_bfe_i32_conforms

/-- `s_movk_i32`: `emu.ALUImpl` and `cdna3.ALU` have the same architectural effect on every input. -/
theorem alu_agree_s_movk_i32 : Agree 1 0 32 := agree_of_conforms gcn3_s_movk_i32_conforms cdna3_s_movk_i32_conforms

/-- `s_cmovk_i32`: `emu.ALUImpl` and `cdna3.ALU` have the same architectural effect on every architectural input (SCC one bit). -/
theorem alu_agree_s_cmovk_i32 : AgreeArch 1 1 32 := agree_of_conformsArch gcn3_s_cmovk_i32_conforms cdna3_s_cmovk_i32_conforms

/-- `s_cmpk_eq_i32`: `emu.ALUImpl` and `cdna3.ALU` have the same architectural effect on every input. -/
theorem alu_agree_s_cmpk_eq_i32 : Agree 1 2 32 := agree_of_conforms gcn3_s_cmpk_eq_i32_conforms cdna3_s_cmpk_eq_i32_conforms

/-- `s_cmpk_lg_i32`: `emu.ALUImpl` and `cdna3.ALU` have the same architectural effect on every input. -/
theorem alu_agree_s_cmpk_lg_i32 : Agree 1 3 32 := agree_of_conforms gcn3_s_cmpk_lg_i32_conforms cdna3_s_cmpk_lg_i32_conforms

/-- `s_mulk_i32`: `emu.ALUImpl` and `cdna3.ALU` have the same architectural effect on every input. -/
theorem alu_agree_s_mulk_i32 : Agree 1 15 32 := agree_of_conforms gcn3_s_mulk_i32_conforms cdna3_s_mulk_i32_conforms

/-- `s_mov_b32`: `emu.ALUImpl` and `cdna3.ALU` have the same architectural effect on every input. -/
theorem alu_agree_s_mov_b32 : Agree 2 0 32 := agree_of_conforms gcn3_s_mov_b32_conforms cdna3_s_mov_b32_conforms

/-- `s_mov_b64`: `emu.ALUImpl` and `cdna3.ALU` have the same architectural effect on every input. -/
theorem alu_agree_s_mov_b64 : Agree 2 1 64 := agree_of_conforms gcn3_s_mov_b64_conforms cdna3_s_mov_b64_conforms

/-- `s_not_b32`: `emu.ALUImpl` and `cdna3.ALU` have the same architectural effect on every input. -/
theorem alu_agree_s_not_b32 : Agree 2 4 32 := agree_of_conforms gcn3_s_not_b32_conforms cdna3_s_not_b32_conforms

/-- `s_brev_b32`: `emu.ALUImpl` and `cdna3.ALU` have the same architectural effect on every input. -/
theorem alu_agree_s_brev_b32 : AgreeOn Hand.gcn3.dispatch Hand.cdna3.dispatch 2 8 32 := agree_of_conforms gcn3_s_brev_b32_conforms cdna3_s_brev_b32_conforms

/-- `s_getpc_b64`: `emu.ALUImpl` and `cdna3.ALU` have the same architectural effect on every input. -/
theorem alu_agree_s_getpc_b64 : Agree 2 28 64 := agree_of_conforms gcn3_s_getpc_b64_conforms cdna3_s_getpc_b64_conforms

/-- `s_and_saveexec_b64`: `emu.ALUImpl` and `cdna3.ALU` have the same architectural effect on every input. -/
theorem alu_agree_s_and_saveexec_b64 : Agree 2 32 64 := agree_of_conforms gcn3_s_and_saveexec_b64_conforms cdna3_s_and_saveexec_b64_conforms

/-- `s_or_saveexec_b64`: `emu.ALUImpl` and `cdna3.ALU` have the same architectural effect on every input. -/
theorem alu_agree_s_or_saveexec_b64 : Agree 2 33 64 := agree_of_conforms gcn3_s_or_saveexec_b64_conforms cdna3_s_or_saveexec_b64_conforms

/-- `s_xor_saveexec_b64`: `emu.ALUImpl` and `cdna3.ALU` have the same architectural effect on every input. -/
theorem alu_agree_s_xor_saveexec_b64 : Agree 2 34 64 := agree_of_conforms gcn3_s_xor_saveexec_b64_conforms cdna3_s_xor_saveexec_b64_conforms

/-- `s_andn2_saveexec_b64`: `emu.ALUImpl` and `cdna3.ALU` have the same architectural effect on every input. -/
theorem alu_agree_s_andn2_saveexec_b64 : Agree 2 35 64 := agree_of_conforms gcn3_s_andn2_saveexec_b64_conforms cdna3_s_andn2_saveexec_b64_conforms

/-- `s_orn2_saveexec_b64`: `emu.ALUImpl` and `cdna3.ALU` have the same architectural effect on every input. -/
theorem alu_agree_s_orn2_saveexec_b64 : Agree 2 36 64 := agree_of_conforms gcn3_s_orn2_saveexec_b64_conforms cdna3_s_orn2_saveexec_b64_conforms

/-- `s_nand_saveexec_b64`: `emu.ALUImpl` and `cdna3.ALU` have the same architectural effect on every input. -/
theorem alu_agree_s_nand_saveexec_b64 : Agree 2 37 64 := agree_of_conforms gcn3_s_nand_saveexec_b64_conforms cdna3_s_nand_saveexec_b64_conforms

/-- `s_nor_saveexec_b64`: `emu.ALUImpl` and `cdna3.ALU` have the same architectural effect on every input. -/
theorem alu_agree_s_nor_saveexec_b64 : Agree 2 38 64 := agree_of_conforms gcn3_s_nor_saveexec_b64_conforms cdna3_s_nor_saveexec_b64_conforms

/-- `s_xnor_saveexec_b64`: `emu.ALUImpl` and `cdna3.ALU` have the same architectural effect on every input. -/
theorem alu_agree_s_xnor_saveexec_b64 : Agree 2 39 64 := agree_of_conforms gcn3_s_xnor_saveexec_b64_conforms cdna3_s_xnor_saveexec_b64_conforms

/-- `s_abs_i32`: `emu.ALUImpl` and `cdna3.ALU` have the same architectural effect on every input. -/
theorem alu_agree_s_abs_i32 : Agree 2 48 32 := agree_of_conforms gcn3_s_abs_i32_conforms cdna3_s_abs_i32_conforms

/-- `s_cmp_eq_i32`: `emu.ALUImpl` and `cdna3.ALU` have the same architectural effect on every input. -/
theorem alu_agree_s_cmp_eq_i32 : Agree 3 0 0 := agree_of_conforms gcn3_s_cmp_eq_i32_conforms cdna3_s_cmp_eq_i32_conforms

/-- `s_cmp_lg_i32`: `emu.ALUImpl` and `cdna3.ALU` have the same architectural effect on every input. -/
theorem alu_agree_s_cmp_lg_i32 : Agree 3 1 0 := agree_of_conforms gcn3_s_cmp_lg_i32_conforms cdna3_s_cmp_lg_i32_conforms

/-- `s_cmp_gt_i32`: `emu.ALUImpl` and `cdna3.ALU` have the same architectural effect on every input. -/
theorem alu_agree_s_cmp_gt_i32 : Agree 3 2 0 := agree_of_conforms gcn3_s_cmp_gt_i32_conforms cdna3_s_cmp_gt_i32_conforms

/-- `s_cmp_ge_i32`: `emu.ALUImpl` and `cdna3.ALU` have the same architectural effect on every input. -/
theorem alu_agree_s_cmp_ge_i32 : Agree 3 3 0 := agree_of_conforms gcn3_s_cmp_ge_i32_conforms cdna3_s_cmp_ge_i32_conforms

/-- `s_cmp_lt_i32`: `emu.ALUImpl` and `cdna3.ALU` have the same architectural effect on every input. -/
theorem alu_agree_s_cmp_lt_i32 : Agree 3 4 0 := agree_of_conforms gcn3_s_cmp_lt_i32_conforms cdna3_s_cmp_lt_i32_conforms

/-- `s_cmp_le_i32`: `emu.ALUImpl` and `cdna3.ALU` have the same architectural effect on every input. -/
theorem alu_agree_s_cmp_le_i32 : Agree 3 5 0 := agree_of_conforms gcn3_s_cmp_le_i32_conforms cdna3_s_cmp_le_i32_conforms

/-- `s_cmp_eq_u32`: `emu.ALUImpl` and `cdna3.ALU` have the same architectural effect on every input. -/
theorem alu_agree_s_cmp_eq_u32 : Agree 3 6 0 := agree_of_conforms gcn3_s_cmp_eq_u32_conforms cdna3_s_cmp_eq_u32_conforms

/-- `s_cmp_lg_u32`: `emu.ALUImpl` and `cdna3.ALU` have the same architectural effect on every input. -/
theorem alu_agree_s_cmp_lg_u32 : Agree 3 7 0 := agree_of_conforms gcn3_s_cmp_lg_u32_conforms cdna3_s_cmp_lg_u32_conforms

/-- `s_cmp_gt_u32`: `emu.ALUImpl` and `cdna3.ALU` have the same architectural effect on every input. -/
theorem alu_agree_s_cmp_gt_u32 : Agree 3 8 0 := agree_of_conforms gcn3_s_cmp_gt_u32_conforms cdna3_s_cmp_gt_u32_conforms

/-- `s_cmp_lt_u32`: `emu.ALUImpl` and `cdna3.ALU` have the same architectural effect on every input. -/
theorem alu_agree_s_cmp_lt_u32 : Agree 3 10 0 := agree_of_conforms gcn3_s_cmp_lt_u32_conforms cdna3_s_cmp_lt_u32_conforms

/-- `s_nop`: `emu.ALUImpl` and `cdna3.ALU` have the same architectural effect on every input. -/
theorem alu_agree_s_nop : Agree 4 0 0 := agree_of_conforms gcn3_s_nop_conforms cdna3_s_nop_conforms

/-- `s_branch`: `emu.ALUImpl` and `cdna3.ALU` have the same architectural effect on every input. -/
theorem alu_agree_s_branch : Agree 4 2 0 := agree_of_conforms gcn3_s_branch_conforms cdna3_s_branch_conforms

/-- `s_cbranch_scc0`: `emu.ALUImpl` and `cdna3.ALU` have the same architectural effect on every architectural input (SCC one bit). -/
theorem alu_agree_s_cbranch_scc0 : AgreeArch 4 4 0 := agree_of_conformsArch gcn3_s_cbranch_scc0_conforms cdna3_s_cbranch_scc0_conforms

/-- `s_cbranch_scc1`: `emu.ALUImpl` and `cdna3.ALU` have the same architectural effect on every architectural input (SCC one bit). -/
theorem alu_agree_s_cbranch_scc1 : AgreeArch 4 5 0 := agree_of_conformsArch gcn3_s_cbranch_scc1_conforms cdna3_s_cbranch_scc1_conforms

/-- `s_cbranch_vccz`: `emu.ALUImpl` and `cdna3.ALU` have the same architectural effect on every input. -/
theorem alu_agree_s_cbranch_vccz : Agree 4 6 0 := agree_of_conforms gcn3_s_cbranch_vccz_conforms cdna3_s_cbranch_vccz_conforms

/-- `s_cbranch_vccnz`: `emu.ALUImpl` and `cdna3.ALU` have the same architectural effect on every input. -/
theorem alu_agree_s_cbranch_vccnz : Agree 4 7 0 := agree_of_conforms gcn3_s_cbranch_vccnz_conforms cdna3_s_cbranch_vccnz_conforms

/-- `s_cbranch_execz`: `emu.ALUImpl` and `cdna3.ALU` have the same architectural effect on every input. -/
theorem alu_agree_s_cbranch_execz : Agree 4 8 0 := agree_of_conforms gcn3_s_cbranch_execz_conforms cdna3_s_cbranch_execz_conforms

/-- `s_cbranch_execnz`: `emu.ALUImpl` and `cdna3.ALU` have the same architectural effect on every input. -/
theorem alu_agree_s_cbranch_execnz : Agree 4 9 0 := agree_of_conforms gcn3_s_cbranch_execnz_conforms cdna3_s_cbranch_execnz_conforms

/-- `s_waitcnt`: `emu.ALUImpl` and `cdna3.ALU` have the same architectural effect on every input. -/
theorem alu_agree_s_waitcnt : Agree 4 12 0 := agree_of_conforms gcn3_s_waitcnt_conforms cdna3_s_waitcnt_conforms

/-! ## Coverage: every row of the regenerated dispatch tables has a theorem

The theorem lists below carry the PROOFS (not names): an entry exists only if its
`<arch>_<opcode>_conforms` theorem does and talks about the row's (format, opcode) and the ISA
table's function for it.  `all_translated_handlers_have_a_theorem` compares the lists with the tables
`translate/alu.go` regenerates on every run; a new or renumbered handler without a theorem makes it
false (and the `#eval` guard in front of it prints the row, with the Go handler's name). -/

/-- the conformance theorems of the GCN3 ALU, one per row of `Gen.gcn3.table` -/
def gcn3Proved : List (Proved gcn3Dispatch) := [
  ⟨0, 0, .ofArch _ rfl (gcn3_s_add_u32_conforms.toArch.mono (gen_sub_gcn3 0 0))⟩,
  ⟨0, 1, .ofArch _ rfl (gcn3_s_sub_u32_conforms.toArch.mono (gen_sub_gcn3 0 1))⟩,
  ⟨0, 2, .ofArch _ rfl (gcn3_s_add_i32_conforms.toArch.mono (gen_sub_gcn3 0 2))⟩,
  ⟨0, 3, .ofArch _ rfl (gcn3_s_sub_i32_conforms.toArch.mono (gen_sub_gcn3 0 3))⟩,
  ⟨0, 4, .ofArch _ rfl (gcn3_s_addc_u32_conforms.mono (gen_sub_gcn3 0 4))⟩,
  ⟨0, 5, .ofArch _ rfl (gcn3_s_subb_u32_conforms.mono (gen_sub_gcn3 0 5))⟩,
  ⟨0, 6, .ofArch _ rfl (gcn3_s_min_i32_conforms.toArch.mono (gen_sub_gcn3 0 6))⟩,
  ⟨0, 7, .ofArch _ rfl (gcn3_s_min_u32_conforms.toArch.mono (gen_sub_gcn3 0 7))⟩,
  ⟨0, 8, .ofArch _ rfl (gcn3_s_max_i32_conforms.toArch.mono (gen_sub_gcn3 0 8))⟩,
  ⟨0, 9, .ofArch _ rfl (gcn3_s_max_u32_conforms.toArch.mono (gen_sub_gcn3 0 9))⟩,
  ⟨0, 10, .ofArch _ rfl (gcn3_s_cselect_b32_conforms.mono (gen_sub_gcn3 0 10))⟩,
  ⟨0, 12, .ofArch _ rfl (gcn3_s_and_b32_conforms.toArch.mono (gen_sub_gcn3 0 12))⟩,
  ⟨0, 13, .ofArch _ rfl (gcn3_s_and_b64_conforms.toArch.mono (gen_sub_gcn3 0 13))⟩,
  ⟨0, 15, .ofArch _ rfl (gcn3_s_or_b64_conforms.toArch.mono (gen_sub_gcn3 0 15))⟩,
  ⟨0, 16, .ofArch _ rfl (gcn3_s_xor_b32_conforms.toArch.mono (gen_sub_gcn3 0 16))⟩,
  ⟨0, 17, .ofArch _ rfl (gcn3_s_xor_b64_conforms.toArch.mono (gen_sub_gcn3 0 17))⟩,
  ⟨0, 19, .ofArch _ rfl (gcn3_s_andn2_b64_conforms.toArch.mono (gen_sub_gcn3 0 19))⟩,
  ⟨0, 28, .ofArch _ rfl (gcn3_s_lshl_b32_conforms.toArch.mono (gen_sub_gcn3 0 28))⟩,
  ⟨0, 29, .ofArch _ rfl (gcn3_s_lshl_b64_conforms.toArch.mono (gen_sub_gcn3 0 29))⟩,
  ⟨0, 30, .ofArch _ rfl (gcn3_s_lshr_b32_conforms.toArch.mono (gen_sub_gcn3 0 30))⟩,
  ⟨0, 31, .ofArch _ rfl (gcn3_s_lshr_b64_conforms.toArch.mono (gen_sub_gcn3 0 31))⟩,
  ⟨0, 32, .ofArch _ rfl (gcn3_s_ashr_i32_conforms.toArch.mono (gen_sub_gcn3 0 32))⟩,
  ⟨0, 34, .ofArch _ rfl (gcn3_s_bfm_b32_conforms.toArch.mono (gen_sub_gcn3 0 34))⟩,
  ⟨0, 36, .ofArch _ rfl (gcn3_s_mul_i32_conforms.toArch.mono (gen_sub_gcn3 0 36))⟩,
  ⟨0, 38, .ofArch _ rfl (gcn3_s_bfe_i32_conforms.toArch.mono (gen_sub_gcn3 0 38))⟩,
  ⟨1, 0, .ofArch _ rfl (gcn3_s_movk_i32_conforms.toArch.mono (gen_sub_gcn3 1 0))⟩,
  ⟨1, 1, .ofArch _ rfl (gcn3_s_cmovk_i32_conforms.mono (gen_sub_gcn3 1 1))⟩,
  ⟨1, 2, .ofArch _ rfl (gcn3_s_cmpk_eq_i32_conforms.toArch.mono (gen_sub_gcn3 1 2))⟩,
  ⟨1, 3, .ofArch _ rfl (gcn3_s_cmpk_lg_i32_conforms.toArch.mono (gen_sub_gcn3 1 3))⟩,
  ⟨1, 15, .ofArch _ rfl (gcn3_s_mulk_i32_conforms.toArch.mono (gen_sub_gcn3 1 15))⟩,
  ⟨2, 0, .ofArch _ rfl (gcn3_s_mov_b32_conforms.toArch.mono (gen_sub_gcn3 2 0))⟩,
  ⟨2, 1, .ofArch _ rfl (gcn3_s_mov_b64_conforms.toArch.mono (gen_sub_gcn3 2 1))⟩,
  ⟨2, 4, .ofArch _ rfl (gcn3_s_not_b32_conforms.toArch.mono (gen_sub_gcn3 2 4))⟩,
  ⟨2, 8, .ofArch _ rfl (gcn3_s_brev_b32_conforms.toArch.mono (hand_sub_gcn3 2 8 rfl))⟩,
  ⟨2, 28, .ofArch _ rfl (gcn3_s_getpc_b64_conforms.toArch.mono (gen_sub_gcn3 2 28))⟩,
  ⟨2, 32, .ofArch _ rfl (gcn3_s_and_saveexec_b64_conforms.toArch.mono (gen_sub_gcn3 2 32))⟩,
  ⟨2, 33, .ofArch _ rfl (gcn3_s_or_saveexec_b64_conforms.toArch.mono (gen_sub_gcn3 2 33))⟩,
  ⟨2, 34, .ofArch _ rfl (gcn3_s_xor_saveexec_b64_conforms.toArch.mono (gen_sub_gcn3 2 34))⟩,
  ⟨2, 35, .ofArch _ rfl (gcn3_s_andn2_saveexec_b64_conforms.toArch.mono (gen_sub_gcn3 2 35))⟩,
  ⟨2, 36, .ofArch _ rfl (gcn3_s_orn2_saveexec_b64_conforms.toArch.mono (gen_sub_gcn3 2 36))⟩,
  ⟨2, 37, .ofArch _ rfl (gcn3_s_nand_saveexec_b64_conforms.toArch.mono (gen_sub_gcn3 2 37))⟩,
  ⟨2, 38, .ofArch _ rfl (gcn3_s_nor_saveexec_b64_conforms.toArch.mono (gen_sub_gcn3 2 38))⟩,
  ⟨2, 39, .ofArch _ rfl (gcn3_s_xnor_saveexec_b64_conforms.toArch.mono (gen_sub_gcn3 2 39))⟩,
  ⟨2, 48, .ofArch _ rfl (gcn3_s_abs_i32_conforms.toArch.mono (gen_sub_gcn3 2 48))⟩,
  ⟨3, 0, .ofArch _ rfl (gcn3_s_cmp_eq_i32_conforms.toArch.mono (gen_sub_gcn3 3 0))⟩,
  ⟨3, 1, .ofArch _ rfl (gcn3_s_cmp_lg_i32_conforms.toArch.mono (gen_sub_gcn3 3 1))⟩,
  ⟨3, 2, .ofArch _ rfl (gcn3_s_cmp_gt_i32_conforms.toArch.mono (gen_sub_gcn3 3 2))⟩,
  ⟨3, 3, .ofArch _ rfl (gcn3_s_cmp_ge_i32_conforms.toArch.mono (gen_sub_gcn3 3 3))⟩,
  ⟨3, 4, .ofArch _ rfl (gcn3_s_cmp_lt_i32_conforms.toArch.mono (gen_sub_gcn3 3 4))⟩,
  ⟨3, 5, .ofArch _ rfl (gcn3_s_cmp_le_i32_conforms.toArch.mono (gen_sub_gcn3 3 5))⟩,
  ⟨3, 6, .ofArch _ rfl (gcn3_s_cmp_eq_u32_conforms.toArch.mono (gen_sub_gcn3 3 6))⟩,
  ⟨3, 7, .ofArch _ rfl (gcn3_s_cmp_lg_u32_conforms.toArch.mono (gen_sub_gcn3 3 7))⟩,
  ⟨3, 8, .ofArch _ rfl (gcn3_s_cmp_gt_u32_conforms.toArch.mono (gen_sub_gcn3 3 8))⟩,
  ⟨3, 10, .ofArch _ rfl (gcn3_s_cmp_lt_u32_conforms.toArch.mono (gen_sub_gcn3 3 10))⟩,
  ⟨4, 0, .ofArch _ rfl (gcn3_s_nop_conforms.toArch.mono (gen_sub_gcn3 4 0))⟩,
  ⟨4, 2, .ofArch _ rfl (gcn3_s_branch_conforms.toArch.mono (gen_sub_gcn3 4 2))⟩,
  ⟨4, 4, .ofArch _ rfl (gcn3_s_cbranch_scc0_conforms.mono (gen_sub_gcn3 4 4))⟩,
  ⟨4, 5, .ofArch _ rfl (gcn3_s_cbranch_scc1_conforms.mono (gen_sub_gcn3 4 5))⟩,
  ⟨4, 6, .ofArch _ rfl (gcn3_s_cbranch_vccz_conforms.toArch.mono (gen_sub_gcn3 4 6))⟩,
  ⟨4, 7, .ofArch _ rfl (gcn3_s_cbranch_vccnz_conforms.toArch.mono (gen_sub_gcn3 4 7))⟩,
  ⟨4, 8, .ofArch _ rfl (gcn3_s_cbranch_execz_conforms.toArch.mono (gen_sub_gcn3 4 8))⟩,
  ⟨4, 9, .ofArch _ rfl (gcn3_s_cbranch_execnz_conforms.toArch.mono (gen_sub_gcn3 4 9))⟩,
  ⟨4, 12, .ofArch _ rfl (gcn3_s_waitcnt_conforms.toArch.mono (gen_sub_gcn3 4 12))⟩ ]

/-- the conformance theorems of the CDNA3 ALU, one per row of `Gen.cdna3.table` -/
def cdna3Proved : List (Proved cdna3Dispatch) := [
  ⟨0, 0, .ofArch _ rfl (cdna3_s_add_u32_conforms.toArch.mono (gen_sub_cdna3 0 0))⟩,
  ⟨0, 1, .ofArch _ rfl (cdna3_s_sub_u32_conforms.toArch.mono (gen_sub_cdna3 0 1))⟩,
  ⟨0, 2, .ofArch _ rfl (cdna3_s_add_i32_conforms.toArch.mono (gen_sub_cdna3 0 2))⟩,
  ⟨0, 3, .ofArch _ rfl (cdna3_s_sub_i32_conforms.toArch.mono (gen_sub_cdna3 0 3))⟩,
  ⟨0, 4, .ofArch _ rfl (cdna3_s_addc_u32_conforms.mono (gen_sub_cdna3 0 4))⟩,
  ⟨0, 5, .ofArch _ rfl (cdna3_s_subb_u32_conforms.mono (gen_sub_cdna3 0 5))⟩,
  ⟨0, 6, .ofArch _ rfl (cdna3_s_min_i32_conforms.toArch.mono (gen_sub_cdna3 0 6))⟩,
  ⟨0, 7, .ofArch _ rfl (cdna3_s_min_u32_conforms.toArch.mono (gen_sub_cdna3 0 7))⟩,
  ⟨0, 8, .ofArch _ rfl (cdna3_s_max_i32_conforms.toArch.mono (gen_sub_cdna3 0 8))⟩,
  ⟨0, 9, .ofArch _ rfl (cdna3_s_max_u32_conforms.toArch.mono (gen_sub_cdna3 0 9))⟩,
  ⟨0, 10, .ofArch _ rfl (cdna3_s_cselect_b32_conforms.mono (gen_sub_cdna3 0 10))⟩,
  ⟨0, 11, .ofArch _ rfl (cdna3_s_cselect_b64_conforms.mono (gen_sub_cdna3 0 11))⟩,
  ⟨0, 12, .ofArch _ rfl (cdna3_s_and_b32_conforms.toArch.mono (gen_sub_cdna3 0 12))⟩,
  ⟨0, 13, .ofArch _ rfl (cdna3_s_and_b64_conforms.toArch.mono (gen_sub_cdna3 0 13))⟩,
  ⟨0, 14, .ofArch _ rfl (cdna3_s_or_b32_conforms.toArch.mono (gen_sub_cdna3 0 14))⟩,
  ⟨0, 15, .ofArch _ rfl (cdna3_s_or_b64_conforms.toArch.mono (gen_sub_cdna3 0 15))⟩,
  ⟨0, 16, .ofArch _ rfl (cdna3_s_xor_b32_conforms.toArch.mono (gen_sub_cdna3 0 16))⟩,
  ⟨0, 17, .ofArch _ rfl (cdna3_s_xor_b64_conforms.toArch.mono (gen_sub_cdna3 0 17))⟩,
  ⟨0, 18, .ofArch _ rfl (cdna3_s_andn2_b32_conforms.toArch.mono (gen_sub_cdna3 0 18))⟩,
  ⟨0, 19, .ofArch _ rfl (cdna3_s_andn2_b64_conforms.toArch.mono (gen_sub_cdna3 0 19))⟩,
  ⟨0, 20, .ofArch _ rfl (cdna3_s_orn2_b32_conforms.toArch.mono (gen_sub_cdna3 0 20))⟩,
  ⟨0, 21, .ofArch _ rfl (cdna3_s_orn2_b64_conforms.toArch.mono (gen_sub_cdna3 0 21))⟩,
  ⟨0, 28, .ofArch _ rfl (cdna3_s_lshl_b32_conforms.toArch.mono (gen_sub_cdna3 0 28))⟩,
  ⟨0, 29, .ofArch _ rfl (cdna3_s_lshl_b64_conforms.toArch.mono (gen_sub_cdna3 0 29))⟩,
  ⟨0, 30, .ofArch _ rfl (cdna3_s_lshr_b32_conforms.toArch.mono (gen_sub_cdna3 0 30))⟩,
  ⟨0, 31, .ofArch _ rfl (cdna3_s_lshr_b64_conforms.toArch.mono (gen_sub_cdna3 0 31))⟩,
  ⟨0, 32, .ofArch _ rfl (cdna3_s_ashr_i32_conforms.toArch.mono (gen_sub_cdna3 0 32))⟩,
  ⟨0, 33, .ofArch _ rfl (cdna3_s_ashr_i64_conforms.toArch.mono (gen_sub_cdna3 0 33))⟩,
  ⟨0, 34, .ofArch _ rfl (cdna3_s_bfm_b32_conforms.toArch.mono (gen_sub_cdna3 0 34))⟩,
  ⟨0, 36, .ofArch _ rfl (cdna3_s_mul_i32_conforms.toArch.mono (gen_sub_cdna3 0 36))⟩,
  ⟨0, 37, .ofArch _ rfl (cdna3_s_bfe_u32_conforms.toArch.mono (gen_sub_cdna3 0 37))⟩,
  ⟨0, 38, .ofArch _ rfl (cdna3_s_bfe_i32_conforms.toArch.mono (gen_sub_cdna3 0 38))⟩,
  ⟨0, 44, .ofArch _ rfl (cdna3_s_mul_hi_u32_conforms.toArch.mono (gen_sub_cdna3 0 44))⟩,
  ⟨1, 0, .ofArch _ rfl (cdna3_s_movk_i32_conforms.toArch.mono (gen_sub_cdna3 1 0))⟩,
  ⟨1, 1, .ofArch _ rfl (cdna3_s_cmovk_i32_conforms.mono (gen_sub_cdna3 1 1))⟩,
  ⟨1, 2, .ofArch _ rfl (cdna3_s_cmpk_eq_i32_conforms.toArch.mono (gen_sub_cdna3 1 2))⟩,
  ⟨1, 3, .ofArch _ rfl (cdna3_s_cmpk_lg_i32_conforms.toArch.mono (gen_sub_cdna3 1 3))⟩,
  ⟨1, 15, .ofArch _ rfl (cdna3_s_mulk_i32_conforms.toArch.mono (gen_sub_cdna3 1 15))⟩,
  ⟨2, 0, .ofArch _ rfl (cdna3_s_mov_b32_conforms.toArch.mono (gen_sub_cdna3 2 0))⟩,
  ⟨2, 1, .ofArch _ rfl (cdna3_s_mov_b64_conforms.toArch.mono (gen_sub_cdna3 2 1))⟩,
  ⟨2, 4, .ofArch _ rfl (cdna3_s_not_b32_conforms.toArch.mono (gen_sub_cdna3 2 4))⟩,
  ⟨2, 8, .ofArch _ rfl (cdna3_s_brev_b32_conforms.toArch.mono (hand_sub_cdna3 2 8 rfl))⟩,
  ⟨2, 28, .ofArch _ rfl (cdna3_s_getpc_b64_conforms.toArch.mono (gen_sub_cdna3 2 28))⟩,
  ⟨2, 32, .ofArch _ rfl (cdna3_s_and_saveexec_b64_conforms.toArch.mono (gen_sub_cdna3 2 32))⟩,
  ⟨2, 33, .ofArch _ rfl (cdna3_s_or_saveexec_b64_conforms.toArch.mono (gen_sub_cdna3 2 33))⟩,
  ⟨2, 34, .ofArch _ rfl (cdna3_s_xor_saveexec_b64_conforms.toArch.mono (gen_sub_cdna3 2 34))⟩,
  ⟨2, 35, .ofArch _ rfl (cdna3_s_andn2_saveexec_b64_conforms.toArch.mono (gen_sub_cdna3 2 35))⟩,
  ⟨2, 36, .ofArch _ rfl (cdna3_s_orn2_saveexec_b64_conforms.toArch.mono (gen_sub_cdna3 2 36))⟩,
  ⟨2, 37, .ofArch _ rfl (cdna3_s_nand_saveexec_b64_conforms.toArch.mono (gen_sub_cdna3 2 37))⟩,
  ⟨2, 38, .ofArch _ rfl (cdna3_s_nor_saveexec_b64_conforms.toArch.mono (gen_sub_cdna3 2 38))⟩,
  ⟨2, 39, .ofArch _ rfl (cdna3_s_xnor_saveexec_b64_conforms.toArch.mono (gen_sub_cdna3 2 39))⟩,
  ⟨2, 48, .ofArch _ rfl (cdna3_s_abs_i32_conforms.toArch.mono (gen_sub_cdna3 2 48))⟩,
  ⟨3, 0, .ofArch _ rfl (cdna3_s_cmp_eq_i32_conforms.toArch.mono (gen_sub_cdna3 3 0))⟩,
  ⟨3, 1, .ofArch _ rfl (cdna3_s_cmp_lg_i32_conforms.toArch.mono (gen_sub_cdna3 3 1))⟩,
  ⟨3, 2, .ofArch _ rfl (cdna3_s_cmp_gt_i32_conforms.toArch.mono (gen_sub_cdna3 3 2))⟩,
  ⟨3, 3, .ofArch _ rfl (cdna3_s_cmp_ge_i32_conforms.toArch.mono (gen_sub_cdna3 3 3))⟩,
  ⟨3, 4, .ofArch _ rfl (cdna3_s_cmp_lt_i32_conforms.toArch.mono (gen_sub_cdna3 3 4))⟩,
  ⟨3, 5, .ofArch _ rfl (cdna3_s_cmp_le_i32_conforms.toArch.mono (gen_sub_cdna3 3 5))⟩,
  ⟨3, 6, .ofArch _ rfl (cdna3_s_cmp_eq_u32_conforms.toArch.mono (gen_sub_cdna3 3 6))⟩,
  ⟨3, 7, .ofArch _ rfl (cdna3_s_cmp_lg_u32_conforms.toArch.mono (gen_sub_cdna3 3 7))⟩,
  ⟨3, 8, .ofArch _ rfl (cdna3_s_cmp_gt_u32_conforms.toArch.mono (gen_sub_cdna3 3 8))⟩,
  ⟨3, 9, .ofArch _ rfl (cdna3_s_cmp_ge_u32_conforms.toArch.mono (gen_sub_cdna3 3 9))⟩,
  ⟨3, 10, .ofArch _ rfl (cdna3_s_cmp_lt_u32_conforms.toArch.mono (gen_sub_cdna3 3 10))⟩,
  ⟨3, 11, .ofArch _ rfl (cdna3_s_cmp_le_u32_conforms.toArch.mono (gen_sub_cdna3 3 11))⟩,
  ⟨4, 0, .ofArch _ rfl (cdna3_s_nop_conforms.toArch.mono (gen_sub_cdna3 4 0))⟩,
  ⟨4, 2, .ofArch _ rfl (cdna3_s_branch_conforms.toArch.mono (gen_sub_cdna3 4 2))⟩,
  ⟨4, 4, .ofArch _ rfl (cdna3_s_cbranch_scc0_conforms.mono (gen_sub_cdna3 4 4))⟩,
  ⟨4, 5, .ofArch _ rfl (cdna3_s_cbranch_scc1_conforms.mono (gen_sub_cdna3 4 5))⟩,
  ⟨4, 6, .ofArch _ rfl (cdna3_s_cbranch_vccz_conforms.toArch.mono (gen_sub_cdna3 4 6))⟩,
  ⟨4, 7, .ofArch _ rfl (cdna3_s_cbranch_vccnz_conforms.toArch.mono (gen_sub_cdna3 4 7))⟩,
  ⟨4, 8, .ofArch _ rfl (cdna3_s_cbranch_execz_conforms.toArch.mono (gen_sub_cdna3 4 8))⟩,
  ⟨4, 9, .ofArch _ rfl (cdna3_s_cbranch_execnz_conforms.toArch.mono (gen_sub_cdna3 4 9))⟩,
  ⟨4, 12, .ofArch _ rfl (cdna3_s_waitcnt_conforms.toArch.mono (gen_sub_cdna3 4 12))⟩ ]

#eval show IO Unit from do
  let m := uncovered Gen.gcn3.table (Proved.keys gcn3Proved) ++ uncovered Gen.cdna3.table (Proved.keys cdna3Proved)
  unless m.isEmpty do
    throw (IO.userError s!"scalar handlers (format, opcode, Go handler) without a conformance theorem: {m}")

/-- Coverage obligation: every (format, opcode, handler) row of both regenerated dispatch tables —
    translated and hand-modelled — has a conformance theorem in the lists above. -/
theorem all_translated_handlers_have_a_theorem :
    uncovered Gen.gcn3.table (Proved.keys gcn3Proved) = [] ∧
    uncovered Gen.cdna3.table (Proved.keys cdna3Proved) = [] := by decide

/-- every handler the translator could not translate has a hand-written model (`C03S_Hand.lean`) -/
theorem hand_modelled_handlers_have_a_model :
    (Gen.gcn3.handModelled.all fun h => Hand.gcn3.table.any fun r => r.2.2 == h) = true ∧
    (Gen.cdna3.handModelled.all fun h => Hand.cdna3.table.any fun r => r.2.2 == h) = true := by decide

/-- Whatever handler the GCN3 opcode switch (translated + hand-modelled) selects, for ANY format
    and opcode: the ISA table specifies that opcode and the handler has exactly the specified
    effect on every architectural input. -/
theorem gcn3_every_dispatched_handler_conforms (fmt op : Nat) (h : ScalarIn → ScalarOut)
    (hd : gcn3Dispatch fmt op = some h) : ConformsSpec gcn3Dispatch fmt op :=
  conforms_of_covered all_translated_handlers_have_a_theorem.1 fmt op (gcn3_dispatch_rows fmt op h hd)

/-- The same for the CDNA3 ALU. -/
theorem cdna3_every_dispatched_handler_conforms (fmt op : Nat) (h : ScalarIn → ScalarOut)
    (hd : cdna3Dispatch fmt op = some h) : ConformsSpec cdna3Dispatch fmt op :=
  conforms_of_covered all_translated_handlers_have_a_theorem.2 fmt op (cdna3_dispatch_rows fmt op h hd)

example : ConformsSpec gcn3Dispatch 2 8 := gcn3_every_dispatched_handler_conforms 2 8 _ rfl

/-! ## Runs: SCC is a bit in every reachable state, and whole programs conform -/

/-- `scc_is_bit`: SCC ∈ {0,1} is an invariant of execution — from a state whose SCC is a bit (a
    fresh wavefront has SCC = 0) every run of scalar instructions, on the ISA specification and on
    either modelled ALU, ends in a state whose SCC is a bit.  This discharges the `SCC ∈ {0,1}`
    assumption the SCC-reading conformance theorems used to carry. -/
theorem scc_is_bit (ds : List DInst) (st st' : MState) (hst : st.scc ≤ 1) :
    (run specSem ds st = some st' → st'.scc ≤ 1) ∧
    (run (genSemOf gcn3Dispatch Gen.gcn3.table) ds st = some st' → st'.scc ≤ 1) ∧
    (run (genSemOf cdna3Dispatch Gen.cdna3.table) ds st = some st' → st'.scc ≤ 1) :=
  ⟨run_spec_scc ds st st' hst,
   fun h => run_spec_scc ds st st' hst (run_conforms gcn3_every_dispatched_handler_conforms ds st st' hst h),
   fun h => run_spec_scc ds st st' hst (run_conforms cdna3_every_dispatched_handler_conforms ds st st' hst h)⟩

/-- Run-level conformance, GCN3: for EVERY program of scalar instructions (any formats, opcodes,
    operands) and every start state whose SCC is a bit, if the modelled `emu.ALUImpl` executes the
    program to `st'` then the ISA specification executes it to the same `st'` (operand fetch,
    write-back and all intermediate states included). -/
theorem gcn3_run_conforms (ds : List DInst) (st st' : MState) (hst : st.scc ≤ 1)
    (h : run (genSemOf gcn3Dispatch Gen.gcn3.table) ds st = some st') : run specSem ds st = some st' :=
  run_conforms gcn3_every_dispatched_handler_conforms ds st st' hst h

/-- Run-level conformance, CDNA3 (`cdna3.ALU`). -/
theorem cdna3_run_conforms (ds : List DInst) (st st' : MState) (hst : st.scc ≤ 1)
    (h : run (genSemOf cdna3Dispatch Gen.cdna3.table) ds st = some st') : run specSem ds st = some st' :=
  run_conforms cdna3_every_dispatched_handler_conforms ds st st' hst h

/-- Both ALUs agree on whole programs: a program both execute ends in the same state. -/
theorem alus_agree_on_runs (ds : List DInst) (st sg sc : MState) (hst : st.scc ≤ 1)
    (hg : run (genSemOf gcn3Dispatch Gen.gcn3.table) ds st = some sg)
    (hc : run (genSemOf cdna3Dispatch Gen.cdna3.table) ds st = some sc) : sg = sc := by
  have h1 := gcn3_run_conforms ds st sg hst hg
  have h2 := cdna3_run_conforms ds st sc hst hc
  rw [h1] at h2
  exact Option.some.inj h2

/-- non-vacuity: `s_addc_u32 s2, s0, s1` then `s_cselect_b32 s3, s0, s1` (both read SCC) run on both models -/
example : (run (genSemOf gcn3Dispatch Gen.gcn3.table)
    [⟨0, 4, 2, 0, 1, 0, 0⟩, ⟨0, 10, 3, 0, 1, 0, 0⟩]
    { s := [(0, 0xffffffff), (1, 1)], vcc := 0, exec := 1, scc := 1, pc := 0x1000, m0 := 0 }).map (fun s => (s.sreg 2, s.sreg 3, s.scc))
    = some (1, 0xffffffff, 1) := by decide

/-! ## Frame -/

/-- Frame: a conforming handler writes a cell only if the specification does — in particular no
    scalar opcode's handler can write VCC, and only SOPP branches write PC. -/
theorem frame_of_conforms {disp : Nat → Nat → Option (ScalarIn → ScalarOut)} {fmt op w : Nat}
    {spec : ScalarIn → ScalarOut} (h : ConformsTo disp fmt op w spec) :
    ∃ f, disp fmt op = some f ∧ ∀ i, ((spec i).vcc = none → (f i).vcc = none) ∧
      ((spec i).pc = none → (f i).pc = none) ∧ ((spec i).exec = none → (f i).exec = none) ∧
      ((spec i).scc = none → (f i).scc = none) ∧ ((spec i).dst = none → (f i).dst = none) := by
  obtain ⟨f, hf, hc⟩ := h
  refine ⟨f, hf, fun i => ?_⟩
  have := hc i
  rw [← this]
  simp only [ScalarOut.norm, Option.map_eq_none_iff]
  exact ⟨id, id, id, id, id⟩

/-- e.g. the GCN3 `s_mul_i32` handler writes its destination and nothing else (SCC untouched). -/
theorem gcn3_s_mul_i32_writes_dst_only :
    ∃ f, Gen.gcn3.dispatch 0 36 = some f ∧ ∀ i, (f i).scc = none ∧ (f i).vcc = none ∧ (f i).exec = none ∧ (f i).pc = none := by
  obtain ⟨f, hf, h⟩ := frame_of_conforms gcn3_s_mul_i32_conforms
  exact ⟨f, hf, fun i => ⟨(h i).2.2.2.1 rfl, (h i).1 rfl, (h i).2.2.1 rfl, (h i).2.1 rfl⟩⟩

/-- SCC stays a bit: whatever a conforming handler writes to SCC is 0 or 1 (so `sccOk` is an
    invariant of execution). -/
theorem spec_bit_is_bit (b : Bool) : Spec.bit b = 0#8 ∨ Spec.bit b = 1#8 := by
  cases b <;> simp [Spec.bit]

example : ScalarIn.sccOk { src0 := 5#64, src1 := 3#64, dstOld := 0, scc := 1, vcc := 0, exec := 0, pc := 0x1000, simm16 := 0 } := Or.inr rfl

end C03S
