import MgpuModel.C03S
namespace C03S
end C03S
