import MgpuProofs.C03SLemmas
/-! # C03 (scalar part) — every scalar instruction executes as the ISA prescribes

`Gen.gcn3.*` / `Gen.cdna3.*` are REGENERATED from the Go handlers (`emu.ALUImpl`, `cdna3.ALU`) on
every run; `C03S.Spec.*` is the independent ISA transcription.  A handler's output record lists
everything it writes (`none` = not written), so equality of the records is equality of the whole
architectural effect including the frame.  `ScalarOut.norm w` keeps the low `w` bits of the value
handed to `WriteOperand`, as the register file does for a destination of `w` bits. -/
namespace C03S
open C03S
set_option maxRecDepth 2000

/-! ## Meaning of the specification (so that it is not a second copy of the code) -/

/-- `s_add_u32`: the destination is the sum modulo 2³², SCC is the carry out of bit 31. -/
theorem s_add_u32_meaning (i : ScalarIn) :
    ∃ d, (Spec.s_add_u32 i).dst = some d ∧
      d.toNat = ((Spec.lo i.src0).toNat + (Spec.lo i.src1).toNat) % 4294967296 ∧
      (Spec.s_add_u32 i).scc = some (if (Spec.lo i.src0).toNat + (Spec.lo i.src1).toNat ≥ 4294967296 then 1#8 else 0#8) := by
  refine ⟨_, rfl, ?_, ?_⟩
  · simp [Spec.w32, BitVec.toNat_add]; omega
  · simp [Spec.s_add_u32, Spec.ret32, Spec.bit]

/-- `s_sub_u32`: SCC is the unsigned borrow, the destination the difference modulo 2³². -/
theorem s_sub_u32_meaning (i : ScalarIn) :
    (Spec.s_sub_u32 i).scc = some (if (Spec.lo i.src0).toNat < (Spec.lo i.src1).toNat then 1#8 else 0#8) ∧
    (Spec.s_sub_u32 i).dst = some (Spec.w32 (Spec.lo i.src0 - Spec.lo i.src1)) := by
  simp [Spec.s_sub_u32, Spec.ret32, Spec.bit]

/-- `s_add_i32` / `s_sub_i32`: SCC = 1 exactly when the exact signed result does not fit in 32 bits. -/
theorem s_add_i32_scc_is_signed_overflow (a b : BitVec 32) :
    Spec.addOvf a b = true ↔ (a.toInt + b.toInt > 2147483647 ∨ a.toInt + b.toInt < -2147483648) := by
  simp only [Spec.addOvf, decide_eq_true_eq]; omega
theorem s_sub_i32_scc_is_signed_overflow (a b : BitVec 32) :
    Spec.subOvf a b = true ↔ (a.toInt - b.toInt > 2147483647 ∨ a.toInt - b.toInt < -2147483648) := by
  simp only [Spec.subOvf, decide_eq_true_eq]; omega

/-- `s_lshr_b32`: a logical shift by the low five bits of S1, i.e. division by 2^(S1 mod 32). -/
theorem s_lshr_b32_meaning (i : ScalarIn) :
    ∃ d : BitVec 32, (Spec.s_lshr_b32 i).dst = some (Spec.w32 d) ∧
      d.toNat = (Spec.lo i.src0).toNat / 2 ^ ((Spec.lo i.src1).toNat % 32) := by
  refine ⟨_, rfl, ?_⟩
  simp [BitVec.toNat_ushiftRight, Nat.shiftRight_eq_div_pow]

/-- `s_mul_i32` never writes SCC; logic operations set SCC to "result is non-zero". -/
theorem s_mul_i32_leaves_scc (i : ScalarIn) : (Spec.s_mul_i32 i).scc = none := rfl
theorem s_and_b32_scc (i : ScalarIn) :
    (Spec.s_and_b32 i).scc = some (if (Spec.lo i.src0 &&& Spec.lo i.src1) = 0#32 then 0#8 else 1#8) := by
  simp only [Spec.s_and_b32, Spec.logic32, Spec.ret32, Spec.bit]
  by_cases h : (Spec.lo i.src0 &&& Spec.lo i.src1) = 0#32 <;> simp [h]

/-- `s_min_i32` selects the smaller signed value and sets SCC iff S0 was selected. -/
theorem s_min_i32_meaning (i : ScalarIn) :
    ((Spec.lo i.src0).toInt < (Spec.lo i.src1).toInt →
        Spec.s_min_i32 i = Spec.ret32 (Spec.lo i.src0) true) ∧
    (¬ (Spec.lo i.src0).toInt < (Spec.lo i.src1).toInt →
        Spec.s_min_i32 i = Spec.ret32 (Spec.lo i.src1) false) := by
  constructor <;> intro h <;> simp [Spec.s_min_i32, slt_iff', h]

/-- a taken branch goes to PC + 4 + signext(SIMM16)·4, where PC is the address of the branch:
    `i.pc` already is PC + 4 (both compute units advance it before the ALU runs). -/
theorem s_branch_target (i : ScalarIn) (pcInst : BitVec 64) (h : i.pc = pcInst + 4#64) :
    (Spec.s_branch i).pc = some (pcInst + 4#64 + (i.simm16.setWidth 16).signExtend 64 * 4#64) := by
  simp [Spec.s_branch, Spec.retPc, Spec.target, Spec.imm64, h]

/-- `s_cbranch_scc1` is taken exactly when SCC is set and otherwise writes nothing at all. -/
theorem s_cbranch_scc1_meaning (i : ScalarIn) :
    (i.scc = 0#8 → Spec.s_cbranch_scc1 i = ScalarOut.nothing) ∧
    (i.scc ≠ 0#8 → Spec.s_cbranch_scc1 i = Spec.retPc (Spec.target i)) := by
  constructor <;> intro h <;> simp [Spec.s_cbranch_scc1, Spec.cbranch, Spec.nothing, h]

/-- saveexec: the destination receives the OLD exec mask, EXEC the combination, SCC = (EXEC ≠ 0). -/
theorem s_and_saveexec_b64_meaning (i : ScalarIn) :
    (Spec.s_and_saveexec_b64 i).dst = some i.exec ∧
    (Spec.s_and_saveexec_b64 i).exec = some (i.src0 &&& i.exec) ∧
    (Spec.s_and_saveexec_b64 i).pc = none ∧ (Spec.s_and_saveexec_b64 i).vcc = none := by
  simp [Spec.s_and_saveexec_b64, Spec.saveexec]

example : (Spec.s_add_i32 { src0 := 0x7fffffff#64, src1 := 1#64, dstOld := 0, scc := 0, vcc := 0, exec := 0, pc := 0, simm16 := 0 }).scc = some 1#8 := by decide
example : (Spec.s_bfe_i32 { src0 := 0xf0#64, src1 := 0x40004#64, dstOld := 0, scc := 0, vcc := 0, exec := 0, pc := 0, simm16 := 0 }).dst = some 0xffffffff#64 := by decide

/-! ## Conformance of every translated handler (tie R), per architecture and opcode -/

/-- GCN3 `s_add_u32` (format 0, opcode 0): the handler the opcode switch selects has, for every input, exactly the effect the ISA prescribes. -/
theorem gcn3_s_add_u32_conforms : ConformsTo Gen.gcn3.dispatch 0 0 32 Spec.s_add_u32 :=
  ⟨_, rfl, by conform Gen.gcn3.run_SADDU32 Spec.s_add_u32⟩

/-- GCN3 `s_sub_u32` (format 0, opcode 1): the handler the opcode switch selects has, for every input, exactly the effect the ISA prescribes. -/
theorem gcn3_s_sub_u32_conforms : ConformsTo Gen.gcn3.dispatch 0 1 32 Spec.s_sub_u32 :=
  ⟨_, rfl, by conform Gen.gcn3.run_SSUBU32 Spec.s_sub_u32⟩

/-- GCN3 `s_add_i32` (format 0, opcode 2): the handler the opcode switch selects has, for every input, exactly the effect the ISA prescribes. -/
theorem gcn3_s_add_i32_conforms : ConformsTo Gen.gcn3.dispatch 0 2 32 Spec.s_add_i32 :=
  ⟨_, rfl, by
    intro i
    simp only [Gen.gcn3.run_SADDI32, Spec.s_add_i32, Spec.lo, ← ovf_add]
    (repeat' split) <;> simp_all [ScalarOut.norm, keep, Spec.ret32, Spec.w32, Spec.bit]⟩

/-- GCN3 `s_sub_i32` (format 0, opcode 3): the handler the opcode switch selects has, for every input, exactly the effect the ISA prescribes. -/
theorem gcn3_s_sub_i32_conforms : ConformsTo Gen.gcn3.dispatch 0 3 32 Spec.s_sub_i32 :=
  ⟨_, rfl, by
    intro i
    simp only [Gen.gcn3.run_SSUBI32, Spec.s_sub_i32, Spec.lo, ← ovf_sub]
    (repeat' split) <;> simp_all [ScalarOut.norm, keep, Spec.ret32, Spec.w32, Spec.bit]⟩

/-- GCN3 `s_addc_u32` (format 0, opcode 4): the handler the opcode switch selects has, for every input, exactly the effect the ISA prescribes. -/
theorem gcn3_s_addc_u32_conforms : ConformsScc Gen.gcn3.dispatch 0 4 32 Spec.s_addc_u32 :=
  ⟨_, rfl, by conformS Gen.gcn3.run_SADDCU32 Spec.s_addc_u32⟩

/-- GCN3 `s_subb_u32` (format 0, opcode 5): the handler the opcode switch selects has, for every input, exactly the effect the ISA prescribes. -/
theorem gcn3_s_subb_u32_conforms : ConformsScc Gen.gcn3.dispatch 0 5 32 Spec.s_subb_u32 :=
  ⟨_, rfl, by conformS Gen.gcn3.run_SSUBBU32 Spec.s_subb_u32⟩

/-- GCN3 `s_min_i32` (format 0, opcode 6): the handler the opcode switch selects has, for every input, exactly the effect the ISA prescribes. -/
theorem gcn3_s_min_i32_conforms : ConformsTo Gen.gcn3.dispatch 0 6 32 Spec.s_min_i32 :=
  ⟨_, rfl, by conform Gen.gcn3.run_SMINI32 Spec.s_min_i32⟩

/-- GCN3 `s_min_u32` (format 0, opcode 7): the handler the opcode switch selects has, for every input, exactly the effect the ISA prescribes. -/
theorem gcn3_s_min_u32_conforms : ConformsTo Gen.gcn3.dispatch 0 7 32 Spec.s_min_u32 :=
  ⟨_, rfl, by conform Gen.gcn3.run_SMINU32 Spec.s_min_u32⟩

/-- GCN3 `s_max_i32` (format 0, opcode 8): the handler the opcode switch selects has, for every input, exactly the effect the ISA prescribes. -/
theorem gcn3_s_max_i32_conforms : ConformsTo Gen.gcn3.dispatch 0 8 32 Spec.s_max_i32 :=
  ⟨_, rfl, by conform Gen.gcn3.run_SMAXI32 Spec.s_max_i32⟩

/-- GCN3 `s_max_u32` (format 0, opcode 9): the handler the opcode switch selects has, for every input, exactly the effect the ISA prescribes. -/
theorem gcn3_s_max_u32_conforms : ConformsTo Gen.gcn3.dispatch 0 9 32 Spec.s_max_u32 :=
  ⟨_, rfl, by conform Gen.gcn3.run_SMAXU32 Spec.s_max_u32⟩

/-- GCN3 `s_cselect_b32` (format 0, opcode 10): the handler the opcode switch selects has, for every input, exactly the effect the ISA prescribes. -/
theorem gcn3_s_cselect_b32_conforms : ConformsScc Gen.gcn3.dispatch 0 10 32 Spec.s_cselect_b32 :=
  ⟨_, rfl, by conformS Gen.gcn3.run_SCSELECTB32 Spec.s_cselect_b32⟩

/-- GCN3 `s_and_b32` (format 0, opcode 12): the handler the opcode switch selects has, for every input, exactly the effect the ISA prescribes. -/
theorem gcn3_s_and_b32_conforms : ConformsTo Gen.gcn3.dispatch 0 12 32 Spec.s_and_b32 :=
  ⟨_, rfl, by conform Gen.gcn3.run_SANDB32 Spec.s_and_b32⟩

/-- GCN3 `s_and_b64` (format 0, opcode 13): the handler the opcode switch selects has, for every input, exactly the effect the ISA prescribes. -/
theorem gcn3_s_and_b64_conforms : ConformsTo Gen.gcn3.dispatch 0 13 64 Spec.s_and_b64 :=
  ⟨_, rfl, by conform Gen.gcn3.run_SANDB64 Spec.s_and_b64⟩

/-- GCN3 `s_or_b64` (format 0, opcode 15): the handler the opcode switch selects has, for every input, exactly the effect the ISA prescribes. -/
theorem gcn3_s_or_b64_conforms : ConformsTo Gen.gcn3.dispatch 0 15 64 Spec.s_or_b64 :=
  ⟨_, rfl, by conform Gen.gcn3.run_SORB64 Spec.s_or_b64⟩

/-- GCN3 `s_xor_b32` (format 0, opcode 16): the handler the opcode switch selects has, for every input, exactly the effect the ISA prescribes. -/
theorem gcn3_s_xor_b32_conforms : ConformsTo Gen.gcn3.dispatch 0 16 32 Spec.s_xor_b32 :=
  ⟨_, rfl, by conform Gen.gcn3.run_SXORB32 Spec.s_xor_b32⟩

/-- GCN3 `s_xor_b64` (format 0, opcode 17): the handler the opcode switch selects has, for every input, exactly the effect the ISA prescribes. -/
theorem gcn3_s_xor_b64_conforms : ConformsTo Gen.gcn3.dispatch 0 17 64 Spec.s_xor_b64 :=
  ⟨_, rfl, by conform Gen.gcn3.run_SXORB64 Spec.s_xor_b64⟩

/-- GCN3 `s_andn2_b64` (format 0, opcode 19): the handler the opcode switch selects has, for every input, exactly the effect the ISA prescribes. -/
theorem gcn3_s_andn2_b64_conforms : ConformsTo Gen.gcn3.dispatch 0 19 64 Spec.s_andn2_b64 :=
  ⟨_, rfl, by conform Gen.gcn3.run_SANDN2B64 Spec.s_andn2_b64⟩

/-- GCN3 `s_lshl_b32` (format 0, opcode 28): the handler the opcode switch selects has, for every input, exactly the effect the ISA prescribes. -/
theorem gcn3_s_lshl_b32_conforms : ConformsTo Gen.gcn3.dispatch 0 28 32 Spec.s_lshl_b32 :=
  ⟨_, rfl, by conform Gen.gcn3.run_SLSHLB32 Spec.s_lshl_b32⟩

/-- GCN3 `s_lshl_b64` (format 0, opcode 29): the handler the opcode switch selects has, for every input, exactly the effect the ISA prescribes. -/
theorem gcn3_s_lshl_b64_conforms : ConformsTo Gen.gcn3.dispatch 0 29 64 Spec.s_lshl_b64 :=
  ⟨_, rfl, by conform Gen.gcn3.run_SLSHLB64 Spec.s_lshl_b64⟩

/-- GCN3 `s_lshr_b64` (format 0, opcode 31): the handler the opcode switch selects has, for every input, exactly the effect the ISA prescribes. -/
theorem gcn3_s_lshr_b64_conforms : ConformsTo Gen.gcn3.dispatch 0 31 64 Spec.s_lshr_b64 :=
  ⟨_, rfl, by conform Gen.gcn3.run_SLSHRB64 Spec.s_lshr_b64⟩

/-- GCN3 `s_ashr_i32` (format 0, opcode 32): the handler the opcode switch selects has, for every input, exactly the effect the ISA prescribes. -/
theorem gcn3_s_ashr_i32_conforms : ConformsTo Gen.gcn3.dispatch 0 32 32 Spec.s_ashr_i32 :=
  ⟨_, rfl, by conform Gen.gcn3.run_SASHRI32 Spec.s_ashr_i32⟩

/-- GCN3 `s_mul_i32` (format 0, opcode 36): the handler the opcode switch selects has, for every input, exactly the effect the ISA prescribes. -/
theorem gcn3_s_mul_i32_conforms : ConformsTo Gen.gcn3.dispatch 0 36 32 Spec.s_mul_i32 :=
  ⟨_, rfl, by conform Gen.gcn3.run_SMULI32 Spec.s_mul_i32⟩

/-- GCN3 `s_cmpk_eq_i32` (format 1, opcode 2): the handler the opcode switch selects has, for every input, exactly the effect the ISA prescribes. -/
theorem gcn3_s_cmpk_eq_i32_conforms : ConformsTo Gen.gcn3.dispatch 1 2 32 Spec.s_cmpk_eq_i32 :=
  ⟨_, rfl, by conform Gen.gcn3.run_SCMPKEQI32 Spec.s_cmpk_eq_i32⟩

/-- GCN3 `s_cmpk_lg_i32` (format 1, opcode 3): the handler the opcode switch selects has, for every input, exactly the effect the ISA prescribes. -/
theorem gcn3_s_cmpk_lg_i32_conforms : ConformsTo Gen.gcn3.dispatch 1 3 32 Spec.s_cmpk_lg_i32 :=
  ⟨_, rfl, by conform Gen.gcn3.run_SCMPKLGI32 Spec.s_cmpk_lg_i32⟩

/-- GCN3 `s_mov_b32` (format 2, opcode 0): the handler the opcode switch selects has, for every input, exactly the effect the ISA prescribes. -/
theorem gcn3_s_mov_b32_conforms : ConformsTo Gen.gcn3.dispatch 2 0 32 Spec.s_mov_b32 :=
  ⟨_, rfl, by conform Gen.gcn3.run_SMOVB32 Spec.s_mov_b32⟩

/-- GCN3 `s_mov_b64` (format 2, opcode 1): the handler the opcode switch selects has, for every input, exactly the effect the ISA prescribes. -/
theorem gcn3_s_mov_b64_conforms : ConformsTo Gen.gcn3.dispatch 2 1 64 Spec.s_mov_b64 :=
  ⟨_, rfl, by conform Gen.gcn3.run_SMOVB64 Spec.s_mov_b64⟩

/-- GCN3 `s_not_b32` (format 2, opcode 4): the handler the opcode switch selects has, for every input, exactly the effect the ISA prescribes. -/
theorem gcn3_s_not_b32_conforms : ConformsTo Gen.gcn3.dispatch 2 4 32 Spec.s_not_b32 :=
  ⟨_, rfl, by conform Gen.gcn3.run_SNOTU32 Spec.s_not_b32⟩

/-- GCN3 `s_getpc_b64` (format 2, opcode 28): the handler the opcode switch selects has, for every input, exactly the effect the ISA prescribes. -/
theorem gcn3_s_getpc_b64_conforms : ConformsTo Gen.gcn3.dispatch 2 28 64 Spec.s_getpc_b64 :=
  ⟨_, rfl, by conform Gen.gcn3.run_SGETPCB64 Spec.s_getpc_b64⟩

/-- GCN3 `s_and_saveexec_b64` (format 2, opcode 32): the handler the opcode switch selects has, for every input, exactly the effect the ISA prescribes. -/
theorem gcn3_s_and_saveexec_b64_conforms : ConformsTo Gen.gcn3.dispatch 2 32 64 Spec.s_and_saveexec_b64 :=
  ⟨_, rfl, by conform Gen.gcn3.run_SANDSAVEEXECB64 Spec.s_and_saveexec_b64⟩

/-- GCN3 `s_or_saveexec_b64` (format 2, opcode 33): the handler the opcode switch selects has, for every input, exactly the effect the ISA prescribes. -/
theorem gcn3_s_or_saveexec_b64_conforms : ConformsTo Gen.gcn3.dispatch 2 33 64 Spec.s_or_saveexec_b64 :=
  ⟨_, rfl, by conform Gen.gcn3.run_SORSAVEEXECB64 Spec.s_or_saveexec_b64⟩

/-- GCN3 `s_xor_saveexec_b64` (format 2, opcode 34): the handler the opcode switch selects has, for every input, exactly the effect the ISA prescribes. -/
theorem gcn3_s_xor_saveexec_b64_conforms : ConformsTo Gen.gcn3.dispatch 2 34 64 Spec.s_xor_saveexec_b64 :=
  ⟨_, rfl, by conform Gen.gcn3.run_SXORSAVEEXECB64 Spec.s_xor_saveexec_b64⟩

/-- GCN3 `s_andn2_saveexec_b64` (format 2, opcode 35): the handler the opcode switch selects has, for every input, exactly the effect the ISA prescribes. -/
theorem gcn3_s_andn2_saveexec_b64_conforms : ConformsTo Gen.gcn3.dispatch 2 35 64 Spec.s_andn2_saveexec_b64 :=
  ⟨_, rfl, by conform Gen.gcn3.run_SANDN2SAVEEXECB64 Spec.s_andn2_saveexec_b64⟩

/-- GCN3 `s_orn2_saveexec_b64` (format 2, opcode 36): the handler the opcode switch selects has, for every input, exactly the effect the ISA prescribes. -/
theorem gcn3_s_orn2_saveexec_b64_conforms : ConformsTo Gen.gcn3.dispatch 2 36 64 Spec.s_orn2_saveexec_b64 :=
  ⟨_, rfl, by conform Gen.gcn3.run_SORN2SAVEEXECB64 Spec.s_orn2_saveexec_b64⟩

/-- GCN3 `s_nand_saveexec_b64` (format 2, opcode 37): the handler the opcode switch selects has, for every input, exactly the effect the ISA prescribes. -/
theorem gcn3_s_nand_saveexec_b64_conforms : ConformsTo Gen.gcn3.dispatch 2 37 64 Spec.s_nand_saveexec_b64 :=
  ⟨_, rfl, by conform Gen.gcn3.run_SNANDSAVEEXECB64 Spec.s_nand_saveexec_b64⟩

/-- GCN3 `s_nor_saveexec_b64` (format 2, opcode 38): the handler the opcode switch selects has, for every input, exactly the effect the ISA prescribes. -/
theorem gcn3_s_nor_saveexec_b64_conforms : ConformsTo Gen.gcn3.dispatch 2 38 64 Spec.s_nor_saveexec_b64 :=
  ⟨_, rfl, by conform Gen.gcn3.run_SNORSAVEEXECB64 Spec.s_nor_saveexec_b64⟩

/-- GCN3 `s_xnor_saveexec_b64` (format 2, opcode 39): the handler the opcode switch selects has, for every input, exactly the effect the ISA prescribes. -/
theorem gcn3_s_xnor_saveexec_b64_conforms : ConformsTo Gen.gcn3.dispatch 2 39 64 Spec.s_xnor_saveexec_b64 :=
  ⟨_, rfl, by conform Gen.gcn3.run_SNXORSAVEEXECB64 Spec.s_xnor_saveexec_b64⟩

/-- GCN3 `s_cmp_eq_i32` (format 3, opcode 0): the handler the opcode switch selects has, for every input, exactly the effect the ISA prescribes. -/
theorem gcn3_s_cmp_eq_i32_conforms : ConformsTo Gen.gcn3.dispatch 3 0 0 Spec.s_cmp_eq_i32 :=
  ⟨_, rfl, by conform Gen.gcn3.run_SCMPEQU32 Spec.s_cmp_eq_i32⟩

/-- GCN3 `s_cmp_lg_i32` (format 3, opcode 1): the handler the opcode switch selects has, for every input, exactly the effect the ISA prescribes. -/
theorem gcn3_s_cmp_lg_i32_conforms : ConformsTo Gen.gcn3.dispatch 3 1 0 Spec.s_cmp_lg_i32 :=
  ⟨_, rfl, by conform Gen.gcn3.run_SCMPLGU32 Spec.s_cmp_lg_i32⟩

/-- GCN3 `s_cmp_gt_i32` (format 3, opcode 2): the handler the opcode switch selects has, for every input, exactly the effect the ISA prescribes. -/
theorem gcn3_s_cmp_gt_i32_conforms : ConformsTo Gen.gcn3.dispatch 3 2 0 Spec.s_cmp_gt_i32 :=
  ⟨_, rfl, by conform Gen.gcn3.run_SCMPGTI32 Spec.s_cmp_gt_i32⟩

/-- GCN3 `s_cmp_ge_i32` (format 3, opcode 3): the handler the opcode switch selects has, for every input, exactly the effect the ISA prescribes. -/
theorem gcn3_s_cmp_ge_i32_conforms : ConformsTo Gen.gcn3.dispatch 3 3 0 Spec.s_cmp_ge_i32 :=
  ⟨_, rfl, by conform Gen.gcn3.run_SCMPGEI32 Spec.s_cmp_ge_i32⟩

/-- GCN3 `s_cmp_lt_i32` (format 3, opcode 4): the handler the opcode switch selects has, for every input, exactly the effect the ISA prescribes. -/
theorem gcn3_s_cmp_lt_i32_conforms : ConformsTo Gen.gcn3.dispatch 3 4 0 Spec.s_cmp_lt_i32 :=
  ⟨_, rfl, by conform Gen.gcn3.run_SCMPLTI32 Spec.s_cmp_lt_i32⟩

/-- GCN3 `s_cmp_le_i32` (format 3, opcode 5): the handler the opcode switch selects has, for every input, exactly the effect the ISA prescribes. -/
theorem gcn3_s_cmp_le_i32_conforms : ConformsTo Gen.gcn3.dispatch 3 5 0 Spec.s_cmp_le_i32 :=
  ⟨_, rfl, by conform Gen.gcn3.run_SCMPLEI32 Spec.s_cmp_le_i32⟩

/-- GCN3 `s_cmp_eq_u32` (format 3, opcode 6): the handler the opcode switch selects has, for every input, exactly the effect the ISA prescribes. -/
theorem gcn3_s_cmp_eq_u32_conforms : ConformsTo Gen.gcn3.dispatch 3 6 0 Spec.s_cmp_eq_u32 :=
  ⟨_, rfl, by conform Gen.gcn3.run_SCMPEQU32 Spec.s_cmp_eq_u32⟩

/-- GCN3 `s_cmp_lg_u32` (format 3, opcode 7): the handler the opcode switch selects has, for every input, exactly the effect the ISA prescribes. -/
theorem gcn3_s_cmp_lg_u32_conforms : ConformsTo Gen.gcn3.dispatch 3 7 0 Spec.s_cmp_lg_u32 :=
  ⟨_, rfl, by conform Gen.gcn3.run_SCMPLGU32 Spec.s_cmp_lg_u32⟩

/-- GCN3 `s_cmp_gt_u32` (format 3, opcode 8): the handler the opcode switch selects has, for every input, exactly the effect the ISA prescribes. -/
theorem gcn3_s_cmp_gt_u32_conforms : ConformsTo Gen.gcn3.dispatch 3 8 0 Spec.s_cmp_gt_u32 :=
  ⟨_, rfl, by conform Gen.gcn3.run_SCMPGTU32 Spec.s_cmp_gt_u32⟩

/-- GCN3 `s_cmp_lt_u32` (format 3, opcode 10): the handler the opcode switch selects has, for every input, exactly the effect the ISA prescribes. -/
theorem gcn3_s_cmp_lt_u32_conforms : ConformsTo Gen.gcn3.dispatch 3 10 0 Spec.s_cmp_lt_u32 :=
  ⟨_, rfl, by conform Gen.gcn3.run_SCMPLTU32 Spec.s_cmp_lt_u32⟩

/-- GCN3 `s_nop` (format 4, opcode 0): the handler the opcode switch selects has, for every input, exactly the effect the ISA prescribes. -/
theorem gcn3_s_nop_conforms : ConformsTo Gen.gcn3.dispatch 4 0 0 Spec.s_nop :=
  ⟨_, rfl, by intro i; first | rfl | (intro _; rfl)⟩

/-- GCN3 `s_branch` (format 4, opcode 2): the handler the opcode switch selects has, for every input, exactly the effect the ISA prescribes. -/
theorem gcn3_s_branch_conforms : ConformsTo Gen.gcn3.dispatch 4 2 0 Spec.s_branch :=
  ⟨_, rfl, by conform Gen.gcn3.run_SCBRANCH Spec.s_branch⟩

/-- GCN3 `s_cbranch_scc0` (format 4, opcode 4): the handler the opcode switch selects has, for every input, exactly the effect the ISA prescribes. -/
theorem gcn3_s_cbranch_scc0_conforms : ConformsScc Gen.gcn3.dispatch 4 4 0 Spec.s_cbranch_scc0 :=
  ⟨_, rfl, by conformS Gen.gcn3.run_SCBRANCHSCC0 Spec.s_cbranch_scc0⟩

/-- GCN3 `s_cbranch_scc1` (format 4, opcode 5): the handler the opcode switch selects has, for every input, exactly the effect the ISA prescribes. -/
theorem gcn3_s_cbranch_scc1_conforms : ConformsScc Gen.gcn3.dispatch 4 5 0 Spec.s_cbranch_scc1 :=
  ⟨_, rfl, by conformS Gen.gcn3.run_SCBRANCHSCC1 Spec.s_cbranch_scc1⟩

/-- GCN3 `s_cbranch_vccz` (format 4, opcode 6): the handler the opcode switch selects has, for every input, exactly the effect the ISA prescribes. -/
theorem gcn3_s_cbranch_vccz_conforms : ConformsTo Gen.gcn3.dispatch 4 6 0 Spec.s_cbranch_vccz :=
  ⟨_, rfl, by conform Gen.gcn3.run_SCBRANCHVCCZ Spec.s_cbranch_vccz⟩

/-- GCN3 `s_cbranch_vccnz` (format 4, opcode 7): the handler the opcode switch selects has, for every input, exactly the effect the ISA prescribes. -/
theorem gcn3_s_cbranch_vccnz_conforms : ConformsTo Gen.gcn3.dispatch 4 7 0 Spec.s_cbranch_vccnz :=
  ⟨_, rfl, by conform Gen.gcn3.run_SCBRANCHVCCNZ Spec.s_cbranch_vccnz⟩

/-- GCN3 `s_cbranch_execz` (format 4, opcode 8): the handler the opcode switch selects has, for every input, exactly the effect the ISA prescribes. -/
theorem gcn3_s_cbranch_execz_conforms : ConformsTo Gen.gcn3.dispatch 4 8 0 Spec.s_cbranch_execz :=
  ⟨_, rfl, by conform Gen.gcn3.run_SCBRANCHEXECZ Spec.s_cbranch_execz⟩

/-- GCN3 `s_cbranch_execnz` (format 4, opcode 9): the handler the opcode switch selects has, for every input, exactly the effect the ISA prescribes. -/
theorem gcn3_s_cbranch_execnz_conforms : ConformsTo Gen.gcn3.dispatch 4 9 0 Spec.s_cbranch_execnz :=
  ⟨_, rfl, by conform Gen.gcn3.run_SCBRANCHEXECNZ Spec.s_cbranch_execnz⟩

/-- GCN3 `s_waitcnt` (format 4, opcode 12): the handler the opcode switch selects has, for every input, exactly the effect the ISA prescribes. -/
theorem gcn3_s_waitcnt_conforms : ConformsTo Gen.gcn3.dispatch 4 12 0 Spec.s_waitcnt :=
  ⟨_, rfl, by intro i; first | rfl | (intro _; rfl)⟩

/-- CDNA3 `s_add_u32` (format 0, opcode 0): the handler the opcode switch selects has, for every input, exactly the effect the ISA prescribes. -/
theorem cdna3_s_add_u32_conforms : ConformsTo Gen.cdna3.dispatch 0 0 32 Spec.s_add_u32 :=
  ⟨_, rfl, by conform Gen.cdna3.run_SADDU32 Spec.s_add_u32⟩

/-- CDNA3 `s_sub_u32` (format 0, opcode 1): the handler the opcode switch selects has, for every input, exactly the effect the ISA prescribes. -/
theorem cdna3_s_sub_u32_conforms : ConformsTo Gen.cdna3.dispatch 0 1 32 Spec.s_sub_u32 :=
  ⟨_, rfl, by conform Gen.cdna3.run_SSUBU32 Spec.s_sub_u32⟩

/-- CDNA3 `s_addc_u32` (format 0, opcode 4): the handler the opcode switch selects has, for every input, exactly the effect the ISA prescribes. -/
theorem cdna3_s_addc_u32_conforms : ConformsScc Gen.cdna3.dispatch 0 4 32 Spec.s_addc_u32 :=
  ⟨_, rfl, by conformS Gen.cdna3.run_SADDCU32 Spec.s_addc_u32⟩

/-- CDNA3 `s_subb_u32` (format 0, opcode 5): the handler the opcode switch selects has, for every input, exactly the effect the ISA prescribes. -/
theorem cdna3_s_subb_u32_conforms : ConformsScc Gen.cdna3.dispatch 0 5 32 Spec.s_subb_u32 :=
  ⟨_, rfl, by conformS Gen.cdna3.run_SSUBBU32 Spec.s_subb_u32⟩

/-- CDNA3 `s_min_i32` (format 0, opcode 6): the handler the opcode switch selects has, for every input, exactly the effect the ISA prescribes. -/
theorem cdna3_s_min_i32_conforms : ConformsTo Gen.cdna3.dispatch 0 6 32 Spec.s_min_i32 :=
  ⟨_, rfl, by conform Gen.cdna3.run_SMINI32 Spec.s_min_i32⟩

/-- CDNA3 `s_min_u32` (format 0, opcode 7): the handler the opcode switch selects has, for every input, exactly the effect the ISA prescribes. -/
theorem cdna3_s_min_u32_conforms : ConformsTo Gen.cdna3.dispatch 0 7 32 Spec.s_min_u32 :=
  ⟨_, rfl, by conform Gen.cdna3.run_SMINU32 Spec.s_min_u32⟩

/-- CDNA3 `s_max_i32` (format 0, opcode 8): the handler the opcode switch selects has, for every input, exactly the effect the ISA prescribes. -/
theorem cdna3_s_max_i32_conforms : ConformsTo Gen.cdna3.dispatch 0 8 32 Spec.s_max_i32 :=
  ⟨_, rfl, by conform Gen.cdna3.run_SMAXI32 Spec.s_max_i32⟩

/-- CDNA3 `s_max_u32` (format 0, opcode 9): the handler the opcode switch selects has, for every input, exactly the effect the ISA prescribes. -/
theorem cdna3_s_max_u32_conforms : ConformsTo Gen.cdna3.dispatch 0 9 32 Spec.s_max_u32 :=
  ⟨_, rfl, by conform Gen.cdna3.run_SMAXU32 Spec.s_max_u32⟩

/-- CDNA3 `s_cselect_b32` (format 0, opcode 10): the handler the opcode switch selects has, for every input, exactly the effect the ISA prescribes. -/
theorem cdna3_s_cselect_b32_conforms : ConformsScc Gen.cdna3.dispatch 0 10 32 Spec.s_cselect_b32 :=
  ⟨_, rfl, by conformS Gen.cdna3.run_SCSELECTB32 Spec.s_cselect_b32⟩

/-- CDNA3 `s_cselect_b64` (format 0, opcode 11): the handler the opcode switch selects has, for every input, exactly the effect the ISA prescribes. -/
theorem cdna3_s_cselect_b64_conforms : ConformsScc Gen.cdna3.dispatch 0 11 64 Spec.s_cselect_b64 :=
  ⟨_, rfl, by conformS Gen.cdna3.run_SCSELECTB64 Spec.s_cselect_b64⟩

/-- CDNA3 `s_and_b32` (format 0, opcode 12): the handler the opcode switch selects has, for every input, exactly the effect the ISA prescribes. -/
theorem cdna3_s_and_b32_conforms : ConformsTo Gen.cdna3.dispatch 0 12 32 Spec.s_and_b32 :=
  ⟨_, rfl, by conform Gen.cdna3.run_SANDB32 Spec.s_and_b32⟩

/-- CDNA3 `s_and_b64` (format 0, opcode 13): the handler the opcode switch selects has, for every input, exactly the effect the ISA prescribes. -/
theorem cdna3_s_and_b64_conforms : ConformsTo Gen.cdna3.dispatch 0 13 64 Spec.s_and_b64 :=
  ⟨_, rfl, by conform Gen.cdna3.run_SANDB64 Spec.s_and_b64⟩

/-- CDNA3 `s_or_b32` (format 0, opcode 14): the handler the opcode switch selects has, for every input, exactly the effect the ISA prescribes. -/
theorem cdna3_s_or_b32_conforms : ConformsTo Gen.cdna3.dispatch 0 14 32 Spec.s_or_b32 :=
  ⟨_, rfl, by conform Gen.cdna3.run_SORB32 Spec.s_or_b32⟩

/-- CDNA3 `s_or_b64` (format 0, opcode 15): the handler the opcode switch selects has, for every input, exactly the effect the ISA prescribes. -/
theorem cdna3_s_or_b64_conforms : ConformsTo Gen.cdna3.dispatch 0 15 64 Spec.s_or_b64 :=
  ⟨_, rfl, by conform Gen.cdna3.run_SORB64 Spec.s_or_b64⟩

/-- CDNA3 `s_xor_b32` (format 0, opcode 16): the handler the opcode switch selects has, for every input, exactly the effect the ISA prescribes. -/
theorem cdna3_s_xor_b32_conforms : ConformsTo Gen.cdna3.dispatch 0 16 32 Spec.s_xor_b32 :=
  ⟨_, rfl, by conform Gen.cdna3.run_SXORB32 Spec.s_xor_b32⟩

/-- CDNA3 `s_xor_b64` (format 0, opcode 17): the handler the opcode switch selects has, for every input, exactly the effect the ISA prescribes. -/
theorem cdna3_s_xor_b64_conforms : ConformsTo Gen.cdna3.dispatch 0 17 64 Spec.s_xor_b64 :=
  ⟨_, rfl, by conform Gen.cdna3.run_SXORB64 Spec.s_xor_b64⟩

/-- CDNA3 `s_andn2_b32` (format 0, opcode 18): the handler the opcode switch selects has, for every input, exactly the effect the ISA prescribes. -/
theorem cdna3_s_andn2_b32_conforms : ConformsTo Gen.cdna3.dispatch 0 18 32 Spec.s_andn2_b32 :=
  ⟨_, rfl, by conform Gen.cdna3.run_SANDN2B32 Spec.s_andn2_b32⟩

/-- CDNA3 `s_andn2_b64` (format 0, opcode 19): the handler the opcode switch selects has, for every input, exactly the effect the ISA prescribes. -/
theorem cdna3_s_andn2_b64_conforms : ConformsTo Gen.cdna3.dispatch 0 19 64 Spec.s_andn2_b64 :=
  ⟨_, rfl, by conform Gen.cdna3.run_SANDN2B64 Spec.s_andn2_b64⟩

/-- CDNA3 `s_orn2_b32` (format 0, opcode 20): the handler the opcode switch selects has, for every input, exactly the effect the ISA prescribes. -/
theorem cdna3_s_orn2_b32_conforms : ConformsTo Gen.cdna3.dispatch 0 20 32 Spec.s_orn2_b32 :=
  ⟨_, rfl, by conform Gen.cdna3.run_SORN2B32 Spec.s_orn2_b32⟩

/-- CDNA3 `s_orn2_b64` (format 0, opcode 21): the handler the opcode switch selects has, for every input, exactly the effect the ISA prescribes. -/
theorem cdna3_s_orn2_b64_conforms : ConformsTo Gen.cdna3.dispatch 0 21 64 Spec.s_orn2_b64 :=
  ⟨_, rfl, by conform Gen.cdna3.run_SORN2B64 Spec.s_orn2_b64⟩

/-- CDNA3 `s_lshl_b32` (format 0, opcode 28): the handler the opcode switch selects has, for every input, exactly the effect the ISA prescribes. -/
theorem cdna3_s_lshl_b32_conforms : ConformsTo Gen.cdna3.dispatch 0 28 32 Spec.s_lshl_b32 :=
  ⟨_, rfl, by conform Gen.cdna3.run_SLSHLB32 Spec.s_lshl_b32⟩

/-- CDNA3 `s_lshl_b64` (format 0, opcode 29): the handler the opcode switch selects has, for every input, exactly the effect the ISA prescribes. -/
theorem cdna3_s_lshl_b64_conforms : ConformsTo Gen.cdna3.dispatch 0 29 64 Spec.s_lshl_b64 :=
  ⟨_, rfl, by conform Gen.cdna3.run_SLSHLB64 Spec.s_lshl_b64⟩

/-- CDNA3 `s_lshr_b64` (format 0, opcode 31): the handler the opcode switch selects has, for every input, exactly the effect the ISA prescribes. -/
theorem cdna3_s_lshr_b64_conforms : ConformsTo Gen.cdna3.dispatch 0 31 64 Spec.s_lshr_b64 :=
  ⟨_, rfl, by conform Gen.cdna3.run_SLSHRB64 Spec.s_lshr_b64⟩

/-- CDNA3 `s_ashr_i32` (format 0, opcode 32): the handler the opcode switch selects has, for every input, exactly the effect the ISA prescribes. -/
theorem cdna3_s_ashr_i32_conforms : ConformsTo Gen.cdna3.dispatch 0 32 32 Spec.s_ashr_i32 :=
  ⟨_, rfl, by conform Gen.cdna3.run_SASHRI32 Spec.s_ashr_i32⟩

/-- CDNA3 `s_ashr_i64` (format 0, opcode 33): the handler the opcode switch selects has, for every input, exactly the effect the ISA prescribes. -/
theorem cdna3_s_ashr_i64_conforms : ConformsTo Gen.cdna3.dispatch 0 33 64 Spec.s_ashr_i64 :=
  ⟨_, rfl, by conform Gen.cdna3.run_SASHRI64 Spec.s_ashr_i64⟩

/-- CDNA3 `s_mul_i32` (format 0, opcode 36): the handler the opcode switch selects has, for every input, exactly the effect the ISA prescribes. -/
theorem cdna3_s_mul_i32_conforms : ConformsTo Gen.cdna3.dispatch 0 36 32 Spec.s_mul_i32 :=
  ⟨_, rfl, by conform Gen.cdna3.run_SMULI32 Spec.s_mul_i32⟩

/-- CDNA3 `s_movk_i32` (format 1, opcode 0): the handler the opcode switch selects has, for every input, exactly the effect the ISA prescribes. -/
theorem cdna3_s_movk_i32_conforms : ConformsTo Gen.cdna3.dispatch 1 0 32 Spec.s_movk_i32 :=
  ⟨_, rfl, by conform Gen.cdna3.run_SMOVKI32 Spec.s_movk_i32⟩

/-- CDNA3 `s_cmovk_i32` (format 1, opcode 1): the handler the opcode switch selects has, for every input, exactly the effect the ISA prescribes. -/
theorem cdna3_s_cmovk_i32_conforms : ConformsScc Gen.cdna3.dispatch 1 1 32 Spec.s_cmovk_i32 :=
  ⟨_, rfl, by conformS Gen.cdna3.run_SCMOVKI32 Spec.s_cmovk_i32⟩

/-- CDNA3 `s_cmpk_eq_i32` (format 1, opcode 2): the handler the opcode switch selects has, for every input, exactly the effect the ISA prescribes. -/
theorem cdna3_s_cmpk_eq_i32_conforms : ConformsTo Gen.cdna3.dispatch 1 2 32 Spec.s_cmpk_eq_i32 :=
  ⟨_, rfl, by conform Gen.cdna3.run_SCMPKEQI32 Spec.s_cmpk_eq_i32⟩

/-- CDNA3 `s_cmpk_lg_i32` (format 1, opcode 3): the handler the opcode switch selects has, for every input, exactly the effect the ISA prescribes. -/
theorem cdna3_s_cmpk_lg_i32_conforms : ConformsTo Gen.cdna3.dispatch 1 3 32 Spec.s_cmpk_lg_i32 :=
  ⟨_, rfl, by conform Gen.cdna3.run_SCMPKLGI32 Spec.s_cmpk_lg_i32⟩

/-- CDNA3 `s_mulk_i32` (format 1, opcode 15): the handler the opcode switch selects has, for every input, exactly the effect the ISA prescribes. -/
theorem cdna3_s_mulk_i32_conforms : ConformsTo Gen.cdna3.dispatch 1 15 32 Spec.s_mulk_i32 :=
  ⟨_, rfl, by conform Gen.cdna3.run_SMULKI32 Spec.s_mulk_i32⟩

/-- CDNA3 `s_mov_b32` (format 2, opcode 0): the handler the opcode switch selects has, for every input, exactly the effect the ISA prescribes. -/
theorem cdna3_s_mov_b32_conforms : ConformsTo Gen.cdna3.dispatch 2 0 32 Spec.s_mov_b32 :=
  ⟨_, rfl, by conform Gen.cdna3.run_SMOVB32 Spec.s_mov_b32⟩

/-- CDNA3 `s_mov_b64` (format 2, opcode 1): the handler the opcode switch selects has, for every input, exactly the effect the ISA prescribes. -/
theorem cdna3_s_mov_b64_conforms : ConformsTo Gen.cdna3.dispatch 2 1 64 Spec.s_mov_b64 :=
  ⟨_, rfl, by conform Gen.cdna3.run_SMOVB64 Spec.s_mov_b64⟩

/-- CDNA3 `s_not_b32` (format 2, opcode 4): the handler the opcode switch selects has, for every input, exactly the effect the ISA prescribes. -/
theorem cdna3_s_not_b32_conforms : ConformsTo Gen.cdna3.dispatch 2 4 32 Spec.s_not_b32 :=
  ⟨_, rfl, by conform Gen.cdna3.run_SNOTU32 Spec.s_not_b32⟩

/-- CDNA3 `s_getpc_b64` (format 2, opcode 28): the handler the opcode switch selects has, for every input, exactly the effect the ISA prescribes. -/
theorem cdna3_s_getpc_b64_conforms : ConformsTo Gen.cdna3.dispatch 2 28 64 Spec.s_getpc_b64 :=
  ⟨_, rfl, by conform Gen.cdna3.run_SGETPCB64 Spec.s_getpc_b64⟩

/-- CDNA3 `s_and_saveexec_b64` (format 2, opcode 32): the handler the opcode switch selects has, for every input, exactly the effect the ISA prescribes. -/
theorem cdna3_s_and_saveexec_b64_conforms : ConformsTo Gen.cdna3.dispatch 2 32 64 Spec.s_and_saveexec_b64 :=
  ⟨_, rfl, by conform Gen.cdna3.run_SANDSAVEEXECB64 Spec.s_and_saveexec_b64⟩

/-- CDNA3 `s_or_saveexec_b64` (format 2, opcode 33): the handler the opcode switch selects has, for every input, exactly the effect the ISA prescribes. -/
theorem cdna3_s_or_saveexec_b64_conforms : ConformsTo Gen.cdna3.dispatch 2 33 64 Spec.s_or_saveexec_b64 :=
  ⟨_, rfl, by conform Gen.cdna3.run_SORSAVEEXECB64 Spec.s_or_saveexec_b64⟩

/-- CDNA3 `s_xor_saveexec_b64` (format 2, opcode 34): the handler the opcode switch selects has, for every input, exactly the effect the ISA prescribes. -/
theorem cdna3_s_xor_saveexec_b64_conforms : ConformsTo Gen.cdna3.dispatch 2 34 64 Spec.s_xor_saveexec_b64 :=
  ⟨_, rfl, by conform Gen.cdna3.run_SXORSAVEEXECB64 Spec.s_xor_saveexec_b64⟩

/-- CDNA3 `s_andn2_saveexec_b64` (format 2, opcode 35): the handler the opcode switch selects has, for every input, exactly the effect the ISA prescribes. -/
theorem cdna3_s_andn2_saveexec_b64_conforms : ConformsTo Gen.cdna3.dispatch 2 35 64 Spec.s_andn2_saveexec_b64 :=
  ⟨_, rfl, by conform Gen.cdna3.run_SANDN2SAVEEXECB64 Spec.s_andn2_saveexec_b64⟩

/-- CDNA3 `s_orn2_saveexec_b64` (format 2, opcode 36): the handler the opcode switch selects has, for every input, exactly the effect the ISA prescribes. -/
theorem cdna3_s_orn2_saveexec_b64_conforms : ConformsTo Gen.cdna3.dispatch 2 36 64 Spec.s_orn2_saveexec_b64 :=
  ⟨_, rfl, by conform Gen.cdna3.run_SORN2SAVEEXECB64 Spec.s_orn2_saveexec_b64⟩

/-- CDNA3 `s_nand_saveexec_b64` (format 2, opcode 37): the handler the opcode switch selects has, for every input, exactly the effect the ISA prescribes. -/
theorem cdna3_s_nand_saveexec_b64_conforms : ConformsTo Gen.cdna3.dispatch 2 37 64 Spec.s_nand_saveexec_b64 :=
  ⟨_, rfl, by conform Gen.cdna3.run_SNANDSAVEEXECB64 Spec.s_nand_saveexec_b64⟩

/-- CDNA3 `s_nor_saveexec_b64` (format 2, opcode 38): the handler the opcode switch selects has, for every input, exactly the effect the ISA prescribes. -/
theorem cdna3_s_nor_saveexec_b64_conforms : ConformsTo Gen.cdna3.dispatch 2 38 64 Spec.s_nor_saveexec_b64 :=
  ⟨_, rfl, by conform Gen.cdna3.run_SNORSAVEEXECB64 Spec.s_nor_saveexec_b64⟩

/-- CDNA3 `s_xnor_saveexec_b64` (format 2, opcode 39): the handler the opcode switch selects has, for every input, exactly the effect the ISA prescribes. -/
theorem cdna3_s_xnor_saveexec_b64_conforms : ConformsTo Gen.cdna3.dispatch 2 39 64 Spec.s_xnor_saveexec_b64 :=
  ⟨_, rfl, by conform Gen.cdna3.run_SNXORSAVEEXECB64 Spec.s_xnor_saveexec_b64⟩

/-- CDNA3 `s_cmp_eq_i32` (format 3, opcode 0): the handler the opcode switch selects has, for every input, exactly the effect the ISA prescribes. -/
theorem cdna3_s_cmp_eq_i32_conforms : ConformsTo Gen.cdna3.dispatch 3 0 0 Spec.s_cmp_eq_i32 :=
  ⟨_, rfl, by conform Gen.cdna3.run_SCMPEQI32 Spec.s_cmp_eq_i32⟩

/-- CDNA3 `s_cmp_lg_i32` (format 3, opcode 1): the handler the opcode switch selects has, for every input, exactly the effect the ISA prescribes. -/
theorem cdna3_s_cmp_lg_i32_conforms : ConformsTo Gen.cdna3.dispatch 3 1 0 Spec.s_cmp_lg_i32 :=
  ⟨_, rfl, by conform Gen.cdna3.run_SCMPLGI32 Spec.s_cmp_lg_i32⟩

/-- CDNA3 `s_cmp_gt_i32` (format 3, opcode 2): the handler the opcode switch selects has, for every input, exactly the effect the ISA prescribes. -/
theorem cdna3_s_cmp_gt_i32_conforms : ConformsTo Gen.cdna3.dispatch 3 2 0 Spec.s_cmp_gt_i32 :=
  ⟨_, rfl, by conform Gen.cdna3.run_SCMPGTI32 Spec.s_cmp_gt_i32⟩

/-- CDNA3 `s_cmp_ge_i32` (format 3, opcode 3): the handler the opcode switch selects has, for every input, exactly the effect the ISA prescribes. -/
theorem cdna3_s_cmp_ge_i32_conforms : ConformsTo Gen.cdna3.dispatch 3 3 0 Spec.s_cmp_ge_i32 :=
  ⟨_, rfl, by conform Gen.cdna3.run_SCMPGEI32 Spec.s_cmp_ge_i32⟩

/-- CDNA3 `s_cmp_lt_i32` (format 3, opcode 4): the handler the opcode switch selects has, for every input, exactly the effect the ISA prescribes. -/
theorem cdna3_s_cmp_lt_i32_conforms : ConformsTo Gen.cdna3.dispatch 3 4 0 Spec.s_cmp_lt_i32 :=
  ⟨_, rfl, by conform Gen.cdna3.run_SCMPLTI32 Spec.s_cmp_lt_i32⟩

/-- CDNA3 `s_cmp_le_i32` (format 3, opcode 5): the handler the opcode switch selects has, for every input, exactly the effect the ISA prescribes. -/
theorem cdna3_s_cmp_le_i32_conforms : ConformsTo Gen.cdna3.dispatch 3 5 0 Spec.s_cmp_le_i32 :=
  ⟨_, rfl, by conform Gen.cdna3.run_SCMPLEI32 Spec.s_cmp_le_i32⟩

/-- CDNA3 `s_cmp_eq_u32` (format 3, opcode 6): the handler the opcode switch selects has, for every input, exactly the effect the ISA prescribes. -/
theorem cdna3_s_cmp_eq_u32_conforms : ConformsTo Gen.cdna3.dispatch 3 6 0 Spec.s_cmp_eq_u32 :=
  ⟨_, rfl, by conform Gen.cdna3.run_SCMPEQU32 Spec.s_cmp_eq_u32⟩

/-- CDNA3 `s_cmp_lg_u32` (format 3, opcode 7): the handler the opcode switch selects has, for every input, exactly the effect the ISA prescribes. -/
theorem cdna3_s_cmp_lg_u32_conforms : ConformsTo Gen.cdna3.dispatch 3 7 0 Spec.s_cmp_lg_u32 :=
  ⟨_, rfl, by conform Gen.cdna3.run_SCMPLGU32 Spec.s_cmp_lg_u32⟩

/-- CDNA3 `s_cmp_gt_u32` (format 3, opcode 8): the handler the opcode switch selects has, for every input, exactly the effect the ISA prescribes. -/
theorem cdna3_s_cmp_gt_u32_conforms : ConformsTo Gen.cdna3.dispatch 3 8 0 Spec.s_cmp_gt_u32 :=
  ⟨_, rfl, by conform Gen.cdna3.run_SCMPGTU32 Spec.s_cmp_gt_u32⟩

/-- CDNA3 `s_cmp_ge_u32` (format 3, opcode 9): the handler the opcode switch selects has, for every input, exactly the effect the ISA prescribes. -/
theorem cdna3_s_cmp_ge_u32_conforms : ConformsTo Gen.cdna3.dispatch 3 9 0 Spec.s_cmp_ge_u32 :=
  ⟨_, rfl, by conform Gen.cdna3.run_SCMPGEU32 Spec.s_cmp_ge_u32⟩

/-- CDNA3 `s_cmp_lt_u32` (format 3, opcode 10): the handler the opcode switch selects has, for every input, exactly the effect the ISA prescribes. -/
theorem cdna3_s_cmp_lt_u32_conforms : ConformsTo Gen.cdna3.dispatch 3 10 0 Spec.s_cmp_lt_u32 :=
  ⟨_, rfl, by conform Gen.cdna3.run_SCMPLTU32 Spec.s_cmp_lt_u32⟩

/-- CDNA3 `s_cmp_le_u32` (format 3, opcode 11): the handler the opcode switch selects has, for every input, exactly the effect the ISA prescribes. -/
theorem cdna3_s_cmp_le_u32_conforms : ConformsTo Gen.cdna3.dispatch 3 11 0 Spec.s_cmp_le_u32 :=
  ⟨_, rfl, by conform Gen.cdna3.run_SCMPLEU32 Spec.s_cmp_le_u32⟩

/-- CDNA3 `s_nop` (format 4, opcode 0): the handler the opcode switch selects has, for every input, exactly the effect the ISA prescribes. -/
theorem cdna3_s_nop_conforms : ConformsTo Gen.cdna3.dispatch 4 0 0 Spec.s_nop :=
  ⟨_, rfl, by intro i; first | rfl | (intro _; rfl)⟩

/-- CDNA3 `s_branch` (format 4, opcode 2): the handler the opcode switch selects has, for every input, exactly the effect the ISA prescribes. -/
theorem cdna3_s_branch_conforms : ConformsTo Gen.cdna3.dispatch 4 2 0 Spec.s_branch :=
  ⟨_, rfl, by conform Gen.cdna3.run_SCBRANCH Spec.s_branch⟩

/-- CDNA3 `s_cbranch_scc0` (format 4, opcode 4): the handler the opcode switch selects has, for every input, exactly the effect the ISA prescribes. -/
theorem cdna3_s_cbranch_scc0_conforms : ConformsScc Gen.cdna3.dispatch 4 4 0 Spec.s_cbranch_scc0 :=
  ⟨_, rfl, by conformS Gen.cdna3.run_SCBRANCHSCC0 Spec.s_cbranch_scc0⟩

/-- CDNA3 `s_cbranch_scc1` (format 4, opcode 5): the handler the opcode switch selects has, for every input, exactly the effect the ISA prescribes. -/
theorem cdna3_s_cbranch_scc1_conforms : ConformsScc Gen.cdna3.dispatch 4 5 0 Spec.s_cbranch_scc1 :=
  ⟨_, rfl, by conformS Gen.cdna3.run_SCBRANCHSCC1 Spec.s_cbranch_scc1⟩

/-- CDNA3 `s_cbranch_vccz` (format 4, opcode 6): the handler the opcode switch selects has, for every input, exactly the effect the ISA prescribes. -/
theorem cdna3_s_cbranch_vccz_conforms : ConformsTo Gen.cdna3.dispatch 4 6 0 Spec.s_cbranch_vccz :=
  ⟨_, rfl, by conform Gen.cdna3.run_SCBRANCHVCCZ Spec.s_cbranch_vccz⟩

/-- CDNA3 `s_cbranch_vccnz` (format 4, opcode 7): the handler the opcode switch selects has, for every input, exactly the effect the ISA prescribes. -/
theorem cdna3_s_cbranch_vccnz_conforms : ConformsTo Gen.cdna3.dispatch 4 7 0 Spec.s_cbranch_vccnz :=
  ⟨_, rfl, by conform Gen.cdna3.run_SCBRANCHVCCNZ Spec.s_cbranch_vccnz⟩

/-- CDNA3 `s_cbranch_execz` (format 4, opcode 8): the handler the opcode switch selects has, for every input, exactly the effect the ISA prescribes. -/
theorem cdna3_s_cbranch_execz_conforms : ConformsTo Gen.cdna3.dispatch 4 8 0 Spec.s_cbranch_execz :=
  ⟨_, rfl, by conform Gen.cdna3.run_SCBRANCHEXECZ Spec.s_cbranch_execz⟩

/-- CDNA3 `s_cbranch_execnz` (format 4, opcode 9): the handler the opcode switch selects has, for every input, exactly the effect the ISA prescribes. -/
theorem cdna3_s_cbranch_execnz_conforms : ConformsTo Gen.cdna3.dispatch 4 9 0 Spec.s_cbranch_execnz :=
  ⟨_, rfl, by conform Gen.cdna3.run_SCBRANCHEXECNZ Spec.s_cbranch_execnz⟩

/-- CDNA3 `s_waitcnt` (format 4, opcode 12): the handler the opcode switch selects has, for every input, exactly the effect the ISA prescribes. -/
theorem cdna3_s_waitcnt_conforms : ConformsTo Gen.cdna3.dispatch 4 12 0 Spec.s_waitcnt :=
  ⟨_, rfl, by intro i; first | rfl | (intro _; rfl)⟩

/-! ## The two ALUs agree wherever both implement an opcode (both manuals define these opcodes identically) -/

/-- `s_add_u32`: `emu.ALUImpl` and `cdna3.ALU` have the same architectural effect on every input. -/
theorem alu_agree_s_add_u32 : Agree 0 0 32 := agree_of_conforms gcn3_s_add_u32_conforms cdna3_s_add_u32_conforms

/-- `s_sub_u32`: `emu.ALUImpl` and `cdna3.ALU` have the same architectural effect on every input. -/
theorem alu_agree_s_sub_u32 : Agree 0 1 32 := agree_of_conforms gcn3_s_sub_u32_conforms cdna3_s_sub_u32_conforms

/-- `s_addc_u32`: `emu.ALUImpl` and `cdna3.ALU` have the same architectural effect on every input. -/
theorem alu_agree_s_addc_u32 : Agree 0 4 32 := agree_of_conformsScc gcn3_s_addc_u32_conforms cdna3_s_addc_u32_conforms

/-- `s_subb_u32`: `emu.ALUImpl` and `cdna3.ALU` have the same architectural effect on every input. -/
theorem alu_agree_s_subb_u32 : Agree 0 5 32 := agree_of_conformsScc gcn3_s_subb_u32_conforms cdna3_s_subb_u32_conforms

/-- `s_min_i32`: `emu.ALUImpl` and `cdna3.ALU` have the same architectural effect on every input. -/
theorem alu_agree_s_min_i32 : Agree 0 6 32 := agree_of_conforms gcn3_s_min_i32_conforms cdna3_s_min_i32_conforms

/-- `s_min_u32`: `emu.ALUImpl` and `cdna3.ALU` have the same architectural effect on every input. -/
theorem alu_agree_s_min_u32 : Agree 0 7 32 := agree_of_conforms gcn3_s_min_u32_conforms cdna3_s_min_u32_conforms

/-- `s_max_i32`: `emu.ALUImpl` and `cdna3.ALU` have the same architectural effect on every input. -/
theorem alu_agree_s_max_i32 : Agree 0 8 32 := agree_of_conforms gcn3_s_max_i32_conforms cdna3_s_max_i32_conforms

/-- `s_max_u32`: `emu.ALUImpl` and `cdna3.ALU` have the same architectural effect on every input. -/
theorem alu_agree_s_max_u32 : Agree 0 9 32 := agree_of_conforms gcn3_s_max_u32_conforms cdna3_s_max_u32_conforms

/-- `s_cselect_b32`: `emu.ALUImpl` and `cdna3.ALU` have the same architectural effect on every input. -/
theorem alu_agree_s_cselect_b32 : Agree 0 10 32 := agree_of_conformsScc gcn3_s_cselect_b32_conforms cdna3_s_cselect_b32_conforms

/-- `s_and_b32`: `emu.ALUImpl` and `cdna3.ALU` have the same architectural effect on every input. -/
theorem alu_agree_s_and_b32 : Agree 0 12 32 := agree_of_conforms gcn3_s_and_b32_conforms cdna3_s_and_b32_conforms

/-- `s_and_b64`: `emu.ALUImpl` and `cdna3.ALU` have the same architectural effect on every input. -/
theorem alu_agree_s_and_b64 : Agree 0 13 64 := agree_of_conforms gcn3_s_and_b64_conforms cdna3_s_and_b64_conforms

/-- `s_or_b64`: `emu.ALUImpl` and `cdna3.ALU` have the same architectural effect on every input. -/
theorem alu_agree_s_or_b64 : Agree 0 15 64 := agree_of_conforms gcn3_s_or_b64_conforms cdna3_s_or_b64_conforms

/-- `s_xor_b32`: `emu.ALUImpl` and `cdna3.ALU` have the same architectural effect on every input. -/
theorem alu_agree_s_xor_b32 : Agree 0 16 32 := agree_of_conforms gcn3_s_xor_b32_conforms cdna3_s_xor_b32_conforms

/-- `s_xor_b64`: `emu.ALUImpl` and `cdna3.ALU` have the same architectural effect on every input. -/
theorem alu_agree_s_xor_b64 : Agree 0 17 64 := agree_of_conforms gcn3_s_xor_b64_conforms cdna3_s_xor_b64_conforms

/-- `s_andn2_b64`: `emu.ALUImpl` and `cdna3.ALU` have the same architectural effect on every input. -/
theorem alu_agree_s_andn2_b64 : Agree 0 19 64 := agree_of_conforms gcn3_s_andn2_b64_conforms cdna3_s_andn2_b64_conforms

/-- `s_lshl_b32`: `emu.ALUImpl` and `cdna3.ALU` have the same architectural effect on every input. -/
theorem alu_agree_s_lshl_b32 : Agree 0 28 32 := agree_of_conforms gcn3_s_lshl_b32_conforms cdna3_s_lshl_b32_conforms

/-- `s_lshl_b64`: `emu.ALUImpl` and `cdna3.ALU` have the same architectural effect on every input. -/
theorem alu_agree_s_lshl_b64 : Agree 0 29 64 := agree_of_conforms gcn3_s_lshl_b64_conforms cdna3_s_lshl_b64_conforms

/-- `s_lshr_b64`: `emu.ALUImpl` and `cdna3.ALU` have the same architectural effect on every input. -/
theorem alu_agree_s_lshr_b64 : Agree 0 31 64 := agree_of_conforms gcn3_s_lshr_b64_conforms cdna3_s_lshr_b64_conforms

/-- `s_ashr_i32`: `emu.ALUImpl` and `cdna3.ALU` have the same architectural effect on every input. -/
theorem alu_agree_s_ashr_i32 : Agree 0 32 32 := agree_of_conforms gcn3_s_ashr_i32_conforms cdna3_s_ashr_i32_conforms

/-- `s_mul_i32`: `emu.ALUImpl` and `cdna3.ALU` have the same architectural effect on every input. -/
theorem alu_agree_s_mul_i32 : Agree 0 36 32 := agree_of_conforms gcn3_s_mul_i32_conforms cdna3_s_mul_i32_conforms

/-- `s_cmpk_eq_i32`: `emu.ALUImpl` and `cdna3.ALU` have the same architectural effect on every input. -/
theorem alu_agree_s_cmpk_eq_i32 : Agree 1 2 32 := agree_of_conforms gcn3_s_cmpk_eq_i32_conforms cdna3_s_cmpk_eq_i32_conforms

/-- `s_cmpk_lg_i32`: `emu.ALUImpl` and `cdna3.ALU` have the same architectural effect on every input. -/
theorem alu_agree_s_cmpk_lg_i32 : Agree 1 3 32 := agree_of_conforms gcn3_s_cmpk_lg_i32_conforms cdna3_s_cmpk_lg_i32_conforms

/-- `s_mov_b32`: `emu.ALUImpl` and `cdna3.ALU` have the same architectural effect on every input. -/
theorem alu_agree_s_mov_b32 : Agree 2 0 32 := agree_of_conforms gcn3_s_mov_b32_conforms cdna3_s_mov_b32_conforms

/-- `s_mov_b64`: `emu.ALUImpl` and `cdna3.ALU` have the same architectural effect on every input. -/
theorem alu_agree_s_mov_b64 : Agree 2 1 64 := agree_of_conforms gcn3_s_mov_b64_conforms cdna3_s_mov_b64_conforms

/-- `s_not_b32`: `emu.ALUImpl` and `cdna3.ALU` have the same architectural effect on every input. -/
theorem alu_agree_s_not_b32 : Agree 2 4 32 := agree_of_conforms gcn3_s_not_b32_conforms cdna3_s_not_b32_conforms

/-- `s_getpc_b64`: `emu.ALUImpl` and `cdna3.ALU` have the same architectural effect on every input. -/
theorem alu_agree_s_getpc_b64 : Agree 2 28 64 := agree_of_conforms gcn3_s_getpc_b64_conforms cdna3_s_getpc_b64_conforms

/-- `s_and_saveexec_b64`: `emu.ALUImpl` and `cdna3.ALU` have the same architectural effect on every input. -/
theorem alu_agree_s_and_saveexec_b64 : Agree 2 32 64 := agree_of_conforms gcn3_s_and_saveexec_b64_conforms cdna3_s_and_saveexec_b64_conforms

/-- `s_or_saveexec_b64`: `emu.ALUImpl` and `cdna3.ALU` have the same architectural effect on every input. -/
theorem alu_agree_s_or_saveexec_b64 : Agree 2 33 64 := agree_of_conforms gcn3_s_or_saveexec_b64_conforms cdna3_s_or_saveexec_b64_conforms

/-- `s_xor_saveexec_b64`: `emu.ALUImpl` and `cdna3.ALU` have the same architectural effect on every input. -/
theorem alu_agree_s_xor_saveexec_b64 : Agree 2 34 64 := agree_of_conforms gcn3_s_xor_saveexec_b64_conforms cdna3_s_xor_saveexec_b64_conforms

/-- `s_andn2_saveexec_b64`: `emu.ALUImpl` and `cdna3.ALU` have the same architectural effect on every input. -/
theorem alu_agree_s_andn2_saveexec_b64 : Agree 2 35 64 := agree_of_conforms gcn3_s_andn2_saveexec_b64_conforms cdna3_s_andn2_saveexec_b64_conforms

/-- `s_orn2_saveexec_b64`: `emu.ALUImpl` and `cdna3.ALU` have the same architectural effect on every input. -/
theorem alu_agree_s_orn2_saveexec_b64 : Agree 2 36 64 := agree_of_conforms gcn3_s_orn2_saveexec_b64_conforms cdna3_s_orn2_saveexec_b64_conforms

/-- `s_nand_saveexec_b64`: `emu.ALUImpl` and `cdna3.ALU` have the same architectural effect on every input. -/
theorem alu_agree_s_nand_saveexec_b64 : Agree 2 37 64 := agree_of_conforms gcn3_s_nand_saveexec_b64_conforms cdna3_s_nand_saveexec_b64_conforms

/-- `s_nor_saveexec_b64`: `emu.ALUImpl` and `cdna3.ALU` have the same architectural effect on every input. -/
theorem alu_agree_s_nor_saveexec_b64 : Agree 2 38 64 := agree_of_conforms gcn3_s_nor_saveexec_b64_conforms cdna3_s_nor_saveexec_b64_conforms

/-- `s_xnor_saveexec_b64`: `emu.ALUImpl` and `cdna3.ALU` have the same architectural effect on every input. -/
theorem alu_agree_s_xnor_saveexec_b64 : Agree 2 39 64 := agree_of_conforms gcn3_s_xnor_saveexec_b64_conforms cdna3_s_xnor_saveexec_b64_conforms

/-- `s_cmp_eq_i32`: `emu.ALUImpl` and `cdna3.ALU` have the same architectural effect on every input. -/
theorem alu_agree_s_cmp_eq_i32 : Agree 3 0 0 := agree_of_conforms gcn3_s_cmp_eq_i32_conforms cdna3_s_cmp_eq_i32_conforms

/-- `s_cmp_lg_i32`: `emu.ALUImpl` and `cdna3.ALU` have the same architectural effect on every input. -/
theorem alu_agree_s_cmp_lg_i32 : Agree 3 1 0 := agree_of_conforms gcn3_s_cmp_lg_i32_conforms cdna3_s_cmp_lg_i32_conforms

/-- `s_cmp_gt_i32`: `emu.ALUImpl` and `cdna3.ALU` have the same architectural effect on every input. -/
theorem alu_agree_s_cmp_gt_i32 : Agree 3 2 0 := agree_of_conforms gcn3_s_cmp_gt_i32_conforms cdna3_s_cmp_gt_i32_conforms

/-- `s_cmp_ge_i32`: `emu.ALUImpl` and `cdna3.ALU` have the same architectural effect on every input. -/
theorem alu_agree_s_cmp_ge_i32 : Agree 3 3 0 := agree_of_conforms gcn3_s_cmp_ge_i32_conforms cdna3_s_cmp_ge_i32_conforms

/-- `s_cmp_lt_i32`: `emu.ALUImpl` and `cdna3.ALU` have the same architectural effect on every input. -/
theorem alu_agree_s_cmp_lt_i32 : Agree 3 4 0 := agree_of_conforms gcn3_s_cmp_lt_i32_conforms cdna3_s_cmp_lt_i32_conforms

/-- `s_cmp_le_i32`: `emu.ALUImpl` and `cdna3.ALU` have the same architectural effect on every input. -/
theorem alu_agree_s_cmp_le_i32 : Agree 3 5 0 := agree_of_conforms gcn3_s_cmp_le_i32_conforms cdna3_s_cmp_le_i32_conforms

/-- `s_cmp_eq_u32`: `emu.ALUImpl` and `cdna3.ALU` have the same architectural effect on every input. -/
theorem alu_agree_s_cmp_eq_u32 : Agree 3 6 0 := agree_of_conforms gcn3_s_cmp_eq_u32_conforms cdna3_s_cmp_eq_u32_conforms

/-- `s_cmp_lg_u32`: `emu.ALUImpl` and `cdna3.ALU` have the same architectural effect on every input. -/
theorem alu_agree_s_cmp_lg_u32 : Agree 3 7 0 := agree_of_conforms gcn3_s_cmp_lg_u32_conforms cdna3_s_cmp_lg_u32_conforms

/-- `s_cmp_gt_u32`: `emu.ALUImpl` and `cdna3.ALU` have the same architectural effect on every input. -/
theorem alu_agree_s_cmp_gt_u32 : Agree 3 8 0 := agree_of_conforms gcn3_s_cmp_gt_u32_conforms cdna3_s_cmp_gt_u32_conforms

/-- `s_cmp_lt_u32`: `emu.ALUImpl` and `cdna3.ALU` have the same architectural effect on every input. -/
theorem alu_agree_s_cmp_lt_u32 : Agree 3 10 0 := agree_of_conforms gcn3_s_cmp_lt_u32_conforms cdna3_s_cmp_lt_u32_conforms

/-- `s_nop`: `emu.ALUImpl` and `cdna3.ALU` have the same architectural effect on every input. -/
theorem alu_agree_s_nop : Agree 4 0 0 := agree_of_conforms gcn3_s_nop_conforms cdna3_s_nop_conforms

/-- `s_branch`: `emu.ALUImpl` and `cdna3.ALU` have the same architectural effect on every input. -/
theorem alu_agree_s_branch : Agree 4 2 0 := agree_of_conforms gcn3_s_branch_conforms cdna3_s_branch_conforms

/-- `s_cbranch_scc0`: `emu.ALUImpl` and `cdna3.ALU` have the same architectural effect on every input. -/
theorem alu_agree_s_cbranch_scc0 : Agree 4 4 0 := agree_of_conformsScc gcn3_s_cbranch_scc0_conforms cdna3_s_cbranch_scc0_conforms

/-- `s_cbranch_scc1`: `emu.ALUImpl` and `cdna3.ALU` have the same architectural effect on every input. -/
theorem alu_agree_s_cbranch_scc1 : Agree 4 5 0 := agree_of_conformsScc gcn3_s_cbranch_scc1_conforms cdna3_s_cbranch_scc1_conforms

/-- `s_cbranch_vccz`: `emu.ALUImpl` and `cdna3.ALU` have the same architectural effect on every input. -/
theorem alu_agree_s_cbranch_vccz : Agree 4 6 0 := agree_of_conforms gcn3_s_cbranch_vccz_conforms cdna3_s_cbranch_vccz_conforms

/-- `s_cbranch_vccnz`: `emu.ALUImpl` and `cdna3.ALU` have the same architectural effect on every input. -/
theorem alu_agree_s_cbranch_vccnz : Agree 4 7 0 := agree_of_conforms gcn3_s_cbranch_vccnz_conforms cdna3_s_cbranch_vccnz_conforms

/-- `s_cbranch_execz`: `emu.ALUImpl` and `cdna3.ALU` have the same architectural effect on every input. -/
theorem alu_agree_s_cbranch_execz : Agree 4 8 0 := agree_of_conforms gcn3_s_cbranch_execz_conforms cdna3_s_cbranch_execz_conforms

/-- `s_cbranch_execnz`: `emu.ALUImpl` and `cdna3.ALU` have the same architectural effect on every input. -/
theorem alu_agree_s_cbranch_execnz : Agree 4 9 0 := agree_of_conforms gcn3_s_cbranch_execnz_conforms cdna3_s_cbranch_execnz_conforms

/-- `s_waitcnt`: `emu.ALUImpl` and `cdna3.ALU` have the same architectural effect on every input. -/
theorem alu_agree_s_waitcnt : Agree 4 12 0 := agree_of_conforms gcn3_s_waitcnt_conforms cdna3_s_waitcnt_conforms

/-! ## Frame -/

/-- Frame: a conforming handler writes a cell only if the specification does — in particular no
    scalar opcode's handler can write VCC, and only SOPP branches write PC. -/
theorem frame_of_conforms {disp : Nat → Nat → Option (ScalarIn → ScalarOut)} {fmt op w : Nat}
    {spec : ScalarIn → ScalarOut} (h : ConformsTo disp fmt op w spec) :
    ∃ f, disp fmt op = some f ∧ ∀ i, ((spec i).vcc = none → (f i).vcc = none) ∧
      ((spec i).pc = none → (f i).pc = none) ∧ ((spec i).exec = none → (f i).exec = none) ∧
      ((spec i).scc = none → (f i).scc = none) ∧ ((spec i).dst = none → (f i).dst = none) := by
  obtain ⟨f, hf, hc⟩ := h
  refine ⟨f, hf, fun i => ?_⟩
  have := hc i
  rw [← this]
  simp only [ScalarOut.norm, Option.map_eq_none_iff]
  exact ⟨id, id, id, id, id⟩

/-- e.g. the GCN3 `s_mul_i32` handler writes its destination and nothing else (SCC untouched). -/
theorem gcn3_s_mul_i32_frame :
    ∃ f, Gen.gcn3.dispatch 0 36 = some f ∧ ∀ i, (f i).scc = none ∧ (f i).vcc = none ∧ (f i).exec = none ∧ (f i).pc = none := by
  obtain ⟨f, hf, h⟩ := frame_of_conforms gcn3_s_mul_i32_conforms
  exact ⟨f, hf, fun i => ⟨(h i).2.2.2.1 rfl, (h i).1 rfl, (h i).2.2.1 rfl, (h i).2.1 rfl⟩⟩

/-- SCC stays a bit: whatever a conforming handler writes to SCC is 0 or 1 (so `sccOk` is an
    invariant of execution). -/
theorem spec_bit_is_bit (b : Bool) : Spec.bit b = 0#8 ∨ Spec.bit b = 1#8 := by
  cases b <;> simp [Spec.bit]

example : ScalarIn.sccOk { src0 := 5#64, src1 := 3#64, dstOld := 0, scc := 1, vcc := 0, exec := 0, pc := 0x1000, simm16 := 0 } := Or.inr rfl

end C03S
