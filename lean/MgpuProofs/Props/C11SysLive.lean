import MgpuProofs.Props.C11Sys
import MgpuProofs.C11SysLive
/-! # C11 — the closed copy system: liveness (property theorems)

`Props/C11Sys*.lean` prove safety of the closed system `Sys` (`MgpuModel/C11Sys.lean`: the driver's copy
path `MqEnv`, the command processor `CpEnv` and the DMA engine `Env`, wired to each other and to a byte
memory — every move is a move of one component or the hand-over of a message between two of them): the
right bytes arrive at the right place, once, before the completion is reported. This file proves that the
completion IS reported: under EVERY fair schedule (`SysFair`: each of the twelve kinds of move recurs for
ever, in any interleaving, any outstanding cache flush / memory transaction chosen) every copy command
the application enqueued completes, exactly once.

The argument composes the three component arguments. Measure: the lexicographic triple
`sysMeasure = (MqEnv.fairMeasure, cpMeasure, dmaMeasure)` — a hand-over decreases the measure of the
sender and increases that of the receiver, which comes LATER in the order; every move leaves the whole
state untouched or makes the triple fall. No deadlock: if none of the twelve moves changes the state,
then (DMA engine: `dma_no_deadlock`; its copy requests are never empty because the driver's page pieces
never are) the engine is quiet, hence no clone is left at the DMA side, hence (`cp_no_deadlock`) the
command processor is quiet and has answered everything, hence the GPU side of the driver holds nothing,
hence (`mq_no_deadlock`) every queue is empty. The "bad-link" exits of the hand-overs (`toDma`, `memDo`,
`toCpRsp`, `toDrv` find no page piece / clone / outstanding request) are shown unreachable. -/
namespace C11

/-- the demo system with one H2D copy of 40 bytes over two pages, needing a flush, just enqueued -/
def sysLiveDemo : Sys := reachSys demoSysCfg [.enq 0 true 4140 40 3]

/-- every buffer between two components holds ONE message, one copy in processing at the DMA engine; an
    H2D copy (with flush) and a D2H copy enqueued -/
def sysTightCfg : SysCfg := { demoSysCfg with cin := 1, cdrv := 1, cdma := 1, ccache := 1, maxReq := 1, memCap := 1 }

def sysLiveTight : Sys := reachSys sysTightCfg [.enq 0 true 4140 40 3, .enq 0 false 4100 8 0]

/-- the state reached from one enqueued copy after 48 round-robin moves, for configuration `c` -/
def sysAfter48 (c : SysCfg) : Sys := reachSys c ([.enq 0 true 4140 40 3] ++ (List.range 48).map sysRoundRobin)

/-- **Every move other than a new command / a kernel write leaves the state untouched or decreases the
    measure.** For every configuration in which ToCaches holds one flush request per cache, every
    reachable state of the closed system and every move — a tick of the driver, the command processor or
    the DMA engine, a hand-over (request → CP, clone → DMA engine, completion → wire → CP, answer →
    driver), the caches or the memory taking messages, acknowledging a flush (with write-back), performing
    a transaction —: either the WHOLE state (three components, memory, dirty data, wire, ghost logs) is
    exactly as before, or the triple (driver measure, CP measure, DMA measure) is lexicographically
    smaller (`SysLt`, well-founded: `SysLt.wf`). The closed system cannot spin. -/
theorem sys_measure_decreases (c : SysCfg) (hcap : c.nCaches ≤ c.ccache) (ops : List SysOp) (op : SysOp)
    (hop : op.isInput = false) :
    ((reachSys c ops).step op).1 = reachSys c ops ∨
    SysLt (sysMeasure ((reachSys c ops).step op).1) (sysMeasure (reachSys c ops)) :=
  sys_step_prog (reachSys_ctx c ops) hcap op hop

/-- the measure after every round of the round-robin schedule from `sysLiveDemo`: work moves from the
    driver to the command processor to the DMA engine and drains -/
example : (List.range 12).map (fun i => sysMeasure (sysRunSched sysLiveDemo sysRoundRobin (12 * i))) =
    [(28, 0, 0), (24, 0, 0), (16, 2, 0), (12, 4, 13), (8, 8, 23), (8, 8, 18), (8, 8, 12), (8, 7, 5), (6, 4, 2),
     (4, 3, 0), (2, 0, 0), (0, 0, 0)] := by decide +kernel

/-- the order on measures is well-founded: no infinite descent -/
theorem sys_measure_wf : WellFounded SysLt := SysLt.wf

example : SysLt (12, 4, 13) (16, 2, 0) ∧ SysLt (8, 8, 18) (8, 8, 23) ∧ ¬ SysLt (8, 8, 23) (8, 8, 23) := by
  unfold SysLt; decide

/-- **No deadlock.** Every buffer between two components has room for one message (`cin`, `cdrv`,
    `cdma`, `memCap ≥ 1`), ToCaches for one flush request per cache, the DMA engine processes at least one
    copy at a time (`SysCaps`). If in a reachable state of the closed system none of the twelve kinds of
    move changes anything, then every queue of the driver is empty, the command processor and the DMA
    engine are quiet, nothing is on the wire or at the GPU side of the driver (`Sys.settled`), and the
    completions of every queue are its commands `0, 1, …` — every enqueued copy command completed exactly
    once. In particular none of the hand-overs can fail with "bad-link" in a reachable state. -/
theorem sys_no_deadlock (c : SysCfg) (hc : SysCaps c) (ops : List SysOp) :
    let s := reachSys c ops
    (∀ op ∈ sysMoves, (s.step op).1 = s) →
    s.settled ∧ ∀ qi, qi < c.nQueues →
      (s.mq.s.completed.filter (·.1 = qi)).map (·.2) = List.range (s.cmds.filter (·.q == qi)).length := by
  intro s hn
  have hctx := reachSys_ctx c ops
  have hset : s.settled := sys_no_deadlock_core hctx hc (Nat.le_refl 1) (Nat.le_refl 1) hn
  exact ⟨hset, fun qi hqi => hctx.completed_all hset.1 qi hqi⟩

/-- the twelve no-op hypotheses hold together in a state with history: 121 round-robin moves after the
    enqueue (it is `reachSys` of the enqueue followed by those moves) -/
example : ∀ op ∈ sysMoves,
    ((reachSys demoSysCfg ([.enq 0 true 4140 40 3] ++ (List.range 121).map sysRoundRobin)).step op).1 =
      reachSys demoSysCfg ([.enq 0 true 4140 40 3] ++ (List.range 121).map sysRoundRobin) := by
  intro op hop
  refine sys_stuck_step (by decide +kernel) (by decide +kernel) (by decide +kernel) (by decide +kernel)
    (by decide +kernel) (by decide +kernel) (by decide +kernel) (by decide +kernel) (by decide +kernel)
    (by decide +kernel) (by decide +kernel) (by decide +kernel) op ?_
  simp only [sysMoves, sysMovesP, List.mem_cons, List.not_mem_nil, or_false] at hop
  rcases hop with rfl | rfl | rfl | rfl | rfl | rfl | rfl | rfl | rfl | rfl | rfl | rfl <;> rfl

example : SysCaps demoSysCfg ∧ SysCaps sysTightCfg :=
  ⟨⟨by decide, by decide, by decide, by decide, by decide, by decide⟩,
   ⟨by decide, by decide, by decide, by decide, by decide, by decide⟩⟩

/-- the round-robin schedule over the twelve kinds of move is fair: `SysFair` is satisfiable -/
theorem sys_round_robin_fair : SysFair sysRoundRobin := sysRoundRobin_fair

example : (sysRunSched sysLiveDemo sysRoundRobin 24).mq.seen.length = 1 ∧
    (sysRunSched sysLiveDemo sysRoundRobin 48).mq.seen.length = 3 ∧
    (sysRunSched sysLiveDemo sysRoundRobin 48).dma.cps.length = 2 := by decide +kernel

/-- **Liveness of the closed copy system: every enqueued copy command completes, exactly once, under
    every fair schedule.** Capacities as in `sys_no_deadlock`. Start in ANY reachable state of the closed
    system (any history `ops`: commands enqueued on any queues, flushes half acknowledged, clones at the
    DMA engine, transactions at the memory, completions on the wire, kernel writes in the caches, …) and
    let the three components and their hand-overs follow ANY fair schedule `σ` without new commands. Then
    from some point `N` on, for ever: the state no longer changes; every queue of the driver is empty, the
    command processor and the DMA engine are quiet, nothing is on the wire or at the GPU side of the
    driver (`settled`); no command was added; and on every queue the completed commands are its commands
    `0, 1, …` — as many as were enqueued: each copy command completed exactly once. With the safety
    theorems of `Props/C11Sys*.lean` (a command completes only after every page piece was copied, the
    right bytes to the right place, exactly once): every copy the application issues is carried out. -/
theorem sys_fair_all_complete (c : SysCfg) (hc : SysCaps c) (ops : List SysOp) (σ : Nat → SysOp) (hσ : SysFair σ) :
    ∃ N, ∀ M ≥ N,
      let s := sysRunSched (reachSys c ops) σ M
      s.mq.allDone ∧ s.settled ∧ s = sysRunSched (reachSys c ops) σ N ∧ s.cmds = (reachSys c ops).cmds ∧
      ∀ qi, qi < c.nQueues →
        (s.mq.s.completed.filter (·.1 = qi)).map (·.2) =
          List.range ((reachSys c ops).cmds.filter (·.q == qi)).length := by
  obtain ⟨N, hN⟩ := reachSys_fair_complete c hc ops σ hσ
  refine ⟨N, fun M hM => ?_⟩
  obtain ⟨h1, h2, h3, h4⟩ := hN M hM
  exact ⟨h1.1, h1, h2, h3, h4⟩

/-- the round-robin schedule from `sysLiveDemo`: the command completes during move 121 (not before), and
    the state is settled; in the configuration with one-entry buffers everywhere and two commands
    (`sysLiveTight`) during move 217 -/
example :
    (sysRunSched sysLiveDemo sysRoundRobin 121).mq.allDone ∧ ¬ (sysRunSched sysLiveDemo sysRoundRobin 120).mq.allDone ∧
    (sysRunSched sysLiveDemo sysRoundRobin 121).mq.s.completed = [(0, 0)] ∧
    (sysRunSched sysLiveDemo sysRoundRobin 121).cp.drained.length = 3 ∧
    (sysRunSched sysLiveDemo sysRoundRobin 121).mlog.length = 4 ∧
    (sysRunSched sysLiveTight sysRoundRobin 217).mq.allDone ∧ ¬ (sysRunSched sysLiveTight sysRoundRobin 216).mq.allDone ∧
    (sysRunSched sysLiveTight sysRoundRobin 217).mq.s.completed = [(0, 0), (0, 1)] := by decide +kernel

/-! ## the capacity hypotheses cannot be dropped

For each of the six capacities: a configuration that violates only this one, a reachable state (one
copy enqueued, 48 round-robin moves) that every fair schedule leaves as it is for ever, with the command
not completed. -/

/-- the common shape of the six witnesses -/
def SysStuckFor (c : SysCfg) : Prop :=
  ∀ σ : Nat → SysOp, SysFair σ → ∀ M, sysRunSched (sysAfter48 c) σ M = sysAfter48 c ∧ ¬ (sysAfter48 c).mq.allDone

theorem sysStuckFor_of {c : SysCfg} (h1 : ((sysAfter48 c).mq.step .tick).1 = (sysAfter48 c).mq)
    (h2 : (sysAfter48 c).mq.s.portOut = [] ∨ (sysAfter48 c).cp.s.capIn ≤ (sysAfter48 c).cp.s.drvIn.length)
    (h3 : ((sysAfter48 c).cp.step .tick).1 = (sysAfter48 c).cp) (h4 : (sysAfter48 c).cp.s.cacheOut = [])
    (h5 : (sysAfter48 c).cp.atCaches = []) (h6 : (sysAfter48 c).cp.s.dmaOut = [])
    (h7 : (sysAfter48 c).dma.step .tick = (sysAfter48 c).dma) (h8 : (sysAfter48 c).dma.s.memOut = [])
    (h9 : (sysAfter48 c).dma.outstanding = []) (h10 : (sysAfter48 c).dma.s.cpOut = []) (h11 : (sysAfter48 c).wire = [])
    (h12 : (sysAfter48 c).cp.s.drvOut = []) (h13 : ¬ (sysAfter48 c).mq.allDone) : SysStuckFor c :=
  fun _ hσ M => ⟨sysRunSched_stuck h1 h2 h3 h4 h5 h6 h7 h8 h9 h10 h11 h12 hσ.1 M, h13⟩

/-- **`1 ≤ cin` is needed:** a driver port of the command processor without room — the driver's requests
    wait in its GPU port for ever. -/
theorem sys_live_needs_cin : SysStuckFor { demoSysCfg with cin := 0 } :=
  sysStuckFor_of (by decide +kernel) (by decide +kernel) (by decide +kernel) (by decide +kernel) (by decide +kernel)
    (by decide +kernel) (by decide +kernel) (by decide +kernel) (by decide +kernel) (by decide +kernel)
    (by decide +kernel) (by decide +kernel) (by decide +kernel)

example : (sysAfter48 { demoSysCfg with cin := 0 }).mq.s.portOut.length = 3 := by decide +kernel

/-- **`1 ≤ cdrv` is needed:** ToDriver without room — the last cache acknowledgement waits in ToCaches. -/
theorem sys_live_needs_cdrv : SysStuckFor { demoSysCfg with cdrv := 0 } :=
  sysStuckFor_of (by decide +kernel) (by decide +kernel) (by decide +kernel) (by decide +kernel) (by decide +kernel)
    (by decide +kernel) (by decide +kernel) (by decide +kernel) (by decide +kernel) (by decide +kernel)
    (by decide +kernel) (by decide +kernel) (by decide +kernel)

example : (sysAfter48 { demoSysCfg with cdrv := 0 }).cp.s.cacheIn = [0] := by decide +kernel

/-- **`1 ≤ cdma` is needed:** ToDMA without room — the copy requests wait in the CP's driver port. -/
theorem sys_live_needs_cdma : SysStuckFor { demoSysCfg with cdma := 0 } :=
  sysStuckFor_of (by decide +kernel) (by decide +kernel) (by decide +kernel) (by decide +kernel) (by decide +kernel)
    (by decide +kernel) (by decide +kernel) (by decide +kernel) (by decide +kernel) (by decide +kernel)
    (by decide +kernel) (by decide +kernel) (by decide +kernel)

example : (sysAfter48 { demoSysCfg with cdma := 0 }).cp.s.drvIn.length = 2 := by decide +kernel

/-- **`nCaches ≤ ccache` is needed:** two caches, ToCaches of one entry — `flushCache` panics. -/
theorem sys_live_needs_ccache : SysStuckFor { demoSysCfg with nCaches := 2, ccache := 1 } :=
  sysStuckFor_of (by decide +kernel) (by decide +kernel) (by decide +kernel) (by decide +kernel) (by decide +kernel)
    (by decide +kernel) (by decide +kernel) (by decide +kernel) (by decide +kernel) (by decide +kernel)
    (by decide +kernel) (by decide +kernel) (by decide +kernel)

example : (sysAfter48 { demoSysCfg with nCaches := 2, ccache := 1 }).cp.s.fault = some "cache_send" := by
  decide +kernel

/-- **`1 ≤ maxReq` is needed:** the DMA engine never parses a copy request. -/
theorem sys_live_needs_maxReq : SysStuckFor { demoSysCfg with maxReq := 0 } :=
  sysStuckFor_of (by decide +kernel) (by decide +kernel) (by decide +kernel) (by decide +kernel) (by decide +kernel)
    (by decide +kernel) (by decide +kernel) (by decide +kernel) (by decide +kernel) (by decide +kernel)
    (by decide +kernel) (by decide +kernel) (by decide +kernel)

example : (sysAfter48 { demoSysCfg with maxReq := 0 }).dma.s.cpIn.length = 2 := by decide +kernel

/-- **`1 ≤ memCap` is needed:** ToMem without room — the transactions wait in `toSendToMem`. -/
theorem sys_live_needs_memCap : SysStuckFor { demoSysCfg with memCap := 0 } :=
  sysStuckFor_of (by decide +kernel) (by decide +kernel) (by decide +kernel) (by decide +kernel) (by decide +kernel)
    (by decide +kernel) (by decide +kernel) (by decide +kernel) (by decide +kernel) (by decide +kernel)
    (by decide +kernel) (by decide +kernel) (by decide +kernel)

example : (sysAfter48 { demoSysCfg with memCap := 0 }).dma.s.toMem.length = 4 := by decide +kernel

end C11
