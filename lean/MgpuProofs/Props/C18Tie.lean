import MgpuProofs.C18Hyp
import MgpuModel.Gen.C18Plat
/-! # C18 — work-group distribution of a unified launch, tied to the Go expressions

`MgpuModel/Gen/C18Plat.lean` is generated from `amd/driver/driver.go` (`numWGInDim`,
`distributeWGToGPUs`, the work-group filter of `processUnifiedMultiGPULaunchKernelCommand`). This file
shows that the hand-written model (`numWG`, `wgPerCU`, `wgDist`, `distributeWG` of
`MgpuModel/C18_Base.lean`) computes exactly those expressions, and proves the partition property over
them:

* `wgdist_partitions_all` — `wgdist_partitions` of `Props/C18.lean` WITHOUT `0 < total` (the repaired
  ceiling `(total + Σcu - 1) / Σcu` is 0 for an empty grid, nothing underflows any more);
* `wgdist_empty_grid` — what an empty grid gives: all boundaries 0, every GPU is skipped;
* `wgdist_needs_cus` — the remaining hypothesis `0 < Σcu` is necessary (Go: integer divide by zero);
* `filter_partitions_grid` — every work-group `(x, y, z)` of the grid is accepted by the filter of
  exactly one GPU, and distinct work-groups have distinct flattened ids. -/
namespace C18

/-! ## 1. The model is the generated code -/

/-- The model's number of work-groups in one dimension is the Go expression of `numWGInDim`
(`(int(gridSize) + int(wgSize) - 1) / int(wgSize)`). -/
theorem numWG_eq_gen (g w : Nat) : numWG g w = Gen.C18Plat.numWGInDim g w := rfl

/-- The model's work-groups per compute unit is the Go expression in `distributeWGToGPUs`
(`(totalWGCount + totalCUCount - 1) / totalCUCount`). -/
theorem wgPerCU_eq_gen (t s : Nat) : wgPerCU t s = Gen.C18Plat.wgPerCU t s := rfl

/-- One iteration of the Go loop: the boundary list records the running sum `wgAllocated`, and the
running sum grows by the generated `wgToAllocate = cuCount * wgPerCU`
(`wgDist[i+1] = wgAllocated + wgToAllocate; wgAllocated += wgToAllocate`, pinned in `wg_source_pinned`). -/
theorem wgDist_step_eq_gen (w c : Nat) (cs : List Nat) (acc : Nat) :
    wgDist w (c :: cs) acc = acc :: wgDist w cs (acc + Gen.C18Plat.wgToAllocate c w) := rfl

/-- With a non-zero CU total the model's result is decided by the generated panic condition
`wgAllocated < totalWGCount` applied to the last boundary: panic "not all wg allocated", otherwise the
boundaries. -/
theorem distributeWG_guard_eq_gen (cus : List Nat) (total : Nat) (h : cus.sum ≠ 0) :
    distributeWG cus total =
      if Gen.C18Plat.wgNotAll (lastD (wgDist (wgPerCU total cus.sum) cus 0) 0) total then .fault "notall"
      else .dist (wgDist (wgPerCU total cus.sum) cus 0) := by
  unfold distributeWG Gen.C18Plat.wgNotAll
  simp only [h, if_false, decide_eq_true_eq]

/-- The total the harness feeds to `distributeWG` (`handleWg`) is the generated product
`numWGX * numWGY * numWGZ` of the three generated `numWGInDim`. -/
theorem total_eq_gen (gx gy gz wx wy wz : Nat) :
    numWG gx wx * numWG gy wy * numWG gz wz =
      Gen.C18Plat.totalWGCount (Gen.C18Plat.numWGInDim gx wx) (Gen.C18Plat.numWGInDim gy wy)
        (Gen.C18Plat.numWGInDim gz wz) := rfl

/-- The parts of the Go source that the model follows structurally and that are not expressions over
naturals are pinned as text: the accumulation statements of the loop, the three per-dimension counts,
the two counts the filter uses, and the three tests of the launch (GPU skipped when its range is empty,
the filter accepts iff `wgDist[i] ≤ flattenedID < wgDist[i+1]` — that is `countOwners` — and the command
completes at once when no request was sent). If the source changes, the generated file changes and
this theorem stops compiling. -/
theorem wg_source_pinned :
    Gen.C18Plat.wgAccumulate = ["wgAllocated+wgToAllocate", "+=", "wgToAllocate"] ∧
    Gen.C18Plat.wgDims = ["numWGInDim(pkt.GridSizeX,pkt.WorkgroupSizeX)",
      "numWGInDim(pkt.GridSizeY,pkt.WorkgroupSizeY)", "numWGInDim(pkt.GridSizeZ,pkt.WorkgroupSizeZ)"] ∧
    Gen.C18Plat.filterDims = ["numWGInDim(pkt.GridSizeX,pkt.WorkgroupSizeX)",
      "numWGInDim(pkt.GridSizeY,pkt.WorkgroupSizeY)"] ∧
    Gen.C18Plat.filterTests = ["wgDist[i+1]-wgDist[i]==0",
      "flattenedID>=wgDist[currentGPUIndex]&&flattenedID<wgDist[currentGPUIndex+1]", "len(cmd.Reqs)==0"] :=
  ⟨rfl, rfl, rfl, rfl⟩

/-- the tie is not vacuous: grid 9×5×3 with work-groups 2×2×2 is 5·3·2 = 30 work-groups, 3 per CU on 11
    CUs; a grid dimension of 0 gives 0 work-groups (the former `uint32` formula gave 2^32/wg + 1) -/
example : Gen.C18Plat.numWGInDim 9 2 = 5 ∧ numWG 9 2 = 5 ∧ numWG 0 64 = 0 ∧
    Gen.C18Plat.totalWGCount (numWG 9 2) (numWG 5 2) (numWG 3 2) = 30 ∧ Gen.C18Plat.wgPerCU 30 11 = 3 ∧
    Gen.C18Plat.wgToAllocate 4 3 = 12 ∧ Gen.C18Plat.wgNotAll 33 30 = false ∧ Gen.C18Plat.wgNotAll 29 30 = true := by
  decide

/-! ## 2.–4. The partition, all hypotheses audited -/

/-- **wgdist_partitions_all.** For every vector of CU counts with positive sum and EVERY work-group
count (0 included — the hypothesis `0 < total` of `wgdist_partitions` is gone with the repaired
arithmetic): `distributeWGToGPUs` does not panic, returns `len + 1` boundaries starting at 0, the last
boundary is `Σcu · wgPerCU`, it is at least `total` (so the panic test is false), and every work-group
id below `total` lies in exactly one range `[d[i], d[i+1])`. -/
theorem wgdist_partitions_all (cus : List Nat) (total : Nat) (hs : 0 < cus.sum) :
    let d := wgDist (wgPerCU total cus.sum) cus 0
    distributeWG cus total = .dist d ∧ d.head? = some 0 ∧ d.length = cus.length + 1 ∧
    lastD d 0 = cus.sum * wgPerCU total cus.sum ∧ total ≤ lastD d 0 ∧
    ∀ id, id < total → countOwners id d = 1 := by
  intro d
  have hall := wg_all_allocated' total cus.sum hs
  have hlast : lastD d 0 = cus.sum * wgPerCU total cus.sum := by
    simp only [d, wgDist_last]; omega
  refine ⟨?_, ?_, wgDist_length _ _ _, hlast, by omega, ?_⟩
  · unfold distributeWG
    have h1 : cus.sum ≠ 0 := by omega
    simp only [h1, if_false]
    have : ¬ lastD d 0 < total := by omega
    simp only [d] at this
    simp only [this, if_false]
    rfl
  · obtain ⟨tl, htl⟩ := wgDist_cons (wgPerCU total cus.sum) cus 0
    simp only [d, htl, List.head?_cons]
  · intro id hid
    exact countOwners_in _ id cus 0 (by omega) (by omega)

/-- **wgdist_empty_grid.** An empty grid (some grid dimension 0, `numWG 0 w = 0`) on a platform with at
least one CU: every boundary is 0, so every range `wgDist[i+1] - wgDist[i]` is 0, every GPU is skipped,
no launch request is sent and the command completes at once (the three tests pinned in
`wg_source_pinned`). -/
theorem wgdist_empty_grid (cus : List Nat) (hs : 0 < cus.sum) :
    wgDist (wgPerCU 0 cus.sum) cus 0 = List.replicate (cus.length + 1) 0 := by
  rw [wgPerCU_zero _ hs]
  exact wgDist_zero cus 0

/-- **wgdist_needs_cus.** The remaining hypothesis of `wgdist_partitions_all` cannot be dropped: with no
compute unit at all (`Σcu = 0`) the Go code panics with an integer divide by zero, whatever the grid
(replayed by the harness line `c18 wg cus=0,0 …`). -/
theorem wgdist_needs_cus (cus : List Nat) (total : Nat) (h : cus.sum = 0) :
    distributeWG cus total = .fault "divzero" := by
  unfold distributeWG
  simp only [h, if_true]

/-- three GPUs with 4, 0 and 7 CUs: 18 work-groups → 2 per CU, boundaries 0,8,8,22 (GPU 1's range is
    empty); an empty grid → all boundaries 0 and no fault; no CU → divide by zero; 0·… = 0 work-groups
    when one grid dimension is 0 -/
example : distributeWG [4, 0, 7] 18 = .dist [0, 8, 8, 22] ∧ distributeWG [4, 0, 7] 0 = .dist [0, 0, 0, 0] ∧
    wgDist (wgPerCU 0 11) [4, 0, 7] 0 = List.replicate 4 0 ∧ countOwners 0 [0, 0, 0, 0] = 0 ∧
    distributeWG [0, 0] 18 = .fault "divzero" ∧ distributeWG [] 0 = .fault "divzero" ∧
    numWG 5 1 * numWG 0 1 * numWG 2 1 = 0 ∧ distributeWG [4, 0, 7] 22 = .dist [0, 8, 8, 22] ∧
    distributeWG [4, 0, 7] 23 = .dist [0, 12, 12, 33] := by
  decide

/-! ## 5. The work-group filter -/

/-- The flattened id of a work-group inside an `nx × ny × nz` grid is below the total
`nx * ny * nz` the distribution was computed for. -/
theorem flattenedID_lt (nx ny nz x y z : Nat) (hx : x < nx) (hy : y < ny) (hz : z < nz) :
    Gen.C18Plat.flattenedID z nx ny y x < nx * ny * nz :=
  flat_lt nx ny nz x y z hx hy hz

/-- Distinct work-groups of the grid have distinct flattened ids (no bound on `z` is needed). -/
theorem flattenedID_inj (nx ny x y z x' y' z' : Nat) (hx : x < nx) (hx' : x' < nx) (hy : y < ny)
    (hy' : y' < ny) (h : Gen.C18Plat.flattenedID z nx ny y x = Gen.C18Plat.flattenedID z' nx ny y' x') :
    x = x' ∧ y = y' ∧ z = z' :=
  flat_inj nx ny x y z x' y' z' hx hx' hy hy' h

/-- **filter_partitions_grid.** On every platform with at least one CU, for every grid of
`nx × ny × nz` work-groups (the distribution is computed for `total = nx * ny * nz`,
`total_eq_gen`): every work-group `(x, y, z)` of the grid is accepted by the filter of exactly one GPU —
GPU `i` accepts iff `wgDist[i] ≤ flattenedID < wgDist[i+1]`, and `countOwners` counts the `i` for which
this holds. With `flattenedID_inj` no work-group is run twice and none is dropped. -/
theorem filter_partitions_grid (cus : List Nat) (hs : 0 < cus.sum) (nx ny nz x y z : Nat)
    (hx : x < nx) (hy : y < ny) (hz : z < nz) :
    countOwners (Gen.C18Plat.flattenedID z nx ny y x)
      (wgDist (wgPerCU (nx * ny * nz) cus.sum) cus 0) = 1 :=
  (wgdist_partitions_all cus (nx * ny * nz) hs).2.2.2.2.2 _ (flattenedID_lt nx ny nz x y z hx hy hz)

/-- grid 5×3×2 on CUs [4,0,7]: 30 work-groups, 3 per CU, boundaries 0,12,12,33; work-group (4,2,1) has
    id 29 (the last one) and goes to GPU 2 only, (1,2,0) has id 11 and goes to GPU 0 only, (2,2,0) has
    id 12 = the shared boundary of the empty range of GPU 1 and goes to GPU 2 only; id 33 to nobody -/
example : wgDist (wgPerCU (5 * 3 * 2) 11) [4, 0, 7] 0 = [0, 12, 12, 33] ∧
    Gen.C18Plat.flattenedID 1 5 3 2 4 = 29 ∧ Gen.C18Plat.flattenedID 0 5 3 2 1 = 11 ∧
    Gen.C18Plat.flattenedID 0 5 3 2 2 = 12 ∧
    countOwners 29 [0, 12, 12, 33] = 1 ∧ countOwners 29 [12, 33] = 1 ∧
    countOwners 11 [0, 12] = 1 ∧ countOwners 11 [12, 12, 33] = 0 ∧
    countOwners 12 [0, 12, 12] = 0 ∧ countOwners 12 [12, 33] = 1 ∧ countOwners 33 [0, 12, 12, 33] = 0 := by
  decide

/-- all 30 flattened ids of the 5×3×2 grid are pairwise distinct and each has exactly one owner -/
example :
    let ids := (List.range 2).flatMap fun z => (List.range 3).flatMap fun y =>
      (List.range 5).map fun x => Gen.C18Plat.flattenedID z 5 3 y x
    ids.Nodup ∧ ids.length = 30 ∧ ids.all (fun id => countOwners id [0, 12, 12, 33] == 1) = true := by
  decide

end C18
