import MgpuModel.C17
namespace C17
end C17
