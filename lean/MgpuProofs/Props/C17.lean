import MgpuProofs.C17Sem
/-! # C17 — the DRAM model `simplebankedmemory` behaves as a memory

Property theorems only. The first model (`State`, `run` in `MgpuModel/C17.lean`) is the tick-exact transcription of the
component after the first `fix:` commit (row hits stay behind earlier requests of their bank); for ONE lane it is exactly
the shipped code (`one_lane_refines` in `Props/C17W.lean` + the driver's per-line comparison), for several lanes the code
before the second `fix:` commit. The theorems here are the width-1 ones; `Props/C17W.lean` has the safety theorems for
every width on the model of the repaired code, which the per-run correspondence check ties to the real component. Helper lemmas: `MgpuProofs/C17Lemmas.lean`, `C17Inv.lean`, `C17Sem.lean`. -/
namespace C17

/-- **Masked writes touch exactly their enabled bytes.** After committing a write with a dirty mask, a byte
reads as the written data if it lies in the footprint and its mask bit is set, and is unchanged otherwise
(outside the footprint, or mask bit clear) — for every log, address, data and mask. -/
theorem masked_write_exact (log : List Req) (r : Req) (m : List Bool) (x : Nat)
    (hk : r.kind = .wr) (hm : r.mask = some m) :
    (r.addr ≤ x ∧ x < r.addr + r.data.length ∧ m.getD (x - r.addr) false = true →
        readByte (r :: log) x = r.data.getD (x - r.addr) 0) ∧
    (¬ (r.addr ≤ x ∧ x < r.addr + r.data.length ∧ m.getD (x - r.addr) false = true) →
        readByte (r :: log) x = readByte log x) := by
  constructor
  · intro ⟨h1, h2, h3⟩
    rw [List.getD_eq_getElem?_getD] at h3
    simp [readByte, wrByte, hk, hm, h1, h2, h3]
  · intro h
    simp only [readByte, wrByte, hk, hm, true_and]
    by_cases hc : r.addr ≤ x ∧ x < r.addr + r.data.length
    · have : m.getD (x - r.addr) false = false := by
        cases hb : m.getD (x - r.addr) false with
        | false => rfl
        | true => exact absurd ⟨hc.1, hc.2, hb⟩ h
      rw [List.getD_eq_getElem?_getD] at this
      simp [hc, this]
    · simp [hc]

/-- non-vacuity: writing `[aa,bb,cc]` at 0x10 with mask 1-0-1 over `[11,22,33]` gives `aa,22,cc` and leaves 0x13 alone -/
example : readRange [⟨1, .wr, 0x10, 3, [0xaa, 0xbb, 0xcc], some [true, false, true]⟩,
                     ⟨0, .wr, 0x10, 4, [0x11, 0x22, 0x33, 0x44], none⟩] 0x10 4 = [0xaa, 0x22, 0xcc, 0x44] := by decide

/-- **Every byte of a request is served by the bank chosen from its start address** when the request lies
inside one interleave block (true for cache-line requests, interleave ≥ 64 B), for every bank count and
interleave: all requests touching a byte meet in one bank. With a `BankAddressConverter` installed (MI300A) this needs
`ConvOk`: its interleaving size and offset are multiples of the interleave block (`True` when none is installed). -/
theorem footprint_one_bank (c : Cfg) (hc : ConvOk c) (r : Req) (x : Nat) (hf : fits c r) (ht : touches x r = true) :
    bankOf c r.addr = bankOf c x := bank_of_touch c hc r x hf ht

/-- **Same bank ⇒ arrival order** (hence same address ⇒ arrival order): with pipeline width 1, for every
configuration of banks, interleave, depth, stage latency, row size, row-miss delay and buffer sizes and every
sequence of deliveries, ticks and drains, the requests committed so far by bank `k` are, in commit order,
a prefix of the requests that arrived for bank `k` in arrival order. -/
theorem same_bank_same_address (c : Cfg) (hw : c.width = 1) (ops : List Op) (k : Nat) :
    ((run c ops).log.filter (inB c k)).reverse <+: (run c ops).arrived.filter (inB c k) :=
  ⟨_, (run_inv c hw ops).i k⟩

theorem nodup_of_filters {f : Req → Nat} : ∀ (l : List Req), (∀ k, (l.filter (fun r => f r == k)).Nodup) → l.Nodup := by
  intro l
  induction l with
  | nil => intro _; exact List.nodup_nil
  | cons a t ih =>
    intro h
    rw [List.nodup_cons]
    constructor
    · intro hm
      have := h (f a)
      simp only [List.filter_cons, beq_self_eq_true, if_true, List.nodup_cons] at this
      exact this.1 (List.mem_filter.2 ⟨hm, by simp⟩)
    · apply ih
      intro k
      have := h k
      simp only [List.filter_cons] at this
      split at this
      · exact (List.nodup_cons.1 this).2
      · exact this

/-- **One response each** (width 1, all other parameters and all op sequences): no request is answered
twice, only delivered requests are answered, and once nothing is in flight every delivered request has been
answered. (That in-flight work does drain is `liveness_bounded` in `Props/C17Live.lean`.) -/
theorem one_response_each (c : Cfg) (hw : c.width = 1) (ops : List Op) :
    ((run c ops).resp.map (·.req)).Nodup ∧
    (∀ rsp ∈ (run c ops).resp, rsp.req ∈ (run c ops).arrived) ∧
    ((∀ k, chain c (run c ops) k = []) → ∀ r ∈ (run c ops).arrived, r ∈ (run c ops).resp.map (·.req)) := by
  have h := run_inv c hw ops
  generalize run c ops = s at h
  have hnd := arrived_nodup c s h
  refine ⟨?_, ?_, ?_⟩
  · apply nodup_of_filters (f := fun r => bankOf c r.addr)
    intro k
    have hr := h.r k
    have : (s.arrived.filter (inB c k)).Nodup := hnd.filter _
    rw [← hr, List.nodup_append] at this
    exact this.1
  · intro rsp hrsp
    have hr := h.r (bankOf c rsp.req.addr)
    have : rsp.req ∈ s.arrived.filter (inB c (bankOf c rsp.req.addr)) := by
      rw [← hr]
      apply List.mem_append_left
      exact List.mem_filter.2 ⟨List.mem_map.2 ⟨rsp, hrsp, rfl⟩, by simp [inB]⟩
    exact (List.mem_filter.1 this).1
  · intro hempty r hr
    have hrk := h.r (bankOf c r.addr)
    unfold R at hrk
    rw [hempty] at hrk
    have : r ∈ s.arrived.filter (inB c (bankOf c r.addr)) := List.mem_filter.2 ⟨hr, by simp [inB]⟩
    rw [← hrk] at this
    simp only [List.map_nil, List.append_nil] at this
    exact (List.mem_filter.1 this).1

/-- the data a read is answered with is what the storage holds on its footprint when it is committed
(`finalizeRead`: `Storage.Read` on first visit) -/
theorem read_commits_storage (it : Item) (log : List Req) (hc : it.committed = false) (hk : it.req.kind = .rd) :
    commit it log = some ({ it with committed := true, rdata := readRange log it.req.addr it.req.len }, it.req :: log) := by
  simp [commit, hc, hk]

/-- **Memory semantics at every commit point** for configuration `c`: in every reachable state, for every bank,
the request `r` that commits next (the oldest uncommitted one of the bank's chain — the only place where
`finalizeRead/Write` touch the storage) finds on every byte of its footprint exactly the contents of a flat
byte array to which the requests that **arrived before `r`** were applied in arrival order (zero if none). -/
def MemSemantics (c : Cfg) : Prop :=
  ∀ ops : List Op, (∀ op ∈ ops, opFits c op) →
    ∀ (k : Nat) (r : Req) (rest : List Req), unc (chain c (run c ops) k) = r :: rest →
      ∀ x, touches x r = true →
        readByte (run c ops).log x = readByte ((run c ops).arrived.take r.id).reverse x

/-- the full statement on the FIRST model (`run`): memory semantics regardless of every parameter, including the pipeline
width. For width > 1 the first model is the component *before* the in-order repair of `finalizeSingle` (it takes whatever
stands at the head of the post-pipeline buffer); the same statement about the repaired code is
`mem_semantics_all_widths` in `Props/C17W.lean` — a theorem. -/
def mem_semantics_full : Prop := ∀ c : Cfg, 0 < c.banks → 0 < c.width → 0 < c.depth → ConvOk c → MemSemantics c

/-- **Partial (all that holds of the code):** pipeline width 1 — every other parameter free (banks, interleave,
depth, stage latency, row size and row-miss delay on or off, buffer sizes), every op sequence whose requests
lie inside one interleave block; a bank address converter, if installed, must keep interleave blocks together
(`ConvOk`, `True` without converter). With the row-buffer repair this includes the shipped MI300A setting
(`mi300aConv` below: 16 banks, 64-byte blocks, row 2 KiB, miss delay 52, converter 128 B × 16 elements). -/
theorem mem_semantics_partial (c : Cfg) (hw : c.width = 1) (hc : ConvOk c) : MemSemantics c := by
  intro ops hops k r rest hh x ht
  exact head_sees_flat c hc (run c ops) (run_inv c hw ops) (run_fits c ops hops) k r rest hh x ht

def w2 : Cfg := ⟨1, 6, 2, 1, 1, 0, 0, 1, 1, none, none⟩
/-- two writes `aa`, `bb` to 0x80 then a read of 0x80, behind two other writes, responses not drained for a while -/
def w2ops : List Op := [.deliver .wr 0 1 [0x11] none, .tick, .tick, .deliver .wr 0x40 1 [0x22] none, .tick,
  .deliver .wr 0x80 1 [0xaa] none, .tick, .deliver .wr 0x80 1 [0xbb] none, .tick, .tick, .tick, .tick,
  .deliver .rd 0x80 1 [] none, .tick, .out 8, .tick, .out 8, .tick]

/-- **Why the repair was needed — refuted for width > 1 before it** (Akita `pipelining.Pipeline` drains lane 0 before
lane 1 when the post-pipeline buffer frees one slot): 1 bank, width 2, depth 1 — the read of 0x80 (request 4) is about to
commit while the earlier write `bb` (request 3) waits in lane 1; the storage holds `aa`, flat memory in arrival order
`bb`. The same scenario runs on the real (repaired) component in every check and now answers `bb`
(`width2_witness_repaired` in `Props/C17W.lean` shows both models side by side). -/
theorem mem_semantics_full_refuted : ¬ mem_semantics_full := by
  intro h
  have h1 := h w2 (by decide) (by decide) (by decide) (by decide) w2ops (by decide) 0
    ⟨4, .rd, 0x80, 1, [], none⟩ [⟨3, .wr, 0x80, 1, [0xbb], none⟩] (by decide +kernel) 0x80 (by decide)
  revert h1
  decide +kernel

def mi300a : Cfg := ⟨16, 6, 1, 5, 1, 11, 52, 128, 1024, none, none⟩
/-- **The reported MI300A witness after the repair**: write `[1,2,3,4]` to 0x40 (row miss, 52-cycle delay queue),
two ticks later read 0x40 (row hit) — the read is now answered after the write, with the written data. -/
theorem rowhit_no_longer_overtakes :
    ((run mi300a ([.deliver .wr 0x40 4 [1, 2, 3, 4] none, .tick, .tick, .deliver .rd 0x40 4 [] none]
        ++ List.replicate 62 .tick)).resp.map fun r => (r.req.id, r.data)) = [(0, []), (1, [1, 2, 3, 4])] := by
  decide +kernel

/-- non-vacuity of `mem_semantics_partial`: the MI300A configuration has width 1 and the scenario's requests fit -/
example : MemSemantics mi300a := mem_semantics_partial mi300a rfl trivial

/-- the shipped MI300A `DRAM[3]`: as `mi300a`, with the `BankAddressConverter` the platform installs
(`InterleavingConverter{128, 16, 3}`) -/
def mi300aConv : Cfg := ⟨16, 6, 1, 5, 1, 11, 52, 128, 1024, some ⟨128, 16, 3, 0⟩, none⟩
example : MemSemantics mi300aConv := mem_semantics_partial mi300aConv rfl (by decide)

end C17
