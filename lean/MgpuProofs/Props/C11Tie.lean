import MgpuModel.C11
import MgpuModel.Gen.C11Copy
/-! # C11 — tie between the hand-written copy models and the Go sources

`translate/c11.go` regenerates `MgpuModel/Gen/C11Copy.lean` from the Go sources on every run of the
check: constants of the builders, `memRangeOverlap` translated statement by statement, comparison
operators and literals, stage orders, the piece arithmetic of the split loops, and a hash of every
function the models transcribe by hand. The obligations below say that the models `C11.Dma`,
`C11.Cp`, `C11.Mq`, `C11.pieces`, `C11.splitBy`, `C11.memRangeOverlap` use exactly these; a change of
the Go code changes the generated file and breaks the obligation named in the doc comment (or the
translator refuses the new shape), instead of showing up only in the sampled correspondence.
-/
namespace C11
open Gen.C11Copy

/-! ## constants -/

/-- **The DMA model's defaults are `NewDMAEngine`'s values.** Breaks when `dma.Log2AccessSize = 6`,
    `dma.maxRequestCount = 4` or the `64, 64` of `sim.NewPort(dma, 64, 64, name+".ToMem")` change
    (`memCap` bounds the outgoing buffer in `Dma.sendMem` and the incoming one in `dmaOp`'s `r`). -/
theorem tie_dma_defaults :
    ({} : Dma).log2 = log2AccessSize ∧ ({} : Dma).maxReq = maxRequestCount ∧
    ({} : Dma).memCap = dmaToMemOutBuf ∧ ({} : Dma).memCap = dmaToMemInBuf :=
  ⟨rfl, rfl, rfl, rfl⟩

/-- **`Dma.sendCP` never meets a full buffer** ("ToCP buffer is huge"): the model leaves the capacity
    of `dma.ToCP` out, which is right for fewer than `dmaToCPOutBuf` answers waiting in the port.
    Breaks when `sim.NewPort(dma, 40960000, 40960000, name+".ToCP")` gets a buffer smaller than the
    40960000 entries the model's simplification was justified with. -/
theorem tie_dma_toCP_huge :
    40960000 ≤ dmaToCPOutBuf ∧ 40960000 ≤ dmaToCPInBuf ∧
    ∀ (s : Dma) r rest, s.toCP = r :: rest → s.sendCP.2 = true := by
  refine ⟨by decide, by decide, ?_⟩
  intro s r rest h
  simp [Dma.sendCP, h]

/-- **The command processor model's default capacities are `cp.Builder.createPorts`' values**:
    `capDrv` / `capDma` / `capCache` are the outgoing buffers of ToDriver / ToDMA / ToCaches, `capIn`
    is the incoming buffer of all three. Breaks when one of the `4096` changes. -/
theorem tie_cp_defaults :
    ({} : Cp).capDrv = cpToDriverOutBuf ∧ ({} : Cp).capDma = cpToDMAOutBuf ∧
    ({} : Cp).capCache = cpToCachesOutBuf ∧ ({} : Cp).capIn = cpToDriverInBuf ∧
    ({} : Cp).capIn = cpToDMAInBuf ∧ ({} : Cp).capIn = cpToCachesInBuf :=
  ⟨rfl, rfl, rfl, rfl, rfl, rfl⟩

/-- **`Mq.sendToGPUs` sends exactly while the GPU port's outgoing buffer has room.** Breaks when the
    `40960000` of `driver.gpuPort = sim.NewPort(driver, 40960000, 40960000, …)` changes. -/
theorem tie_mq_gpu_port (s : Mq) (r : MqReq) (rest : List MqReq) (h : s.toSend = r :: rest) :
    s.sendToGPUs.2 = decide (s.portOut.length < gpuPortOutBuf) := by
  by_cases hl : s.portOut.length < 40960000 <;> simp [Mq.sendToGPUs, h, hl, gpuPortOutBuf]

/-- **`numCacheACK` wraps like the Go counter**: `Cp.cacheRsp` on `numAck = 0` stores
    `2 ^ numCacheACKBits - 1`. Breaks when the field's type `uint64` changes. -/
theorem tie_numAck_wrap (s : Cp) (x : Nat) (rest : List Nat) (hf : s.fault = none)
    (hc : s.cacheIn = x :: rest) (h0 : s.numAck = 0) :
    s.cacheRsp.1.numAck = 2 ^ numCacheACKBits - 1 := by
  simp [Cp.cacheRsp, hf, hc, h0, numCacheACKBits]

/-! ## `memRangeOverlap` -/

/-- **`C11.memRangeOverlap` is the Go function**, translated statement by statement. Breaks when an
    operator (`<=`, `>`, `<`, `>=`), an operand or the `&&` / fall-through structure of
    `driver.memRangeOverlap` changes. -/
theorem tie_memRangeOverlap (a b c d : Nat) :
    C11.memRangeOverlap a b c d = Gen.C11Copy.memRangeOverlap a b c d := by
  unfold C11.memRangeOverlap Gen.C11Copy.memRangeOverlap
  cases decide (a ≤ c) <;> cases decide (b > c) <;> cases decide (a < d) <;> cases decide (b ≥ d) <;> rfl

example : Gen.C11Copy.memRangeOverlap 0 10 10 20 = false ∧ Gen.C11Copy.memRangeOverlap 0 11 10 20 = true ∧
    Gen.C11Copy.memRangeOverlap 12 14 10 20 = false := by decide

/-- `needFlushing` therefore tests the generated function -/
theorem tie_needFlushing (bufs : List Buf) (addr len : Nat) :
    needFlushing bufs addr len =
      bufs.any fun b => Gen.C11Copy.memRangeOverlap b.start (b.start + b.size) addr (addr + len) && b.dirty := by
  simp [needFlushing, tie_memRangeOverlap]

/-! ## piece arithmetic -/

/-- **One round of `C11.pieces` is one round of the Go loop** (`processMemCopyH2D/D2HCommand` of the
    default and the global-storage middleware; the translator checks that the four loops are
    identical): the loop runs while `drvContinue`, the piece is `(drvPAddr, offset, drvSizeToCopy)` for
    the page found at `addr`, the loop variables continue as `drvNext`. Breaks when
    `pAddr := page.PAddr + (addr - page.VAddr)`, `sizeLeftInPage := page.PageSize - (addr - page.VAddr)`,
    the `if sizeLeft < sizeLeftInPage` clamp, the loop condition or one of the `+=` / `-=` changes. -/
theorem tie_pieces_step (pt : List Page) (fuel addr off left : Nat) :
    pieces pt (fuel + 1) addr off left =
      if drvContinue left = false then some [] else
      match findPage pt addr with
      | none => none
      | some p =>
        let n := drvSizeToCopy p.size p.vaddr addr left
        let nx := drvNext addr off left n
        if n = 0 then none else
        match pieces pt fuel nx.1 nx.2.1 nx.2.2 with
        | none => none
        | some r => some ((drvPAddr p.paddr p.vaddr addr, off, n) :: r) := by
  by_cases hl : left = 0
  · simp [pieces, hl, drvContinue]
  · have hc : ¬ (drvContinue left = false) := by simp [drvContinue]; omega
    rw [if_neg hc]
    cases hp : findPage pt addr with
    | none => simp [pieces, hl, hp]
    | some p =>
      simp only [pieces, hl, hp, if_false, drvSizeToCopy, drvNext, drvPAddr]
      rfl

/-- the head piece, as the task states it -/
theorem tie_pieces_head (pt : List Page) (fuel addr off left : Nat) (p : Page) (x : Nat × Nat × Nat)
    (r : List (Nat × Nat × Nat)) (hp : findPage pt addr = some p)
    (h : pieces pt (fuel + 1) addr off left = some (x :: r)) :
    x = (drvPAddr p.paddr p.vaddr addr, off, drvSizeToCopy p.size p.vaddr addr left) := by
  rw [tie_pieces_step] at h
  split at h
  · cases h
  · simp only [hp] at h
    split at h
    · cases h
    · split at h
      · cases h
      · simp only [Option.some.injEq, List.cons.injEq] at h
        exact h.1.symm

example : drvPAddr 0x1000 0x4000 0x4010 = 0x1010 ∧ drvSizeToCopy 4096 0x4000 0x4010 10000 = 4080 ∧
    drvSizeToCopy 4096 0x4000 0x4010 7 = 7 ∧ drvNext 0x4010 0 10000 4080 = (0x5000, 4080, 5920) := by decide

theorem tie_aux_mask_low (k addr : Nat) : addr - addr / 2 ^ k * 2 ^ k = addr % 2 ^ k := by
  have h := Nat.div_add_mod addr (2 ^ k)
  rw [Nat.mul_comm] at h
  omega

/-- `dmaLength` is the length of `splitBy`'s head piece -/
theorem tie_dmaLength (k addr len : Nat) : dmaLength k addr len = min len (2 ^ k - addr % 2 ^ k) := by
  simp only [dmaLength, tie_aux_mask_low]
  split <;> omega

/-- **One round of `splitBy (2^k)` is one round of `DMAEngine.parseMemCopyH2D/D2H`** (the translator
    checks that the two loops are identical): the sub-request is `(addr, dmaLength k addr len)` and the
    loop continues as `dmaNext`. Breaks when `addr & (^uint64(0) << Log2AccessSize)`,
    `(1 << Log2AccessSize) - unitOffset`, the `if lengthInUnit < length` clamp, the loop condition or
    one of the `+=` / `-=` changes. -/
theorem tie_splitBy_step (k addr off len : Nat) (h : dmaContinue len = true) :
    splitBy (2 ^ k) (Nat.pow_pos (by decide)) addr len =
      (addr, dmaLength k addr len) ::
        splitBy (2 ^ k) (Nat.pow_pos (by decide)) (dmaNext addr off len (dmaLength k addr len)).1
          (dmaNext addr off len (dmaLength k addr len)).2.2 := by
  have hl : len ≠ 0 := by simp [dmaContinue] at h; omega
  rw [splitBy]
  simp only [hl, dite_false, dmaNext, tie_dmaLength]

/-- the loop stops exactly when `splitBy` returns no piece -/
theorem tie_splitBy_stop (k addr len : Nat) (h : dmaContinue len = false) :
    splitBy (2 ^ k) (Nat.pow_pos (by decide)) addr len = [] := by
  have hl : len = 0 := by simp [dmaContinue] at h; omega
  rw [splitBy]; simp [hl]

/-- `Dma.parseFromCP` cuts with this unit: the sub-requests of a copy are `splitBy (2 ^ log2)` -/
example : dmaLength 6 100 1000 = 28 ∧ dmaLength 6 128 1000 = 64 ∧ dmaLength 6 130 5 = 5 ∧
    dmaNext 100 0 1000 28 = (128, 28, 972) := by decide

/-- **The emulator's storage accessor cuts at the same places**: `storageAccessorImpl.Read/Write`
    (identical up to `sizeToRead` / `sizeToWrite`, checked by the translator) compute the piece length
    as `((a >> k) + 1) << k - a`, clamped by `sizeLeft`: the same value as `dmaLength` / the head of
    `splitBy (2^k)` at `a = vAddr + offset`. Breaks when that arithmetic changes. -/
theorem tie_accSize (k v off left : Nat) :
    accSize k v off left = min left (2 ^ k - (v + off) % 2 ^ k) := by
  simp only [accSize]
  have h := Nat.div_add_mod (v + off) (2 ^ k)
  have hm := Nat.mod_lt (v + off) (Nat.pow_pos (n := k) (by decide : 0 < 2))
  rw [Nat.mul_comm] at h
  rw [Nat.add_mul, Nat.one_mul]
  split <;> omega

/-- for a page of `2^k` bytes aligned at `2^k` that holds `vAddr + offset`, the accessor's piece is the
    one `C11.pieces` computes (model `accStep` runs `pieces` under the table current at the access) -/
theorem tie_acc_is_pieces_round (k v off left : Nat) (p : Page) (hs : p.size = 2 ^ k)
    (hv : p.vaddr = (v + off) / 2 ^ k * 2 ^ k) :
    accSize k v off left = drvSizeToCopy p.size p.vaddr (accVAddr v off) left ∧
    accPAddr p.paddr p.vaddr v off = drvPAddr p.paddr p.vaddr (accVAddr v off) := by
  refine ⟨?_, rfl⟩
  rw [tie_accSize]
  simp only [drvSizeToCopy, accVAddr, hs, hv, tie_aux_mask_low]
  split <;> omega

/-! ## comparison operators -/

/-- the Go comparison named by a generated operator string -/
def goCmp (op : String) (a b : Int) : Bool :=
  if op = "<" then decide (a < b) else if op = "<=" then decide (a ≤ b) else
  if op = ">" then decide (a > b) else if op = ">=" then decide (a ≥ b) else
  if op = "==" then decide (a = b) else if op = "!=" then decide (a ≠ b) else false

/-- **The operators and literals are the ones the models use.** Breaks when a comparison of the delay
    line (`cyclesLeft > 0`, `== 0`, idle value `-1`), of `parseFromCP` (`>= maxRequestCount`), of
    `processFlushReq` / `processMemCopyReq` (`numCacheACK > 0`, `== 0`), of `processCacheFlushRsp`
    (`numCacheACK == 1`, `== 0`), of `completeCommandIfDone` (`len(reqs) != 0`) or of `isFinished`
    (`== 0`) changes, or when a conjunct is added to / removed from one of the guards. -/
theorem tie_operators :
    delayCountdownOp = ">" ∧ delayReleaseOp = "==" ∧ delayIdleValue = -1 ∧ cyclesLeftType = "int" ∧
    drvDoneOp = "!=" ∧ dmaFullOp = ">=" ∧ dmaFinishedOp = "==" ∧
    cpFlushBusyOp = ">" ∧ cpFlushNoCacheOp = "==" ∧ cpCopyBusyOp = ">" ∧
    ctrlLastAckOp = "==" ∧ ctrlAllAckedOp = "==" ∧
    cpFlushGuard = ["m.numCacheACK > 0"] ∧ cpCopyGuard = ["m.numCacheACK > 0"] ∧
    cpCopyRspGuard = ["!m.ToDriver.CanSend()"] ∧
    ctrlLastAckGuard = ["m.numCacheACK == 1", "!m.shootDownInProcess", "!m.ToDriver.CanSend()"] := by
  refine ⟨rfl, rfl, rfl, rfl, rfl, rfl, rfl, rfl, rfl, rfl, rfl, rfl, rfl, rfl, rfl, rfl⟩

/-- **The three users of `numCacheACK` wait for each other exactly as `MgpuModel/C11CpShare.lean` says**
    (`CpS.handle` / `Cp.handle`, `CpS.launch`, `CpS.hShoot`, `CpS.cacheRsp`): the conditions under which
    each handler leaves its message in the port, in source order — `processFlushReq` waits for the counter
    and for `shootDownInProcess` (repair 0728adcb), `processShootdownCommand` for `shootDownInProcess` and the
    counter (same repair), `processMemCopyReq` for the counter and room in ToDMA, `processLaunchKernelReq`
    for a free dispatcher, the counter and — since the repair of finding `C11-cp-launch-in-shootdown` —
    for `shootDownInProcess` (`CpS.launch`; `cps_no_fault_full` is a theorem with this guard, and
    `cps_no_fault_full_before_fix_refuted` is the run that panics without it: removing the guard breaks
    this obligation). The `if`s of `invalidateL1CachesBeforeKernel` and of
    `processCacheFlushRsp` (the order shootdown branch / invalidation branch / regular branch at 0). -/
theorem tie_counter_users :
    cpFlushWaits = ["m.numCacheACK > 0", "m.shootDownInProcess"] ∧
    cpCopyWaits = ["m.numCacheACK > 0", "!m.ToDMA.CanSend()"] ∧
    cpLaunchWaits = ["d == nil", "m.numCacheACK > 0", "m.shootDownInProcess"] ∧
    ctrlShootdownWaits = ["m.shootDownInProcess", "m.numCacheACK > 0"] ∧
    cpInvalidateIfs = ["m.l1InvalidatedFor == req", "d.IsDispatching()", "m.numCacheACK == 0"] ∧
    ctrlCacheRspIfs = ["m.numCacheACK == 1 && !m.shootDownInProcess && !m.ToDriver.CanSend()", "m.numCacheACK == 0",
      "m.shootDownInProcess", "m.l1InvalidatedFor != nil"] := by
  refine ⟨rfl, rfl, rfl, rfl, rfl, rfl⟩

/-- the model's launch takes the same decisions in the same order: no free dispatcher → wait; counter
    above 0 → wait; shootdown in process → wait (nothing is sent to the caches); otherwise the request is
    handled (here: second handling after the invalidation). `CpS.launchOld` (the code before the repair)
    issued the invalidation into the shootdown's counter. -/
example : (({ nDisp := 1, busy := 1 } : CpS).launch 0 []).2 = false ∧
    (({ c := { numAck := 1 } } : CpS).launch 0 []).2 = false ∧
    (({ l1Inv := some 0 } : CpS).launch 0 []).1.started = 1 ∧
    (({ shoot := true, nS := 1 } : CpS).launch 0 []).2 = false ∧
    (({ shoot := true, nS := 1 } : CpS).launch 0 []).1.c.numAck = 0 ∧
    (({ shoot := true, nS := 1 } : CpS).launchOld 0 []).1.c.numAck = 1 := by decide +kernel

/-- **`Mq.delay` is the delay line of `defaultMemoryCopyMiddleware.Tick` with the generated
    operators and idle value.** -/
theorem tie_mq_delay (s : Mq) :
    s.delay =
      if goCmp delayCountdownOp s.cyclesLeft 0 then ({ s with cyclesLeft := s.cyclesLeft - 1 }, true)
      else if goCmp delayReleaseOp s.cyclesLeft 0 then
        ({ s with toSend := s.toSend ++ s.awaiting, awaiting := [], cyclesLeft := delayIdleValue }, true)
      else (s, false) := by
  simp [Mq.delay, goCmp, delayCountdownOp, delayReleaseOp, delayIdleValue]

/-- **`Dma.parseFromCP` refuses exactly when `len(processingReqs) >= maxRequestCount`** (generated
    operator), and otherwise takes the head of the port. -/
theorem tie_dma_full (s : Dma) :
    (goCmp dmaFullOp s.processing.length s.maxReq = true → s.parseFromCP = (s, false)) ∧
    (goCmp dmaFullOp s.processing.length s.maxReq = false → s.cpIn ≠ [] → s.parseFromCP.2 = true) := by
  constructor
  · intro h
    have : s.processing.length ≥ s.maxReq := by simpa [goCmp, dmaFullOp] using h
    simp [Dma.parseFromCP, this]
  · intro h hne
    have : ¬ s.processing.length ≥ s.maxReq := by simpa [goCmp, dmaFullOp] using h
    cases hc : s.cpIn with
    | nil => exact absurd hc hne
    | cons r rest => simp [Dma.parseFromCP, this, hc]

/-- **`Cp.handle` leaves a request in the driver port while cache acknowledgements are outstanding**
    (`numCacheACK > 0`, generated operator, for flushes and copies alike). -/
theorem tie_cp_busy (s : Cp) (h : goCmp cpFlushBusyOp s.numAck 0 = true ∨ goCmp cpCopyBusyOp s.numAck 0 = true) :
    s.handle = (s, false) := by
  have hn : s.numAck > 0 := by
    rcases h with h | h <;> simpa [goCmp, cpFlushBusyOp, cpCopyBusyOp] using h
  unfold Cp.handle
  by_cases hf : s.fault.isSome
  · simp [hf]
  · cases hd : s.drvIn with
    | nil => simp [hf]
    | cons m rest => simp [hf, hn]

/-- **`Cp.cacheRsp` keeps the last acknowledgement while ToDriver is full** (`numCacheACK == 1`,
    generated operator; the model has no TLB shootdown: `shootDownInProcess = false`). -/
theorem tie_cp_last_ack (s : Cp) (x : Nat) (rest : List Nat) (hf : s.fault = none) (hc : s.cacheIn = x :: rest)
    (h1 : goCmp ctrlLastAckOp s.numAck 1 = true) (hfull : ¬ s.drvOut.length < s.capDrv) :
    s.cacheRsp = (s, false) := by
  have : s.numAck = 1 := by
    simp [goCmp, ctrlLastAckOp] at h1
    omega
  simp [Cp.cacheRsp, hf, hc, this, hfull]

/-! ## stage order -/

/-- **The stage orders are the ones the models implement.**
    `Dma.tick` = `sendCP`, `sendMem`, `parseFromMem`, `parseFromCP`;
    `Cp.tick` = (dispatchers idle,) `processReqFromDriver` (a `Cp.pass` only when the driver port holds a
    message), `processRspFromInternal` (a `Cp.pass`); `Cp.pass` = `cpMiddleware.Tick` (`Handle` =
    `Cp.handle`, `HandleInternal` = `processRspFromDMAs` = `Cp.dmaRsp`) then `ctrlMiddleware.Tick`
    (of whose stages only `processRspFromCaches` = `Cp.cacheRsp` is on the copy path);
    `Mq.tick` = `sendToGPUs`, the middleware's `Tick` (`Mq.delay`, `Mq.response`), `processNewCommand`
    (`Mq.startAll`); `sendToMMU`, `sendMigrationReqToCP`, `processReturnReq`, `parseFromMMU` do not touch
    the copy state. Breaks when two stages are swapped, one is added or removed, or a guard moves. -/
theorem tie_stage_order :
    dmaTickStages = ["send ToCP", "send ToMem", "parseFromMem", "parseFromCP"] ∧
    cpTickStages = ["tickDispatchers", "processReqFromDriver", "processRspFromInternal"] ∧
    cpReqFromDriverStages = ["peek ToDriver", "stop if nil", "middleware.Tick", "ctrlMiddleware.Tick", "stop if no progress"] ∧
    cpRspFromInternalStages = ["middleware.Tick", "ctrlMiddleware.Tick"] ∧
    cpMwTickStages = ["Handle", "HandleInternal"] ∧
    cpMwHandleInternalStages = ["processRspFromDMAs"] ∧
    ctrlMwTickStages = ["Handle", "HandleInternal"] ∧
    ctrlMwHandleInternalStages = ["processRspFromRDMAs", "processRspFromCUs", "processRspFromATs",
      "processRspFromCaches", "processRspFromTLBs", "processRspFromPMC"] ∧
    driverTickStages = ["sendToGPUs", "sendToMMU", "sendMigrationReqToCP", "each middlewares: Tick",
      "processReturnReq", "processNewCommand", "parseFromMMU"] := by
  refine ⟨rfl, rfl, rfl, rfl, rfl, rfl, rfl, rfl, rfl⟩

/-- the model function a stage name of `DMAEngine.Tick` stands for -/
def dmaStage : String → Dma → Dma × Bool
  | "send ToCP" => Dma.sendCP
  | "send ToMem" => Dma.sendMem
  | "parseFromMem" => Dma.parseFromMem
  | "parseFromCP" => Dma.parseFromCP
  | _ => fun s => ({ s with fault := some "unknown stage" }, true)

/-- run stages in order, `madeProgress = stage() || madeProgress`; a panic (fault) ends the tick -/
def runStages {σ : Type} (faulty : σ → Bool) (stages : List (σ → σ × Bool)) (s : σ) : σ × Bool :=
  stages.foldl (fun (acc : σ × Bool) f =>
    if faulty acc.1 then acc else let r := f acc.1; (r.1, r.2 || acc.2)) (s, false)

theorem tie_aux_sendCP_fault (s : Dma) : s.sendCP.1.fault = s.fault := by
  unfold Dma.sendCP; split <;> rfl

theorem tie_aux_sendMem_fault (s : Dma) : s.sendMem.1.fault = s.fault := by
  unfold Dma.sendMem; split
  · rfl
  · split <;> rfl

theorem tie_aux_parseFromMem_fault (s : Dma) (h : s.fault = none)
    (hf : s.parseFromMem.1.fault.isSome = true) : s.parseFromMem.2 = true := by
  unfold Dma.parseFromMem at hf ⊢
  split
  · rename_i he; simp [he, h] at hf
  · simp only []
    split
    · rfl
    · split
      · rfl
      · split <;> rfl

/-- **`Dma.tick` runs the generated stage list in the generated order** (a panic of `parseFromMem`
    ends the tick). Breaks when two stages of `DMAEngine.Tick` are swapped. -/
theorem tie_dma_tick_runs_stages (s : Dma) (h : s.fault = none) :
    s.tick = runStages (fun s => s.fault.isSome) (dmaTickStages.map dmaStage) s := by
  have h1 : s.sendCP.1.fault = none := by rw [tie_aux_sendCP_fault]; exact h
  have h2 : s.sendCP.1.sendMem.1.fault = none := by rw [tie_aux_sendMem_fault]; exact h1
  simp only [Dma.tick, runStages, dmaTickStages, List.map, dmaStage, List.foldl, h, h1, h2,
    Option.isSome_none, Bool.false_eq_true, if_false, Bool.or_false]
  by_cases h3 : s.sendCP.1.sendMem.1.parseFromMem.1.fault.isSome = true
  · have h4 := tie_aux_parseFromMem_fault _ h2 h3
    simp [h3, h4]
  · simp only [h3]
    cases s.sendCP.2 <;> cases s.sendCP.1.sendMem.2 <;> cases s.sendCP.1.sendMem.1.parseFromMem.2 <;>
      cases s.sendCP.1.sendMem.1.parseFromMem.1.parseFromCP.2 <;> rfl

/-- stages of `cpMiddleware.HandleInternal` -/
def cpMwInternalStage : String → Cp → Cp × Bool
  | "processRspFromDMAs" => Cp.dmaRsp
  | _ => fun s => ({ s with fault := some "unknown stage" }, true)

/-- stages of `cpMiddleware.Tick` -/
def cpMwStage : String → Cp → Cp × Bool
  | "Handle" => Cp.handle
  | "HandleInternal" => runStages (fun _ => false) (cpMwHandleInternalStages.map cpMwInternalStage)
  | _ => fun s => ({ s with fault := some "unknown stage" }, true)

/-- stages of `ctrlMiddleware.HandleInternal`: only the cache port carries messages of the copy / flush
    path -/
def ctrlMwInternalStage : String → Cp → Cp × Bool
  | "processRspFromCaches" => Cp.cacheRsp
  | "processRspFromRDMAs" | "processRspFromCUs" | "processRspFromATs" | "processRspFromTLBs"
  | "processRspFromPMC" => fun s => (s, false)
  | _ => fun s => ({ s with fault := some "unknown stage" }, true)

/-- stages of `ctrlMiddleware.Tick`: its `Handle` takes none of the driver's copy / flush requests -/
def ctrlMwStage : String → Cp → Cp × Bool
  | "Handle" => fun s => (s, false)
  | "HandleInternal" => runStages (fun _ => false) (ctrlMwHandleInternalStages.map ctrlMwInternalStage)
  | _ => fun s => ({ s with fault := some "unknown stage" }, true)

/-- stages of `CommandProcessor.processRspFromInternal` -/
def cpPassStage : String → Cp → Cp × Bool
  | "middleware.Tick" => runStages (fun _ => false) (cpMwTickStages.map cpMwStage)
  | "ctrlMiddleware.Tick" => runStages (fun _ => false) (ctrlMwTickStages.map ctrlMwStage)
  | _ => fun s => ({ s with fault := some "unknown stage" }, true)

/-- **`Cp.pass` runs the generated stage lists of `processRspFromInternal`, `cpMiddleware.Tick`,
    `cpMiddleware.HandleInternal`, `ctrlMiddleware.Tick`, `ctrlMiddleware.HandleInternal` in the
    generated order** (every stage is evaluated: `madeProgress = stage() || madeProgress`). Breaks when
    stages of one of these five functions are swapped, added or removed. -/
theorem tie_cp_pass_runs_stages (s : Cp) :
    s.pass = runStages (fun _ => false) (cpRspFromInternalStages.map cpPassStage) s := by
  simp only [Cp.pass, runStages, cpRspFromInternalStages, cpMwTickStages, cpMwHandleInternalStages,
    ctrlMwTickStages, ctrlMwHandleInternalStages, List.map, List.foldl, cpPassStage, cpMwStage,
    cpMwInternalStage, ctrlMwStage, ctrlMwInternalStage, Bool.false_eq_true, if_false, Bool.or_false,
    Bool.false_or]
  cases s.handle.2 <;> cases s.handle.1.dmaRsp.2 <;> cases s.handle.1.dmaRsp.1.cacheRsp.2 <;> rfl

/-- **`Cp.tick` is `processReqFromDriver` (a pass only when the driver port holds a message) followed by
    `processRspFromInternal` (a pass)**; `cpReqFromDriverStages` and `cpRspFromInternalStages` name the
    same two middleware ticks, so both passes are `tie_cp_pass_runs_stages`. -/
theorem tie_cp_tick_passes (s : Cp) (h : s.fault = none) :
    cpReqFromDriverStages.filter (fun x => cpRspFromInternalStages.contains x) = cpRspFromInternalStages ∧
    s.tick = (let a := if s.drvIn.isEmpty then (s, false) else s.pass
              let b := a.1.pass
              (b.1, a.2 || b.2)) := by
  refine ⟨by decide, ?_⟩
  simp [Cp.tick, h]

/-- `defaultMemoryCopyMiddleware.Tick`: the delay line, then one answer from the GPU port whose flag
    REPLACES the delay line's (`madeProgress = m.processGeneralRsp(req)`) -/
def mqMwTick (s : Mq) : Mq × Bool :=
  let b := s.delay
  let c := b.1.response
  (c.1, if b.1.portIn.isEmpty then b.2 else c.2)

/-- stages of `Driver.Tick`: the MMU / page-migration stages and `processReturnReq` (which takes no
    `sim.GeneralRsp`) do not touch the copy state -/
def mqStage : String → Mq → Mq × Bool
  | "sendToGPUs" => Mq.sendToGPUs
  | "each middlewares: Tick" => mqMwTick
  | "processNewCommand" => Mq.startAll
  | "sendToMMU" | "sendMigrationReqToCP" | "processReturnReq" | "parseFromMMU" => fun s => (s, false)
  | _ => fun s => ({ s with fault := some "unknown stage" }, true)

theorem tie_aux_sendToGPUs_fault (s : Mq) : s.sendToGPUs.1.fault = s.fault := by
  unfold Mq.sendToGPUs; split
  · rfl
  · split <;> rfl

theorem tie_aux_delay_fault (s : Mq) : s.delay.1.fault = s.fault := by
  unfold Mq.delay; split
  · rfl
  · split <;> rfl

theorem tie_aux_response_fault (s : Mq) (h : s.fault = none) (hf : s.response.1.fault.isSome = true) :
    s.portIn.isEmpty = false ∧ s.response.2 = true := by
  unfold Mq.response at hf ⊢
  split
  · rename_i he; simp [he, h] at hf
  · rename_i he
    refine ⟨by simp [he], ?_⟩
    split <;> rfl

/-- **`Mq.tick` runs the generated stage list of `Driver.Tick` in the generated order** (the "cannot
    find command" panic of the middleware ends the tick). Breaks when two stages of `Driver.Tick` are
    swapped, e.g. `processNewCommand` before the middlewares' `Tick`. -/
theorem tie_mq_tick_runs_stages (s : Mq) (h : s.fault = none) :
    s.tick = runStages (fun s => s.fault.isSome) (driverTickStages.map mqStage) s := by
  have h1 : s.sendToGPUs.1.fault = none := by rw [tie_aux_sendToGPUs_fault]; exact h
  have h2 : s.sendToGPUs.1.delay.1.fault = none := by rw [tie_aux_delay_fault]; exact h1
  simp only [Mq.tick, runStages, driverTickStages, List.map, mqStage, mqMwTick, List.foldl, h, h1,
    Option.isSome_none, Bool.false_eq_true, if_false, Bool.or_false, Bool.false_or]
  by_cases h3 : s.sendToGPUs.1.delay.1.response.1.fault.isSome = true
  · have h4 := tie_aux_response_fault _ h2 h3
    simp [h3, h4.1, h4.2]
  · have h3' : s.sendToGPUs.1.delay.1.response.1.fault = none := by
      cases hq : s.sendToGPUs.1.delay.1.response.1.fault with
      | none => rfl
      | some x => simp [hq] at h3
    simp [h3']
    generalize s.sendToGPUs.snd = a
    generalize (if s.sendToGPUs.fst.delay.fst.portIn = [] then s.sendToGPUs.fst.delay.snd
        else s.sendToGPUs.fst.delay.fst.response.snd) = m
    generalize s.sendToGPUs.fst.delay.fst.response.fst.startAll.snd = d
    cases a <;> cases m <;> cases d <;> rfl

/-! ## dispatch tables -/

/-- **The type switches of the copy path send every message type to the function the models
    transcribe.** Breaks when a case is added, removed, reordered or redirected. -/
theorem tie_dispatch :
    cpHandleDispatch = [("*protocol.LaunchKernelReq", "processLaunchKernelReq"), ("*protocol.FlushReq", "processFlushReq"),
      ("*protocol.MemCopyH2DReq, *protocol.MemCopyD2HReq", "processMemCopyReq")] ∧
    cpRspFromDMAsDispatch = [("*sim.GeneralRsp", "processMemCopyRsp")] ∧
    cpCloneDispatch = [("*protocol.MemCopyH2DReq", "cloneMemCopyH2DReq"), ("*protocol.MemCopyD2HReq", "cloneMemCopyD2HReq"),
      ("default", "panic")] ∧
    ctrlRspFromCachesDispatch = [("*cache.FlushRsp", "processCacheFlushRsp"), ("*cache.RestartRsp", "processCacheRestartRsp")] ∧
    drvProcessCommandDispatch = [("*MemCopyH2DCommand", "processMemCopyH2DCommand"), ("*MemCopyD2HCommand", "processMemCopyD2HCommand"),
      ("*FlushCommand", "processFlushCommand")] ∧
    drvTickDispatch = [("*sim.GeneralRsp", "processGeneralRsp")] ∧
    drvGeneralRspDispatch = [("*protocol.FlushReq", "processFlushReturn"), ("*protocol.MemCopyH2DReq", "processMemCopyH2DReturn"),
      ("*protocol.MemCopyD2HReq", "processMemCopyD2HReturn")] ∧
    dmaParseFromMemDispatch = [("*mem.DataReadyRsp", "processDataReadyRsp"), ("*mem.WriteDoneRsp", "processDoneRsp"),
      ("default", "log.Panicf")] ∧
    dmaParseFromCPDispatch = [("*protocol.MemCopyH2DReq", "parseMemCopyH2D"), ("*protocol.MemCopyD2HReq", "parseMemCopyD2H"),
      ("default", "log.Panicf")] := by
  refine ⟨rfl, rfl, rfl, rfl, rfl, rfl, rfl, rfl, rfl⟩

/-! ## the hand-transcribed functions -/

/-- the sources the models were transcribed from (hash of the normalised text per function) -/
def auditedFuncs : List (String × String × String) := [
  ("amd/driver/memorycopy.go", "defaultMemoryCopyMiddleware.ProcessCommand", "5514be0b431fe22b"),
  ("amd/driver/memorycopy.go", "defaultMemoryCopyMiddleware.processFlushCommand", "03fb7a49e87443a1"),
  ("amd/driver/memorycopy.go", "defaultMemoryCopyMiddleware.processMemCopyH2DCommand", "4980f75272546174"),
  ("amd/driver/memorycopy.go", "defaultMemoryCopyMiddleware.processMemCopyD2HCommand", "f3db5e9877ef20a8"),
  ("amd/driver/memorycopy.go", "defaultMemoryCopyMiddleware.needFlushing", "5b122ae963fb3740"),
  ("amd/driver/memorycopy.go", "memRangeOverlap", "8f3e30013d38096a"),
  ("amd/driver/memorycopy.go", "defaultMemoryCopyMiddleware.sendFlushRequest", "69e185a2c85881af"),
  ("amd/driver/memorycopy.go", "defaultMemoryCopyMiddleware.Tick", "c8565dae28d062f6"),
  ("amd/driver/memorycopy.go", "defaultMemoryCopyMiddleware.processGeneralRsp", "722c261e9bbecb3f"),
  ("amd/driver/memorycopy.go", "defaultMemoryCopyMiddleware.processMemCopyH2DReturn", "8f78969870b443f0"),
  ("amd/driver/memorycopy.go", "defaultMemoryCopyMiddleware.processMemCopyD2HReturn", "caaa76db7686137c"),
  ("amd/driver/memorycopy.go", "defaultMemoryCopyMiddleware.processFlushReturn", "627d0f97dfe9e993"),
  ("amd/driver/memorycopy.go", "defaultMemoryCopyMiddleware.completeCommandIfDone", "d9a5a859cade10ca"),
  ("amd/driver/memorycopyglobalstorage.go", "globalStorageMemoryCopyMiddleware.ProcessCommand", "97cdf7de7ac92c7d"),
  ("amd/driver/memorycopyglobalstorage.go", "globalStorageMemoryCopyMiddleware.processMemCopyH2DCommand", "453821c681614d7f"),
  ("amd/driver/memorycopyglobalstorage.go", "globalStorageMemoryCopyMiddleware.processMemCopyD2HCommand", "d8ea2922de01a544"),
  ("amd/driver/memorycopyglobalstorage.go", "globalStorageMemoryCopyMiddleware.Tick", "f674c8e84b97be31"),
  ("amd/driver/driver.go", "Driver.Tick", "fe109f76103078cc"),
  ("amd/driver/driver.go", "Driver.sendToGPUs", "0bba051d477dee3c"),
  ("amd/driver/driver.go", "Driver.processReturnReq", "088676d64edf15dc"),
  ("amd/driver/driver.go", "Driver.processNewCommand", "e9883b3bec9e380a"),
  ("amd/driver/driver.go", "Driver.processNewCommandFromContext", "da79c8582d1c1092"),
  ("amd/driver/driver.go", "Driver.processNewCommandFromCmdQueue", "c69199a5c345ca65"),
  ("amd/driver/driver.go", "Driver.processOneCommand", "63e514f6b0c0e353"),
  ("amd/driver/driver.go", "Driver.processCommandWithMiddleware", "e6e91db0d457ded0"),
  ("amd/driver/driver.go", "Driver.findCommandByReq", "551c0b4c05e96bff"),
  ("amd/timing/cp/dma.go", "RequestCollection.decrementCountIfExists", "ca1fa6e3ed39aa7e"),
  ("amd/timing/cp/dma.go", "RequestCollection.isFinished", "f0e88cff7f1f6fc6"),
  ("amd/timing/cp/dma.go", "RequestCollection.getSuperior", "eab1cedb900b91ee"),
  ("amd/timing/cp/dma.go", "RequestCollection.getSuperiorID", "91d34d216422e1a9"),
  ("amd/timing/cp/dma.go", "RequestCollection.appendSubordinateID", "7f1b9a1171f1fb84"),
  ("amd/timing/cp/dma.go", "NewRequestCollection", "1d50ba29f89d5e0f"),
  ("amd/timing/cp/dma.go", "DMAEngine.SetLocalDataSource", "153521d146079647"),
  ("amd/timing/cp/dma.go", "DMAEngine.Tick", "3d87525c7fbe04e7"),
  ("amd/timing/cp/dma.go", "DMAEngine.send", "725ef9d67ee04bdb"),
  ("amd/timing/cp/dma.go", "DMAEngine.parseFromMem", "2e5688c0f6256cd0"),
  ("amd/timing/cp/dma.go", "DMAEngine.processDataReadyRsp", "b0388b3b83593fac"),
  ("amd/timing/cp/dma.go", "DMAEngine.processDoneRsp", "c22b2f217bc6756a"),
  ("amd/timing/cp/dma.go", "DMAEngine.removeReqFromPendingReqList", "887c69b70aeeed15"),
  ("amd/timing/cp/dma.go", "DMAEngine.removeReqFromProcessingReqList", "05c501a332f9da18"),
  ("amd/timing/cp/dma.go", "DMAEngine.parseFromCP", "c14f083d32a9ab65"),
  ("amd/timing/cp/dma.go", "DMAEngine.parseMemCopyH2D", "2e52b47777ac3cc3"),
  ("amd/timing/cp/dma.go", "DMAEngine.parseMemCopyD2H", "3060384f9539a5a6"),
  ("amd/timing/cp/dma.go", "NewDMAEngine", "30de5b7aa26486a4"),
  ("amd/timing/cp/cpMiddleware.go", "cpMiddleware.Tick", "5a0e9762862ea762"),
  ("amd/timing/cp/cpMiddleware.go", "cpMiddleware.Handle", "0badff33281f7826"),
  ("amd/timing/cp/cpMiddleware.go", "cpMiddleware.HandleInternal", "388890465f9ee44a"),
  ("amd/timing/cp/cpMiddleware.go", "cpMiddleware.processRspFromDMAs", "13dc7bc746e76d52"),
  ("amd/timing/cp/cpMiddleware.go", "cpMiddleware.processMemCopyRsp", "ad2dcdb7bc6b987a"),
  ("amd/timing/cp/cpMiddleware.go", "cpMiddleware.findAndRemoveOriginalMemCopyRequest", "dc5d545ffcbd4a8e"),
  ("amd/timing/cp/cpMiddleware.go", "cpMiddleware.processFlushReq", "48192c5fa9ef0494"),
  ("amd/timing/cp/cpMiddleware.go", "cpMiddleware.processMemCopyReq", "7ec89f17794ac91e"),
  ("amd/timing/cp/cpMiddleware.go", "cpMiddleware.cloneMemCopyH2DReq", "50268e88b715f5e5"),
  ("amd/timing/cp/cpMiddleware.go", "cpMiddleware.cloneMemCopyD2HReq", "22265add106e7d90"),
  ("amd/timing/cp/cpMiddleware.go", "cpMiddleware.flushCache", "94d2848273686172"),
  ("amd/timing/cp/cpMiddleware.go", "cpMiddleware.processLaunchKernelReq", "a748c97d53d1e49f"),
  ("amd/timing/cp/cpMiddleware.go", "cpMiddleware.invalidateL1CachesBeforeKernel", "d2cb472ae428af26"),
  ("amd/timing/cp/cpMiddleware.go", "cpMiddleware.invalidateCache", "6e8074084a03027a"),
  ("amd/timing/cp/cpMiddleware.go", "cpMiddleware.findAvailableDispatcher", "c09094f13d3f2a53"),
  ("amd/timing/cp/ctrlMiddleware.go", "ctrlMiddleware.Tick", "09eb5fa80a12fa09"),
  ("amd/timing/cp/ctrlMiddleware.go", "ctrlMiddleware.HandleInternal", "e30134efaa2f657a"),
  ("amd/timing/cp/ctrlMiddleware.go", "ctrlMiddleware.processRspFromCaches", "88ce0195528bdcb9"),
  ("amd/timing/cp/ctrlMiddleware.go", "ctrlMiddleware.processCacheFlushRsp", "04233bd50f191615"),
  ("amd/timing/cp/ctrlMiddleware.go", "ctrlMiddleware.processRegularCacheFlush", "eeb6daf79c2768df"),
  ("amd/timing/cp/ctrlMiddleware.go", "ctrlMiddleware.processCacheFlushCausedByTLBShootdown", "7003d0a071bdedbc"),
  ("amd/timing/cp/ctrlMiddleware.go", "ctrlMiddleware.Handle", "a47e8210e75c5ae4"),
  ("amd/timing/cp/ctrlMiddleware.go", "ctrlMiddleware.processShootdownCommand", "13177b6d6bddb400"),
  ("amd/timing/cp/ctrlMiddleware.go", "ctrlMiddleware.processRspFromCUs", "aa7e745aa172e175"),
  ("amd/timing/cp/ctrlMiddleware.go", "ctrlMiddleware.processRspFromATs", "28f0f706e172bb7e"),
  ("amd/timing/cp/ctrlMiddleware.go", "ctrlMiddleware.processRspFromTLBs", "d779d3d6779f0553"),
  ("amd/timing/cp/ctrlMiddleware.go", "ctrlMiddleware.processCUPipelineFlushRsp", "b5a3f0f9d53204c5"),
  ("amd/timing/cp/ctrlMiddleware.go", "ctrlMiddleware.processAddressTranslatorFlushRsp", "d431322707837bac"),
  ("amd/timing/cp/ctrlMiddleware.go", "ctrlMiddleware.flushAndResetL1Cache", "5b5980a6c2464d76"),
  ("amd/timing/cp/ctrlMiddleware.go", "ctrlMiddleware.flushAndResetL2Cache", "44627ce4a1779f6a"),
  ("amd/timing/cp/ctrlMiddleware.go", "ctrlMiddleware.processTLBFlushRsp", "a2174faa01d6d5f7"),
  ("amd/timing/cp/commandprocessor.go", "CommandProcessor.Tick", "6dfacc5f1c2c26b8"),
  ("amd/timing/cp/commandprocessor.go", "CommandProcessor.tickDispatchers", "eaffc21b5315f18f"),
  ("amd/timing/cp/commandprocessor.go", "CommandProcessor.processReqFromDriver", "808f33c781009440"),
  ("amd/timing/cp/commandprocessor.go", "CommandProcessor.processRspFromInternal", "31b69b5854da5196"),
  ("amd/emu/storageaccessor.go", "storageAccessorImpl.Read", "9095ad706a6983d9"),
  ("amd/emu/storageaccessor.go", "storageAccessorImpl.Write", "aed60162ac39c745")]

/-- **The hand-transcribed functions are unchanged**: the source of every function that `C11.pieces`,
    `C11.needFlushing`, `C11.Dma`, `C11.Cp`, `C11.CpS`, `C11.Mq` and `C11.accStep` transcribe (all of
    `memorycopy.go`, `memorycopyglobalstorage.go`, `dma.go`; the copy path of `driver.go`,
    `cpMiddleware.go`, `ctrlMiddleware.go`, `commandprocessor.go` — since the third pass also the kernel-launch
    path `processLaunchKernelReq` / `invalidateL1CachesBeforeKernel` / `invalidateCache` and the shootdown
    path of `ctrlMiddleware.go` that `C11.CpS` transcribes; `storageaccessor.go`'s `Read` / `Write`) has the hash it had when the model was written. An edit of any of them (e.g. a statement
    added to `completeCommandIfDone`) breaks this obligation; `changedFuncs` names the function. The
    model has to be re-read against the new source before the hash is updated. -/
theorem tie_modelled_functions_unchanged : Gen.C11Copy.modelledFuncs = auditedFuncs := by decide

/-- the functions whose source differs from the audited one (empty on the audited tree) -/
def changedFuncs : List (String × String) :=
  (Gen.C11Copy.modelledFuncs.filter fun f => !auditedFuncs.contains f).map fun f => (f.1, f.2.1)

example : changedFuncs = [] := by decide

end C11
