import MgpuModel.C04
import MgpuProofs.C04
/-! # C04 — property theorems (decoding is total, deterministic, inverse to encoding)

The tables (`Gen.formats`, `Gen.rowsBefore/After`, copy loop, registers) are regenerated from
the Go sources on every run, so the `decide`-style obligations below are re-checked against
what the code says now. -/
namespace C04
open Gen

/-- **Independent decoder instances agree.** `initFormatList` sorts a randomly ordered map by
    non-increasing mask, which fixes the order only between different masks. For EVERY list that
    is a permutation of the format table sorted that way, and every word, format matching gives
    the same answer as the canonical instance. -/
theorem matchFormat_order_irrelevant (l : List Format) (hp : l.Perm formats) (hs : SortedDesc l)
    (w : Nat) : matchFormatIn l w = matchFormat w := by
  have hd : Distinct l := by
    intro a ha b hb
    exact formats_distinct a (hp.subset ha) b (hp.subset hb)
  have := firstCand_perm l formatList (hp.trans formatList_perm.symm) hs formatList_sorted hd w
  rw [matchFormat, matchFormatIn_eq, matchFormatIn_eq, this]

/-- non-vacuity: the source order reversed and re-sorted is another admissible order -/
example : (sortByMask formats.reverse).Perm formats ∧ SortedDesc (sortByMask formats.reverse)
    ∧ sortByMask formats.reverse ≠ formatList := by
  refine ⟨by decide, by unfold SortedDesc; decide, by decide⟩

/-- No two `addInstType` calls (including the VOP1→VOP3a copies) register the same
    (format, opcode): no row silently overwrites another. -/
theorem rows_keys_nodup : (allRows.map rkey).Nodup :=
  nodup_of_noDupBits _ (by decide +kernel)

theorem rows_opcode_bound : ∀ r ∈ allRows, r.opcode < 1024 := by
  have h : allRows.all (fun r => decide (r.opcode < 1024)) = true := by decide +kernel
  intro r hr
  simpa using List.all_eq_true.mp h r hr

/-- the canonical word of a row: its format's encoding with the opcode field filled in -/
def opcodeWord (f : Format) (op : Nat) : Nat := f.encoding + op * 2 ^ f.opLo

def rowMatches (r : Row) : Bool :=
  match formatOf r.ft with
  | none => false
  | some f =>
    let w := opcodeWord f r.opcode
    (matchFormat w).map (·.ft) == some r.ft && extractBits w f.opLo f.opHi == r.opcode

theorem rows_match : allRows.all rowMatches = true := by decide +kernel

/-- **Every table row is reachable**: the word carrying a row's format encoding and opcode is
    matched to that row's format (not shadowed by a more specific format, VOP3a/VOP3b split
    respected), the opcode field reads back, and the lookup returns exactly that row. A new row
    that collides with a more specific format, does not fit its opcode field, or re-registers an
    existing (format, opcode) breaks this obligation and the row is the witness. -/
theorem rows_reachable (r : Row) (hr : r ∈ allRows) :
    rowMatches r = true ∧ lookUp r.ft r.opcode = some r :=
  ⟨List.all_eq_true.mp rows_match r hr,
   lastRow_of_mem allRows rows_keys_nodup rows_opcode_bound r hr⟩

/-- non-vacuity: the table is not empty and contains copies made by the loop -/
example : 1000 < allRows.length ∧ 0 < copies.length := by decide +kernel

end C04
