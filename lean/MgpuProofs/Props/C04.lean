import MgpuModel.C04
import MgpuProofs.C04
import MgpuProofs.C04Bits
import MgpuProofs.C04Enc
import MgpuProofs.C04Enc8
import MgpuProofs.C04Arch
import MgpuProofs.C04Total
/-! # C04 — property theorems (decoding is total, deterministic, inverse to encoding)

The tables (`Gen.formats`, `Gen.rowsBefore/After`, copy loop, registers) are regenerated from
the Go sources on every run, so the `decide`-style obligations below are re-checked against
what the code says now. -/
namespace C04
open Gen

/-- **Independent decoder instances agree.** `initFormatList` sorts a randomly ordered map by
    non-increasing mask, which fixes the order only between different masks. For EVERY list that
    is a permutation of the format table sorted that way, and every word, format matching gives
    the same answer as the canonical instance. -/
theorem matchFormat_order_irrelevant (l : List Format) (hp : l.Perm formats) (hs : SortedDesc l)
    (w : Nat) : matchFormatIn l w = matchFormat w := by
  have hd : Distinct l := by
    intro a ha b hb
    exact formats_distinct a (hp.subset ha) b (hp.subset hb)
  have := firstCand_perm l formatList (hp.trans formatList_perm.symm) hs formatList_sorted hd w
  rw [matchFormat, matchFormatIn_eq, matchFormatIn_eq, this]

/-- non-vacuity: the source order reversed and re-sorted is another admissible order -/
example : (sortByMask formats.reverse).Perm formats ∧ SortedDesc (sortByMask formats.reverse)
    ∧ sortByMask formats.reverse ≠ formatList := by
  refine ⟨by decide, by unfold SortedDesc; decide, by decide⟩

/-- No two `addInstType` calls (including the VOP1→VOP3a copies) register the same
    (format, opcode): no row silently overwrites another. -/
theorem rows_keys_nodup : (allRows.map rkey).Nodup :=
  nodup_of_noDupBits _ (by decide +kernel)

theorem rows_opcode_bound : ∀ r ∈ allRows, r.opcode < 1024 := by
  have h : allRows.all (fun r => decide (r.opcode < 1024)) = true := by decide +kernel
  intro r hr
  simpa using List.all_eq_true.mp h r hr

def rowMatches (r : Row) : Bool :=
  match formatOf r.ft with
  | none => false
  | some f =>
    let w := opcodeWord f r.opcode
    (matchFormat w).map (·.ft) == some r.ft && extractBits w f.opLo f.opHi == r.opcode

theorem rows_match : allRows.all rowMatches = true := by decide +kernel

/-- **Every table row is reachable**: the word carrying a row's format encoding and opcode is
    matched to that row's format (not shadowed by a more specific format, VOP3a/VOP3b split
    respected), the opcode field reads back, and the lookup returns exactly that row. A new row
    that collides with a more specific format, does not fit its opcode field, or re-registers an
    existing (format, opcode) breaks this obligation and the row is the witness. -/
theorem rows_reachable (r : Row) (hr : r ∈ allRows) :
    rowMatches r = true ∧ lookUp r.ft r.opcode = some r :=
  ⟨List.all_eq_true.mp rows_match r hr,
   lastRow_of_mem allRows rows_keys_nodup rows_opcode_bound r hr⟩

/-- non-vacuity: the table is not empty and contains copies made by the loop -/
example : 1000 < allRows.length ∧ 0 < copies.length := by decide +kernel

/-- **Matching a format is a comparison of the top bits.** Every mask in the (regenerated) format
    table keeps the bits `k..31` for some `k` (`shiftOf`), so a 32-bit word is a candidate for a
    format exactly when it agrees with the format's encoding from bit `k` upwards — whatever the
    lower bits are. (General bit-level fact: `hit_iff_div`.) -/
theorem formats_hit_iff_div (f : Format) (hf : f ∈ formats) (w : Nat) (hw : w < 2 ^ 32) :
    (w ^^^ f.encoding) &&& f.mask = 0 ↔ w / 2 ^ shiftOf f = f.encoding / 2 ^ shiftOf f := by
  obtain ⟨hm, hk, he⟩ := formats_shaped f hf
  rw [hm]
  exact hit_iff_div w f.encoding _ hk hw he

/-- non-vacuity: the table's shifts are the expected ones (SOP1 23, VOP2 31, SMEM 26) -/
example : formats.map shiftOf = [23, 23, 23, 25, 25, 26, 26, 26, 26, 26, 26, 26, 26, 26, 26, 28, 30, 31] := by
  decide

/-- **Format matching reads only bits 16..31 of the first dword**: two 32-bit words that agree on
    their upper halves are matched to the same format (operand fields in the lower half can never
    redirect an instruction to another format; 16 is the VOP3 opcode field's low end). -/
theorem matchFormat_depends_on_top_bits (w w' : Nat) (hw : w < 2 ^ 32) (hw' : w' < 2 ^ 32)
    (h : w / 2 ^ 16 = w' / 2 ^ 16) : matchFormat w = matchFormat w' :=
  matchFormat_top16 w w' hw hw' h

/-- non-vacuity and sharpness: `v_add_f32 v0, v0, v0` vs. the same with other operands; and bit 16
    does matter (VOP3a opcode 280 vs. VOP3b opcode 281) -/
example : matchFormat 0x02000000 = matchFormat 0x0200ffff ∧
    matchFormat 0xD1180000 ≠ matchFormat 0xD1190000 := by decide

theorem rows_fill : allRows.all rowFill = true := by decide +kernel

/-- **Every table row is reachable under EVERY operand filling.** Take any row `r` of the decode
    table and ANY 32-bit word `w` that carries the encoding of `r`'s format under the format's mask
    and `r`'s opcode in the opcode field — all other bits (operands, modifiers, reserved bits)
    arbitrary. Then `w` is matched to `r`'s format (no more specific format shadows it; VOP3a/VOP3b
    split by the opcode list respected), and the table lookup with the opcode read from `w` returns
    exactly `r`. This lifts `rows_reachable` from the canonical word to all fillings. -/
theorem rows_reachable_all_fillings (r : Row) (hr : r ∈ allRows) :
    ∃ f, formatOf r.ft = some f ∧
      ∀ w, w < 2 ^ 32 → (w ^^^ f.encoding) &&& f.mask = 0 → extractBits w f.opLo f.opHi = r.opcode →
        matchFormat w = some f ∧ lookUp f.ft (extractBits w f.opLo f.opHi) = some r := by
  have hfill := List.all_eq_true.mp rows_fill r hr
  cases hf : formatOf r.ft with
  | none => simp [rowFill, hf] at hfill
  | some f =>
    refine ⟨f, rfl, ?_⟩
    intro w hw henc hop
    refine ⟨match_of_rowFill hfill hf hw (by simpa [hit] using henc) hop, ?_⟩
    rw [hop, (formatOf_mem hf).2]
    exact (rows_reachable r hr).2

/-- non-vacuity: `s_add_u32` with all operand bits set / clear, and a VOP3b row
    (`v_add_co_u32`-class opcode 281) with arbitrary low bits -/
example : matchFormat 0x807fffff = formatOf FT_SOP2 ∧ matchFormat 0x80000000 = formatOf FT_SOP2 ∧
    matchFormat 0xD119ABCD = formatOf FT_VOP3b := by decide

/-- **Encode/decode round trip** for EVERY format the decoder handles — SOP2, SOPK, SOP1, SOPC, SOPP, VOP2 (incl. the
    madmk/madak/fmamk/fmaak K forms and the SDWA second dword), VOP1, VOPC, SMEM, VOP3a (incl. the VOPC/VOP1 opcodes
    in VOP3 encoding and the packed-math OP_SEL rows 944–946), VOP3b (the opcodes of `isVOP3bOpcode`), DS and
    FLAT/GLOBAL/SCRATCH (SEG, SADDR, signed 13-bit offset) — with the field packing written out from the ISA manual
    in `encWord` / `hiWord` / `sdwaWord`, independent of the regenerated format table: every well-formed description
    (`wellFormed`: opcode in the decode table, every field within its width, every operand code denoting an operand,
    modifiers in range, a 32-bit literal present exactly when a source field says 255 or the opcode is a VOP2 "K" form)
    — since the two repairs of this round also `s_setreg_imm32_b32` with its SIMM32 and SDWA dwords with S0 set, the two
    classes `deviatesOld` that used to be excluded — encodes to bytes that decode, WHATEVER bytes follow and on both
    architectures, to exactly the instruction the description denotes on that architecture (`instOf c`: name and opcode
    of the row the architecture's table returns — for a CDNA3 disassembler `Gen.cdna3Rows` first —, each operand at its
    role with its register kind, index, code and count, the literal value, immediates, offsets, modifiers and flags,
    size = number of bytes encoded (`instOf_size`)). So the decoder's field extraction is the inverse of the ISA's
    packing, no format shadows another on any well-formed word, and the literal / second dword is found. -/
theorem decode_encode (c : Bool) (d : Desc) (hwf : wellFormed d = true) (t : List Nat) :
    decode c (encode d ++ t) = .ok (instOf c d) := by
  unfold wellFormed at hwf
  simp only [Bool.and_eq_true, beq_iff_eq] at hwf
  obtain ⟨⟨⟨hlk, hfo⟩, hl⟩, hlb⟩ := hwf
  cases hrow : lookUp d.ft d.op with
  | none => simp [hrow] at hlk
  | some row =>
    obtain ⟨hr, hrf, hro⟩ := lookUp_some hrow
    -- the row this architecture's table returns for the same (format, opcode)
    obtain ⟨row', hrow', hrf', hro'⟩ := lookUpArch_of_lookUp (c := c) hrow
    have hinst : instOf c d = instOfRowArch c d row' := by simp [instOf, hrow']
    rw [hinst]
    have hfill := List.all_eq_true.mp rows_fill row hr
    cases hf : formatOf row.ft with
    | none => simp [rowFill, hf] at hfill
    | some f =>
      have hfit := opcode_fits_of_rowFill hfill hf
      obtain ⟨hfm, hfft⟩ := formatOf_mem hf
      rw [hro] at hfit
      rw [hrf] at hfft
      have hsec := fun l => encSecond_lt hfo hlb (l := l)
      obtain ⟨f', hf', hall0⟩ := rows_reachable_all_fillings row hr
      rw [hf] at hf'
      have hff := Option.some.inj hf'
      subst hff
      have hall : ∀ w, w < 2 ^ 32 → (w ^^^ f.encoding) &&& f.mask = 0 → extractBits w f.opLo f.opHi = row'.opcode →
          matchFormat w = some f ∧ lookUpArch c f.ft (extractBits w f.opLo f.opHi) = some row' := by
        intro w hw henc hop
        refine ⟨(hall0 w hw henc (by rw [hop, hro', hro])).1, ?_⟩
        rw [hop, hro', hfft]
        exact hrow'
      have hnf : ∀ {ft}, d.ft = ft → ft ≠ FT_FLAT → instOfRowArch c d row' = instOfRow d row' := by
        intro ft h hne
        unfold instOfRowArch
        rw [if_neg]
        simp only [beq_iff_eq]
        rw [h]
        exact hne
      rcases fieldsOK_ft hfo with h | h | h | h | h | h | h | h | h | h | h | h | h
      · obtain ⟨a1, a2, a3, a4, a5⟩ := fmt_sop2 f hfm (hfft.trans h)
        rw [a2, a3] at hfit
        rw [hnf h (by decide)]
        refine roundtrip_of c d row' f hfm _ hall hsec ?_ t
        rw [a2, a3, a4, a5, hro']
        exact enc_sop2 c d row' f h (hfft.trans h) a1 hro' (by simpa using hfit) hfo hl
      · obtain ⟨a1, a2, a3, a4, a5⟩ := fmt_sopk f hfm (hfft.trans h)
        rw [a2, a3] at hfit
        rw [hnf h (by decide)]
        refine roundtrip_of c d row' f hfm _ hall hsec ?_ t
        rw [a2, a3, a4, a5, hro']
        exact enc_sopk c d row' f h (hfft.trans h) a1 hro' (by simpa using hfit) hfo hl
      · obtain ⟨a1, a2, a3, a4, a5⟩ := fmt_sop1 f hfm (hfft.trans h)
        rw [a2, a3] at hfit
        rw [hnf h (by decide)]
        refine roundtrip_of c d row' f hfm _ hall hsec ?_ t
        rw [a2, a3, a4, a5, hro']
        exact enc_sop1 c d row' f h (hfft.trans h) a1 hro' (by simpa using hfit) hfo hl
      · obtain ⟨a1, a2, a3, a4, a5⟩ := fmt_sopc f hfm (hfft.trans h)
        rw [a2, a3] at hfit
        rw [hnf h (by decide)]
        refine roundtrip_of c d row' f hfm _ hall hsec ?_ t
        rw [a2, a3, a4, a5, hro']
        exact enc_sopc c d row' f h (hfft.trans h) a1 hro' (by simpa using hfit) hfo hl
      · obtain ⟨a1, a2, a3, a4, a5⟩ := fmt_sopp f hfm (hfft.trans h)
        rw [a2, a3] at hfit
        rw [hnf h (by decide)]
        refine roundtrip_of c d row' f hfm _ hall hsec ?_ t
        rw [a2, a3, a4, a5, hro']
        exact enc_sopp c d row' f h (hfft.trans h) a1 hro' (by simpa using hfit) hfo hl
      · obtain ⟨a1, a2, a3, a4, a5⟩ := fmt_vop2 f hfm (hfft.trans h)
        rw [a2, a3] at hfit
        rw [hnf h (by decide)]
        refine roundtrip_of c d row' f hfm _ hall hsec ?_ t
        rw [a2, a3, a4, a5, hro']
        by_cases hs : d.sdwa = 1
        · exact enc_vop2_sdwa c d row' f h (hfft.trans h) a1 hro' (by simpa using hfit) hs hfo
        · exact enc_vop2 c d row' f h (hfft.trans h) a1 hro' (by simpa using hfit) (by simpa using hs) hfo hl
      · obtain ⟨a1, a2, a3, a4, a5⟩ := fmt_vop1 f hfm (hfft.trans h)
        rw [a2, a3] at hfit
        rw [hnf h (by decide)]
        refine roundtrip_of c d row' f hfm _ hall hsec ?_ t
        rw [a2, a3, a4, a5, hro']
        exact enc_vop1 c d row' f h (hfft.trans h) a1 hro' (by simpa using hfit) hfo hl
      · obtain ⟨a1, a2, a3, a4, a5⟩ := fmt_vopc f hfm (hfft.trans h)
        rw [a2, a3] at hfit
        rw [hnf h (by decide)]
        refine roundtrip_of c d row' f hfm _ hall hsec ?_ t
        rw [a2, a3, a4, a5, hro']
        exact enc_vopc c d row' f h (hfft.trans h) a1 hro' (by simpa using hfit) hfo hl
      · obtain ⟨a1, a2, a3, a4, a5⟩ := fmt_smem f hfm (hfft.trans h)
        rw [a2, a3] at hfit
        rw [hnf h (by decide)]
        refine roundtrip_of c d row' f hfm _ hall hsec ?_ t
        rw [a2, a3, a4, a5, hro']
        exact enc_smem c d row' f h (hfft.trans h) a1 hro' (by simpa using hfit) hfo
      · obtain ⟨a1, a2, a3, a4, a5⟩ := fmt_vop3a f hfm (hfft.trans h)
        rw [a2, a3] at hfit
        rw [hnf h (by decide)]
        refine roundtrip_of c d row' f hfm _ hall hsec ?_ t
        rw [a2, a3, a4, a5, hro']
        exact enc_vop3a c d row' f h (hfft.trans h) a1 hro' (by simpa using hfit) hfo
      · obtain ⟨a1, a2, a3, a4, a5⟩ := fmt_vop3b f hfm (hfft.trans h)
        rw [a2, a3] at hfit
        rw [hnf h (by decide)]
        refine roundtrip_of c d row' f hfm _ hall hsec ?_ t
        rw [a2, a3, a4, a5, hro']
        exact enc_vop3b c d row' f h (hfft.trans h) a1 hro' (by simpa using hfit) hfo
      · obtain ⟨a1, a2, a3, a4, a5⟩ := fmt_ds f hfm (hfft.trans h)
        rw [a2, a3] at hfit
        rw [hnf h (by decide)]
        refine roundtrip_of c d row' f hfm _ hall hsec ?_ t
        rw [a2, a3, a4, a5, hro']
        exact enc_ds c d row' f h (hfft.trans h) a1 hro' (by simpa using hfit) hfo
      · obtain ⟨a1, a2, a3, a4, a5⟩ := fmt_flat f hfm (hfft.trans h)
        rw [a2, a3] at hfit
        refine roundtrip_of c d row' f hfm _ hall hsec ?_ t
        rw [a2, a3, a4, a5, hro']
        exact enc_flat c d row' f h (hfft.trans h) a1 hro' (by simpa using hfit) hfo

/-- **The reported size is the number of bytes encoded** (4, or 8 with a literal / SDWA dword / second half). -/
theorem instOf_size (c : Bool) (d : Desc) (hwf : wellFormed d = true) : (instOf c d).size = (encode d).length := by
  unfold wellFormed at hwf
  simp only [Bool.and_eq_true] at hwf
  obtain ⟨⟨⟨hlk, hfo⟩, _⟩, _⟩ := hwf
  cases hrow : lookUp d.ft d.op with
  | none => simp [hrow] at hlk
  | some row =>
    obtain ⟨row', hrow', _, _⟩ := lookUpArch_of_lookUp (c := c) hrow
    have hlen : (encode d).length = if (encSecond d).isSome then 8 else 4 := by
      unfold encode
      cases encSecond d <;> simp [bytes32]
    rw [hlen]
    simp only [instOf, hrow']
    unfold instOfRowArch
    split
    · rename_i hfl
      have : encSecond d = some (hiWord d) := by
        simp only [beq_iff_eq] at hfl
        simp [encSecond, hfl, FT_FLAT, FT_SMEM, FT_VOP3a, FT_VOP3b, FT_DS]
      simp [this]
    · unfold instOfRow
      simp only [apply_ite Inst.size, ite_self]

/-- **Decoding never reads past the encoding**: the bytes of a well-formed description alone decode like the bytes
    followed by anything. -/
theorem decode_encode_exact (c : Bool) (d : Desc) (hwf : wellFormed d = true) (t : List Nat) :
    decode c (encode d ++ t) = decode c (encode d) := by
  have h := decode_encode c d hwf []
  rw [List.append_nil] at h
  rw [h, decode_encode c d hwf t]

/-- The full statement — the round trip for EVERY well-formed description, with no class left out. -/
def decode_encode_full : Prop :=
  ∀ (c : Bool) (d : Desc) (t : List Nat), wellFormed d = true → decode c (encode d ++ t) = .ok (instOf c d)

/-- It holds of the repaired decoder (`s_setreg_imm32_b32` consumes its SIMM32, S0 is read from bit 23). -/
theorem decode_encode_full_holds : decode_encode_full := fun c d t hwf => decode_encode c d hwf t

/-- the same statement about the decoder as it was before the two repairs (`decodeOld`) -/
def decode_encode_full_before_fix : Prop :=
  ∀ (c : Bool) (d : Desc) (t : List Nat), wellFormed d = true → decodeOld c (encode d ++ t) = .ok (instOf c d)

/-- witness 1: `s_setreg_imm32_b32 hwreg(1), 0x12345678` = `ba000001 12345678` (SOPK opcode 20 carries a 32-bit SIMM32
    behind the first dword): 8 bytes, the old decoder reported 4 — a sequential decode then took the immediate for the
    next instruction. witness 2: `v_add_f32_sdwa v0, s1, v2` (SDWA dword with S0 = bit 23): the old decoder read S0 from
    bit 30 and returned the VGPR `v1` as SRC0. -/
theorem decode_encode_full_before_fix_refuted : ¬ decode_encode_full_before_fix := by
  intro h
  have := h false { ft := FT_SOPK, op := 20, simm16 := 1, lit := some 0x12345678 } [] (by decide +kernel)
  revert this
  decide +kernel

/-- the SOPK witness, spelled out: well-formed, 8 bytes, decoded with size 4 on both architectures before the repair;
    now with size 8 and the immediate kept in SRC0 -/
theorem setreg_imm32_missized_before_fix :
    let d : Desc := { ft := FT_SOPK, op := 20, simm16 := 1, lit := some 0x12345678 }
    wellFormed d = true ∧ encode d = [0x01, 0x00, 0x00, 0xba, 0x78, 0x56, 0x34, 0x12] ∧
    (∀ c, (match decodeOld c (encode d) with | .ok i => (i.name, i.size) | _ => ("", 0)) = ("s_setreg_imm32_b32", 4)) ∧
    (∀ c, (match decode c (encode d) with | .ok i => (i.name, i.size, i.src0) | _ => ("", 0, none)) =
      ("s_setreg_imm32_b32", 8, some (.lit 0 0x12345678))) := by
  refine ⟨by decide +kernel, by decide +kernel, ?_, ?_⟩ <;>
  · intro c
    cases c <;> decide +kernel

/-- the SDWA witness, spelled out: `v_add_f32_sdwa v0, s1, v2 dst_sel:DWORD src0_sel:DWORD src1_sel:DWORD` is
    well-formed, its ISA encoding is `000400f9 06860601`; the old decoder answered SRC0 = `v1` (VGPR), the description
    denotes `s1` (SGPR), which the repaired decoder returns -/
theorem sdwa_s0_misread_before_fix :
    let d : Desc := { ft := FT_VOP2, op := 1, sdwa := 1, src0 := 1, s0 := 1, vsrc1 := 2, vdst := 0,
                      dstSel := 6, src0Sel := 6, src1Sel := 6 }
    wellFormed d = true ∧ encode d = [0xf9, 0x04, 0x00, 0x02, 0x01, 0x06, 0x86, 0x06] ∧
    (instOf false d).src0 = some (sreg 1 1 0) ∧
    (∀ c, (match decodeOld c (encode d) with | .ok i => i.src0 | _ => none) = some (vreg 1 1 0)) ∧
    (∀ c, (match decode c (encode d) with | .ok i => i.src0 | _ => none) = some (sreg 1 1 0)) := by
  refine ⟨by decide +kernel, by decide +kernel, by decide +kernel, ?_, ?_⟩ <;>
  · intro c
    cases c <;> decide +kernel

/-- non-vacuity of the architecture split: VOP1 opcode 0x38 (`7e047104`) is `v_mov_b64 v[2:3], v[4:5]`
    for a CDNA3 disassembler and `v_movrelsd_b32 v2, v4` otherwise -/
example :
    (match decode true [0x04, 0x71, 0x04, 0x7e] with
     | .ok i => (i.name, i.src0, i.dst) | _ => ("", none, none)) = ("v_mov_b64", some (vreg 260 4 2), some (vreg 258 2 2)) ∧
    (match decode false [0x04, 0x71, 0x04, 0x7e] with
     | .ok i => (i.name, i.src0, i.dst) | _ => ("", none, none)) = ("v_movrelsd_b32", some (vreg 260 4 0), some (vreg 258 2 0)) := by
  decide +kernel

/-- non-vacuity: well-formed descriptions exist in every covered format, with and without a
    literal (`s_add_u32 s1, 0xdeadbeef, s2`; `s_movk_i32`; `s_mov_b64 exec, vcc`; `s_cmp_eq_i32`;
    `s_waitcnt`; `v_madak_f32`; `v_mov_b32 v3, 1.0`; `v_cmp_lt_f32 vcc, lit, v9`;
    `s_load_dwordx2 s[4:5], s[8:9], 0x10`), and ill-formed ones are rejected -/
example : [ ({ ft := FT_SOP2, op := 0, sdst := 1, ssrc0 := 255, ssrc1 := 2, lit := some 0xdeadbeef } : Desc),
            { ft := FT_SOPK, op := 0, sdst := 5, simm16 := 0xffff },
            { ft := FT_SOP1, op := 1, sdst := 126, ssrc0 := 106 },
            { ft := FT_SOPC, op := 0, ssrc0 := 3, ssrc1 := 193 },
            { ft := FT_SOPP, op := 12, simm16 := 0x0070 },
            { ft := FT_VOP2, op := 24, src0 := 256, vsrc1 := 1, vdst := 2, lit := some 0x3f800000 },
            { ft := FT_VOP1, op := 1, src0 := 242, vdst := 3 },
            { ft := FT_VOPC, op := 0x41, src0 := 255, vsrc1 := 9, lit := some 7 },
            { ft := FT_SMEM, op := 1, sbase := 4, sdata := 4, imm := 1, offset := 16 } ].all wellFormed = true ∧
    wellFormed { ft := FT_SOP2, op := 0, sdst := 1, ssrc0 := 255, ssrc1 := 2 } = false ∧
    wellFormed { ft := FT_SOP2, op := 0, sdst := 1, ssrc0 := 209, ssrc1 := 2 } = false ∧
    wellFormed { ft := FT_SOP2, op := 127, sdst := 1, ssrc0 := 1, ssrc1 := 2 } = false ∧
    encode { ft := FT_SOP2, op := 0, sdst := 1, ssrc0 := 255, ssrc1 := 2, lit := some 0xdeadbeef } =
      [0xff, 0x02, 0x01, 0x80, 0xef, 0xbe, 0xad, 0xde] := by
  decide +kernel

/-- non-vacuity for the formats added by the deepening: `v_mad_f32 v1, v2, -|s3|, 1.0 clamp`-style VOP3a, a VOPC opcode in
    VOP3a encoding writing `vcc`, a packed row with OP_SEL, `v_add_co_u32 v1, vcc, v2, v3` (VOP3b), `v_mad_u64_u32`,
    `ds_write2_b32` with separate offsets, `ds_read_b64`, `global_load_dwordx2 v[1:2], v3, s[4:5] offset:-8`,
    `flat_store_dword`, `v_add_f32_sdwa` (also with an SGPR SRC0), `s_setreg_imm32_b32` — all well-formed; reserved operand codes / over-wide fields /
    an SDWA K-opcode are rejected -/
example : [ ({ ft := FT_VOP3a, op := 449, vdst := 1, src0 := 258, src1 := 3, src2 := 242, abs := 2, neg := 2, clamp := 1 } : Desc),
            { ft := FT_VOP3a, op := 0x41, vdst := 106, src0 := 257, src1 := 258 },
            { ft := FT_VOP3a, op := 944, vdst := 1, src0 := 257, src1 := 258, src2 := 259, opsel := 13, omod := 3 },
            { ft := FT_VOP3b, op := 281, vdst := 1, sdst := 106, src0 := 258, src1 := 259 },
            { ft := FT_VOP3b, op := 488, vdst := 4, sdst := 10, src0 := 258, src1 := 259, src2 := 260 },
            { ft := FT_DS, op := 14, offset0 := 1, offset1 := 2, addr := 3, data0 := 4, data1 := 5 },
            { ft := FT_DS, op := 118, offset0 := 0x34, offset1 := 0x12, addr := 3, vdst := 8, gds := 1 },
            { ft := FT_FLAT, op := 21, seg := 2, offset := 0x1ff8, addr := 3, saddr := 4, vdst := 1, glc := 1 },
            { ft := FT_FLAT, op := 28, seg := 0, addr := 2, data := 7, saddr := 0x7f, slc := 1 },
            { ft := FT_VOP2, op := 1, sdwa := 1, src0 := 1, vsrc1 := 2, s1 := 1, vdst := 0, dstSel := 4, dstUnused := 2,
              src0Sel := 6, src1Sel := 5 },
            { ft := FT_VOP2, op := 1, sdwa := 1, src0 := 1, s0 := 1, vsrc1 := 2, vdst := 0, dstSel := 6, src0Sel := 6,
              src1Sel := 6 },
            { ft := FT_SOPK, op := 20, simm16 := 1, lit := some 0x12345678 } ].all wellFormed = true ∧
    wellFormed { ft := FT_VOP3a, op := 449, vdst := 1, src0 := 258, src1 := 3, src2 := 209 } = false ∧
    wellFormed { ft := FT_VOP3a, op := 449, vdst := 1, src0 := 258, src1 := 3, src2 := 4, abs := 8 } = false ∧
    wellFormed { ft := FT_FLAT, op := 21, offset := 0x2000 } = false ∧
    wellFormed { ft := FT_VOP2, op := 24, sdwa := 1 } = false ∧
    wellFormed { ft := FT_VOP2, op := 1, sdwa := 1, dstSel := 7 } = false ∧
    encode { ft := FT_FLAT, op := 21, seg := 2, offset := 0x1ff8, addr := 3, saddr := 4, vdst := 1, glc := 1 } =
      [0xf8, 0x9f, 0x55, 0xdc, 0x03, 0x00, 0x04, 0x01] ∧
    (instOf true { ft := FT_FLAT, op := 21, seg := 2, offset := 0x1ff8, addr := 3, saddr := 4, vdst := 1, glc := 1 }).addr
      = some (vreg 3 3 1) ∧
    (instOf true { ft := FT_FLAT, op := 21, seg := 0, offset := 0x1ff8, addr := 3, saddr := 4, vdst := 1, glc := 1 }).addr
      = some (vreg 3 3 2) ∧
    (instOf true { ft := FT_FLAT, op := 21, seg := 2, offset := 0x1ff8, addr := 3, saddr := 4, vdst := 1 }).offset0 = 0xfffffff8 := by
  decide +kernel

/-- **Reported sizes are 4 or 8 and never exceed the buffer**, for every byte string. -/
theorem decode_size (cdna3 : Bool) (buf : List Nat) (i : Inst)
    (h : decode cdna3 buf = .ok i) : (i.size = 4 ∨ i.size = 8) ∧ i.size ≤ buf.length := by
  unfold decode decodeWith at h
  by_cases hl : buf.length < 4
  · simp [hl] at h
  · simp only [hl, if_false] at h
    rcases decodeCore_size _ _ _ _ _ h with h4 | ⟨h8, hs⟩
    · exact ⟨Or.inl h4, by omega⟩
    · refine ⟨Or.inr h8, ?_⟩
      by_cases h8' : buf.length ≥ 8
      · omega
      · simp [h8'] at hs
/-- **Bytes beyond the reported length never influence the result**: if a buffer decodes to an
    instruction of size `s`, then its first `s` bytes followed by ANY other bytes (or none) decode
    to the same instruction. -/
theorem decode_prefix (cdna3 : Bool) (buf : List Nat) (i : Inst)
    (h : decode cdna3 buf = .ok i) (t : List Nat) : decode cdna3 (buf.take i.size ++ t) = .ok i := by
  have hsz := decode_size cdna3 buf i h
  unfold decode decodeWith at h ⊢
  by_cases hl : buf.length < 4
  · simp [hl] at h
  · simp only [hl, if_false] at h
    rcases decodeCore_size _ _ _ _ _ h with h4 | ⟨h8, hs⟩
    · have hlen : ¬ (buf.take i.size ++ t).length < 4 := by
        simp [List.length_append, List.length_take]; omega
      simp only [hlen, if_false]
      rw [h4, le32_take_append buf t 4 0 (by omega) (by omega)]
      exact decodeCore_indep4 _ _ _ _ _ i h h4
    · have hb8 : buf.length ≥ 8 := by
        by_cases h8' : buf.length ≥ 8
        · exact h8'
        · simp [h8'] at hs
      have hlen : ¬ (buf.take i.size ++ t).length < 4 := by
        simp [List.length_append, List.length_take]; omega
      have hlen8 : (buf.take i.size ++ t).length ≥ 8 := by
        simp [List.length_append, List.length_take]; omega
      simp only [hlen, if_false, hlen8, if_true]
      simp only [hb8, if_true] at h
      rw [h8, le32_take_append buf t 8 0 (by omega) hb8, le32_take_append buf t 8 4 (by omega) hb8]
      exact h

/-- non-vacuity: `s_mov_b32 s0, 0xdeadbeef` followed by junk decodes with size 8, and
    `s_endpgm` with size 4 -/
example : (match decode false [0xff, 0x00, 0x80, 0xbe, 0xef, 0xbe, 0xad, 0xde, 1, 2, 3] with
           | .ok i => (i.opcode, i.size, i.src0) | _ => (99, 0, none)) = (0, 8, some (.lit 255 0xdeadbeef)) := by
  decide +kernel
example : (match decode false [0x00, 0x00, 0x81, 0xbf] with
           | .ok i => (i.opcode, i.size) | _ => (99, 0)) = (1, 4) := by
  decide +kernel


/-- **Decoding is total and deterministic**: for every architecture flag and EVERY byte string
    (any length, any content) exactly one of three things happens — an instruction, the error
    return, or the explicit "not implemented" panic. The model has no fourth outcome: all its
    functions are total, every list access is guarded by the length tests of `decodeWith` /
    `decodeRow` (`getD` never reads a default), operands are `Option`s that are matched before use.
    That the real decoder has no fault (index out of range, nil operand) either is what the
    per-run correspondence and the `C04.fault.*` oracle tie to this statement; the four faults
    they found were repaired. -/
theorem decode_total (c : Bool) (buf : List Nat) :
    ((∃ i, decode c buf = .ok i) ∧ decode c buf ≠ .err ∧ decode c buf ≠ .notImpl) ∨
    ((¬ ∃ i, decode c buf = .ok i) ∧ decode c buf = .err) ∨
    ((¬ ∃ i, decode c buf = .ok i) ∧ decode c buf = .notImpl) := by
  cases h : decode c buf with
  | ok i => exact Or.inl ⟨⟨i, rfl⟩, by simp, by simp⟩
  | err => exact Or.inr (Or.inl ⟨by simp, rfl⟩)
  | notImpl => exact Or.inr (Or.inr ⟨by simp, rfl⟩)

/-- non-vacuity: all three outcomes occur (`s_endpgm`; an unknown operand code; SDWA with the
    dst-clamp bit) -/
example : (∃ i, decode false [0x00, 0x00, 0x81, 0xbf] = .ok i) ∧
    decode false [0x80, 0x00, 0x00, 0x7d] = .err ∧
    decode false [0xf9, 0x00, 0x00, 0x02, 0x00, 0x20, 0x00, 0x00] = .notImpl := by
  refine ⟨?_, by decide +kernel, by decide +kernel⟩
  cases h : decode false [0x00, 0x00, 0x81, 0xbf] with
  | ok i => exact ⟨i, rfl⟩
  | err => exact absurd h (by decide +kernel)
  | notImpl => exact absurd h (by decide +kernel)

/-- every row of the decode table belongs to a format that has a decoder, of the right size class -/
theorem rows_have_decoders :
    (allRows.all fun r => formats.all fun f => f.ft != r.ft || ftSizes.contains (f.ft, f.size)) = true := by
  decide +kernel

/-- the same for the rows a CDNA3 disassembler consults first (`initializeCDNA3DecodeTable`) -/
theorem cdna3_rows_have_decoders :
    (cdna3Rows.all fun r => formats.all fun f => f.ft != r.ft || ftSizes.contains (f.ft, f.size)) = true := by
  decide +kernel

/-- non-vacuity: 13 formats have decoders; VINTRP, MUBUF, MTBUF, MIMG, EXP have none (and no rows) -/
example : ftSizes.length = 13 ∧ (FT_VINTRP, 4) ∉ ftSizes ∧ (FT_MUBUF, 8) ∉ ftSizes := by decide

/-- **The "not implemented" panic is reachable only through SDWA modifiers.** If a byte string
    makes the decoder panic, then it has at least 8 bytes, its first dword is matched to VOP2 with
    source field 249 (SDWA), and its second dword sets one of the seven unsupported modifier bits
    (`sdwaUnsupported`: dst clamp, src0/src1 sext, neg, abs). In particular no table row lacks a
    decoder, and no 8-byte format, scalar format, VOP1 or VOPC word can panic. -/
theorem decode_no_notimpl_without_sdwa (c : Bool) (buf : List Nat) (h : decode c buf = .notImpl) :
    8 ≤ buf.length ∧ (matchFormat (le32 buf 0)).map (·.ft) = some FT_VOP2 ∧
    extractBits (le32 buf 0) 0 8 = 249 ∧ sdwaUnsupported (le32 buf 4) = true := by
  unfold decode decodeWith at h
  by_cases hl : buf.length < 4
  · simp [hl] at h
  · simp only [hl, if_false] at h
    obtain ⟨a, b, w1, hw1, hu⟩ := decodeCore_notImpl rows_have_decoders cdna3_rows_have_decoders _ _ _ h
    by_cases h8 : buf.length ≥ 8
    · simp only [h8, if_true, Option.some.injEq] at hw1
      subst hw1
      exact ⟨h8, a, b, hu⟩
    · simp [h8] at hw1

/-- and conversely: a VOP2 word of a table opcode with source field 249 whose SDWA dword sets an
    unsupported modifier bit does panic (the finding the harness counts as `outcome.notimpl`) -/
theorem sdwa_unsupported_notimpl (c : Bool) (buf : List Nat) (h8 : 8 ≤ buf.length) (f : Format)
    (hm : matchFormat (le32 buf 0) = some f) (h2 : f.ft = FT_VOP2)
    (hrow : (lookUpArch c f.ft (extractBits (le32 buf 0) f.opLo f.opHi)).isSome = true)
    (h249 : extractBits (le32 buf 0) 0 8 = 249) (hu : sdwaUnsupported (le32 buf 4) = true) :
    decode c buf = .notImpl := by
  unfold decode decodeWith
  have hl : ¬ buf.length < 4 := by omega
  have h8' : buf.length ≥ 8 := h8
  simp only [hl, if_false, h8', if_true]
  exact decodeCore_sdwa _ c _ _ f hm h2 hrow h249 hu

/-- non-vacuity: `v_add_f32_sdwa` with the clamp bit -/
example : sdwaUnsupported 0x2000 = true ∧ sdwaUnsupported 0x06060600 = false := by decide

/-- **SDWA / DPP forms the decoder does not support are reported as undecodable.** A VOP1 or VOPC word whose SRC0
    field says 249 (SDWA) or 250 (DPP), and a VOP2 word with SRC0 = 250 (DPP), is an error whatever follows — never a
    mis-sized instruction or a fault (only VOP2 + SDWA is decoded, see `decode_encode`). -/
theorem sdwa_dpp_unsupported (c : Bool) (f : Format) (row : Row) (w0 : Nat) (w1? : Option Nat) (hsz : f.size = 4)
    (h : ((f.ft = FT_VOP1 ∨ f.ft = FT_VOPC) ∧ (extractBits w0 0 8 = 249 ∨ extractBits w0 0 8 = 250)) ∨
         (f.ft = FT_VOP2 ∧ extractBits w0 0 8 = 250)) :
    decodeRow c f row w0 w1? = .err := by
  have g249 : getOperand 249 = none := by decide
  have g250 : getOperand 250 = none := by decide
  unfold decodeRow
  have h8 : (f.size == 8) = false := by rw [hsz]; decide
  simp only [h8, Bool.false_eq_true, if_false]
  rcases h with ⟨hf | hf, hs | hs⟩ | ⟨hf, hs⟩
  · simp [dec4, hf, FT_SOP2, FT_VOP2, FT_VOP1, decodeVOP1, hs, g249]
  · simp [dec4, hf, FT_SOP2, FT_VOP2, FT_VOP1, decodeVOP1, hs, g250]
  · simp [dec4, hf, FT_SOP2, FT_VOP2, FT_VOP1, FT_SOPP, FT_VOPC, decodeVOPC, hs, g249]
  · simp [dec4, hf, FT_SOP2, FT_VOP2, FT_VOP1, FT_SOPP, FT_VOPC, decodeVOPC, hs, g250]
  · simp [dec4, hf, FT_SOP2, FT_VOP2, decodeVOP2, hs, g250]

/-- non-vacuity: `v_mov_b32_sdwa` (7e0002f9 …), `v_mov_b32_dpp` (7e0002fa …), `v_add_f32_dpp` (020000fa …) and
    `v_cmp_lt_f32_sdwa` (7c8200f9 …) are errors; `v_add_f32_sdwa` decodes -/
example : decode true [0xf9, 0x02, 0x00, 0x7e, 0x00, 0x06, 0x06, 0x00] = .err ∧
    decode true [0xfa, 0x02, 0x00, 0x7e, 0x00, 0x00, 0x00, 0xff] = .err ∧
    decode false [0xfa, 0x00, 0x00, 0x02, 0x00, 0x00, 0x00, 0xff] = .err ∧
    decode false [0xf9, 0x00, 0x82, 0x7c, 0x00, 0x06, 0x06, 0x00] = .err ∧
    decode false [0xf9, 0x00, 0x00, 0x02, 0x00, 0x06, 0x06, 0x06] ≠ .err := by
  decide +kernel

/-! ## The CDNA3 override table -/

/-- no two `addCDNA3InstType` calls register the same (format, opcode) -/
theorem cdna3_rows_keys_nodup : (cdna3Rows.map rkey).Nodup :=
  nodup_of_noDupBits _ (by decide +kernel)

theorem cdna3_rows_opcode_bound : ∀ r ∈ cdna3Rows, r.opcode < 1024 := by
  have h : cdna3Rows.all (fun r => decide (r.opcode < 1024)) = true := by decide +kernel
  intro r hr
  simpa using List.all_eq_true.mp h r hr

/-- **The table lookup of either architecture does not depend on registration / map-iteration order**: for every
    permutation of the shared registrations and every permutation of the CDNA3 override registrations, `lookUp`
    (override first when `IsCDNA3`, shared table otherwise) answers as the canonical instance — the decode tables are
    functions of their CONTENT, there is no hidden state in how a disassembler instance was built. Together with
    `matchFormat_order_irrelevant` every independently constructed `Disassembler` with the same flag computes the
    same `Decode`. -/
theorem lookUpArch_order_irrelevant (s k : List Row) (hs : s.Perm allRows) (hk : k.Perm cdna3Rows)
    (c : Bool) (ft op : Nat) : lookUpArchIn s k c ft op = lookUpArch c ft op := by
  rw [← lookUpArchIn_canon]
  exact lookUpArchIn_perm s allRows k cdna3Rows hs hk
    ((hs.map _).nodup_iff.mpr rows_keys_nodup) (fun r hr => rows_opcode_bound r (hs.subset hr))
    ((hk.map _).nodup_iff.mpr cdna3_rows_keys_nodup) (fun r hr => cdna3_rows_opcode_bound r (hk.subset hr)) c ft op

/-- non-vacuity: reversing both registration lists is such a pair of permutations, and the override matters -/
example : allRows.reverse.Perm allRows ∧ cdna3Rows.reverse.Perm cdna3Rows ∧
    lookUpArch true FT_VOP1 56 ≠ lookUpArch false FT_VOP1 56 ∧ 0 < cdna3Rows.length :=
  ⟨List.reverse_perm _, List.reverse_perm _, by decide +kernel, by decide⟩

theorem cdna3_rows_fill : cdna3Rows.all cdnaRowOK = true := by decide +kernel

/-- **Every CDNA3 override row is reachable under every operand filling, and only overrides**: any 32-bit word with the
    row's format encoding and opcode is matched to the row's format, a CDNA3 disassembler's lookup returns exactly the
    override row, and the shared table has a row for the same key (so the GCN3 disassembler decodes the same word
    too — the override changes the meaning of an opcode, never the set of decodable words or the format split). -/
theorem cdna3_rows_reachable (r : Row) (hr : r ∈ cdna3Rows) :
    ∃ f, formatOf r.ft = some f ∧
      ∀ w, w < 2 ^ 32 → (w ^^^ f.encoding) &&& f.mask = 0 → extractBits w f.opLo f.opHi = r.opcode →
        matchFormat w = some f ∧ lookUpArch true f.ft (extractBits w f.opLo f.opHi) = some r ∧
        (lookUpArch false f.ft (extractBits w f.opLo f.opHi)).isSome = true := by
  have hok := List.all_eq_true.mp cdna3_rows_fill r hr
  unfold cdnaRowOK at hok
  simp only [Bool.and_eq_true] at hok
  obtain ⟨hfill, hsh⟩ := hok
  cases hf : formatOf r.ft with
  | none => simp [rowFill, hf] at hfill
  | some f =>
    refine ⟨f, rfl, ?_⟩
    intro w hw henc hop
    refine ⟨match_of_rowFill hfill hf hw (by simpa [hit] using henc) hop, ?_, ?_⟩
    · rw [hop, (formatOf_mem hf).2]
      have := lastRow_of_mem cdna3Rows cdna3_rows_keys_nodup cdna3_rows_opcode_bound r hr
      simp [lookUpArch, this]
    · rw [hop, (formatOf_mem hf).2, lookUpArch_false]
      exact hsh

/-- non-vacuity: `v_mov_b64` (VOP1 0x38) overrides `v_movrelsd_b32` -/
example : (cdna3Rows.map (·.name)) = ["v_mov_b64"] ∧ (lookUp FT_VOP1 56).map (·.name) = some "v_movrelsd_b32" := by
  decide +kernel

/-- **Where the architecture flag matters.** `Decode` is a function of (IsCDNA3, bytes); the flag can change the
    result only for SMEM (signed 21-bit immediate), FLAT (SEG / SADDR rule) and the (format, opcode) keys of the
    override table: for every other byte string both settings decode identically. -/
theorem decode_arch_agree (buf : List Nat) (f : Format) (hm : matchFormat (le32 buf 0) = some f)
    (h1 : f.ft ≠ FT_SMEM) (h2 : f.ft ≠ FT_FLAT)
    (hk : lastRow cdna3Rows f.ft (extractBits (le32 buf 0) f.opLo f.opHi) = none) :
    decode true buf = decode false buf := by
  unfold decode decodeWith
  split
  · rfl
  · exact decodeCore_arch _ _ f hm h1 h2 hk

/-- non-vacuity and sharpness: `v_add_f32` agrees; SMEM with offset bit 20, a GLOBAL load with SADDR = s0 and VOP1 0x38
    differ -/
example : decode true [0x02, 0x03, 0x00, 0x02] = decode false [0x02, 0x03, 0x00, 0x02] ∧
    decode true [0x02, 0x01, 0x02, 0xc0, 0xf0, 0xff, 0x1f, 0x00] ≠ decode false [0x02, 0x01, 0x02, 0xc0, 0xf0, 0xff, 0x1f, 0x00] ∧
    decode true [0x00, 0x80, 0x54, 0xdc, 0x03, 0x00, 0x00, 0x01] ≠ decode false [0x00, 0x80, 0x54, 0xdc, 0x03, 0x00, 0x00, 0x01] ∧
    decode true [0x04, 0x71, 0x04, 0x7e] ≠ decode false [0x04, 0x71, 0x04, 0x7e] := by
  decide +kernel

end C04
