import MgpuProofs.C14Run
import MgpuProofs.C14Once
import MgpuProofs.C14Live
import MgpuProofs.C14Progress
import MgpuProofs.C14Truth
import MgpuProofs.C14Next
/-! # C14 — barriers, wait counts and wavefront termination order execution correctly

Statements are about `C14.run c s ops`: the abstract compute-unit state after an **arbitrary**
sequence of events `ops` (issue of an internal or unit instruction, a unit finishing, memory
instructions leaving their unit, memory responses of every kind in any order, evaluation rounds
of `EvaluateInternalInst`, the dispatcher draining — or not draining — the completion port) that
respects the issue rules (`legalRun`), from any freshly dispatched state (`Init`: any number of
work-groups and wavefronts, any content of the barrier buffer and of the port), for the code
**as repaired** (`c.fixA`, `c.fixB`); the capacities `c.bufSize`, `c.aceCap` are arbitrary.
The pre-repair code is kept as `Cfg.old` / `fixB := false` for the refutation witnesses.
-/
namespace C14

/-- two work-groups; wavefront 2 of group 0 leaves early -/
def demo : State :=
  { wfs := (List.range 5).map (fun i =>
      { id := i, wg := if i < 3 then 0 else 1, state := .ready, op := 99, lk := 0, vm := 0, osc := 0, ovc := 0,
        pc := 0, inPool := true, arr := 0, bar := 0 })
    exec := [], buf := [], out := [none, none, none, none], sent := [], fault := false }

def demoOps : List Op :=
  [.issue 2 1 0 0, .eval, .issue 0 10 0 0, .issueUnit 1, .eval, .memIssue 1 true, .unitDone 1,
   .issue 1 12 0 0, .eval, .memRet 1 0 true, .eval, .issue 1 10 0 0, .eval,
   .issue 3 10 0 0, .issue 4 1 0 0, .eval, .eval, .issue 0 1 0 0, .issue 1 1 0 0, .eval, .drain 3, .eval,
   .issue 3 1 0 0, .eval]

theorem demo_init : Init demo := by
  refine ⟨rfl, rfl, by decide, ?_⟩
  intro w hw
  simp only [demo, List.mem_map, List.mem_range] at hw
  obtain ⟨i, _, rfl⟩ := hw
  exact ⟨rfl, rfl, rfl⟩

example : legalRun Cfg.cur demo demoOps = true := by decide
example : (run Cfg.cur demo demoOps).wfs.map (·.state) =
    [.completed, .completed, .completed, .completed, .completed] ∧
    (run Cfg.cur demo demoOps).sent = [0, 1] ∧ (run Cfg.cur demo demoOps).wfs.map (·.bar) = [1, 1, 0, 1, 1] := by
  decide

/-- **The invariant** (`Inv`, see `MgpuProofs/C14Inv.lean`): wavefront ids distinct, `panic("never")`
    not reached, every entry of `internalExecuting` is a Running wavefront or one that waits for room
    in the barrier buffer, no entry twice, the ghost counters `arr`/`bar` agree with the states, and
    inside a work-group nobody has passed more barriers than an unfinished wavefront. It holds after
    every legal schedule. -/
theorem sched_inv (c : Cfg) (hA : c.fixA = true) (hB : c.fixB = true) (s : State) (ops : List Op)
    (h0 : Init s) (hl : legalRun c s ops = true) : Inv (run c s ops) :=
  run_Inv hA hB ops (Init_Inv h0) hl

/-- `evalSEndPgm`'s `panic("never")` is unreachable. -/
theorem never_panics (c : Cfg) (hA : c.fixA = true) (hB : c.fixB = true) (s : State) (ops : List Op)
    (h0 : Init s) (hl : legalRun c s ops = true) : (run c s ops).fault = false :=
  (sched_inv c hA hB s ops h0 hl).nofault

/-- a wavefront that still executes -/
def Unfinished (w : Wf) : Prop := w.state = .ready ∨ w.state = .running ∨ w.state = .atBarrier

instance : DecidablePred Unfinished := fun w => by unfold Unfinished; infer_instance

/-- **barrier_safe.** `u.bar` = barriers `u` has been released from, `v.arr` = `s_barrier`s `v` has
    issued. At every moment of every legal schedule, a wavefront `u` has been released from at most as
    many barriers as any unfinished wavefront `v` of its group has arrived at: nobody is past barrier
    `k` before every other unfinished wavefront of the group reached barrier `k`. -/
def barrier_safe_full (c : Cfg) : Prop :=
  ∀ (s : State) (ops : List Op), Init s → legalRun c s ops = true →
    ∀ u ∈ (run c s ops).wfs, ∀ v ∈ (run c s ops).wfs, u.wg = v.wg → Unfinished v → u.bar ≤ v.arr

theorem barrier_safe (c : Cfg) (hA : c.fixA = true) (hB : c.fixB = true) : barrier_safe_full c := by
  intro s ops h0 hl u hu v hv hg hun
  have inv := sched_inv c hA hB s ops h0 hl
  have hnc : v.state ≠ .completed := by
    rcases hun with h | h | h <;> (rw [h]; decide)
  have h1 := inv.bars u hu v hv hg hnc
  have hW := inv.ghost v hv
  have h2 : v.bar ≤ v.arr := by
    rcases hun with h | h | h
    · have := hW.2.1 h; omega
    · by_cases ho : v.op = 10
      · have := (hW.1 h).1 ho; omega
      · have := (hW.1 h).2 ho; omega
    · have := hW.2.2 h; omega
  omega

example : ∃ u ∈ (run Cfg.cur demo demoOps).wfs, u.bar = 1 := by decide

/-- 20 wavefronts: 17 of group 0 (16 of them fill the barrier buffer), 3 of group 1 -/
def overflow : State :=
  { wfs := (List.range 20).map (fun i =>
      { id := i, wg := if i < 3 then 1 else 0, state := .ready, op := 99, lk := 0, vm := 0, osc := 0, ovc := 0,
        pc := 0, inPool := true, arr := 0, bar := 0 })
    exec := [], buf := [], out := [], sent := [], fault := false }

def overflowOps : List Op :=
  (List.range 16).map (fun k => Op.issue (k + 3) 10 0 0) ++
  [.eval, .issue 0 10 0 0, .issue 1 10 0 0, .eval, .issue 2 1 0 0, .eval, .eval]

theorem overflow_init : Init overflow := by
  refine ⟨rfl, rfl, by decide, ?_⟩
  intro w hw
  simp only [overflow, List.mem_map, List.mem_range] at hw
  obtain ⟨i, _, rfl⟩ := hw
  exact ⟨rfl, rfl, rfl⟩

/-- Without the second repair the statement is false: two wavefronts wait for room in the full
    barrier buffer, the third wavefront of their group ends and releases them, they stay in
    `internalExecuting`, are parked again and released a second time — wavefront 0 is past two
    barriers while wavefront 1 arrived at one. (Reproduced on the real scheduler by the harness
    before the repair: sig `C14.barrier.safe`, `C14.exec.state`.) -/
theorem barrier_safe_without_fixB_refuted :
    ¬ barrier_safe_full { fixA := true, fixB := false, bufSize := 16, aceCap := 4 } := by
  intro h
  have := h overflow overflowOps overflow_init (by decide +kernel)
  revert this
  decide +kernel

/-- **barrier_buffer_bound.** The barrier buffer never holds more than its capacity, for every
    event sequence whatsoever (legal or not) and every code variant. -/
theorem barrier_buffer_bound (c : Cfg) (s : State) (ops : List Op) (h : s.buf.length ≤ c.bufSize) :
    (run c s ops).buf.length ≤ c.bufSize := run_buf c s ops h

/-- A wavefront that arrives while the buffer is full (and is not the last of its group) waits:
    it is AtBarrier, its instruction is not completed (it stays in `internalExecuting`), no other
    wavefront, the buffer, the port are touched. -/
theorem overflow_waits (c : Cfg) (s : State) (w : Wf)
    (hna : allAtBarrier c w.wg (updWf s.wfs w.id park) = false) (hfull : ¬ s.buf.length < c.bufSize) :
    evalSBarrier c s w = ⟨{ s with wfs := updWf s.wfs w.id park }, false, false, false⟩ := by
  unfold evalSBarrier
  simp only [hna, Bool.false_eq_true, if_false, hfull]

example : (run Cfg.cur overflow (overflowOps.take 20)).buf.length = 16 ∧
    (run Cfg.cur overflow (overflowOps.take 20)).exec = [0, 1] := by decide +kernel

/-- and with the repair the same schedule ends well: the waiting wavefronts are released once -/
example : ((run Cfg.cur overflow overflowOps).wfs.take 3).map (fun w => (w.state, w.bar)) =
    [(.ready, 1), (.ready, 1), (.completed, 1)] ∧ (run Cfg.cur overflow overflowOps).exec = [] := by
  decide +kernel

/-- **waitcnt_sound.** `s_waitcnt` completes only if the outstanding counters are at or below the
    requested counts; otherwise nothing changes. -/
theorem waitcnt_sound (c : Cfg) (s : State) (w : Wf) (hop : w.op = 12) :
    ((evalInst c s w).completed = true → w.osc ≤ w.lk ∧ w.ovc ≤ w.vm) ∧
    ((evalInst c s w).completed = false → (evalInst c s w).s = s) := by
  unfold evalInst
  rw [if_neg (by rw [hop]; decide), if_neg (by rw [hop]; decide), if_pos hop]
  unfold evalSWaitCnt
  split
  · exact ⟨fun h => (by cases h), fun _ => rfl⟩
  · rename_i h
    refine ⟨fun _ => ?_, fun h => (by cases h)⟩
    omega

/-- **endpgm_waits.** `s_endpgm` completes only when no memory access of the wavefront is
    outstanding; while one is, nothing changes. -/
theorem endpgm_waits (c : Cfg) (s : State) (w : Wf) (hop : w.op = 1) :
    ((evalInst c s w).completed = true → w.osc ≤ 0 ∧ w.ovc ≤ 0) ∧
    ((w.ovc > 0 ∨ w.osc > 0) → (evalInst c s w).s = s ∧ (evalInst c s w).completed = false) := by
  unfold evalInst
  rw [if_pos hop]
  unfold evalSEndPgm
  split
  · rename_i h
    exact ⟨fun h => (by cases h), fun _ => ⟨rfl, rfl⟩⟩
  · rename_i h
    refine ⟨fun _ => by omega, fun h' => absurd h' h⟩

example : ((run Cfg.cur demo (demoOps.take 9)).wfs.map (·.state)) = [.atBarrier, .running, .completed, .ready, .ready] := by
  decide

/-- **wg_completion_once.** After every legal schedule, under arbitrary back-pressure on the port
    (any initial content, any draining pattern, the retry path included): no work-group's
    completion message has been sent twice, and a message has been sent only for a group all of
    whose wavefronts have ended. -/
theorem wg_completion_once (c : Cfg) (hA : c.fixA = true) (hB : c.fixB = true) (s : State) (ops : List Op)
    (h0 : Init s) (hs : s.sent = []) (hl : legalRun c s ops = true) :
    (run c s ops).sent.Nodup ∧
    ∀ g ∈ (run c s ops).sent, ∀ v ∈ (run c s ops).wfs, v.wg = g → v.state = .completed := by
  have hc0 : CInv s := by
    constructor
    · rw [hs]; exact List.nodup_nil
    · intro g hg; rw [hs] at hg; cases hg
  exact run_CInv hA hB ops (Init_Inv h0) hc0 hl

/-- ... and it is sent in the very evaluation in which the last wavefront ends: when all the other
    wavefronts of the group have ended and the port has room, `s_endpgm` completes, the wavefront is
    Completed and the message is in the port; when the port is full nothing changes (the wavefront
    stays Running in `internalExecuting` and the evaluation is retried next cycle). -/
theorem completion_with_last_or_retry (c : Cfg) (s : State) (w : Wf) (hcnt : ¬ (w.ovc > 0 ∨ w.osc > 0))
    (hoth : othersCompleted w.wg w.id s.wfs = true) :
    (s.out.length < c.aceCap →
      (evalSEndPgm c s w).completed = true ∧ (evalSEndPgm c s w).s.sent = s.sent ++ [w.wg] ∧
      (evalSEndPgm c s w).s.out = s.out ++ [some w.wg] ∧
      ∀ v' ∈ (evalSEndPgm c s w).s.wfs, v'.id = w.id → v'.state = .completed) ∧
    (¬ s.out.length < c.aceCap → evalSEndPgm c s w = ⟨s, false, false, false⟩) := by
  unfold evalSEndPgm
  simp only [hcnt, if_false, hoth, if_true]
  constructor
  · intro hroom
    simp only [hroom, if_true, true_and]
    intro v' hv' hid
    simp only [clearPool, List.mem_map] at hv'
    obtain ⟨v1, hv1, rfl⟩ := hv'
    obtain ⟨v, _, rfl⟩ := mem_updWf.mp hv1
    by_cases h1 : v.id = w.id
    · simp [h1, complete]; split <;> rfl
    · exfalso; apply h1
      revert hid; simp only [h1, if_false]; split <;> exact fun h => h1 h
  · intro hfull
    simp only [hfull, if_false]

example : (run Cfg.cur demo (demoOps.take 20)).sent = [] ∧ (run Cfg.cur demo (demoOps.take 22)).sent = [0] ∧
    (run Cfg.cur demo (demoOps.take 20)).exec = [1] := by decide


/-- **barrier_live (release step).** When the last unfinished wavefront of a group arrives — all
    the others are AtBarrier or have ended — every wavefront of the group is Ready or Completed
    afterwards: all of them proceed. -/
theorem barrier_live_arrive (c : Cfg) (hA : c.fixA = true) (s : State) (w : Wf) (hw : w ∈ s.wfs)
    (hall : ∀ v ∈ s.wfs, v.wg = w.wg → v.id = w.id ∨ v.state = .atBarrier ∨ v.state = .completed) :
    (evalSBarrier c s w).pass = true ∧
    ∀ v' ∈ (evalSBarrier c s w).s.wfs, v'.wg = w.wg → v'.state = .ready ∨ v'.state = .completed := by
  have hab : allAtBarrier c w.wg (updWf s.wfs w.id park) = true := by
    simp only [allAtBarrier, List.all_eq_true, hA]
    intro v' hv'
    obtain ⟨v, hv, rfl⟩ := mem_updWf.mp hv'
    by_cases hvg : v.wg = w.wg
    · rcases hall v hv hvg with h | h | h
      · simp [h]
      · by_cases hi : v.id = w.id <;> simp [hi, h]
      · by_cases hi : v.id = w.id <;> simp [hi, h]
    · by_cases hi : v.id = w.id <;> simp [hi, hvg]
  have _ := hw
  unfold evalSBarrier
  simp only [hab, if_true, true_and]
  intro v' hv' hg
  simp only [passBarrier, List.mem_map] at hv'
  obtain ⟨v, _, rfl⟩ := hv'
  rw [release_wg] at hg
  by_cases hc : v.state = .completed
  · right; rw [release_miss _ _ (Or.inr hc)]; exact hc
  · left; exact (release_hit _ _ hg hc).1

/-- **barrier_live (early exit).** When a wavefront ends while all the other unfinished wavefronts of
    its group are parked, they are released by the ending wavefront. -/
theorem barrier_live_exit (c : Cfg) (s : State) (w : Wf)
    (hcnt : ¬ (w.ovc > 0 ∨ w.osc > 0)) (hnot : othersCompleted w.wg w.id s.wfs = false)
    (hall : othersAtBarrier w.wg w.id s.wfs = true) :
    ∀ v' ∈ (evalSEndPgm c s w).s.wfs, v'.wg = w.wg → v'.state = .ready ∨ v'.state = .completed := by
  unfold evalSEndPgm
  simp only [hcnt, if_false, hnot, Bool.false_eq_true, hall, if_true]
  intro v' hv' hg
  obtain ⟨v1, hv1, rfl⟩ := mem_updWf.mp hv'
  simp only [passBarrier, List.mem_map] at hv1
  obtain ⟨v, _, rfl⟩ := hv1
  split
  · right; rfl
  · rename_i hne
    rw [if_neg hne, release_wg] at hg
    by_cases hc : v.state = .completed
    · right; rw [release_miss _ _ (Or.inr hc)]; exact hc
    · left; exact (release_hit _ _ hg hc).1

/-- a group is stuck: somebody is parked and everybody is parked or has ended -/
def stuck (g : Nat) (s : State) : Bool :=
  s.wfs.any (fun w => w.wg == g && w.state == .atBarrier) &&
  s.wfs.all (fun w => w.wg != g || w.state == .atBarrier || w.state == .completed)

/-- **barrier_live (full).** After every legal schedule no group is stuck at a barrier. -/
def barrier_live_full (c : Cfg) : Prop :=
  ∀ (s : State) (ops : List Op) (g : Nat), Init s → legalRun c s ops = true → stuck g (run c s ops) = false

def two : State :=
  { wfs := (List.range 2).map (fun i =>
      { id := i, wg := 0, state := .ready, op := 99, lk := 0, vm := 0, osc := 0, ovc := 0,
        pc := 0, inPool := true, arr := 0, bar := 0 })
    exec := [], buf := [], out := [], sent := [], fault := false }

/-- The code before the first repair violates it: wavefront 0 ends, then wavefront 1 arrives at the
    barrier and waits forever (the hang of the r9nano platform reproduced by the harness; the
    emulator panicked on the same program). -/
theorem barrier_live_old_refuted : ¬ barrier_live_full Cfg.old := by
  intro h
  have := h two [.issue 0 1 0 0, .eval, .issue 1 10 0 0, .eval] 0 ⟨rfl, rfl, by decide, by decide⟩ (by decide)
  revert this
  decide

/-- the strongest statement that held before the repair is about groups without an early exit; with
    the repair the same schedule releases wavefront 1 -/
example : stuck 0 (run Cfg.cur two [.issue 0 1 0 0, .eval, .issue 1 10 0 0, .eval]) = false := by decide


/-! ## run-level barrier liveness -/

/-- **barrier_live (full, run level).** After every legal schedule of the repaired code no
    work-group is stuck: a state in which all unfinished wavefronts of a group are parked at the
    barrier is never reached — the event that parks or ends the last moving wavefront of the group
    releases everybody in that very step (`barrier_live_arrive` / `barrier_live_exit` are the step
    forms). Invariant `NS` of `MgpuProofs/C14Live.lean`. -/
theorem barrier_live (c : Cfg) (hA : c.fixA = true) (hB : c.fixB = true) : barrier_live_full c := by
  intro s ops g h0 hl
  have ns := (run_NS hA hB ops (Init_Inv h0) (Init_NS h0) hl).1
  cases hst : stuck g (run c s ops) with
  | false => rfl
  | true =>
    exfalso
    simp only [stuck, Bool.and_eq_true, List.any_eq_true, List.all_eq_true, beq_iff_eq, Bool.or_eq_true,
      bne_iff_ne] at hst
    obtain ⟨⟨v, hv, hvg, hvb⟩, hall⟩ := hst
    obtain ⟨u, hu, hug, hu1, hu2⟩ := ns v hv hvb
    rcases hall u hu with (hh | hh) | hh
    · exact hh (hug.trans hvg)
    · exact hu1 hh
    · exact hu2 hh

/-- **Once all unfinished wavefronts have reached the barrier they all proceed** (every legal run):
    a wavefront is found parked only while some wavefront `u` of its group is still Ready or Running
    in the same barrier phase (`u.bar = v.bar`) and has not been parked at that barrier yet. -/
theorem barrier_live_waits_only_for_movers (c : Cfg) (hA : c.fixA = true) (hB : c.fixB = true) (s : State)
    (ops : List Op) (h0 : Init s) (hl : legalRun c s ops = true) :
    ∀ v ∈ (run c s ops).wfs, v.state = .atBarrier →
      ∃ u ∈ (run c s ops).wfs, u.wg = v.wg ∧ (u.state = .ready ∨ u.state = .running) ∧
        u.bar = v.bar ∧ u.arr ≤ v.arr := by
  intro v hv hvb
  have inv := sched_inv c hA hB s ops h0 hl
  obtain ⟨ns, rng⟩ := run_NS hA hB ops (Init_Inv h0) (Init_NS h0) hl
  obtain ⟨u, hu, hug, hu1, hu2⟩ := ns v hv hvb
  have hact : u.state = .ready ∨ u.state = .running := by
    rcases rng u hu with h | h | h | h
    · exact Or.inl h
    · exact Or.inr h
    · exact absurd h hu1
    · exact absurd h hu2
  have hvnc : v.state ≠ .completed := by rw [hvb]; decide
  have b1 := inv.bars u hu v hv hug hvnc
  have b2 := inv.bars v hv u hu hug.symm hu2
  have hWv := (inv.ghost v hv).2.2 hvb
  have hWu := inv.ghost u hu
  refine ⟨u, hu, hug, hact, by omega, ?_⟩
  rcases hact with h | h
  · have := hWu.2.1 h; omega
  · by_cases ho : u.op = 10
    · have := (hWu.1 h).1 ho; omega
    · have := (hWu.1 h).2 ho; omega

example : ∃ v ∈ (run Cfg.cur demo (demoOps.take 9)).wfs, v.state = .atBarrier := by decide

/-- **barrier_live (temporal form).** In any state reached by a legal schedule: if every unfinished
    wavefront of group `g` has reached the barrier — it is parked, or its `s_barrier` has been issued
    and is in `internalExecuting` — then after the next evaluation round of `EvaluateInternalInst`
    every wavefront of the group is Completed or Ready, released from every barrier it arrived at
    (`bar = arr`): they all proceed, whatever else is in `internalExecuting` (other groups, a full
    barrier buffer, a full port). -/
theorem barrier_live_next_round (c : Cfg) (hA : c.fixA = true) (hB : c.fixB = true) (s : State) (ops : List Op)
    (h0 : Init s) (hl : legalRun c s ops = true) (g : Nat)
    (hreach : ∀ v ∈ (run c s ops).wfs, v.wg = g → v.state = .completed ∨ v.state = .atBarrier ∨
      (v.state = .running ∧ v.op = 10 ∧ v.id ∈ (run c s ops).exec)) :
    ∀ v' ∈ (run c s (ops ++ [.eval])).wfs, v'.wg = g →
      v'.state = .completed ∨ (v'.state = .ready ∧ v'.bar = v'.arr) := by
  have hrun : run c s (ops ++ [.eval]) = (evalInternal c (run c s ops)).1 := by
    unfold run; rw [List.foldl_append]; rfl
  rw [hrun]
  exact evalInternal_releases hA hB (sched_inv c hA hB s ops h0 hl)
    (run_NS hA hB ops (Init_Inv h0) (Init_NS h0) hl) hreach

/-- non-vacuity: in the demo, after 12 events wavefront 0 is parked, wavefront 2 has ended and
    wavefront 1 has just issued its `s_barrier`; the next round releases 0 and 1 -/
example : (run Cfg.cur demo (demoOps.take 12)).wfs.map (fun w => (w.state, w.op)) =
      [(.atBarrier, 10), (.running, 10), (.completed, 1), (.ready, 99), (.ready, 99)] ∧
    (run Cfg.cur demo (demoOps.take 12)).exec = [1] ∧
    (run Cfg.cur demo (demoOps.take 12 ++ [.eval])).wfs.map (fun w => (w.state, w.bar, w.arr)) =
      [(.ready, 1, 1), (.ready, 1, 1), (.completed, 0, 0), (.ready, 0, 0), (.ready, 0, 0)] := by decide


/-! ## the completion message: exactly once -/

theorem count_eq_one_of_nodup {l : List Nat} {a : Nat} (hn : l.Nodup) (h : a ∈ l) : l.count a = 1 := by
  induction l with
  | nil => cases h
  | cons b l ih =>
    rw [List.nodup_cons] at hn
    by_cases hb : b = a
    · subst hb
      rw [List.count_cons_self, List.count_eq_zero.mpr hn.1]
    · rw [List.count_cons_of_ne hb]
      rcases List.mem_cons.mp h with e | e
      · exact absurd e.symm hb
      · exact ih hn.2 e

/-- **wg_completion_exactly_once (safety half: the owed-message flag).** After every legal schedule,
    under arbitrary back-pressure: the log has no repetition and, for the group of every wavefront,
    the message is in the log **iff** all wavefronts of the group have ended — never earlier
    (`wg_completion_once`), and the last wavefront never becomes Completed without its message
    (`DInv`, `MgpuProofs/C14Progress.lean`). Hence the number of messages of a group is 1 once it has
    ended and 0 before. -/
theorem wg_completion_exactly_once (c : Cfg) (hA : c.fixA = true) (hB : c.fixB = true) (s : State)
    (ops : List Op) (h0 : Init s) (hs : s.sent = []) (hl : legalRun c s ops = true) :
    ∀ v ∈ (run c s ops).wfs,
      (v.wg ∈ (run c s ops).sent ↔ ∀ u ∈ (run c s ops).wfs, u.wg = v.wg → u.state = .completed) ∧
      (run c s ops).sent.count v.wg =
        if (run c s ops).wfs.all (fun u => u.wg != v.wg || u.state == .completed) then 1 else 0 := by
  intro v hv
  obtain ⟨hnd, honly⟩ := wg_completion_once c hA hB s ops h0 hs hl
  have hd := run_DInv hA hB ops (Init_Inv h0) (Init_DInv h0) hl
  have hiff : v.wg ∈ (run c s ops).sent ↔ ∀ u ∈ (run c s ops).wfs, u.wg = v.wg → u.state = .completed :=
    ⟨fun h => honly v.wg h, fun h => hd v hv h⟩
  refine ⟨hiff, ?_⟩
  split
  · rename_i hall
    apply count_eq_one_of_nodup hnd
    apply hiff.mpr
    intro u hu hug
    have := List.all_eq_true.mp hall u hu
    simp only [Bool.or_eq_true, bne_iff_ne, beq_iff_eq] at this
    rcases this with hh | hh
    · exact absurd hug hh
    · exact hh
  · rename_i hall
    apply List.count_eq_zero.mpr
    intro hin
    apply hall
    rw [List.all_eq_true]
    intro u hu
    by_cases hug : u.wg = v.wg
    · simp [hiff.mp hin u hu hug]
    · simp [hug]

example : (run Cfg.cur demo demoOps).sent.count 0 = 1 ∧ (run Cfg.cur demo (demoOps.take 20)).sent.count 0 = 0 := by
  decide

/-- **wg_completion_exactly_once (liveness half: at least once if the port is freed).** In any
    reachable state in which the last wavefront `i` of group `g` sits at `s_endpgm` with nothing
    outstanding (`Pending`: the message is owed, only the port can keep it back), every legal
    continuation in which the environment issues no new memory access for `i` and in which more
    evaluation rounds start with room in the ToACE port than there are `internalExecuting` entries
    ahead of `i` ends with the message in the log. Decreasing measure: `ahead i exec` — no event
    increases it, an evaluation round with room decreases it or sends the message
    (`step_progress`). -/
theorem wg_completion_eventually (c : Cfg) (hA : c.fixA = true) (hB : c.fixB = true) (s : State)
    (ops : List Op) (h0 : Init s) (hl : legalRun c s ops = true) (i g : Nat)
    (hp : Pending (run c s ops) i g) (ops' : List Op) (hl' : legalRun c (run c s ops) ops' = true)
    (hm : ops'.all (notMemIssue i) = true)
    (hn : ahead i (run c s ops).exec < roomEvals c (run c s ops) ops') :
    g ∈ (run c (run c s ops) ops').sent :=
  run_progress hA hB ops' (sched_inv c hA hB s ops h0 hl) hp hl' hm hn

/-- wavefront 1 of the demo after 20 events -/
def demoW1 : Wf :=
  { id := 1, wg := 0, state := .running, op := 1, lk := 0, vm := 0, osc := 0, ovc := 0, pc := 3,
    inPool := true, arr := 1, bar := 1 }

/-- non-vacuity: after 20 events of the demo the port is full and wavefront 1 owes the message of
    group 0; one drain and one evaluation round later it is in the log -/
example : Pending (run Cfg.cur demo (demoOps.take 20)) 1 0 ∧
    ahead 1 (run Cfg.cur demo (demoOps.take 20)).exec <
      roomEvals Cfg.cur (run Cfg.cur demo (demoOps.take 20)) [.drain 3, .eval] ∧
    legalRun Cfg.cur (run Cfg.cur demo (demoOps.take 20)) [.drain 3, .eval] = true ∧
    (run Cfg.cur (run Cfg.cur demo (demoOps.take 20)) [.drain 3, .eval]).sent = [0] := by
  refine ⟨⟨demoW1, ⟨by decide, rfl, rfl, by decide, by decide, by decide⟩, rfl, rfl, by decide⟩,
    by decide, by decide, by decide⟩

/-- **... in particular under a dispatcher that takes one message per cycle.** If the port holds at
    most its capacity (≥ 1) and wavefront `i` owes the message of group `g` with `k` entries ahead of it
    in `internalExecuting`, then after `k + 1` cycles "the dispatcher takes one message, the scheduler
    evaluates" the message is in the log — no hypothesis on the schedule is left. -/
theorem wg_completion_fair_dispatcher (c : Cfg) (hA : c.fixA = true) (hB : c.fixB = true) (hcap : 0 < c.aceCap)
    (s : State) (ops : List Op) (h0 : Init s) (hout : s.out.length ≤ c.aceCap)
    (hl : legalRun c s ops = true) (i g : Nat) (hp : Pending (run c s ops) i g) :
    g ∈ (run c (run c s ops) (fairCycles (ahead i (run c s ops).exec + 1))).sent := by
  obtain ⟨a, b, d⟩ := fairCycles_facts c hcap i (ahead i (run c s ops).exec + 1) (run c s ops)
    (run_out_le c ops s hout)
  exact wg_completion_eventually c hA hB s ops h0 hl i g hp _ a b (by omega)

example : (run Cfg.cur (run Cfg.cur demo (demoOps.take 20))
    (fairCycles (ahead 1 (run Cfg.cur demo (demoOps.take 20)).exec + 1))).sent = [0] := by decide

/-- while the port stays full the message is not sent, however many rounds are evaluated: the
    hypothesis on the environment is needed -/
example : (run Cfg.cur (run Cfg.cur demo (demoOps.take 20)) [.eval, .eval, .eval]).sent = [] := by decide

/-! ## the wait counters against the really outstanding accesses -/

/-- **Counters = outstanding last-transaction responses** (any response order). Along every
    consistently annotated run from a fresh state, whatever the order in which responses return,
    `OutstandingVectorMemAccess` is the number of outstanding FLAT instructions whose
    last-transaction response has not arrived, and `OutstandingScalarMemAccess` that number plus the
    same for scalar loads. (Issue side = `issueFlat`: +1 on both per FLAT instruction.) -/
theorem counters_count_last_responses (c : Cfg) (gs : GState) (ops : List GOp) (hf : GFresh gs)
    (hok : respOKRun c gs ops = true) :
    ∀ w ∈ (grun c gs ops).s.wfs,
      w.ovc = (countLast ((grun c gs ops).g w.id).qv : Int) ∧
      w.osc = (countLast ((grun c gs ops).g w.id).qv : Int) + (countLast ((grun c gs ops).g w.id).qs : Int) :=
  grun_Tracked c ops gs (GFresh_inv hf).1 hok

/-- **waitcnt_tracks_truth.** Under in-order returns on each memory path (what the reorder buffer
    of property C15 guarantees: the response that arrives belongs to the oldest outstanding
    instruction, an instruction's last transaction is answered last) the two counters of every
    wavefront equal, in every reachable state, the number of memory instructions that are really
    outstanding — the ghost queues, which are never read by a transition. -/
def waitcnt_tracks_truth_full (c : Cfg) (ordered : Bool) : Prop :=
  ∀ (gs : GState) (ops : List GOp), GFresh gs → respOKRun c gs ops = true →
    (ordered = true → inOrderRun c gs ops = true) →
    ∀ w ∈ (grun c gs ops).s.wfs,
      w.ovc = (((grun c gs ops).g w.id).trueVM : Int) ∧ w.osc = (((grun c gs ops).g w.id).trueLGKM : Int)

theorem waitcnt_tracks_truth (c : Cfg) : waitcnt_tracks_truth_full c true := by
  intro gs ops hf hok hin w hw
  obtain ⟨ht, ha⟩ := GFresh_inv hf
  exact truth_of (grun_Tracked c ops gs ht hok) (grun_AllLast c ops gs ha hok (hin rfl)) hw

/-- one Ready wavefront, nothing outstanding -/
def gone : GState :=
  { s := { wfs := [{ id := 0, wg := 0, state := .ready, op := 99, lk := 0, vm := 0, osc := 0, ovc := 0,
                     pc := 0, inPool := true, arr := 0, bar := 0 }],
           exec := [], buf := [], out := [], sent := [], fault := false }
    g := fun _ => ⟨[], []⟩ }

theorem gone_fresh : GFresh gone := ⟨by decide, fun _ => rfl⟩

/-- Without the ordering hypothesis the statement is false: a FLAT load of two transactions whose
    *last* transaction is answered first has `vmcnt` back at 0 while one of its responses (and so the
    instruction) is still outstanding — `s_waitcnt vmcnt(0)` then completes too early. This is the
    observation recorded in the module notes; it is not reachable behind a reorder buffer. -/
theorem waitcnt_tracks_truth_unordered_refuted : ¬ waitcnt_tracks_truth_full Cfg.cur false := by
  intro h
  have := h gone [.memIssue 0 true 1, .memRet 0 0 0 true] gone_fresh (by decide) (by intro e; cases e)
  revert this
  decide

example : (evalInst Cfg.cur (grun Cfg.cur gone [.memIssue 0 true 1, .memRet 0 0 0 true, .plain (.issue 0 12 0 0)]).s
    { id := 0, wg := 0, state := .running, op := 12, lk := 0, vm := 0, osc := 0, ovc := 0,
      pc := 0, inPool := true, arr := 0, bar := 0 }).completed = true ∧
    ((grun Cfg.cur gone [.memIssue 0 true 1, .memRet 0 0 0 true, .plain (.issue 0 12 0 0)]).g 0).trueVM = 1 := by
  decide

/-- **waitcnt_sound about real accesses.** In every state reachable by a consistently annotated run
    with in-order returns, and at every point of an evaluation round of `EvaluateInternalInst` started
    there (`l₁` = the entries of `internalExecuting` evaluated before), an `s_waitcnt` that completes
    has at most `lgkmcnt` / `vmcnt` memory instructions really outstanding. -/
theorem waitcnt_sound_truth (c : Cfg) (gs : GState) (ops : List GOp) (hf : GFresh gs)
    (hok : respOKRun c gs ops = true) (hin : inOrderRun c gs ops = true) (l₁ : List Nat) (j : Nat) (w : Wf)
    (hget : getWf (l₁.foldl (evalOne c) ({ (grun c gs ops).s with exec := [] }, false)).1.wfs j = some w)
    (hop : w.op = 12)
    (hc : (evalInst c (l₁.foldl (evalOne c) ({ (grun c gs ops).s with exec := [] }, false)).1 w).completed = true) :
    (((grun c gs ops).g w.id).trueLGKM : Int) ≤ w.lk ∧ (((grun c gs ops).g w.id).trueVM : Int) ≤ w.vm := by
  obtain ⟨ht, ha⟩ := GFresh_inv hf
  have ht' : TrackedS (grun c gs ops).g (l₁.foldl (evalOne c) ({ (grun c gs ops).s with exec := [] }, false)).1 :=
    TrackedS_sub (s := ({ (grun c gs ops).s with exec := [] } : State)) (grun_Tracked c ops gs ht hok)
      (foldl_SubL c l₁ _)
  have htr := truth_of ht' (grun_AllLast c ops gs ha hok hin) (getWf_some hget).1
  have := (waitcnt_sound c _ w hop).1 hc
  rw [← htr.1, ← htr.2]
  exact this

/-- **endpgm_waits about real accesses**: under the same hypotheses an `s_endpgm` completes only when
    no memory instruction of the wavefront is really outstanding. -/
theorem endpgm_waits_truth (c : Cfg) (gs : GState) (ops : List GOp) (hf : GFresh gs)
    (hok : respOKRun c gs ops = true) (hin : inOrderRun c gs ops = true) (l₁ : List Nat) (j : Nat) (w : Wf)
    (hget : getWf (l₁.foldl (evalOne c) ({ (grun c gs ops).s with exec := [] }, false)).1.wfs j = some w)
    (hop : w.op = 1)
    (hc : (evalInst c (l₁.foldl (evalOne c) ({ (grun c gs ops).s with exec := [] }, false)).1 w).completed = true) :
    ((grun c gs ops).g w.id).trueLGKM = 0 ∧ ((grun c gs ops).g w.id).trueVM = 0 := by
  obtain ⟨ht, ha⟩ := GFresh_inv hf
  have ht' : TrackedS (grun c gs ops).g (l₁.foldl (evalOne c) ({ (grun c gs ops).s with exec := [] }, false)).1 :=
    TrackedS_sub (s := ({ (grun c gs ops).s with exec := [] } : State)) (grun_Tracked c ops gs ht hok)
      (foldl_SubL c l₁ _)
  have htr := truth_of ht' (grun_AllLast c ops gs ha hok hin) (getWf_some hget).1
  have := (endpgm_waits c _ w hop).1 hc
  omega

/-- the demo with one FLAT load of two transactions of wavefront 1, answered in order, and an
    `s_waitcnt 0`: it completes only after the second response -/
def gdemoOps : List GOp :=
  [.plain (.issueUnit 1), .memIssue 1 true 1, .plain (.unitDone 1), .plain (.issue 1 12 0 0), .plain .eval,
   .memRet 1 0 0 false, .plain .eval, .memRet 1 0 0 true, .plain .eval]

example : respOKRun Cfg.cur ⟨demo, fun _ => ⟨[], []⟩⟩ gdemoOps = true ∧
    inOrderRun Cfg.cur ⟨demo, fun _ => ⟨[], []⟩⟩ gdemoOps = true ∧
    legalRun Cfg.cur demo (gdemoOps.map GOp.erase) = true ∧
    ((grun Cfg.cur ⟨demo, fun _ => ⟨[], []⟩⟩ (gdemoOps.take 7)).g 1).trueVM = 1 ∧
    (grun Cfg.cur ⟨demo, fun _ => ⟨[], []⟩⟩ (gdemoOps.take 7)).s.exec = [1] ∧
    (grun Cfg.cur ⟨demo, fun _ => ⟨[], []⟩⟩ gdemoOps).s.exec = [] ∧
    ((grun Cfg.cur ⟨demo, fun _ => ⟨[], []⟩⟩ gdemoOps).g 1).trueVM = 0 := by decide

/-! ## the emulator -/

/-- **emulator barrier resolution (repaired).** After every wavefront ran to its next barrier or to
    its end, `resolveBarrier` does not panic. -/
theorem emu_resolve_ok (wfs : List EWf) : emuResolve true (wfs.map emuRunWf) ≠ none := by
  unfold emuResolve
  split
  · simp
  · rw [if_pos]
    · simp
    · simp only [List.all_eq_true, List.mem_map]
      rintro _ ⟨w, _, rfl⟩
      unfold emuRunWf
      split
      · rename_i h; simp [h]
      · split <;> simp

/-- before the repair a group with an early-exiting wavefront panicked -/
theorem emu_old_refuted : emuRunWG false 3
    [⟨0, false, false, 0⟩, ⟨1, false, false, 0⟩] = none := by decide

example : (emuRunWG true 3 [⟨0, false, false, 0⟩, ⟨1, false, false, 0⟩]).map
    (fun r => (r.2, r.1.map (·.bar))) = some (true, [0, 1]) := by decide

end C14
