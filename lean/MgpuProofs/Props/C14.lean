import MgpuModel.C14
namespace C14
theorem stub : True := trivial
end C14
