import MgpuProofs.C18Hyp
import MgpuModel.C18_Sys
/-! # C18 — hypothesis audit

For every hypothesis of the C18 property theorems: either the hypothesis is REMOVED (a theorem with
the same conclusion and without it), or a kernel-checked witness shows that the conclusion fails when
that hypothesis alone is dropped and ALL the others are kept (so the witness satisfies them).

| theorem (file)                         | hypothesis                  | verdict                                              |
|----------------------------------------|-----------------------------|------------------------------------------------------|
| `wgdist_partitions` (Props/C18)        | `0 < total`                 | removed — `wgdist_partitions_all` (Props/C18Tie)     |
|                                        | `0 < Σcu`                   | necessary — `wgdist_needs_cus` (Props/C18Tie); an    |
|                                        |                             | empty grid is `wgdist_empty_grid` (Props/C18Tie)     |
| `placement_invariant` (Props/C18Mem)   | `0 < c.S`                   | removed — `placement_invariant_noS`                  |
|                                        | `0 < c.P`                   | necessary — `placement_needs_page_size`              |
|                                        | `GoodPlacement.inj`         | necessary — `placement_needs_injective`              |
|                                        | `GoodPlacement.inBank`      | necessary — `placement_needs_gpu_bank`, and each half|
|                                        |                             | `placement_needs_not_host_bank`, `…_bank_in_table`   |
|                                        | `accMapped`                 | necessary — `placement_needs_mapped`                 |
| `placement_independent`                | `0 < c1.S`, `0 < c2.S`      | removed — `placement_independent_noS`                |
| `placement_invariant_alloc`            | `0 < c.S`                   | removed — `placement_invariant_alloc_noS`            |
| `served_by_owner`                      | `0 < c.S`                   | removed — `served_by_owner_noS` (with `S = 0` nothing |
|                                        |                             | is served at all: `served_needs_bank_size`)          |
| `local_iff_owner`                      | `0 < S`                     | necessary — `local_iff_owner_needs_bank_size`        |
| `owner_routing` (Props/C18)            | `d ≤ n`                     | necessary — `owner_routing_needs_device`             |
|                                        | `P + d*S ≤ a`               | necessary — `owner_routing_needs_above_first_page`   |
|                                        | `a < d*S + S`               | necessary — `owner_routing_needs_below_last_page`    |
|                                        |                             | (finding `C18-owner-last-page`)                      |
| `alloc_last_page_next_bank`            | `P ≤ S`                     | necessary — `last_page_needs_page_le_bank`           |
| `sys_no_channel_fault` (Props/C18Sys)  | `WFRun` (`hw`)              | necessary — `sys_needs_wellformed`                   |

On the real platform the bank size is the generated constant 4 GiB and the page size 4 KiB
(`platOf_ok`, Props/C18Plat.lean), so the remaining size hypotheses are discharged there. -/
namespace C18

/-! ## `placement_invariant`: `0 < c.S` removed -/

/-- **placement_invariant_noS.** `placement_invariant` without the hypothesis `0 < c.S`: a positive page
size, a good placement and mapped accesses suffice. (With bank size 0 every address is in "bank 0", the
bank half of `GoodPlacement` then forbids every mapped page, so only empty accesses are possible and
both runs are trivial; otherwise this is `placement_invariant`.) -/
theorem placement_invariant_noS (c : MemCfg) (pt : PageTable) (accs : List Acc) (hP : 0 < c.P)
    (hg : GoodPlacement c pt) (hm : ∀ a ∈ accs, accMapped c pt a) :
    (runMem c pt accs).fault = none ∧
    (runMem c pt accs).loads = (flatRun accs).loads ∧
    (∀ v, (pt.lookup (v / c.P)).isSome = true →
      vread c pt (runMem c pt accs).dram v = some ((flatRun accs).mem v)) ∧
    virtImage c pt (runMem c pt accs).dram = flatImage c pt (flatRun accs).mem := by
  rcases Nat.eq_zero_or_pos c.S with h0 | hS
  · have hpt : pt = [] :=
      pt_nil_of_bank_zero c pt hP h0 (fun vp pp h off hoff => (hg.inBank vp pp h off hoff).1)
    subst hpt
    have h := placement_invariant ⟨c.P, 1, c.n⟩ [] accs hP Nat.zero_lt_one (goodPlacement_nil _)
      (fun a ha => (accMapped_nil_pt c ⟨c.P, 1, c.n⟩ a).1 (hm a ha))
    rw [runMem_nil_pt c ⟨c.P, 1, c.n⟩]
    refine ⟨h.1, h.2.1, ?_, rfl⟩
    intro v hv
    simp at hv
  · exact placement_invariant c pt accs hP hS hg hm

/-- the new case is not empty: bank size 0, an empty page table, empty accesses — both runs give the
    same (empty) load results; and the old case is still covered -/
example : GoodPlacement ⟨16, 0, 2⟩ [] ∧ (∀ a ∈ [Acc.store 1 5 [], .load 2 7 0], accMapped ⟨16, 0, 2⟩ [] a) ∧
    (runMem ⟨16, 0, 2⟩ [] [.store 1 5 [], .load 2 7 0]).loads = [[]] ∧
    (flatRun [.store 1 5 [], .load 2 7 0]).loads = [[]] ∧
    (runMem ⟨16, 64, 2⟩ [(0, 7), (1, 8)] [.store 1 12 [1, 2, 3, 4, 5, 6], .load 2 10 8]).loads =
      [[0, 0, 1, 2, 3, 4, 5, 6]] :=
  ⟨goodPlacement_nil _, by decide, by decide, by decide, by decide⟩

/-- **placement_independent_noS.** `placement_independent` without the two bank-size hypotheses. -/
theorem placement_independent_noS (c1 c2 : MemCfg) (pt1 pt2 : PageTable) (accs1 accs2 : List Acc)
    (hP1 : 0 < c1.P) (hP2 : 0 < c2.P)
    (hg1 : GoodPlacement c1 pt1) (hg2 : GoodPlacement c2 pt2)
    (hm1 : ∀ a ∈ accs1, accMapped c1 pt1 a) (hm2 : ∀ a ∈ accs2, accMapped c2 pt2 a)
    (hsame : accs1.map Acc.noGpu = accs2.map Acc.noGpu) :
    (runMem c1 pt1 accs1).fault = none ∧ (runMem c2 pt2 accs2).fault = none ∧
    (runMem c1 pt1 accs1).loads = (runMem c2 pt2 accs2).loads ∧
    (∀ v, (pt1.lookup (v / c1.P)).isSome = true → (pt2.lookup (v / c2.P)).isSome = true →
      vread c1 pt1 (runMem c1 pt1 accs1).dram v = vread c2 pt2 (runMem c2 pt2 accs2).dram v) ∧
    (c1.P = c2.P → pt1.map (·.1) = pt2.map (·.1) →
      virtImage c1 pt1 (runMem c1 pt1 accs1).dram = virtImage c2 pt2 (runMem c2 pt2 accs2).dram) := by
  have h1 := placement_invariant_noS c1 pt1 accs1 hP1 hg1 hm1
  have h2 := placement_invariant_noS c2 pt2 accs2 hP2 hg2 hm2
  have hf : flatRun accs1 = flatRun accs2 := by
    rw [← flatRun_noGpu accs1, ← flatRun_noGpu accs2, hsame]
  refine ⟨h1.1, h2.1, ?_, ?_, ?_⟩
  · rw [h1.2.1, h2.2.1, hf]
  · intro v hv1 hv2
    rw [h1.2.2.1 v hv1, h2.2.2.1 v hv2, hf]
  · intro hP hv
    rw [h1.2.2.2, h2.2.2.2, hf]
    exact flatImage_congr c1 c2 pt1 pt2 _ hP hv

/-- **placement_invariant_alloc_noS.** `placement_invariant_alloc` without `0 < c.S`. -/
theorem placement_invariant_alloc_noS (c : MemCfg) (pt : PageTable) (accs : List Acc) (hP : 0 < c.P)
    (hinj : ∀ vp1 vp2 pp, pt.lookup vp1 = some pp → pt.lookup vp2 = some pp → vp1 = vp2)
    (ha : AllocPlacement c pt) (hm : ∀ a ∈ accs, accMapped c pt a) :
    GoodPlacement c pt ∧
    (runMem c pt accs).fault = none ∧
    (runMem c pt accs).loads = (flatRun accs).loads ∧
    virtImage c pt (runMem c pt accs).dram = flatImage c pt (flatRun accs).mem := by
  have hg : GoodPlacement c pt := by
    refine ⟨hinj, ?_⟩
    intro vp pp hl off hoff
    obtain ⟨d, hd1, hdn, hlo, hhi⟩ := ha vp pp hl
    have := (alloc_frame_in_bank c.P c.S c.n d pp off hdn hlo hhi hoff).2.1
    omega
  have h := placement_invariant_noS c pt accs hP hg hm
  exact ⟨hg, h.1, h.2.1, h.2.2.2⟩

/-- hypotheses of the two corollaries are met by the examples of Props/C18Mem.lean (1 GPU against 3
    GPUs, frames inside the allocator ranges) -/
example : GoodPlacement ⟨16, 64, 1⟩ [(0, 4), (1, 5), (2, 6)] ∧ GoodPlacement ⟨16, 64, 3⟩ [(0, 15), (1, 9), (2, 4)] ∧
    [Acc.store 1 12 [1, 2], .load 1 10 8].map Acc.noGpu = [Acc.store 3 12 [1, 2], .load 2 10 8].map Acc.noGpu ∧
    (runMem ⟨16, 64, 3⟩ [(0, 15), (1, 9), (2, 4)] [.store 3 12 [1, 2], .load 2 10 8]).loads = [[0, 0, 1, 2, 0, 0, 0, 0]] :=
  ⟨goodPlacement_of_list _ _ (by decide) (by decide), goodPlacement_of_list _ _ (by decide) (by decide),
    by decide, by decide⟩

/-! ## `placement_invariant`: the other four hypotheses are necessary -/

/-- **placement_needs_page_size.** `0 < c.P` cannot be dropped from `placement_invariant`: with page
size 0 (`v / 0 = 0`, `v % 0 = v`) the table `[(0, 1)]` is a good placement (the bank condition
quantifies over no offset) and the store to virtual address 5 is mapped, but the byte goes to physical
address `1·0 + 5 = 5` in the host bank: fault `cpu`. -/
theorem placement_needs_page_size :
    ¬ (∀ (c : MemCfg) (pt : PageTable) (accs : List Acc), 0 < c.S → GoodPlacement c pt →
        (∀ a ∈ accs, accMapped c pt a) →
        (runMem c pt accs).fault = none ∧ (runMem c pt accs).loads = (flatRun accs).loads) := by
  intro h
  have := h ⟨0, 64, 2⟩ [(0, 1)] [.store 1 5 [7]] (by decide)
    (goodPlacement_of_list _ _ (by decide) (by decide)) (by decide)
  revert this
  decide

/-- **placement_needs_injective.** The injectivity half of `GoodPlacement` cannot be dropped: two
virtual pages on one frame (frame 4 = bytes 64…79, in GPU 1's bank) alias — the load of page 1 sees
the store to page 0 (`[[7]]`), the flat reference does not (`[[0]]`). -/
theorem placement_needs_injective :
    ¬ (∀ (c : MemCfg) (pt : PageTable) (accs : List Acc), 0 < c.P → 0 < c.S →
        (∀ vp pp, pt.lookup vp = some pp → ∀ off, off < c.P →
          1 ≤ bank c.S (pp * c.P + off) ∧ bank c.S (pp * c.P + off) ≤ c.n) →
        (∀ a ∈ accs, accMapped c pt a) →
        (runMem c pt accs).fault = none ∧ (runMem c pt accs).loads = (flatRun accs).loads) := by
  intro h
  have := h ⟨16, 64, 2⟩ [(0, 4), (1, 4)] [.store 1 0 [7], .load 2 16 1] (by decide) (by decide)
    (forall_lookup_of_list _ (fun pp => ∀ off, off < 16 → 1 ≤ bank 64 (pp * 16 + off) ∧ bank 64 (pp * 16 + off) ≤ 2)
      (by decide))
    (by decide)
  revert this
  decide

/-- **placement_needs_gpu_bank.** The bank half of `GoodPlacement` cannot be dropped: an injective
placement with its frame in the host bank (frame 1 = bytes 16…31, bank 0 = port "CPU") faults `cpu`. -/
theorem placement_needs_gpu_bank :
    ¬ (∀ (c : MemCfg) (pt : PageTable) (accs : List Acc), 0 < c.P → 0 < c.S →
        (∀ vp1 vp2 pp, pt.lookup vp1 = some pp → pt.lookup vp2 = some pp → vp1 = vp2) →
        (∀ a ∈ accs, accMapped c pt a) →
        (runMem c pt accs).fault = none ∧ (runMem c pt accs).loads = (flatRun accs).loads) := by
  intro h
  have := h ⟨16, 64, 2⟩ [(0, 1)] [.store 1 0 [7]] (by decide) (by decide) (inj_of_list _ (by decide)) (by decide)
  revert this
  decide

/-- **placement_needs_not_host_bank.** Of the bank hypothesis the lower half `1 ≤ bank` cannot be
dropped even when the upper half `bank ≤ n` is kept: frame 1 lies in bank 0 ≤ 2, fault `cpu`. -/
theorem placement_needs_not_host_bank :
    ¬ (∀ (c : MemCfg) (pt : PageTable) (accs : List Acc), 0 < c.P → 0 < c.S →
        (∀ vp1 vp2 pp, pt.lookup vp1 = some pp → pt.lookup vp2 = some pp → vp1 = vp2) →
        (∀ vp pp, pt.lookup vp = some pp → ∀ off, off < c.P → bank c.S (pp * c.P + off) ≤ c.n) →
        (∀ a ∈ accs, accMapped c pt a) →
        (runMem c pt accs).fault = none ∧ (runMem c pt accs).loads = (flatRun accs).loads) := by
  intro h
  have := h ⟨16, 64, 2⟩ [(0, 1)] [.store 1 0 [7]] (by decide) (by decide) (inj_of_list _ (by decide))
    (forall_lookup_of_list _ (fun pp => ∀ off, off < 16 → bank 64 (pp * 16 + off) ≤ 2) (by decide))
    (by decide)
  revert this
  decide

/-- **placement_needs_bank_in_table.** … and the upper half `bank ≤ n` cannot be dropped when the lower
half is kept: frame 12 = bytes 192…207 lies in bank 3 of a 2-GPU platform, beyond the RDMA table: fault
`bounds` (the slice-index panic of `BankedAddressPortMapper.Find`). -/
theorem placement_needs_bank_in_table :
    ¬ (∀ (c : MemCfg) (pt : PageTable) (accs : List Acc), 0 < c.P → 0 < c.S →
        (∀ vp1 vp2 pp, pt.lookup vp1 = some pp → pt.lookup vp2 = some pp → vp1 = vp2) →
        (∀ vp pp, pt.lookup vp = some pp → ∀ off, off < c.P → 1 ≤ bank c.S (pp * c.P + off)) →
        (∀ a ∈ accs, accMapped c pt a) →
        (runMem c pt accs).fault = none ∧ (runMem c pt accs).loads = (flatRun accs).loads) := by
  intro h
  have := h ⟨16, 64, 2⟩ [(0, 12)] [.store 1 0 [7]] (by decide) (by decide) (inj_of_list _ (by decide))
    (forall_lookup_of_list _ (fun pp => ∀ off, off < 16 → 1 ≤ bank 64 (pp * 16 + off)) (by decide))
    (by decide)
  revert this
  decide

/-- **placement_needs_mapped.** `accMapped` cannot be dropped: on a good placement with one mapped page
a two-byte store that starts at the page's last byte runs into the unmapped next page: fault `page`. -/
theorem placement_needs_mapped :
    ¬ (∀ (c : MemCfg) (pt : PageTable) (accs : List Acc), 0 < c.P → 0 < c.S → GoodPlacement c pt →
        (runMem c pt accs).fault = none ∧ (runMem c pt accs).loads = (flatRun accs).loads) := by
  intro h
  have := h ⟨16, 64, 2⟩ [(0, 4)] [.store 1 15 [7, 8]] (by decide) (by decide)
    (goodPlacement_of_list _ _ (by decide) (by decide))
  revert this
  decide

/-- the five witness runs, and that each witness fails ONLY the hypothesis it is meant to fail
    (`P = 0`; frame 4 used twice; bank 0; bank 3 > 2; byte 16 unmapped) -/
example :
    (runMem ⟨0, 64, 2⟩ [(0, 1)] [.store 1 5 [7]]).fault = some .cpu ∧
    translate ⟨0, 64, 2⟩ [(0, 1)] 5 = some 5 ∧
    (runMem ⟨16, 64, 2⟩ [(0, 4), (1, 4)] [.store 1 0 [7], .load 2 16 1]).loads = [[7]] ∧
    (flatRun [.store 1 0 [7], .load 2 16 1]).loads = [[0]] ∧
    ¬ ([(0, 4), (1, 4)].map (·.2)).Nodup ∧
    (runMem ⟨16, 64, 2⟩ [(0, 1)] [.store 1 0 [7]]).fault = some .cpu ∧ bank 64 (1 * 16) = 0 ∧
    (runMem ⟨16, 64, 2⟩ [(0, 12)] [.store 1 0 [7]]).fault = some .bounds ∧ bank 64 (12 * 16) = 3 ∧
    (runMem ⟨16, 64, 2⟩ [(0, 4)] [.store 1 15 [7, 8]]).fault = some .page ∧
    ¬ accMapped ⟨16, 64, 2⟩ [(0, 4)] (.store 1 15 [7, 8]) := by
  decide

/-! ## Routing agrees with the owner bank: the bank-size hypothesis -/

/-- **served_needs_bank_size.** With bank size 0 no GPU keeps any address local and the RDMA table
(`BankedAddressPortMapper` with `BankSize = 0`: Go divides by zero) serves nothing: every access of
every GPU to every address faults. -/
theorem served_needs_bank_size (P n g pa : Nat) : target ⟨P, 0, n⟩ g pa = .error .bounds := by
  simp [target, isLocal, routeOut, rdmaCfg]

/-- **served_by_owner_noS.** Nevertheless `served_by_owner` holds as stated without `0 < c.S`: with
bank size 0 every address is in "bank 0", so its premise `1 ≤ bank` is never met, and the fault is
`bounds`, not `loop`. -/
theorem served_by_owner_noS (c : MemCfg) (g pa : Nat) :
    (1 ≤ bank c.S pa → bank c.S pa ≤ c.n → target c g pa = .ok (bank c.S pa)) ∧
    target c g pa ≠ .error .loop := by
  rcases Nat.eq_zero_or_pos c.S with h0 | hS
  · obtain ⟨P, S, n⟩ := c
    simp only at h0
    subst h0
    refine ⟨fun h1 => ?_, ?_⟩
    · simp [bank] at h1
    · rw [served_needs_bank_size]
      intro h
      cases h
  · exact served_by_owner c g pa hS

/-- **local_iff_owner_needs_bank_size.** `0 < S` cannot be dropped from `local_iff_owner`: with `S = 0`
address 5 is in "bank 0" (`5 / 0 = 0`) but GPU 0's local range `[0, 0)` is empty. -/
theorem local_iff_owner_needs_bank_size : ¬ (∀ S g pa, isLocal S g pa = true ↔ g = bank S pa) := by
  intro h
  have := h 0 0 5
  revert this
  decide

example : target ⟨16, 0, 2⟩ 1 130 = .error .bounds ∧ isLocal 0 0 5 = false ∧ bank 0 5 = 0 ∧
    target ⟨16, 64, 2⟩ 1 130 = .ok 2 :=
  ⟨rfl, by decide, by decide, rfl⟩

/-! ## `owner_routing`: each of its three hypotheses is necessary -/

/-- **owner_routing_needs_device.** `d ≤ n` cannot be dropped: the range a device beyond the registered
ones would have is owned by nobody (`deviceIDByPAddr` finds no device). 2 GPUs, `d = 3`. -/
theorem owner_routing_needs_device :
    ¬ (∀ S P n d a, P + d * S ≤ a → a < d * S + S → allocOwner P S n a = some d) := by
  intro h
  have := h 64 16 2 3 (3 * 64 + 20) (by decide) (by decide)
  revert this
  decide

/-- **owner_routing_needs_above_first_page.** The lower bound `P + d*S ≤ a` cannot be weakened to the
bank's own lower bound `d*S ≤ a`: the first page of bank `d` belongs to device `d - 1` for the allocator
(its ranges start one page above 0). Address 70 = bank 1, allocator device 0. -/
theorem owner_routing_needs_above_first_page :
    ¬ (∀ S P n d a, d ≤ n → d * S ≤ a → a < d * S + S → allocOwner P S n a = some d) := by
  intro h
  have := h 64 16 2 1 70 (by decide) (by decide) (by decide)
  revert this
  decide

/-- **owner_routing_needs_below_last_page** (finding `C18-owner-last-page`, cf.
`owner_routing_full_refuted`). The upper bound `a < d*S + S` cannot be weakened to the allocator's own
upper bound `a < P + d*S + S`: the last page of device `d`'s range lies in bank `d + 1`. Address 128 is
device 1's for the allocator and bank 2 for the RDMA table. -/
theorem owner_routing_needs_below_last_page :
    ¬ (∀ S P n d a, d ≤ n → P + d * S ≤ a → a < P + d * S + S → bank S a = d) := by
  intro h
  have := h 64 16 2 1 128 (by decide) (by decide) (by decide)
  revert this
  decide

/-- **last_page_needs_page_le_bank.** `P ≤ S` cannot be dropped from `alloc_last_page_next_bank`: with a
page larger than a bank the "last page" `[(d+1)·S, (d+1)·S + P)` of device 0 starts below the
allocator's first address. -/
theorem last_page_needs_page_le_bank :
    ¬ (∀ P S n d a, d ≤ n → (d + 1) * S ≤ a → a < (d + 1) * S + P →
        allocOwner P S n a = some d ∧ bank S a = d + 1) := by
  intro h
  have := h 100 64 2 0 64 (by decide) (by decide) (by decide)
  revert this
  decide

example : allocOwner 16 64 2 (3 * 64 + 20) = none ∧ allocOwner 16 64 2 70 = some 0 ∧ bank 64 70 = 1 ∧
    allocOwner 16 64 2 128 = some 1 ∧ bank 64 128 = 2 ∧ allocOwner 100 64 2 64 = none ∧
    allocOwner 16 64 2 (64 + 20) = some 1 ∧ bank 64 (64 + 20) = 1 := by
  decide

/-! ## The closed system: well-formed requests are necessary -/

/-- **sys_needs_wellformed.** The hypothesis `WFRun` of `sys_no_channel_fault` (Props/C18Sys.lean: every
request an L1 side issues is a `mem.AccessReq` whose address lies inside the remote table) cannot be
dropped; the statement below is `sys_no_channel_fault` without it. Two nodes with 4 KiB banks: the L1
side of node 0 issues a read of address `0x5000` (bank 5 of a 2-entry table); the next tick of node 0
panics in `BankedAddressPortMapper.Find` (fault `bounds` on the inside→outside channel). -/
theorem sys_needs_wellformed :
    ¬ (∀ (cfgs : List Cfg) (ops : List SOp), (∀ c ∈ cfgs, 0 < c.isz ∧ 0 < c.k) →
        ∀ (b : Nat) (B : Node), (srun (initSys cfgs) ops).nodes[b]? = some B →
          B.s.io.fault = none ∧ B.s.oi.fault = none) := by
  intro h
  have key : ((srun (initSys [nodeCfg 2 1 1 1 1 0x1000 2 0x40 1 0, nodeCfg 2 1 1 1 1 0x1000 2 0x40 1 1])
      [.issue 0 7 (.read 0x5000 4 0), .tick 0]).nodes[0]?.map (·.s.io.fault)) = some (some "bounds") := by
    decide +kernel
  cases hB : (srun (initSys [nodeCfg 2 1 1 1 1 0x1000 2 0x40 1 0, nodeCfg 2 1 1 1 1 0x1000 2 0x40 1 1])
      [.issue 0 7 (.read 0x5000 4 0), .tick 0]).nodes[0]? with
  | none => rw [hB] at key; cases key
  | some B =>
    rw [hB] at key
    have h1 := (h _ _ (by decide) 0 B hB).1
    simp only [Option.map_some] at key
    rw [h1] at key
    cases key

/-- the same system with a well-formed request (address `0x1010`, bank 1) does not fault and forwards it -/
example :
    ((srun (initSys [nodeCfg 2 1 1 1 1 0x1000 2 0x40 1 0, nodeCfg 2 1 1 1 1 0x1000 2 0x40 1 1])
      [.issue 0 7 (.read 0x1010 4 0), .tick 0]).nodes.map fun nd => (nd.s.io.fault, nd.s.io.fwd.length)) =
      [(none, 1), (none, 0)] ∧
    routeOut (nodeCfg 2 1 1 1 1 0x1000 2 0x40 1 0) 0x5000 = none := by
  decide +kernel

end C18
