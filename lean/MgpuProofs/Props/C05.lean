import MgpuModel.C05
import MgpuProofs.C05
import MgpuProofs.Props.C04
/-! # C05 — property theorems (simulations are reproducible bit for bit)

Non-determinism can enter this code base through (a) Go map iteration, (b) goroutine hand-off,
(c) wall-clock / random sources, (d) the parallel engine. (a) and (c) are settled here by
REGENERATED site lists that must be covered by an audit, plus an order-independence theorem per
audited site; (b) is the protocol of property C12; (d) is Akita's. Whole-simulator equality of two
runs is observed by the harness, not proved (this property is claimed as partial). -/
namespace C05

/-- every `range` over a map the audit knows, with the theorem that makes it harmless -/
def auditedMapSites : List (String × String × String) := [
  -- at most one registered device range contains an address: `site_deviceIDByPAddr`
  ("amd/driver/internal/memoryallocator.go", "memoryAllocatorImpl.deviceIDByPAddr", "a.devices"),
  -- copies of the VOP1 rows: `site_decodeTableCopy`
  ("amd/insts/decodetable.go", "Disassembler.initializeDecodeTable", "d.decodeTables[VOP1].insts"),
  -- format list sorted by mask afterwards: `site_initFormatList`
  ("amd/insts/disassembler.go", "Disassembler.initFormatList", "FormatTable"),
  -- keys are collected and sorted before use: `site_reportKeys`
  ("amd/samples/runner/report.go", "reporter.reportCPIStackEntries", "cpiStack"),
  -- map built from a map: `site_cpiStack`
  ("amd/timing/cu/cpistacktracer.go", "CPIStackTracer.GetCPIStack", "h.timeStack"),
  ("amd/timing/cu/cpistacktracer.go", "CPIStackTracer.GetSIMDCPIStack", "h.timeStack")
]

/-- **No unaudited map iteration**: every `range` over a map found in the simulator packages of
    the CURRENT tree is one of the audited sites. A new (or moved) map loop breaks this. -/
theorem map_sites_all_audited : Gen.mapSites.all (auditedMapSites.contains ·) = true := by decide

/-- wall-clock reads allowed: the sampling engine stores a start time for its own statistics
    (opt-in `-wf-sampling`; the value never feeds simulated time) -/
def allowedClockSites : List (String × String × String) := [
  ("amd/sampling/wfsampling.go", "SampledEngine.Reset", "time.Now")
]

/-- **No wall clock or random source** in the simulator packages beyond the allowed statistics. -/
theorem clock_sites_all_audited : Gen.clockSites.all (allowedClockSites.contains ·) = true := by decide

/-- goroutines started by the simulator: the driver thread, the engine thread (protocol of
    property C12) and one thread per benchmark in the runner -/
def auditedGoSites : List (String × String × String) := [
  ("amd/driver/driver.go", "Driver.Run", "d.runAsync"),
  ("amd/driver/driver.go", "Driver.runAsync", "d.runEngine"),
  ("amd/samples/runner/runner.go", "Runner.Run", "func literal")
]

/-- **No unaudited goroutine** in the simulator packages. -/
theorem go_sites_all_audited : Gen.goSites.all (auditedGoSites.contains ·) = true := by decide

/-- `deviceIDByPAddr` returns the same device for EVERY iteration order of the device map, for
    every list of registered device sizes (unified devices have size 0) and every address. -/
theorem site_deviceIDByPAddr (szs : List Nat) (start : Nat) (order : List Dev)
    (hp : order.Perm (register szs 0 start)) (p : Nat) :
    deviceIDByPAddr order p = deviceIDByPAddr (register szs 0 start) p := by
  unfold deviceIDByPAddr
  rw [find?_perm_of_unique (onDevice p) order (register szs 0 start) hp]
  intro a ha b hb
  exact register_unique szs 0 start p a (hp.subset ha) b (hp.subset hb)

example : deviceIDByPAddr (register [4096, 8192, 0, 8192] 0 4096).reverse 17000 = some 3 := by decide

/-- `initFormatList`: every admissible order of the format list decodes identically. -/
theorem site_initFormatList (l : List Gen.Format) (hp : l.Perm Gen.formats) (hs : C04.SortedDesc l)
    (w : Nat) : C04.matchFormatIn l w = C04.matchFormat w :=
  C04.matchFormat_order_irrelevant l hp hs w

/-- `initializeDecodeTable`: whatever order the VOP1 rows are copied in, every table lookup gives
    the same row (only the never-read `InstType.ID` depends on the order). -/
theorem site_decodeTableCopy (cs : List Gen.Row) (hp : cs.Perm C04.copies) (ft op : Nat) :
    C04.lastRow (Gen.rowsBefore ++ cs ++ Gen.rowsAfter) ft op = C04.lookUp ft op := by
  unfold C04.lookUp C04.allRows
  have hperm : (Gen.rowsBefore ++ cs ++ Gen.rowsAfter).Perm (Gen.rowsBefore ++ C04.copies ++ Gen.rowsAfter) :=
    ((List.Perm.refl _).append hp).append (List.Perm.refl _)
  have hk := C04.rows_keys_nodup
  unfold C04.allRows at hk
  have hk' : ((Gen.rowsBefore ++ cs ++ Gen.rowsAfter).map C04.rkey).Nodup :=
    (hperm.map _).nodup_iff.mpr hk
  exact C04.lastRow_perm _ _ hperm hk'
    (fun r hr => C04.rows_opcode_bound r (hperm.subset hr)) ft op

/-- `GetCPIStack` / `GetSIMDCPIStack`: a map built by inserting the entries of a map (pairwise
    distinct keys) is the same map for every iteration order. -/
theorem site_cpiStack (m₁ m₂ : List (Nat × Nat)) (hp : m₁.Perm m₂) (hk : (m₁.map (·.1)).Nodup)
    (k : Nat) : lookupLast m₁ k = lookupLast m₂ k := lookupLast_perm m₁ m₂ hp hk k

/-- `reportCPIStackEntries`: the keys are sorted before they are used, and two strictly sorted
    lists with the same elements are the same list — the report order is fixed. -/
theorem site_reportKeys (k₁ k₂ : List Nat) (hp : k₁.Perm k₂)
    (s₁ : k₁.Pairwise (· < ·)) (s₂ : k₂.Pairwise (· < ·)) : k₁ = k₂ :=
  List.Perm.eq_of_pairwise (le := (· < ·)) (fun _ _ _ _ h1 h2 => absurd h1 (Nat.lt_asymm h2)) s₁ s₂ hp

end C05
