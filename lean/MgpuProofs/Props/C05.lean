import MgpuModel.C05
import MgpuProofs.C05
import MgpuProofs.C05Sites
import MgpuProofs.Props.C04
/-! # C05 — property theorems (simulations are reproducible bit for bit)

Non-determinism can enter this code base through (a) Go map iteration, (b) goroutine hand-off,
(c) wall-clock / random sources, (d) the parallel engine. (a) and (c) are settled here by
REGENERATED site lists that must be covered by an audit, plus an order-independence theorem per
audited site; (b) is the protocol of property C12; (d) is Akita's. Whole-simulator equality of two
runs is observed by the harness, not proved (this property is claimed as partial). -/
namespace C05

/-- every `range` over a map the audit knows, with the theorem that makes it harmless -/
def auditedMapSites : List (String × String × String) := [
  -- at most one registered device range contains an address: `site_deviceIDByPAddr`
  ("amd/driver/internal/memoryallocator.go", "memoryAllocatorImpl.deviceIDByPAddr", "a.devices"),
  -- copies of the VOP1 rows: `site_decodeTableCopy`
  ("amd/insts/decodetable.go", "Disassembler.initializeDecodeTable", "d.decodeTables[VOP1].insts"),
  -- format list sorted by mask afterwards: `site_initFormatList`
  ("amd/insts/disassembler.go", "Disassembler.initFormatList", "FormatTable"),
  -- keys are collected and sorted before use: `site_reportKeys`
  ("amd/samples/runner/report.go", "reporter.reportCPIStackEntries", "cpiStack"),
  -- map built from a map: `site_cpiStack`
  ("amd/timing/cu/cpistacktracer.go", "CPIStackTracer.GetCPIStack", "h.timeStack"),
  ("amd/timing/cu/cpistacktracer.go", "CPIStackTracer.GetSIMDCPIStack", "h.timeStack")
]

/-- **No unaudited map iteration**: every `range` over a map found in the simulator packages of
    the CURRENT tree is one of the audited sites. A new (or moved) map loop breaks this. -/
theorem map_sites_all_audited : Gen.mapSites.all (auditedMapSites.contains ·) = true := by decide

/-- wall-clock / random / per-process sources allowed: the sampling engine stores a start time
    for its own statistics (opt-in `-wf-sampling`; the field is never read), and `xid` identifiers
    name the simulation task and two kinds of re-sent memory requests (identifiers are only compared
    for equality and written to the trace — see `clock_values_reach_no_output`) -/
def allowedClockSites : List (String × String × String) := [
  ("amd/driver/driver.go", "Driver.logSimulationStart", "xid.New"),
  ("amd/sampling/wfsampling.go", "SampledEngine.Reset", "time.Now"),
  ("amd/timing/cu/computeunit.go", "ComputeUnit.sendScalarShadowBufferAccesses", "xid.New"),
  ("amd/timing/cu/computeunit.go", "ComputeUnit.sendInstFetchShadowBufferAccesses", "xid.New")
]

/-- **No wall clock or random source** in the simulator packages beyond the allowed statistics. -/
theorem clock_sites_all_audited : Gen.clockSites.all (allowedClockSites.contains ·) = true := by decide

/-- goroutines started by the simulator: the driver thread, the engine thread (protocol of
    property C12) and one thread per benchmark in the runner -/
def auditedGoSites : List (String × String × String) := [
  ("amd/driver/driver.go", "Driver.Run", "d.runAsync"),
  ("amd/driver/driver.go", "Driver.runAsync", "d.runEngine"),
  ("amd/samples/runner/runner.go", "Runner.Run", "func literal")
]

/-- **No unaudited goroutine** in the simulator packages. -/
theorem go_sites_all_audited : Gen.goSites.all (auditedGoSites.contains ·) = true := by decide

/-- `deviceIDByPAddr` returns the same device for EVERY iteration order of the device map, for
    every list of registered device sizes (unified devices have size 0) and every address. -/
theorem site_deviceIDByPAddr (szs : List Nat) (start : Nat) (order : List Dev)
    (hp : order.Perm (register szs 0 start)) (p : Nat) :
    deviceIDByPAddr order p = deviceIDByPAddr (register szs 0 start) p := by
  unfold deviceIDByPAddr
  rw [find?_perm_of_unique (onDevice p) order (register szs 0 start) hp]
  intro a ha b hb
  exact register_unique szs 0 start p a (hp.subset ha) b (hp.subset hb)

example : deviceIDByPAddr (register [4096, 8192, 0, 8192] 0 4096).reverse 17000 = some 3 := by decide

/-- `initFormatList`: every admissible order of the format list decodes identically. -/
theorem site_initFormatList (l : List Gen.Format) (hp : l.Perm Gen.formats) (hs : C04.SortedDesc l)
    (w : Nat) : C04.matchFormatIn l w = C04.matchFormat w :=
  C04.matchFormat_order_irrelevant l hp hs w

/-- `initializeDecodeTable`: whatever order the VOP1 rows are copied in, every table lookup gives
    the same row (only the never-read `InstType.ID` depends on the order). -/
theorem site_decodeTableCopy (cs : List Gen.Row) (hp : cs.Perm C04.copies) (ft op : Nat) :
    C04.lastRow (Gen.rowsBefore ++ cs ++ Gen.rowsAfter) ft op = C04.lookUp ft op :=
  decodeTableCopy_any cs hp ft op

/-- `GetCPIStack` / `GetSIMDCPIStack`: a map built by inserting the entries of a map (pairwise
    distinct keys) is the same map for every iteration order. -/
theorem site_cpiStack (m₁ m₂ : List (Nat × Nat)) (hp : m₁.Perm m₂) (hk : (m₁.map (·.1)).Nodup)
    (k : Nat) : lookupLast m₁ k = lookupLast m₂ k := lookupLast_perm m₁ m₂ hp hk k

/-- `reportCPIStackEntries`: the keys are sorted before they are used, and two strictly sorted
    lists with the same elements are the same list — the report order is fixed. -/
theorem site_reportKeys (k₁ k₂ : List Nat) (hp : k₁.Perm k₂)
    (s₁ : k₁.Pairwise (· < ·)) (s₂ : k₂.Pairwise (· < ·)) : k₁ = k₂ :=
  List.Perm.eq_of_pairwise (le := (· < ·)) (fun _ _ _ _ h1 h2 => absurd h1 (Nat.lt_asymm h2)) s₁ s₂ hp

/-! ## Deepening: every site of the generated lists is covered by a theorem about ITS CURRENT SOURCE -/

/-- **Every map-range site is order independent.** For every `range` over a map that the
    translator finds in the simulator packages of the current tree, there is a certificate keyed by
    (file, function, operand, HASH of the loop's normalised source + the statements after it that
    use what it wrote + the same-package functions it calls), and the certificate holds: either a
    `LoopModel` of that loop whose result is the same for EVERY permutation of the map's entries
    (first match among disjoint ranges; last-insertion-wins with pairwise distinct keys; sorted
    afterwards by any — also unstable — sorting routine), or the checked classification "only prints".
    A new site, or an edit of an audited loop / its callee / the sort behind it, changes the key and
    breaks this theorem; the guard in `MgpuProofs/C05Sites.lean` then names the site. -/
theorem every_map_site_order_independent :
    ∀ s ∈ Gen.mapSiteInfos, ∃ c, (keyOf s, c) ∈ certified ∧ c.Holds s := by
  intro s hs
  simp only [Gen.mapSiteInfos, List.mem_cons, List.not_mem_nil, or_false] at hs
  rcases hs with rfl | rfl | rfl | rfl | rfl | rfl
  · exact ⟨.model devidLoop, by simp [certified, keyOf], devidLoop_oi⟩
  · exact ⟨.model decodeCopyLoop, by simp [certified, keyOf], decodeCopyLoop_oi⟩
  · exact ⟨.model formatListLoop, by simp [certified, keyOf], formatListLoop_oi⟩
  · exact ⟨.model reportKeysLoop, by simp [certified, keyOf], reportKeysLoop_oi⟩
  · exact ⟨.model cpiStackLoop, by simp [certified, keyOf], cpiStackLoop_oi⟩
  · exact ⟨.model cpiStackLoop, by simp [certified, keyOf], cpiStackLoop_oi⟩

/-- the same coverage as a decidable check (what the build guard evaluates) -/
theorem no_uncovered_map_site : uncovered = [] := by decide

/-- every certificate in the registry holds (also for keys no current site has) -/
theorem certified_all_order_independent :
    ∀ p ∈ certified, ∀ m, p.2 = Cert.model m → m.OrderIndependent := by
  intro p hp m hm
  simp only [certified, List.mem_cons, List.not_mem_nil, or_false] at hp
  rcases hp with rfl | rfl | rfl | rfl | rfl | rfl <;> (injection hm with hm; subst hm)
  · exact devidLoop_oi
  · exact decodeCopyLoop_oi
  · exact formatListLoop_oi
  · exact reportKeysLoop_oi
  · exact cpiStackLoop_oi
  · exact cpiStackLoop_oi

/-! non-vacuity: the `Valid` hypotheses are met, and the sort parameters exist -/
example : devidLoop.Valid (17000 : Nat) (register [4096, 8192, 0, 8192] 0 4096).reverse :=
  ⟨[4096, 8192, 0, 8192], 4096, List.reverse_perm _⟩
example : devidLoop.run (17000 : Nat) (register [4096, 8192, 0, 8192] 0 4096).reverse = (some 3 : Option Nat) :=
  (by decide : deviceIDByPAddr (register [4096, 8192, 0, 8192] 0 4096).reverse 17000 = some 3)
example : decodeCopyLoop.Valid (0, 0) C04.copySources.reverse := List.reverse_perm _
example : cpiStackLoop.Valid (id, 0, "x") [("VALU", 1.5), ("Idle", 2.5)] := by
  show (["VALU", "Idle"] : List String).Nodup; decide
/-- `sortStr` (insertion sort) is one admissible `sort.Strings` -/
def sortStrSpec : StrSort := ⟨sortStr, fun l => ⟨sortStr_perm l, sortStr_sorted l⟩⟩
example : reportKeysLoop.run sortStrSpec ["total", "VALU", "Idle"] = ["Idle", "VALU", "total"] := by
  show sortStr ["total", "VALU", "Idle"] = ["Idle", "VALU", "total"]; decide

/-- **The whole CPI-stack report is a function of the `timeStack` map's content**: whatever the
    iteration orders of the loop in `GetCPIStack` (`es₁` vs `es₂`) and of the loop in
    `reportCPIStackEntries` (`o₁` vs `o₂`), the rows handed to the data recorder — names in
    `sort.Strings` order, each with its value — are the same list. -/
theorem cpi_report_order_independent {ν ν' : Type} (f : ν → ν') (total : ν')
    (es₁ es₂ : List (String × ν)) (hp : es₁.Perm es₂) (hk : (es₁.map (·.1)).Nodup)
    (o₁ o₂ : List String) (ho : o₁.Perm o₂) :
    reportRows (cpiStackOf f total es₁) o₁ = reportRows (cpiStackOf f total es₂) o₂ := by
  unfold reportRows
  have hs : sortStr o₁ = sortStr o₂ :=
    sorted_perm_eq _ _ ((sortStr_perm o₁).trans (ho.trans (sortStr_perm o₂).symm)) (sortStr_sorted _) (sortStr_sorted _)
  rw [hs]
  apply List.map_congr_left
  intro k _
  rw [cpiStackOf_lookup_perm f total es₁ es₂ hp hk k]

example : reportRows (cpiStackOf (· * 2) 7 [("VALU", 3), ("Idle", 4)]) ["total", "VALU", "Idle"]
        = reportRows (cpiStackOf (· * 2) 7 [("Idle", 4), ("VALU", 3)]) ["Idle", "total", "VALU"] := by decide

/-! ### the hypotheses of the site theorems cannot be dropped (second deepening pass)

Each `Valid` hypothesis is what the reachable states guarantee (the device table is filled by
`RegisterDevice` only, a Go map has pairwise distinct keys, the format list is sorted right after
the loop); the witnesses show that without it the iteration order WOULD show. The real code cannot
reach these inputs: `RegisterDevice` is the only writer of the device table
(`order_carrying_fields_audited`), duplicate keys do not exist in a Go map, and the unsorted format
list is never read (the sort is inside `initFormatList`; its removal is named by the source hash). -/

/-- `site_deviceIDByPAddr` needs "the table was filled by `RegisterDevice`" (disjoint ranges): with
    two overlapping ranges the first match depends on the iteration order. -/
theorem devid_overlapping_ranges_order_matters :
    ∃ (d₁ d₂ : Dev) (p : Nat), deviceIDByPAddr [d₁, d₂] p ≠ deviceIDByPAddr [d₂, d₁] p ∧
      ¬ ∃ szs start, [d₁, d₂].Perm (register szs 0 start) := by
  refine ⟨⟨1, 0, 10⟩, ⟨2, 5, 10⟩, 7, by decide, ?_⟩
  rintro ⟨szs, start, hp⟩
  have h1 := site_deviceIDByPAddr szs start [⟨1, 0, 10⟩, ⟨2, 5, 10⟩] hp 7
  have h2 := site_deviceIDByPAddr szs start [⟨2, 5, 10⟩, ⟨1, 0, 10⟩] ((List.Perm.swap _ _ _).trans hp) 7
  exact absurd (h1.trans h2.symm) (by decide)

/-- `site_cpiStack` / `cpi_report_order_independent` need pairwise distinct keys (true of every Go
    map): with a duplicate key "last insertion wins" depends on the order. -/
theorem cpiStack_duplicate_keys_order_matters :
    ∃ m₁ m₂ : List (Nat × Nat), m₁.Perm m₂ ∧ lookupLast m₁ 1 ≠ lookupLast m₂ 1 :=
  ⟨[(1, 10), (1, 20)], [(1, 20), (1, 10)], List.Perm.swap _ _ _, by decide⟩

/-- `site_initFormatList` needs the sort that follows the loop: the format table in another order
    (here: reversed) decodes the SOP1 word `0xBE800000` as SOP2. -/
theorem formatList_unsorted_order_matters :
    Gen.formats.reverse.Perm Gen.formats ∧
    (C04.matchFormatIn Gen.formats.reverse 0xBE800000).map (·.name) ≠ (C04.matchFormat 0xBE800000).map (·.name) :=
  ⟨List.reverse_perm _, by decide⟩

/-- **No recycled objects, finalizers or addresses used as values** in the simulator packages
    (regenerated: `sync.Pool.Get/Put`, `runtime.SetFinalizer/AddCleanup`, `uintptr(unsafe.Pointer)`,
    `reflect.Value.Pointer/UnsafeAddr`, `%p` format verbs): what such an object still holds, when a
    finalizer runs and what an address is differ from run to run and between host schedules. -/
theorem no_object_reuse_or_address_values : Gen.reuseSites = [] := by decide

/-! ### struct fields a map loop assigns (directly or in a callee): who can see the order? -/

/-- per field: the functions that READ it (statement texts dropped) -/
def orderFieldReaders : List (String × String) :=
  ((Gen.orderFieldUses.filter (fun u => u.use != "write")).map fun u => (u.field, u.fn)).eraseDups

/-- **The order-carrying state is read only where the models say.** The struct fields assigned
    inside a map loop or the function it calls are: the decode tables (read by `lookUp` — modelled
    by `C04.lookUp` — and by the table construction itself), the format list (read by `matchFormat`
    — `C04.matchFormatIn` — and by its own sort), the id counter `nextInstID` (read by
    `addInstType` and by `addCDNA3InstType`, which fills the CDNA3 override table — `C04.lookUpArch`
    over `Gen.cdna3Rows` — from a fixed slice, not from a map loop). `InstType.ID` — the one value that really depends on the iteration order
    of the VOP1 copy loop — is written and NEVER read. -/
theorem order_carrying_fields_audited :
    orderFieldReaders = [
      ("insts.decodeTable.insts", "Disassembler.initializeDecodeTable"),
      ("insts.Disassembler.decodeTables", "Disassembler.initializeDecodeTable"),
      ("insts.Disassembler.decodeTables", "Disassembler.addInstType"),
      ("insts.decodeTable.insts", "Disassembler.addInstType"),
      ("insts.Disassembler.nextInstID", "Disassembler.addInstType"),
      ("insts.decodeTable.insts", "Disassembler.addCDNA3InstType"),
      ("insts.Disassembler.nextInstID", "Disassembler.addCDNA3InstType"),
      ("insts.Disassembler.formatList", "Disassembler.matchFormat"),
      ("insts.decodeTable.insts", "Disassembler.lookUp"),
      ("insts.Disassembler.decodeTables", "Disassembler.lookUp"),
      ("insts.Disassembler.formatList", "Disassembler.initFormatList")] ∧
    (Gen.orderFieldUses.all fun u => u.field != "insts.InstType.ID" || u.use == "write") = true := by
  constructor <;> decide

/-! ## Clock / random / per-process values: where they go -/

/-- how a wall-clock / random value is consumed -/
inductive ClockClass
  /-- stored in a field that is never read -/
  | deadField
  /-- an identifier stored in a simulator field whose every read is an argument of a tracing call -/
  | traceId
  /-- the id of an Akita message: compared for equality / used as a map key, never ordered -/
  | msgId
deriving DecidableEq, Repr

def classifyClock (s : Gen.ClockSite) : Option ClockClass :=
  if s.kind != "field" then none
  else if s.consumer == "sim.MsgMeta.ID" then some .msgId
  else
    let reads := Gen.taintedFieldReads.filter (·.field == s.consumer)
    if reads.isEmpty then some .deadField
    else if reads.all (fun r => r.use == "arg" && r.calleePkg == "github.com/sarchlab/akita/v4/tracing") then some .traceId
    else none

/-- **No wall-clock, random or per-process value flows into simulated time, device memory or a
    reported counter.** Every such source in the simulator packages (`time.*`, `math/rand`,
    `crypto/rand`, `xid`, `uuid`, pid/hostname, CPU count) is consumed by an assignment to a struct
    field, and the field is (i) never read (`SampledEngine.FullSimWallTimeStart`), or (ii) read only
    as an argument of `tracing.StartTask/EndTask` (`Driver.simulationID` — the trace is not an
    observable of the property), or (iii) the id of a message, and no string is ever ORDERED in the
    simulator packages except the CPI-stack names sorted for the report (so an identifier can only be
    compared for equality or used as a map key — and every map iteration is order independent by
    `every_map_site_order_independent`). -/
theorem clock_values_reach_no_output :
    (Gen.clockSiteInfos.map fun s => (s.what, s.consumer, classifyClock s)) =
      [("xid.New", "driver.Driver.simulationID", some .traceId),
       ("time.Now", "sampling.SampledEngine.FullSimWallTimeStart", some .deadField),
       ("xid.New", "sim.MsgMeta.ID", some .msgId),
       ("xid.New", "sim.MsgMeta.ID", some .msgId)] ∧
    Gen.stringOrderSites = [("amd/samples/runner/report.go", "reporter.reportCPIStackEntries", "sort.Strings(keys)")] := by
  constructor <;> decide

/-! ## Goroutines: what they share -/

/-- `select` statements with more than one communication (Go chooses at random among the ready
    ones): the listener's non-blocking notify (a notification for a listener that is being closed
    is dropped either way) and `runAsync`'s wait for "enqueue" or "stop" (stop is sent once, by
    `Terminate`, after the last drain returned) -/
def auditedSelectSites : List (String × String × String) := [
  ("amd/driver/commandqueue.go", "CommandQueueStatusListener.Notify", "<-l.closeSignal | l.signal <- true | default"),
  ("amd/driver/driver.go", "Driver.runAsync", "<-d.driverStopped | <-d.enqueueSignal")
]

/-- **No unaudited multi-way select.** -/
theorem select_sites_all_audited : Gen.selectSites.all (auditedSelectSites.contains ·) = true := by decide

/-! A small lock-set analysis over the synchronisation skeleton the translator extracts from the
function each `go` statement starts (`Gen.goSiteInfos`): which locks are held at every write to
a shared field. Blocks restore the lock set they were entered with when they end in
`return`/`continue`/`break`, otherwise the sets are intersected; a loop body must not end with
fewer locks than it was entered with. -/

structure LockWalk where
  held : List String := []
  stack : List (Bool × List String) := []
  terminated : Bool := false
  ok : Bool := true
  writes : List (String × List String) := []

def lockStep (w : LockWalk) (tok : String × String) : LockWalk :=
  if tok.1 = "lock" then { w with held := tok.2 :: w.held }
  else if tok.1 = "unlock" then { w with held := w.held.erase tok.2 }
  else if tok.1 = "write" then { w with writes := w.writes ++ [(tok.2, w.held)] }
  else if tok.1 = "term" then { w with terminated := true }
  else if tok.1 = "open" then { w with stack := (tok.2 == "for", w.held) :: w.stack, terminated := false }
  else if tok.1 = "close" then
    match w.stack with
    | [] => { w with ok := false }
    | (isLoop, saved) :: st =>
      let merged := if w.terminated then saved else w.held.filter (saved.contains ·)
      { w with held := merged, stack := st, terminated := false,
               ok := w.ok && (w.terminated || !isLoop || saved.all (w.held.contains ·)) }
  else w

def lockWalk (skeleton : List (String × String)) : LockWalk := skeleton.foldl lockStep {}

/-- per shared field written by a goroutine: the locks held at EVERY such write -/
def commonLocks (sites : List Gen.GoSite) : List (String × List String) :=
  let ws := sites.flatMap fun s => (lockWalk s.skeleton).writes
  (ws.map (·.1)).eraseDups.map fun f =>
    (f, (ws.filter (·.1 == f)).foldl (fun acc w => acc.filter (w.2.contains ·)) ((ws.find? (·.1 == f)).map (·.2) |>.getD []))

/-- **What the simulator's goroutines share** — regenerated from the source of the functions the
    three `go` statements start, checked against the objects of the C12 protocol model:
    the channels `driverStopped` and `enqueueSignal` (received by `runAsync`), the engine
    (`Pause`/`TickLater`/`Continue`/`Run`, internally locked, modelled as `r.tick` / the `eng`
    steps), `engineMutex` (one `runEngine` at a time) and the two flags `engineRunning`,
    `enginePending`, EVERY write of which happens with `engineRunningMutex` held; the benchmark
    goroutine of the runner shares nothing but the `WaitGroup` (each benchmark is an application
    thread). The skeletons are well bracketed. -/
theorem go_sites_shared_objects :
    commonLocks Gen.goSiteInfos =
      [("d.enginePending", ["d.engineRunningMutex"]), ("d.engineRunning", ["d.engineRunningMutex"])] ∧
    (Gen.goSiteInfos.all fun s => (lockWalk s.skeleton).ok && (lockWalk s.skeleton).stack.isEmpty) = true ∧
    ((Gen.goSiteInfos.flatMap (·.skeleton)).filter (fun t => t.1 == "recv" || t.1 == "send" ||
        t.1 == "call" || t.1 == "go" || t.1 == "defer-call" || t.1 == "stmt")).eraseDups =
      [("recv", "d.driverStopped"), ("recv", "d.enqueueSignal"), ("call", "d.Engine.Pause"), ("call", "d.TickLater"),
       ("call", "d.Engine.Continue"), ("go", "d.runEngine"), ("call", "log.Printf"), ("call", "debug.PrintStack"),
       ("call", "atexit.Exit"), ("call", "d.Engine.Run"), ("call", "panic"), ("call", "b.EnableVerification"),
       ("call", "b.Run"), ("call", "b.Verify"), ("call", "wg.Done")] := by
  refine ⟨?_, ?_, ?_⟩ <;> decide

/-! ## The simulator's dependency Akita (audit level)

The Akita packages the runner links (engine, ports, memory system, network, tracing, data recording,
monitoring, analysis) are scanned by the same translator. Their sites are AUDITED — each with the
hash of its source, so a new Akita version or a patched loop has to be looked at again — not
modelled: the reasons are comments, not theorems. -/

def auditedDepMapSites : List (String × String × String × String) := [
  -- opt-in buffer analyzer (its own CSV/DB output): sums floats in map order — may differ in the last bit; not a reported metric
  ("github.com/sarchlab/akita/v4@v4.9.0/analysis/buffer_analyzer.go", "BufferAnalyzer.summarizePeriod", "b.bufLevelToDuration", "7eecd905c5a59dd6"),
  -- monitoring web UI (JSON for the dashboard)
  ("github.com/sarchlab/akita/v4@v4.9.0/analysis/perf_analyzer.go", "PerfAnalyzer.GetCurrentTraffic", "b.portDataTable", "3438a123bb2fb442"),
  -- opt-in port analyzer: row order of its own output
  ("github.com/sarchlab/akita/v4@v4.9.0/analysis/port_analyzer.go", "PortAnalyzer.summarize", "h.remoteToTrafficMap", "5a63f1cb52a5e76c"),
  -- table NAMES of a database, for readers
  ("github.com/sarchlab/akita/v4@v4.9.0/datarecording/datareader.go", "sqliteReader.ListTables", "r.typeMap", "9f82a8d1f49699ac"),
  ("github.com/sarchlab/akita/v4@v4.9.0/datarecording/datarecorder.go", "sqliteWriter.ListTables", "t.tables", "a9c3d99f91dbf79c"),
  -- flush of the buffered rows table by table: disjoint tables; row order inside a table is insertion order
  ("github.com/sarchlab/akita/v4@v4.9.0/datarecording/datarecorder.go", "sqliteWriter.Flush", "t.tables", "f3761477d1c4e8f6"),
  -- DRAM bank: decrement every positive counter — disjoint writes, `madeProgress` is an OR
  ("github.com/sarchlab/akita/v4@v4.9.0/mem/dram/internal/org/bankimpl.go", "BankImpl.countDownTiming", "b.cyclesToCmdAvailable", "71bea9946a0b7cc5"),
  -- first process whose table maps the physical page: unique as long as a physical page belongs to one process (C10)
  ("github.com/sarchlab/akita/v4@v4.9.0/mem/vm/pagetable.go", "pageTableImpl.ReverseLookup", "pt.tables", "632b40c5cbbcad0b"),
  -- error message before `panic("port not found")`
  ("github.com/sarchlab/akita/v4@v4.9.0/sim/portowner.go", "PortOwnerBase.GetPortByName", "po.ports", "5273b3e09f911841"),
  -- names collected, `sort.Strings`, then ports in name order
  ("github.com/sarchlab/akita/v4@v4.9.0/sim/portowner.go", "PortOwnerBase.Ports", "po.ports", "fba70ab1717a634b"),
  -- sets a flag on every entry — disjoint writes
  ("github.com/sarchlab/akita/v4@v4.9.0/tracing/dbtracer.go", "DBTracer.StartTracing", "t.tracingTasks", "db10029bf2a00f98")
]

/-- **No unaudited map iteration in the linked Akita packages** (same source as audited). -/
theorem dep_map_sites_all_audited : Gen.depMapSites.all (auditedDepMapSites.contains ·) = true := by decide

def auditedDepClockSites : List (String × String × String × String × String) := [
  -- name of the output database when none is given
  ("github.com/sarchlab/akita/v4@v4.9.0/datarecording/datarecorder.go", "sqliteWriter.Init", "xid.New", "field", "datarecording.sqliteWriter.dbName"),
  -- wall-clock start/end of the execution, table `exec_info` (not `mgpusim_metrics`)
  ("github.com/sarchlab/akita/v4@v4.9.0/datarecording/execrecorder.go", "execRecorder.Start", "time.Now", "local", "currentTime"),
  ("github.com/sarchlab/akita/v4@v4.9.0/datarecording/execrecorder.go", "execRecorder.End", "time.Now", "local", "endTime"),
  -- message ids
  ("github.com/sarchlab/akita/v4@v4.9.0/mem/cache/protocol.go", "RestartRsp.Clone", "xid.New", "field", "sim.MsgMeta.ID"),
  ("github.com/sarchlab/akita/v4@v4.9.0/mem/cache/protocol.go", "RestartRspBuilder.Build", "xid.New", "field", "sim.MsgMeta.ID"),
  -- monitoring server
  ("github.com/sarchlab/akita/v4@v4.9.0/monitoring/monitor.go", "Monitor.listResources", "os.Getpid", "local", "pid"),
  ("github.com/sarchlab/akita/v4@v4.9.0/monitoring/monitor.go", "Monitor.collectProfile", "time.Sleep", "stmt", "time.Sleep"),
  -- ids with the parallel engine (the serial engine uses the sequential generator)
  ("github.com/sarchlab/akita/v4@v4.9.0/sim/idgenerator.go", "parallelIDGenerator.Generate", "xid.New", "return", ""),
  -- worker count of the parallel engine
  ("github.com/sarchlab/akita/v4@v4.9.0/sim/parallelengine.go", "NewParallelEngine", "runtime.GOMAXPROCS", "field", "sim.ParallelEngine.maxGoRoutine"),
  ("github.com/sarchlab/akita/v4@v4.9.0/sim/parallelengine.go", "NewParallelEngine", "runtime.GOMAXPROCS", "local", "numQueues"),
  -- id of the simulation (file name / trace)
  ("github.com/sarchlab/akita/v4@v4.9.0/simulation/builder.go", "Builder.createSimulation", "xid.New", "return", "")
]

/-- **No unaudited wall-clock / random / per-process source in the linked Akita packages.** -/
theorem dep_clock_sites_all_audited : Gen.depClockSites.all (auditedDepClockSites.contains ·) = true := by decide

/-- goroutines Akita starts: the monitoring web server (2) and the parallel engine's workers —
    none with the serial engine and monitoring off -/
def auditedDepGoSites : List (String × String × String) := [
  ("github.com/sarchlab/akita/v4@v4.9.0/monitoring/monitor.go", "Monitor.StartServer", "func literal"),
  ("github.com/sarchlab/akita/v4@v4.9.0/monitoring/monitor.go", "Monitor.run", "func literal"),
  ("github.com/sarchlab/akita/v4@v4.9.0/sim/parallelengine.go", "ParallelEngine.runEventWithTempWorker", "e.tempWorkerRun")
]

/-- **No unaudited goroutine in the linked Akita packages.** -/
theorem dep_go_sites_all_audited : Gen.depGoSites.all (auditedDepGoSites.contains ·) = true := by decide

end C05
