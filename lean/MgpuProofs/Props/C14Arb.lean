import MgpuProofs.C14ArbProofs
/-! # C14 — who may issue: the issue arbiter and `DoIssue`

The scheduler theorems quantify over all schedules that respect the issue rules (`legalRun`: only a
Ready wavefront issues). These theorems derive that part of the rules from the model of
`IssueArbiter.Arbitrate` and of the loop of `SchedulerImpl.DoIssue` (`MgpuModel/C14_Arb.lean`, tied
by `c14 arb` to the real arbiter and the real `DoIssue`): whatever the pools contain, whatever the
scoreboard says and whatever the units accept, the events of one `DoIssue` are a legal fragment. -/
namespace C14.Arb

/-- SIMD 0: a parked wavefront, a Ready one with a hazard, two Ready VALU wavefronts, a Ready
    `s_waitcnt`; SIMD 1: a Ready VALU wavefront without decoded instruction, a Ready scalar one -/
def demoPools : List (List AWf) :=
  [[⟨0, 4, true, 0, false⟩, ⟨1, 1, true, 0, true⟩, ⟨2, 1, true, 0, false⟩, ⟨3, 1, true, 0, false⟩, ⟨4, 1, true, 6, false⟩],
   [⟨5, 1, false, 0, false⟩, ⟨6, 1, true, 1, false⟩], [], []]

example : (arbitrate 0 demoPools).1.map (·.id) = [2, 4, 6] ∧ (arbitrate 0 demoPools).2 = 1 ∧
    (arbitrate 1 demoPools).1.map (·.id) = [6, 2, 4] ∧
    doIssue unitCap (arbitrate 0 demoPools).1 (fun u => if u = 0 then 4 else 0) =
      [.refused 2, .internal 4, .unit 6 1] := by decide

/-- **The arbiter offers only wavefronts that may issue**: every wavefront `Arbitrate` returns is
    `WfReady`, holds a decoded instruction, has no scoreboard hazard, and is resident in a pool —
    for every content of the pools and every position of the round-robin pointer. -/
theorem arbiter_only_offers_ready_wavefronts (last : Nat) (pools : List (List AWf)) :
    ∀ w ∈ (arbitrate last pools).1, (w.state = 1 ∧ w.hasInst = true ∧ w.hazard = false) ∧ ∃ p ∈ pools, w ∈ p :=
  arbitrate_sound last pools

/-- **One per unit type and SIMD, oldest first**: from one pool at most one wavefront per
    execution-unit type is chosen, in pool (age) order, and an eligible wavefront is passed over
    only for an OLDER eligible wavefront of the same type. -/
theorem arbiter_one_per_unit_oldest_first (A B : List AWf) (w : AWf) (he : eligible w = true) :
    ((pickPool (A ++ w :: B) []).map (·.unit)).Nodup ∧ (pickPool (A ++ w :: B) []).Sublist (A ++ w :: B) ∧
    ∃ v ∈ pickPool (A ++ w :: B) [], v.unit = w.unit ∧ (v = w ∨ v ∈ A) :=
  ⟨pickPool_units_nodup _ _, pickPool_sublist _ _, pickPool_oldest A B w [] he (by simp)⟩

example : (pickPool (demoPools.getD 0 []) []).map (·.id) = [2, 4] := by decide

/-- **Nobody is offered twice**, for every round-robin position (distinct wavefront ids). -/
theorem arbiter_never_twice (last : Nat) (pools : List (List AWf))
    (hn : (pools.flatten.map (·.id)).Nodup) : ((arbitrate last pools).1.map (·.id)).Nodup :=
  arbitrate_ids_nodup last pools hn

example : (demoPools.flatten.map (·.id)).Nodup := by decide

/-- **Every `DoIssue` is a legal schedule fragment.** Scheduler state `s` (distinct wavefront ids),
    pools that show the same wavefronts (`WfReady` in the pool ⇒ Ready in `s`, distinct ids), any
    round-robin position, any unit capacities and loads, any internal instructions: the events
    `DoIssue` produces — `issueToInternal` for `ExeUnitSpecial`, hand-over to a unit that accepts,
    nothing for a unit that refuses — satisfy `legalRun`. The issue rules assumed by the scheduler
    theorems are what the real issue path does. -/
theorem do_issue_is_legal (c : Cfg) (s : State) (last : Nat) (pools : List (List AWf)) (cap load : Nat → Nat)
    (inst : Nat → Nat × Int × Int) (hids : s.wfs.Pairwise (fun a b => a.id ≠ b.id))
    (hn : (pools.flatten.map (·.id)).Nodup)
    (hag : ∀ p ∈ pools, ∀ a ∈ p, ∃ w ∈ s.wfs, w.id = a.id ∧ (a.state = 1 → w.state = .ready)) :
    legalRun c s (opsOf inst (doIssue cap (arbitrate last pools).1 load)) = true := by
  apply doIssue_legal c s _ cap load inst hids
  · intro a ha
    obtain ⟨_, p, hp, hap⟩ := arbitrate_sound last pools a ha
    exact hag p hp a hap
  · intro a ha
    exact (arbitrate_sound last pools a ha).1.1
  · exact arbitrate_ids_nodup last pools hn

/-- non-vacuity: the demo pools against a scheduler state with wavefronts 0–6 -/
def demoS : State :=
  { wfs := (List.range 7).map (fun i =>
      { id := i, wg := 0, state := if i = 0 then .atBarrier else .ready, op := 10, lk := 0, vm := 0, osc := 0, ovc := 0,
        pc := 0, inPool := true, arr := if i = 0 then 1 else 0, bar := 0 })
    exec := [], buf := [0], out := [], sent := [], fault := false }

example : opsOf (fun _ => (12, 0, 0)) (doIssue unitCap (arbitrate 0 demoPools).1 (fun _ => 0)) =
      [.issueUnit 2, .issue 4 12 0 0, .issueUnit 6] ∧
    legalRun Cfg.cur demoS (opsOf (fun _ => (12, 0, 0)) (doIssue unitCap (arbitrate 0 demoPools).1 (fun _ => 0))) = true := by
  decide

end C14.Arb
