import MgpuProofs.C12_E2EF
import MgpuProofs.Props.C12_E2E
import MgpuProofs.Props.C12_Full
import MgpuProofs.Props.C12_FullCons
/-!
# C12 (end to end, ALL stages) — `owed` of `C12.W.Full` is `willSignal ∨ r = tick` of `C12.K`

`C12.E.F` composes the protocol of `C12.K` (application threads, `runAsync`, engine goroutine, moved
by `K.step`) with the component of `C12.W.Full` (all seven stages of `Driver.Tick`, GPU port with
the GPU side, MMU port; Noop / kernel / H2D / D2H / magic-copy / flush commands; page migration).
Whatever the component does is done by `W.Full.step` itself, so `Full.no_lost_wakeup`'s invariant
holds along every run — and its hypothesis "no signal owed" is discharged by the protocol state.
-/
namespace C12
namespace E
namespace F

/-- **Refinement to `W.Full`.** Every step of the composed model — an application thread (the append
    of `Enqueue` with a command of any handled kind), `runAsync`, the engine goroutine (tick event =
    all seven stages), the GPU side taking a request / answering one it was sent, the MMU sending a
    migration request / taking an answer — is invisible to `W.Full` or exactly one LEGITIMATE event
    of `W.Full.step`. -/
theorem refines_Full (kind : Nat → W.Full.Cmd) (hk : ∀ n, (kind n).handled = true) (caps : W.Full.Caps)
    {s s' : St} {t : Th} (h : step kind caps s t = some s') :
    sysOf s' = sysOf s ∨ ∃ ev, ev.legit = true ∧ sysOf s' = W.Full.step caps (sysOf s) ev :=
  step_w kind hk caps h

theorem run_refines_Full (kind : Nat → W.Full.Cmd) (hk : ∀ n, (kind n).handled = true) (caps : W.Full.Caps)
    (ts : List Th) : ∀ (s s' : St), runSched kind caps s ts = some s' →
    ∃ evs, (∀ ev ∈ evs, ev.legit = true) ∧ sysOf s' = W.Full.run caps (sysOf s) evs := by
  induction ts with
  | nil => intro s s' h; simp [runSched] at h; subst h; exact ⟨[], by simp, rfl⟩
  | cons t ts ih =>
    intro s s' h
    simp only [runSched] at h
    cases hs : step kind caps s t with
    | none => simp [hs] at h
    | some s1 =>
      simp only [hs] at h
      obtain ⟨e2, hl2, h2⟩ := ih s1 s' h
      rcases refines_Full kind hk caps hs with h1 | ⟨ev, hl, h1⟩
      · exact ⟨e2, hl2, by rw [h2, h1]⟩
      · refine ⟨ev :: e2, ?_, by rw [h2, h1]; simp [W.Full.run]⟩
        intro e he
        rcases List.mem_cons.mp he with rfl | he
        · exact hl
        · exact hl2 e he

/-- **The link, all stages.** `owed` (the hypothesis of `W.Full.no_lost_wakeup`) implies that some
    application thread still owes its `enqueueSignal` or `runAsync` is about to call `TickLater` —
    whatever the commands, the GPU side and the MMU do. -/
theorem owed_implies_signal_pending {kind : Nat → W.Full.Cmd} {caps : W.Full.Caps} {s : St}
    (h : Reach kind caps s) (ho : s.owed = true) :
    (∃ a ∈ s.k.apps, K.willSignal a) ∨ s.k.r = .tick :=
  (ginv_reach h).link ho

/-- **Never asleep with work, all stages, no hypothesis on `owed`.** Any number of application
    threads and queues, scripts ending with a drain, commands of any handled kind, any interleaving
    with the GPU side and the MMU: if any of the seven kinds of work of `W.Full.work` is left (GPU
    input, takeable MMU request, startable head, sendable request, counting delay line, sendable MMU
    answer, sendable page request), the tick event is scheduled, or a thread still owes its signal,
    or `runAsync` is about to schedule the tick. -/
theorem driver_never_asleep_with_work {kind : Nat → W.Full.Cmd} (hk : ∀ n, (kind n).handled = true)
    {caps : W.Full.Caps} {s : St} (h : Reach kind caps s) (hw : W.Full.work caps s.core) :
    s.k.evt = true ∨ (∃ a ∈ s.k.apps, K.willSignal a) ∨ s.k.r = .tick := by
  rcases (sinv_reach hk h).2 hw with ha | ho
  · exact Or.inl ha
  · exact Or.inr (owed_implies_signal_pending h ho)

/-- **A scheduled tick event is handled, all stages** (see `G.scheduled_tick_is_handled`). -/
theorem scheduled_tick_is_handled {kind : Nat → W.Full.Cmd} {caps : W.Full.Caps} {s : St}
    (h : Reach kind caps s) (hev : s.k.evt = true) : K.willLook s.k :=
  (pinv_reach h).look hev

/-- **Work is served, all stages**: any of the seven kinds of work ⇒ the tick event is scheduled AND
    the engine goroutine will handle it, or a thread still owes its signal, or `runAsync` is about to
    call `TickLater`. `W.Full`'s invariant, `K`'s protocol invariant and the link, on one state. -/
theorem work_is_served {kind : Nat → W.Full.Cmd} (hk : ∀ n, (kind n).handled = true)
    {caps : W.Full.Caps} {s : St} (h : Reach kind caps s) (hw : W.Full.work caps s.core) :
    (s.k.evt = true ∧ K.willLook s.k) ∨ (∃ a ∈ s.k.apps, K.willSignal a) ∨ s.k.r = .tick := by
  rcases driver_never_asleep_with_work hk h hw with h1 | h1
  · exact Or.inl ⟨h1, scheduled_tick_is_handled h h1⟩
  · exact Or.inr h1

/-- **`DrainCommandQueue` tests the component's real queue** (a tick of all seven stages only ever
    shrinks a queue; `Enqueue` appends to both). -/
theorem queues_mirrored {kind : Nat → W.Full.Cmd} {caps : W.Full.Caps} {s : St}
    (h : Reach kind caps s) : Sync s := sync_reach h

/-- **Drain safety, all stages.** When a `DrainCommandQueue(q)` call returns, the component's queue
    `q` is empty: every command enqueued on it — kernels, copies with their flushes and delay line —
    has been completed by `Driver.Tick`. -/
theorem drain_returns_only_when_empty {kind : Nat → W.Full.Cmd} {caps : W.Full.Caps} {s s' : St}
    (h : Reach kind caps s) (j : Nat) (a a' : K.App)
    (hs : step kind caps s (.app j) = some s') (ha : s.k.apps[j]? = some a)
    (ha' : s'.k.apps[j]? = some a') (hret : a'.returned = a.returned + 1) :
    ∀ w, s.core.d.qs[a.q]? = some w → w.cmds = [] := by
  intro w hw
  simp only [step, ha] at hs
  cases hk : K.step s.k (.app j) with
  | none => simp [hk] at hs
  | some k1 =>
    simp [hk] at hs
    have hk' : K.stepApp s.k j a = some k1 := by simpa [K.step, ha] using hk
    have hk1 : s'.k.apps = k1.apps := by
      by_cases hen : isEnq a = true
      · simp only [hen, if_true] at hs; subst hs; rfl
      · simp only [hen] at hs; subst hs; rfl
    rw [hk1] at ha'
    exact sync_empty s (sync_reach h) a.q (G.stepApp_returned s.k k1 j a a' ha hk' ha' hret) w hw

/-- **Every reachable state of the composed model is a state of a legitimate `W.Full` run from
    `Full.init`** — so every theorem of `Props/C12_Full*.lean` about such runs (`requests_conserved`,
    `answers_are_solicited`, `running_queue_waits_for_something`, `delivery_wakes`, …) holds of `sysOf s`. -/
theorem reach_is_Full_run {kind : Nat → W.Full.Cmd} (hk : ∀ n, (kind n).handled = true) {caps : W.Full.Caps} {s : St}
    (h : Reach kind caps s) :
    ∃ cfg evs, (∀ ev ∈ evs, ev.legit = true) ∧ sysOf s = W.Full.run caps (W.Full.init cfg) evs :=
  reach_run hk h

/-- **A quiescent system has released every drain.** In a reachable state of the composed model in
    which no tick event is scheduled, NO THREAD OWES A SIGNAL (protocol state: nobody `willSignal`,
    `runAsync` is not about to call `TickLater` — not a flag of the wake model), and the GPU side has
    answered everything: every command queue of the component is empty and idle, and every id queue is
    empty — the emptiness test of every `DrainCommandQueue` succeeds. (`Full.quiescent_means_drained`
    with its hypothesis `owed = false` discharged by the link.) -/
theorem quiescent_means_drained {kind : Nat → W.Full.Cmd} (hk : ∀ n, (kind n).handled = true)
    {caps : W.Full.Caps} (hcap : 0 < caps.gOut) {s : St} (h : Reach kind caps s)
    (hsl : s.k.evt = false) (hnw : ¬ ∃ a ∈ s.k.apps, K.willSignal a) (hr : s.k.r ≠ .tick)
    (hext : s.ext = []) (hout : s.core.outb = []) :
    (∀ q ∈ s.core.d.qs, q.cmds = [] ∧ q.running = false) ∧ ∀ j, K.cmdsOf s.k j = [] := by
  have hno : s.owed = false := by
    cases ho : s.owed with
    | false => rfl
    | true =>
      rcases owed_implies_signal_pending h ho with h1 | h1
      · exact absurd h1 hnw
      · exact absurd h1 hr
  obtain ⟨cfg, evs, hl, he⟩ := reach_is_Full_run hk h
  have hq := W.Full.quiescent_means_drained caps cfg evs hl hcap
  simp only [← he] at hq
  have hd := hq hsl hno hext hout
  exact ⟨hd, sync_all_empty s (sync_reach h) (fun q hq => (hd q hq).1)⟩

/-- **Deadlock freedom of the whole composition, all stages.** Application threads (any number, any
    scripts ending with a drain, commands of any handled kind), `runAsync`, the engine goroutine
    (which returns from `Run` only when no tick event is scheduled and no connection has an event
    pending), `Driver.Tick` with all seven stages, the GPU side and the MMU side: a reachable state in
    which NO actor can move is one where every application thread has finished its whole script —
    no `DrainCommandQueue` is left waiting, whatever the commands were. The ingredients, all on one
    state: `K`'s protocol invariant (`PInv`: a scheduled tick is handled; `Note`: nobody waits on an
    empty queue), the link (`owed` ⇒ a thread `willSignal` ∨ `r = tick`), `W.Full`'s wake invariant
    and request conservation (`Full.quiescent_means_drained`), `Sync`. -/
theorem no_stuck_state {kind : Nat → W.Full.Cmd} (hk : ∀ n, (kind n).handled = true)
    {caps : W.Full.Caps} (hcap : 0 < caps.gOut) {s : St} (h : Reach kind caps s)
    (hst : stuck kind caps s) : K.finished s.k := by
  have hd := dinv_reach h
  have hp := pinv_reach h
  -- the engine goroutine is not running
  have he : s.k.e = .none := by
    have h1 := hst .eng
    have h2 := hst (.env .retrieveG)
    cases he : s.k.e with
    | none => rfl
    | loop => simp [step, envOk, he] at h2
    | deq i => have := hd.nomid; simp [he, K.isTickPc] at this
    | notify i => have := hd.nomid; simp [he, K.isTickPc] at this
    | start => simp [step, he, K.step, K.isTickPc] at h1
    | afterRun => simp [step, he, K.step, K.isTickPc] at h1
    | clear => cases hpd : s.k.pend <;> simp [step, he, K.step, K.isTickPc, hpd] at h1
  -- `runAsync` is in its `select`
  have hr : s.k.r = .idle := by
    have h1 := hst .async
    cases hr : s.k.r with
    | idle => rfl
    | tick => simp [step, K.step, hr, he, K.isTickPc] at h1
    | chkFlag => cases hrn : s.k.running <;> simp [step, K.step, hr, hrn] at h1
  -- no tick event is scheduled
  have hev : s.k.evt = false := by
    cases hev : s.k.evt with
    | false => rfl
    | true =>
      have := hp.look hev
      simp [K.willLook, hr, he, K.isTickPc] at this
  -- every thread has finished or is blocked in `Wait`
  have happ : ∀ a ∈ s.k.apps, K.appDone a ∨ a.pc = .waiting := by
    intro a ha
    obtain ⟨j, hj⟩ := List.mem_iff_getElem?.mp ha
    have h1 := hst (.app j)
    simp only [step, hj, Option.map_eq_none_iff] at h1
    exact stepApp_none s.k j a (by simpa [K.step, hj] using h1) hr
  have hnw : ¬ ∃ a ∈ s.k.apps, K.willSignal a := by
    rintro ⟨a, ha, hw⟩
    rcases happ a ha with ⟨h1, h2⟩ | h1
    · simp [K.willSignal, h1, h2] at hw
    · simp [K.willSignal, h1] at hw
  obtain ⟨hout, hext⟩ := hd.exit (Or.inr (Or.inr he))
  have hq := (quiescent_means_drained hk hcap h hev hnw (by simp [hr]) hext hout).2
  intro a ha
  rcases happ a ha with h1 | h1
  · exact h1
  · exact absurd (hq a.q) (hd.note a ha (Or.inr h1))

/-- **Progress (no deadlock, no stutter-lock), all stages.** The connection actors of the composed
    model are always enabled while the engine is in `Run` (a retrieval from an empty port or an answer
    into a full one changes nothing), so `no_stuck_state` alone says nothing there. This does: in
    every reachable state in which some application thread has not finished, some actor can make a
    REAL move — a step of an application thread, of `runAsync`, of the engine goroutine, or a
    connection step that actually takes a request / delivers an answer. -/
theorem progress {kind : Nat → W.Full.Cmd} (hk : ∀ n, (kind n).handled = true)
    {caps : W.Full.Caps} (hcap : 0 < caps.gOut) (hin : 0 < caps.gIn) {s : St} (h : Reach kind caps s)
    (hnf : ¬ K.finished s.k) : ∃ t s', step kind caps s t = some s' ∧ realMove s s' t := by
  have hd := dinv_reach h
  by_cases hloop : s.k.e = .loop
  · by_cases hev : s.k.evt = true
    · exact ⟨.eng, _, by simp only [step, hloop, hev, and_self, if_true]; rfl, trivial⟩
    · by_cases hpend : s.core.outb = [] ∧ s.ext = []
      · -- nothing scheduled, nothing pending: `Run` returns
        have hev' : s.k.evt = false := by simpa using hev
        refine ⟨.eng, { s with k := { s.k with e := .afterRun } }, ?_, trivial⟩
        simp [step, hloop, hev', K.isTickPc, hpend.1, hpend.2, K.step]
      · by_cases hout : s.core.outb = []
        · have hext : s.ext ≠ [] := fun hx => hpend ⟨hout, hx⟩
          by_cases hroom : s.core.inb.length < caps.gIn
          · -- the GPU side answers its oldest request
            obtain ⟨x, rest, hx⟩ := List.exists_cons_of_ne_nil hext
            refine ⟨.env (.answer 0), _, by simp only [step, envOk, hloop, and_self, if_true]; rfl, Or.inr ?_⟩
            simp [put, W.Full.step, sysOf, hx, hroom, W.Full.deliverG]
          · -- the port is full: a message waits, so the tick is scheduled or a signal is owed
            have hne : s.core.inb ≠ [] := by
              intro hx; rw [hx] at hroom; simp at hroom; omega
            rcases driver_never_asleep_with_work hk h (Or.inl hne) with h1 | ⟨b, hb, hw⟩ | h1
            · exact absurd h1 hev
            · by_cases hr : s.k.r = .idle
              · obtain ⟨j, hj⟩ := List.mem_iff_getElem?.mp hb
                have hm := K.will_moves s.k j b hj hr hw
                cases hs : step kind caps s (.app j) with
                | none =>
                  simp only [step, hj, Option.map_eq_none_iff] at hs
                  exact absurd hs hm
                | some s' => exact ⟨.app j, s', hs, trivial⟩
              · cases hs : step kind caps s .async with
                | none =>
                  exfalso
                  simp only [step, Option.map_eq_none_iff] at hs
                  cases hr' : s.k.r with
                  | idle => exact hr hr'
                  | tick => simp [K.step, hr', hloop, K.isTickPc] at hs
                  | chkFlag => cases hrn : s.k.running <;> simp [K.step, hr', hrn] at hs
                | some s' => exact ⟨.async, s', hs, trivial⟩
            · cases hs : step kind caps s .async with
              | none =>
                exfalso
                simp only [step, Option.map_eq_none_iff] at hs
                simp [K.step, h1, hloop, K.isTickPc] at hs
              | some s' => exact ⟨.async, s', hs, trivial⟩
        · -- the connection takes the request at the head of the port
          obtain ⟨x, rest, hx⟩ := List.exists_cons_of_ne_nil hout
          refine ⟨.env .retrieveG, _, by simp only [step, envOk, hloop, and_self, if_true]; rfl, Or.inl ?_⟩
          simp [put, W.Full.step, sysOf, hx]
  · -- outside `Run` no connection acts: the move `no_stuck_state` guarantees is a real one
    have hns : ¬ stuck kind caps s := fun hst => hnf (no_stuck_state hk hcap h hst)
    have : ∃ t, step kind caps s t ≠ none := Classical.byContradiction fun hn =>
      hns fun t => Classical.byContradiction fun ht => hn ⟨t, ht⟩
    obtain ⟨t, ht⟩ := this
    cases hs : step kind caps s t with
    | none => exact absurd hs ht
    | some s' =>
      refine ⟨t, s', hs, ?_⟩
      cases t with
      | env ev => simp [step, hloop] at hs
      | _ => trivial

/-- **End to end, one application thread, ALL stages.** One application thread with ANY script of
    `Enqueue(q)` / `DrainCommandQueue(q)` calls that ends with a drain, commands of any handled kind
    (Noop, kernel, H2D/D2H copy, magic copy, flush), any configuration, any interleaving `ts` of the
    thread, `runAsync`, the engine goroutine, the GPU side and the MMU side. In the state reached:
    (W) if `Driver.Tick` has any of the seven kinds of work, its tick event is scheduled AND will be
    handled by the engine goroutine, or the thread still owes its signal, or `runAsync` is about to
    call `TickLater`; (K) if no actor can move, every `DrainCommandQueue` of the script has returned, and while one has not, some actor can make a real (non-stuttering) move;
    a returning drain found the component's queue empty (`drain_returns_only_when_empty`). No
    hypothesis links the wake model and the protocol model: `owed` is `owed_implies_signal_pending`. -/
theorem end_to_end_one_thread (cfg : W.Full.Cfg) (script : List K.Op) (hok : K.okScript script = true)
    (kind : Nat → W.Full.Cmd) (hk : ∀ n, (kind n).handled = true) (caps : W.Full.Caps) (hcap : 0 < caps.gOut)
    (hin : 0 < caps.gIn) (ts : List Th) (s : St) (hrun : runSched kind caps (init cfg [script]) ts = some s) :
    (s.owed = true → (∃ a ∈ s.k.apps, K.willSignal a) ∨ s.k.r = .tick) ∧
    (W.Full.work caps s.core →
      (s.k.evt = true ∧ K.willLook s.k) ∨ (∃ a ∈ s.k.apps, K.willSignal a) ∨ s.k.r = .tick) ∧
    (stuck kind caps s → K.finished s.k) ∧
    (¬ K.finished s.k → ∃ t s', step kind caps s t = some s' ∧ realMove s s' t) := by
  have hr : Reach kind caps s :=
    reach_of_runSched ts _ s (Reach.init cfg [script] (by simpa using hok)) hrun
  exact ⟨owed_implies_signal_pending hr, work_is_served hk hr, no_stuck_state hk hcap hr, progress hk hcap hin hr⟩

/-! non-vacuity: one GPU, one queue, one thread: `EnqueueMemCopyH2D` (one page piece, delay 1); `DrainCommandQueue` -/
def cfg1 : W.Full.Cfg := { nGpus := 1, ctxs := [0], cycH2D := 1 }
def copy1 : Nat → W.Full.Cmd := fun _ => .copy false 1
def demoF : St := init cfg1 [[.enq 0, .drain 0]]
/-- append · NotifyAll · Subscribe · signal · TickLater · engine started · `Run` · tick (start, timer 1) ·
    tick (timer 0) · tick (delay line → requestsToSend) · tick (send) · tick (nothing) -/
def schedF : List Th := [.app 0, .app 0, .app 0, .app 0, .async, .async, .eng, .eng, .eng, .eng, .eng, .eng]
def obsA (s : St) := (s.owed, s.k.evt, s.core.d.qs.map (fun q => (q.cmds.length, q.running, q.left)))
def obsB (s : St) := (s.core.outb.length, s.ext.length, s.core.inb.length, K.cmdsOf s.k 0, s.k.apps.map (·.returned))

example : Reach copy1 {} demoF := Reach.init _ _ (by decide)
example : ∀ n, (copy1 n).handled = true := fun _ => rfl
-- after the append: owed, asleep, startable head
example : (runSched copy1 {} demoF [.app 0]).map obsA = some (true, false, [(1, false, 0)]) ∧
    (runSched copy1 {} demoF [.app 0]).map obsB = some (0, 0, 0, [1], [0]) := ⟨by decide, by decide⟩
-- the copy is running, its request is in the port, the driver rightly sleeps
example : (runSched copy1 {} demoF schedF).map obsA = some (false, false, [(1, true, 1)]) ∧
    (runSched copy1 {} demoF schedF).map obsB = some (1, 0, 0, [1], [0]) := ⟨by decide, by decide⟩
-- the thread blocks in `Wait`; the GPU side takes the request and answers it: awake
example : (runSched copy1 {} demoF (schedF ++ [.app 0, .app 0, .env .retrieveG, .env (.answer 0)])).map obsA =
    some (false, true, [(1, true, 1)]) ∧
    (runSched copy1 {} demoF (schedF ++ [.app 0, .app 0, .env .retrieveG, .env (.answer 0)])).map obsB =
    some (0, 0, 1, [1], [0]) := ⟨by decide, by decide⟩
example : (runSched copy1 {} demoF (schedF ++ [.app 0, .app 0, .env .retrieveG, .env (.answer 0)])).map
    (fun s => (s.k.evt, s.k.e, s.k.running)) = some (true, .loop, true) := by decide
-- the tick takes the answer (middleware), completes the command in both queues, the drain returns
example : (runSched copy1 {} demoF (schedF ++ [.app 0, .app 0, .env .retrieveG, .env (.answer 0), .eng, .eng, .app 0])).map
    obsA = some (false, false, [(0, false, 0)]) ∧
    (runSched copy1 {} demoF (schedF ++ [.app 0, .app 0, .env .retrieveG, .env (.answer 0), .eng, .eng, .app 0])).map obsB =
    some (0, 0, 0, [], [1]) := ⟨by decide, by decide⟩
example : (runSched copy1 {} demoF (schedF ++ [.app 0, .app 0, .env .retrieveG, .env (.answer 0), .eng, .eng, .app 0])).map
    (fun s => (decide (Sync s), decide (K.finished s.k))) = some (true, true) := by decide
-- … the engine finds nothing scheduled and nothing pending, leaves `Run`, exits: nobody can move, everybody has finished
def endF : List Th := schedF ++ [.app 0, .app 0, .env .retrieveG, .env (.answer 0), .eng, .eng, .app 0, .eng, .eng, .eng]
example : (runSched copy1 {} demoF endF).map (fun s => (s.k.e, s.k.running, decide (K.finished s.k))) =
    some (.none, false, true) := by decide
example : (runSched copy1 {} demoF endF).map (fun s => ((step copy1 {} s (.app 0)).isNone, (step copy1 {} s .async).isNone,
    (step copy1 {} s .eng).isNone, (step copy1 {} s (.env .retrieveG)).isNone)) = some (true, true, true, true) := by decide
-- while the copy request is in the port the engine may NOT leave `Run` (it would strand the waiter)
example : (runSched copy1 {} demoF (schedF ++ [.eng])).isNone = true := by decide

end F
end E
end C12
