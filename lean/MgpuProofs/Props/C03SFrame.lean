import MgpuProofs.C03SRows
/-! # C03 (scalar part) — frame: every scalar handler writes only its architected destinations

One theorem per row of the (format, opcode, handler) table the translator regenerates from the opcode
switches of `emu.ALUImpl` and `cdna3.ALU`: on EVERY input (no conformance needed, any SCC byte) the
handler's output record touches only the cells `Spec.writes fmt op` lists (the "D"/"SCC" columns of
the ISA opcode tables), and whatever it writes to SCC is 0 or 1.  `all_dispatch_rows_have_a_frame_theorem` (by `decide`) fails when a regenerated table has a row
without a frame theorem (the `#eval` guard in front of it prints the row). -/
namespace C03S
open C03S
set_option maxRecDepth 2000

/-- GCN3 `s_add_u32` (format 0, opcode 0): the handler writes only D, SCC, on every input. -/
theorem gcn3_s_add_u32_frame : Frame Gen.gcn3.dispatch 0 0 (Spec.writes 0 0) :=
  ⟨_, rfl, by frame Gen.gcn3.run_SADDU32⟩

/-- GCN3 `s_sub_u32` (format 0, opcode 1): the handler writes only D, SCC, on every input. -/
theorem gcn3_s_sub_u32_frame : Frame Gen.gcn3.dispatch 0 1 (Spec.writes 0 1) :=
  ⟨_, rfl, by frame Gen.gcn3.run_SSUBU32⟩

/-- GCN3 `s_add_i32` (format 0, opcode 2): the handler writes only D, SCC, on every input. -/
theorem gcn3_s_add_i32_frame : Frame Gen.gcn3.dispatch 0 2 (Spec.writes 0 2) :=
  ⟨_, rfl, by frame Gen.gcn3.run_SADDI32⟩

/-- GCN3 `s_sub_i32` (format 0, opcode 3): the handler writes only D, SCC, on every input. -/
theorem gcn3_s_sub_i32_frame : Frame Gen.gcn3.dispatch 0 3 (Spec.writes 0 3) :=
  ⟨_, rfl, by frame Gen.gcn3.run_SSUBI32⟩

/-- GCN3 `s_addc_u32` (format 0, opcode 4): the handler writes only D, SCC, on every input. -/
theorem gcn3_s_addc_u32_frame : Frame Gen.gcn3.dispatch 0 4 (Spec.writes 0 4) :=
  ⟨_, rfl, by frame Gen.gcn3.run_SADDCU32⟩

/-- GCN3 `s_subb_u32` (format 0, opcode 5): the handler writes only D, SCC, on every input. -/
theorem gcn3_s_subb_u32_frame : Frame Gen.gcn3.dispatch 0 5 (Spec.writes 0 5) :=
  ⟨_, rfl, by frame Gen.gcn3.run_SSUBBU32⟩

/-- GCN3 `s_min_i32` (format 0, opcode 6): the handler writes only D, SCC, on every input. -/
theorem gcn3_s_min_i32_frame : Frame Gen.gcn3.dispatch 0 6 (Spec.writes 0 6) :=
  ⟨_, rfl, by frame Gen.gcn3.run_SMINI32⟩

/-- GCN3 `s_min_u32` (format 0, opcode 7): the handler writes only D, SCC, on every input. -/
theorem gcn3_s_min_u32_frame : Frame Gen.gcn3.dispatch 0 7 (Spec.writes 0 7) :=
  ⟨_, rfl, by frame Gen.gcn3.run_SMINU32⟩

/-- GCN3 `s_max_i32` (format 0, opcode 8): the handler writes only D, SCC, on every input. -/
theorem gcn3_s_max_i32_frame : Frame Gen.gcn3.dispatch 0 8 (Spec.writes 0 8) :=
  ⟨_, rfl, by frame Gen.gcn3.run_SMAXI32⟩

/-- GCN3 `s_max_u32` (format 0, opcode 9): the handler writes only D, SCC, on every input. -/
theorem gcn3_s_max_u32_frame : Frame Gen.gcn3.dispatch 0 9 (Spec.writes 0 9) :=
  ⟨_, rfl, by frame Gen.gcn3.run_SMAXU32⟩

/-- GCN3 `s_cselect_b32` (format 0, opcode 10): the handler writes only D, on every input. -/
theorem gcn3_s_cselect_b32_frame : Frame Gen.gcn3.dispatch 0 10 (Spec.writes 0 10) :=
  ⟨_, rfl, by frame Gen.gcn3.run_SCSELECTB32⟩

/-- GCN3 `s_and_b32` (format 0, opcode 12): the handler writes only D, SCC, on every input. -/
theorem gcn3_s_and_b32_frame : Frame Gen.gcn3.dispatch 0 12 (Spec.writes 0 12) :=
  ⟨_, rfl, by frame Gen.gcn3.run_SANDB32⟩

/-- GCN3 `s_and_b64` (format 0, opcode 13): the handler writes only D, SCC, on every input. -/
theorem gcn3_s_and_b64_frame : Frame Gen.gcn3.dispatch 0 13 (Spec.writes 0 13) :=
  ⟨_, rfl, by frame Gen.gcn3.run_SANDB64⟩

/-- GCN3 `s_or_b64` (format 0, opcode 15): the handler writes only D, SCC, on every input. -/
theorem gcn3_s_or_b64_frame : Frame Gen.gcn3.dispatch 0 15 (Spec.writes 0 15) :=
  ⟨_, rfl, by frame Gen.gcn3.run_SORB64⟩

/-- GCN3 `s_xor_b32` (format 0, opcode 16): the handler writes only D, SCC, on every input. -/
theorem gcn3_s_xor_b32_frame : Frame Gen.gcn3.dispatch 0 16 (Spec.writes 0 16) :=
  ⟨_, rfl, by frame Gen.gcn3.run_SXORB32⟩

/-- GCN3 `s_xor_b64` (format 0, opcode 17): the handler writes only D, SCC, on every input. -/
theorem gcn3_s_xor_b64_frame : Frame Gen.gcn3.dispatch 0 17 (Spec.writes 0 17) :=
  ⟨_, rfl, by frame Gen.gcn3.run_SXORB64⟩

/-- GCN3 `s_andn2_b64` (format 0, opcode 19): the handler writes only D, SCC, on every input. -/
theorem gcn3_s_andn2_b64_frame : Frame Gen.gcn3.dispatch 0 19 (Spec.writes 0 19) :=
  ⟨_, rfl, by frame Gen.gcn3.run_SANDN2B64⟩

/-- GCN3 `s_lshl_b32` (format 0, opcode 28): the handler writes only D, SCC, on every input. -/
theorem gcn3_s_lshl_b32_frame : Frame Gen.gcn3.dispatch 0 28 (Spec.writes 0 28) :=
  ⟨_, rfl, by frame Gen.gcn3.run_SLSHLB32⟩

/-- GCN3 `s_lshl_b64` (format 0, opcode 29): the handler writes only D, SCC, on every input. -/
theorem gcn3_s_lshl_b64_frame : Frame Gen.gcn3.dispatch 0 29 (Spec.writes 0 29) :=
  ⟨_, rfl, by frame Gen.gcn3.run_SLSHLB64⟩

/-- GCN3 `s_lshr_b32` (format 0, opcode 30): the handler writes only D, SCC, on every input. -/
theorem gcn3_s_lshr_b32_frame : Frame Gen.gcn3.dispatch 0 30 (Spec.writes 0 30) :=
  ⟨_, rfl, by frame Gen.gcn3.run_SLSHRB32⟩

/-- GCN3 `s_lshr_b64` (format 0, opcode 31): the handler writes only D, SCC, on every input. -/
theorem gcn3_s_lshr_b64_frame : Frame Gen.gcn3.dispatch 0 31 (Spec.writes 0 31) :=
  ⟨_, rfl, by frame Gen.gcn3.run_SLSHRB64⟩

/-- GCN3 `s_ashr_i32` (format 0, opcode 32): the handler writes only D, SCC, on every input. -/
theorem gcn3_s_ashr_i32_frame : Frame Gen.gcn3.dispatch 0 32 (Spec.writes 0 32) :=
  ⟨_, rfl, by frame Gen.gcn3.run_SASHRI32⟩

/-- GCN3 `s_bfm_b32` (format 0, opcode 34): the handler writes only D, on every input. -/
theorem gcn3_s_bfm_b32_frame : Frame Gen.gcn3.dispatch 0 34 (Spec.writes 0 34) :=
  ⟨_, rfl, by frame Gen.gcn3.run_SBFMB32⟩

/-- GCN3 `s_mul_i32` (format 0, opcode 36): the handler writes only D, on every input. -/
theorem gcn3_s_mul_i32_frame : Frame Gen.gcn3.dispatch 0 36 (Spec.writes 0 36) :=
  ⟨_, rfl, by frame Gen.gcn3.run_SMULI32⟩

/-- GCN3 `s_bfe_i32` (format 0, opcode 38): the handler writes only D, SCC, on every input. -/
theorem gcn3_s_bfe_i32_frame : Frame Gen.gcn3.dispatch 0 38 (Spec.writes 0 38) :=
  ⟨_, rfl, by frame Gen.gcn3.run_SBFEI32⟩

/-- GCN3 `s_movk_i32` (format 1, opcode 0): the handler writes only D, on every input. -/
theorem gcn3_s_movk_i32_frame : Frame Gen.gcn3.dispatch 1 0 (Spec.writes 1 0) :=
  ⟨_, rfl, by frame Gen.gcn3.run_SMOVKI32⟩

/-- GCN3 `s_cmovk_i32` (format 1, opcode 1): the handler writes only D, on every input. -/
theorem gcn3_s_cmovk_i32_frame : Frame Gen.gcn3.dispatch 1 1 (Spec.writes 1 1) :=
  ⟨_, rfl, by frame Gen.gcn3.run_SCMOVKI32⟩

/-- GCN3 `s_cmpk_eq_i32` (format 1, opcode 2): the handler writes only SCC, on every input. -/
theorem gcn3_s_cmpk_eq_i32_frame : Frame Gen.gcn3.dispatch 1 2 (Spec.writes 1 2) :=
  ⟨_, rfl, by frame Gen.gcn3.run_SCMPKEQI32⟩

/-- GCN3 `s_cmpk_lg_i32` (format 1, opcode 3): the handler writes only SCC, on every input. -/
theorem gcn3_s_cmpk_lg_i32_frame : Frame Gen.gcn3.dispatch 1 3 (Spec.writes 1 3) :=
  ⟨_, rfl, by frame Gen.gcn3.run_SCMPKLGI32⟩

/-- GCN3 `s_mulk_i32` (format 1, opcode 15): the handler writes only D, on every input. -/
theorem gcn3_s_mulk_i32_frame : Frame Gen.gcn3.dispatch 1 15 (Spec.writes 1 15) :=
  ⟨_, rfl, by frame Gen.gcn3.run_SMULKI32⟩

/-- GCN3 `s_mov_b32` (format 2, opcode 0): the handler writes only D, on every input. -/
theorem gcn3_s_mov_b32_frame : Frame Gen.gcn3.dispatch 2 0 (Spec.writes 2 0) :=
  ⟨_, rfl, by frame Gen.gcn3.run_SMOVB32⟩

/-- GCN3 `s_mov_b64` (format 2, opcode 1): the handler writes only D, on every input. -/
theorem gcn3_s_mov_b64_frame : Frame Gen.gcn3.dispatch 2 1 (Spec.writes 2 1) :=
  ⟨_, rfl, by frame Gen.gcn3.run_SMOVB64⟩

/-- GCN3 `s_not_b32` (format 2, opcode 4): the handler writes only D, SCC, on every input. -/
theorem gcn3_s_not_b32_frame : Frame Gen.gcn3.dispatch 2 4 (Spec.writes 2 4) :=
  ⟨_, rfl, by frame Gen.gcn3.run_SNOTU32⟩

/-- GCN3 `s_brev_b32` (format 2, opcode 8): the handler writes only D, on every input. -/
theorem gcn3_s_brev_b32_frame : Frame Hand.gcn3.dispatch 2 8 (Spec.writes 2 8) :=
  ⟨_, rfl, by intro i; simp [Hand.gcn3.run_SBREVB32, ScalarOut.WritesOnly, SccBit, Spec.writes, Spec.wD]⟩

/-- GCN3 `s_getpc_b64` (format 2, opcode 28): the handler writes only D, on every input. -/
theorem gcn3_s_getpc_b64_frame : Frame Gen.gcn3.dispatch 2 28 (Spec.writes 2 28) :=
  ⟨_, rfl, by frame Gen.gcn3.run_SGETPCB64⟩

/-- GCN3 `s_and_saveexec_b64` (format 2, opcode 32): the handler writes only D, SCC, EXEC, on every input. -/
theorem gcn3_s_and_saveexec_b64_frame : Frame Gen.gcn3.dispatch 2 32 (Spec.writes 2 32) :=
  ⟨_, rfl, by frame Gen.gcn3.run_SANDSAVEEXECB64⟩

/-- GCN3 `s_or_saveexec_b64` (format 2, opcode 33): the handler writes only D, SCC, EXEC, on every input. -/
theorem gcn3_s_or_saveexec_b64_frame : Frame Gen.gcn3.dispatch 2 33 (Spec.writes 2 33) :=
  ⟨_, rfl, by frame Gen.gcn3.run_SORSAVEEXECB64⟩

/-- GCN3 `s_xor_saveexec_b64` (format 2, opcode 34): the handler writes only D, SCC, EXEC, on every input. -/
theorem gcn3_s_xor_saveexec_b64_frame : Frame Gen.gcn3.dispatch 2 34 (Spec.writes 2 34) :=
  ⟨_, rfl, by frame Gen.gcn3.run_SXORSAVEEXECB64⟩

/-- GCN3 `s_andn2_saveexec_b64` (format 2, opcode 35): the handler writes only D, SCC, EXEC, on every input. -/
theorem gcn3_s_andn2_saveexec_b64_frame : Frame Gen.gcn3.dispatch 2 35 (Spec.writes 2 35) :=
  ⟨_, rfl, by frame Gen.gcn3.run_SANDN2SAVEEXECB64⟩

/-- GCN3 `s_orn2_saveexec_b64` (format 2, opcode 36): the handler writes only D, SCC, EXEC, on every input. -/
theorem gcn3_s_orn2_saveexec_b64_frame : Frame Gen.gcn3.dispatch 2 36 (Spec.writes 2 36) :=
  ⟨_, rfl, by frame Gen.gcn3.run_SORN2SAVEEXECB64⟩

/-- GCN3 `s_nand_saveexec_b64` (format 2, opcode 37): the handler writes only D, SCC, EXEC, on every input. -/
theorem gcn3_s_nand_saveexec_b64_frame : Frame Gen.gcn3.dispatch 2 37 (Spec.writes 2 37) :=
  ⟨_, rfl, by frame Gen.gcn3.run_SNANDSAVEEXECB64⟩

/-- GCN3 `s_nor_saveexec_b64` (format 2, opcode 38): the handler writes only D, SCC, EXEC, on every input. -/
theorem gcn3_s_nor_saveexec_b64_frame : Frame Gen.gcn3.dispatch 2 38 (Spec.writes 2 38) :=
  ⟨_, rfl, by frame Gen.gcn3.run_SNORSAVEEXECB64⟩

/-- GCN3 `s_xnor_saveexec_b64` (format 2, opcode 39): the handler writes only D, SCC, EXEC, on every input. -/
theorem gcn3_s_xnor_saveexec_b64_frame : Frame Gen.gcn3.dispatch 2 39 (Spec.writes 2 39) :=
  ⟨_, rfl, by frame Gen.gcn3.run_SNXORSAVEEXECB64⟩

/-- GCN3 `s_abs_i32` (format 2, opcode 48): the handler writes only D, SCC, on every input. -/
theorem gcn3_s_abs_i32_frame : Frame Gen.gcn3.dispatch 2 48 (Spec.writes 2 48) :=
  ⟨_, rfl, by frame Gen.gcn3.run_SABSI32⟩

/-- GCN3 `s_cmp_eq_i32` (format 3, opcode 0): the handler writes only SCC, on every input. -/
theorem gcn3_s_cmp_eq_i32_frame : Frame Gen.gcn3.dispatch 3 0 (Spec.writes 3 0) :=
  ⟨_, rfl, by frame Gen.gcn3.run_SCMPEQU32⟩

/-- GCN3 `s_cmp_lg_i32` (format 3, opcode 1): the handler writes only SCC, on every input. -/
theorem gcn3_s_cmp_lg_i32_frame : Frame Gen.gcn3.dispatch 3 1 (Spec.writes 3 1) :=
  ⟨_, rfl, by frame Gen.gcn3.run_SCMPLGU32⟩

/-- GCN3 `s_cmp_gt_i32` (format 3, opcode 2): the handler writes only SCC, on every input. -/
theorem gcn3_s_cmp_gt_i32_frame : Frame Gen.gcn3.dispatch 3 2 (Spec.writes 3 2) :=
  ⟨_, rfl, by frame Gen.gcn3.run_SCMPGTI32⟩

/-- GCN3 `s_cmp_ge_i32` (format 3, opcode 3): the handler writes only SCC, on every input. -/
theorem gcn3_s_cmp_ge_i32_frame : Frame Gen.gcn3.dispatch 3 3 (Spec.writes 3 3) :=
  ⟨_, rfl, by frame Gen.gcn3.run_SCMPGEI32⟩

/-- GCN3 `s_cmp_lt_i32` (format 3, opcode 4): the handler writes only SCC, on every input. -/
theorem gcn3_s_cmp_lt_i32_frame : Frame Gen.gcn3.dispatch 3 4 (Spec.writes 3 4) :=
  ⟨_, rfl, by frame Gen.gcn3.run_SCMPLTI32⟩

/-- GCN3 `s_cmp_le_i32` (format 3, opcode 5): the handler writes only SCC, on every input. -/
theorem gcn3_s_cmp_le_i32_frame : Frame Gen.gcn3.dispatch 3 5 (Spec.writes 3 5) :=
  ⟨_, rfl, by frame Gen.gcn3.run_SCMPLEI32⟩

/-- GCN3 `s_cmp_eq_u32` (format 3, opcode 6): the handler writes only SCC, on every input. -/
theorem gcn3_s_cmp_eq_u32_frame : Frame Gen.gcn3.dispatch 3 6 (Spec.writes 3 6) :=
  ⟨_, rfl, by frame Gen.gcn3.run_SCMPEQU32⟩

/-- GCN3 `s_cmp_lg_u32` (format 3, opcode 7): the handler writes only SCC, on every input. -/
theorem gcn3_s_cmp_lg_u32_frame : Frame Gen.gcn3.dispatch 3 7 (Spec.writes 3 7) :=
  ⟨_, rfl, by frame Gen.gcn3.run_SCMPLGU32⟩

/-- GCN3 `s_cmp_gt_u32` (format 3, opcode 8): the handler writes only SCC, on every input. -/
theorem gcn3_s_cmp_gt_u32_frame : Frame Gen.gcn3.dispatch 3 8 (Spec.writes 3 8) :=
  ⟨_, rfl, by frame Gen.gcn3.run_SCMPGTU32⟩

/-- GCN3 `s_cmp_lt_u32` (format 3, opcode 10): the handler writes only SCC, on every input. -/
theorem gcn3_s_cmp_lt_u32_frame : Frame Gen.gcn3.dispatch 3 10 (Spec.writes 3 10) :=
  ⟨_, rfl, by frame Gen.gcn3.run_SCMPLTU32⟩

/-- GCN3 `s_nop` (format 4, opcode 0): the handler writes only nothing, on every input. -/
theorem gcn3_s_nop_frame : Frame Gen.gcn3.dispatch 4 0 (Spec.writes 4 0) :=
  ⟨_, rfl, by frame0⟩

/-- GCN3 `s_branch` (format 4, opcode 2): the handler writes only PC, on every input. -/
theorem gcn3_s_branch_frame : Frame Gen.gcn3.dispatch 4 2 (Spec.writes 4 2) :=
  ⟨_, rfl, by frame Gen.gcn3.run_SCBRANCH⟩

/-- GCN3 `s_cbranch_scc0` (format 4, opcode 4): the handler writes only PC, on every input. -/
theorem gcn3_s_cbranch_scc0_frame : Frame Gen.gcn3.dispatch 4 4 (Spec.writes 4 4) :=
  ⟨_, rfl, by frame Gen.gcn3.run_SCBRANCHSCC0⟩

/-- GCN3 `s_cbranch_scc1` (format 4, opcode 5): the handler writes only PC, on every input. -/
theorem gcn3_s_cbranch_scc1_frame : Frame Gen.gcn3.dispatch 4 5 (Spec.writes 4 5) :=
  ⟨_, rfl, by frame Gen.gcn3.run_SCBRANCHSCC1⟩

/-- GCN3 `s_cbranch_vccz` (format 4, opcode 6): the handler writes only PC, on every input. -/
theorem gcn3_s_cbranch_vccz_frame : Frame Gen.gcn3.dispatch 4 6 (Spec.writes 4 6) :=
  ⟨_, rfl, by frame Gen.gcn3.run_SCBRANCHVCCZ⟩

/-- GCN3 `s_cbranch_vccnz` (format 4, opcode 7): the handler writes only PC, on every input. -/
theorem gcn3_s_cbranch_vccnz_frame : Frame Gen.gcn3.dispatch 4 7 (Spec.writes 4 7) :=
  ⟨_, rfl, by frame Gen.gcn3.run_SCBRANCHVCCNZ⟩

/-- GCN3 `s_cbranch_execz` (format 4, opcode 8): the handler writes only PC, on every input. -/
theorem gcn3_s_cbranch_execz_frame : Frame Gen.gcn3.dispatch 4 8 (Spec.writes 4 8) :=
  ⟨_, rfl, by frame Gen.gcn3.run_SCBRANCHEXECZ⟩

/-- GCN3 `s_cbranch_execnz` (format 4, opcode 9): the handler writes only PC, on every input. -/
theorem gcn3_s_cbranch_execnz_frame : Frame Gen.gcn3.dispatch 4 9 (Spec.writes 4 9) :=
  ⟨_, rfl, by frame Gen.gcn3.run_SCBRANCHEXECNZ⟩

/-- GCN3 `s_waitcnt` (format 4, opcode 12): the handler writes only nothing, on every input. -/
theorem gcn3_s_waitcnt_frame : Frame Gen.gcn3.dispatch 4 12 (Spec.writes 4 12) :=
  ⟨_, rfl, by frame0⟩

/-- CDNA3 `s_add_u32` (format 0, opcode 0): the handler writes only D, SCC, on every input. -/
theorem cdna3_s_add_u32_frame : Frame Gen.cdna3.dispatch 0 0 (Spec.writes 0 0) :=
  ⟨_, rfl, by frame Gen.cdna3.run_SADDU32⟩

/-- CDNA3 `s_sub_u32` (format 0, opcode 1): the handler writes only D, SCC, on every input. -/
theorem cdna3_s_sub_u32_frame : Frame Gen.cdna3.dispatch 0 1 (Spec.writes 0 1) :=
  ⟨_, rfl, by frame Gen.cdna3.run_SSUBU32⟩

/-- CDNA3 `s_add_i32` (format 0, opcode 2): the handler writes only D, SCC, on every input. -/
theorem cdna3_s_add_i32_frame : Frame Gen.cdna3.dispatch 0 2 (Spec.writes 0 2) :=
  ⟨_, rfl, by frame Gen.cdna3.run_SADDI32⟩

/-- CDNA3 `s_sub_i32` (format 0, opcode 3): the handler writes only D, SCC, on every input. -/
theorem cdna3_s_sub_i32_frame : Frame Gen.cdna3.dispatch 0 3 (Spec.writes 0 3) :=
  ⟨_, rfl, by frame Gen.cdna3.run_SSUBI32⟩

/-- CDNA3 `s_addc_u32` (format 0, opcode 4): the handler writes only D, SCC, on every input. -/
theorem cdna3_s_addc_u32_frame : Frame Gen.cdna3.dispatch 0 4 (Spec.writes 0 4) :=
  ⟨_, rfl, by frame Gen.cdna3.run_SADDCU32⟩

/-- CDNA3 `s_subb_u32` (format 0, opcode 5): the handler writes only D, SCC, on every input. -/
theorem cdna3_s_subb_u32_frame : Frame Gen.cdna3.dispatch 0 5 (Spec.writes 0 5) :=
  ⟨_, rfl, by frame Gen.cdna3.run_SSUBBU32⟩

/-- CDNA3 `s_min_i32` (format 0, opcode 6): the handler writes only D, SCC, on every input. -/
theorem cdna3_s_min_i32_frame : Frame Gen.cdna3.dispatch 0 6 (Spec.writes 0 6) :=
  ⟨_, rfl, by frame Gen.cdna3.run_SMINI32⟩

/-- CDNA3 `s_min_u32` (format 0, opcode 7): the handler writes only D, SCC, on every input. -/
theorem cdna3_s_min_u32_frame : Frame Gen.cdna3.dispatch 0 7 (Spec.writes 0 7) :=
  ⟨_, rfl, by frame Gen.cdna3.run_SMINU32⟩

/-- CDNA3 `s_max_i32` (format 0, opcode 8): the handler writes only D, SCC, on every input. -/
theorem cdna3_s_max_i32_frame : Frame Gen.cdna3.dispatch 0 8 (Spec.writes 0 8) :=
  ⟨_, rfl, by frame Gen.cdna3.run_SMAXI32⟩

/-- CDNA3 `s_max_u32` (format 0, opcode 9): the handler writes only D, SCC, on every input. -/
theorem cdna3_s_max_u32_frame : Frame Gen.cdna3.dispatch 0 9 (Spec.writes 0 9) :=
  ⟨_, rfl, by frame Gen.cdna3.run_SMAXU32⟩

/-- CDNA3 `s_cselect_b32` (format 0, opcode 10): the handler writes only D, on every input. -/
theorem cdna3_s_cselect_b32_frame : Frame Gen.cdna3.dispatch 0 10 (Spec.writes 0 10) :=
  ⟨_, rfl, by frame Gen.cdna3.run_SCSELECTB32⟩

/-- CDNA3 `s_cselect_b64` (format 0, opcode 11): the handler writes only D, on every input. -/
theorem cdna3_s_cselect_b64_frame : Frame Gen.cdna3.dispatch 0 11 (Spec.writes 0 11) :=
  ⟨_, rfl, by frame Gen.cdna3.run_SCSELECTB64⟩

/-- CDNA3 `s_and_b32` (format 0, opcode 12): the handler writes only D, SCC, on every input. -/
theorem cdna3_s_and_b32_frame : Frame Gen.cdna3.dispatch 0 12 (Spec.writes 0 12) :=
  ⟨_, rfl, by frame Gen.cdna3.run_SANDB32⟩

/-- CDNA3 `s_and_b64` (format 0, opcode 13): the handler writes only D, SCC, on every input. -/
theorem cdna3_s_and_b64_frame : Frame Gen.cdna3.dispatch 0 13 (Spec.writes 0 13) :=
  ⟨_, rfl, by frame Gen.cdna3.run_SANDB64⟩

/-- CDNA3 `s_or_b32` (format 0, opcode 14): the handler writes only D, SCC, on every input. -/
theorem cdna3_s_or_b32_frame : Frame Gen.cdna3.dispatch 0 14 (Spec.writes 0 14) :=
  ⟨_, rfl, by frame Gen.cdna3.run_SORB32⟩

/-- CDNA3 `s_or_b64` (format 0, opcode 15): the handler writes only D, SCC, on every input. -/
theorem cdna3_s_or_b64_frame : Frame Gen.cdna3.dispatch 0 15 (Spec.writes 0 15) :=
  ⟨_, rfl, by frame Gen.cdna3.run_SORB64⟩

/-- CDNA3 `s_xor_b32` (format 0, opcode 16): the handler writes only D, SCC, on every input. -/
theorem cdna3_s_xor_b32_frame : Frame Gen.cdna3.dispatch 0 16 (Spec.writes 0 16) :=
  ⟨_, rfl, by frame Gen.cdna3.run_SXORB32⟩

/-- CDNA3 `s_xor_b64` (format 0, opcode 17): the handler writes only D, SCC, on every input. -/
theorem cdna3_s_xor_b64_frame : Frame Gen.cdna3.dispatch 0 17 (Spec.writes 0 17) :=
  ⟨_, rfl, by frame Gen.cdna3.run_SXORB64⟩

/-- CDNA3 `s_andn2_b32` (format 0, opcode 18): the handler writes only D, SCC, on every input. -/
theorem cdna3_s_andn2_b32_frame : Frame Gen.cdna3.dispatch 0 18 (Spec.writes 0 18) :=
  ⟨_, rfl, by frame Gen.cdna3.run_SANDN2B32⟩

/-- CDNA3 `s_andn2_b64` (format 0, opcode 19): the handler writes only D, SCC, on every input. -/
theorem cdna3_s_andn2_b64_frame : Frame Gen.cdna3.dispatch 0 19 (Spec.writes 0 19) :=
  ⟨_, rfl, by frame Gen.cdna3.run_SANDN2B64⟩

/-- CDNA3 `s_orn2_b32` (format 0, opcode 20): the handler writes only D, SCC, on every input. -/
theorem cdna3_s_orn2_b32_frame : Frame Gen.cdna3.dispatch 0 20 (Spec.writes 0 20) :=
  ⟨_, rfl, by frame Gen.cdna3.run_SORN2B32⟩

/-- CDNA3 `s_orn2_b64` (format 0, opcode 21): the handler writes only D, SCC, on every input. -/
theorem cdna3_s_orn2_b64_frame : Frame Gen.cdna3.dispatch 0 21 (Spec.writes 0 21) :=
  ⟨_, rfl, by frame Gen.cdna3.run_SORN2B64⟩

/-- CDNA3 `s_lshl_b32` (format 0, opcode 28): the handler writes only D, SCC, on every input. -/
theorem cdna3_s_lshl_b32_frame : Frame Gen.cdna3.dispatch 0 28 (Spec.writes 0 28) :=
  ⟨_, rfl, by frame Gen.cdna3.run_SLSHLB32⟩

/-- CDNA3 `s_lshl_b64` (format 0, opcode 29): the handler writes only D, SCC, on every input. -/
theorem cdna3_s_lshl_b64_frame : Frame Gen.cdna3.dispatch 0 29 (Spec.writes 0 29) :=
  ⟨_, rfl, by frame Gen.cdna3.run_SLSHLB64⟩

/-- CDNA3 `s_lshr_b32` (format 0, opcode 30): the handler writes only D, SCC, on every input. -/
theorem cdna3_s_lshr_b32_frame : Frame Gen.cdna3.dispatch 0 30 (Spec.writes 0 30) :=
  ⟨_, rfl, by frame Gen.cdna3.run_SLSHRB32⟩

/-- CDNA3 `s_lshr_b64` (format 0, opcode 31): the handler writes only D, SCC, on every input. -/
theorem cdna3_s_lshr_b64_frame : Frame Gen.cdna3.dispatch 0 31 (Spec.writes 0 31) :=
  ⟨_, rfl, by frame Gen.cdna3.run_SLSHRB64⟩

/-- CDNA3 `s_ashr_i32` (format 0, opcode 32): the handler writes only D, SCC, on every input. -/
theorem cdna3_s_ashr_i32_frame : Frame Gen.cdna3.dispatch 0 32 (Spec.writes 0 32) :=
  ⟨_, rfl, by frame Gen.cdna3.run_SASHRI32⟩

/-- CDNA3 `s_ashr_i64` (format 0, opcode 33): the handler writes only D, SCC, on every input. -/
theorem cdna3_s_ashr_i64_frame : Frame Gen.cdna3.dispatch 0 33 (Spec.writes 0 33) :=
  ⟨_, rfl, by frame Gen.cdna3.run_SASHRI64⟩

/-- CDNA3 `s_bfm_b32` (format 0, opcode 34): the handler writes only D, on every input. -/
theorem cdna3_s_bfm_b32_frame : Frame Gen.cdna3.dispatch 0 34 (Spec.writes 0 34) :=
  ⟨_, rfl, by frame Gen.cdna3.run_SBFMB32⟩

/-- CDNA3 `s_mul_i32` (format 0, opcode 36): the handler writes only D, on every input. -/
theorem cdna3_s_mul_i32_frame : Frame Gen.cdna3.dispatch 0 36 (Spec.writes 0 36) :=
  ⟨_, rfl, by frame Gen.cdna3.run_SMULI32⟩

/-- CDNA3 `s_bfe_u32` (format 0, opcode 37): the handler writes only D, SCC, on every input. -/
theorem cdna3_s_bfe_u32_frame : Frame Gen.cdna3.dispatch 0 37 (Spec.writes 0 37) :=
  ⟨_, rfl, by frame Gen.cdna3.run_SBFEU32⟩

/-- CDNA3 `s_bfe_i32` (format 0, opcode 38): the handler writes only D, SCC, on every input. -/
theorem cdna3_s_bfe_i32_frame : Frame Gen.cdna3.dispatch 0 38 (Spec.writes 0 38) :=
  ⟨_, rfl, by frame Gen.cdna3.run_SBFEI32⟩

/-- CDNA3 `s_mul_hi_u32` (format 0, opcode 44): the handler writes only D, on every input. -/
theorem cdna3_s_mul_hi_u32_frame : Frame Gen.cdna3.dispatch 0 44 (Spec.writes 0 44) :=
  ⟨_, rfl, by frame Gen.cdna3.run_SMULHIU32⟩

/-- CDNA3 `s_movk_i32` (format 1, opcode 0): the handler writes only D, on every input. -/
theorem cdna3_s_movk_i32_frame : Frame Gen.cdna3.dispatch 1 0 (Spec.writes 1 0) :=
  ⟨_, rfl, by frame Gen.cdna3.run_SMOVKI32⟩

/-- CDNA3 `s_cmovk_i32` (format 1, opcode 1): the handler writes only D, on every input. -/
theorem cdna3_s_cmovk_i32_frame : Frame Gen.cdna3.dispatch 1 1 (Spec.writes 1 1) :=
  ⟨_, rfl, by frame Gen.cdna3.run_SCMOVKI32⟩

/-- CDNA3 `s_cmpk_eq_i32` (format 1, opcode 2): the handler writes only SCC, on every input. -/
theorem cdna3_s_cmpk_eq_i32_frame : Frame Gen.cdna3.dispatch 1 2 (Spec.writes 1 2) :=
  ⟨_, rfl, by frame Gen.cdna3.run_SCMPKEQI32⟩

/-- CDNA3 `s_cmpk_lg_i32` (format 1, opcode 3): the handler writes only SCC, on every input. -/
theorem cdna3_s_cmpk_lg_i32_frame : Frame Gen.cdna3.dispatch 1 3 (Spec.writes 1 3) :=
  ⟨_, rfl, by frame Gen.cdna3.run_SCMPKLGI32⟩

/-- CDNA3 `s_mulk_i32` (format 1, opcode 15): the handler writes only D, on every input. -/
theorem cdna3_s_mulk_i32_frame : Frame Gen.cdna3.dispatch 1 15 (Spec.writes 1 15) :=
  ⟨_, rfl, by frame Gen.cdna3.run_SMULKI32⟩

/-- CDNA3 `s_mov_b32` (format 2, opcode 0): the handler writes only D, on every input. -/
theorem cdna3_s_mov_b32_frame : Frame Gen.cdna3.dispatch 2 0 (Spec.writes 2 0) :=
  ⟨_, rfl, by frame Gen.cdna3.run_SMOVB32⟩

/-- CDNA3 `s_mov_b64` (format 2, opcode 1): the handler writes only D, on every input. -/
theorem cdna3_s_mov_b64_frame : Frame Gen.cdna3.dispatch 2 1 (Spec.writes 2 1) :=
  ⟨_, rfl, by frame Gen.cdna3.run_SMOVB64⟩

/-- CDNA3 `s_not_b32` (format 2, opcode 4): the handler writes only D, SCC, on every input. -/
theorem cdna3_s_not_b32_frame : Frame Gen.cdna3.dispatch 2 4 (Spec.writes 2 4) :=
  ⟨_, rfl, by frame Gen.cdna3.run_SNOTU32⟩

/-- CDNA3 `s_brev_b32` (format 2, opcode 8): the handler writes only D, on every input. -/
theorem cdna3_s_brev_b32_frame : Frame Hand.cdna3.dispatch 2 8 (Spec.writes 2 8) :=
  ⟨_, rfl, by intro i; simp [Hand.cdna3.run_SBREVB32, ScalarOut.WritesOnly, SccBit, Spec.writes, Spec.wD]⟩

/-- CDNA3 `s_getpc_b64` (format 2, opcode 28): the handler writes only D, on every input. -/
theorem cdna3_s_getpc_b64_frame : Frame Gen.cdna3.dispatch 2 28 (Spec.writes 2 28) :=
  ⟨_, rfl, by frame Gen.cdna3.run_SGETPCB64⟩

/-- CDNA3 `s_and_saveexec_b64` (format 2, opcode 32): the handler writes only D, SCC, EXEC, on every input. -/
theorem cdna3_s_and_saveexec_b64_frame : Frame Gen.cdna3.dispatch 2 32 (Spec.writes 2 32) :=
  ⟨_, rfl, by frame Gen.cdna3.run_SANDSAVEEXECB64⟩

/-- CDNA3 `s_or_saveexec_b64` (format 2, opcode 33): the handler writes only D, SCC, EXEC, on every input. -/
theorem cdna3_s_or_saveexec_b64_frame : Frame Gen.cdna3.dispatch 2 33 (Spec.writes 2 33) :=
  ⟨_, rfl, by frame Gen.cdna3.run_SORSAVEEXECB64⟩

/-- CDNA3 `s_xor_saveexec_b64` (format 2, opcode 34): the handler writes only D, SCC, EXEC, on every input. -/
theorem cdna3_s_xor_saveexec_b64_frame : Frame Gen.cdna3.dispatch 2 34 (Spec.writes 2 34) :=
  ⟨_, rfl, by frame Gen.cdna3.run_SXORSAVEEXECB64⟩

/-- CDNA3 `s_andn2_saveexec_b64` (format 2, opcode 35): the handler writes only D, SCC, EXEC, on every input. -/
theorem cdna3_s_andn2_saveexec_b64_frame : Frame Gen.cdna3.dispatch 2 35 (Spec.writes 2 35) :=
  ⟨_, rfl, by frame Gen.cdna3.run_SANDN2SAVEEXECB64⟩

/-- CDNA3 `s_orn2_saveexec_b64` (format 2, opcode 36): the handler writes only D, SCC, EXEC, on every input. -/
theorem cdna3_s_orn2_saveexec_b64_frame : Frame Gen.cdna3.dispatch 2 36 (Spec.writes 2 36) :=
  ⟨_, rfl, by frame Gen.cdna3.run_SORN2SAVEEXECB64⟩

/-- CDNA3 `s_nand_saveexec_b64` (format 2, opcode 37): the handler writes only D, SCC, EXEC, on every input. -/
theorem cdna3_s_nand_saveexec_b64_frame : Frame Gen.cdna3.dispatch 2 37 (Spec.writes 2 37) :=
  ⟨_, rfl, by frame Gen.cdna3.run_SNANDSAVEEXECB64⟩

/-- CDNA3 `s_nor_saveexec_b64` (format 2, opcode 38): the handler writes only D, SCC, EXEC, on every input. -/
theorem cdna3_s_nor_saveexec_b64_frame : Frame Gen.cdna3.dispatch 2 38 (Spec.writes 2 38) :=
  ⟨_, rfl, by frame Gen.cdna3.run_SNORSAVEEXECB64⟩

/-- CDNA3 `s_xnor_saveexec_b64` (format 2, opcode 39): the handler writes only D, SCC, EXEC, on every input. -/
theorem cdna3_s_xnor_saveexec_b64_frame : Frame Gen.cdna3.dispatch 2 39 (Spec.writes 2 39) :=
  ⟨_, rfl, by frame Gen.cdna3.run_SNXORSAVEEXECB64⟩

/-- CDNA3 `s_abs_i32` (format 2, opcode 48): the handler writes only D, SCC, on every input. -/
theorem cdna3_s_abs_i32_frame : Frame Gen.cdna3.dispatch 2 48 (Spec.writes 2 48) :=
  ⟨_, rfl, by frame Gen.cdna3.run_SABSI32⟩

/-- CDNA3 `s_cmp_eq_i32` (format 3, opcode 0): the handler writes only SCC, on every input. -/
theorem cdna3_s_cmp_eq_i32_frame : Frame Gen.cdna3.dispatch 3 0 (Spec.writes 3 0) :=
  ⟨_, rfl, by frame Gen.cdna3.run_SCMPEQI32⟩

/-- CDNA3 `s_cmp_lg_i32` (format 3, opcode 1): the handler writes only SCC, on every input. -/
theorem cdna3_s_cmp_lg_i32_frame : Frame Gen.cdna3.dispatch 3 1 (Spec.writes 3 1) :=
  ⟨_, rfl, by frame Gen.cdna3.run_SCMPLGI32⟩

/-- CDNA3 `s_cmp_gt_i32` (format 3, opcode 2): the handler writes only SCC, on every input. -/
theorem cdna3_s_cmp_gt_i32_frame : Frame Gen.cdna3.dispatch 3 2 (Spec.writes 3 2) :=
  ⟨_, rfl, by frame Gen.cdna3.run_SCMPGTI32⟩

/-- CDNA3 `s_cmp_ge_i32` (format 3, opcode 3): the handler writes only SCC, on every input. -/
theorem cdna3_s_cmp_ge_i32_frame : Frame Gen.cdna3.dispatch 3 3 (Spec.writes 3 3) :=
  ⟨_, rfl, by frame Gen.cdna3.run_SCMPGEI32⟩

/-- CDNA3 `s_cmp_lt_i32` (format 3, opcode 4): the handler writes only SCC, on every input. -/
theorem cdna3_s_cmp_lt_i32_frame : Frame Gen.cdna3.dispatch 3 4 (Spec.writes 3 4) :=
  ⟨_, rfl, by frame Gen.cdna3.run_SCMPLTI32⟩

/-- CDNA3 `s_cmp_le_i32` (format 3, opcode 5): the handler writes only SCC, on every input. -/
theorem cdna3_s_cmp_le_i32_frame : Frame Gen.cdna3.dispatch 3 5 (Spec.writes 3 5) :=
  ⟨_, rfl, by frame Gen.cdna3.run_SCMPLEI32⟩

/-- CDNA3 `s_cmp_eq_u32` (format 3, opcode 6): the handler writes only SCC, on every input. -/
theorem cdna3_s_cmp_eq_u32_frame : Frame Gen.cdna3.dispatch 3 6 (Spec.writes 3 6) :=
  ⟨_, rfl, by frame Gen.cdna3.run_SCMPEQU32⟩

/-- CDNA3 `s_cmp_lg_u32` (format 3, opcode 7): the handler writes only SCC, on every input. -/
theorem cdna3_s_cmp_lg_u32_frame : Frame Gen.cdna3.dispatch 3 7 (Spec.writes 3 7) :=
  ⟨_, rfl, by frame Gen.cdna3.run_SCMPLGU32⟩

/-- CDNA3 `s_cmp_gt_u32` (format 3, opcode 8): the handler writes only SCC, on every input. -/
theorem cdna3_s_cmp_gt_u32_frame : Frame Gen.cdna3.dispatch 3 8 (Spec.writes 3 8) :=
  ⟨_, rfl, by frame Gen.cdna3.run_SCMPGTU32⟩

/-- CDNA3 `s_cmp_ge_u32` (format 3, opcode 9): the handler writes only SCC, on every input. -/
theorem cdna3_s_cmp_ge_u32_frame : Frame Gen.cdna3.dispatch 3 9 (Spec.writes 3 9) :=
  ⟨_, rfl, by frame Gen.cdna3.run_SCMPGEU32⟩

/-- CDNA3 `s_cmp_lt_u32` (format 3, opcode 10): the handler writes only SCC, on every input. -/
theorem cdna3_s_cmp_lt_u32_frame : Frame Gen.cdna3.dispatch 3 10 (Spec.writes 3 10) :=
  ⟨_, rfl, by frame Gen.cdna3.run_SCMPLTU32⟩

/-- CDNA3 `s_cmp_le_u32` (format 3, opcode 11): the handler writes only SCC, on every input. -/
theorem cdna3_s_cmp_le_u32_frame : Frame Gen.cdna3.dispatch 3 11 (Spec.writes 3 11) :=
  ⟨_, rfl, by frame Gen.cdna3.run_SCMPLEU32⟩

/-- CDNA3 `s_nop` (format 4, opcode 0): the handler writes only nothing, on every input. -/
theorem cdna3_s_nop_frame : Frame Gen.cdna3.dispatch 4 0 (Spec.writes 4 0) :=
  ⟨_, rfl, by frame0⟩

/-- CDNA3 `s_branch` (format 4, opcode 2): the handler writes only PC, on every input. -/
theorem cdna3_s_branch_frame : Frame Gen.cdna3.dispatch 4 2 (Spec.writes 4 2) :=
  ⟨_, rfl, by frame Gen.cdna3.run_SCBRANCH⟩

/-- CDNA3 `s_cbranch_scc0` (format 4, opcode 4): the handler writes only PC, on every input. -/
theorem cdna3_s_cbranch_scc0_frame : Frame Gen.cdna3.dispatch 4 4 (Spec.writes 4 4) :=
  ⟨_, rfl, by frame Gen.cdna3.run_SCBRANCHSCC0⟩

/-- CDNA3 `s_cbranch_scc1` (format 4, opcode 5): the handler writes only PC, on every input. -/
theorem cdna3_s_cbranch_scc1_frame : Frame Gen.cdna3.dispatch 4 5 (Spec.writes 4 5) :=
  ⟨_, rfl, by frame Gen.cdna3.run_SCBRANCHSCC1⟩

/-- CDNA3 `s_cbranch_vccz` (format 4, opcode 6): the handler writes only PC, on every input. -/
theorem cdna3_s_cbranch_vccz_frame : Frame Gen.cdna3.dispatch 4 6 (Spec.writes 4 6) :=
  ⟨_, rfl, by frame Gen.cdna3.run_SCBRANCHVCCZ⟩

/-- CDNA3 `s_cbranch_vccnz` (format 4, opcode 7): the handler writes only PC, on every input. -/
theorem cdna3_s_cbranch_vccnz_frame : Frame Gen.cdna3.dispatch 4 7 (Spec.writes 4 7) :=
  ⟨_, rfl, by frame Gen.cdna3.run_SCBRANCHVCCNZ⟩

/-- CDNA3 `s_cbranch_execz` (format 4, opcode 8): the handler writes only PC, on every input. -/
theorem cdna3_s_cbranch_execz_frame : Frame Gen.cdna3.dispatch 4 8 (Spec.writes 4 8) :=
  ⟨_, rfl, by frame Gen.cdna3.run_SCBRANCHEXECZ⟩

/-- CDNA3 `s_cbranch_execnz` (format 4, opcode 9): the handler writes only PC, on every input. -/
theorem cdna3_s_cbranch_execnz_frame : Frame Gen.cdna3.dispatch 4 9 (Spec.writes 4 9) :=
  ⟨_, rfl, by frame Gen.cdna3.run_SCBRANCHEXECNZ⟩

/-- CDNA3 `s_waitcnt` (format 4, opcode 12): the handler writes only nothing, on every input. -/
theorem cdna3_s_waitcnt_frame : Frame Gen.cdna3.dispatch 4 12 (Spec.writes 4 12) :=
  ⟨_, rfl, by frame0⟩

/-! ## The ISA side, coverage, and the statement for the whole opcode switch -/

/-- The ISA functions themselves respect the ISA's destination table (`Spec.writes`, transcribed
    separately from the "D"/"SCC" columns): all 78 specified opcodes, every input; what they write to
    SCC is 0 or 1. -/
theorem spec_respects_writes : ∀ o ∈ Spec.ops, ∀ i : ScalarIn, (o.f i).WritesOnly (Spec.writes o.fmt o.op) :=
  spec_respects_writes'

/-- the frame theorems of the GCN3 ALU, one per row of `Gen.gcn3.table` -/
def gcn3Framed : List (Framed Gen.gcn3.dispatch Hand.gcn3.dispatch) := [
  ⟨0, 0, .inl gcn3_s_add_u32_frame⟩,
  ⟨0, 1, .inl gcn3_s_sub_u32_frame⟩,
  ⟨0, 2, .inl gcn3_s_add_i32_frame⟩,
  ⟨0, 3, .inl gcn3_s_sub_i32_frame⟩,
  ⟨0, 4, .inl gcn3_s_addc_u32_frame⟩,
  ⟨0, 5, .inl gcn3_s_subb_u32_frame⟩,
  ⟨0, 6, .inl gcn3_s_min_i32_frame⟩,
  ⟨0, 7, .inl gcn3_s_min_u32_frame⟩,
  ⟨0, 8, .inl gcn3_s_max_i32_frame⟩,
  ⟨0, 9, .inl gcn3_s_max_u32_frame⟩,
  ⟨0, 10, .inl gcn3_s_cselect_b32_frame⟩,
  ⟨0, 12, .inl gcn3_s_and_b32_frame⟩,
  ⟨0, 13, .inl gcn3_s_and_b64_frame⟩,
  ⟨0, 15, .inl gcn3_s_or_b64_frame⟩,
  ⟨0, 16, .inl gcn3_s_xor_b32_frame⟩,
  ⟨0, 17, .inl gcn3_s_xor_b64_frame⟩,
  ⟨0, 19, .inl gcn3_s_andn2_b64_frame⟩,
  ⟨0, 28, .inl gcn3_s_lshl_b32_frame⟩,
  ⟨0, 29, .inl gcn3_s_lshl_b64_frame⟩,
  ⟨0, 30, .inl gcn3_s_lshr_b32_frame⟩,
  ⟨0, 31, .inl gcn3_s_lshr_b64_frame⟩,
  ⟨0, 32, .inl gcn3_s_ashr_i32_frame⟩,
  ⟨0, 34, .inl gcn3_s_bfm_b32_frame⟩,
  ⟨0, 36, .inl gcn3_s_mul_i32_frame⟩,
  ⟨0, 38, .inl gcn3_s_bfe_i32_frame⟩,
  ⟨1, 0, .inl gcn3_s_movk_i32_frame⟩,
  ⟨1, 1, .inl gcn3_s_cmovk_i32_frame⟩,
  ⟨1, 2, .inl gcn3_s_cmpk_eq_i32_frame⟩,
  ⟨1, 3, .inl gcn3_s_cmpk_lg_i32_frame⟩,
  ⟨1, 15, .inl gcn3_s_mulk_i32_frame⟩,
  ⟨2, 0, .inl gcn3_s_mov_b32_frame⟩,
  ⟨2, 1, .inl gcn3_s_mov_b64_frame⟩,
  ⟨2, 4, .inl gcn3_s_not_b32_frame⟩,
  ⟨2, 8, .inr gcn3_s_brev_b32_frame⟩,
  ⟨2, 28, .inl gcn3_s_getpc_b64_frame⟩,
  ⟨2, 32, .inl gcn3_s_and_saveexec_b64_frame⟩,
  ⟨2, 33, .inl gcn3_s_or_saveexec_b64_frame⟩,
  ⟨2, 34, .inl gcn3_s_xor_saveexec_b64_frame⟩,
  ⟨2, 35, .inl gcn3_s_andn2_saveexec_b64_frame⟩,
  ⟨2, 36, .inl gcn3_s_orn2_saveexec_b64_frame⟩,
  ⟨2, 37, .inl gcn3_s_nand_saveexec_b64_frame⟩,
  ⟨2, 38, .inl gcn3_s_nor_saveexec_b64_frame⟩,
  ⟨2, 39, .inl gcn3_s_xnor_saveexec_b64_frame⟩,
  ⟨2, 48, .inl gcn3_s_abs_i32_frame⟩,
  ⟨3, 0, .inl gcn3_s_cmp_eq_i32_frame⟩,
  ⟨3, 1, .inl gcn3_s_cmp_lg_i32_frame⟩,
  ⟨3, 2, .inl gcn3_s_cmp_gt_i32_frame⟩,
  ⟨3, 3, .inl gcn3_s_cmp_ge_i32_frame⟩,
  ⟨3, 4, .inl gcn3_s_cmp_lt_i32_frame⟩,
  ⟨3, 5, .inl gcn3_s_cmp_le_i32_frame⟩,
  ⟨3, 6, .inl gcn3_s_cmp_eq_u32_frame⟩,
  ⟨3, 7, .inl gcn3_s_cmp_lg_u32_frame⟩,
  ⟨3, 8, .inl gcn3_s_cmp_gt_u32_frame⟩,
  ⟨3, 10, .inl gcn3_s_cmp_lt_u32_frame⟩,
  ⟨4, 0, .inl gcn3_s_nop_frame⟩,
  ⟨4, 2, .inl gcn3_s_branch_frame⟩,
  ⟨4, 4, .inl gcn3_s_cbranch_scc0_frame⟩,
  ⟨4, 5, .inl gcn3_s_cbranch_scc1_frame⟩,
  ⟨4, 6, .inl gcn3_s_cbranch_vccz_frame⟩,
  ⟨4, 7, .inl gcn3_s_cbranch_vccnz_frame⟩,
  ⟨4, 8, .inl gcn3_s_cbranch_execz_frame⟩,
  ⟨4, 9, .inl gcn3_s_cbranch_execnz_frame⟩,
  ⟨4, 12, .inl gcn3_s_waitcnt_frame⟩ ]

/-- the frame theorems of the CDNA3 ALU, one per row of `Gen.cdna3.table` -/
def cdna3Framed : List (Framed Gen.cdna3.dispatch Hand.cdna3.dispatch) := [
  ⟨0, 0, .inl cdna3_s_add_u32_frame⟩,
  ⟨0, 1, .inl cdna3_s_sub_u32_frame⟩,
  ⟨0, 2, .inl cdna3_s_add_i32_frame⟩,
  ⟨0, 3, .inl cdna3_s_sub_i32_frame⟩,
  ⟨0, 4, .inl cdna3_s_addc_u32_frame⟩,
  ⟨0, 5, .inl cdna3_s_subb_u32_frame⟩,
  ⟨0, 6, .inl cdna3_s_min_i32_frame⟩,
  ⟨0, 7, .inl cdna3_s_min_u32_frame⟩,
  ⟨0, 8, .inl cdna3_s_max_i32_frame⟩,
  ⟨0, 9, .inl cdna3_s_max_u32_frame⟩,
  ⟨0, 10, .inl cdna3_s_cselect_b32_frame⟩,
  ⟨0, 11, .inl cdna3_s_cselect_b64_frame⟩,
  ⟨0, 12, .inl cdna3_s_and_b32_frame⟩,
  ⟨0, 13, .inl cdna3_s_and_b64_frame⟩,
  ⟨0, 14, .inl cdna3_s_or_b32_frame⟩,
  ⟨0, 15, .inl cdna3_s_or_b64_frame⟩,
  ⟨0, 16, .inl cdna3_s_xor_b32_frame⟩,
  ⟨0, 17, .inl cdna3_s_xor_b64_frame⟩,
  ⟨0, 18, .inl cdna3_s_andn2_b32_frame⟩,
  ⟨0, 19, .inl cdna3_s_andn2_b64_frame⟩,
  ⟨0, 20, .inl cdna3_s_orn2_b32_frame⟩,
  ⟨0, 21, .inl cdna3_s_orn2_b64_frame⟩,
  ⟨0, 28, .inl cdna3_s_lshl_b32_frame⟩,
  ⟨0, 29, .inl cdna3_s_lshl_b64_frame⟩,
  ⟨0, 30, .inl cdna3_s_lshr_b32_frame⟩,
  ⟨0, 31, .inl cdna3_s_lshr_b64_frame⟩,
  ⟨0, 32, .inl cdna3_s_ashr_i32_frame⟩,
  ⟨0, 33, .inl cdna3_s_ashr_i64_frame⟩,
  ⟨0, 34, .inl cdna3_s_bfm_b32_frame⟩,
  ⟨0, 36, .inl cdna3_s_mul_i32_frame⟩,
  ⟨0, 37, .inl cdna3_s_bfe_u32_frame⟩,
  ⟨0, 38, .inl cdna3_s_bfe_i32_frame⟩,
  ⟨0, 44, .inl cdna3_s_mul_hi_u32_frame⟩,
  ⟨1, 0, .inl cdna3_s_movk_i32_frame⟩,
  ⟨1, 1, .inl cdna3_s_cmovk_i32_frame⟩,
  ⟨1, 2, .inl cdna3_s_cmpk_eq_i32_frame⟩,
  ⟨1, 3, .inl cdna3_s_cmpk_lg_i32_frame⟩,
  ⟨1, 15, .inl cdna3_s_mulk_i32_frame⟩,
  ⟨2, 0, .inl cdna3_s_mov_b32_frame⟩,
  ⟨2, 1, .inl cdna3_s_mov_b64_frame⟩,
  ⟨2, 4, .inl cdna3_s_not_b32_frame⟩,
  ⟨2, 8, .inr cdna3_s_brev_b32_frame⟩,
  ⟨2, 28, .inl cdna3_s_getpc_b64_frame⟩,
  ⟨2, 32, .inl cdna3_s_and_saveexec_b64_frame⟩,
  ⟨2, 33, .inl cdna3_s_or_saveexec_b64_frame⟩,
  ⟨2, 34, .inl cdna3_s_xor_saveexec_b64_frame⟩,
  ⟨2, 35, .inl cdna3_s_andn2_saveexec_b64_frame⟩,
  ⟨2, 36, .inl cdna3_s_orn2_saveexec_b64_frame⟩,
  ⟨2, 37, .inl cdna3_s_nand_saveexec_b64_frame⟩,
  ⟨2, 38, .inl cdna3_s_nor_saveexec_b64_frame⟩,
  ⟨2, 39, .inl cdna3_s_xnor_saveexec_b64_frame⟩,
  ⟨2, 48, .inl cdna3_s_abs_i32_frame⟩,
  ⟨3, 0, .inl cdna3_s_cmp_eq_i32_frame⟩,
  ⟨3, 1, .inl cdna3_s_cmp_lg_i32_frame⟩,
  ⟨3, 2, .inl cdna3_s_cmp_gt_i32_frame⟩,
  ⟨3, 3, .inl cdna3_s_cmp_ge_i32_frame⟩,
  ⟨3, 4, .inl cdna3_s_cmp_lt_i32_frame⟩,
  ⟨3, 5, .inl cdna3_s_cmp_le_i32_frame⟩,
  ⟨3, 6, .inl cdna3_s_cmp_eq_u32_frame⟩,
  ⟨3, 7, .inl cdna3_s_cmp_lg_u32_frame⟩,
  ⟨3, 8, .inl cdna3_s_cmp_gt_u32_frame⟩,
  ⟨3, 9, .inl cdna3_s_cmp_ge_u32_frame⟩,
  ⟨3, 10, .inl cdna3_s_cmp_lt_u32_frame⟩,
  ⟨3, 11, .inl cdna3_s_cmp_le_u32_frame⟩,
  ⟨4, 0, .inl cdna3_s_nop_frame⟩,
  ⟨4, 2, .inl cdna3_s_branch_frame⟩,
  ⟨4, 4, .inl cdna3_s_cbranch_scc0_frame⟩,
  ⟨4, 5, .inl cdna3_s_cbranch_scc1_frame⟩,
  ⟨4, 6, .inl cdna3_s_cbranch_vccz_frame⟩,
  ⟨4, 7, .inl cdna3_s_cbranch_vccnz_frame⟩,
  ⟨4, 8, .inl cdna3_s_cbranch_execz_frame⟩,
  ⟨4, 9, .inl cdna3_s_cbranch_execnz_frame⟩,
  ⟨4, 12, .inl cdna3_s_waitcnt_frame⟩ ]

#eval show IO Unit from do
  let m := uncovered Gen.gcn3.table (Framed.keys gcn3Framed) ++ uncovered Gen.cdna3.table (Framed.keys cdna3Framed)
  unless m.isEmpty do
    throw (IO.userError s!"scalar handlers (format, opcode, Go handler) without a frame theorem: {m}")

/-- Coverage obligation: every row of both regenerated dispatch tables has a frame theorem. -/
theorem all_dispatch_rows_have_a_frame_theorem :
    uncovered Gen.gcn3.table (Framed.keys gcn3Framed) = [] ∧
    uncovered Gen.cdna3.table (Framed.keys cdna3Framed) = [] := by decide

/-- Whatever handler the GCN3 opcode switch selects, for ANY format and opcode and ANY input
    (including an SCC byte that is not a bit): it writes only the architected destinations of that
    opcode and only 0 or 1 to SCC — no scalar handler writes VCC, only SOPP branches write PC, only
    `s_*_saveexec_b64` write EXEC. -/
theorem gcn3_every_dispatched_handler_is_framed (fmt op : Nat) (h : ScalarIn → ScalarOut)
    (hd : gcn3Dispatch fmt op = some h) (i : ScalarIn) : (h i).WritesOnly (Spec.writes fmt op) := by
  rcases framed_of_covered all_dispatch_rows_have_a_frame_theorem.1 fmt op (gcn3_dispatch_rows fmt op h hd) with hf | hf
  · obtain ⟨g, hg, hw⟩ := hf
    rw [gen_sub_gcn3 fmt op g hg] at hd
    cases hd; exact hw i
  · obtain ⟨g, hg, hw⟩ := hf
    have hgen := hand_gen_disjoint_gcn3 fmt op g hg
    rw [hand_sub_gcn3 fmt op hgen g hg] at hd
    cases hd; exact hw i

/-- The same for the CDNA3 ALU. -/
theorem cdna3_every_dispatched_handler_is_framed (fmt op : Nat) (h : ScalarIn → ScalarOut)
    (hd : cdna3Dispatch fmt op = some h) (i : ScalarIn) : (h i).WritesOnly (Spec.writes fmt op) := by
  rcases framed_of_covered all_dispatch_rows_have_a_frame_theorem.2 fmt op (cdna3_dispatch_rows fmt op h hd) with hf | hf
  · obtain ⟨g, hg, hw⟩ := hf
    rw [gen_sub_cdna3 fmt op g hg] at hd
    cases hd; exact hw i
  · obtain ⟨g, hg, hw⟩ := hf
    have hgen := hand_gen_disjoint_cdna3 fmt op g hg
    rw [hand_sub_cdna3 fmt op hgen g hg] at hd
    cases hd; exact hw i

example : (Gen.gcn3.run_SADDU32 { src0 := 5#64, src1 := 3#64, dstOld := 0, scc := 7, vcc := 0, exec := 0, pc := 0, simm16 := 0 }).WritesOnly Spec.wDS :=
  gcn3_every_dispatched_handler_is_framed 0 0 _ rfl _

end C03S
