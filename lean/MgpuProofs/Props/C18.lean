import MgpuProofs.C18Ctl
/-! # C18 — property theorems (partial property: RDMA routing, drain handshake, owner routing,
work-group partition; whole-system invariance across GPU sets is observed, not proved) -/
namespace C18

/-- what `rdma_once` says about one channel of the engine after an arbitrary run -/
structure OnceSpec (route : Nat → Option Nat) (ch : Chan) : Prop where
  /-- every request taken from the port was sent on with the payload unchanged (address, size /
      data, dirty mask, PID) to the port the address table gives for its address -/
  faithful : ∀ f ∈ ch.fwd, f.out.pl = f.orig.pl ∧ route (addrOf f.orig.pl) = some f.out.dst
  /-- no request is forwarded twice and no clone id is used twice -/
  fwdOnce : (ch.fwd.map (·.orig.id)).Nodup ∧ (ch.fwd.map (·.out.fid)).Nodup
  /-- every answer carries the original ID, goes to the originator, belongs to a request that was
      forwarded, and carries the data of a reply the environment delivered for that clone -/
  answer : ∀ a ∈ ch.ans, a.out.rspTo = a.orig.id ∧ a.out.dst = a.orig.src ∧
      (∃ f ∈ ch.fwd, f.orig = a.orig ∧ f.out.fid = a.fid) ∧
      (∃ r ∈ ch.del, r.rspTo = a.fid ∧ r.data = a.out.data ∧ r.bad = false)
  /-- no request is answered twice -/
  ansOnce : (ch.ans.map (·.orig.id)).Nodup
  /-- none is lost: the forwarded requests are exactly the answered ones plus those in the table -/
  conserve : (ch.fwd.map FwdRec.toTx).Perm (ch.ans.map AnsRec.toTx ++ ch.tx)

theorem onceSpec_of_cinv {route : Nat → Option Nat} {ch : Chan} (h : CInv route ch) :
    OnceSpec route ch where
  faithful := h.faithful
  fwdOnce := ⟨(cinv_ans_nodup h).2, h.fidNodup⟩
  answer := fun a ha =>
    let ⟨h1, h2, h3⟩ := h.ansOk a ha
    ⟨h1, h2, cinv_ans_forwarded h a ha, h3⟩
  ansOnce := (cinv_ans_nodup h).1
  conserve := h.conserve

/-- **rdma_once.** For every configuration and every sequence of environment moves and ticks
(any request stream, any reply order/content/delay, any back-pressure, drain/restart anywhere):
each inside request the engine takes is forwarded exactly once, unchanged, to the port the remote
address table gives (`a / bankSize`), and is answered at most once, to its originator, with its
original ID and the data of a delivered reply to its clone; forwarded = answered + in table.
The same holds for requests from outside with the local-module mapper. (A request is taken from
its port only in the step that forwards it, so "taken" and "forwarded" coincide.) -/
theorem rdma_once (c : Cfg) (ops : List Op) :
    OnceSpec (routeOut c) (run c ops).io ∧ OnceSpec (routeIn c) (run c ops).oi :=
  ⟨onceSpec_of_cinv (inv_run c ops).1, onceSpec_of_cinv (inv_run c ops).2⟩

/-- `cloneReq` copies every payload field (after the `fix:` that adds the PID). -/
theorem clone_keeps_payload (p : Payload) : clonePl p = p := clonePl_id p

/-- hypotheses of `rdma_once` are met non-trivially: two requests to the same address, replies in
    swapped order, both answered with their own IDs -/
example :
    let c : Cfg := ⟨4, 1, 1, 1, 1, 0x1000, 3, 0x40, 2, 0x1000, 0x2000⟩
    let s := run c [.reqI 1 (.read 0x2010 4 5), .reqI 2 (.read 0x2010 4 0), .tick, .takeFwdI, .takeFwdI,
      .rspI ⟨1, some [1], false⟩, .rspI ⟨0, some [2], false⟩, .tick, .tick]
    (s.io.ans.map fun a => (a.orig.id, a.out.rspTo, a.out.dst, a.out.data)) =
      [(0, 0, 1, some [2]), (1, 1, 2, some [1])] ∧ s.io.tx = [] ∧
    (s.io.fwd.map fun f => (f.out.dst, f.out.pl)) = [(2, .read 0x2010 4 0), (2, .read 0x2010 4 5)] := by
  decide

/-- **drain_ack_only_when_empty (step form).** In any state whatsoever, if a tick emits a drain
acknowledgement then both transaction tables were empty when it was emitted (the control phase
runs first and does not touch the tables), and the acknowledgement records (0,0). -/
theorem drain_ack_only_when_empty (c : Cfg) (s : St) (h : (tick c s).1.acks ≠ s.acks) :
    s.io.tx = [] ∧ s.oi.tx = [] ∧ (tick c s).1.acks = (0, 0) :: s.acks := by
  have hd := (dataPhase_ctl c (ctrlPhase c s).1).1
  have ht : (tick c s).1.acks = (ctrlPhase c s).1.acks := hd
  rcases ctrlPhase_acks c s with h1 | ⟨h1, h2, h3⟩
  · exact absurd (ht.trans h1) h
  · exact ⟨h2, h3, ht.trans h1⟩

/-- **drain_ack_only_when_empty (run form).** Over every run, every drain acknowledgement ever
emitted saw both tables empty. -/
theorem drain_acks_all_idle (c : Cfg) (ops : List Op) : ∀ p ∈ (run c ops).acks, p = (0, 0) := by
  unfold run
  have : ∀ (ops : List Op) (s : St), (∀ p ∈ s.acks, p = (0, 0)) →
      ∀ p ∈ (ops.foldl (step c) s).acks, p = (0, 0) := by
    intro ops
    induction ops with
    | nil => intro s hs; exact hs
    | cons o os ih =>
      intro s hs
      apply ih
      cases o with
      | tick =>
        intro p hp
        by_cases he : (tick c s).1.acks = s.acks
        · exact hs p (he ▸ hp)
        · have := (drain_ack_only_when_empty c s he).2.2
          have hp' : p ∈ (tick c s).1.acks := hp
          rw [this] at hp'
          rcases List.mem_cons.mp hp' with rfl | hm
          · rfl
          · exact hs p hm
      | ctl k =>
        simp only [step]
        split <;> exact hs
      | _ => exact hs
  exact this ops {} (by simp)

/-- **No inside request is consumed while paused.** If a tick ends with the pause flag set (the flag
is set by the drain command in the control phase at the start of the tick and cleared only by a
restart acknowledgement), the tick takes nothing from the inside request port and forwards nothing
inside→outside. -/
theorem paused_no_consume (c : Cfg) (s : St) (h : (tick c s).1.pause = true) :
    (tick c s).1.io.reqIn = s.io.reqIn ∧ (tick c s).1.io.fwd = s.io.fwd := by
  have hd := dataPhase_ctl c (ctrlPhase c s).1
  have hp : (ctrlPhase c s).1.pause = true := by
    have : (tick c s).1.pause = (ctrlPhase c s).1.pause := hd.2.1
    rw [← this]; exact h
  have := dataPhase_paused c (ctrlPhase c s).1 hp
  have hio := (ctrlPhase_io c s).1
  exact ⟨by rw [← hio]; exact this.1, by rw [← hio]; exact this.2⟩

/-- **The drain command pauses, only an acknowledged restart resumes.** A tick that takes a drain
command ends paused; a tick that starts paused and ends not paused has sent a restart
acknowledgement and had a restart command at the head of the control port. Together with
`paused_no_consume`: between the drain command and the restart acknowledgement no inside request
is consumed. -/
theorem drain_pauses_restart_resumes (c : Cfg) (s : St) :
    (∀ src rest, s.ctIn = .drain src :: rest → (tick c s).1.pause = true) ∧
    (s.pause = true → (tick c s).1.pause = false →
      (tick c s).1.nRestart = s.nRestart + 1 ∧ ∃ src rest, s.ctIn = .restart src :: rest) := by
  have hd := dataPhase_ctl c (ctrlPhase c s).1
  have hp : (tick c s).1.pause = (ctrlStep c.cap s).1.pause := hd.2.1.trans (ctrlPhase_pause c s).1
  have hn : (tick c s).1.nRestart = (ctrlStep c.cap s).1.nRestart := hd.2.2.1.trans (ctrlPhase_pause c s).2
  refine ⟨fun src rest h => hp.trans (ctrlStep_drain c.cap s src rest h), fun h1 h2 => ?_⟩
  rw [hp] at h2
  rw [hn]
  exact ctrlStep_unpause c.cap s h1 h2

/-- the drain theorems apply non-trivially: a drain issued while one transaction is in flight in each
    direction is acknowledged only after both complete, and a request delivered meanwhile stays put -/
example :
    let c : Cfg := ⟨2, 1, 1, 1, 1, 0x1000, 3, 0x40, 1, 0x1000, 0x2000⟩
    let pre := [Op.reqI 1 (.read 0x2010 4 0), .reqO 7 (.write 0x1010 [0xaa] [] 0), .tick, .ctl (.drain 2),
      .tick, .tick, .reqI 1 (.read 0x2020 4 0), .tick, .takeFwdI, .takeFwdO]
    let s1 := run c pre
    let s2 := run c (pre ++ [.rspI ⟨0, some [1, 2, 3, 4], false⟩, .tick, .rspO ⟨0, none, false⟩, .tick, .tick])
    s1.acks = [] ∧ s1.pause = true ∧ s1.io.reqIn.length = 1 ∧ s1.io.tx.length = 1 ∧ s1.oi.tx.length = 1 ∧
    s2.acks = [(0, 0)] ∧ s2.io.reqIn.length = 1 ∧ s2.ctOut = [.drainAck 2] := by
  decide +kernel

/-! ## Owner routing -/

/-- **owner_routing.** With bank size `S` (= per-GPU memory size), allocator start page `P` and `n`
GPUs: every physical address the allocator gives to device `d` (0 = CPU, `i` = GPU `i`), except
those in the last page of `d`'s range, is sent by the RDMA address table to module `d`, and is
treated as local by GPU `d` and by no other GPU. -/
theorem owner_routing (S P n d a : Nat) (hd : d ≤ n) (hlo : P + d * S ≤ a) (hhi : a < d * S + S) :
    allocOwner P S n a = some d ∧ bank S a = d ∧ ∀ g, isLocal S g a = true ↔ g = d := by
  have hS : 0 < S := by
    rcases Nat.eq_zero_or_pos S with h | h
    · subst h; omega
    · exact h
  have hb : a / S = d := Nat.div_eq_of_lt_le (by omega) (by rw [Nat.add_mul]; omega)
  have ha : (a - P) / S = d := Nat.div_eq_of_lt_le (by omega) (by rw [Nat.add_mul]; omega)
  refine ⟨?_, hb, ?_⟩
  · unfold allocOwner
    have : ¬ a < P := by omega
    simp [this, ha, hd]
  · intro g
    unfold isLocal
    simp only [Bool.and_eq_true, decide_eq_true_eq]
    constructor
    · intro ⟨h1, h2⟩
      have : a / S = g := Nat.div_eq_of_lt_le h1 (by rw [Nat.add_mul]; omega)
      omega
    · intro hg; subst hg; omega

/-- the full statement: *every* address of device `d`'s allocator range is routed to `d` -/
def owner_routing_full : Prop :=
  ∀ S P n d a, 0 < P → P ≤ S → d ≤ n → allocOwner P S n a = some d → bank S a = d

/-- … is false of the current code: the allocator starts one page above 0 (`RegisterDevice`,
"to avoid 0 address") while the banks start at 0, so the last page of every device's range lies in
the next bank (for the last GPU: beyond the table). Witness: 4 GiB banks, 4 KiB page, address
2·4 GiB is GPU 1's for the allocator and bank 2 for the RDMA table. -/
theorem owner_routing_full_refuted : ¬ owner_routing_full := by
  intro h
  have := h 4294967296 4096 2 1 8589934592 (by decide) (by decide) (by decide) (by decide)
  revert this
  decide

example : allocOwner 4096 4294967296 2 (4294967296 + 4096) = some 1 ∧ bank 4294967296 (4294967296 + 4096) = 1 ∧
    isLocal 4294967296 1 (4294967296 + 4096) = true ∧ isLocal 4294967296 2 (4294967296 + 4096) = false := by
  decide

/-! ## Work-group distribution of a unified launch -/

/-- **wgdist_partitions.** For every vector of CU counts with positive sum and every positive
work-group count, `distributeWGToGPUs` does not panic, returns `len+1` boundaries starting at 0
(so GPU `i` gets the consecutive range `[d[i], d[i+1])`, with `d[i+1] = d[i] + cu_i · wgPerCU` by
definition of `wgDist`), and every work-group id below `total` lies in exactly one range. -/
theorem wgdist_partitions (cus : List Nat) (total : Nat) (hs : 0 < cus.sum) (ht : 0 < total) :
    let d := wgDist (wgPerCU total cus.sum) cus 0
    distributeWG cus total = .dist d ∧ d.head? = some 0 ∧ d.length = cus.length + 1 ∧
    lastD d 0 = cus.sum * wgPerCU total cus.sum ∧
    ∀ id, id < total → countOwners id d = 1 := by
  intro d
  have hall := wg_all_allocated total cus.sum hs ht
  have hlast : lastD d 0 = cus.sum * wgPerCU total cus.sum := by
    simp only [d, wgDist_last]; omega
  refine ⟨?_, ?_, wgDist_length _ _ _, hlast, ?_⟩
  · unfold distributeWG
    have h1 : cus.sum ≠ 0 := by omega
    simp only [h1, if_false]
    have : ¬ lastD d 0 < total := by omega
    simp only [d] at this
    simp only [this, if_false]
    rfl
  · obtain ⟨tl, htl⟩ := wgDist_cons (wgPerCU total cus.sum) cus 0
    simp only [d, htl, List.head?_cons]
  · intro id hid
    exact countOwners_in _ id cus 0 (by omega) (by omega)

/-- ids beyond the last boundary belong to nobody; ids inside `[0, Σcu·w)` to exactly one GPU even
    when some GPUs have zero CUs (their empty range gets no launch request) -/
example : wgDist (wgPerCU 18 11) [4, 0, 7] 0 = [0, 8, 8, 22] ∧
    countOwners 7 [0, 8, 8, 22] = 1 ∧ countOwners 8 [0, 8, 8, 22] = 1 ∧ countOwners 17 [0, 8, 8, 22] = 1 ∧
    distributeWG [4, 0, 7] 18 = .dist [0, 8, 8, 22] ∧ distributeWG [0, 0] 8 = .fault "divzero" := by
  decide

end C18
