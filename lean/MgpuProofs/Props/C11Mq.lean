import MgpuModel.C11Mq
import MgpuProofs.C11MqSpec
import MgpuProofs.C11MqInv
import MgpuProofs.C11MqLive
/-! # C11 — several command queues copying at once (property theorems)

`reachMq g a b n warm ops` is the state of the tick-exact model of the driver's copy path
(`MgpuModel/C11Mq.lean`: `Driver.Tick` with `defaultMemoryCopyMiddleware`, which keeps ONE delay line
`awaitingReqs` / `cyclesLeft` for the requests of ALL command queues) and of its environment after
an ARBITRARY list of moves — a copy command (H2D or D2H, any number of page pieces, with or without
a preceding flush) enqueued on any queue, a tick, the GPU side taking `k` requests, an answer to the
`j`-th outstanding request (any order) — for any number of queues and GPUs and any latencies.
`MqEnv.step` is the function the correspondence check runs against the real `Driver`
(`c11 mq` case lines). -/
namespace C11

/-- two queues, an H2D with flush and a D2H of two pieces enqueued back to back before the first
    tick, answers out of order; then a second command on queue 1 while the D2H is still open -/
def demoMqOps : List MqOp :=
  [.enq 0 ⟨.h2d, 2, true⟩, .enq 1 ⟨.d2h, 2, false⟩, .tick, .tick, .tick, .tick, .tick, .tick, .tick, .take 9,
   .rsp 3, .rsp 0, .tick, .rsp 1, .rsp 0, .rsp 0, .tick, .tick, .tick, .tick, .tick,
   .enq 1 ⟨.h2d, 1, false⟩, .take 2, .rsp 1, .rsp 0, .tick, .tick]

/-- the demo configuration: 1 GPU, H2D latency 2, D2H latency 3, 2 queues, fresh driver -/
def demoMq (k : Nat) : MqEnv := reachMq 1 2 3 2 false (demoMqOps.take k)

/-- **Nothing is overwritten or lost in the shared delay line.** After every op sequence: request
    ids are `0 … nextId-1` in creation order, and the requests in the delay line, in
    `requestsToSend`, in the GPU port, at the GPU side, answered-and-waiting, and answered-and-processed
    together are a permutation of ALL requests ever created: each is in exactly one place — whatever
    queues started commands in the same or neighbouring ticks and however the timer was restarted. -/
theorem mq_nothing_lost (g a b n : Nat) (warm : Bool) (ops : List MqOp) :
    let e := reachMq g a b n warm ops
    e.s.created.map (·.id) = List.range e.s.nextId ∧
    (e.inFlight ++ e.s.answered).Perm (List.range e.s.nextId) ∧
    (∀ r ∈ e.s.awaiting ++ e.s.toSend ++ e.s.portOut ++ e.outstanding, r ∈ e.s.created) := by
  intro e
  have h := reachMq_inv g a b n warm ops
  exact ⟨h.fl.ids, mq_perm_range h.fl.nodup h.fl.lt h.fl.all, h.fl.objs⟩

/-- after the first tick both queues have started: the pieces 1,2 of queue 0 and 3,4 of queue 1 share
    the delay line (timer restarted to the D2H latency 3), the flush request 0 is on its way; later
    the five requests are spread over send list, port, GPU side, answers waiting and processed; at
    the end everything but request 5 of the second command of queue 1 is answered, out of order -/
example :
    (demoMq 3).s.awaiting.map (·.id) = [1, 2, 3, 4] ∧ (demoMq 3).s.toSend.map (·.id) = [0] ∧
    (demoMq 3).s.cyclesLeft = 3 ∧
    (demoMq 13).inFlight = [4, 3, 2, 1] ∧ (demoMq 13).s.answered = [0] ∧
    (demoMq 27).s.nextId = 6 ∧ (demoMq 27).inFlight = [5] ∧ (demoMq 27).s.answered = [0, 1, 2, 4, 3] := by
  decide +kernel

/-- **Every started command gets exactly its requests.** For the `seq`-th command `c` of queue `qi`,
    once it has been started: the requests created for it are, in order, one flush request per GPU
    (if the copy needs a flush) followed by its page pieces `0 … pieces-1` in the command's direction —
    `mqWant` of them. -/
theorem mq_requests_of_command (g a b n : Nat) (warm : Bool) (ops : List MqOp) (qi seq : Nat) (q : MqQueue) (c : MqCmd) :
    let e := reachMq g a b n warm ops
    e.s.queues[qi]? = some q → (e.enqOf qi)[seq]? = some c →
    seq < q.done + (if q.running then 1 else 0) →
    (e.reqsOf qi seq).map (fun r => (r.kind, r.idx)) = mqWantReqs g c := by
  intro e hq hc hlt
  exact (reachMq_inv g a b n warm ops).q.want qi q hq seq c hc hlt

/-- the H2D with flush on queue 0 got its flush request and then its two pieces, the second command
    of queue 1 (started after the D2H completed) its single H2D piece; the requests of queue 0's
    command are ids 0,1,2 although queue 1 started in the same tick -/
example :
    ((demoMq 27).reqsOf 0 0).map (fun r => (r.id, r.kind, r.idx)) =
      [(0, .flush, 0), (1, .h2d, 0), (2, .h2d, 1)] ∧
    ((demoMq 27).reqsOf 1 0).map (fun r => (r.id, r.kind, r.idx)) = [(3, .d2h, 0), (4, .d2h, 1)] ∧
    ((demoMq 27).reqsOf 1 1).map (fun r => (r.id, r.kind, r.idx)) = [(5, .h2d, 0)] ∧
    mqWantReqs 1 ⟨.h2d, 2, true⟩ = [(.flush, 0), (.h2d, 0), (.h2d, 1)] := by
  decide +kernel

/-- **Each command completes exactly once, in queue order, and only after all its requests were
    answered.** `completed` has no duplicates; the completions of queue `qi` are its commands
    `0, 1, …, done-1` in order; the commands enqueued on `qi` are the completed ones followed by those
    still in the queue; every request created for a completed command has been answered (so it was
    sent), and there were `mqWant` of them. -/
theorem mq_complete_exactly_once (g a b n : Nat) (warm : Bool) (ops : List MqOp) :
    let e := reachMq g a b n warm ops
    e.s.completed.Nodup ∧
    (∀ qi q, e.s.queues[qi]? = some q →
      (e.s.completed.filter (·.1 = qi)).map (·.2) = List.range q.done ∧
      (e.enqOf qi).drop q.done = q.cmds) ∧
    (∀ qi seq, (qi, seq) ∈ e.s.completed →
      (∀ r ∈ e.reqsOf qi seq, r.id ∈ e.s.answered) ∧
      ∃ c, (e.enqOf qi)[seq]? = some c ∧ (e.reqsOf qi seq).length = mqWant g c) := by
  intro e
  have h := reachMq_inv g a b n warm ops
  exact ⟨h.q.comp_nodup, fun qi q hq => ⟨h.q.comp_range qi q hq, h.q.enq_drop qi q hq⟩,
    fun qi seq hc => h.completed_spec hc⟩

/-- queue 0's copy completes when its last answer (id 2) is processed, not earlier; at the end both
    first commands have completed once, queue 1 still holds its second command -/
example :
    (demoMq 17).s.completed = [] ∧ (demoMq 17).s.answered = [0, 1] ∧
    (demoMq 18).s.completed = [(0, 0)] ∧ (demoMq 18).s.answered = [0, 1, 2] ∧
    (demoMq 27).s.completed = [(0, 0), (1, 0)] ∧
    (demoMq 27).s.queues.map (fun q => (q.cmds, q.running, q.reqs, q.done)) =
      [([], false, [], 1), ([⟨.h2d, 1, false⟩], true, [5], 1)] ∧
    (demoMq 27).enqOf 1 = [⟨.d2h, 2, false⟩, ⟨.h2d, 1, false⟩] := by
  decide +kernel

/-- **The driver never panics** (`findCommandByReq`'s "cannot find command" is unreachable) as long
    as the GPU side answers only requests it has taken, each once — any order, any interleaving. -/
theorem mq_no_fault (g a b n : Nat) (warm : Bool) (ops : List MqOp) :
    (reachMq g a b n warm ops).s.fault = none :=
  (reachMq_inv g a b n warm ops).fault

/-- the demo answers out of order (4 before 3, across the two queues) and every answer finds its
    command -/
example : (demoMq 27).s.fault = none ∧ (demoMq 27).s.answered = [0, 1, 2, 4, 3] ∧
    (demoMq 11).s.portIn = [0] ∧ (demoMq 25).s.portIn = [4, 3] := by
  decide +kernel

/-- Liveness at full strength: from every reachable state — whatever was enqueued, zero-length
    copies included — serving and ticking long enough empties every queue. Before the repair this was
    false (`mq_all_complete_before_fix_refuted`); for the repaired driver it holds
    (`mq_all_complete_full_holds`). -/
def mq_all_complete_full : Prop :=
  ∀ (g a b n : Nat) (warm : Bool) (ops : List MqOp), ∃ k, ((reachMq g a b n warm ops).rounds k).allDone

/-- **All copies complete.** From every reachable state — commands enqueued on any queues in the
    same or neighbouring ticks, H2D and D2H mixed, copies of 0 bytes with or without a flush, anything
    in flight anywhere — `potential` rounds of "GPU side answers everything, driver ticks" empty every
    queue. No assumption on the commands: a command for which no request is created completes in the
    tick that starts it (`completeCommandIfDone` at the end of `processMemCopyH2D/D2HCommand`), so a
    running queue always has a request open. -/
theorem mq_all_complete (g a b n : Nat) (warm : Bool) (ops : List MqOp) :
    let e := reachMq g a b n warm ops
    (e.rounds e.potential).allDone := by
  intro e
  exact (reachMq_inv g a b n warm ops).rounds_allDone e.potential (Nat.le_refl _)

/-- **Liveness at full strength holds** for the repaired driver: `potential` rounds suffice. -/
theorem mq_all_complete_full_holds : mq_all_complete_full :=
  fun g a b n warm ops => ⟨(reachMq g a b n warm ops).potential, mq_all_complete g a b n warm ops⟩

/-- the same statement about the driver BEFORE the repair (`reachMqOld` / `roundsOld` run
    `Mq.tickOld`, where a command without any request leaves its queue running) -/
def mq_all_complete_before_fix : Prop :=
  ∀ (g a b n : Nat) (warm : Bool) (ops : List MqOp), ∃ k, ((reachMqOld g a b n warm ops).roundsOld k).allDone

/-- **Before the repair liveness failed:** a zero-length copy without flush created no request but
    marked its queue running; no answer could complete it (reproduced on the unrepaired driver: oracle
    `C11.copy.zero-length-never-completes`). -/
theorem mq_all_complete_before_fix_refuted : ¬ mq_all_complete_before_fix := by
  intro h
  obtain ⟨k, hk⟩ := h 1 0 0 1 false [.enq 0 ⟨.h2d, 0, false⟩]
  exact mq_zero_stuck_old k hk

/-- before the repair: after any number of rounds (here 2 and 50) the only queue still holds the
    zero-length copy, marked running, with no request open and nothing in flight -/
example :
    ((reachMqOld 1 0 0 1 false [.enq 0 ⟨.h2d, 0, false⟩]).roundsOld 2).s.queues =
      [{ cmds := [⟨.h2d, 0, false⟩], running := true, reqs := [], done := 0 }] ∧
    ((reachMqOld 1 0 0 1 false [.enq 0 ⟨.h2d, 0, false⟩]).roundsOld 50).s.queues =
      [{ cmds := [⟨.h2d, 0, false⟩], running := true, reqs := [], done := 0 }] ∧
    ((reachMqOld 1 0 0 1 false [.enq 0 ⟨.h2d, 0, false⟩]).roundsOld 50).inFlight = [] ∧
    ((reachMqOld 1 0 0 1 false [.enq 0 ⟨.h2d, 0, false⟩]).roundsOld 50).s.completed = [] ∧
    mqWant 1 ⟨.h2d, 0, false⟩ = 0 := by
  decide +kernel

/-- the repaired driver: the first tick starts the zero-length copy and completes it at once — the
    queue is empty and not running, the command is recorded as completed, no request was created -/
example :
    ((reachMq 1 0 0 1 false [.enq 0 ⟨.h2d, 0, false⟩]).rounds 1).s.queues =
      [{ cmds := [], running := false, reqs := [], done := 1 }] ∧
    ((reachMq 1 0 0 1 false [.enq 0 ⟨.h2d, 0, false⟩]).rounds 1).s.completed = [(0, 0)] ∧
    ((reachMq 1 0 0 1 false [.enq 0 ⟨.h2d, 0, false⟩]).rounds 1).s.created = [] ∧
    ((reachMq 1 0 0 1 false [.enq 0 ⟨.h2d, 0, false⟩]).rounds 1).allDone ∧
    (reachMq 1 0 0 1 false [.enq 0 ⟨.h2d, 0, false⟩]).potential = 3 := by
  decide +kernel

/-- a zero-length copy BETWEEN two one-piece copies on the same queue (H2D latency 2, D2H latency 3):
    the three commands complete in queue order; the zero-length one completes in the very tick in
    which the answer to the first copy is processed (round 6: `completed` grows by two entries), the
    third copy is started one tick later and gets request id 1 -/
example :
    let e := reachMq 1 2 3 1 false [.enq 0 ⟨.h2d, 1, false⟩, .enq 0 ⟨.h2d, 0, false⟩, .enq 0 ⟨.d2h, 1, false⟩]
    e.potential = 24 ∧
    (e.rounds 5).s.completed = [] ∧ (e.rounds 6).s.completed = [(0, 0), (0, 1)] ∧
    (e.rounds 6).s.queues = [{ cmds := [⟨.d2h, 1, false⟩], running := false, reqs := [], done := 2 }] ∧
    (e.rounds 7).s.queues = [{ cmds := [⟨.d2h, 1, false⟩], running := true, reqs := [1], done := 2 }] ∧
    (e.rounds 12).s.completed = [(0, 0), (0, 1)] ∧
    (e.rounds 13).s.completed = [(0, 0), (0, 1), (0, 2)] ∧ (e.rounds 13).allDone ∧
    (e.rounds 24).s.completed = [(0, 0), (0, 1), (0, 2)] ∧ (e.rounds 24).s.answered = [0, 1] := by
  decide +kernel

/-- a zero-length copy WITH flush creates one flush request (per GPU): the command stays running
    until that request is answered and completes only then -/
example :
    let e := reachMq 1 2 3 1 false [.enq 0 ⟨.d2h, 0, true⟩]
    mqWant 1 ⟨.d2h, 0, true⟩ = 1 ∧
    (e.rounds 1).s.queues = [{ cmds := [⟨.d2h, 0, true⟩], running := true, reqs := [0], done := 0 }] ∧
    (e.rounds 2).s.completed = [] ∧ (e.rounds 2).s.answered = [] ∧ (e.rounds 2).inFlight = [0] ∧
    (e.rounds 3).s.completed = [(0, 0)] ∧ (e.rounds 3).s.answered = [0] ∧ (e.rounds 3).allDone ∧
    ((e.rounds 3).reqsOf 0 0).map (fun r => (r.id, r.kind, r.idx)) = [(0, .flush, 0)] := by
  decide +kernel

/-- from the end of the demo (request 5 of queue 1's second command in the delay line, timer at 2)
    the potential is 7 and falls 7, 6, 5, 3, 2, 0 round by round; the queues are not yet empty after
    4 rounds and are empty after 5 (hence after 7); from the state right after both enqueues the
    potential is 31 -/
example :
    (∀ x ∈ (demoMq 27).enq, 1 ≤ mqWant 1 x.2) ∧
    (demoMq 27).potential = 7 ∧
    (List.range 6).map (fun k => ((demoMq 27).rounds k).potential) = [7, 6, 5, 3, 2, 0] ∧
    ¬ ((demoMq 27).rounds 4).allDone ∧ ((demoMq 27).rounds 5).allDone ∧ ((demoMq 27).rounds 7).allDone ∧
    (demoMq 2).potential = 31 ∧ ((demoMq 2).rounds 31).allDone ∧
    ((demoMq 2).rounds 31).s.completed = [(0, 0), (1, 0)] := by
  decide +kernel

end C11
