import MgpuModel.C08
import MgpuProofs.C08WrapLemmas
import MgpuProofs.Props.C08
/-! # C08 — fixed-width integers of the launch path

The theorems of `Props/C08.lean` are about a `Nat` model. The real code computes the work-group
counts in `uint32` (driver, filter closure) or converts a `uint32` difference to a 64-bit `int`
(`countWG`). `nwg32`, `nwg64`, `Geo.total32`, `wgPerCU64`, `gpuFilter32`, `dist32` in the model follow
those widths (and are tied to the real code by the `c08 dist32` / `c08 cnt32` case lines).
`Geo.NoWrap` is the decidable bound under which both models agree: typed ranges, no empty axis,
fewer than 2^32 work-groups. NOTHING in the launch path checks it (`LaunchKernel` /
`createAQLPacket` copy the sizes into the packet unchecked), so the full statements are refuted by
kernel-checked witnesses, which the harness replays on the real driver / grid builder. -/
namespace C08

/-- **fixed_width_agrees.** For every geometry inside `NoWrap` and every CU vector with positive
    sum the fixed-width computations equal the `Nat` model: per-axis counts, the `uint32` product,
    `countWG`'s 64-bit product, the driver's ranges (no fault), and every GPU's filter closure.
    Hence `wgdist_partitions`, `filters_partition`, `numWG_split`, `wgs_enumerate` transfer to the
    code's integer widths. -/
theorem fixed_width_agrees (g : Geo) (h : g.NoWrap) (cus : List Nat) (hs : 0 < cus.sum) :
    g.total32 = g.total ∧
    nwg64 g.gx g.wx * nwg64 g.gy g.wy * nwg64 g.gz g.wz = countWG g none ∧
    dist32 g cus = .ok (wgDist (wgPerCU g.total cus.sum) cus 0) ∧
    ∀ d i c, gpuFilter32 g d i c = gpuFilter g d i c := by
  have ht := total32_eq g h
  have hn := h
  obtain ⟨⟨a1, _⟩, ⟨b1, _⟩, ⟨c1, _⟩, ⟨d1, _⟩, ⟨e1, _⟩, ⟨f1, _⟩, _⟩ := hn
  refine ⟨ht, ?_, ?_, fun d i c => gpuFilter32_eq g h d i c⟩
  · rw [nwg64_eq _ _ a1, nwg64_eq _ _ b1, nwg64_eq _ _ c1]
    rfl
  · unfold dist32
    rw [if_neg (by omega)]
    simp only [ht, wgPerCU64_eq _ _ (total_pos g)]
    rw [if_neg (wgDist_reaches g.total cus hs (total_pos g))]

/-- **split_never_faults.** In the `Nat` model the driver's split (`split`, the function the
    `c08 dist`/`enum`/`part` case lines run) never takes the `not all wg allocated` panic nor the
    division fault when some GPU has a CU: it always returns the cumulative ranges. (No validity
    hypothesis on the geometry.) -/
theorem split_never_faults (g : Geo) (cus : List Nat) (hs : 0 < cus.sum) (gpu : Nat) :
    ∃ f, split g cus gpu = .ok ⟨wgDist (wgPerCU g.total cus.sum) cus 0, f⟩ := by
  unfold split
  simp only
  rw [if_neg (by omega), if_neg (wgDist_reaches g.total cus hs (total_pos g))]
  split
  · exact ⟨_, rfl⟩
  · exact ⟨_, rfl⟩

/-- the typed ranges of a dispatch packet with no empty axis (what a well-formed launch passes) -/
def Geo.Typed (g : Geo) : Prop :=
  (1 ≤ g.gx ∧ g.gx < 4294967296) ∧ (1 ≤ g.gy ∧ g.gy < 4294967296) ∧ (1 ≤ g.gz ∧ g.gz < 4294967296) ∧
  (1 ≤ g.wx ∧ g.wx < 65536) ∧ (1 ≤ g.wy ∧ g.wy < 65536) ∧ (1 ≤ g.wz ∧ g.wz < 65536)

/-- full statement with the code's widths: for every typed geometry every work-group of the grid is
    accepted by the filter closure of some GPU that receives a launch request -/
def fixed_width_split_full : Prop :=
  ∀ (g : Geo) (cus : List Nat), g.Typed → 0 < cus.sum → ∀ w ∈ allWGs g,
    ∃ d, dist32 g cus = .ok d ∧ ∃ i, i < cus.length ∧ gpuFilter32 g d i w.id = true

/-- **fixed_width_split_refuted.** Grid 65536×65536×1 with work-group 1×1×1 has 2^32 work-groups:
    the driver's `uint32` product is 0, `wgPerCU = (0-1)/8+1 = 1`, two GPUs with 4 CUs each get the
    ranges `[0,4)` and `[4,8)`, the panic guard compares against the wrapped total and stays
    silent, and work-group (8,0,0) — like every group with flat id ≥ 8 — is accepted by no GPU. -/
theorem fixed_width_split_refuted : ¬ fixed_width_split_full := by
  intro h
  have hw : wgAt ⟨65536, 65536, 1, 1, 1, 1⟩ 8 ∈ allWGs ⟨65536, 65536, 1, 1, 1, 1⟩ :=
    List.mem_map.mpr ⟨8, List.mem_range.mpr (by decide), rfl⟩
  obtain ⟨d, hd, i, hi, hf⟩ := h ⟨65536, 65536, 1, 1, 1, 1⟩ [4, 4]
    ⟨by decide, by decide, by decide, by decide, by decide, by decide⟩ (by decide) _ hw
  have hd' : dist32 ⟨65536, 65536, 1, 1, 1, 1⟩ [4, 4] = .ok [0, 4, 8] := by rfl
  rw [hd'] at hd
  cases hd
  have hi' : i = 0 ∨ i = 1 := by simp at hi; omega
  rcases hi' with rfl | rfl
  · exact absurd hf (by decide +kernel)
  · exact absurd hf (by decide +kernel)

/-- **fixed_width_split_partial.** Inside `NoWrap` the statement holds at the code's widths, with
    uniqueness: every work-group is accepted by exactly one GPU's closure. -/
theorem fixed_width_split_partial (g : Geo) (cus : List Nat) (h : g.NoWrap) (hs : 0 < cus.sum) (w : WG)
    (hw : w ∈ allWGs g) :
    ∃ d, dist32 g cus = .ok d ∧ ∃ i, i < cus.length ∧ gpuFilter32 g d i w.id = true ∧
      ∀ j, j < cus.length → gpuFilter32 g d j w.id = true → j = i := by
  obtain ⟨_, _, hd, hf⟩ := fixed_width_agrees g h cus hs
  obtain ⟨i, hi, a, b⟩ := filters_partition g cus hs w hw
  refine ⟨_, hd, i, hi, ?_, ?_⟩
  · rw [hf]; exact a
  · intro j hj hj'
    rw [hf] at hj'
    exact b j hj hj'

/-- full statement for the announced count with the code's widths, empty axes allowed (the packet
    type allows `GridSize = 0`): `NumWG` = 0 when `NextWG` yields nothing -/
def numWG_typed_full : Prop :=
  ∀ g : Geo, g.gx < 4294967296 → 1 ≤ g.wx → nextWG g ⟨0, 0, 0⟩ = none →
    nwg64 g.gx g.wx * nwg64 g.gy g.wy * nwg64 g.gz g.wz = 0

/-- **numWG_typed_refuted.** Grid 0×1×1 with work-group 64×1×1: `GridSizeX-1` wraps to 2^32-1, so
    `NumWG` announces 67108864 work-groups while `NextWG` returns nil at once (a dispatcher waiting
    for `numDispatchedWG ≥ numWG` never finishes such a kernel). -/
theorem numWG_typed_refuted : ¬ numWG_typed_full := by
  intro h
  have := h ⟨0, 1, 1, 64, 1, 1⟩ (by decide) (by decide) (by decide)
  exact absurd this (by decide)

/-- **numWG_typed_partial.** With no empty axis the 64-bit count of `countWG` is the number of
    work-groups `NextWG` produces (any size below 2^32 per axis, no bound on the product). -/
theorem numWG_typed_partial (g : Geo) (hv : g.Valid) :
    nwg64 g.gx g.wx * nwg64 g.gy g.wy * nwg64 g.gz g.wz =
      (enumFrom g (fun _ => true) (g.total + 1) ⟨0, 0, 0⟩).1.length := by
  rw [nwg64_eq _ _ hv.gx, nwg64_eq _ _ hv.gy, nwg64_eq _ _ hv.gz]
  exact numWG_eq_produced g hv none

/-- **wgs_enumerate_needs_valid.** The hypothesis `g.Valid` of `wgs_enumerate` / `numWG_eq_produced`
    cannot be dropped: for the empty-axis grid 0×1×1 the closed-form count says one work-group
    (`(0-1)/1+1` in `Nat`; 2^32 in the code's `uint32`), the cursor produces none. -/
theorem wgs_enumerate_needs_valid :
    (enumFrom ⟨0, 1, 1, 1, 1, 1⟩ (fun _ => true) 2 ⟨0, 0, 0⟩).1 = [] ∧
    allWGs ⟨0, 1, 1, 1, 1, 1⟩ = [⟨(0, 0, 0), (0, 1, 1)⟩] ∧ nwg64 0 1 = 4294967296 := by
  decide +kernel

/-! ## non-vacuity -/

/-- a large but legal launch (2^31-ish work-items, 8·2^20 work-groups) is inside the bound -/
example : Geo.NoWrap ⟨2097152, 1024, 1, 256, 1, 1⟩ := by decide
example : Geo.total32 ⟨2097152, 1024, 1, 256, 1, 1⟩ = 8388608 := by decide +kernel
/-- the witness is a typed geometry outside the bound, and the two models differ there -/
example : ¬ Geo.NoWrap ⟨65536, 65536, 1, 1, 1, 1⟩ := by decide
example : Geo.total32 ⟨65536, 65536, 1, 1, 1, 1⟩ = 0 ∧ Geo.total ⟨65536, 65536, 1, 1, 1, 1⟩ = 4294967296 := by
  decide +kernel
example : wgDist (wgPerCU (Geo.total ⟨65536, 65536, 1, 1, 1, 1⟩) 8) [4, 4] 0 = [0, 2147483648, 4294967296] := by
  decide +kernel
example : ([4, 4] : List Nat).sum > 0 := by decide

end C08
