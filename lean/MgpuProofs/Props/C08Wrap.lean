import MgpuModel.C08
import MgpuProofs.C08WrapLemmas
import MgpuProofs.Props.C08
/-! # C08 — fixed-width integers of the launch path

The theorems of `Props/C08.lean` are about a `Nat` model. The real code holds grid sizes in `uint32`
and work-group sizes in `uint16`. As REPAIRED (`numWGInDim`), `countWG`, `distributeWGToGPUs` and the
filter closure compute `ceil(grid/wg)` per axis and the product of the counts in `int` (64 bit):
`nwgI`, `Geo.totalI`, `wgPerCUI`, `gpuFilterI`, `distI` follow that code and are tied to it by the
`c08 dist32` / `c08 cnt32` case lines. The code as pinned before the repair (counts and their
product in `uint32`, `GridSize-1` underflowing for an empty axis) is kept as `…Old` with the
witnesses that refuted the full statements then. -/
namespace C08

/-- **fixed_width_agrees.** For every geometry inside `NoWrap` — typed ranges, no empty axis and
    fewer than 2^63 work-groups (the only arithmetic bound left: the `int` product must not
    overflow; before the repair the bound was 2^32) — and every CU vector with positive sum the
    code's computations equal the `Nat` model: per-axis counts and their product, `countWG`, the
    driver's ranges (no fault), and every GPU's filter closure. Hence `wgdist_partitions`,
    `filters_partition`, `numWG_split`, `wgs_enumerate` transfer to the code's integer widths. -/
theorem fixed_width_agrees (g : Geo) (h : g.NoWrap) (cus : List Nat) (hs : 0 < cus.sum) :
    g.totalI = g.total ∧
    nwgI g.gx g.wx * nwgI g.gy g.wy * nwgI g.gz g.wz = countWG g none ∧
    distI g cus = .ok (wgDist (wgPerCU g.total cus.sum) cus 0) ∧
    ∀ d i c, gpuFilterI g d i c = gpuFilter g d i c := by
  have ht := totalI_eq g h
  have hn := h
  obtain ⟨⟨a1, _⟩, ⟨b1, _⟩, ⟨c1, _⟩, ⟨d1, _⟩, ⟨e1, _⟩, ⟨f1, _⟩, _⟩ := hn
  refine ⟨ht, ?_, ?_, fun d i c => gpuFilterI_eq g h d i c⟩
  · rw [nwgI_eq _ _ a1 d1, nwgI_eq _ _ b1 e1, nwgI_eq _ _ c1 f1]
    rfl
  · unfold distI
    rw [if_neg (by omega)]
    simp only [ht, wgPerCUI_eq _ _ (total_pos g) hs]
    rw [if_neg (wgDist_reaches g.total cus hs (total_pos g))]

/-- **split_never_faults.** In the `Nat` model the driver's split (`split`, the function the
    `c08 dist`/`enum`/`part` case lines run) never takes the `not all wg allocated` panic nor the
    division fault when some GPU has a CU: it always returns the cumulative ranges. (No validity
    hypothesis on the geometry.) -/
theorem split_never_faults (g : Geo) (cus : List Nat) (hs : 0 < cus.sum) (gpu : Nat) :
    ∃ f, split g cus gpu = .ok ⟨wgDist (wgPerCU g.total cus.sum) cus 0, f⟩ := by
  unfold split
  simp only
  rw [if_neg (by omega), if_neg (wgDist_reaches g.total cus hs (total_pos g))]
  split
  · exact ⟨_, rfl⟩
  · exact ⟨_, rfl⟩

/-- what the packet's types guarantee (an axis of the grid may be EMPTY) plus non-zero work-group
    sizes (a zero size is a division fault in the code) -/
def Geo.Packet (g : Geo) : Prop :=
  g.gx < 4294967296 ∧ g.gy < 4294967296 ∧ g.gz < 4294967296 ∧
  (1 ≤ g.wx ∧ g.wx < 65536) ∧ (1 ≤ g.wy ∧ g.wy < 65536) ∧ (1 ≤ g.wz ∧ g.wz < 65536)

/-- the work-groups `NextWG` produces without a filter -/
def produced (g : Geo) : List WG := (enumFrom g (fun _ => true) (g.total + 1) ⟨0, 0, 0⟩).1

/-- **numWG_typed (full statement, repaired code).** For every packet — empty axes included — the
    count `countWG` announces (`ceil` per axis, `int` product) is the number of work-groups `NextWG`
    produces; for an empty axis both are 0. -/
theorem numWG_typed (g : Geo) (hw : 1 ≤ g.wx ∧ 1 ≤ g.wy ∧ 1 ≤ g.wz) :
    nwgI g.gx g.wx * nwgI g.gy g.wy * nwgI g.gz g.wz = (produced g).length := by
  by_cases h0 : g.gx = 0 ∨ g.gy = 0 ∨ g.gz = 0
  · unfold produced
    rw [(totalI_empty g hw h0).2, enum_empty g h0]
    rfl
  · have hv : g.Valid := ⟨by omega, by omega, by omega, hw.1, hw.2.1, hw.2.2⟩
    rw [nwgI_eq _ _ hv.gx hv.wx, nwgI_eq _ _ hv.gy hv.wy, nwgI_eq _ _ hv.gz hv.wz]
    exact numWG_eq_produced g hv none

/-- **fixed_width_split (full statement, repaired code).** For every packet (empty axes included)
    with fewer than 2^63 work-groups and every CU vector with positive sum: the driver returns
    ranges without a fault, and every work-group `NextWG` produces is accepted by the filter closure
    of exactly one GPU, which receives a launch request. With an empty axis nothing is produced and
    no GPU is launched (the command completes at once). -/
theorem fixed_width_split (g : Geo) (cus : List Nat) (hp : g.Packet)
    (hb : nwgI g.gx g.wx * nwgI g.gy g.wy * nwgI g.gz g.wz < 9223372036854775808) (hs : 0 < cus.sum) :
    ∃ d, distI g cus = .ok d ∧
      (∀ w ∈ produced g, ∃ i, i ∈ launched d cus.length ∧ gpuFilterI g d i w.id = true ∧
        ∀ j, j < cus.length → gpuFilterI g d j w.id = true → j = i) ∧
      ((g.gx = 0 ∨ g.gy = 0 ∨ g.gz = 0) → produced g = [] ∧ launched d cus.length = []) := by
  obtain ⟨hx, hy, hz, ⟨wx1, wx2⟩, ⟨wy1, wy2⟩, ⟨wz1, wz2⟩⟩ := hp
  by_cases h0 : g.gx = 0 ∨ g.gy = 0 ∨ g.gz = 0
  · have ht := (totalI_empty g ⟨wx1, wy1, wz1⟩ h0).1
    have hpr : produced g = [] := enum_empty g h0 _ _
    refine ⟨wgDist 0 cus 0, ?_, ?_, fun _ => ⟨hpr, launched_zero cus⟩⟩
    · unfold distI
      rw [if_neg (by omega)]
      simp only [ht, wgPerCUI_zero _ hs]
      rw [if_neg (by omega)]
    · intro w hw
      rw [hpr] at hw
      cases hw
  · have hv : g.Valid := ⟨by omega, by omega, by omega, wx1, wy1, wz1⟩
    have hnw : g.NoWrap := by
      refine ⟨⟨hv.gx, hx⟩, ⟨hv.gy, hy⟩, ⟨hv.gz, hz⟩, ⟨wx1, wx2⟩, ⟨wy1, wy2⟩, ⟨wz1, wz2⟩, ?_⟩
      rw [nwgI_eq _ _ hv.gx wx1, nwgI_eq _ _ hv.gy wy1, nwgI_eq _ _ hv.gz wz1] at hb
      exact hb
    obtain ⟨_, _, hd, hf⟩ := fixed_width_agrees g hnw cus hs
    refine ⟨_, hd, ?_, fun h => absurd h h0⟩
    intro w hw
    have hall : produced g = allWGs g := by
      have he := wgs_enumerate g hv (fun _ => true) 0 (g.total + 1)
      have hsk : skip g (fun _ => true) 0 ⟨0, 0, 0⟩ = ⟨0, 0, 0⟩ := rfl
      rw [hsk] at he
      unfold produced
      rw [he, List.drop_zero, List.filter_eq_self.mpr (fun _ _ => rfl)]
      exact List.take_of_length_le (by simp [allWGs])
    rw [hall] at hw
    obtain ⟨i, hi, a, b⟩ := filters_partition g cus hs w hw
    refine ⟨i, ?_, by rw [hf]; exact a, fun j hj hj' => b j hj (by rw [hf] at hj'; exact hj')⟩
    unfold launched
    rw [List.mem_filter, List.mem_range]
    refine ⟨hi, ?_⟩
    unfold gpuFilter at a
    simp only [Bool.and_eq_true, decide_eq_true_eq] at a
    simp only [decide_eq_true_eq]
    omega

/-! ## the code as pinned before the repair -/

/-- typed ranges with no empty axis (what a well-formed launch passes) -/
def Geo.Typed (g : Geo) : Prop :=
  (1 ≤ g.gx ∧ g.gx < 4294967296) ∧ (1 ≤ g.gy ∧ g.gy < 4294967296) ∧ (1 ≤ g.gz ∧ g.gz < 4294967296) ∧
  (1 ≤ g.wx ∧ g.wx < 65536) ∧ (1 ≤ g.wy ∧ g.wy < 65536) ∧ (1 ≤ g.wz ∧ g.wz < 65536)

/-- the full statement over the OLD arithmetic: every work-group is accepted by some GPU -/
def fixed_width_split_before_fix_full : Prop :=
  ∀ (g : Geo) (cus : List Nat), g.Typed → 0 < cus.sum → ∀ w ∈ allWGs g,
    ∃ d, dist32Old g cus = .ok d ∧ ∃ i, i < cus.length ∧ gpuFilter32Old g d i w.id = true

/-- **fixed_width_split_before_fix_refuted.** Grid 65536×65536×1 with work-group 1×1×1 has 2^32
    work-groups: the old `uint32` product was 0, `wgPerCU = (0-1)/8+1 = 1`, two GPUs with 4 CUs each
    got the ranges `[0,4)` and `[4,8)`, the panic guard compared against the wrapped total and stayed
    silent, and work-group (8,0,0) — like every group with flat id ≥ 8 — was accepted by no GPU. -/
theorem fixed_width_split_before_fix_refuted : ¬ fixed_width_split_before_fix_full := by
  intro h
  have hw : wgAt ⟨65536, 65536, 1, 1, 1, 1⟩ 8 ∈ allWGs ⟨65536, 65536, 1, 1, 1, 1⟩ :=
    List.mem_map.mpr ⟨8, List.mem_range.mpr (by decide), rfl⟩
  obtain ⟨d, hd, i, hi, hf⟩ := h ⟨65536, 65536, 1, 1, 1, 1⟩ [4, 4]
    ⟨by decide, by decide, by decide, by decide, by decide, by decide⟩ (by decide) _ hw
  have hd' : dist32Old ⟨65536, 65536, 1, 1, 1, 1⟩ [4, 4] = .ok [0, 4, 8] := by rfl
  rw [hd'] at hd
  cases hd
  have hi' : i = 0 ∨ i = 1 := by simp at hi; omega
  rcases hi' with rfl | rfl
  · exact absurd hf (by decide +kernel)
  · exact absurd hf (by decide +kernel)

/-- the full statement over the OLD `countWG`: nothing produced ⇒ nothing announced -/
def numWG_typed_before_fix_full : Prop :=
  ∀ g : Geo, g.gx < 4294967296 → 1 ≤ g.wx → nextWG g ⟨0, 0, 0⟩ = none →
    nwg64Old g.gx g.wx * nwg64Old g.gy g.wy * nwg64Old g.gz g.wz = 0

/-- **numWG_typed_before_fix_refuted.** Grid 0×1×1 with work-group 64×1×1: `GridSizeX-1` wrapped to
    2^32-1, so `NumWG` announced 67108864 work-groups while `NextWG` returned nil at once. -/
theorem numWG_typed_before_fix_refuted : ¬ numWG_typed_before_fix_full := by
  intro h
  have := h ⟨0, 1, 1, 64, 1, 1⟩ (by decide) (by decide) (by decide)
  exact absurd this (by decide)

/-- **wgs_enumerate_needs_valid.** The hypothesis `g.Valid` of `wgs_enumerate` / `numWG_eq_produced`
    (statements about the `Nat` specification `(g-1)/w+1`) cannot be dropped: for the empty-axis grid
    0×1×1 that closed form says one work-group, the cursor produces none — the repaired code's
    `ceil` count says 0 (`numWG_typed`). -/
theorem wgs_enumerate_needs_valid :
    (enumFrom ⟨0, 1, 1, 1, 1, 1⟩ (fun _ => true) 2 ⟨0, 0, 0⟩).1 = [] ∧
    allWGs ⟨0, 1, 1, 1, 1, 1⟩ = [⟨(0, 0, 0), (0, 1, 1)⟩] ∧ nwgI 0 1 = 0 ∧ nwg64Old 0 1 = 4294967296 := by
  decide +kernel

/-! ## non-vacuity -/

/-- the former witness is now inside the bound: 2^32 work-groups, ranges reach the total, and
    work-group (8,0,0) belongs to GPU 0 -/
example : Geo.NoWrap ⟨65536, 65536, 1, 1, 1, 1⟩ := by decide
example : distI ⟨65536, 65536, 1, 1, 1, 1⟩ [4, 4] = .ok [0, 2147483648, 4294967296] := by rfl
example : gpuFilterI ⟨65536, 65536, 1, 1, 1, 1⟩ [0, 2147483648, 4294967296] 0 (8, 0, 0) = true := by decide +kernel
/-- an empty axis: a packet, total 0, all ranges empty, nothing launched -/
example : Geo.Packet ⟨0, 4, 1, 64, 1, 1⟩ := by unfold Geo.Packet; decide
example : distI ⟨0, 4, 1, 64, 1, 1⟩ [4, 4] = .ok [0, 0, 0] := by rfl
example : launched [0, 0, 0] 2 = [] := by decide
/-- a geometry outside the bound: 2^32-1 groups per axis in x and y and 2 in z ≥ 2^63 -/
example : ¬ Geo.NoWrap ⟨4294967295, 4294967295, 2, 1, 1, 1⟩ := by decide
example : ([4, 4] : List Nat).sum > 0 := by decide

end C08
