import MgpuModel.C08
import MgpuProofs.C08PartInv
import MgpuProofs.C08Multi
import MgpuProofs.Props.C08
/-! # C08 — the STATEFUL partition algorithm hands out every work-group exactly once

Run-level theorems about `pNext` (= `partitionAlgorithm.Next` with `nextWG`, including the branch
that lets a compute unit whose own range is used up take a group parked in another partition's
`currWGs` slot). The environment's freedom is an arbitrary `List Bool` of reservation outcomes
(`true` = `ReserveResourceForWG` refused) consumed by an arbitrary number `k` of calls (`pRun`).
No bound on the grid, the number of compute units, `k`, or the stream. -/
namespace C08

/-- **pnext_conserves.** For every work-group list `l` (what the grid builder yields), every number
    of compute units, every number `k` of calls of `Next` and every stream of reservation outcomes:
    the work-groups handed out so far together with the ones still held by the per-CU cursors
    (`currWGs[i]` and the unread rest of partition `i`'s quota) are a permutation of `l` —
    nothing is lost and nothing is duplicated at any point of any run. Every hand-out names a
    registered compute unit and `numDispatchedWG` counts the hand-outs. -/
theorem pnext_conserves (l : List WG) (ncu : Nat) (hn : 0 < ncu) (k : Nat) (fails : List Bool) :
    let r := pRun k (pStart l l.length ncu) fails
    (r.2.2.map (·.2) ++ pHeld r.1).Perm l ∧ (∀ d ∈ r.2.2, d.1 < ncu) ∧ r.1.nd = r.2.2.length := by
  intro r
  have hrdef : r = pRun k (pStart l l.length ncu) fails := rfl
  clear_value r
  subst hrdef
  obtain ⟨done', hinv, hperm, hcu, hnd⟩ :=
    pRun_inv l ncu _ hn k (pStart l l.length ncu) fails (fun _ => []) (pStart_inv l ncu hn)
  refine ⟨?_, hcu, ?_⟩
  · have hc := conserve l ncu _ _ done' hinv
    have he : (List.range ncu).flatMap (fun _ => ([] : List WG)) = [] := by
      induction (List.range ncu) with
      | nil => rfl
      | cons a t ih => simp [List.flatMap_cons]
    rw [he, List.append_nil] at hperm
    exact (List.Perm.append_right _ hperm.symm).trans hc
  · have : (pStart l l.length ncu).nd = 0 := rfl
    omega

/-- **pnext_done_all.** When `Next`/`HasNext` report "no more" (`numDispatchedWG ≥ numWG`), the
    hand-outs are a permutation of the whole list: every work-group has been handed out, once. -/
theorem pnext_done_all (l : List WG) (ncu : Nat) (hn : 0 < ncu) (k : Nat) (fails : List Bool) :
    let r := pRun k (pStart l l.length ncu) fails
    r.1.numWG ≤ r.1.nd → (r.2.2.map (·.2)).Perm l ∧ pHeld r.1 = [] := by
  intro r
  have hrdef : r = pRun k (pStart l l.length ncu) fails := rfl
  clear_value r
  subst hrdef
  intro hdone
  obtain ⟨hperm, _, hnd⟩ := pnext_conserves l ncu hn k fails
  obtain ⟨_, hinv, _, _, _⟩ :=
    pRun_inv l ncu _ hn k (pStart l l.length ncu) fails (fun _ => []) (pStart_inv l ncu hn)
  have hnum := hinv.hnum
  have hlen := hperm.length_eq
  simp only [List.length_append, List.length_map] at hlen
  have hheld : pHeld (pRun k (pStart l l.length ncu) fails).1 = [] :=
    List.eq_nil_of_length_eq_zero (by omega)
  refine ⟨?_, hheld⟩
  have := hperm
  rw [hheld, List.append_nil] at this
  exact this

/-- **pnext_progress.** In any state reached by any run, while work-groups are outstanding, a call
    of `Next` that dispatches nothing has consumed at least one refusal: the algorithm itself never
    withholds a group (every partition with an unread or parked group is offered to a CU). -/
theorem pnext_progress (l : List WG) (ncu : Nat) (hn : 0 < ncu) (k : Nat) (fails fails2 : List Bool) :
    let s := (pRun k (pStart l l.length ncu) fails).1
    s.nd < s.numWG → (pNext s fails2).2.2 = none → (pNext s fails2).2.1.length < fails2.length := by
  intro s hnd hres
  obtain ⟨done', hinv, _, _, _⟩ :=
    pRun_inv l ncu _ hn k (pStart l l.length ncu) fails (fun _ => []) (pStart_inv l ncu hn)
  exact pNext_none_refused l ncu _ hn done' s fails2 hinv hnd hres

/-- **pnext_terminates.** Every finite stream of refusals is outlived: after `|l| + |stream|`
    calls (or more) `HasNext` is false and the hand-outs are a permutation of `l` (once the
    stream is used up all reservations succeed). With `pnext_conserves`: exactly once, eventually. -/
theorem pnext_terminates (l : List WG) (ncu : Nat) (hn : 0 < ncu) (fails : List Bool) (k : Nat)
    (hk : l.length + fails.length ≤ k) :
    let r := pRun k (pStart l l.length ncu) fails
    r.1.numWG ≤ r.1.nd ∧ (r.2.2.map (·.2)).Perm l := by
  intro r
  have hrdef : r = pRun k (pStart l l.length ncu) fails := rfl
  clear_value r
  subst hrdef
  have hinv0 := pStart_inv l ncu hn
  have hc := pRun_complete l ncu _ hn k (pStart l l.length ncu) fails
    (fun _ => []) hinv0 (by have : (pStart l l.length ncu).nd = 0 := rfl; omega)
  obtain ⟨_, hinv, _, _, _⟩ :=
    pRun_inv l ncu _ hn k (pStart l l.length ncu) fails (fun _ => []) hinv0
  have hnum := hinv.hnum
  have hdone : (pRun k (pStart l l.length ncu) fails).1.numWG ≤
      (pRun k (pStart l l.length ncu) fails).1.nd := by rw [hnum]; exact hc
  exact ⟨hdone, (pnext_done_all l ncu hn _ fails hdone).1⟩

/-- **runPart_prints_pRun.** The scenario runner behind every `c08 part` case line (`runPart`, the
    function whose output is compared with the real `partitionAlgorithm` on every run) is `pRun`
    with printing: its output is one rendered entry per call of `Next` (the dispatches among them
    are exactly `pRun`'s hand-outs, in order), followed by `"stuck"` iff groups are still
    outstanding after `cap` calls. -/
theorem runPart_prints_pRun (l : List WG) (numWG ncu : Nat) (fails : List Bool) (cap : Nat) :
    ∃ t : List (Option (Nat × WG)),
      runPart l numWG ncu fails cap = t.map renderStep ++
        (if (pRun cap (pStart l numWG ncu) fails).1.nd < (pRun cap (pStart l numWG ncu) fails).1.numWG
          then ["stuck"] else []) ∧
      t.filterMap id = (pRun cap (pStart l numWG ncu) fails).2.2 := by
  obtain ⟨a, b⟩ := pTrace_pRun cap (pStart l numWG ncu) fails
  refine ⟨(pTrace cap (pStart l numWG ncu) fails).1, ?_, a⟩
  unfold runPart
  rw [loop_eq, ← b]
  simp

/-- **runPart_never_stuck.** With enough calls (`cap ≥ |l| + |stream|`; `handle` passes
    `4·total + |stream| + 16`) the printed scenario never ends in `"stuck"` and its dispatch
    entries are a permutation of the work-group list. -/
theorem runPart_never_stuck (l : List WG) (ncu : Nat) (hn : 0 < ncu) (fails : List Bool) (cap : Nat)
    (hc : l.length + fails.length ≤ cap) :
    ∃ t : List (Option (Nat × WG)), runPart l l.length ncu fails cap = t.map renderStep ∧
      ((t.filterMap id).map (·.2)).Perm l := by
  obtain ⟨t, h1, h2⟩ := runPart_prints_pRun l l.length ncu fails cap
  obtain ⟨hd, hp⟩ := pnext_terminates l ncu hn fails cap hc
  refine ⟨t, ?_, by rw [h2]; exact hp⟩
  rw [h1, if_neg (by omega), List.append_nil]

/-- **pnext_grid_exactly_once.** The statement for the real configuration (`StartNewKernel` on a
    grid, with or without a per-GPU filter; `numWG` is what `countWG` announces, the partitions read
    what `NextWG` yields): in every run no work-group is handed out twice, every hand-out is an
    accepted work-group of the grid, and once `HasNext` is false the hand-outs are a permutation of
    all accepted work-groups of the grid. -/
theorem pnext_grid_exactly_once (g : Geo) (hv : g.Valid) (p : Option (Coord → Bool)) (ncu : Nat) (hn : 0 < ncu)
    (k : Nat) (fails : List Bool) :
    let pf := p.getD fun _ => true
    let l := (enumFrom g pf (g.total + 1) ⟨0, 0, 0⟩).1
    let r := pRun k (pStart l (countWG g p) ncu) fails
    (r.2.2.map (·.2)).Nodup ∧
    (∀ w ∈ r.2.2.map (·.2), w ∈ allWGs g ∧ pf w.id = true) ∧
    (r.1.numWG ≤ r.1.nd → (r.2.2.map (·.2)).Perm ((allWGs g).filter fun w => pf w.id)) := by
  intro pf l r
  have hcount : countWG g p = l.length := numWG_eq_produced g hv p
  have hl : l = (allWGs g).filter fun w => pf w.id := by
    have he := wgs_enumerate g hv pf 0 (g.total + 1)
    have hs : skip g pf 0 ⟨0, 0, 0⟩ = ⟨0, 0, 0⟩ := rfl
    rw [hs] at he
    have hlen : ((allWGs g).filter fun w => pf w.id).length ≤ g.total := by
      have := List.length_filter_le (fun w : WG => pf w.id) (allWGs g)
      simpa [allWGs] using this
    show (enumFrom g pf (g.total + 1) ⟨0, 0, 0⟩).1 = _
    rw [he, List.drop_zero, List.take_of_length_le (by omega)]
  have hr : r = pRun k (pStart l l.length ncu) fails := by show pRun _ (pStart l (countWG g p) ncu) _ = _; rw [hcount]
  have hnd : l.Nodup := by rw [hl]; exact (allWGs_nodup g).filter _
  obtain ⟨hperm, _, _⟩ := pnext_conserves l ncu hn k fails
  rw [← hr] at hperm
  refine ⟨?_, ?_, ?_⟩
  · have := (hperm.nodup_iff).mpr hnd
    exact (List.nodup_append.mp this).1
  · intro w hw
    have : w ∈ l := hperm.mem_iff.mp (List.mem_append_left _ hw)
    rw [hl, List.mem_filter] at this
    exact this
  · intro hdone
    rw [hr] at hdone ⊢
    rw [← hl]
    exact (pnext_done_all l ncu hn k fails hdone).1

/-- **multi_gpu_exactly_once (driver split ∘ partition dispatch).** A unified multi-GPU launch of
    any valid grid over GPUs with CU counts `cus` (positive sum): GPU `i` runs its own partition
    algorithm over `ncu i ≥ 1` compute units on the work-groups its filter closure accepts, against
    its own arbitrary finite refusal stream. After `|l_i| + |stream_i|` calls on each GPU the
    hand-outs of all GPUs together are a permutation of the work-groups of the grid: every
    work-group is dispatched exactly once, on exactly one GPU. (A GPU with an empty range gets no
    request in the driver; here its list is empty and it contributes nothing.) -/
theorem multi_gpu_exactly_once (g : Geo) (hv : g.Valid) (cus : List Nat) (hs : 0 < cus.sum)
    (ncu : Nat → Nat) (hncu : ∀ i, 0 < ncu i) (fails : Nat → List Bool) :
    let d := wgDist (wgPerCU g.total cus.sum) cus 0
    let l := fun i => (enumFrom g (gpuFilter g d i) (g.total + 1) ⟨0, 0, 0⟩).1
    let out := fun i => (pRun ((l i).length + (fails i).length)
      (pStart (l i) (countWG g (some (gpuFilter g d i))) (ncu i)) (fails i)).2.2.map (·.2)
    ((List.range cus.length).flatMap out).Perm (allWGs g) := by
  intro d l out
  have hldef : ∀ i, l i = (enumFrom g (gpuFilter g d i) (g.total + 1) ⟨0, 0, 0⟩).1 := fun _ => rfl
  have houtdef : ∀ i, out i = (pRun ((l i).length + (fails i).length)
      (pStart (l i) (countWG g (some (gpuFilter g d i))) (ncu i)) (fails i)).2.2.map (·.2) := fun _ => rfl
  have hddef : d = wgDist (wgPerCU g.total cus.sum) cus 0 := rfl
  clear_value out l d
  have hout : ∀ i ∈ List.range cus.length, (out i).Perm ((allWGs g).filter fun w => gpuFilter g d i w.id) := by
    intro i _
    have hcount : countWG g (some (gpuFilter g d i)) = (l i).length := by
      rw [hldef]; exact numWG_eq_produced g hv (some (gpuFilter g d i))
    have hl : l i = (allWGs g).filter fun w => gpuFilter g d i w.id := by
      have he := wgs_enumerate g hv (gpuFilter g d i) 0 (g.total + 1)
      have hsk : skip g (gpuFilter g d i) 0 ⟨0, 0, 0⟩ = ⟨0, 0, 0⟩ := rfl
      rw [hsk] at he
      have hlen : ((allWGs g).filter fun w => gpuFilter g d i w.id).length ≤ g.total := by
        have := List.length_filter_le (fun w : WG => gpuFilter g d i w.id) (allWGs g)
        simpa [allWGs] using this
      rw [hldef, he, List.drop_zero, List.take_of_length_le (by omega)]
    have := (pnext_terminates (l i) (ncu i) (hncu i) (fails i) _ (Nat.le_refl _)).2
    rw [houtdef, hcount, ← hl]
    exact this
  refine (flatMap_perm_congr _ _ _ hout).trans ?_
  subst hddef
  apply filter_partition_perm cus.length
    (fun i w => gpuFilter g (wgDist (wgPerCU g.total cus.sum) cus 0) i w.id) (allWGs g)
  intro w hw
  obtain ⟨i, hi, a, b⟩ := filters_partition g cus hs w hw
  exact ⟨i, hi, a, b⟩

/-! ## the hypotheses are met by concrete runs, including one that steals -/

/-- grid of 4 work-groups on 2 compute units (`per = 2`), outcomes ok · refuse,ok · refuse,ok · ok:
    call 2 parks group 2 in `currWGs[1]` (CU 1 refuses) and gives CU 0 its second group; in call 3
    CU 1 refuses again and CU 0 — its own quota used up — STEALS group 2 from partition 1. -/
example : (pRun 4 (pStart (allWGs ⟨4, 1, 1, 1, 1, 1⟩) 4 2) [false, true, false, true, false]).2.2
    = [(0, ⟨(0, 0, 0), (1, 1, 1)⟩), (0, ⟨(1, 0, 0), (1, 1, 1)⟩), (0, ⟨(2, 0, 0), (1, 1, 1)⟩), (1, ⟨(3, 0, 0), (1, 1, 1)⟩)] := by
  decide +kernel
/-- mid-run (after 3 calls): three handed out, the cursors hold exactly the fourth -/
example : pHeld (pRun 3 (pStart (allWGs ⟨4, 1, 1, 1, 1, 1⟩) 4 2) [false, true, false, true, false]).1
    = [⟨(3, 0, 0), (1, 1, 1)⟩] := by decide +kernel
/-- a call in which every offer is refused dispatches nothing and consumes the refusals -/
example : (pNext (pStart (allWGs ⟨4, 1, 1, 1, 1, 1⟩) 4 2) [true, true, false]).2 = ([false], none) := by
  decide +kernel
/-- two GPUs (1 and 2 CUs-worth of range) over 7 work-groups: GPU 0 owns [0,3), GPU 1 owns [3,9) -/
example : wgDist (wgPerCU (Geo.total ⟨7, 1, 1, 1, 1, 1⟩) 3) [1, 2] 0 = [0, 3, 9] := by decide +kernel
example : (enumFrom ⟨7, 1, 1, 1, 1, 1⟩ (gpuFilter ⟨7, 1, 1, 1, 1, 1⟩ [0, 3, 9] 1) 8 ⟨0, 0, 0⟩).1.map (·.id)
    = [(3, 0, 0), (4, 0, 0), (5, 0, 0), (6, 0, 0)] := by decide +kernel
/-- the printed scenario of the stealing run -/
example : runPart (allWGs ⟨4, 1, 1, 1, 1, 1⟩) 4 2 [false, true, false, true, false] 20
    = ["0:0.0.0/1.1.1", "0:1.0.0/1.1.1", "0:2.0.0/1.1.1", "1:3.0.0/1.1.1"] := by decide +kernel
example : Geo.Valid ⟨4, 1, 1, 1, 1, 1⟩ := ⟨by decide, by decide, by decide, by decide, by decide, by decide⟩

end C08
