import MgpuProofs.C12_Mem
/-!
# C12 (memory effects) — commands of one queue take effect one at a time, in submission order

`C12.M` layers an abstract memory over `C12.Q` (any number of queues, Noop and kernel commands,
ticks and kernel responses in any order): a command is a function on an abstract store, applied
when the command completes. All theorems hold for every number of queues, every op sequence and
every effect assignment.
-/
namespace C12
namespace M

/-- **The queue part is the executable model.** The layered model changes nothing in the queues:
    its `.q` component is exactly `Q.run`, the model run against the real `Driver.Tick`. -/
theorem layer_over_Q (eff : Eff) (n : Nat) (σ0 : Store) (ops : List Q.Op) :
    (run eff (init n σ0) ops).q = Q.run (Q.init n) ops :=
  run_q eff ops (init n σ0)

/-- **The store is the completion log applied to the initial store**: effects are applied one at a
    time, each to the result of all effects logged before it. -/
theorem store_is_log (eff : Eff) (n : Nat) (σ0 : Store) (ops : List Q.Op) :
    (run eff (init n σ0) ops).store = applyLog eff (run eff (init n σ0) ops).log σ0 :=
  (minv_run eff σ0 ops _ (minv_init eff n σ0)).store_log

/-- **The log of one queue is its `done` list.** -/
theorem log_per_queue (eff : Eff) (n : Nat) (σ0 : Store) (ops : List Q.Op) (i : Nat) (q : Q.Queue)
    (hq : (run eff (init n σ0) ops).q.qs[i]? = some q) : proj i (run eff (init n σ0) ops).log = q.done :=
  (minv_run eff σ0 ops _ (minv_init eff n σ0)).per_queue i q hq

/-- **FIFO of memory effects.** Whenever command `c` of queue `i` takes effect — the log splits as
    `pre ++ (i, c) :: post`, so `c`'s effect is applied to the store `applyLog eff pre σ0` — the
    commands of queue `i` that took effect before it (`proj i pre`) are EXACTLY its predecessors in
    submission order: `q.sub = proj i pre ++ c :: rest`. So `c` observes all effects of its
    predecessors on its queue, none of its successors, and no command takes effect twice or is skipped. -/
theorem fifo_memory_effects (eff : Eff) (n : Nat) (σ0 : Store) (ops : List Q.Op) (i : Nat) (q : Q.Queue)
    (hq : (run eff (init n σ0) ops).q.qs[i]? = some q) (pre post : List (Nat × Nat)) (c : Nat)
    (hsplit : (run eff (init n σ0) ops).log = pre ++ (i, c) :: post) :
    ∃ rest, q.sub = proj i pre ++ c :: rest := by
  have hlog := log_per_queue eff n σ0 ops i q hq
  have hmem : q ∈ (Q.run (Q.init n) ops).qs := by
    rw [← layer_over_Q eff n σ0 ops]; exact List.mem_of_getElem? hq
  have hinv := Q.qinv_run (Q.init n) ops (Q.qinv_init n) q hmem
  rw [hsplit, proj_append, proj_cons_eq] at hlog
  refine ⟨proj i post ++ q.cmds.map (·.id), ?_⟩
  rw [hinv.split, ← hlog]; simp

/-- **One at a time.** One step makes at most one command of each queue take effect, and it is the
    head of that queue. -/
theorem effects_one_at_a_time (eff : Eff) (s : St) (op : Q.Op) (i : Nat) (q : Q.Queue) (hq : s.q.qs[i]? = some q) :
    proj i (step eff s op).log = proj i s.log ∨
    ∃ x xs, q.cmds = x :: xs ∧ proj i (step eff s op).log = proj i s.log ++ [x.id] := by
  simp only [step, proj_append, proj_newly, Nat.zero_le, if_true, Nat.sub_zero, hq]
  cases hc : completes op i q with
  | none => left; simp
  | some c =>
    right
    obtain ⟨x, xs, hx, hid⟩ := completes_head op i q c hc
    exact ⟨x, xs, hx, by simp [hid]⟩

/-- **Isolation of disjoint footprints.** Let `F` be a set of cells such that every completed
    command of queue `i` reads and writes only `F` (its result on `F` depends only on `F`) and no
    completed command of any other queue writes a cell of `F`. Then the cells of `F` hold exactly
    what queue `i`'s completed commands alone produce from the initial store, in submission order —
    whatever the other queues did and however ticks and responses were interleaved. -/
theorem isolation_memory (eff : Eff) (n : Nat) (σ0 : Store) (ops : List Q.Op) (i : Nat) (q : Q.Queue)
    (hq : (run eff (init n σ0) ops).q.qs[i]? = some q) (F : Nat → Prop)
    (h1 : ∀ e ∈ (run eff (init n σ0) ops).log, e.1 = i →
      ∀ σ τ : Store, (∀ x, F x → σ x = τ x) → ∀ x, F x → eff e.2 σ x = eff e.2 τ x)
    (h2 : ∀ e ∈ (run eff (init n σ0) ops).log, e.1 ≠ i → ∀ (σ : Store) x, F x → eff e.2 σ x = σ x) :
    ∀ x, F x → (run eff (init n σ0) ops).store x = applyIds eff q.done σ0 x := by
  intro x hx
  rw [store_is_log, ← log_per_queue eff n σ0 ops i q hq]
  exact applyLog_iso eff F i _ h1 h2 σ0 σ0 (fun _ _ => rfl) x hx

/-! ### a concrete non-trivial run: two queues, kernel + noop commands, interleaved completions.
    Commands 1 and 3 (queue 0) add to cell 0 (3 doubles it first); command 2 (queue 1) writes cell 5. -/
def demoEff : Eff := fun c σ x =>
  if c = 1 ∧ x = 0 then σ 0 + 1 else if c = 3 ∧ x = 0 then 2 * σ 0 + 10 else if c = 2 ∧ x = 5 then σ 5 + 7 else σ x
def demoOps : List Q.Op := [.enq 0 .kern, .enq 1 .noop, .enq 0 .noop, .tick, .tick, .rsp 0, .tick]

example : (run demoEff (init 2 fun _ => 0) demoOps).log = [(1, 2), (0, 1), (0, 3)] := by decide
example : (run demoEff (init 2 fun _ => 0) demoOps).store 0 = 12 ∧ (run demoEff (init 2 fun _ => 0) demoOps).store 5 = 7 := by
  decide
example : ((run demoEff (init 2 fun _ => 0) demoOps).q.qs.map (·.done)) = [[1, 3], [2]] := by decide
/-- the footprint hypotheses of `isolation_memory` hold for queue 0 and `F = {0}` in the demo -/
example : ∀ e ∈ (run demoEff (init 2 fun _ => 0) demoOps).log, e.1 ≠ 0 → ∀ (σ : Store) x, x = 0 → demoEff e.2 σ x = σ x := by
  intro e he hne σ x hx
  have : (run demoEff (init 2 fun _ => 0) demoOps).log = [(1, 2), (0, 1), (0, 3)] := by decide
  rw [this] at he
  simp at he
  rcases he with rfl | rfl | rfl <;> simp_all [demoEff]

end M
end C12
