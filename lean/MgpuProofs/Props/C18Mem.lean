import MgpuProofs.C18Mem
import MgpuProofs.Props.C18
/-! # C18 — data-placement invariance at the memory level

"Results do not depend on how data are spread over GPUs": for every page size, bank size, number of
GPUs, page table and access sequence, whichever GPU issues each access, the multi-GPU memory model of
`MgpuModel/C18_Mem.lean` (translation, local/remote decision of every GPU, RDMA table, one memory per
GPU) computes what one flat virtually addressed memory computes — provided the placement is injective
on frames and every frame byte lies in a GPU bank. The allocator's ranges satisfy the bank hypothesis
except for the last page of every range (finding `C18-owner-last-page`), which is the explicit
exception below. -/
namespace C18

/-! ## Routing agrees with the owner bank -/

/-- **local_iff_owner.** For a positive bank size, GPU `g`'s L1→L2 mapper keeps physical address `pa`
local exactly when `g` is the bank the RDMA address table sends `pa` to: the local decision of every
GPU agrees with the remote table, so a byte lives in exactly one GPU's memory whichever GPU touches it. -/
theorem local_iff_owner (S g pa : Nat) (hS : 0 < S) : isLocal S g pa = true ↔ g = bank S pa :=
  isLocal_iff_bank S g pa hS

/-- bank size 64: address 130 is local on GPU 2 only; the bank boundary 128 belongs to GPU 2, 127 to GPU 1 -/
example : isLocal 64 2 130 = true ∧ isLocal 64 1 130 = false ∧ isLocal 64 3 130 = false ∧ bank 64 130 = 2 ∧
    isLocal 64 1 127 = true ∧ isLocal 64 2 128 = true ∧ isLocal 64 1 128 = false := by
  decide

/-- **served_by_owner.** If `pa` lies in a GPU bank (`1 ≤ bank ≤ n`), an access by *any* GPU `g` is
served by the memory of GPU `bank S pa` (directly when `g` is that GPU, through the RDMA table
otherwise); and whatever the address, a request never bounces between RDMA engines (`loop`). -/
theorem served_by_owner (c : MemCfg) (g pa : Nat) (hS : 0 < c.S) :
    (1 ≤ bank c.S pa → bank c.S pa ≤ c.n → target c g pa = .ok (bank c.S pa)) ∧
    target c g pa ≠ .error .loop :=
  ⟨target_of_bank c g pa hS, target_ne_loop c g pa hS⟩

/-- 2 GPUs × 64 bytes: address 130 is served by GPU 2 for every issuer; bank 0 and bank 3 fault -/
example : target ⟨16, 64, 2⟩ 1 130 = .ok 2 ∧ target ⟨16, 64, 2⟩ 2 130 = .ok 2 ∧
    target ⟨16, 64, 2⟩ 1 5 = .error .cpu ∧ target ⟨16, 64, 2⟩ 2 192 = .error .bounds :=
  ⟨rfl, rfl, rfl, rfl⟩

/-! ## Placement invariance -/

/-- **placement_invariant.** Positive page and bank size, a placement that is injective on frames and
puts every frame byte into a GPU bank, and an access sequence that touches mapped pages only: then —
whichever GPU issues each access — the run does not fault, every load returns exactly what the flat
single-memory reference returns, every mapped virtual byte (read from its owner's memory) equals the
flat memory's byte, and the printed image equals the flat memory restricted to the mapped pages. -/
theorem placement_invariant (c : MemCfg) (pt : PageTable) (accs : List Acc) (hP : 0 < c.P) (hS : 0 < c.S)
    (hg : GoodPlacement c pt) (hm : ∀ a ∈ accs, accMapped c pt a) :
    (runMem c pt accs).fault = none ∧
    (runMem c pt accs).loads = (flatRun accs).loads ∧
    (∀ v, (pt.lookup (v / c.P)).isSome = true →
      vread c pt (runMem c pt accs).dram v = some ((flatRun accs).mem v)) ∧
    virtImage c pt (runMem c pt accs).dram = flatImage c pt (flatRun accs).mem := by
  have h := run_sim c pt hP hS hg accs {} {} hm ⟨rfl, rfl, fun _ _ _ => rfl⟩
  refine ⟨h.1, h.2.1, ?_, virtImage_sim c pt _ _ h.2.2⟩
  intro v hv
  obtain ⟨pa, hpa⟩ := translate_of_mapped c pt v hv
  simp only [vread, hpa]
  exact congrArg some (h.2.2 v pa hpa)

/-- 2 GPUs × 64 bytes, 16-byte pages spread over both GPUs in "wrong" order: a store by GPU 1 that
    crosses from a page on GPU 1 into a page on GPU 2 is read back by GPU 2; hypotheses hold, the
    results are the flat ones and not trivial -/
example :
    let c : MemCfg := ⟨16, 64, 2⟩
    let pt : PageTable := [(0, 7), (1, 8), (2, 5)]
    let accs := [Acc.store 1 12 [1, 2, 3, 4, 5, 6], .load 2 10 8, .store 2 31 [9, 9], .load 1 30 4]
    GoodPlacement c pt ∧ (∀ a ∈ accs, accMapped c pt a) ∧
    (runMem c pt accs).loads = [[0, 0, 1, 2, 3, 4, 5, 6], [0, 9, 9, 0]] ∧
    (flatRun accs).loads = [[0, 0, 1, 2, 3, 4, 5, 6], [0, 9, 9, 0]] ∧
    targets c pt 1 12 6 = [1, 1, 1, 1, 2, 2] ∧ (runMem c pt accs).dram 2 128 = 5 ∧
    (runMem c pt accs).dram 1 128 = 0 :=
  ⟨goodPlacement_of_list _ _ (by decide) (by decide), by decide, by decide, by decide, by decide, by decide,
    by decide⟩

/-- each hypothesis is needed: two virtual pages on one frame alias (the load sees the other page's
    store, the flat reference does not); a frame in the host bank or beyond the table, or an unmapped
    page, faults -/
example :
    (runMem ⟨16, 64, 2⟩ [(0, 4), (1, 4)] [.store 1 0 [7], .load 2 16 1]).loads = [[7]] ∧
    (flatRun [.store 1 0 [7], .load 2 16 1]).loads = [[0]] ∧
    (runMem ⟨16, 64, 2⟩ [(0, 1)] [.store 1 0 [7]]).fault = some .cpu ∧
    (runMem ⟨16, 64, 2⟩ [(0, 12)] [.store 1 0 [7]]).fault = some .bounds ∧
    (runMem ⟨16, 64, 2⟩ [(0, 4)] [.store 1 15 [7, 8]]).fault = some .page := by
  decide

/-- **placement_independent.** Two platforms (any page sizes, bank sizes, GPU counts), two good
placements, and two access sequences that differ only in the issuing GPUs: both runs complete, return
the same load results, and agree on every virtual byte mapped in both; with the same page size and the
same mapped pages the printed images are equal. (Both equal the flat reference, i.e. the single-GPU
result.) -/
theorem placement_independent (c1 c2 : MemCfg) (pt1 pt2 : PageTable) (accs1 accs2 : List Acc)
    (hP1 : 0 < c1.P) (hS1 : 0 < c1.S) (hP2 : 0 < c2.P) (hS2 : 0 < c2.S)
    (hg1 : GoodPlacement c1 pt1) (hg2 : GoodPlacement c2 pt2)
    (hm1 : ∀ a ∈ accs1, accMapped c1 pt1 a) (hm2 : ∀ a ∈ accs2, accMapped c2 pt2 a)
    (hsame : accs1.map Acc.noGpu = accs2.map Acc.noGpu) :
    (runMem c1 pt1 accs1).fault = none ∧ (runMem c2 pt2 accs2).fault = none ∧
    (runMem c1 pt1 accs1).loads = (runMem c2 pt2 accs2).loads ∧
    (∀ v, (pt1.lookup (v / c1.P)).isSome = true → (pt2.lookup (v / c2.P)).isSome = true →
      vread c1 pt1 (runMem c1 pt1 accs1).dram v = vread c2 pt2 (runMem c2 pt2 accs2).dram v) ∧
    (c1.P = c2.P → pt1.map (·.1) = pt2.map (·.1) →
      virtImage c1 pt1 (runMem c1 pt1 accs1).dram = virtImage c2 pt2 (runMem c2 pt2 accs2).dram) := by
  have h1 := placement_invariant c1 pt1 accs1 hP1 hS1 hg1 hm1
  have h2 := placement_invariant c2 pt2 accs2 hP2 hS2 hg2 hm2
  have hf : flatRun accs1 = flatRun accs2 := by
    rw [← flatRun_noGpu accs1, ← flatRun_noGpu accs2, hsame]
  refine ⟨h1.1, h2.1, ?_, ?_, ?_⟩
  · rw [h1.2.1, h2.2.1, hf]
  · intro v hv1 hv2
    rw [h1.2.2.1 v hv1, h2.2.2.1 v hv2, hf]
  · intro hP hv
    rw [h1.2.2.2, h2.2.2.2, hf]
    exact flatImage_congr c1 c2 pt1 pt2 _ hP hv

/-- the same program on 1 GPU (everything local), on 2 GPUs with the pages spread, and on 3 GPUs with
    the pages reversed and every access issued by another GPU: same loads, same image -/
example :
    let p1 : PageTable := [(0, 4), (1, 5), (2, 6)]
    let p2 : PageTable := [(0, 7), (1, 8), (2, 5)]
    let p3 : PageTable := [(0, 15), (1, 9), (2, 4)]
    let a1 := [Acc.store 1 12 [1, 2, 3, 4, 5, 6], .load 1 10 8, .store 1 31 [9, 9], .load 1 30 4]
    let a2 := [Acc.store 1 12 [1, 2, 3, 4, 5, 6], .load 2 10 8, .store 2 31 [9, 9], .load 1 30 4]
    let a3 := [Acc.store 3 12 [1, 2, 3, 4, 5, 6], .load 2 10 8, .store 1 31 [9, 9], .load 3 30 4]
    a1.map Acc.noGpu = a2.map Acc.noGpu ∧ a2.map Acc.noGpu = a3.map Acc.noGpu ∧
    GoodPlacement ⟨16, 64, 1⟩ p1 ∧ GoodPlacement ⟨16, 64, 2⟩ p2 ∧ GoodPlacement ⟨16, 64, 3⟩ p3 ∧
    (runMem ⟨16, 64, 1⟩ p1 a1).loads = (runMem ⟨16, 64, 3⟩ p3 a3).loads ∧
    virtImage ⟨16, 64, 2⟩ p2 (runMem ⟨16, 64, 2⟩ p2 a2).dram = virtImage ⟨16, 64, 3⟩ p3 (runMem ⟨16, 64, 3⟩ p3 a3).dram ∧
    (virtImage ⟨16, 64, 1⟩ p1 (runMem ⟨16, 64, 1⟩ p1 a1).dram).drop 10 = [0, 0, 1, 2, 3, 4, 5, 6] ++
      List.replicate 13 0 ++ [9, 9] ++ List.replicate 15 0 :=
  ⟨by decide, by decide, goodPlacement_of_list _ _ (by decide) (by decide),
    goodPlacement_of_list _ _ (by decide) (by decide), goodPlacement_of_list _ _ (by decide) (by decide),
    by decide, by decide, by decide⟩

/-! ## Tie to the allocator's ranges -/

/-- **alloc_frame_in_bank.** (from `owner_routing`) A frame inside the allocator range
`[P + d·S, P + (d+1)·S)` of GPU `d` (`1 ≤ d ≤ n`) that is not the range's last page: every byte of it
belongs to `d` for the allocator, is stored on GPU `d` by the RDMA table, and is local on GPU `d` only. -/
theorem alloc_frame_in_bank (P S n d pp off : Nat) (hd : d ≤ n) (hlo : P + d * S ≤ pp * P)
    (hhi : pp * P + P ≤ d * S + S) (hoff : off < P) :
    allocOwner P S n (pp * P + off) = some d ∧ bank S (pp * P + off) = d ∧
    ∀ g, isLocal S g (pp * P + off) = true ↔ g = d :=
  owner_routing S P n d (pp * P + off) hd (by omega) (by omega)

/-- page 16, banks of 64, 2 GPUs: frame 5 (bytes 80…95) is GPU 1's for the allocator and the table -/
example : allocOwner 16 64 2 (5 * 16 + 15) = some 1 ∧ bank 64 (5 * 16 + 15) = 1 ∧
    16 + 1 * 64 ≤ 5 * 16 ∧ 5 * 16 + 16 ≤ 1 * 64 + 64 := by
  decide

/-- **placement_invariant_alloc.** Every `Distribute` / `Remap` outcome that is injective on frames
and takes its frames from the allocator ranges of the GPUs, avoiding each range's last page, satisfies
the hypotheses of `placement_invariant`; so its runs are placement invariant. -/
theorem placement_invariant_alloc (c : MemCfg) (pt : PageTable) (accs : List Acc) (hP : 0 < c.P) (hS : 0 < c.S)
    (hinj : ∀ vp1 vp2 pp, pt.lookup vp1 = some pp → pt.lookup vp2 = some pp → vp1 = vp2)
    (ha : AllocPlacement c pt) (hm : ∀ a ∈ accs, accMapped c pt a) :
    GoodPlacement c pt ∧
    (runMem c pt accs).fault = none ∧
    (runMem c pt accs).loads = (flatRun accs).loads ∧
    virtImage c pt (runMem c pt accs).dram = flatImage c pt (flatRun accs).mem := by
  have hg : GoodPlacement c pt := by
    refine ⟨hinj, ?_⟩
    intro vp pp hl off hoff
    obtain ⟨d, hd1, hdn, hlo, hhi⟩ := ha vp pp hl
    have := (alloc_frame_in_bank c.P c.S c.n d pp off hdn hlo hhi hoff).2.1
    omega
  have h := placement_invariant c pt accs hP hS hg hm
  exact ⟨hg, h.1, h.2.1, h.2.2.2⟩

/-- frames 5,6,7 are inside GPU 1's range `[80,144)` minus its last page, frame 10 inside GPU 2's -/
example : AllocPlacement ⟨16, 64, 2⟩ [(0, 10), (1, 5), (3, 7)] := by
  intro vp pp h
  have hm := mem_of_lookup _ vp pp h
  simp only [List.mem_cons, Prod.mk.injEq, List.not_mem_nil, or_false] at hm
  rcases hm with ⟨_, rfl⟩ | ⟨_, rfl⟩ | ⟨_, rfl⟩
  · exact ⟨2, by decide⟩
  · exact ⟨1, by decide⟩
  · exact ⟨1, by decide⟩

/-- **alloc_last_page_next_bank.** The exception (`C18-owner-last-page`): the last page of device
`d`'s allocator range, `[(d+1)·S, (d+1)·S + P)`, is `d`'s for the allocator but bank `d+1` for the RDMA
table and the local mappers — the next GPU's memory, or beyond the table when `d` is the last GPU. -/
theorem alloc_last_page_next_bank (P S n d a : Nat) (hPS : P ≤ S) (hd : d ≤ n)
    (hlo : (d + 1) * S ≤ a) (hhi : a < (d + 1) * S + P) :
    allocOwner P S n a = some d ∧ bank S a = d + 1 := by
  have hb : a / S = d + 1 := Nat.div_eq_of_lt_le (by omega) (by rw [Nat.add_mul]; omega)
  have e : (d + 1) * S = d * S + S := by rw [Nat.add_mul]; omega
  have ha : (a - P) / S = d := Nat.div_eq_of_lt_le (by omega) (by rw [Nat.add_mul]; omega)
  refine ⟨?_, hb⟩
  unfold allocOwner
  have : ¬ a < P := by omega
  simp [this, ha, hd]

/-- 4 GiB banks, 4 KiB pages, 2 GPUs: the last page of GPU 2's range is bank 3 (no such module), the
    last page of GPU 1's range is bank 2 -/
example : allocOwner 4096 4294967296 2 (3 * 4294967296 + 100) = some 2 ∧ bank 4294967296 (3 * 4294967296 + 100) = 3 ∧
    allocOwner 4096 4294967296 2 (2 * 4294967296) = some 1 ∧ bank 4294967296 (2 * 4294967296) = 2 := by
  decide

/-- the full statement: *every* placement that is injective on frames and takes every frame byte from
    the allocator range of some GPU (`allocOwner`) is placement invariant -/
def placement_invariant_alloc_full : Prop :=
  ∀ (c : MemCfg) (pt : PageTable) (accs : List Acc), 0 < c.P → c.P ≤ c.S →
    (∀ vp1 vp2 pp, pt.lookup vp1 = some pp → pt.lookup vp2 = some pp → vp1 = vp2) →
    (∀ vp pp, pt.lookup vp = some pp → ∀ off, off < c.P →
      ∃ d, 1 ≤ d ∧ d ≤ c.n ∧ allocOwner c.P c.S c.n (pp * c.P + off) = some d) →
    (∀ a ∈ accs, accMapped c pt a) →
    (runMem c pt accs).fault = none ∧ (runMem c pt accs).loads = (flatRun accs).loads

/-- **placement_invariant_alloc_full_refuted** (finding `C18-owner-last-page`). … is false of the
current code. Witness: 4 GiB banks, 4 KiB pages, 2 GPUs, one virtual page placed on the last page of
GPU 2's allocator range (physical address 3·4 GiB, which `deviceIDByPAddr` gives to GPU 2): the RDMA
table has no bank 3, so a store issued by GPU 1 faults (`bounds`, the slice-index panic of
`BankedAddressPortMapper.Find`) while the flat reference succeeds. -/
theorem placement_invariant_alloc_full_refuted : ¬ placement_invariant_alloc_full := by
  intro h
  have h := h ⟨4096, 4294967296, 2⟩ [(0, 3145728)] [.store 1 0 [7], .load 1 0 1] (by decide) (by decide)
    (by
      intro v1 v2 pp h1 h2
      have m1 := mem_of_lookup _ v1 pp h1
      have m2 := mem_of_lookup _ v2 pp h2
      simp only [List.mem_cons, Prod.mk.injEq, List.not_mem_nil, or_false] at m1 m2
      omega)
    (by
      intro vp pp hl off hoff
      have m := mem_of_lookup _ vp pp hl
      simp only [List.mem_cons, Prod.mk.injEq, List.not_mem_nil, or_false] at m
      obtain ⟨_, rfl⟩ := m
      refine ⟨2, by decide, by decide, ?_⟩
      exact (alloc_last_page_next_bank 4096 4294967296 2 2 _ (by decide) (by decide)
        (by simp only at hoff ⊢; omega) (by simp only at hoff ⊢; omega)).1)
    (by decide)
  revert h
  decide

/-- the witness run: fault `bounds` on the 2-GPU platform, `[[7]]` on the flat reference; the same
    program with the page on the last page of GPU 1's range (stored on GPU 2, by the milder half of the
    finding) still gives the flat result, because only the bank hypothesis matters -/
example :
    (runMem ⟨4096, 4294967296, 2⟩ [(0, 3145728)] [.store 1 0 [7], .load 1 0 1]).fault = some .bounds ∧
    (flatRun [.store 1 0 [7], .load 1 0 1]).loads = [[7]] ∧
    allocOwner 4096 4294967296 2 (2097152 * 4096) = some 1 ∧
    targets ⟨4096, 4294967296, 2⟩ [(0, 2097152)] 1 0 1 = [2] ∧
    (runMem ⟨4096, 4294967296, 2⟩ [(0, 2097152)] [.store 1 0 [7], .load 1 0 1]).fault = none ∧
    (runMem ⟨4096, 4294967296, 2⟩ [(0, 2097152)] [.store 1 0 [7], .load 1 0 1]).loads = [[7]] := by
  decide

end C18
