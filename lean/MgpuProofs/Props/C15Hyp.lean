import MgpuProofs.Props.C15Fair
import MgpuProofs.Props.C15Arr
/-! # C15 — the hypotheses of the liveness / restart theorems cannot be dropped

Every hypothesis that is not proved from the reachable-state invariant gets a kernel-checked
witness: a concrete configuration and run in which the hypothesis fails and so does the
conclusion. The same scenarios are replayed on the real reorder buffer (`c15Corpus` in
harness/c15.go: `width=0`, `cap=0`, Top-out 0, Bottom-out 0, empty requester, no bottom unit):
the real component behaves as the model does (diffs=0).

* `1 ≤ width` (`answered_within_measure`, `eventually_answered`, `accepted_within_measure`, …):
  `width_zero_does_nothing`.
* `1 ≤ cap` (`no_deadlock_before_acceptance`): `capacity_zero_never_accepts`.
* `1 ≤ botOutCap` (`no_deadlock_before_acceptance`): `bottom_port_zero_never_accepts`.
* `1 ≤ topOutCap` (`no_deadlock_in_window`): `top_port_zero_never_answers`.
* window clause `srcs` (requesters named): `unnamed_requester_is_never_answered`; clause `bu`
  (`BottomUnit` set): `no_bottom_unit_is_never_answered`; clauses `noflush` / `noctl`: a flush
  legitimately discards the request (`flush_discards`, `flush_drops_waiting_response`).
* fairness (`hfair`): `liveness_without_fairness_refuted`, `liveness_needs_top_port` (Props/C15Fair).
* `hempty` of `served_in_order_after_restart`: `served_in_order_needs_empty_point`.
* `NoFlushAlong` of `response_reaches_requester`: `flush_drops_waiting_response` (Props/C15Fair).
-/
namespace C15

theorem ticks_fix (c : Cfg) (σ : Sys) (h : sysStep c σ .tick = σ) :
    ∀ n, sysAt c σ (fun _ => .tick) n = σ
  | 0 => rfl
  | n + 1 => by simp only [sysAt, ticks_fix c σ h n]; exact h

/-- with `numReqPerCycle = 0` a tick runs no stage at all -/
theorem tick_width_zero (c : Cfg) (s : St) (hw : c.width = 0) (hc : s.ctlIn = []) (hfl : s.flushing = false) :
    tick c s = (s, false) := by
  unfold tick
  by_cases hf : s.fault.isSome = true
  · simp [hf]
  · have hp : processCtl c s = (s, false) := by unfold processCtl; rw [hc]
    simp only [hf, hp, hfl, Bool.false_eq_true, if_false]
    unfold runPipeline
    rw [hw]
    rfl

def zeroWidthCfg : Cfg := { demoCfg with width := 0 }

/-- **`1 ≤ width` is necessary.** A reorder buffer built with zero requests per cycle never accepts
    (and never retires) anything: request 0 is inside the arrival window and stays in the Top
    port's incoming buffer for ever, although the ticks keep coming. -/
theorem width_zero_does_nothing :
    WinIn zeroWidthCfg 0 (sysRun zeroWidthCfg [.arrive (demoReq 0 false)]).rob ∧
    ∀ n, (sysAt zeroWidthCfg (sysRun zeroWidthCfg [.arrive (demoReq 0 false)]) (fun _ => .tick) n).rob.accepted = [] := by
  refine ⟨by decide, fun n => ?_⟩
  have fix : sysStep zeroWidthCfg (sysRun zeroWidthCfg [.arrive (demoReq 0 false)]) .tick =
      sysRun zeroWidthCfg [.arrive (demoReq 0 false)] := by
    have := tick_width_zero zeroWidthCfg (sysRun zeroWidthCfg [.arrive (demoReq 0 false)]).rob rfl (by decide) (by decide)
    simp only [sysStep, step, this]
  rw [ticks_fix _ _ fix n]
  decide

def zeroCapCfg : Cfg := { demoCfg with cap := 0 }

/-- **`1 ≤ cap` is necessary.** `bufferSize = 0`: `isFull` holds of the empty buffer, the request
    waits for ever; every tick is a fixpoint. -/
theorem capacity_zero_never_accepts :
    WinIn zeroCapCfg 0 (sysRun zeroCapCfg [.arrive (demoReq 0 false)]).rob ∧
    ∀ n, (sysAt zeroCapCfg (sysRun zeroCapCfg [.arrive (demoReq 0 false)]) (fun _ => .tick) n).rob.accepted = [] := by
  refine ⟨by decide, fun n => ?_⟩
  have fix : sysStep zeroCapCfg (sysRun zeroCapCfg [.arrive (demoReq 0 false)]) .tick =
      sysRun zeroCapCfg [.arrive (demoReq 0 false)] := rfl
  rw [ticks_fix _ _ fix n]
  decide

def zeroBotOutCfg : Cfg := { demoCfg with botOutCap := 0 }

/-- **`1 ≤ botOutCap` is necessary.** A Bottom port without outgoing buffer refuses every
    forwarded copy; each tick only burns one fresh id (`nextBot`), the request is never accepted. -/
theorem bottom_port_zero_never_accepts :
    WinIn zeroBotOutCfg 0 (sysRun zeroBotOutCfg [.arrive (demoReq 0 false)]).rob ∧
    ∀ n, (sysAt zeroBotOutCfg (sysRun zeroBotOutCfg [.arrive (demoReq 0 false)]) (fun _ => .tick) n).rob.accepted = [] := by
  refine ⟨by decide, fun n => ?_⟩
  have key : ∀ n, sysAt zeroBotOutCfg (sysRun zeroBotOutCfg [.arrive (demoReq 0 false)]) (fun _ => .tick) n =
      { (sysRun zeroBotOutCfg [.arrive (demoReq 0 false)]) with
        rob := { (sysRun zeroBotOutCfg [.arrive (demoReq 0 false)]).rob with nextBot := n } } := by
    intro n
    induction n with
    | zero => rfl
    | succ n ih => simp only [sysAt, ih]; rfl
  rw [key n]
  rfl

def zeroTopOutCfg : Cfg := { demoCfg with topOutCap := 0 }

def answeredEvs : List Ev := [.arrive (demoReq 0 false), .tick, .memTake, .memAnswer 0 (.data [1]), .tick]

/-- **`1 ≤ topOutCap` is necessary.** The response has arrived and is stored, the head could be
    retired — but a Top port without outgoing buffer never takes it: nothing is left for the memory
    or the requester to do (memory, Bottom port and Top port are empty, `bottomUp` is not ready) and
    the ticks are a fixpoint. -/
theorem top_port_zero_never_answers :
    Window zeroTopOutCfg 0 (sysRun zeroTopOutCfg answeredEvs).rob ∧
    (sysRun zeroTopOutCfg answeredEvs).rob.txs.map (·.rsp) = [some (.data [1])] ∧
    (readyB zeroTopOutCfg (sysRun zeroTopOutCfg answeredEvs).rob = false ∧
      (sysRun zeroTopOutCfg answeredEvs).mem = [] ∧ (sysRun zeroTopOutCfg answeredEvs).rob.botOut = [] ∧
      (sysRun zeroTopOutCfg answeredEvs).rob.botIn = [] ∧ (sysRun zeroTopOutCfg answeredEvs).rob.topOut = []) ∧
    ∀ n, 0 ∉ (sysAt zeroTopOutCfg (sysRun zeroTopOutCfg answeredEvs) (fun _ => .tick) n).rob.delivered.map (·.rspTo) := by
  refine ⟨⟨by decide, by decide, by decide, by decide, by decide, by decide⟩, by decide, by decide, fun n => ?_⟩
  have fix : sysStep zeroTopOutCfg (sysRun zeroTopOutCfg answeredEvs) .tick = sysRun zeroTopOutCfg answeredEvs := by
    have := tick_idle' zeroTopOutCfg (sysRun zeroTopOutCfg answeredEvs).rob (by decide) (by decide) (by decide)
      (by decide) (by decide) (by decide)
    simp only [sysStep, step, this]
  rw [ticks_fix _ _ fix n]
  decide

def unnamedEvs : List Ev :=
  [.arrive { demoReq 0 false with src := 0 }, .tick, .memTake, .memAnswer 0 (.data [1]), .tick, .tick, .tick]

/-- **The requester must be named** (window clause `srcs`). A request whose `Src` is the empty
    port name is accepted, forwarded and answered; `Port.Send` then panics ("dst is not given"),
    the model's sticky `fault`: the response is never delivered. -/
theorem unnamed_requester_is_never_answered :
    (sysRun demoCfg (unnamedEvs.take 5)).rob.fault = none ∧
    (sysRun demoCfg (unnamedEvs.take 5)).rob.txs.map (·.rsp) = [some (.data [1])] ∧
    (sysRun demoCfg unnamedEvs).rob.fault = some .dstNotGiven ∧ (sysRun demoCfg unnamedEvs).rob.delivered = [] := by
  decide

/-- **`BottomUnit` must be set** (window clause `bu`): the first acceptance panics in `Send`. -/
theorem no_bottom_unit_is_never_answered :
    (sysRun { demoCfg with bottomUnit := false } [.arrive (demoReq 0 false), .tick]).rob.fault = some .dstNotGiven ∧
    (sysRun { demoCfg with bottomUnit := false } [.arrive (demoReq 0 false), .tick, .tick]).rob.accepted = [] := by
  decide

/-- `served_in_order_after_restart` without its hypothesis "the buffer is empty at that point" -/
def served_in_order_from_any_point_full : Prop :=
  ∀ (c : Cfg) (evs more : List Ev),
    let s := (sysRun c evs).rob
    let s' := (sysRun c (evs ++ more)).rob
    ∃ newOut newFwd, s'.delivered = s.delivered ++ newOut ∧ s'.fwd = s.fwd ++ newFwd ∧
      newOut.map (·.rspTo) ++ s'.txs.map (·.req.id) =
        (newFwd.map (·.1.id)).filter (fun a => decide (a ∉ s'.discarded))

/-- **The empty point is necessary**: started while request 0 is pending, the later output
    contains the response to a request accepted *before* the point. -/
theorem served_in_order_needs_empty_point : ¬ served_in_order_from_any_point_full := by
  intro h
  obtain ⟨no, nf, h1, h2, h3⟩ := h demoCfg [.arrive (demoReq 0 false), .tick, .memTake]
    [.memAnswer 0 (.data [1]), .tick, .tick]
  have e1 : (sysRun demoCfg ([.arrive (demoReq 0 false), .tick, .memTake] ++ [.memAnswer 0 (.data [1]), .tick, .tick])).rob.delivered =
      (sysRun demoCfg [.arrive (demoReq 0 false), .tick, .memTake]).rob.delivered ++ [⟨0, 2, .data [1]⟩] := by decide
  have e2 : (sysRun demoCfg ([.arrive (demoReq 0 false), .tick, .memTake] ++ [.memAnswer 0 (.data [1]), .tick, .tick])).rob.fwd =
      (sysRun demoCfg [.arrive (demoReq 0 false), .tick, .memTake]).rob.fwd ++ [] := by decide
  rw [e1] at h1
  rw [e2] at h2
  have hno := List.append_cancel_left h1
  have hnf := List.append_cancel_left h2
  rw [← hno, ← hnf] at h3
  revert h3
  decide

end C15
