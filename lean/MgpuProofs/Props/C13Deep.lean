import MgpuProofs.Props.C13
import MgpuProofs.C13Bits
import MgpuProofs.C13Select
import MgpuProofs.C13Gen
/-!
# C13 (deepening) — every header field, symbol selection as a total function, source-derived
offset tables, purity

Statements are about the functions of `MgpuModel/C13.lean` that the driver runs against the
real loader (`parseV2V3Header`, `parseV5KernelDescriptor`, `fromEntireText`, `loadNamed`,
`loadKernel`) and about the typed layer of `MgpuModel/C13Bits.lean` built on them.
-/
namespace C13

/-! ## 1. metadata layouts: full round trip, injectivity, ignored bytes -/

/-- **header_roundtrip_typed.** For every V2/V3 header value — every field in the width
`KernelCodeObjectMeta` declares, the two rsrc words given by their bit-fields — and whatever
the ignored fields and the following bytes contain, parsing the serialised bytes returns
exactly that value, and the ignored fields are recovered independently (the two projections
of the byte string do not overlap). No range hypotheses: the widths are in the types. -/
theorem header_roundtrip_typed (h : HeaderV) (g : HdrIgnored) :
    decodeHeader (encodeHeader h g) = some h ∧ ignoredOfHeader (encodeHeader h g) = g :=
  ⟨decodeHeader_encodeHeader h g, ignoredOfHeader_encodeHeader h g⟩

/-- **header_bytes_partition.** Conversely every byte string of at least 88 bytes *is* the
serialisation of what the loader parses from it together with its ignored fields: the 88
header bytes are exactly partitioned into interpreted and ignored ones, no byte is
unaccounted for, and shorter strings are exactly the ones on which Go panics. -/
theorem header_bytes_partition (d : Bytes) :
    (88 ≤ d.length → ∃ h, decodeHeader d = some h ∧ encodeHeader h (ignoredOfHeader d) = d) ∧
    (d.length < 88 → decodeHeader d = none) := by
  constructor
  · intro hl
    refine ⟨HeaderV.ofMeta (parseV2V3Header d), ?_, encodeHeader_decode d hl⟩
    unfold decodeHeader parseV2V3Header?
    rw [if_neg (by omega)]; rfl
  · intro hl
    unfold decodeHeader parseV2V3Header?
    rw [if_pos hl]; rfl

/-- **header_parse_injective.** Two byte strings parse to the same metadata **iff** they agree
on every byte the header parser interprets: bytes 0..23, 48..56, 60..67, 72..79, 84..87
and the two low bits of byte 57. So the parser is injective on the interpreted region, and
every other byte (24..47, the six high bits of 57, 58, 59, 68..71, 80..83, 88…) is ignored. -/
theorem header_parse_injective (a b : Bytes) : parseV2V3Header a = parseV2V3Header b ↔ HdrAgree a b :=
  parseV2V3Header_eq_iff a b

/-- the interpreted and the ignored header bytes partition `[0, 88)` -/
theorem header_byte_lists_partition :
    (hdrFullBytes ++ [57] ++ hdrIgnoredBytes).Perm (List.range 88) ∧
    hdrFullBytes.length = 53 ∧ hdrIgnoredBytes.length = 34 := by
  decide +kernel

/-- **header_load_injective.** For whole buffers that are recognised as header + code: the
loaded object (bytes and metadata) is the same **iff** the buffers agree on the interpreted
header bytes and on everything from byte 256 on. Bytes 88..255 never matter. -/
theorem header_load_injective (a b : Bytes) (ha : isV2V3Header a = true) (hb : isV2V3Header b = true) :
    fromEntireText a = fromEntireText b ↔ HdrAgree a b ∧ a.drop 256 = b.drop 256 :=
  fromEntireText_eq_iff a b ha hb

/-- **rsrc_words_are_bitfields.** The bit-field view of `compute_pgm_rsrc1/2` is a bijection
with the 32-bit words, and the accessor methods of `KernelCodeObjectMeta`
(`WorkItemVgprCount`, …, `EnableExceptionMemoryViolation`) return exactly those fields. -/
theorem rsrc_words_are_bitfields :
    (∀ f : Rsrc1, Rsrc1.dec f.enc = f) ∧ (∀ w : BitVec 32, (Rsrc1.dec w).enc = w) ∧
    (∀ f : Rsrc2, Rsrc2.dec f.enc = f) ∧ (∀ w : BitVec 32, (Rsrc2.dec w).enc = w) ∧
    (∀ (r1 : Rsrc1) (r2 : Rsrc2) (m : Meta), m.rsrc1 = r1.enc.toNat → m.rsrc2 = r2.enc.toNat →
      workItemVgprCount m = r1.vgprGran.toNat ∧ wavefrontSgprCount m = r1.sgprGran.toNat ∧
      priority m = r1.priority.toNat ∧ enPrivSegWaveByteOffset m = r2.privSegWaveOffset ∧
      userSgprCount m = r2.userSgpr.toNat ∧ enWorkGroupIDX m = r2.wgIdX ∧ enWorkGroupIDY m = r2.wgIdY ∧
      enWorkGroupIDZ m = r2.wgIdZ ∧ enWorkGroupInfo m = r2.wgInfo ∧ enVgprWorkItemID m = r2.vgprWorkItemId.toNat ∧
      enExceptionAddressWatch m = r2.excAddrWatch ∧ enExceptionMemoryViolation m = r2.excMemViol) :=
  ⟨Rsrc1.dec_enc, Rsrc1.enc_dec, Rsrc2.dec_enc, Rsrc2.enc_dec, accessors_are_fields⟩

/-- **rsrc2_rewriting_on_fields.** What `parseV5KernelDescriptor` does to the stored rsrc2,
for all 2^32 words and both kernarg cases, said on the fields (`Rsrc2.norm`): bit 0 cleared,
user_sgpr_count := 2 when there are kernel arguments, workgroup id X/Y forced, work-item
id 0 raised to 1, every other field kept; it is idempotent, and two stored words become
indistinguishable exactly when they differ only in those places. -/
theorem rsrc2_rewriting_on_fields (w x : BitVec 32) (c : Bool) :
    Rsrc2.dec (fixRsrc2 w c) = (Rsrc2.dec w).norm c ∧
    fixRsrc2 (fixRsrc2 w c) c = fixRsrc2 w c ∧
    (fixRsrc2 w c = fixRsrc2 x c ↔
      let f := Rsrc2.dec w; let g := Rsrc2.dec x
      (c = true ∨ f.userSgpr = g.userSgpr) ∧ f.trapHandler = g.trapHandler ∧ f.wgIdZ = g.wgIdZ ∧
      f.wgInfo = g.wgInfo ∧
      (if f.vgprWorkItemId = 0#2 then 1#2 else f.vgprWorkItemId) = (if g.vgprWorkItemId = 0#2 then 1#2 else g.vgprWorkItemId) ∧
      f.excAddrWatch = g.excAddrWatch ∧ f.excMemViol = g.excMemViol ∧ f.upper = g.upper) := by
  refine ⟨fixRsrc2_fields w c, ?_, ?_⟩
  · have h : Rsrc2.dec (fixRsrc2 (fixRsrc2 w c) c) = Rsrc2.dec (fixRsrc2 w c) := by
      rw [fixRsrc2_fields, fixRsrc2_fields, Rsrc2.norm_idem]
    have := congrArg Rsrc2.enc h
    rwa [Rsrc2.enc_dec, Rsrc2.enc_dec] at this
  · rw [fixRsrc2_eq_iff, Rsrc2.norm_eq_iff]

/-- **kd_roundtrip_typed.** For every typed descriptor in the ABI layout, which the repaired
loader reads (rsrc3 @44, rsrc1 @48, rsrc2 @52), and whatever bytes 12..15, 24..43, 56..63 hold: the
derived metadata is `KdV.derived` (sizes, entry, rsrc3, rsrc1 verbatim; rsrc2 normalised;
counts = (granule+1)·4 / ·8; kernarg enable = size > 0), reading it back returns the
descriptor with rsrc2 normalised, the ignored fields are independent, and the round trip
is the identity exactly on descriptors whose rsrc2 is already normalised. -/
theorem kd_roundtrip_typed (k : KdV) (g : KdIgnored) :
    parseV5KernelDescriptor (encodeKd k g) = k.derived ∧
    decodeKd (encodeKd k g) = some k.normalised ∧
    ignoredOfKd (encodeKd k g) = g ∧
    (decodeKd (encodeKd k g) = some k ↔ k.rsrc2.norm (decide (k.kernarg.toNat > 0)) = k.rsrc2) := by
  refine ⟨parse_encodeKd k g, decodeKd_encodeKd k g, ignoredOfKd_encodeKd k g, ?_⟩
  rw [decodeKd_encodeKd]
  obtain ⟨a, b, c, d, e, r1, r2⟩ := k
  simp [KdV.normalised]

/-- **kd_parse_injective.** Two descriptors parse to the same metadata **iff** they agree on
bytes 0..11, 16..23, 44..51 and their words at 52 are indistinguishable after the rewriting
(`rsrc2_rewriting_on_fields` says which those are). Bytes 12..15, 24..43, 56..63 — among
them kernel_code_properties and kernarg_preload — are ignored. -/
theorem kd_parse_injective (a b : Bytes) :
    parseV5KernelDescriptor a = parseV5KernelDescriptor b ↔ KdAgree a b :=
  parseV5KernelDescriptor_eq_iff a b

/-- the copied, rewritten and ignored descriptor bytes partition `[0, 64)` -/
theorem kd_byte_lists_partition :
    (kdFullBytes ++ kdRewrittenBytes ++ kdIgnoredBytes).Perm (List.range 64) := by
  decide +kernel

/-! ## 2. symbol selection -/

/-- **selection_is_the_loader.** `selectKernel` (explicit error enum) is the selection step
of `loadNamed`: "not found" is the `log.Fatalf`, both slice errors are the panic, and on
success the rest of the load continues with exactly the selected symbol and bytes. -/
theorem selection_is_the_loader (secs : List Section) (text : Section) (td : Bytes) (syms : List Symbol) (k : String) :
    loadNamed secs text td syms k =
      match selectKernel secs text.addr td syms k with
      | .err .notFound => .fatal "notfound"
      | .err _ => .fault
      | .ok s kdata =>
        match findV5 secs k syms with
        | .fault => .fault
        | .found m => .ok { data := kdata, md := overrideRegs k m syms, version := 5, sym := some s }
        | .none => withSym (fromEntireText kdata) s :=
  loadNamed_via_select secs text td syms k

/-- **selection_total.** For every symbol table (any length, duplicates, zero sizes, section
indices out of range, values anywhere in uint64) exactly one of three things happens:
no symbol qualifies → `notFound`; the first qualifying symbol lies inside `.text` → its bytes
`text[value − addr, +size)`; it does not → one of the two Go slice panics (`hiPastCap` iff
the wrapped end exceeds the data, else `loPastHi`). -/
theorem selection_total (secs : List Section) (A : Nat) (td : Bytes) (syms : List Symbol) (k : String)
    (fits : SelFits A td syms) :
    selectKernel secs A td syms k =
      match firstKernelSym secs syms k with
      | none => .err .notFound
      | some s =>
        if symInside A td.length s then .ok s ((td.drop (s.value - A)).take s.size)
        else .err (if (wrapSub s.value A + s.size) % U64 > td.length then .hiPastCap else .loPastHi) :=
  selectKernel_spec secs A td syms k fits

/-- **selection_nofault_iff_wellformed.** The decidable predicate `selWF` ("the first kernel
symbol named k, if any, lies inside `.text`") is exactly the no-panic condition. -/
theorem selection_nofault_iff_wellformed (secs : List Section) (A : Nat) (td : Bytes) (syms : List Symbol) (k : String)
    (fits : SelFits A td syms) :
    (selectKernel secs A td syms k ≠ .err .hiPastCap ∧ selectKernel secs A td syms k ≠ .err .loPastHi) ↔
      selWF secs A td syms k = true :=
  select_nofault_iff_wf secs A td syms k fits

/-- **selection_bytes_inside_text.** Whatever is returned is the symbol's range of `.text`:
byte `i` of the result is byte `value − addr + i` of the section data, all indices are
inside the data, the length is the symbol's size. Nothing outside `.text` is ever returned. -/
theorem selection_bytes_inside_text (secs : List Section) (A : Nat) (td : Bytes) (syms : List Symbol) (k : String)
    (fits : SelFits A td syms) (s : Symbol) (bytes : Bytes)
    (h : selectKernel secs A td syms k = .ok s bytes) :
    firstKernelSym secs syms k = some s ∧ A ≤ s.value ∧ s.value - A + s.size ≤ td.length ∧
    bytes = (td.drop (s.value - A)).take s.size ∧ bytes.length = s.size ∧
    ∀ i, i < s.size → bytes[i]? = td[s.value - A + i]? ∧ s.value - A + i < td.length :=
  select_bytes_inside secs A td syms k fits s bytes h

/-- **selection_first_match.** The symbol used is the first one in table order that is defined,
has positive size, names (by index) a section called `.text`, and carries the name; later
duplicates are never looked at, and "not found" means no symbol qualifies. In auto-detect
mode the single qualifying symbol is the one found. -/
theorem selection_first_match (secs : List Section) (syms : List Symbol) (k : String) :
    (∀ s, firstKernelSym secs syms k = some s →
      ∃ pre post, syms = pre ++ s :: post ∧ isKernelSym secs s = true ∧ s.name = k ∧
        ∀ x ∈ pre, ¬ (isKernelSym secs x = true ∧ x.name = k)) ∧
    (firstKernelSym secs syms k = none ↔ ∀ x ∈ syms, ¬ (isKernelSym secs x = true ∧ x.name = k)) ∧
    (∀ s, isKernelSym secs s = true ↔
      s.shndx ≠ 0 ∧ s.size > 0 ∧ ∃ sec, secs[s.shndx]? = some sec ∧ sec.name = ".text") ∧
    (∀ s, syms.filter (isKernelSym secs) = [s] → firstKernelSym secs syms s.name = some s) :=
  ⟨fun _ h => firstKernelSym_is_first h, firstKernelSym_none_iff secs syms k, isKernelSym_iff secs,
   auto_detect_selects_the_only secs syms⟩

/-- **named_load_faults_exactly.** After the repair of `findV5KernelDescriptor` a load by name
panics exactly when the kernel symbol's own slice panics: the descriptor lookup is total —
for every view, every symbol table and every name it answers "none" or "found", never a panic. -/
theorem named_load_faults_exactly (secs : List Section) (text : Section) (td : Bytes) (syms : List Symbol) (k : String) :
    (loadNamed secs text td syms k = .fault ↔
      (selectKernel secs text.addr td syms k = .err .hiPastCap ∨ selectKernel secs text.addr td syms k = .err .loPastHi)) ∧
    findV5 secs k syms ≠ .fault :=
  ⟨loadNamed_fault_iff secs text td syms k, findV5_never_faults secs k syms⟩

/-- the totality statement for the lookup as it was before the repair -/
def kd_lookup_total_before_fix : Prop :=
  ∀ (secs : List Section) (k : String) (syms : List Symbol), (∀ s ∈ syms, s.value < U64) → findV5Old secs k syms ≠ .fault

/-- **kd_lookup_total_before_fix_refuted.** It was false: `kdOffset+64 <= len` wrapped. Witness:
`.rodata` at address 0 with 64 bytes and a `k.kd` symbol of size 64 at 0xfffffffffffffff0. -/
theorem kd_lookup_total_before_fix_refuted : ¬ kd_lookup_total_before_fix := by
  intro h
  refine h [⟨"", 0, some []⟩, ⟨".rodata", 0, some (List.replicate 64 0)⟩] "k" [⟨"k.kd", 0xfffffffffffffff0, 64, 1⟩] ?_ ?_
  · intro s hs
    simp only [List.mem_singleton] at hs
    subst hs
    decide
  · decide +kernel

/-- **kd_repair_is_conservative.** The old lookup panicked exactly when the first `<k>.kd` symbol
of size 64 in a `.rodata`-named section had a uint64 offset from `.rodata` within 64 of 2^64
(1..64 bytes below the section, or ≥ 2^64−64 above it) whose wrapped end fitted the data; on
every other input the repaired lookup answers what the old one answered. -/
theorem kd_repair_is_conservative (secs : List Section) (k : String) (syms : List Symbol)
    (hv : ∀ s ∈ syms, s.value < U64) (ha : ∀ sec ∈ secs, ∀ d, sec.data = some d → sec.addr + d.length < U64) :
    (findV5Old secs k syms = .fault ↔
      ∃ ro rod s sec, findSection secs ".rodata" = some ro ∧ ro.data = some rod ∧
        syms.find? (fun s => s.name == k ++ ".kd" && s.size == 64) = some s ∧ secs[s.shndx]? = some sec ∧
        sec.name = ".rodata" ∧ U64 ≤ wrapSub s.value ro.addr + 64 ∧
        wrapSub s.value ro.addr + 64 - U64 ≤ rod.length) ∧
    (findV5Old secs k syms ≠ .fault → findV5 secs k syms = findV5Old secs k syms) :=
  ⟨findV5Old_fault_iff secs k syms hv, findV5_eq_old secs k syms hv ha⟩

/-! ## 2½. end to end: typed metadata through `loadKernel` -/

/-- **load_typed_v3 (end to end).** A well-placed kernel symbol whose bytes are a serialised
genuine header (any typed value, any ignored fields, any 168 padding bytes) followed by code,
with no descriptor for the name, loads as: exactly the code, exactly the header's fields
(entry offset reset to 0 because the header is gone), version 3, that symbol. -/
theorem load_typed_v3 (secs : List Section) (text : Section) (td : Bytes) (syms : List Symbol) (k : String)
    (s : Symbol) (h : HeaderV) (g : HdrIgnored) (pad code : Bytes)
    (ht : findSection secs ".text" = some text) (htd : text.data = some td) (hk : k ≠ "")
    (hs : firstKernelSym secs syms k = some s) (hin : symInside text.addr td.length s = true)
    (fits : SelFits text.addr td syms)
    (hbytes : (td.drop (s.value - text.addr)).take s.size = encodeHeader h g)
    (htail : g.tail = pad ++ code) (hpad : pad.length = 168) (hg : h.genuine) (hv : findV5 secs k syms = .none) :
    loadKernel ⟨secs, some syms⟩ k =
      .ok { data := code, md := { h.toMeta with entry := 0 }, version := 3, sym := some s } := by
  unfold loadKernel
  simp only [ht, htd, hk, if_false]
  rw [loadNamed_via_select, selectKernel_spec secs text.addr td syms k fits, hs]
  simp only [hin, if_true, hv, hbytes]
  unfold encodeHeader
  rw [htail]
  obtain ⟨g1, g2, g3, g4, g5, g6⟩ := hg
  rw [genuine_header_load h.toMeta _ _ _ _ _ _ pad code h.toMeta_inRange (by have := g.propsHi.isLt; omega) hpad
    (by simp only [HeaderV.toMeta, g1, g3, g6]; exact ⟨rfl, g2, rfl, g4, g5, rfl⟩)]
  rfl

/-- **load_typed_v5 (end to end).** A well-placed kernel symbol together with a `<k>.kd`
symbol of size 64 lying inside `.rodata` whose bytes are a serialised typed descriptor
(ABI layout, any ignored bytes) loads as: exactly the symbol's bytes (never stripped),
exactly the derived metadata raised by the register-count symbols, version 5, that symbol. -/
theorem load_typed_v5 (secs : List Section) (text : Section) (td : Bytes) (syms : List Symbol) (k : String)
    (s : Symbol) (ro : Section) (rod : Bytes) (ks : Symbol) (sec : Section) (kd : KdV) (gi : KdIgnored)
    (ht : findSection secs ".text" = some text) (htd : text.data = some td) (hk : k ≠ "")
    (hs : firstKernelSym secs syms k = some s) (hin : symInside text.addr td.length s = true)
    (fits : SelFits text.addr td syms)
    (hro : findSection secs ".rodata" = some ro) (hrd : ro.data = some rod)
    (hks : syms.find? (fun s => s.name == k ++ ".kd" && s.size == 64) = some ks)
    (hsec : secs[ks.shndx]? = some sec) (hname : sec.name = ".rodata")
    (hlo : ro.addr ≤ ks.value) (hhi : ks.value + 64 ≤ ro.addr + rod.length) (hfit : ro.addr + rod.length < U64)
    (hbytes : (rod.drop (ks.value - ro.addr)).take 64 = encodeKd kd gi) :
    loadKernel ⟨secs, some syms⟩ k =
      .ok { data := (td.drop (s.value - text.addr)).take s.size, md := overrideRegs k kd.derived syms,
            version := 5, sym := some s } := by
  unfold loadKernel
  simp only [ht, htd, hk, if_false]
  rw [loadNamed_via_select, selectKernel_spec secs text.addr td syms k fits, hs]
  simp only [hin, if_true]
  rw [findV5_found secs k syms ro rod ks sec hro hrd hks hsec hname hlo hhi hfit, hbytes, parse_encodeKd]


/-! ## 3. the parsers are the ones hsaco.go spells out (regenerated tables) -/

/-- **parsers_match_source.** The tables `Gen.Hsaco.*` are regenerated from hsaco.go on every
check (field/offset/width of every read, flag bits, reject conditions of the header test,
bit-fields and count formulas of the descriptor parser, the rsrc2 statement block and the
uint16 register-override formulas as functions, the accessor methods, struct field widths, the 256/64 constants). Interpreting
those tables gives, for every byte string, exactly the hand-written model functions — so a
changed offset, width, bit or constant in the Go source breaks this theorem. -/
theorem parsers_match_source (d : Bytes) (m : Meta) (r : BitVec 32) (b : Bool) (k : String) (s : Symbol) :
    parseHdrByTable Gen.Hsaco.hdrReads Gen.Hsaco.hdrFlagsRead Gen.Hsaco.hdrFlagBits d = parseV2V3Header d ∧
    isHdrByTable Gen.Hsaco.isHdrMinLen Gen.Hsaco.isHdrRejects d = isV2V3Header d ∧
    parseKdByTable Gen.Hsaco.kdReads Gen.Hsaco.kdBitfields Gen.Hsaco.kdCounts Gen.Hsaco.kdFalse
      Gen.Hsaco.kdPositiveRule Gen.Hsaco.fixRsrc2 d = parseV5KernelDescriptor d ∧
    Gen.Hsaco.fixRsrc2 r b = fixRsrc2 r b ∧
    overrideStepByTable Gen.Hsaco.overrideCases overrideFormula k m s = overrideStep k m s ∧
    Gen.Hsaco.accessors.map (fun row => (row.1, accVal m row)) =
      [("WorkItemVgprCount", workItemVgprCount m), ("WavefrontSgprCount", wavefrontSgprCount m),
       ("Priority", priority m), ("EnableSgprPrivateSegmentWaveByteOffset", b2n (enPrivSegWaveByteOffset m)),
       ("UserSgprCount", userSgprCount m), ("EnableSgprWorkGroupIDX", b2n (enWorkGroupIDX m)),
       ("EnableSgprWorkGroupIDY", b2n (enWorkGroupIDY m)), ("EnableSgprWorkGroupIDZ", b2n (enWorkGroupIDZ m)),
       ("EnableSgprWorkGroupInfo", b2n (enWorkGroupInfo m)), ("EnableVgprWorkItemID", enVgprWorkItemID m),
       ("EnableExceptionAddressWatch", b2n (enExceptionAddressWatch m)),
       ("EnableExceptionMemoryViolation", b2n (enExceptionMemoryViolation m))] ∧
    Gen.Hsaco.metaFields = metaWidths ∧ Gen.Hsaco.entireMinLen = 256 ∧ Gen.Hsaco.entireStrip = 256 ∧
    Gen.Hsaco.kdSizes = [64, 64, 64] :=
  ⟨parseV2V3Header_from_source d, isV2V3Header_from_source d, parseV5KernelDescriptor_from_source d,
   fixRsrc2_from_source r b, overrideStep_from_source k m s, accessors_from_source m, loader_shape_from_source.1, loader_shape_from_source.2.1,
   loader_shape_from_source.2.2.1, loader_shape_from_source.2.2.2.1⟩

/-! ## 4. loading is pure -/

/-- the loader's possible hidden state: one cell per package-level variable its functions name -/
abbrev LoaderState := { g : String // g ∈ Gen.Hsaco.loaderGlobals } → Nat

/-- **loader_has_no_state.** The regenerated audit finds no package-level variable and no
`go` statement in the functions reachable from `LoadKernelCodeObjectFrom{FS,Bytes,ELF}`, so
the state space a load could read or leave behind is a single point. (A new global in those
functions changes `Gen.Hsaco.loaderGlobals` and breaks this proof.) -/
theorem loader_has_no_state :
    Gen.Hsaco.loaderGlobals = [] ∧ Gen.Hsaco.loaderSpawns = false ∧ ∀ s t : LoaderState, s = t := by
  refine ⟨loader_shape_from_source.2.2.2.2.1, loader_shape_from_source.2.2.2.2.2, ?_⟩
  intro s t
  funext ⟨g, hg⟩
  rw [loader_shape_from_source.2.2.2.2.1] at hg
  cases hg

/-- **session_pure.** In any run of loads, the answer at position `i` is `loadKernel` of
request `i` alone: loading the same bytes under the same name twice — back to back or with
any other objects loaded before, between and after — yields equal results, and a run can be
cut anywhere without changing any answer. -/
theorem session_pure (reqs : List Req) :
    (∀ i : Nat, (session reqs)[i]? = reqs[i]?.map (fun r : Req => loadKernel r.view r.name)) ∧
    (∀ (i j : Nat) (r : Req), reqs[i]? = some r → reqs[j]? = some r → (session reqs)[i]? = (session reqs)[j]?) ∧
    (∀ pre post, reqs = pre ++ post → session reqs = session pre ++ session post) := by
  refine ⟨?_, ?_, ?_⟩
  · intro i; simp [session]
  · intro i j r hi hj; simp [session, hi, hj]
  · intro pre post h; simp [session, h]

/-! ## the hypotheses are met by concrete, non-trivial values -/

/-- a typed header with every field populated (stencil2d-like) and non-zero ignored fields -/
def exHeaderV : HeaderV :=
  { cvMajor := 1, cvMinor := 0, machineKind := 1, mvMajor := 8, mvMinor := 0, mvStepping := 3, entry := 256,
    rsrc1 := ⟨1, 2, 0, 0xac0⟩,
    rsrc2 := ⟨false, 6, false, true, true, true, false, 2, false, false, 0⟩,
    en := ⟨true, false, false, true, false, false, false, false, false, false⟩,
    priv := 0, lds := 64, kernarg := 56, wfSgpr := 18, wiVgpr := 7 }
def exIgnored : HdrIgnored :=
  { prefetchOff := 0xdeadbeef, prefetchSize := 7, maxScratch := 0xffffffffffffffff, propsHi := 0x3fffff,
    gds := 5, barrier := 9, tail := List.replicate 168 0xcc ++ [1, 2, 3, 4] }

example : decodeHeader (encodeHeader exHeaderV exIgnored) = some exHeaderV := (header_roundtrip_typed _ _).1
example : (encodeHeader exHeaderV exIgnored).length = 260 := by decide +kernel
example : isV2V3Header (encodeHeader exHeaderV exIgnored) = true := by decide +kernel
/-- two headers differing in ignored fields only load identically; flipping an interpreted byte is seen -/
example : fromEntireText (encodeHeader exHeaderV exIgnored) =
    fromEntireText (encodeHeader exHeaderV { exIgnored with gds := 77, propsHi := 0, maxScratch := 1 }) := by
  decide +kernel
example : ¬ HdrAgree (encodeHeader exHeaderV exIgnored) (encodeHeader { exHeaderV with lds := 65 } exIgnored) := by
  intro h
  have := h.1 64 (by decide)
  revert this
  decide +kernel

/-- the shipped BitonicSort descriptor, typed: its stored rsrc2 0x84 is not normalised (→ 0x984) -/
def exKdV : KdV :=
  { lds := 0, priv := 0, kernarg := 280, entry := 0, rsrc3 := 2, rsrc1 := Rsrc1.dec 0x00af0041, rsrc2 := Rsrc2.dec 0x84 }
example : (exKdV.rsrc2.norm true).enc = 0x984#32 := by decide +kernel
example : (exKdV.derived.wiVgpr, exKdV.derived.wfSgpr) = (8, 16) := by decide +kernel
example : exKdV.normalised ≠ exKdV := by decide +kernel


/-- load_typed_v3 on a concrete object: the typed example header at offset 2 of a `.text` at 0x1000 -/
def exV3Text : Bytes := [0xaa, 0xbb] ++ encodeHeader exHeaderV exIgnored
def exV3Secs : List Section := [⟨"", 0, some []⟩, ⟨".text", 0x1000, some exV3Text⟩]
example : loadKernel ⟨exV3Secs, some [⟨"k", 0x1002, 260, 1⟩]⟩ "k" =
    .ok { data := [1, 2, 3, 4], md := { exHeaderV.toMeta with entry := 0 }, version := 3, sym := some ⟨"k", 0x1002, 260, 1⟩ } :=
  load_typed_v3 exV3Secs ⟨".text", 0x1000, some exV3Text⟩ exV3Text [⟨"k", 0x1002, 260, 1⟩] "k" ⟨"k", 0x1002, 260, 1⟩
    exHeaderV exIgnored (List.replicate 168 0xcc) [1, 2, 3, 4] rfl rfl (by decide) (by decide +kernel)
    (by decide +kernel)
    ⟨by decide +kernel, by intro s hs; simp only [List.mem_singleton] at hs; subst hs; decide⟩
    (by decide +kernel) rfl List.length_replicate (by unfold HeaderV.genuine; decide) (by decide +kernel)

/-- load_typed_v5 on the two-kernel example of `Props/C13.lean`: kernel `b`, descriptor = BitonicSort's -/
def exKdIgn : KdIgnored :=
  { reserved12 := 0, reserved24 := 0, reserved32 := 0, reserved40 := 0, props := 8, preload := 0, reserved60 := 0 }
example : encodeKd exKdV exKdIgn = renderKd bitonicKd := by decide +kernel
example : loadKernel ⟨exSecs, some exSyms1⟩ "b" =
    .ok { data := (exText.drop 4).take 260, md := overrideRegs "b" exKdV.derived exSyms1, version := 5,
          sym := some ⟨"b", 0x1004, 260, 2⟩ } :=
  load_typed_v5 exSecs ⟨".text", 0x1000, some exText⟩ exText exSyms1 "b" ⟨"b", 0x1004, 260, 2⟩
    ⟨".rodata", 0x600, some (renderKd bitonicKd)⟩ (renderKd bitonicKd) ⟨"b.kd", 0x600, 64, 1⟩
    ⟨".rodata", 0x600, some (renderKd bitonicKd)⟩ exKdV exKdIgn rfl rfl (by decide) (by decide +kernel)
    (by decide +kernel)
    ⟨by decide +kernel, by
      intro s hs
      simp only [exSyms1, List.mem_cons, List.not_mem_nil, or_false] at hs
      rcases hs with rfl | rfl | rfl | rfl | rfl <;> decide⟩
    rfl rfl (by decide +kernel) rfl rfl (by decide) (by decide +kernel) (by decide +kernel)
    (by decide +kernel)

/-- selection on a table with a zero-size namesake, a namesake in another section, a duplicate
and an out-of-range index: the third entry is the first that qualifies -/
def exSelSecs : List Section := [⟨"", 0, some []⟩, ⟨".data", 0x100, some [9, 9, 9, 9]⟩, ⟨".text", 0x1000, some [1, 2, 3, 4, 5, 6, 7, 8]⟩]
def exSelSyms : List Symbol :=
  [⟨"k", 0x1000, 0, 2⟩, ⟨"k", 0x100, 4, 1⟩, ⟨"k", 0x1002, 3, 2⟩, ⟨"k", 0x1000, 8, 2⟩, ⟨"k", 0x1000, 4, 77⟩]
example : selectKernel exSelSecs 0x1000 [1, 2, 3, 4, 5, 6, 7, 8] exSelSyms "k" = .ok ⟨"k", 0x1002, 3, 2⟩ [3, 4, 5] := by
  decide +kernel
example : SelFits 0x1000 [1, 2, 3, 4, 5, 6, 7, 8] exSelSyms := by
  constructor
  · decide
  · intro s hs
    simp only [exSelSyms, List.mem_cons, List.not_mem_nil, or_false] at hs
    rcases hs with rfl | rfl | rfl | rfl | rfl <;> decide
example : selWF exSelSecs 0x1000 [1, 2, 3, 4, 5, 6, 7, 8] exSelSyms "k" = true := by decide +kernel
/-- the two panics and "not found" as outcomes -/
example : selectKernel exSelSecs 0x1000 [1, 2, 3, 4] [⟨"k", 0x1002, 4, 2⟩] "k" = .err .hiPastCap := by decide +kernel
example : selectKernel exSelSecs 0x1000 [1, 2, 3, 4] [⟨"k", 0xfff, 2, 2⟩] "k" = .err .loPastHi := by decide +kernel
example : selectKernel exSelSecs 0x1000 [1, 2, 3, 4] [⟨"k", 0x1000, 0, 2⟩] "k" = .err .notFound := by decide +kernel
/-- the two descriptor placements that used to panic are now ignored: 16 bytes below `.rodata` … -/
example : findV5Old [⟨"", 0, some []⟩, ⟨".rodata", 0x600, some (List.replicate 64 0)⟩] "k" [⟨"k.kd", 0x5f0, 64, 1⟩] = .fault ∧
    findV5 [⟨"", 0, some []⟩, ⟨".rodata", 0x600, some (List.replicate 64 0)⟩] "k" [⟨"k.kd", 0x5f0, 64, 1⟩] = .none := by
  decide +kernel
/-- … and an offset ≥ 2^64 − 64 above it -/
example : findV5Old [⟨"", 0, some []⟩, ⟨".rodata", 0, some (List.replicate 64 0)⟩] "k" [⟨"k.kd", 0xfffffffffffffff0, 64, 1⟩] = .fault ∧
    findV5 [⟨"", 0, some []⟩, ⟨".rodata", 0, some (List.replicate 64 0)⟩] "k" [⟨"k.kd", 0xfffffffffffffff0, 64, 1⟩] = .none := by
  decide +kernel

/-- a session that loads `b` from the example object twice around other loads -/
example : let r : Req := ⟨⟨exSecs, some exSyms1⟩, "b"⟩
    let o : Req := ⟨⟨exSecs, some exSyms2⟩, "zz"⟩
    (session [r, o, o, r])[0]? = (session [r, o, o, r])[3]? :=
  (session_pure _).2.1 0 3 _ rfl rfl

end C13
