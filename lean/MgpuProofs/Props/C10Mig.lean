import MgpuProofs.Props.C10Cons
import MgpuProofs.C10Free
/-!
# Property C10 — a page migration gives the page it replaces back when it is complete

`Driver.preparePageForMigration` (`prepareMigration`, the history operation `.mig`) takes a fresh page on the target
GPU and overwrites the page-table entry; the page it replaces stays out of circulation while the page migration
controller copies from it (`conservation_migration_keeps_replaced_page`: neither free nor mapped, ghost
`leaked` + 1). Since the repair of finding `C10-migration-keeps-replaced-page` the driver gives that page back —
`MemoryAllocator.ReleasePhysicalPage` (`releasePage`) — when it handles the page's `PageMigrationRspToDriver`
(the driver-side discipline — which frame, when — is proved in C19: `old_frame_released_full`).

* `releasePage_lost` — releasing a page that is neither free nor mapped keeps the run invariant `WInv` and puts
  exactly that page back into circulation;
* `migration_complete_conserves` — a COMPLETED migration (`migrateComplete` = prepare, then release of the old
  page) conserves the physical pages: same ghost counter, same number of free + mapped pages, the pages in
  circulation are exactly the pages that were in circulation, the set of lost pages is unchanged; the old page is
  free again, the new one mapped;
* `migration_to_and_fro` — the history of the former finding (two 2-page GPUs, a 1-page buffer migrated to and fro)
  with completed migrations: eight migrations succeed, one page mapped, nothing lost;
  `migration_to_and_fro_before_fix` — without the release the fourth migration is out of memory.
-/
namespace C10

theorem releasePage_ok {s s' : State} {p : Nat} (h : releasePage s p = .ok s') :
    ∃ d, devOf s.devs p = some d ∧
      s' = { s with pool := { s.pool with frees := s.pool.frees.modify d (· ++ [p]) }, leaked := s.leaked - 1 } := by
  unfold releasePage at h
  split at h
  · simp at h
  · rename_i d hd
    injection h with h
    exact ⟨d, hd, h.symm⟩

/-- **releasePage_lost.** `ReleasePhysicalPage(p)` for a page-aligned page that is neither on a free list nor
mapped (a page kept by a migration), from a state that satisfies the run invariant: the invariant is kept, the page
table is untouched, and the free pages afterwards are the free pages before plus `p`. -/
theorem releasePage_lost {s s' : State} {p : Nat} (hW : WInv s) (hnf : p ∉ s.pool.frees.flatten)
    (hnl : p ∉ livePages s) (hal : s.ps ∣ p) (h : releasePage s p = .ok s') :
    WInv s' ∧ s'.pt = s.pt ∧ s'.devs = s.devs ∧ s'.ps = s.ps ∧ s'.leaked = s.leaked - 1 ∧
    s'.pool.frees.flatten.Perm (p :: s.pool.frees.flatten) := by
  obtain ⟨d, hd, rfl⟩ := releasePage_ok h
  have hP := hW.phys.release hnf hnl hal hd
  obtain ⟨dv, hdv, _, _⟩ := devOf_spec hd
  have hdlt : d < s.pool.frees.length := by
    rw [hW.phys.len]
    rcases Nat.lt_or_ge d s.devs.length with hl | hl
    · exact hl
    · simp [List.getElem?_eq_none hl] at hdv
  exact ⟨⟨hP, hW.mw, ⟨hW.layout.1, hW.layout.2⟩⟩, rfl, rfl, rfl, rfl, flatten_modify_perm _ _ _ hdlt⟩

/-- what `preparePageForMigration` leaves behind: the page it replaced is neither free nor mapped, aligned, and
inside a device -/
theorem prepareMigration_old {s s1 : State} {π v g new old : Nat} (hW : WInv s) (hv : v / s.ps * s.ps = v)
    (h : prepareMigration s π v g = .ok ((new, old), s1)) :
    old ∈ livePages s ∧ old ∉ s1.pool.frees.flatten ∧ old ∉ livePages s1 ∧ s.ps ∣ old ∧
    (∃ d, devOf s.devs old = some d) ∧ new ∈ livePages s1 := by
  have hP := hW.phys
  unfold prepareMigration at h
  rw [hv] at h
  split at h
  · simp at h
  · rename_i oldE hold
    split at h
    · simp at h
    · rename_i pg sA hA
      dsimp only at h
      split at h
      · simp at h
      · rename_i pt' hu
        injection h with h
        obtain ⟨h0, rfl⟩ := Prod.mk.inj h
        obtain ⟨rfl, rfl⟩ := Prod.mk.inj h0
        obtain ⟨ho1, ho2, ho3⟩ := ptFind_some hold
        have holive : oldE.paddr ∈ livePages s := List.mem_map_of_mem ho1
        -- inside AllocatePageWithGivenVAddr
        unfold allocGiven at hA
        split at hA
        · simp at hA
        · rename_i p pool' hp
          split at hA
          · simp at hA
          · rename_i dev hdv
            dsimp only at hA
            split at hA
            · simp at hA
            · rename_i ptA huA
              injection hA with hA
              obtain ⟨rfl, rfl⟩ := Prod.mk.inj hA
              obtain ⟨_, rfl⟩ := ptUpdate_ok huA
              obtain ⟨_, rfl⟩ := ptUpdate_ok hu
              obtain ⟨t1, t2, t3, t4, t5, _⟩ := hP.taken (allocPage_took hp)
              have hne : p ≠ oldE.paddr := fun e => t3 (e ▸ holive)
              have hnotfree : oldE.paddr ∉ pool'.frees.flatten := by
                intro hm
                exact hP.disj _ (t5 _ hm) holive
              have hrep : oldE.paddr ∉ (s.pt.map (upd (mkPg π v p dev true))).map (·.paddr) :=
                replaced_not_live hP ho1 ⟨ho2, ho3⟩ t3
              refine ⟨holive, hnotfree, ?_, hP.palign oldE ho1, ?_, ?_⟩
              · intro hm
                obtain ⟨x, hx, hxe⟩ := List.mem_map.mp hm
                rcases mem_map_upd hx with rfl | hx'
                · exact hne hxe
                · exact hrep (hxe ▸ List.mem_map_of_mem hx')
              · obtain ⟨d, hd, hb, he⟩ := hP.inDev oldE ho1
                have hin : inRange d oldE.paddr = true := by
                  have := hP.pspos
                  simp only [inRange, Bool.and_eq_true, decide_eq_true_eq]
                  omega
                exact devOfFrom_some s.devs 0 oldE.paddr ⟨d, List.mem_of_getElem? hd, hin⟩
              · -- the new page is mapped
                apply List.mem_map.mpr
                refine ⟨{ mkPg π v p dev true with dev := g + 1, migrating := true }, ?_, rfl⟩
                apply List.mem_map.mpr
                refine ⟨mkPg π v p dev true, ?_, by simp [upd]⟩
                apply List.mem_map.mpr
                exact ⟨oldE, ho1, by simp [upd, mkPg, ho2, ho3]⟩

/-- **migration_complete_conserves (conservation INCLUDING migration).** From every state that satisfies the run
invariant (every state a driver history reaches: `run_w`), for a page-aligned address and a real target GPU: when
`preparePageForMigration` succeeds, the release of the page it replaced succeeds too (`migrateComplete` does not
fault), the run invariant holds again, the ghost counter of kept pages is what it was, free pages + mapped pages is
what it was, a physical page is in circulation afterwards iff it was before — so the lost pages of ANY list `all` are
unchanged —, the replaced page is on a free list again and the new page is mapped. -/
theorem migration_complete_conserves {s s1 : State} {π v g new old : Nat} (hW : WInv s)
    (hg : ∀ dv, s.devs[g + 1]? = some dv → dv.kind ≠ .unified) (hv : v / s.ps * s.ps = v)
    (h : prepareMigration s π v g = .ok ((new, old), s1)) :
    ∃ s2, releasePage s1 old = .ok s2 ∧ migrateComplete s π v g = .ok ((new, old), s2) ∧ WInv s2 ∧
      s2.leaked = s.leaked ∧
      s2.pool.frees.flatten.length + s2.pt.length = s.pool.frees.flatten.length + s.pt.length ∧
      (∀ p, (p ∈ s2.pool.frees.flatten ∨ p ∈ livePages s2) ↔ (p ∈ s.pool.frees.flatten ∨ p ∈ livePages s)) ∧
      (∀ all, lostPages all s2 = lostPages all s) ∧
      old ∈ s2.pool.frees.flatten ∧ new ∈ livePages s2 := by
  obtain ⟨o1, o2, o3, o4, ⟨d, o5⟩, o6⟩ := prepareMigration_old hW hv h
  obtain ⟨hP1, hM1, f1, _, _⟩ := prepareMigration_w hW.phys hW.mw hg h
  obtain ⟨c1, k1⟩ := prepareMigration_cons h
  have hW1 : WInv s1 := hW.of_frame f1 hP1 hM1
  obtain ⟨s2, hrel⟩ : ∃ s2, releasePage s1 old = .ok s2 := by
    unfold releasePage; rw [f1.devs, o5]; exact ⟨_, rfl⟩
  obtain ⟨w2, e1, e2, e3, e4, e5⟩ := releasePage_lost hW1 o2 o3 (by rw [f1.ps]; exact o4) hrel
  have hc := c1.cons.count
  rw [k1] at hc
  have hl := e5.length_eq
  rw [List.length_cons] at hl
  have hsub : ∀ p, (p ∈ s2.pool.frees.flatten ∨ p ∈ livePages s2) → (p ∈ s.pool.frees.flatten ∨ p ∈ livePages s) := by
    intro p hp
    rcases hp with hp | hp
    · rcases List.mem_cons.mp (e5.mem_iff.mp hp) with rfl | hp'
      · exact Or.inr o1
      · exact c1.cons.sub p (Or.inl hp')
    · have hp1 : p ∈ livePages s1 := by unfold livePages at hp ⊢; rw [e1] at hp; exact hp
      exact c1.cons.sub p (Or.inr hp1)
  have hiff : ∀ p, (p ∈ s2.pool.frees.flatten ∨ p ∈ livePages s2) ↔ (p ∈ s.pool.frees.flatten ∨ p ∈ livePages s) := by
    -- equal as sets: duplicate-free, contained, same length
    have hnd2 : (s2.pool.frees.flatten ++ livePages s2).Nodup := by
      rw [List.nodup_append]
      exact ⟨w2.phys.freeNodup, w2.phys.liveNodup, fun a ha b hb e => w2.phys.disj a ha (e ▸ hb)⟩
    have hnd : (s.pool.frees.flatten ++ livePages s).Nodup := by
      rw [List.nodup_append]
      exact ⟨hW.phys.freeNodup, hW.phys.liveNodup, fun a ha b hb e => hW.phys.disj a ha (e ▸ hb)⟩
    have hlen : (s2.pool.frees.flatten ++ livePages s2).length = (s.pool.frees.flatten ++ livePages s).length := by
      simp only [List.length_append, livePages, List.length_map]
      rw [hl, e1]
      omega
    obtain ⟨hperm, _⟩ := perm_of_nodup_subset_length hnd hnd2
      (fun p hp => by
        rcases List.mem_append.mp hp with h1 | h1
        · exact List.mem_append.mpr (hsub p (Or.inl h1))
        · exact List.mem_append.mpr (hsub p (Or.inr h1))) hlen
    intro p
    have := hperm.mem_iff (a := p)
    simp only [List.mem_append] at this
    exact this
  refine ⟨s2, hrel, ?_, w2, ?_, ?_, hiff, ?_, ?_, ?_⟩
  · unfold migrateComplete; rw [h]; simp only []; rw [hrel]
  · rw [e4, k1]; omega
  · rw [hl, e1]; omega
  · intro all
    rw [lostPages_eq, lostPages_eq]
    apply List.filter_congr
    intro p _
    have h1 := hiff p
    have : (s2.pool.frees.flatten ++ livePages s2).contains p = (s.pool.frees.flatten ++ livePages s).contains p := by
      rw [Bool.eq_iff_iff]
      simp only [List.contains_iff_mem, List.mem_append]
      exact h1
    rw [this]
  · exact e5.mem_iff.mpr (List.mem_cons_self ..)
  · unfold livePages at o6 ⊢; rw [e1]; exact o6

/-! ## the history of the former finding -/

/-- `n` completed migrations of page `v` of process `pid`, to and fro between GPU index `g` and the other one -/
def migRounds (pid v : Nat) : Nat → Nat → State → Except Fault State
  | 0, _, s => .ok s
  | n + 1, g, s =>
    match migrateComplete s pid v g with
    | .error e => .error e
    | .ok (_, s') => migRounds pid v n (1 - g) s'

/-- the same before the repair: `preparePageForMigration` only, nothing gives the replaced page back -/
def migRoundsOld (pid v : Nat) : Nat → Nat → State → Except Fault State
  | 0, _, s => .ok s
  | n + 1, g, s =>
    match prepareMigration s pid v g with
    | .error e => .error e
    | .ok (_, s') => migRoundsOld pid v n (1 - g) s'

/-- **migration_to_and_fro.** Two GPUs of two pages, one process, a one-page buffer on GPU 1 (virtual 0x1000),
migrated to GPU 2, back, and so on — eight completed migrations: none fails, one page is mapped, three are free on
the GPUs, no page is lost and the ghost counter is 0. -/
theorem migration_to_and_fro :
    (match run (initState 4096 4096 [8192, 8192]) [.init, .alloc 0 100] with
     | .ok s =>
       (match migRounds 1 4096 8 1 s with
        | .ok s' => s'.pt.length == 1 && lostPages (allPages 4096 4096 [8192, 8192]) s' == [] && s'.leaked == 0 &&
                    s'.pool.frees.flatten.length == 4
        | .error _ => false)
     | .error _ => false) = true := by decide

/-- **The same history before the repair** (the former finding `C10-migration-keeps-replaced-page`): every
migration keeps the page it replaces; the fourth finds its target GPU exhausted — out of memory with ONE page
mapped — and after three migrations three of the five pages are lost. -/
theorem migration_to_and_fro_before_fix :
    (match run (initState 4096 4096 [8192, 8192]) [.init, .alloc 0 100] with
     | .ok s =>
       (match migRoundsOld 1 4096 4 1 s with | .error .oom => true | _ => false) &&
       (match migRoundsOld 1 4096 3 1 s with
        | .ok s' => s'.pt.length == 1 && (lostPages (allPages 4096 4096 [8192, 8192]) s').length == 3 && s'.leaked == 3
        | .error _ => false)
     | .error _ => false) = true := by decide

/-- `migration_complete_conserves` applies to the first migration of that history: all hypotheses hold together -/
example : ∀ s, run (initState 4096 4096 [8192, 8192]) [.init, .alloc 0 100] = .ok s →
    ∀ new old s1, prepareMigration s 1 4096 1 = .ok ((new, old), s1) →
    ∃ s2, migrateComplete s 1 4096 1 = .ok ((new, old), s2) ∧ s2.leaked = s.leaked ∧
      lostPages (allPages 4096 4096 [8192, 8192]) s2 = lostPages (allPages 4096 4096 [8192, 8192]) s := by
  intro s hr new old s1 h
  have hcfg : Cfg 4096 4096 [8192, 8192] := ⟨by decide, ⟨1, rfl⟩, by
    intro g hg; simp at hg; subst hg; exact ⟨2, rfl⟩⟩
  obtain ⟨hW0, hG0, _⟩ := init_all hcfg
  obtain ⟨hW, hG⟩ := run_w (n := 2) _ _ s hW0 hG0 (by intro op hop; simp at hop; rcases hop with rfl | rfl <;> trivial) hr
  have hps : s.ps = 4096 := by
    obtain ⟨x, hx1, hx2⟩ : ∃ x, run (initState 4096 4096 [8192, 8192]) [.init, .alloc 0 100] = .ok x ∧ x.ps = 4096 :=
      ⟨_, rfl, rfl⟩
    rw [hx1] at hr
    injection hr with hr
    subst hr
    exact hx2
  obtain ⟨s2, _, hm, _, hk, _, _, hlost, _, _⟩ := migration_complete_conserves hW
    (by
      intro dv hdv
      obtain ⟨dv', hdv', hk⟩ := hG 1 (by decide)
      rw [hdv] at hdv'; injection hdv' with e; subst e; rw [hk]; decide)
    (by rw [hps]) h
  exact ⟨s2, hm, hk, hlost _⟩

/-! ## whole histories in which every migration is completed -/

/-- no driver operation changes the page size -/
theorem step_ps {s s' : State} {op : Op} {r : Res} (hW : WInv s) (h : step s op = .ok (r, s')) : s'.ps = s.ps := by
  cases op with
  | init => rw [step_init h]
  | initpid c => obtain ⟨cx, _, rfl⟩ := step_initpid h; rfl
  | sel c g => obtain ⟨cx, _, rfl⟩ := step_sel h; rfl
  | unify c ids => rw [step_unify h]; rfl
  | alloc c bytes =>
    obtain ⟨cx, v, s1, _, h1, rfl, _⟩ := step_alloc h
    obtain ⟨_, h1⟩ := allocate_ok h1
    exact (allocatePages_ext hW.mw h1).2.1
  | allocu c bytes =>
    obtain ⟨cx, v, s1, _, h1, rfl, _⟩ := step_allocu h
    obtain ⟨_, h1⟩ := allocateUnified_ok h1
    exact (allocatePages_ext hW.mw h1).2.1
  | free c ptr =>
    obtain ⟨cx, s1, _, h1, rfl⟩ := step_free h
    exact (free_w hW.phys hW.mw h1).2.2.1
  | remap c addr bytes d => obtain ⟨cx, _, h1⟩ := step_remap h; exact (remap_ext hW.mw h1).2.1.ps
  | dist c addr bytes ids => obtain ⟨cx, bs, _, h1⟩ := step_dist h; exact (distribute_ext hW.mw h1).2.1.ps
  | mig c v g =>
    obtain ⟨cx, no, _, h1⟩ := step_mig h
    unfold prepareMigration at h1
    split at h1
    · simp at h1
    · split at h1
      · simp at h1
      · rename_i pg sA hA
        dsimp only at h1
        split at h1
        · simp at h1
        · injection h1 with h1
          obtain ⟨_, rfl⟩ := Prod.mk.inj h1
          exact (allocGiven_ext hW.mw hA).2.1.ps
  | rmpage v => exact (removePage_w hW.phys hW.mw (step_rmpage h)).2.2.1.ps
  | apg c d v u => obtain ⟨cx, pg, _, h1⟩ := step_apg h; exact (allocGiven_ext hW.mw h1).2.1.ps
  | rfb c => obtain ⟨cx, _, rfl⟩ := step_rfb h; rfl

/-- one operation of a history in which every migration is carried through: `.mig` is `preparePageForMigration`
followed — when the page migration controller is done — by `ReleasePhysicalPage` of the old page -/
def stepC (s : State) (op : Op) : Except Fault (Res × State) :=
  match step s op with
  | .error e => .error e
  | .ok (r, s1) =>
    match op, r with
    | .mig _ _ _, .mig _ o =>
      match releasePage s1 o with
      | .error e => .error e
      | .ok s2 => .ok (r, s2)
    | _, _ => .ok (r, s1)

def runC : State → List Op → Except Fault State
  | s, [] => .ok s
  | s, op :: ops =>
    match stepC s op with
    | .error e => .error e
    | .ok (_, s') => runC s' ops

/-- every operation of the history completes what it starts: no raw `AllocatePageWithGivenVAddr` (which keeps the
page it replaces without anybody releasing it), migrations target a real GPU and name a page-aligned address -/
def Op.completeOK (n ps : Nat) : Op → Prop
  | .mig _ v g => g < n ∧ v / ps * ps = v
  | .apg _ _ _ _ => False
  | _ => True

theorem stepC_of_not_mig {s : State} {op : Op} (h : ∀ c v g, op ≠ .mig c v g) : stepC s op = step s op := by
  unfold stepC
  cases hs : step s op with
  | error e => rfl
  | ok x =>
    obtain ⟨r, s1⟩ := x
    cases op <;> first | rfl | exact absurd rfl (h _ _ _)

theorem stepC_mig {s s2 : State} {c v g : Nat} {r : Res} (h : stepC s (.mig c v g) = .ok (r, s2)) :
    ∃ cx new old s1, s.ctxs[c]? = some cx ∧ step s (.mig c v g) = .ok (.mig new old, s1) ∧
      prepareMigration s cx.pid v g = .ok ((new, old), s1) ∧ releasePage s1 old = .ok s2 := by
  unfold stepC at h
  cases hs : step s (.mig c v g) with
  | error e => rw [hs] at h; simp at h
  | ok x =>
    obtain ⟨r1, s1⟩ := x
    rw [hs] at h
    have hs' := hs
    simp only [step] at hs'
    split at hs'
    · simp at hs'
    · rename_i cx hc
      split at hs'
      · simp at hs'
      · rename_i n o sA h1
        injection hs' with hs'
        obtain ⟨rfl, rfl⟩ := Prod.mk.inj hs'
        simp only at h
        split at h
        · simp at h
        · rename_i s2' hr
          injection h with h
          obtain ⟨_, rfl⟩ := Prod.mk.inj h
          exact ⟨cx, n, o, _, hc, rfl, h1, hr⟩

/-- what a history of completed operations keeps, step by step -/
structure CInv (n ps : Nat) (s0 s : State) : Prop where
  w : WInv s
  g : GpuOK n s
  one : OneProc s
  mirror : MirrorOK s
  cons : Cons 0 s0 s
  psEq : s.ps = ps

theorem stepC_cinv {n ps : Nat} {s0 s s' : State} {op : Op} {r : Res} (I : CInv n ps s0 s) (hok : op.completeOK n ps)
    (hi : op.isInit = true → s.npid = 0) (h : stepC s op = .ok (r, s')) :
    CInv n ps s0 s' ∧ s'.npid = s.npid + (if op.isInit then 1 else 0) := by
  by_cases hm : ∃ c v g, op = .mig c v g
  · obtain ⟨c, v, g, rfl⟩ := hm
    obtain ⟨hg, hv⟩ := hok
    obtain ⟨cx, new, old, s1, hc, hst, hp, hr⟩ := stepC_mig h
    have hmo : MigOK n (.mig c v g) := hg
    obtain ⟨w1, g1⟩ := step_w I.w I.g hmo hst
    obtain ⟨o1, m1, n1⟩ := step_one I.w I.g hmo I.one I.mirror hi hst
    have hgk : ∀ dv, s.devs[g + 1]? = some dv → dv.kind ≠ .unified := by
      intro dv hdv
      obtain ⟨dv', hdv', hk⟩ := I.g g hg
      rw [hdv] at hdv'; injection hdv' with e; subst e; rw [hk]; decide
    obtain ⟨s2, hr2, _, w2, k2, cnt2, iff2, _, _, _⟩ := migration_complete_conserves I.w hgk (by rw [I.psEq]; exact hv) hp
    rw [hr] at hr2
    injection hr2 with hr2
    subst hr2
    obtain ⟨d, _, hs2⟩ := releasePage_ok hr
    have hps1 : s1.ps = s.ps := step_ps I.w hst
    refine ⟨⟨w2, ?_, ?_, ?_, ?_, ?_⟩, ?_⟩
    · subst hs2; exact g1
    · subst hs2; exact ⟨o1.ctxPid, o1.single, o1.fresh⟩
    · subst hs2; exact ⟨m1.1, m1.2⟩
    · have c2 : Cons 0 s s' := ⟨fun p hp' => (iff2 p).mp hp', by rw [Nat.add_zero]; exact cnt2⟩
      exact (I.cons.trans c2).cast (by omega)
    · subst hs2; show s1.ps = ps; rw [hps1]; exact I.psEq
    · subst hs2; exact n1
  · have hne : ∀ c v g, op ≠ .mig c v g := fun c v g e => hm ⟨c, v, g, e⟩
    rw [stepC_of_not_mig hne] at h
    have hk : op.keepsPages = true := by
      cases op <;> first | rfl | exact absurd rfl (hne _ _ _) | exact absurd hok (by simp [Op.completeOK])
    have hmo : MigOK n op := migOK_of_keepsPages hk
    obtain ⟨w1, g1⟩ := step_w I.w I.g hmo h
    obtain ⟨o1, m1, n1⟩ := step_one I.w I.g hmo I.one I.mirror hi h
    have hl := step_noleak I.mirror hk h
    have c1 : Cons 0 s s' := (step_cons I.w h).cons.cast (by omega)
    exact ⟨⟨w1, g1, o1, m1, (I.cons.trans c1).cast (by omega), (step_ps I.w h).trans I.psEq⟩, n1⟩

theorem runC_cinv {n ps : Nat} {s0 : State} : ∀ (ops : List Op) (s s' : State), CInv n ps s0 s →
    (∀ op ∈ ops, op.completeOK n ps) → s.npid + inits ops ≤ 1 → runC s ops = .ok s' → CInv n ps s0 s' := by
  intro ops
  induction ops with
  | nil => intro s s' I _ _ h; simp [runC] at h; subst h; exact I
  | cons op ops ih =>
    intro s s' I hok hb h
    simp only [runC] at h
    split at h
    · simp at h
    · rename_i r s1 h1
      have hb' : s.npid + ((if op.isInit then 1 else 0) + inits ops) ≤ 1 := by
        unfold inits at hb ⊢
        rw [List.filter_cons] at hb
        split at hb
        · rename_i hi; simp only [hi, if_true]; simp only [List.length_cons] at hb; omega
        · rename_i hi; simp only [hi]; simpa using hb
      have hi : op.isInit = true → s.npid = 0 := by
        intro hi; simp only [hi, if_true] at hb'; omega
      obtain ⟨I1, e⟩ := stepC_cinv I (hok op (List.mem_cons_self ..)) hi h1
      exact ih s1 s' I1 (fun o ho => hok o (List.mem_cons_of_mem _ ho)) (by rw [e]; omega) h

/-- **conservation_full_with_migration — conservation INCLUDING page migration, over whole histories.** After
every history of a single process that uses every driver operation — Allocate, AllocateUnified, Free, RemovePage,
Remap, Distribute, CreateUnifiedGPU, … AND page migration, each migration carried through (`runC`:
`preparePageForMigration`, then `ReleasePhysicalPage` of the old page; real target GPU, page-aligned address), only
the raw `AllocatePageWithGivenVAddr` excluded —, for every device configuration: the free lists and the mapped
pages PARTITION the physical pages of the devices, and no page is lost. (The statement that was false for
migration before the repair: `conservation_migration_keeps_replaced_page`, `migration_to_and_fro_before_fix`.) -/
theorem conservation_full_with_migration {ps cpu : Nat} {gpus : List Nat} {ops : List Op} {s' : State}
    (h : Cfg ps cpu gpus) (hs : SingleProc ops) (hok : ∀ op ∈ ops, op.completeOK gpus.length ps)
    (hr : runC (initState ps cpu gpus) ops = .ok s') :
    (s'.pool.frees.flatten ++ livePages s').Perm (allPages ps cpu gpus) ∧
    lostPages (allPages ps cpu gpus) s' = [] := by
  obtain ⟨hW, hG, hO, hM, _, _, hn, hps⟩ := init_all h
  have hb : (initState ps cpu gpus).npid + inits ops ≤ 1 := by
    unfold SingleProc at hs; rw [hn]; omega
  have I := runC_cinv ops _ s' ⟨hW, hG, hO, hM, Cons.refl _, hps⟩ hok hb hr
  obtain ⟨hnd, hsub, hcount, _⟩ := cons_from_init h I.cons I.w.phys
  have hall : (allPages ps cpu gpus).Nodup := hW.phys.freeNodup
  have hlen : (s'.pool.frees.flatten ++ livePages s').length = (allPages ps cpu gpus).length := by
    rw [List.length_append]
    simp only [livePages, List.length_map]
    omega
  obtain ⟨a, b⟩ := perm_of_nodup_subset_length hall hnd hsub hlen
  exact ⟨a, by rw [lostPages_eq]; exact b⟩

/-- the history of the former finding as a history of completed operations: eight migrations to and fro -/
def toAndFroOps : List Op :=
  [.init, .alloc 0 100, .mig 0 4096 1, .mig 0 4096 0, .mig 0 4096 1, .mig 0 4096 0, .mig 0 4096 1, .mig 0 4096 0,
   .mig 0 4096 1, .mig 0 4096 0, .remap 0 4096 4096 1, .free 0 4096]

example : (match runC (initState 4096 4096 [8192, 8192]) toAndFroOps with
     | .ok s => s.pt.length == 0 && s.pool.frees.flatten.length == 5 && s.leaked == 0
     | .error _ => false) = true := by decide

/-- `conservation_full_with_migration` applies to it: nothing is lost -/
example : ∀ s', runC (initState 4096 4096 [8192, 8192]) toAndFroOps = .ok s' →
    lostPages (allPages 4096 4096 [8192, 8192]) s' = [] := by
  intro s' hr
  refine (conservation_full_with_migration (gpus := [8192, 8192]) ⟨by decide, ⟨1, rfl⟩, ?_⟩
    (by unfold SingleProc; decide) ?_ hr).2
  · intro g hg; simp at hg; subst hg; exact ⟨2, rfl⟩
  · intro op hop
    simp only [toAndFroOps, List.mem_cons, List.mem_nil_iff, or_false] at hop
    rcases hop with rfl | rfl | rfl | rfl | rfl | rfl | rfl | rfl | rfl | rfl | rfl | rfl <;>
      first | trivial | exact ⟨by decide, by decide⟩

end C10
