import MgpuProofs.C15CuProj
import MgpuProofs.C15CuIds
/-! # C15 ∘ C14 — requests dropped by the ROB at a flush / restart are re-sent: exactly once across a
flush / restart of both components

The reorder buffer drops, without any answer, the transactions it holds when it processes
`DiscardTransactions`, the responses waiting in its Top port while it is flushing and the requests
that wait *unaccepted* in its Top port when it processes `Restart` (`c15.dropped-at-restart`). Whether
that violates "exactly once" for the requester cannot be decided on the ROB alone. `C15.Cu`
(`MgpuModel/C15_Cu.lean`) composes the ROB (closed system `C15.Sys`) with the requester of the shipped
platforms, the compute unit's flush / restart machinery as modelled by property C14
(`C14.Flush.St`), under the command processor's order (flush CU → ack → discard ROB → ack → restart
ROB → ack → restart CU; `Gen.C15Rob.cpDiscard / cpRestart / cpCuRestart`). The composition is tied to
the REAL compute unit connected to the REAL ROB by the `c15 cu` cases (harness/c15_cu.go). -/
namespace C15.Cu

/-- **Both component models apply to every composed run**: the compute-unit part is a run of C14's
    model, the ROB part with its lower memory is a run of C15's closed system — every theorem of
    `Props/C14Flush.lean` stated for all runs and every theorem of `Props/C15*.lean` about `sysRun`
    holds of the composition. -/
theorem composition_is_two_runs (c : Cfg) (evs : List CEv) :
    (crun c evs).cu = C14.Flush.run c.cu C14.Flush.St.init (cuOps c {} evs) ∧
    (crun c evs).sys = sysRun c.rob (robEvs c {} evs) :=
  ⟨comp_cu_is_run c evs, comp_rob_is_sysRun c evs⟩

example : (cuOps demoCfg {} roundEvs).length = 12 ∧ (robEvs demoCfg {} roundEvs).length = 8 := by decide

/-- **No record is ever answered twice — for EVERY composed event list** (no protocol, no legality,
    any capacities, the ROB / memory / connection doing anything, responses under stale or never-sent
    IDs included): on the scalar path the ids of the answered records, of the records in flight and
    of the saved records never repeat, so a record whose answer the compute unit accepted is gone
    from both lists and can not accept a second one; both wait counters stay exact. -/
theorem cu_never_applies_twice (c : Cfg) (evs : List CEv) (w : Nat) :
    let ch := (crun c evs).cu.s
    (ch.applied ++ C14.Flush.ids (ch.inf ++ ch.sh)).Nodup ∧
    (crun c evs).cu.lgkm w =
      (C14.Flush.cnt ((crun c evs).cu.v.inf ++ (crun c evs).cu.v.sh) w : Int) +
      (C14.Flush.cnt ((crun c evs).cu.s.inf ++ (crun c evs).cu.s.sh) w : Int) :=
  ⟨(crun_IdsOK c evs).2.1.1, (comp_counters_exact c evs w).2⟩

/-- the round of `roundEvs`, then the re-sent request travels through the ROB and is answered -/
def answeredEvs : List CEv :=
  roundEvs ++ [.xfer, .rob .tick, .rob .memTake, .rob (.memAnswer 0 (.data [])), .rob .tick, .rob .tick, .back,
    .cu .tick]

example : (crun demoCfg answeredEvs).cu.s.applied = [0] ∧ (crun demoCfg answeredEvs).cu.s.inf = [] ∧
    (crun demoCfg answeredEvs).cu.s.sh = [] ∧ (crun demoCfg answeredEvs).cu.lgkm 0 = 0 ∧
    (crun demoCfg answeredEvs).sys.rob.discarded = [0] ∧
    (crun demoCfg answeredEvs).sys.rob.delivered.map (·.rspTo) = [1] := by decide

/-- **Under the command processor's protocol the compute unit of the composition satisfies C14's
    invariant and `resent_exactly_once`** (what the last flush saved = what was re-sent followed by
    what still waits; no request ID twice on the port; every in-flight record has its current
    request queued or sent; every record created is answered or in exactly one list) — provided every
    response the ROB builds names a request ID the compute unit really sent (`SentNames`, C14's
    environment contract; see `unsent_name_witness`). -/
theorem cu_resends_exactly_once_in_composition (c : Cfg) (evs : List CEv) (hl : legalRunB c {} evs = true)
    (hs : SentNames c evs) (hcap : 0 < c.cu.capCP) :
    C14.Flush.Inv (crun c evs).cu ∧
    (let ch := (crun c evs).cu.s
     ch.resent ++ C14.Flush.ids ch.sh = ch.flushed ∧ ch.flushed.Nodup ∧ ch.sent.Nodup ∧
     (∀ e ∈ ch.inf, e.id ∈ ch.unit ∨ (e.id, e.gen) ∈ ch.sent) ∧
     (ch.applied ++ C14.Flush.ids (ch.inf ++ ch.sh)).Perm ch.issued ∧ ch.issued.Nodup) :=
  ⟨comp_cu_inv c evs hl hs hcap, comp_scalar_resent_exactly_once c evs hl hs hcap⟩

example : (crun demoCfg roundEvs).cu.s.flushed = [0] ∧ (crun demoCfg roundEvs).cu.s.resent = [0] := by decide

/-- **The ROB only throws away what the compute unit has saved.** In every legal composed run
    (with `SentNames`): whenever the ROB holds an unprocessed control message, is flushing, or the
    command processor's round towards it is open — i.e. at every moment at which it discards
    transactions, drops the requests waiting unaccepted in its Top port (`c15.dropped-at-restart`) or
    the responses waiting in its Top port — the compute unit is paused, not re-sending, has no request
    queued, its in-flight list is empty, and every scalar record ever issued is either answered or
    in the shadow list, from which `checkShadowBuffers` re-sends it after the restart
    (`C14.Flush.resend_complete`). So the silent drop does not violate "exactly once" for the
    requester: the requester itself has withdrawn those requests. -/
theorem rob_discards_only_what_the_cu_saved (c : Cfg) (evs : List CEv) (hl : legalRunB c {} evs = true)
    (hs : SentNames c evs) (hcap : 0 < c.cu.capCP) :
    let σ := crun c evs
    (σ.robPh ≠ 0 ∨ σ.sys.rob.ctlIn ≠ [] ∨ σ.sys.rob.flushing = true) →
      σ.cu.isPaused = true ∧ σ.cu.isSending = false ∧ σ.cu.s.inf = [] ∧ σ.cu.s.unit = [] ∧
      ∀ i ∈ σ.cu.s.issued, i ∈ σ.cu.s.applied ∨ i ∈ C14.Flush.ids σ.cu.s.sh := by
  intro σ h
  obtain ⟨h1, h2, h3, h4⟩ := rob_discards_only_saved_requests c evs hl hs hcap h
  refine ⟨h1, h2, h3, h4, ?_⟩
  intro i hi
  have hp := (comp_scalar_resent_exactly_once c evs hl hs hcap).2.2.2.2.1
  have : i ∈ (crun c evs).cu.s.applied ++ C14.Flush.ids ((crun c evs).cu.s.inf ++ (crun c evs).cu.s.sh) :=
    hp.symm.subset hi
  have h3' : (crun c evs).cu.s.inf = [] := h3
  rw [h3', List.nil_append] at this
  exact List.mem_append.1 this

example : (crun demoCfg (roundEvs.take 10)).sys.rob.flushing = true ∧
    (crun demoCfg (roundEvs.take 10)).sys.rob.discarded = [0] ∧
    (crun demoCfg (roundEvs.take 10)).cu.s.issued = [0] ∧
    C14.Flush.ids (crun demoCfg (roundEvs.take 10)).cu.s.sh = [0] := by decide

/-- **The round as the command processor sees it** (every legal composed run, any Control-port
    capacities): the phase determines the ROB's Control port and flushing flag; the round is open
    only while the compute unit's flush is acknowledged and its restart not yet requested. -/
theorem protocol_round (c : Cfg) (evs : List CEv) (hl : legalRunB c {} evs = true) :
    let σ := crun c evs
    (σ.robPh = 0 → σ.sys.rob.ctlIn = [] ∧ σ.sys.rob.ctlOut = 0 ∧ σ.sys.rob.flushing = false) ∧
    (σ.robPh = 2 → σ.sys.rob.ctlIn = [] ∧ σ.sys.rob.ctlOut = 0 ∧ σ.sys.rob.flushing = true) ∧
    (σ.robPh = 4 → σ.sys.rob.ctlIn = [] ∧ σ.sys.rob.ctlOut = 0 ∧ σ.sys.rob.flushing = false) ∧
    (σ.robPh ≠ 0 → σ.cu.cp = .acked) ∧ σ.robPh ≤ 4 ∧ σ.sys.rob.ctlIn.length + σ.sys.rob.ctlOut ≤ 1 :=
  rob_round c evs hl

example : (crun demoCfg (roundEvs.take 12)).robPh = 3 := by decide

/-- a compute unit whose scalar port holds one message -/
def witCfg : Cfg :=
  { rob := { cap := 2, width := 1, topInCap := 2, topOutCap := 2, botInCap := 2, botOutCap := 2, ctlInCap := 1,
             ctlOutCap := 1, bottomUnit := true },
    cu := { capS := 1 } }

/-- two loads; the request of the first sits in the port when the flush comes; round; the re-send of
    record 0 is refused by the full port (its ID is already regenerated: generation 1); the old copy
    reaches the restarted ROB, is served and the response is built under the ID of generation 1 -/
def witEvs : List CEv :=
  [.cu (.issS 0 1), .cu (.issS 0 1), .cu .usendS, .cu .cpFlush, .cu .tick, .cu .tick, .cu (.take .c 1),
   .rob (.ctl ⟨true, false⟩), .rob .tick, .rob .takeAck, .rob (.ctl ⟨false, true⟩), .rob .tick, .rob .takeAck,
   .cu .cpRestart, .cu .tick, .xfer, .rob .tick, .rob .memTake, .rob (.memAnswer 0 (.data [])), .rob .tick, .rob .tick,
   .back, .cu .tick, .cu .tick]

/-- **`SentNames` can fail in a legal run** (so it is a genuine hypothesis of the two theorems
    above, which reuse C14's invariant): the response names request ID (0, 1), the compute unit has
    only ever sent (0, 0). The compute unit drops that response (the record is in the shadow list),
    re-sends the record as (0, 2) and nothing is answered twice — `cu_never_applies_twice` needs no
    such hypothesis. The same happens on the real components (`c15.cu:answer-names-unsent-id`). -/
theorem unsent_name_witness :
    legalRunB witCfg {} witEvs = true ∧ ¬ SentNames witCfg witEvs ∧
    (crun witCfg (witEvs.take 21)).named = [(0, (0, 1))] ∧ (crun witCfg (witEvs.take 21)).cu.s.sent = [(0, 0)] ∧
    (crun witCfg (witEvs.take 22)).cu.s.inp = [(0, 1)] ∧
    (crun witCfg witEvs).cu.s.applied = [] ∧ (crun witCfg witEvs).cu.s.sent = [(0, 0), (0, 2)] := by
  refine ⟨by decide, ?_, by decide, by decide, by decide, by decide, by decide⟩
  intro h
  have := h 21 (0, (0, 1)) (by decide)
  revert this
  decide

end C15.Cu
