import MgpuModel.C11Cp
import MgpuProofs.C11CpLive
/-! # C11 — the command processor's copy / flush path: liveness (property theorems)

`Props/C11Cp.lean` proves safety of the tick-exact model of `cp.CommandProcessor` (`MgpuModel/C11Cp.lean`)
and "quiet ⇒ every accepted request was answered exactly once". This file proves that the quiet state
IS reached: from every reachable state `reachCp n cin cdrv cdma ccache ops` (arbitrary number of caches,
arbitrary capacities, arbitrary history of environment moves), under EVERY fair schedule of the
environment (`CpFair`: the CP ticks, the DMA side / the caches / the driver take messages, caches
acknowledge and the DMA engine answers — each again and again, in any interleaving, any outstanding
acknowledgement / answer chosen, any amount of temporary back-pressure), every flush / H2D / D2H request
the driver port accepted is eventually answered.

The argument is a measure (`cpMeasure`, the remaining work of every message in flight: a copy
6 → 5 → 4 → 3 → 1 → 0 on its way driver port → ToDMA → DMA engine → DMA answer → ToDriver → driver; a
flush 4n+2 → n cache requests of 4 → 3 → 2 each → ToDriver 1 → 0) that every move either leaves alone —
and then the move changed NOTHING — or decreases, plus absence of deadlock: a reachable state in which
no move changes anything is quiet. -/
namespace C11

/-- flush, H2D copy and D2H copy waiting in the driver port, three caches, roomy buffers -/
def liveDemo : CpEnv := reachCp 3 8 8 8 8 [.req .flush, .req .h2d, .req .d2h]

/-- back-pressure everywhere: two caches, driver port of two entries, ToDriver and ToDMA of ONE entry,
    ToCaches of two; the flush was taken by a tick before the second copy arrived -/
def liveTight : CpEnv := reachCp 2 2 1 1 2 [.req .flush, .req .h2d, .tick, .req .d2h]

/-- **Every move other than a new request leaves the state untouched or decreases the measure.** For
    every configuration in which ToCaches can hold one flush request per cache (`n ≤ ccache`, the
    condition of `cp_no_fault`), every reachable state and every move `op` — a tick (both passes,
    `processFlushReq` / `processMemCopyReq` / `processMemCopyRsp` / `processCacheFlushRsp`), the DMA side /
    the caches / the driver taking `k` messages, an acknowledgement, a DMA answer —: either the whole
    state (CP, buffers, environment, ghost log) is exactly as before, or `cpMeasure` is strictly
    smaller. In particular a tick that reports progress, or merely touches the log, has made real
    progress: the CP cannot spin. -/
theorem cp_measure_decreases (n cin cdrv cdma ccache : Nat) (ops : List CpOp) (h4 : n ≤ ccache)
    (op : CpOp) (hop : ∀ k, op ≠ .req k) :
    let e := reachCp n cin cdrv cdma ccache ops
    (e.step op).1 = e ∨ cpMeasure (e.step op).1 < cpMeasure e :=
  step_prog (reach_good n cin cdrv cdma ccache ops h4) op hop

/-- the measure along the first moves of `liveDemo`: a tick takes the flush (14 → three cache requests of
    4); a second tick changes nothing at all (the copies wait behind the flush); the caches take two
    requests and acknowledge one (2·4 → 3 + 2); after all acknowledgements two ticks answer the flush
    and forward the first copy -/
example : cpMeasure liveDemo = 26 ∧ cpMeasure (liveDemo.run [.tick]) = 24 ∧
    ((liveDemo.run [.tick]).step .tick).1 = liveDemo.run [.tick] ∧
    cpMeasure (liveDemo.run [.tick, .takeCache 2, .ack 1]) = 21 ∧
    cpMeasure (liveDemo.run [.tick, .takeCache 3, .ack 1, .ack 0, .ack 0, .tick, .tick]) = 12 := by decide +kernel

/-- **The number of productive moves is bounded.** In any finite run of moves other than new requests
    from a reachable state, the number of moves that change the state (`cpProductive`) is at most the
    measure of the start — at most `4n+2` per waiting flush, 6 per waiting copy, less for messages
    further on their way: whatever the environment does, after that many state changes everything is
    answered or the system waits for the environment. -/
theorem cp_productive_moves_bounded (n cin cdrv cdma ccache : Nat) (ops : List CpOp) (h4 : n ≤ ccache)
    (l : List CpOp) (hl : ∀ op ∈ l, ∀ k, op ≠ .req k) :
    cpProductive (reachCp n cin cdrv cdma ccache ops) l ≤ cpMeasure (reachCp n cin cdrv cdma ccache ops) :=
  productive_le_measure l hl (reach_good n cin cdrv cdma ccache ops h4)

/-- 80 moves of the round-robin schedule: 19 of them change the state (measure 26), under back-pressure 15 of
    100 (measure 20) -/
example : cpProductive liveDemo ((List.range 80).map cpRoundRobin) = 19 ∧
    cpProductive liveTight ((List.range 100).map cpRoundRobin) = 15 ∧ cpMeasure liveTight = 20 := by
  decide +kernel

/-- **No deadlock.** ToDriver and ToDMA have room for at least one message (`1 ≤ cdrv`, `1 ≤ cdma`) and
    ToCaches for one flush request per cache (`n ≤ ccache`). If in a reachable state none of the six
    kinds of move changes anything — a tick; the DMA side, the caches, the driver trying to take a
    message; a cache trying to acknowledge; the DMA engine trying to answer — then nothing is in
    flight anywhere (`quiet`), the CP has not faulted, and the answers the driver has taken are a
    permutation of the requests the driver port accepted: every request was answered exactly once. No
    request can be stuck in the driver port behind a flush, no DMA answer or cache acknowledgement
    can wait for room that never comes, `numCacheACK` cannot be left positive. -/
theorem cp_no_deadlock (n cin cdrv cdma ccache : Nat) (ops : List CpOp) (h2 : 1 ≤ cdrv) (h3 : 1 ≤ cdma)
    (h4 : n ≤ ccache) :
    let e := reachCp n cin cdrv cdma ccache ops
    (e.step .tick).1 = e → (e.step (.takeDma 1)).1 = e → (e.step (.takeCache 1)).1 = e →
    (e.step (.takeDrv 1)).1 = e → (e.step (.ack 0)).1 = e → (e.step (.rsp 0)).1 = e →
    e.quiet ∧ e.s.fault = none ∧ e.drained.Perm e.sent := by
  intro e n1 n2 n3 n4 n5 n6
  have hq := reach_no_deadlock n cin cdrv cdma ccache ops h2 h3 h4 e rfl n1 n2 n3 n4 n5 n6
  exact ⟨hq, reach_quiet_perm n cin cdrv cdma ccache ops h4 hq⟩

/-- the six no-op hypotheses hold together in a state with history (after 34 round-robin moves all three
    requests are answered), and in a state with work left at least one of them fails -/
example :
    let e := cpRunSched liveDemo cpRoundRobin 34
    ((e.step .tick).1 = e ∧ (e.step (.takeDma 1)).1 = e ∧ (e.step (.takeCache 1)).1 = e ∧
     (e.step (.takeDrv 1)).1 = e ∧ (e.step (.ack 0)).1 = e ∧ (e.step (.rsp 0)).1 = e) ∧
    e.sent.length = 3 ∧ (liveDemo.step .tick).1 ≠ liveDemo := by decide +kernel

/-- **A quiet state stays quiet** while the driver sends no new request: every other move is a no-op
    there (whatever the configuration, reachable or not). -/
theorem cp_quiet_stays_quiet (e : CpEnv) (hq : e.quiet) (op : CpOp) (hop : ∀ k, op ≠ .req k) :
    (e.step op).1 = e :=
  quiet_step hq op hop

example : (cpRunSched liveDemo cpRoundRobin 34).quiet := by unfold CpEnv.quiet; decide +kernel

/-- the round-robin schedule (tick, DMA side takes 1, caches take 1, driver takes 1, oldest outstanding
    flush acknowledged, oldest outstanding clone answered, …) is fair: `CpFair` is satisfiable -/
theorem cp_round_robin_fair : CpFair cpRoundRobin := cpRoundRobin_fair

example : (List.range 7).map cpRoundRobin =
    [.tick, .takeDma 1, .takeCache 1, .takeDrv 1, .ack 0, .rsp 0, .tick] := by decide +kernel

/-- **Liveness: every accepted request is eventually answered, under every fair schedule.** ToDriver
    and ToDMA have room for at least one message and ToCaches for one flush request per cache; the
    driver port may have any capacity (also 0: then nothing is ever accepted). Start in ANY reachable
    state (any history `ops`: requests waiting in the driver port, a flush half acknowledged, clones at
    the DMA engine, answers waiting for room in ToDriver, …) and let the environment follow ANY fair
    schedule `σ` without new requests. Then from some point `N` on, for ever: nothing is in flight
    (`quiet`), the CP has not faulted, no request was added (`sent` is that of the start), and the
    answers the driver has taken are a permutation of the requests the driver port accepted — every
    flush, H2D and D2H request has been answered exactly once. -/
theorem cp_fair_all_answered (n cin cdrv cdma ccache : Nat) (ops : List CpOp) (h2 : 1 ≤ cdrv) (h3 : 1 ≤ cdma)
    (h4 : n ≤ ccache) (σ : Nat → CpOp) (hσ : CpFair σ) :
    ∃ N, ∀ M ≥ N,
      let e := cpRunSched (reachCp n cin cdrv cdma ccache ops) σ M
      e.quiet ∧ e.s.fault = none ∧ e.sent = (reachCp n cin cdrv cdma ccache ops).sent ∧ e.drained.Perm e.sent := by
  obtain ⟨N, hN⟩ := reach_fair_quiet n cin cdrv cdma ccache ops h2 h3 h4 σ hσ
  refine ⟨N, fun M hM => ?_⟩
  have hq := hN M hM
  have hs := cpRunSched_sent (reachCp n cin cdrv cdma ccache ops) hσ.1 M
  rw [cpRunSched_reach] at hq hs ⊢
  exact ⟨hq, (reach_quiet_perm _ _ _ _ _ _ h4 hq).1, hs, (reach_quiet_perm _ _ _ _ _ _ h4 hq).2⟩

/-- the round-robin schedule from `liveDemo` (flush over three caches, then two copies): quiet for the first
    time after 34 moves, the three answers in order; not yet quiet after 33 -/
example : (cpRunSched liveDemo cpRoundRobin 34).drained = [⟨0, .flush⟩, ⟨1, .h2d⟩, ⟨2, .d2h⟩] ∧
    (cpRunSched liveDemo cpRoundRobin 34).sent = [⟨0, .flush⟩, ⟨1, .h2d⟩, ⟨2, .d2h⟩] ∧
    (cpRunSched liveDemo cpRoundRobin 34).s.fault = none ∧
    (cpRunSched liveDemo cpRoundRobin 33).s.drvOut = [⟨2, .d2h⟩] := by decide +kernel

/-- the same under back-pressure (`liveTight`: ToDriver and ToDMA hold one message): quiet after 28 moves -/
example : (cpRunSched liveTight cpRoundRobin 28).quiet ∧
    (cpRunSched liveTight cpRoundRobin 28).drained = [⟨0, .flush⟩, ⟨1, .h2d⟩, ⟨2, .d2h⟩] ∧
    (cpRunSched liveTight cpRoundRobin 27).s.drvOut ≠ [] := by unfold CpEnv.quiet; decide +kernel

/-! ## the hypotheses cannot be dropped -/

/-- **`1 ≤ cdma` is needed:** with a ToDMA buffer without room, a copy request the driver port accepted
    waits there for ever — under every fair schedule the state never becomes quiet (every move is a
    no-op: `processMemCopyReq` finds `!ToDMA.CanSend()` at every tick). -/
theorem cp_live_needs_cdma (σ : Nat → CpOp) (hσ : CpFair σ) (M : Nat) :
    cpRunSched (reachCp 0 4 4 0 4 [.req .h2d]) σ M = reachCp 0 4 4 0 4 [.req .h2d] ∧
    ¬ (cpRunSched (reachCp 0 4 4 0 4 [.req .h2d]) σ M).quiet := by
  have h := cpRunSched_stuck (e := reachCp 0 4 4 0 4 [.req .h2d]) (by decide +kernel) (by decide +kernel)
    (by decide +kernel) (by decide +kernel) (by decide +kernel) (by decide +kernel) hσ.1 M
  rw [h]
  exact ⟨rfl, fun hq => absurd hq.1 (by decide +kernel)⟩

example : (reachCp 0 4 4 0 4 [.req .h2d]).sent = [⟨0, .h2d⟩] ∧ (reachCp 0 4 4 0 4 [.req .h2d]).s.drvIn = [⟨0, .h2d⟩] ∧
    cpRunSched (reachCp 0 4 4 0 4 [.req .h2d]) cpRoundRobin 60 = reachCp 0 4 4 0 4 [.req .h2d] := by decide +kernel

/-- **`1 ≤ cdrv` is needed:** with a ToDriver buffer without room, a flush request of a CP without
    caches (answered by `processFlushReq` itself) waits in the driver port for ever — under every fair
    schedule the state never becomes quiet. -/
theorem cp_live_needs_cdrv (σ : Nat → CpOp) (hσ : CpFair σ) (M : Nat) :
    cpRunSched (reachCp 0 4 0 4 4 [.req .flush]) σ M = reachCp 0 4 0 4 4 [.req .flush] ∧
    ¬ (cpRunSched (reachCp 0 4 0 4 4 [.req .flush]) σ M).quiet := by
  have h := cpRunSched_stuck (e := reachCp 0 4 0 4 4 [.req .flush]) (by decide +kernel) (by decide +kernel)
    (by decide +kernel) (by decide +kernel) (by decide +kernel) (by decide +kernel) hσ.1 M
  rw [h]
  exact ⟨rfl, fun hq => absurd hq.1 (by decide +kernel)⟩

/-- likewise the DMA engine's answer to a copy waits in ToDMA's incoming buffer for ever when `cdrv = 0` -/
example : (cpRunSched (reachCp 0 4 0 4 4 [.req .d2h]) cpRoundRobin 12).s.dmaIn = [0] ∧
    cpRunSched (reachCp 0 4 0 4 4 [.req .d2h]) cpRoundRobin 72 = cpRunSched (reachCp 0 4 0 4 4 [.req .d2h]) cpRoundRobin 12 := by
  decide +kernel

/-- **`n ≤ ccache` is needed:** with three caches and a ToCaches buffer of two entries the flush panics
    (`flushCache`: `panic(err)`), and under every schedule whatsoever the fault stays and the state never
    becomes quiet (the flush request is never taken from the driver port). -/
theorem cp_live_needs_ccache (σ : Nat → CpOp) (M : Nat) :
    (cpRunSched (reachCp 3 8 8 8 2 [.req .flush, .tick]) σ M).s.fault = some "cache_send" ∧
    ¬ (cpRunSched (reachCp 3 8 8 8 2 [.req .flush, .tick]) σ M).quiet := by
  obtain ⟨h1, h2⟩ := cpRunSched_fault_stuck (e := reachCp 3 8 8 8 2 [.req .flush, .tick]) (x := "cache_send")
    (by decide +kernel) (by decide +kernel) σ M
  exact ⟨h1, fun hq => h2 hq.1⟩

example : (reachCp 3 8 8 8 2 [.req .flush, .tick]).s.drvIn = [⟨0, .flush⟩] ∧
    (reachCp 3 8 8 8 2 [.req .flush, .tick]).s.cacheOut = [0, 1] := by decide +kernel

/-- **`1 ≤ cin` is NOT needed** (and is not a hypothesis of `cp_fair_all_answered`): a driver port
    without room accepts nothing, so every reachable state is quiet with nothing sent — liveness holds
    vacuously there. -/
theorem cp_live_cin_zero (n cdrv cdma ccache : Nat) (ops : List CpOp) :
    (reachCp n 0 cdrv cdma ccache ops).quiet ∧ (reachCp n 0 cdrv cdma ccache ops).sent = [] := by
  have hq := reach_cin0_quiet n cdrv cdma ccache ops
  refine ⟨hq, ?_⟩
  unfold reachCp at hq ⊢
  rw [run_cin0_quiet ops _ rfl ⟨rfl, rfl, rfl, rfl, rfl, rfl, rfl, rfl⟩]
  rfl

example : ((CpEnv.init 2 0 4 4 4).step (.req .flush)).2 = "full" ∧
    (reachCp 2 0 4 4 4 [.req .flush, .tick, .req .h2d]).sent = [] := by decide +kernel

end C11
