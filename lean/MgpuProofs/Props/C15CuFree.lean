import MgpuProofs.C15CuFree
import MgpuProofs.C15CuSent2
import MgpuProofs.Props.C15Cu
/-! # C15 ∘ C14 — "the ROB only throws away what the compute unit has saved", WITHOUT `SentNames`

`Props/C15Cu.lean` proves `rob_discards_only_what_the_cu_saved` by reusing C14's invariant, which
holds in the composition only if every response names a request ID that was really sent
(`SentNames`; the real ROB can break it: `unsent_name_witness`). Here the same conclusion is proved
for EVERY legal composed run: the part of C14's invariant it needs does not read request IDs
(`MgpuProofs/C15CuFree.lean`: `Lite` = the protocol part `PM` + three ID-independent clauses of the
scalar path), so it survives responses under stale or never-sent IDs. -/
namespace C15.Cu
open C14.Flush

/-- **The compute unit of every legal composed run satisfies the command processor's protocol
    invariant of C14 and loses no record — whatever IDs the ROB's responses name** (no `SentNames`):
    `PM` (flags, `ToCP` buffers and acknowledgement against the command processor's state; in
    particular it never faults), no flush is half-executed between two events, and every scalar
    record ever created is answered, in flight or saved, exactly once; what the last flush saved is
    what has been re-sent since followed by what still waits in the shadow list, in order. -/
theorem cu_protocol_and_records_in_composition (c : Cfg) (evs : List CEv) (hl : legalRunB c {} evs = true)
    (hcap : 0 < c.cu.capCP) :
    let s := (crun c evs).cu
    PM s ∧ s.isFlushing = false ∧ s.fault = false ∧
    (s.s.applied ++ ids (s.s.inf ++ s.s.sh)).Perm s.s.issued ∧ s.s.issued.Nodup ∧
    s.s.resent ++ ids s.s.sh = s.s.flushed := by
  intro s
  have h := crun_Lite c hcap evs hl
  refine ⟨h.1.1, h.2, h.1.1.2.1, h.1.2.cons, ?_, h.1.2.resentEq⟩
  exact (h.1.2.cons.nodup_iff).1 (crun_IdsOK c evs).2.1.1

example : legalRunB witCfg {} witEvs = true ∧ ¬ SentNames witCfg witEvs ∧
    (crun witCfg witEvs).cu.s.issued = [0, 1] ∧ (crun witCfg witEvs).cu.cp = .restartSent :=
  ⟨unsent_name_witness.1, unsent_name_witness.2.1, by decide, by decide⟩

/-- **The ROB only throws away what the compute unit has saved — in EVERY legal composed run**
    (`rob_discards_only_what_the_cu_saved` without the hypothesis `SentNames`): whenever the ROB holds
    an unprocessed control message, is flushing, or the command processor's round towards it is open,
    the compute unit is paused, not re-sending, has no request queued, its in-flight list is empty,
    and every scalar record ever issued is either answered or in the shadow list, from which it is
    re-sent after the restart. -/
theorem rob_discards_only_what_the_cu_saved_always (c : Cfg) (evs : List CEv) (hl : legalRunB c {} evs = true)
    (hcap : 0 < c.cu.capCP) :
    let σ := crun c evs
    (σ.robPh ≠ 0 ∨ σ.sys.rob.ctlIn ≠ [] ∨ σ.sys.rob.flushing = true) →
      σ.cu.isPaused = true ∧ σ.cu.isSending = false ∧ σ.cu.s.inf = [] ∧ σ.cu.s.unit = [] ∧
      ∀ i ∈ σ.cu.s.issued, i ∈ σ.cu.s.applied ∨ i ∈ C14.Flush.ids σ.cu.s.sh := by
  intro σ h
  have hp : Proto σ := comp_proto c evs hl
  have hlite : Lite σ.cu := crun_Lite c hcap evs hl
  have hcp : σ.cu.cp = .acked := by
    rcases hp with ⟨h0, hci, _, hfl⟩ | ⟨hcp, _⟩
    · rcases h with h | h | h
      · exact absurd h0 h
      · exact absurd hci h
      · rw [hfl] at h; cases h
    · exact hcp
  obtain ⟨_, _, _, _, p5⟩ := hlite.1.1
  have hpq : σ.cu.isPaused = true ∧ σ.cu.isSending = false := by
    rcases p5 with h5 | h5 | h5 | h5 | h5 | h5 | h5 | h5 <;> simp_all
  have hinf : σ.cu.s.inf = [] := hlite.1.2.idle hpq.1 hpq.2
  refine ⟨hpq.1, hpq.2, hinf, hlite.1.2.unitP hpq.1, ?_⟩
  intro i hi
  have : i ∈ σ.cu.s.applied ++ C14.Flush.ids (σ.cu.s.inf ++ σ.cu.s.sh) := hlite.1.2.cons.symm.subset hi
  rw [hinf, List.nil_append] at this
  exact List.mem_append.1 this

/-- the run of `unsent_name_witness` (legal, NOT `SentNames`) while its ROB is flushing: the theorem
    applies and its premise is true -/
example : (crun witCfg (witEvs.take 9)).sys.rob.flushing = true ∧
    (crun witCfg (witEvs.take 9)).cu.s.inf = [] ∧
    C14.Flush.ids (crun witCfg (witEvs.take 9)).cu.s.sh = [0, 1] := by decide

example : (crun witCfg (witEvs.take 9)).cu.isPaused = true :=
  (rob_discards_only_what_the_cu_saved_always witCfg (witEvs.take 9) (by decide) (by decide)
    (Or.inr (Or.inr (by decide)))).1

/-- **Nothing is forgotten in the shadow list** (every legal composed run, no `SentNames`): the compute
    unit resumes (`isPaused = false`) only when its shadow list is empty, so whenever it runs every
    scalar record ever issued is answered or IN FLIGHT — with `rob_discards_only_what_the_cu_saved_always`
    (round open: answered or saved) no record is lost at any point of a flush / restart round. -/
theorem nothing_left_in_shadow_when_running (c : Cfg) (evs : List CEv) (hl : legalRunB c {} evs = true)
    (hcap : 0 < c.cu.capCP) :
    let s := (crun c evs).cu
    s.isPaused = false → s.s.sh = [] ∧ ∀ i ∈ s.s.issued, i ∈ s.s.applied ∨ i ∈ C14.Flush.ids s.s.inf := by
  intro s hp
  have h := crun_Lite c hcap evs hl
  have hsh : s.s.sh = [] := h.1.2.runningSh hp
  refine ⟨hsh, ?_⟩
  intro i hi
  have : i ∈ s.s.applied ++ C14.Flush.ids (s.s.inf ++ s.s.sh) := h.1.2.cons.symm.subset hi
  rw [hsh, List.append_nil] at this
  exact List.mem_append.1 this

example : (crun demoCfg roundEvs).cu.isPaused = false ∧ (crun demoCfg roundEvs).cu.s.issued = [0] ∧
    C14.Flush.ids (crun demoCfg roundEvs).cu.s.inf = [0] ∧ (crun demoCfg roundEvs).sys.rob.discarded = [0] := by
  decide

/-- **`resent_exactly_once` for the scalar path of EVERY legal composed run — the hypothesis `SentNames`
    of `cu_resends_exactly_once_in_composition` is gone** (what is lost is only C14's clause "every
    response in the port names a sent request", which the real ROB can break): what the last flush
    saved is what was re-sent followed by what still waits, without repetition; NO request ID is put on
    the port twice;
    every in-flight record has its current request queued in the unit or sent; the generations sent
    for a listed record never exceed its current one; every record created is answered or in exactly
    one list. The clauses about the IDs the compute unit SENDS do not depend on the IDs the responses
    name: a response under any name only removes a record from the in-flight list (`SentOK.respond`). -/
theorem cu_resends_exactly_once_always (c : Cfg) (evs : List CEv) (hl : legalRunB c {} evs = true)
    (hcap : 0 < c.cu.capCP) :
    let ch := (crun c evs).cu.s
    ch.resent ++ C14.Flush.ids ch.sh = ch.flushed ∧ ch.flushed.Nodup ∧ ch.sent.Nodup ∧
    (∀ e ∈ ch.inf, e.id ∈ ch.unit ∨ (e.id, e.gen) ∈ ch.sent) ∧
    (∀ e ∈ ch.inf ++ ch.sh, ∀ g, (e.id, g) ∈ ch.sent → g ≤ e.gen) ∧
    (ch.applied ++ C14.Flush.ids (ch.inf ++ ch.sh)).Perm ch.issued ∧ ch.issued.Nodup := by
  intro ch
  have h := crun_Lite c hcap evs hl
  have hs := crun_SentS c hcap evs hl
  refine ⟨h.1.2.resentEq, hs.flushedN, hs.sentNodup, hs.noOrphan, hs.genBound, h.1.2.cons, ?_⟩
  exact (h.1.2.cons.nodup_iff).1 (crun_IdsOK c evs).2.1.1

/-- on the run where `SentNames` fails: the port never carried an ID twice although the response named
    the never-sent (0, 1) — the record was re-sent as (0, 2) -/
example : ¬ SentNames witCfg witEvs ∧ (crun witCfg witEvs).cu.s.sent = [(0, 0), (0, 2)] ∧
    (crun witCfg witEvs).cu.s.inf.map (fun e => (e.id, e.gen)) = [(0, 2)] ∧
    (crun witCfg witEvs).cu.s.flushed = [0, 1] ∧ (crun witCfg witEvs).cu.s.resent = [0] :=
  ⟨unsent_name_witness.2.1, by decide, by decide, by decide, by decide⟩

end C15.Cu
