import MgpuProofs.C20_DeepLemmas
import MgpuProofs.C20_ParseLemmas
/-! # C20 — second deepening pass: run-level statements without side hypotheses

`exactly_once_at_quiescence` replaces the hypothesis of `conservation_when_drained` by the event the
engine can observe (its queue is empty); the other theorems cover the device and SM layers of the
hand-out (multi-device scheduling), the free lists, Go's `int64` counters (no underflow, explicit
upper bounds), an explicit bound on the length of runs in terms of the trace and the shape, and the
points where a hypothesis of an earlier theorem cannot be dropped (kernel-checked witnesses, each
replayed on the real code by `harness/c20_deep.go`). -/
namespace C20

/-- **Exactly once, at quiescence, every run.**  Repaired code, every platform shape ≥ 1×1×1, every
    trace (degenerate ones included), every interleaving of ticks of existing components: when the
    engine's queue is empty the run is finished (all kernels reported, every device, SM and sub-core
    idle and back in its free list), the sub-cores have **received** exactly the instructions of the
    trace and **executed** all of them (`instsCount − unfinishedInstsCount` summed = trace total), and the
    SMs have received exactly the warps of the trace.  No hypothesis about pending work is left: it is
    derived from `terminates_all_idle` + the invariant that nothing is stored outside the shape. -/
theorem exactly_once_at_quiescence (G S C : Nat) (trace : List Kernel) (evs : List Ev)
    (hG : 1 ≤ G) (hS : 1 ≤ S) (hC : 1 ≤ C) (hr : ∀ e ∈ evs, e.InRange G S C)
    (ha : allAsleep (run (init false G S C trace) evs) = true) :
    finished (run (init false G S C trace) evs) = true ∧
    receivedInsts (run (init false G S C trace) evs) = instsOfTrace trace ∧
    executedInsts (run (init false G S C trace) evs) = instsOfTrace trace ∧
    receivedWarps (run (init false G S C trace) evs) = warpsOfTrace trace :=
  quiescent_totals G S C trace evs hG hS hC hr ha

/-- the hypotheses are met: a ragged, degenerate trace on 2×2×3 run by fair rounds ends asleep -/
example :
    let r := rounds 60 (init false 2 2 3 [[[0, 5], []], [], [[1, 2, 3, 4, 5, 6, 7]]], [])
    (∀ e ∈ r.2, e.InRange 2 2 3) ∧
      allAsleep (run (init false 2 2 3 [[[0, 5], []], [], [[1, 2, 3, 4, 5, 6, 7]]]) r.2) = true ∧
      executedInsts (run (init false 2 2 3 [[[0, 5], []], [], [[1, 2, 3, 4, 5, 6, 7]]]) r.2) = 33 := by
  decide +kernel

/-- **Results do not depend on the schedule, on simulated time, or on the platform shape.**  Times,
    frequencies and latencies only select one interleaving `evs`; two complete runs of the same trace —
    on any two shapes, under any two interleavings — agree on every total the simulator reports. -/
theorem totals_independent_of_schedule_and_shape (trace : List Kernel)
    (G S C : Nat) (evs : List Ev) (G' S' C' : Nat) (evs' : List Ev)
    (hG : 1 ≤ G) (hS : 1 ≤ S) (hC : 1 ≤ C) (hr : ∀ e ∈ evs, e.InRange G S C)
    (ha : allAsleep (run (init false G S C trace) evs) = true)
    (hG' : 1 ≤ G') (hS' : 1 ≤ S') (hC' : 1 ≤ C') (hr' : ∀ e ∈ evs', e.InRange G' S' C')
    (ha' : allAsleep (run (init false G' S' C' trace) evs') = true) :
    receivedInsts (run (init false G S C trace) evs) = receivedInsts (run (init false G' S' C' trace) evs') ∧
    executedInsts (run (init false G S C trace) evs) = executedInsts (run (init false G' S' C' trace) evs') ∧
    receivedWarps (run (init false G S C trace) evs) = receivedWarps (run (init false G' S' C' trace) evs') := by
  have a := quiescent_totals G S C trace evs hG hS hC hr ha
  have b := quiescent_totals G' S' C' trace evs' hG' hS' hC' hr' ha'
  exact ⟨a.2.1.trans b.2.1.symm, a.2.2.1.trans b.2.2.1.symm, a.2.2.2.trans b.2.2.2.symm⟩

/-- two different shapes, two different schedules (fair rounds / reversed order of the same events is not
    needed: the shapes already give different interleavings), same totals -/
example :
    let t : List Kernel := [[[2, 0, 3]], [[1], []]]
    let a := rounds 80 (init false 1 1 1 t, [])
    let b := rounds 40 (init false 2 2 3 t, [])
    allAsleep a.1 = true ∧ allAsleep b.1 = true ∧ a.2.length ≠ b.2.length ∧
      receivedInsts a.1 = 6 ∧ receivedInsts b.1 = 6 := by
  decide +kernel

/-- **Exclusive hand-out of kernels (multi-device scheduling).**  Repaired code, every run: whenever a
    kernel sits in the incoming buffer of device `g`, it is the only one there, the device has no
    unfinished thread block, no unreported finished kernel, no undispatched block, all its SMs are in its
    free list, the device itself is not in the driver's free list and no other kernel or completion of it
    is in flight.  A kernel is only ever handed to an idle device; with several devices the driver's
    free list decides, and it never contains a busy device. -/
theorem exclusive_handout_gpu (G S C : Nat) (trace : List Kernel) (evs : List Ev) (g : Nat) (hg : g < G)
    (hne : get (run (init false G S C trace) evs).l0.cIn g ≠ []) :
    let s := run (init false G S C trace) evs
    (get s.l0.cIn g).length = 1 ∧ (get s.l1 g).unfin = 0 ∧ (get s.gpus g).fin = 0 ∧
      (get s.l1 g).undisp = [] ∧ (get s.l1 g).free.length = S ∧ g ∉ s.l0.free ∧
      g ∉ s.l0.pOut.map Prod.fst ∧ g ∉ s.l0.pIn := by
  intro s
  have i := inv1_run' G S C trace evs
  have hs := shape_run (init false G S C trace) evs
  have hG' : s.G = G := hs.G
  have hS' : s.S = S := hs.S
  have hg' : g < s.G := by rw [hG']; exact hg
  have e := i.lv0.inbox_exclusive g hg' hne
  have hb := parBusy_eq_zero e.2.1
  have hi := (i.lv1 g hg').idle_parent hb.1
  exact ⟨e.1, hb.1, hb.2, hi.1, by rw [hi.2]; exact hS', e.2.2.1, e.2.2.2.2.2, e.2.2.2.2.1⟩

/-- met on two devices: after these events the second kernel sits in the inbox of device 1 -/
example : get (run (init false 2 1 1 [[[1]], [[2]]]) [.drv, .drv, .c0]).l0.cIn 1 ≠ [] := by decide +kernel

/-- **Exclusive hand-out of thread blocks**: the same at the SM layer — a thread block in the incoming
    buffer of an SM is alone there, the SM has no unfinished warp, no unreported finished block, no
    undispatched warp, all its sub-cores are free, and it is not in its GPU's free list. -/
theorem exclusive_handout_sm (G S C : Nat) (trace : List Kernel) (evs : List Ev) (g k : Nat) (hg : g < G) (hk : k < S)
    (hne : get (get (run (init false G S C trace) evs).l1 g).cIn k ≠ []) :
    let s := run (init false G S C trace) evs
    (get (get s.l1 g).cIn k).length = 1 ∧ (get s.l2 (g * S + k)).unfin = 0 ∧ (get s.sms (g * S + k)).fin = 0 ∧
      (get s.l2 (g * S + k)).undisp = [] ∧ (get s.l2 (g * S + k)).free.length = C ∧ k ∉ (get s.l1 g).free := by
  intro s
  have i := inv1_run' G S C trace evs
  have hs := shape_run (init false G S C trace) evs
  have hG' : s.G = G := hs.G
  have hS' : s.S = S := hs.S
  have hC' : s.C = C := hs.C
  have hg' : g < s.G := by rw [hG']; exact hg
  have hk' : k < s.S := by rw [hS']; exact hk
  have e := (i.lv1 g hg').inbox_exclusive k hk' hne
  have hb : parBusy (get s.l2 (g * s.S + k)).unfin (get s.sms (g * s.S + k)).fin = 0 := e.2.1
  rw [hS'] at hb
  have hb := parBusy_eq_zero hb
  have hm : g * S + k < s.G * s.S := by rw [hG', hS']; exact idx1 hg hk
  have hi := (i.lv2 (g * S + k) hm).idle_parent hb.1
  exact ⟨e.1, hb.1, hb.2, hi.1, by rw [hi.2]; exact hC', e.2.2.1⟩

example : get (get (run (init false 1 2 1 [[[1], [2]]]) [.drv, .c0, .gpu 0, .gpu 0, .gpu 0, .c1 0]).l1 0).cIn 1 ≠ [] := by
  decide +kernel

/-- **Free lists never hold an executor twice**, at any layer, in any run of the repaired code: a device
    (SM, sub-core) that finishes is appended exactly once, so `freeDevices[0]` is never a device that is
    also further down the list (which would hand two kernels to one device). -/
theorem free_lists_nodup (G S C : Nat) (trace : List Kernel) (evs : List Ev) :
    let s := run (init false G S C trace) evs
    s.l0.free.Nodup ∧ (∀ g, g < G → (get s.l1 g).free.Nodup) ∧ (∀ m, m < G * S → (get s.l2 m).free.Nodup) := by
  intro s
  have i := inv1_run' G S C trace evs
  have hs := shape_run (init false G S C trace) evs
  refine ⟨i.lv0.free_nodup, ?_, ?_⟩
  · intro g hg; exact (i.lv1 g (by rw [hs.G]; exact hg)).free_nodup
  · intro m hm; exact (i.lv2 m (by rw [hs.G, hs.S]; exact hm)).free_nodup

/-- two devices finish in the same cycle (kernels of 2 and 1 instructions on 2×1×1, 13 fair rounds): both
    completion messages are in the driver's inbox at once, the driver takes one per tick, both devices end
    up in the free list exactly once, and the third kernel goes to the device whose completion was first -/
example :
    let s := (rounds 13 (init false 2 1 1 [[[2]], [[1]], [[1]]], [])).1
    s.l0.pIn = [0, 1] ∧ s.l0.free = [] ∧ (tickDriver s).l0.free = [0] ∧
      (tickDriver (tickDriver s)).l0.pOut = [(0, [[1]])] ∧ (tickDriver (tickDriver s)).l0.free = [1] ∧
      (tickDriver (tickDriver s)).l0.pIn = [] := by
  decide +kernel

/-- **Go's `int64` counters never underflow.**  The only unguarded decrements in the code are
    `unfinishedKernelsCount--`, `unfinishedThreadblocksCount--`, `unfinishedWarpsCount--` on receipt of a
    completion message; in every reachable state a completion message in a parent's inbox implies that the
    parent's unfinished count is ≥ 1 (all other decrements are guarded by `!= 0` in the code).  So the
    model's natural-number subtraction and Go's signed subtraction agree and no count ever goes negative. -/
theorem counters_never_underflow (G S C : Nat) (trace : List Kernel) (evs : List Ev) :
    let s := run (init false G S C trace) evs
    (s.l0.pIn ≠ [] → 1 ≤ s.l0.unfin) ∧ (∀ g, g < G → (get s.l1 g).pIn ≠ [] → 1 ≤ (get s.l1 g).unfin) ∧
      (∀ m, m < G * S → (get s.l2 m).pIn ≠ [] → 1 ≤ (get s.l2 m).unfin) := by
  intro s
  have i := (inv1_run' G S C trace evs).noGhost
  have hs := shape_run (init false G S C trace) evs
  refine ⟨i.1, ?_, ?_⟩
  · intro g hg; exact i.2.1 g (by rw [hs.G]; exact hg)
  · intro m hm; exact i.2.2 m (by rw [hs.G, hs.S]; exact hm)

example : (run (init false 1 1 1 [[[0]]]) [.drv, .c0, .gpu 0, .gpu 0, .c1 0, .sm 0, .sm 0, .c2 0, .sub 0, .sub 0, .c2 0]).l2.head!.pIn ≠ [] := by
  decide +kernel

/-- the explicit bound behind `counters_bounded`: instructions + 6 per warp, block and kernel + 3 -/
def workBound (trace : List Kernel) : Nat :=
  instsOfTrace trace + 6 * (warpsOfTrace trace + blocksOfTrace trace + trace.length) + 3

/-- **Every counter stays below an explicit bound** (in-range runs of the repaired code): received
    counters by the trace totals (conservation), every other counter by `workBound trace` (+ the number of
    children for the unfinished counts) — the potential never grows and dominates each of them. -/
theorem counters_bounded (G S C : Nat) (trace : List Kernel) (evs : List Ev) (hr : ∀ e ∈ evs, e.InRange G S C) :
    let s := run (init false G S C trace) evs
    s.l0.unfin ≤ workBound trace + G ∧
    (∀ g, g < G → (get s.l1 g).unfin ≤ workBound trace + S ∧ (get s.gpus g).fin ≤ workBound trace) ∧
    (∀ m, m < G * S → (get s.l2 m).unfin ≤ workBound trace + C ∧ (get s.sms m).fin ≤ workBound trace ∧
      (get s.sms m).warps ≤ warpsOfTrace trace) ∧
    (∀ u, (get s.subs u).rem ≤ workBound trace ∧ (get s.subs u).fin ≤ workBound trace ∧
      (get s.subs u).insts ≤ instsOfTrace trace) := by
  intro s
  have i : Inv1 s := inv1_run' G S C trace evs
  have hs := shape_run (init false G S C trace) evs
  have hG' : s.G = G := hs.G
  have hS' : s.S = S := hs.S
  have hC' : s.C = C := hs.C
  have hphi : Phi s ≤ workBound trace := by
    have : Phi s ≤ Phi (init false G S C trace) := phi_run_le G S C trace evs hr
    rw [Phi_init] at this
    have hsh : Meas.shell trace.length ≤ 3 := by unfold Meas.shell; split <;> omega
    unfold workBound
    exact Nat.le_trans this (by omega)
  have pb := phi_bounds s
  have c1 : sum (s.subs.map (fun c : Sub => c.insts)) ≤ instsOfTrace trace := conservation_insts_aux G S C trace evs
  have c2 : sum (s.sms.map (fun m : Smx => m.warps)) ≤ warpsOfTrace trace := conservation_warps_aux G S C trace evs
  refine ⟨?_, ?_, ?_, ?_⟩
  · have h1 := i.lv0.unfin_le; rw [hG'] at h1; have := pb.1; omega
  · intro g hg
    have h1 := (i.lv1 g (by rw [hG']; exact hg)).unfin_le
    rw [hS'] at h1
    have := (pb.2.1 g)
    omega
  · intro m hm
    have h1 := (i.lv2 m (by rw [hG', hS']; exact hm)).unfin_le
    rw [hC'] at h1
    have := (pb.2.2.1 m)
    have hw := get_le_sum (fun m : Smx => m.warps) rfl s.sms m
    refine ⟨by omega, by omega, Nat.le_trans hw c2⟩
  · intro u
    have := pb.2.2.2 u
    have hw := get_le_sum (fun c : Sub => c.insts) rfl s.subs u
    refine ⟨by omega, by omega, Nat.le_trans hw c1⟩

/-- **The `int64` fields are wide enough**: when the bound of `counters_bounded` fits (any trace a file
    system can hold: < 2⁶³ instructions …), every counter of every reachable state is below 2⁶³, so the
    natural-number model and the Go fields coincide (no wrap-around). -/
theorem counters_fit_int64 (G S C : Nat) (trace : List Kernel) (evs : List Ev) (hr : ∀ e ∈ evs, e.InRange G S C)
    (B : Nat) (hB : workBound trace + G + S + C < B) :
    let s := run (init false G S C trace) evs
    s.l0.unfin < B ∧ (∀ g, g < G → (get s.l1 g).unfin < B ∧ (get s.gpus g).fin < B) ∧
    (∀ m, m < G * S → (get s.l2 m).unfin < B ∧ (get s.sms m).fin < B ∧ (get s.sms m).warps < B) ∧
    (∀ u, (get s.subs u).rem < B ∧ (get s.subs u).fin < B ∧ (get s.subs u).insts < B) := by
  have h := counters_bounded G S C trace evs hr
  dsimp only at h ⊢
  have hi : instsOfTrace trace ≤ workBound trace := by unfold workBound; omega
  have hw : warpsOfTrace trace ≤ workBound trace := by unfold workBound; omega
  refine ⟨by have := h.1; omega, ?_, ?_, ?_⟩
  · intro g hg; have := h.2.1 g hg; omega
  · intro m hm; have := h.2.2.1 m hm; omega
  · intro u; have := h.2.2.2 u; omega

/-- instance with `B = 2⁶³` for a concrete trace and shape -/
example : workBound [[[0, 5], []], [], [[1, 2, 3, 4, 5, 6, 7]]] + 2 + 2 + 3 < 9223372036854775808 := by decide

/-- **Explicit length bound of every strict run**: in terms of the trace and the shape alone. -/
theorem run_length_explicit (G S C : Nat) (trace : List Kernel) (evs : List Ev)
    (hr : ∀ e ∈ evs, e.InRange G S C) (hs : Strict (init false G S C trace) evs) :
    evs.length ≤ workBound trace * (3 + 2 * G + 2 * (G * S) + G * S * C) + (2 + 2 * G + 2 * (G * S) + G * S * C) := by
  have h := strict_run_bounded' G S C trace evs hr hs
  unfold M at h
  have hN := N_init G S C trace
  have ha := awakeCount_le (init false G S C trace)
  rw [hN] at h ha
  have hphi : Phi (init false G S C trace) ≤ workBound trace := by
    rw [Phi_init]
    have hsh : Meas.shell trace.length ≤ 3 := by unfold Meas.shell; split <;> omega
    unfold workBound
    omega
  have hm := Nat.mul_le_mul_right (2 + 2 * G + 2 * (G * S) + G * S * C + 1) hphi
  have e : 2 + 2 * G + 2 * (G * S) + G * S * C + 1 = 3 + 2 * G + 2 * (G * S) + G * S * C := by omega
  rw [e] at hm h
  omega

example :
    let r := rounds 30 (init false 1 2 2 [[[0, 3], []], []], [])
    Strict (init false 1 2 2 [[[0, 3], []], []]) r.2 ∧ r.2.length = 61 ∧
      workBound [[[0, 3], []], []] * (3 + 2 * 1 + 2 * (1 * 2) + 1 * 2 * 2) + (2 + 2 * 1 + 2 * (1 * 2) + 1 * 2 * 2) = 558 := by
  decide +kernel

/-! ## hypotheses that cannot be dropped (each witness is replayed on the real code by `harness/c20_deep.go`) -/

/-- `terminates_all_idle` without "at least one device" -/
def TerminatesWithoutDevices : Prop :=
  ∀ (G S C : Nat) (trace : List Kernel) (evs : List Ev), (∀ e ∈ evs, e.InRange G S C) →
    allAsleep (run (init false G S C trace) evs) = true → finished (run (init false G S C trace) evs) = true

/-- **`1 ≤ G`, `1 ≤ S`, `1 ≤ C` cannot be dropped**: on a platform without a device (or a device without
    SM, or an SM without sub-core) the engine runs dry with the kernel unfinished — the real driver does
    the same (it has no `freeDevices`, `dispatchKernelsToDevices` returns false; correspondence cases
    `g=0`, `s=0`, `c=0` of `c20_deep.go`). -/
theorem terminates_needs_executors_refuted : ¬ TerminatesWithoutDevices := by
  intro h
  have := h 0 1 1 [[[1]]] [.drv] (by decide) (by decide +kernel)
  revert this
  decide +kernel

/-- the same for a device without SMs and an SM without sub-cores: the unit is stuck one layer further down -/
example :
    let a := (rounds 20 (init false 1 0 1 [[[1]]], [])).1
    let b := (rounds 20 (init false 1 1 0 [[[1]]], [])).1
    allAsleep a = true ∧ finished a = false ∧ (get a.l1 0).undisp = [[1]] ∧
      allAsleep b = true ∧ finished b = false ∧ (get b.l2 0).undisp = [1] := by
  decide +kernel

/-- `parse_render` without well-formedness -/
def ParseRenderAll : Prop :=
  ∀ i : Inst, extractInst false true (renderInst opText i) = .ok i

/-- an instruction whose destination is `R256`, which is no SASS register (SASS has R0…R254 and the zero register R255) -/
def regWitness : Inst := { pc := 16, mask := 1, destNum := 1, dst := ["R256".toList], op := some "MOV".toList, srcNum := 1, src := ["R2".toList] }

/-- **"registers from the register table" cannot be dropped**: the serialised line
    `0010 00000001 1 R256 MOV 1 R2 0 0` is not parsed back — `NewRegister` panics on a name outside the table. -/
theorem parse_render_all_refuted : ¬ ParseRenderAll := by
  intro h
  have := h regWitness
  unfold extractInst renderInst at this
  rw [splitTokens_joinSp _ (by decide) (by decide)] at this
  have := congrArg Except.toOption this
  revert this
  decide

example : renderInst opText regWitness = "0010 00000001 1 R256 MOV 1 R2 0 0".toList ∧
    (extractToks false true (renderToks (opText regWitness) regWitness)).toOption = none := by decide

/-- **The register table is complete** (finding `C20-register-table`, repaired): every SASS register name `R0` … `R255`
    is in the table, and nothing else — so the hypothesis `dst_known` / `src_known` of `parse_render` says exactly
    "the operands are SASS registers". -/
theorem register_table_complete :
    (∀ i < 256, knownReg ('R' :: showNat 10 i) = true) ∧ regNames.length = 256 ∧ knownReg "R256".toList = false := by
  refine ⟨by decide +kernel, by decide +kernel, by decide +kernel⟩

/-- the instruction that could not be read before the repair: destination `R32` -/
def r32Witness : Inst := { pc := 16, mask := 1, destNum := 1, dst := ["R32".toList], op := some "MOV".toList, srcNum := 1, src := ["R2".toList] }

/-- **before the repair** the table held R0…R31 and R255 only: `R32` … `R254` were unknown, the serialised line
    `0010 00000001 1 R32 MOV 1 R2 0 0` (any kernel using more than 32 registers) made `extractInst` panic; now it is
    parsed back -/
theorem register_table_too_small_before_fix :
    regNamesOld.contains "R32".toList = false ∧ regNamesOld.contains "R254".toList = false ∧
    renderInst opText r32Witness = "0010 00000001 1 R32 MOV 1 R2 0 0".toList ∧
    (extractInst false true (renderInst opText r32Witness)).toOption = some r32Witness := by
  refine ⟨by decide, by decide, by decide, ?_⟩
  unfold extractInst renderInst
  rw [splitTokens_joinSp _ (by decide) (by decide)]
  decide +kernel

end C20
