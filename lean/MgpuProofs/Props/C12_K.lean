import MgpuProofs.C12_K
import MgpuProofs.C12_K2
/-!
# C12 (k threads) — FIFO, deadlock freedom and termination of the repaired hand-off protocol for
ANY number of application threads and ANY number of command queues

`C12.K.step` generalises `C12.step`: `k` application threads, each with its own program counter and
(while it drains) its own listener; `m` queues; each thread runs an arbitrary script of
`Enqueue(q)` / `DrainCommandQueue(q)` calls. Two threads on two queues (one context or two) and two
threads sharing one queue are the instances `k = 2`. All statements quantify over `k`, `m`, all
scripts, and every interleaving (`Reach`).

The invariant that replaces the one-thread "the waiter has a mover" (`K.Inv`, helper file):
* every NON-EMPTY queue is *served* — `runAsync` is about to call `TickLater`, or a tick event is
  queued and the engine goroutine will look at the event queue again, or the tick being handled has
  not passed that queue yet / has made progress and re-schedules itself — OR some thread still owes
  a `d.enqueueSignal <- true` (it is inside `Enqueue`, before the send, or has calls left);
* every thread blocked (or about to block) in `Wait` on an EMPTY queue has the notification of the
  `Dequeue` that emptied it still in flight (`e = notify q`).
The only hypothesis on the scripts: a non-empty script ends with a `DrainCommandQueue`
(`Driver.Enqueue` alone does not wake the driver); without it the full statement is false
(`no_stuck_state_any_script_refuted`).
-/
namespace C12
namespace K

/-- **FIFO per queue, k threads.** In every reachable state (any scripts, any interleaving) the ids
    submitted to a queue are exactly its completed ids followed by its queued ids. -/
theorem fifo {s : St} (h : ReachAny s) (q : Qu) (hq : q ∈ s.qs) : q.sub = q.done ++ q.cmds :=
  qfifo_reachAny h q hq

/-- **FIFO, step form.** One step of any thread changes at most one queue, and either appends one
    command at its tail (`Enqueue`) or moves exactly its head to the completion log (`Dequeue`,
    only by the engine inside a tick event). -/
theorem fifo_one_at_a_time (s s' : St) (t : Th) (hs : step s t = some s') (i : Nat) (q q' : Qu)
    (hq : s.qs[i]? = some q) (hq' : s'.qs[i]? = some q') :
    (q'.done = q.done ∧ (q'.cmds = q.cmds ∨ ∃ c, q'.cmds = q.cmds ++ [c])) ∨
    (∃ c cs, q.cmds = c :: cs ∧ q'.cmds = cs ∧ q'.done = q.done ++ [c] ∧ t = .eng) := by
  rcases qs_step s s' t hs with he | ⟨i', he⟩ | ⟨i', he, _, hne, ht⟩
  · rw [he, hq] at hq'; injection hq' with hq'; subst hq'; simp
  · by_cases hii : i = i'
    · subst hii
      rw [he, updQ_get_eq, hq] at hq'
      injection hq' with hq'; subst hq'
      exact Or.inl ⟨rfl, Or.inr ⟨_, rfl⟩⟩
    · rw [he, updQ_get_ne _ _ _ _ hii, hq] at hq'; injection hq' with hq'; subst hq'; simp
  · by_cases hii : i = i'
    · subst hii
      rw [he, updQ_get_eq, hq] at hq'
      injection hq' with hq'; subst hq'
      unfold deqQu
      cases hc : q.cmds with
      | nil => exfalso; apply hne; simp [cmdsOf, cmdsAt, hq, hc]
      | cons c cs => exact Or.inr ⟨c, cs, rfl, rfl, rfl, ht⟩
    · rw [he, updQ_get_ne _ _ _ _ hii, hq] at hq'; injection hq' with hq'; subst hq'; simp

/-- **Drain safety, k threads.** When a `DrainCommandQueue(q)` call of thread `j` returns (the step
    that increments its `returned`), queue `q` is empty and every command submitted to it so far —
    by any thread — has completed, in submission order. -/
theorem drain_returns_only_when_empty {s s' : St} (h : ReachAny s) (j : Nat) (a a' : App)
    (hs : step s (.app j) = some s') (ha : s.apps[j]? = some a) (ha' : s'.apps[j]? = some a')
    (hret : a'.returned = a.returned + 1) :
    cmdsOf s' a.q = [] ∧ ∀ qu, s'.qs[a.q]? = some qu → qu.done = qu.sub := by
  have hf := fifo (ReachAny.step _ h hs)
  have hlt := lt_of_get _ _ _ ha
  have hc : cmdsOf s' a.q = [] := by
    simp only [step, ha] at hs
    unfold stepApp at hs
    have hself : ∀ (b : App) (l : List App), l = s.apps.set j b → l[j]? = some a' → b = a' := by
      intro b l hl hb; subst hl
      rw [List.getElem?_set_self hlt] at hb; injection hb
    split at hs
    · split at hs
      · simp at hs
      · injection hs with hs; subst hs
        have := hself _ _ rfl ha'; subst this; simp at hret
      · injection hs with hs; subst hs
        have := hself _ _ rfl ha'; subst this; simp at hret
    · -- enqN: the record of thread j after NotifyAllSubscribers
      exfalso
      injection hs with hs; subst hs
      simp only [notifyAll, List.getElem?_map, List.getElem?_set_self hlt, Option.map_some] at ha'
      injection ha' with ha'; subst ha'
      unfold notify1 at hret
      (repeat' (split at hret)) <;> simp at hret
    · split at hs <;> (injection hs with hs; subst hs; have := hself _ _ rfl ha'; subst this; simp at hret)
    · split at hs
      · injection hs with hs; subst hs; have := hself _ _ rfl ha'; subst this; simp at hret
      · simp at hs
    · split at hs
      · rename_i hemp
        injection hs with hs; subst hs; exact hemp
      · injection hs with hs; subst hs; have := hself _ _ rfl ha'; subst this; simp at hret
    · split at hs <;> (injection hs with hs; subst hs; have := hself _ _ rfl ha'; subst this; simp at hret)
    · simp at hs
  refine ⟨hc, fun qu hqu => ?_⟩
  have := hf qu (mem_of_get _ _ _ hqu)
  have hcm : qu.cmds = [] := by simpa [cmdsOf, cmdsAt, hqu] using hc
  rw [this, hcm]; simp

/-- **Deadlock freedom for k threads (full statement).** For every number of application threads
    and queues, all scripts that end with a drain, and every interleaving: a reachable state in
    which no thread can move is one where EVERY application thread has finished its whole script —
    no waiter of any thread is ever left without a wake-up. -/
theorem no_stuck_state {s : St} (h : Reach s) (hst : stuck s) : finished s :=
  no_stuck_of_inv s (inv_reach h) hst

/-- **The invariant behind it, per blocked waiter.** A thread blocked in `Wait` on queue `q`:
    if `q` is empty, the notification of the `Dequeue` that emptied it is still in flight;
    if `q` is non-empty, the driver side is awake for `q` (`served`: `TickLater` imminent, or a tick
    event queued with an engine that will look, or the running tick still reaches `q` / re-schedules
    itself) or some thread still owes the signal that will wake it (`willSignal`). -/
theorem waiter_queue_served {s : St} (h : Reach s) (a : App) (ha : a ∈ s.apps) (hw : a.pc = .waiting) :
    (cmdsOf s a.q = [] → s.e = .notify a.q) ∧
    (cmdsOf s a.q ≠ [] → served s a.q ∨ ∃ b ∈ s.apps, willSignal b) :=
  ⟨(inv_reach h).note a ha (Or.inr hw), (inv_reach h).work a.q⟩

/-- **No lost wake-up at protocol level.** In every reachable state, for EVERY queue (waiters or
    not): if a command is queued, the driver side is awake for that queue (`served`) or some
    application thread still owes the `enqueueSignal` that will wake it. (`C12.W` continues below
    the tick event: the tick itself never reports "no progress" while work is left.) -/
theorem no_lost_wakeup {s : St} (h : Reach s) (q : Nat) (hq : cmdsOf s q ≠ []) :
    served s q ∨ ∃ b ∈ s.apps, willSignal b :=
  (inv_reach h).work q hq

/-- **No blocked waiter without a mover, k threads.** If any application thread is blocked inside
    `DrainCommandQueue` (in `Wait` or in the send on `enqueueSignal`), some thread can move. -/
theorem blocked_waiter_has_mover {s : St} (h : Reach s) (a : App) (ha : a ∈ s.apps)
    (hb : a.pc = .waiting ∨ a.pc = .sending) : ∃ t s', step s t = some s' := by
  refine Classical.byContradiction fun hn => ?_
  have hst : stuck s := by
    intro t
    cases hstep : step s t with
    | none => rfl
    | some s' => exact absurd ⟨t, s', hstep⟩ hn
  have hfin := no_stuck_state h hst a ha
  rcases hb with hb | hb <;> simp [appDone, hb] at hfin

/-- every step of every thread, in every state (reachable or not), decreases the weighted measure
    (API calls left, commands queued, pc ranks, pending tokens/events/flags; weights linear in the
    number of threads and queues) -/
theorem measure_decreases {s s' : St} (t : Th) (hs : step s t = some s') : measure s' < measure s :=
  measure_step s s' t hs

/-- all maximal executions from `s` of length ≤ `n` end with every drain of every thread returned -/
def AllRunsFinish : Nat → St → Prop
  | 0, s => finished s
  | n + 1, s => finished s ∨ ((∃ t s', step s t = some s') ∧ ∀ t s', step s t = some s' → AllRunsFinish n s')

/-- **Termination, k threads.** From every reachable state, however the `k + 2` threads are
    interleaved, within `measure s` steps every application thread has returned from all its
    `DrainCommandQueue` calls: no schedule postpones any drain forever, none gets stuck before. -/
theorem drain_terminates {s : St} (h : Reach s) : ∀ n, measure s ≤ n → AllRunsFinish n s := by
  intro n
  induction n generalizing s with
  | zero =>
    intro hm
    refine no_stuck_state h fun t => ?_
    cases hstep : step s t with
    | none => rfl
    | some s' => have := measure_decreases t hstep; omega
  | succ n ih =>
    intro hm
    by_cases hfin : finished s
    · exact Or.inl hfin
    · refine Or.inr ⟨?_, ?_⟩
      · refine Classical.byContradiction fun hn => hfin (no_stuck_state h fun t => ?_)
        cases hstep : step s t with
        | none => rfl
        | some s' => exact absurd ⟨t, s', hstep⟩ hn
      · intro t s' hstep
        have := measure_decreases t hstep
        exact ih (Reach.step t h hstep) (by omega)

/-- every schedule is at most `measure` steps long -/
theorem schedule_length_bounded (ts : List Th) : ∀ {s s' : St}, runSched s ts = some s' →
    ts.length + measure s' ≤ measure s := by
  induction ts with
  | nil => intro s s' hr; simp [runSched] at hr; subst hr; simp
  | cons t ts ih =>
    intro s s' hr
    simp only [runSched] at hr
    cases hstep : step s t with
    | none => simp [hstep] at hr
    | some s1 =>
      simp only [hstep] at hr
      have h1 := ih hr
      have h2 := measure_decreases t hstep
      simp only [List.length_cons]; omega

/-! ### the hypothesis on the scripts is needed -/

/-- deadlock freedom for ARBITRARY scripts (also scripts that end with an `Enqueue`) -/
def no_stuck_state_any_script : Prop := ∀ s, ReachAny s → stuck s → finished s

open Th in
/-- thread 0: `Enqueue(0); DrainCommandQueue(0)`; thread 1: `Enqueue(0)` and nothing else. Thread 1's
    command lands after the driver's last tick passed the queue and before thread 0's emptiness check. -/
def enqOnlyWitness : List Th :=
  [app 0, app 0, app 0, app 0,            -- enqueue c1 (+notify), subscribe, signal
   async, async,                          -- TickLater, engine started
   eng, eng, eng, eng, eng,               -- start, loop, Dequeue c1, Notify (token), end of tick (progress)
   eng, eng, eng,                         -- second tick: queue empty, no progress
   eng, eng, eng,                         -- Run returns, flag cleared, engine goroutine gone
   app 1, app 1,                          -- thread 1: Enqueue c2 — nobody wakes the driver
   app 0, app 0, app 0, app 0]            -- thread 0: 1 command → Wait (token) → 1 command → Wait: forever

/-- **The script hypothesis cannot be dropped.** `Driver.Enqueue` does not signal `runAsync` (the send
    is commented out in the code), so a thread that enqueues on a shared queue and never drains
    leaves another thread's `DrainCommandQueue` waiting forever. -/
theorem no_stuck_state_any_script_refuted : ¬ no_stuck_state_any_script := by
  intro h
  have hrun : ∃ s a0 a1, runSched (init [[.enq 0, .drain 0], [.enq 0]] 1) enqOnlyWitness = some s ∧
      s.apps = [a0, a1] ∧ a0.pc = .waiting ∧ a1.pc = .idle ∧ a1.script = [] ∧ s.r = .idle ∧ s.e = .none ∧
      s.qs.map (·.cmds) = [[2]] := ⟨_, _, _, rfl, rfl, rfl, rfl, rfl, rfl, rfl, rfl⟩
  obtain ⟨s, a0, a1, hs, hap, hpc0, hpc1, hsc1, hr, he, _⟩ := hrun
  have hreach : ∀ (ts : List Th) (s0 s1 : St), ReachAny s0 → runSched s0 ts = some s1 → ReachAny s1 := by
    intro ts
    induction ts with
    | nil => intro s0 s1 h0 hr; simp [runSched] at hr; subst hr; exact h0
    | cons t ts ih =>
      intro s0 s1 h0 hr
      simp only [runSched] at hr
      cases hstep : step s0 t with
      | none => simp [hstep] at hr
      | some s2 => simp only [hstep] at hr; exact ih s2 s1 (ReachAny.step t h0 hstep) hr
  have hR := hreach _ _ _ (ReachAny.init _ _) hs
  have hstuck : stuck s := by
    intro t
    cases t with
    | async => simp [step, hr]
    | eng => simp [step, he]
    | app j =>
      simp only [step, hap]
      match j with
      | 0 => simp [stepApp, hpc0]
      | 1 => simp [stepApp, hpc1, hsc1]
      | j + 2 => simp
  have hfin := h s hR hstuck a0 (by rw [hap]; simp)
  simp [appDone, hpc0] at hfin

/-! ### the hypotheses are met by non-trivial states (k = 2) -/

/-- two threads, two queues (one context or two contexts: the protocol does not distinguish) -/
example : Reach (init [[.enq 0, .enq 0, .drain 0], [.enq 1, .drain 1, .drain 1]] 2) :=
  Reach.init _ _ (by decide)
/-- two threads sharing one queue, one of them draining a queue it never filled -/
example : Reach (init [[.enq 0, .drain 0], [.enq 0, .drain 0, .enq 0, .drain 0]] 1) :=
  Reach.init _ _ (by decide)
example : measure (init [[.enq 0, .enq 0, .drain 0], [.enq 1, .drain 1, .drain 1]] 2) = 174 := by decide

open Th in
/-- both threads blocked in `Wait` on the same non-empty queue while the tick event is queued:
    reachable, not stuck, and the run continues to the end of both scripts -/
example : ∃ s, runSched (init [[.enq 0, .drain 0], [.enq 0, .drain 0]] 1)
      [app 0, app 0, app 1, app 1, app 0, app 1, app 0, app 1, async, async, app 1, app 0, app 0, app 1, app 1] = some s ∧
    s.apps.map (·.pc) = [.waiting, .waiting] ∧ s.qs.map (·.cmds) = [[1, 2]] ∧ s.evt = true ∧ ¬ stuck s := by
  refine ⟨_, rfl, by decide, by decide, by decide, ?_⟩
  intro h; have := h .eng; simp [step] at this

/-! ### the two-thread gate harness observes states of this model -/

/-- **Every gate-level move is a run of the model.** A move of the schedule-forcing harness for k
    application threads (`harness/c12_gate2.go`, role `a<j>` / `r` / `e`: release one parked
    goroutine and wait until everything is parked or blocked again — `macroStepK`, including the
    first-in first-out service of the senders blocked on `enqueueSignal`) is a finite sequence of
    atomic `K.step`s. The `c12 ksched2` cases therefore compare the real goroutines with runs of the
    very transition relation the theorems above quantify over. -/
theorem macroStepK_is_run (g g' : GSt) (role : String) (h : macroStepK g role = some g') :
    ∃ ts, runSched g.st ts = some g'.st :=
  macroStepK_isRun g g' role h

/-- **Every state the gate harness observes is reachable.** For scripts that end with a drain, the
    state after any list of harness moves (moves of roles that cannot move are skipped, as in
    `runTraceK`) is `Reach`able: `no_stuck_state`, `drain_terminates`, `no_lost_wakeup`,
    `waiter_queue_served` and `blocked_waiter_has_mover` all apply to it. -/
theorem observed_states_reach (scripts : List (List Op)) (nq : Nat)
    (hok : ∀ sc ∈ scripts, okScript sc = true) (roles : List String) :
    Reach (finalK (initK scripts nq) roles).st :=
  finalK_reach roles _ (Reach.init scripts nq hok)

/-- … in particular an observed state in which no thread can move has every script finished, and
    from every observed state all maximal executions end with all drains returned. -/
theorem observed_state_not_stuck_and_terminates (scripts : List (List Op)) (nq : Nat)
    (hok : ∀ sc ∈ scripts, okScript sc = true) (roles : List String) :
    let s := (finalK (initK scripts nq) roles).st
    (stuck s → finished s) ∧ AllRunsFinish (measure s) s :=
  ⟨no_stuck_state (observed_states_reach scripts nq hok roles),
   drain_terminates (observed_states_reach scripts nq hok roles) _ (Nat.le_refl _)⟩

open Th in
/-- non-vacuity: two threads sharing one queue; thread 1 blocks in the send while `runAsync` is busy
    with thread 0's signal (harness moves `a0 a1 a0 a1 a0 a1 r`), and is served (first in, first
    out) when `runAsync` is back in its `select` — the macro move `r` is the two atomic steps
    `async`, `app 1` of two different threads. -/
example : ∃ s, runSched (init [[.enq 0, .drain 0], [.enq 0, .drain 0]] 1)
      [app 0, app 0, app 1, app 1, app 0, app 1, app 0, app 1, async] = some s ∧
    s.apps.map (·.pc) = [.chk, .sending] ∧ s.r = .chkFlag ∧
    (macroStepK { st := s, blocked := [1] } "r").map
      (fun g' => (g'.blocked, g'.st.apps.map (·.pc), g'.st.r, g'.st.e, g'.st.running)) =
      some ([], [.chk, .chk], .tick, .start, true) ∧
    (runSched s [async, app 1]).map (fun s' => (s'.apps.map (·.pc), s'.r, s'.e, s'.running)) =
      some ([.chk, .chk], .tick, .start, true) := by
  refine ⟨_, rfl, by decide, by decide, ?_, by decide⟩
  unfold macroStepK
  rw [if_pos rfl]
  decide

end K
end C12
